import FatVerif.Props.C02sim
import FatVerif.Props.C03img
import FatVerif.Proofs.FatMore
import FatVerif.Proofs.LfnSlot
/-! C04, part 2: reading a file to its end returns the bytes an independent decoder finds in the image — the clusters of
    the chain the SPECIFICATION's FAT decoder (`FatSpec.specChain` on the FAT bytes of the image) walks, cut at `size`. -/
namespace FatVerif.DecodeAgree
open FatVerif FatVerif.Fat FatVerif.FileSim

/-! ### the table the programs see is the specification's decode of the FAT bytes -/

theorem tableOk_of_geo {fs : FsState} {sz : Nat} (g : Geo fs sz) (img : Img) :
    TableOk fs.fatType (imgFatBytes fs img) fs.totalClusters := by
  refine ⟨wf_fatBytes _ _ _, ?_, g.small⟩
  intro c hc
  have he := g.ents c hc
  have hz := g.fat_u32
  have hsz : (imgFatBytes fs img).size = (fatSliceOf fs).size := fatBytes_size _ _ _
  unfold InRange
  rw [hsz]
  cases hft : fs.fatType <;> simp only [hft, entOff, entWidth, off, width, u32Lim] at * <;> omega

/-- inside the table, `tabView` (what `ClusterIterator`, `File::read`, `File::seek` follow) is `FatSpec.specValue` of
    the FAT bytes of the image -/
theorem tabView_spec {fs : FsState} {sz : Nat} (g : Geo fs sz) (img : Img) (c : Nat) (hc : c < fs.totalClusters + 2) :
    tabView fs img c = FatSpec.specValue fs.fatType.bits (imgFatBytes fs img) c := by
  have ht := tableOk_of_geo g img
  unfold tabView
  rw [if_pos hc, C03img.imgFatView_eq_view_table fs img fs.totalClusters ht c hc]
  exact view_spec ht hc

/-- a chain of the programs' table that stays inside the table is the chain the specification decoder walks -/
theorem specChain_of_chain (bits : Nat) (fat : Array Nat) (n : Nat) (g : Nat → FatValue)
    (hg : ∀ c, c < n → g c = FatSpec.specValue bits fat c) :
    ∀ (c : Nat) (cs : List Nat), Chain g c cs → (∀ x ∈ cs, 2 ≤ x ∧ x < n) → ∀ fuel, cs.length ≤ fuel →
      FatSpec.specChain bits fat n fuel c = some cs := by
  intro c cs h
  induction h with
  | last c hl =>
    intro hin fuel hf
    obtain ⟨k, rfl⟩ : ∃ k, fuel = k + 1 := ⟨fuel - 1, by simp at hf; omega⟩
    have hc := hin c (by simp)
    have hv := hg c hc.2
    unfold FatSpec.specChain
    rw [if_neg (by omega)]
    cases hs : FatSpec.specValue bits fat c with
    | data nx => rw [hs] at hv; exact absurd hv (hl nx)
    | free => rfl
    | bad => rfl
    | eoc => rfl
  | cons c nx cs hd _ ih =>
    intro hin fuel hf
    obtain ⟨k, rfl⟩ : ∃ k, fuel = k + 1 := ⟨fuel - 1, by simp at hf; omega⟩
    have hc := hin c (by simp)
    have hv := hg c hc.2
    unfold FatSpec.specChain
    rw [if_neg (by omega), ← hv, hd]
    simp only
    rw [ih (fun x hx => hin x (by simp [hx])) k (by simp at hf; omega)]
    rfl

/-- the specification's chain of a first cluster in the image of a volume mounted as `fs` -/
def specChainOf (fs : FsState) (img : Img) (c0 : Nat) : Option (List Nat) :=
  FatSpec.specChain fs.fatType.bits (imgFatBytes fs img) (fs.totalClusters + 2) (fs.totalClusters + 2) c0

/-- the content an independent decoder reads: the clusters of the specification's chain, concatenated, cut at `size` -/
def specContent (fs : FsState) (img : Img) (first : Option Nat) (size : Nat) : List Nat :=
  match first with
  | none => []
  | some c0 =>
    match specChainOf fs img c0 with
    | none => []
    | some chain => (chain.flatMap fun c => img.read (clusterOff fs c) fs.clusterSize).take size

theorem fileChain_spec {fs : FsState} {img : Img} {f : FileH} (g : Geo fs img.size) (hrep : FileRep fs img f) (c0 : Nat)
    (hf : f.firstCluster = some c0) : specChainOf fs img c0 = some (fileChain fs img f) := by
  unfold specChainOf
  apply specChain_of_chain _ _ _ (tabView fs img) (fun c hc => tabView_spec g img c hc) c0 _ (hrep.chain c0 hf)
    hrep.inTab
  exact nodup_length_le hrep.inv.nodup (fun c hc => (hrep.inTab c hc).2)

/-! ### the content of the cursor machine's state is that concatenation -/

theorem flatMap_clusters_getD (fs : FsState) (img : Img) (hcs : 0 < fs.clusterSize) : ∀ (chain : List Nat) (p : Nat),
    p < chain.length * fs.clusterSize →
    (chain.flatMap fun c => img.read (clusterOff fs c) fs.clusterSize).getD p 0 =
      img.getByte (clusterOff fs (chain.getD (p / fs.clusterSize) 0) + p % fs.clusterSize) := by
  intro chain
  induction chain with
  | nil => intro p hp; simp at hp
  | cons c t ih =>
    intro p hp
    simp only [List.flatMap_cons]
    by_cases hlt : p < fs.clusterSize
    · rw [List.getD_eq_getElem?_getD, List.getElem?_append_left (by simp; exact hlt), ← List.getD_eq_getElem?_getD,
        Img.read_getD _ _ _ _ hlt, Nat.div_eq_of_lt hlt, Nat.mod_eq_of_lt hlt]
      rfl
    · have hge : fs.clusterSize ≤ p := Nat.le_of_not_lt hlt
      rw [List.getD_eq_getElem?_getD, List.getElem?_append_right (by simp; exact hge), ← List.getD_eq_getElem?_getD]
      simp only [Img.read_length]
      have hp' : p - fs.clusterSize < t.length * fs.clusterSize := by
        simp only [List.length_cons, Nat.add_mul, Nat.one_mul] at hp; omega
      rw [ih _ hp']
      have e1 : p / fs.clusterSize = (p - fs.clusterSize) / fs.clusterSize + 1 := by
        have := Nat.add_div_right (p - fs.clusterSize) hcs
        rw [show p - fs.clusterSize + fs.clusterSize = p by omega] at this
        exact this
      have e2 : p % fs.clusterSize = (p - fs.clusterSize) % fs.clusterSize := by
        have := Nat.add_mod_right (p - fs.clusterSize) fs.clusterSize
        rw [show p - fs.clusterSize + fs.clusterSize = p by omega] at this
        exact this
      rw [e1, e2, List.getD_cons_succ]

theorem content_eq_clusters (fs : FsState) (img : Img) (f : FileH) (hcs : 0 < fs.clusterSize)
    (hcov : (absFile fs img f).size ≤ (fileChain fs img f).length * fs.clusterSize) :
    (absFile fs img f).content =
      ((fileChain fs img f).flatMap fun c => img.read (clusterOff fs c) fs.clusterSize).take (absFile fs img f).size := by
  apply Lfn.ext_getD _ _ 0
  · simp [List.length_flatMap, Img.read_length]
    have : (List.map (fun _ => fs.clusterSize) (fileChain fs img f)).sum = (fileChain fs img f).length * fs.clusterSize := by
      induction (fileChain fs img f) with
      | nil => simp
      | cons a t ih => simp [ih, Nat.add_mul]; omega
    rw [this]; omega
  · intro i hi
    simp only [Cursor.AFile.content_length] at hi
    have e : (List.take (absFile fs img f).size
          (List.flatMap (fun c => img.read (clusterOff fs c) fs.clusterSize) (fileChain fs img f))).getD i 0 =
        (List.flatMap (fun c => img.read (clusterOff fs c) fs.clusterSize) (fileChain fs img f)).getD i 0 := by
      simp only [List.getD_eq_getElem?_getD, List.getElem?_take_of_lt hi]
    rw [e, flatMap_clusters_getD fs img hcs _ i (by omega)]
    have hi' : i < f.size?.getD 0 := hi
    have hc : (absFile fs img f).content.getD i 0 = (absFile fs img f).byteAt i := by
      unfold Cursor.AFile.content
      simp [List.getD_eq_getElem?_getD, hi]
    rw [hc]
    simp [Cursor.AFile.byteAt, absFile, List.getD_eq_getElem?_getD]

/-! ### `readall`: `read(4096)` until it returns nothing -/

/-- the loop of `readall` from a represented handle: it returns what was accumulated followed by the rest of the
    content from the cursor on; device image, log and mounted state are untouched; the handle stays represented -/
theorem readAllLoop_sim : ∀ (fuel : Nat) (f : FileH) (acc : List Nat) (d : Dev),
    d.failAt = none → Geo d.fs d.img.size → FileRep d.fs d.img f →
    (absFile d.fs d.img f).size - f.offset < fuel →
    ∃ f' d', run (Session.readAllLoop fuel f acc) d =
        (.ok (acc ++ (absFile d.fs d.img f).content.drop f.offset, f'), d') ∧
      SameStore d d' ∧ FileRep d.fs d.img f' := by
  intro fuel
  induction fuel with
  | zero => intro f acc d _ _ _ h; omega
  | succ fuel ih =>
    intro f acc d hfa hg hrep hfuel
    obtain ⟨bs, f', d1, hr, hs, hres, hab, hrep'⟩ := read_sim f 4096 d hfa hg hrep
    obtain ⟨post, _⟩ := hrep.inv.read_post 4096
    have hbs : bs = ((absFile d.fs d.img f).content.drop f.offset).take ((absFile d.fs d.img f).readLen 4096) := by
      have := post.res
      rw [hres] at this
      exact Except.ok.inj this
    have hoffle : f.offset ≤ (absFile d.fs d.img f).size := hrep.inv.off_le
    have hcs : 0 < (absFile d.fs d.img f).cs := hrep.inv.cs_pos
    have hmod : f.offset % (absFile d.fs d.img f).cs < (absFile d.fs d.img f).cs := Nat.mod_lt _ hcs
    have hk : (absFile d.fs d.img f).readLen 4096 ≤ (absFile d.fs d.img f).size - f.offset := by
      unfold Cursor.AFile.readLen; exact Nat.min_le_right _ _
    have hklen : bs.length = (absFile d.fs d.img f).readLen 4096 := by
      rw [hbs]; simp [Cursor.AFile.content_length]; omega
    have hoff' : f'.offset = f.offset + (absFile d.fs d.img f).readLen 4096 := by
      have := post.offset
      rw [← hab] at this
      exact this
    have hrun : run (Session.readAllLoop (fuel + 1) f acc) d =
        run (if bs.isEmpty then pure (acc, f') else Session.readAllLoop fuel f' (acc ++ bs)) d1 := by
      simp only [Session.readAllLoop]
      exact run_bind_ok hr
    rw [hrun]
    by_cases hemp : bs.isEmpty = true
    · rw [if_pos hemp]
      have hb0 : bs = [] := List.isEmpty_iff.1 hemp
      have hk0 : (absFile d.fs d.img f).readLen 4096 = 0 := by rw [← hklen, hb0]; rfl
      have hend : (absFile d.fs d.img f).size - f.offset = 0 := by
        unfold Cursor.AFile.readLen at hk0
        have hoffeq : (absFile d.fs d.img f).offset = f.offset := rfl
        rw [hoffeq] at hk0
        omega
      have hdrop : (absFile d.fs d.img f).content.drop f.offset = [] := by
        apply List.drop_of_length_le
        rw [Cursor.AFile.content_length]; omega
      rw [hdrop, List.append_nil]
      exact ⟨f', d1, rfl, hs, hrep'⟩
    · rw [if_neg hemp]
      have hbne : bs ≠ [] := fun h => hemp (by rw [h]; rfl)
      have hkpos : 0 < (absFile d.fs d.img f).readLen 4096 := by
        rw [← hklen]; exact List.length_pos_iff.2 hbne
      have hsize' : (absFile d.fs d.img f').size = (absFile d.fs d.img f).size := by rw [hab]; exact post.size
      have hcont' : (absFile d.fs d.img f').content = (absFile d.fs d.img f).content := by rw [hab]; exact post.content
      obtain ⟨f'', d2, hr2, hs2, hrep2⟩ := ih f' (acc ++ bs) d1 (by rw [hs.failAt]; exact hfa)
        (by rw [hs.fs, hs.img]; exact hg) (by rw [hs.fs, hs.img]; exact hrep')
        (by rw [hs.fs, hs.img, hsize', hoff']; omega)
      refine ⟨f'', d2, ?_, hs.trans hs2, by rw [← hs.fs, ← hs.img]; exact hrep2⟩
      rw [hr2, hs.fs, hs.img, hcont', hoff', hbs, List.append_assoc]
      congr 3
      rw [← List.drop_drop, List.take_append_drop]

/-- **reading a file to its end** from a freshly opened handle (cursor at 0): the bytes are the specification's content
    of the image for the handle's first cluster and recorded size -/
theorem readAll_specContent (f : FileH) (d : Dev) (hfa : d.failAt = none) (hg : Geo d.fs d.img.size)
    (hrep : FileRep d.fs d.img f) (h0 : f.offset = 0) (fuel : Nat) (hfuel : f.size?.getD 0 < fuel) :
    ∃ f' d', run (Session.readAllLoop fuel f []) d =
        (.ok (specContent d.fs d.img f.firstCluster (f.size?.getD 0), f'), d') ∧
      SameStore d d' ∧ FileRep d.fs d.img f' := by
  obtain ⟨f', d', hr, hs, hrep'⟩ := readAllLoop_sim fuel f [] d hfa hg hrep (by
    show f.size?.getD 0 - f.offset < fuel
    omega)
  refine ⟨f', d', ?_, hs, hrep'⟩
  have hcs : 0 < d.fs.clusterSize := hrep.inv.cs_pos
  have hcov : (absFile d.fs d.img f).size ≤ (fileChain d.fs d.img f).length * d.fs.clusterSize := hrep.inv.cover
  have hAB : (absFile d.fs d.img f).content = specContent d.fs d.img f.firstCluster (f.size?.getD 0) := by
    rw [content_eq_clusters d.fs d.img f hcs hcov]
    show _ = specContent d.fs d.img f.firstCluster (absFile d.fs d.img f).size
    unfold specContent
    cases hf : f.firstCluster with
    | none =>
      have hch : fileChain d.fs d.img f = [] := by unfold fileChain; rw [hf]
      rw [hch] at hcov ⊢
      simp
    | some c0 =>
      simp only
      rw [fileChain_spec hg hrep c0 hf]
  rw [hr, h0, List.drop_zero, List.nil_append, hAB]

end FatVerif.DecodeAgree
