import FatVerif.Proofs.DirWriteSim37
import FatVerif.Proofs.SlotTreeNode
/-! Directory WRITES, part 38: the outcomes of the mutating calls that only READ (single-component paths): the name
    exists (`create_file` / `create_dir` open it, or fail on the wrong kind), the name is missing (`remove`, `rename`),
    the directory is not empty (`remove`), the destination exists (`rename`). The volume is kept in all of them. -/
namespace FatVerif.DirSim
open FatVerif.FileSim FatVerif.Fat DirEntryData DirAlias

/-- an entry returned by `check_for_existence` is listed and has the requested kind -/
theorem check_entry_facts (up : Char → List Char) (slots : List (List Nat)) (name : String) (isDir : Option Bool)
    (fuel : Nat) (le : LfnEntry) (h : checkForExistenceL up slots name isDir fuel = .ok (.entry le)) :
    le ∈ DirSlots.listing slots ∧ ∀ b, isDir = some b → Lfn.isDir le.sfn = b := by
  rcases SlotTree.check_cases up slots name isDir fuel with h1 | ⟨e, hf, hk, hc⟩ | ⟨e, _, _, hc⟩ | ⟨_, a, hc⟩
  · rw [h1] at h; cases h
  · rw [hc] at h
    cases h
    refine ⟨List.mem_of_find?_eq_some hf, fun b hb => ?_⟩
    subst hb
    exact (SlotTree.kind_ok_iff b le).mp hk
  · rw [hc] at h; cases h
  · rw [hc] at h; cases h

namespace DirView
variable {d : Dev} {st : DirStream}

/-- the pure `check_for_existence` of a view -/
def check (V : DirView d st) (env : Env) (name : String) (isDir : Option Bool) : Except Err EntryOrAlias :=
  DirAlias.checkForExistenceL env.upper (srcSlots d.img V.src V.N) name isDir 70000

theorem checkForExistence_sim (V : DirView d st) (ha : d.fs.lfnAlloc = true) (env : Env) (name : String)
    (isDir : Option Bool) (d1 : Dev) (hv : SameVol d d1) :
    Outcome (checkForExistence env st name isDir) d1 (liftEOA V.src) (V.check env name isDir) := by
  obtain ⟨S, N, src, room, start, dir, fuel⟩ := V
  subst start
  exact dir.checkForExistence_sim fuel ha env name isDir d1 hv

theorem check_entry_isDir (V : DirView d st) (ha : d.fs.lfnAlloc = true) (env : Env) (name : String) (b : Bool)
    (le : LfnEntry) (h : V.check env name (some b) = .ok (.entry le)) : (toDirEntryS V.src le).isDir = b := by
  obtain ⟨hm, hk⟩ := check_entry_facts _ _ _ _ _ _ h
  unfold DirSlots.listing at hm
  rw [toDirEntryS_isDir V.src le (srcEntries_slotOK true true _ _ _ le hm)]
  exact hk b rfl

/-- **`create_file(name)` when a file of that name exists**: it is opened -/
theorem createFile_exists_sim (V : DirView d st) (ha : d.fs.lfnAlloc = true) (env : Env) (path name : String)
    (hsp : Names.splitPath path = (name, none)) (hdot : (name = "." || name = "..") = false) (le : LfnEntry)
    (h : V.check env name (some false) = .ok (.entry le)) (fuel : Nat) (d1 : Dev) (hv : SameVol d d1) :
    Reads (createFile env (fuel + 1) st path) d1
      (FileH.new ((toDirEntryS V.src le).firstCluster d.fs) (some (toDirEntryS V.src le).editor)) := by
  have hce := V.checkForExistence_sim ha env name (some false) 
  unfold FatVerif.createFile
  refine Reads.bind (Reads.getFs d1) (fun d2 hs2 => ?_)
  rw [hv.fs, hsp]
  simp only [hdot, Bool.false_eq_true, if_false]
  have := hce d2 (hv.trans hs2)
  rw [h] at this
  refine Reads.bind this (fun d3 _ => ?_)
  simp only [liftEOA]
  unfold DirEntry.toFile
  rw [V.check_entry_isDir ha env name false le h]
  exact Reads.pure _ d3

/-- **`create_file(name)` when `check_for_existence` fails** (a directory of that name: `InvalidInput`; …) -/
theorem createFile_fails_sim (V : DirView d st) (ha : d.fs.lfnAlloc = true) (env : Env) (path name : String)
    (hsp : Names.splitPath path = (name, none)) (hdot : (name = "." || name = "..") = false) (err : Err)
    (h : V.check env name (some false) = .error err) (fuel : Nat) (d1 : Dev) (hv : SameVol d d1) :
    FailsV (createFile env (fuel + 1) st path) d1 err := by
  have hce := V.checkForExistence_sim ha env name (some false)
  unfold FatVerif.createFile
  refine FailsV.bind_right (Reads.getFs d1) (fun d2 hs2 => ?_)
  rw [hsp]
  simp only [hdot, Bool.false_eq_true, if_false]
  have := hce d2 (hv.trans hs2)
  rw [h] at this
  exact FailsV.bind_left this

/-- **`create_dir(name)` when a directory of that name exists**: it is opened -/
theorem createDir_exists_sim (V : DirView d st) (ha : d.fs.lfnAlloc = true) (env : Env) (path name : String)
    (hsp : Names.splitPath path = (name, none)) (le : LfnEntry)
    (h : V.check env name (some true) = .ok (.entry le)) (fuel : Nat) (d1 : Dev) (hv : SameVol d d1) :
    Reads (createDir env (fuel + 1) st path) d1 (DirEntry.dirStream d.fs (toDirEntryS V.src le)) := by
  have hce := V.checkForExistence_sim ha env name (some true)
  unfold FatVerif.createDir
  refine Reads.bind (Reads.getFs d1) (fun d2 hs2 => ?_)
  rw [hv.fs, hsp]
  simp only
  have := hce d2 (hv.trans hs2)
  rw [h] at this
  refine Reads.bind this (fun d3 _ => ?_)
  simp only [liftEOA]
  exact toDir_sim d.fs _ (V.check_entry_isDir ha env name true le h) d3

theorem createDir_fails_sim (V : DirView d st) (ha : d.fs.lfnAlloc = true) (env : Env) (path name : String)
    (hsp : Names.splitPath path = (name, none)) (err : Err)
    (h : V.check env name (some true) = .error err) (fuel : Nat) (d1 : Dev) (hv : SameVol d d1) :
    FailsV (createDir env (fuel + 1) st path) d1 err := by
  have hce := V.checkForExistence_sim ha env name (some true)
  unfold FatVerif.createDir
  refine FailsV.bind_right (Reads.getFs d1) (fun d2 hs2 => ?_)
  rw [hsp]
  simp only
  have := hce d2 (hv.trans hs2)
  rw [h] at this
  exact FailsV.bind_left this

/-- **`remove(name)` when the lookup fails** (`NotFound`) -/
theorem remove_fails_sim (V : DirView d st) (env : Env) (path name : String)
    (hsp : Names.splitPath path = (name, none)) (hdot : (name = "." || name = "..") = false) (err : Err)
    (h : V.lookup env name none = .error err) (fuel : Nat) (d1 : Dev) (hv : SameVol d d1) :
    FailsV (remove env (fuel + 1) st path) d1 err := by
  unfold FatVerif.remove
  refine FailsV.bind_right (Reads.getFs d1) (fun d2 hs2 => ?_)
  rw [hsp]
  simp only [hdot, Bool.false_eq_true, if_false]
  have := V.findEntry_sim env name none d2 (hv.trans hs2)
  rw [h] at this
  exact FailsV.bind_left this

/-- **`remove(name)` of a directory that is not empty**: `DirNotEmpty`, nothing changes -/
theorem remove_nonEmpty_sim (V : DirView d st) (env : Env) (path name : String)
    (hsp : Names.splitPath path = (name, none)) (hdot : (name = "." || name = "..") = false) (e : DirEntry)
    (h : V.lookup env name none = .ok e) (hdir : e.isDir = true) (Vs : DirView d (DirEntry.dirStream d.fs e))
    (hne : Vs.isEmptyV = false) (fuel : Nat) (d1 : Dev) (hv : SameVol d d1) :
    FailsV (remove env (fuel + 1) st path) d1 .dirNotEmpty := by
  unfold FatVerif.remove
  refine FailsV.bind_right (Reads.getFs d1) (fun d2 hs2 => ?_)
  rw [hv.fs, hsp]
  simp only [hdot, Bool.false_eq_true, if_false]
  have hf := V.findEntry_sim env name none d2 (hv.trans hs2)
  rw [h] at hf
  refine FailsV.bind_right hf (fun d3 hs3 => ?_)
  simp only [id, hdir, if_true]
  have hv3 := (hv.trans hs2).trans hs3
  have hne' : Reads (do
      let sub ← e.toDir d.fs
      let emp ← thenDrop sub (isEmpty sub)
      pure (!emp)) d3 true := by
    refine Reads.bind (toDir_sim d.fs e hdir d3) (fun d4 hs4 => ?_)
    have hv4 := hv3.trans hs4
    refine Reads.bind (Reads.thenDrop (Vs.isEmpty_sim d4 hv4) (fun d5 hs5 => Vs.drop_sim d5 (hv4.trans hs5)))
      (fun d5 _ => ?_)
    rw [hne]
    exact Reads.pure _ d5
  refine FailsV.bind_right hne' (fun d4 _ => ?_)
  simp only [if_true]
  exact ⟨d4, rfl, SameVol.refl d4⟩

/-- **`rename_internal` when the source lookup fails** -/
theorem rename_src_fails_sim (V1 : DirView d st) (env : Env) (srcName dstName : String) (st2 : DirStream)
    (hdots : (srcName = "." || srcName = ".." || dstName = "." || dstName = "..") = false) (err : Err)
    (h : V1.lookup env srcName none = .error err) (d1 : Dev) (hv : SameVol d d1) :
    FailsV (renameInternal env st srcName st2 dstName) d1 err := by
  unfold renameInternal
  rw [if_neg (by rw [hdots]; decide)]
  refine FailsV.bind_right (Reads.getFs d1) (fun d2 hs2 => ?_)
  have := V1.findEntry_sim env srcName none d2 (hv.trans hs2)
  rw [h] at this
  exact FailsV.bind_left this

/-- **`rename_internal` of a file when the destination name exists**: `AlreadyExists`, unless the entry found is the
    source entry itself (then nothing happens); the volume is kept either way -/
theorem rename_file_dst_exists_sim (V1 : DirView d st) {st2 : DirStream} (V2 : DirView d st2) (ha : d.fs.lfnAlloc = true)
    (env : Env) (srcName dstName : String)
    (hdots : (srcName = "." || srcName = ".." || dstName = "." || dstName = "..") = false)
    (hval : Names.validateLongName dstName = .ok ()) (e : DirEntry) (h : V1.lookup env srcName none = .ok e)
    (hfile : e.isDir = false) (le : LfnEntry) (hchk : V2.check env dstName none = .ok (.entry le))
    (d1 : Dev) (hv : SameVol d d1) :
    (e.entryPos = (toDirEntryS V2.src le).entryPos → Reads (renameInternal env st srcName st2 dstName) d1 ()) ∧
    (e.entryPos ≠ (toDirEntryS V2.src le).entryPos →
      FailsV (renameInternal env st srcName st2 dstName) d1 .alreadyExists) := by
  have hf := fun d2 hv2 => V1.findEntry_sim env srcName none d2 hv2
  rw [h] at hf
  have hce := fun d2 hv2 => V2.checkForExistence_sim ha env dstName none d2 hv2
  rw [hchk] at hce
  constructor
  · intro heq
    unfold renameInternal
    rw [if_neg (by rw [hdots]; decide)]
    refine Reads.bind (Reads.getFs d1) (fun d2 hs2 => ?_)
    refine Reads.bind (hf d2 (hv.trans hs2)) (fun d3 hs3 => ?_)
    simp only [id, liftE, hval, hfile, Bool.false_eq_true, if_false]
    refine Reads.bind (Reads.pure () d3) (fun d4 hs4 => ?_)
    refine Reads.bind (hce d4 (((hv.trans hs2).trans hs3).trans hs4)) (fun d5 _ => ?_)
    simp only [liftEOA, heq, if_true]
    exact Reads.pure () d5
  · intro hneq
    unfold renameInternal
    rw [if_neg (by rw [hdots]; decide)]
    refine FailsV.bind_right (Reads.getFs d1) (fun d2 hs2 => ?_)
    refine FailsV.bind_right (hf d2 (hv.trans hs2)) (fun d3 hs3 => ?_)
    simp only [id, liftE, hval, hfile, Bool.false_eq_true, if_false]
    refine FailsV.bind_right (Reads.pure () d3) (fun d4 hs4 => ?_)
    refine FailsV.bind_right (hce d4 (((hv.trans hs2).trans hs3).trans hs4)) (fun d5 _ => ?_)
    simp only [liftEOA, hneq, if_false]
    exact ⟨d5, rfl, SameVol.refl d5⟩

end DirView

end FatVerif.DirSim
