import FatVerif.Proofs.FatImgZero3
/-! `ClusterIterator::free` / `truncate`, `free_cluster_chain` / `truncate_cluster_chain` on a volume marked dirty or
    not: the first FAT write marks the volume, the rest is the dirty case of Proofs/FileSimFatFree.lean. -/
namespace FatVerif.FileSim
open FatVerif FatVerif.Fat

theorem fatDev_of_marked {fs : FsState} {d d2 : Dev} (hfa : d.failAt = none) (hwf : d.img.WF) (hg : Geo fs d.img.size)
    (hst : DevStep d d2) (hfs : d2.fs = markedFs d.fs) : FatDev fs d2 :=
  ⟨by rw [hst.failAt]; exact hfa, by rw [hfs]; exact markedFs_curDirty _, hst.wf hwf, by rw [hst.size]; exact hg⟩

/-- `ClusterIterator::free` from the head of a chain, volume marked dirty or not -/
theorem run_citer_free_any (fs : FsState) (cs : List Nat) (n fuel : Nat) (s : DiskSlice) (d : Dev)
    (hfa : d.failAt = none) (hwf : d.img.WF) (hg : Geo fs d.img.size)
    (hch : Chain (tabView fs d.img) n cs) (hnd : cs.Nodup) (hin : ∀ x ∈ cs, x < fs.totalClusters + 2)
    (hfuel : cs.length + 1 ≤ fuel) (hsl : IsFatSlice fs s) :
    ∃ d' it', run (Table.CIter.free DiskSlice.strm fs.fatType fuel { fat := s, cluster := some n }) d =
        (.ok (cs.length, it'), d') ∧
      DevStep d d' ∧ d'.fs = markedFs d.fs ∧ tabView fs d'.img = freedView (tabView fs d.img) cs ∧
      (∀ q, 0x42 ≤ q → OutsideFat fs q → d'.img.getByte q = d.img.getByte q) := by
  cases cs with
  | nil => exact absurd rfl (chain_ne_nil hch)
  | cons m ms =>
    obtain ⟨t, ht⟩ := chain_head hch
    have hmn : m = n := by cases ht; rfl
    subst hmn
    obtain ⟨k, hk⟩ : ∃ k, fuel = k + 1 := ⟨fuel - 1, by simp at hfuel; omega⟩
    subst hk
    have hmt : m < fs.totalClusters + 2 := hin m (by simp)
    unfold Table.CIter.free Table.CIter.freeLoop
    simp only
    obtain ⟨d1, s1, h1, hs1, hsl1⟩ := run_citer_next fs { fat := s, cluster := some m } m d hfa hg hsl rfl rfl hmt
    rw [run_bind_ok h1]
    have hfa1 : d1.failAt = none := by rw [hs1.failAt]; exact hfa
    have hwf1 : d1.img.WF := by rw [hs1.img]; exact hwf
    have hg1 : Geo fs d1.img.size := by rw [hs1.img]; exact hg
    obtain ⟨d2, s2, h2, hsl2, hst2, hfs2, htv2, hfr2⟩ :=
      run_table_set_view_any fs s1 hsl1 m .free d1 hfa1 hwf1 hg1 hmt (rep_free _)
    rw [hs1.img] at htv2
    have hd2 : FatDev fs d2 := fatDev_of_marked hfa1 hwf1 hg1 hst2 hfs2
    have hfuel' : ms.length + 1 ≤ k := by simp at hfuel; omega
    cases hch with
    | last _ hl =>
      have hnv : nextV (tabView fs d.img) m = none := nextV_last hl
      rw [hnv]
      simp only [Option.map]
      rw [run_bind_ok h2]
      obtain ⟨k', hk'⟩ : ∃ k', k = k' + 1 := ⟨k - 1, by omega⟩
      subst hk'
      unfold Table.CIter.freeLoop
      simp only
      refine ⟨d2, _, rfl, (DevStep.of_sameStore hs1).trans hst2, by rw [hfs2, hs1.fs], ?_, ?_⟩
      · rw [htv2]
        funext x
        unfold freedView updV
        by_cases hx : x = m <;> simp [hx]
      · intro q h1 h2; rw [hfr2 q h1 h2, hs1.img]
    | cons _ k' _ hdk hch' =>
      have hnv : nextV (tabView fs d.img) m = some k' := nextV_data hdk
      rw [hnv]
      simp only [Option.map]
      rw [run_bind_ok h2]
      have hmms : m ∉ ms := (List.nodup_cons.mp hnd).1
      have hch2 : Chain (tabView fs d2.img) k' ms := by
        rw [htv2]; exact chain_updV_other _ m .free _ _ hch' hmms
      obtain ⟨d3, it3, h3, hst3, hfs3, htv3, hfr3⟩ := run_freeLoop fs ms k' k
        { fat := s2, cluster := some k' } (0 + 1) d2 hd2 hch2 (List.nodup_cons.mp hnd).2
        (fun x hx => hin x (List.mem_cons_of_mem _ hx)) hfuel' rfl rfl hsl2
      refine ⟨d3, it3, ?_, ((DevStep.of_sameStore hs1).trans hst2).trans hst3, by rw [hfs3, hfs2, hs1.fs], ?_, ?_⟩
      · have e : 0 + 1 + ms.length = (m :: ms).length := by simp only [List.length_cons]; omega
        rw [h3, e]
      · rw [htv3, htv2, freedView_cons]
      · intro q h1 h2; rw [hfr3 q h2, hfr2 q h1 h2, hs1.img]

/-- `ClusterIterator::truncate` at the head of a chain, volume marked dirty or not -/
theorem run_citer_truncate_any (fs : FsState) (t : List Nat) (n fuel : Nat) (s : DiskSlice) (d : Dev)
    (hfa : d.failAt = none) (hwf : d.img.WF) (hg : Geo fs d.img.size)
    (hch : Chain (tabView fs d.img) n (n :: t)) (hnd : (n :: t).Nodup)
    (hin : ∀ x ∈ n :: t, x < fs.totalClusters + 2) (hfuel : t.length + 2 ≤ fuel) (hsl : IsFatSlice fs s) :
    ∃ d' it', run (Table.CIter.truncate DiskSlice.strm fs.fatType fuel { fat := s, cluster := some n }) d =
        (.ok (t.length, it'), d') ∧
      DevStep d d' ∧ d'.fs = markedFs d.fs ∧
      tabView fs d'.img = freedView (updV (tabView fs d.img) n .eoc) t ∧
      (∀ q, 0x42 ≤ q → OutsideFat fs q → d'.img.getByte q = d.img.getByte q) := by
  have hnt : n < fs.totalClusters + 2 := hin n (by simp)
  unfold Table.CIter.truncate
  simp only
  obtain ⟨d1, s1, h1, hs1, hsl1⟩ := run_citer_next fs { fat := s, cluster := some n } n d hfa hg hsl rfl rfl hnt
  rw [run_bind_ok h1]
  have hfa1 : d1.failAt = none := by rw [hs1.failAt]; exact hfa
  have hwf1 : d1.img.WF := by rw [hs1.img]; exact hwf
  have hg1 : Geo fs d1.img.size := by rw [hs1.img]; exact hg
  obtain ⟨d2, s2, h2, hsl2, hst2, hfs2, htv2, hfr2⟩ :=
    run_table_set_view_any fs s1 hsl1 n .eoc d1 hfa1 hwf1 hg1 hnt (rep_eoc _)
  rw [hs1.img] at htv2
  have hd2 : FatDev fs d2 := fatDev_of_marked hfa1 hwf1 hg1 hst2 hfs2
  cases hch with
  | last _ hl =>
    have hnv : nextV (tabView fs d.img) n = none := nextV_last hl
    rw [hnv]
    simp only [Option.map]
    rw [run_bind_ok h2]
    obtain ⟨k, hk⟩ : ∃ k, fuel = k + 1 := ⟨fuel - 1, by omega⟩
    subst hk
    refine ⟨d2, { fat := s2, cluster := none }, ?_, (DevStep.of_sameStore hs1).trans hst2, by rw [hfs2, hs1.fs], ?_, ?_⟩
    · unfold Table.CIter.free Table.CIter.freeLoop
      rfl
    · rw [htv2, freedView_nil]
    · intro q h1 h2; rw [hfr2 q h1 h2, hs1.img]
  | cons _ k' _ hdk hch' =>
    have hnv : nextV (tabView fs d.img) n = some k' := nextV_data hdk
    rw [hnv]
    simp only [Option.map]
    rw [run_bind_ok h2]
    have hnt' : n ∉ t := (List.nodup_cons.mp hnd).1
    have hch2 : Chain (tabView fs d2.img) k' t := by
      rw [htv2]; exact chain_updV_other _ n .eoc _ _ hch' hnt'
    obtain ⟨d3, it3, h3, hst3, hfs3, htv3, hfr3⟩ := run_citer_free fs t k' fuel s2 d2 hd2 hch2
      (List.nodup_cons.mp hnd).2 (fun x hx => hin x (List.mem_cons_of_mem _ hx)) (by omega) hsl2
    refine ⟨d3, it3, h3, ((DevStep.of_sameStore hs1).trans hst2).trans hst3, by rw [hfs3, hfs2, hs1.fs], ?_, ?_⟩
    · rw [htv3, htv2]
    · intro q h1 h2; rw [hfr3 q h2, hfr2 q h1 h2, hs1.img]

theorem infoOk_marked {fs : FsState} {img : Img} (h : InfoOk fs img) : InfoOk (markedFs fs) img := by
  refine ⟨fun n hn => h.hint n (by rw [markedFs_fsInfo] at hn; exact hn), fun n hn => ?_⟩
  rw [(markedFs_geom fs).tabView, (markedFs_geom fs).totalClusters]
  exact h.count n (by rw [markedFs_fsInfo] at hn; exact hn)

/-- `FileSystem::free_cluster_chain(n)`, volume marked dirty or not -/
theorem run_freeClusterChain_any (n : Nat) (cs : List Nat) (d : Dev) (hfa : d.failAt = none) (hwf : d.img.WF)
    (hg : Geo d.fs d.img.size) (hinfo : InfoOk d.fs d.img)
    (hch : Chain (tabView d.fs d.img) n cs) (hnd : cs.Nodup)
    (hin : ∀ x ∈ cs, 2 ≤ x ∧ x < d.fs.totalClusters + 2 ∧ tabView d.fs d.img x ≠ .free) :
    ∃ d', run (freeClusterChain n) d = (.ok (), d') ∧ DevStep d d' ∧
      d'.fs = { markedFs d.fs with fsInfo := d.fs.fsInfo.mapFree (· + cs.length) } ∧
      tabView d'.fs d'.img = freedView (tabView d.fs d.img) cs ∧ InfoOk d'.fs d'.img ∧
      (∀ q, 0x42 ≤ q → OutsideFat d.fs q → d'.img.getByte q = d.img.getByte q) := by
  have hfuel := chain_fuel_ok hnd (fun x hx => (hin x hx).2.1)
  obtain ⟨d1, it1, h1, hst1, hfs1, htv1, hfr1⟩ := run_citer_free_any d.fs cs n (chainFuel d.fs) (fatSliceOf d.fs) d
    hfa hwf hg hch hnd (fun x hx => (hin x hx).2.1) hfuel (isFatSlice_self _)
  unfold freeClusterChain
  rw [run_bind_ok (run_getFs d)]
  simp only
  rw [run_bind_ok h1, run_modifyFs]
  have hgeo : FsGeomEq d.fs ({ d1.fs with fsInfo := d1.fs.fsInfo.mapFree (· + cs.length) } : FsState) := by
    rw [hfs1]
    have := markedFs_geom d.fs
    unfold FsGeomEq at *
    rw [this]
  refine ⟨_, rfl, ⟨hst1.failAt, hst1.size, hst1.wf, hgeo, hst1.clock⟩, ?_, ?_, ?_, hfr1⟩
  · show ({ d1.fs with fsInfo := d1.fs.fsInfo.mapFree (· + cs.length) } : FsState) = _
    rw [hfs1, markedFs_fsInfo]
  · show tabView ({ d1.fs with fsInfo := d1.fs.fsInfo.mapFree (· + cs.length) } : FsState) d1.img = _
    rw [hgeo.tabView]; exact htv1
  · show InfoOk ({ d1.fs with fsInfo := d1.fs.fsInfo.mapFree (· + cs.length) } : FsState) d1.img
    rw [hfs1]
    have hinfo' := infoOk_marked hinfo
    have hgm := markedFs_geom d.fs
    refine infoOk_after_free hinfo' cs (freedView (tabView d.fs d.img) cs) (by rw [hgm.tabView]; exact htv1) hnd
      (fun i hi => by rw [hgm.totalClusters, hgm.tabView]; exact hin i hi) ?_ ?_
    · intro i hi; unfold freedView; rw [if_pos hi]
    · intro i hi; unfold freedView; rw [if_neg hi, hgm.tabView]

/-- `FileSystem::truncate_cluster_chain(cur)`, volume marked dirty or not -/
theorem run_truncateClusterChain_any (cur : Nat) (t : List Nat) (d : Dev) (hfa : d.failAt = none) (hwf : d.img.WF)
    (hg : Geo d.fs d.img.size) (hinfo : InfoOk d.fs d.img)
    (hch : Chain (tabView d.fs d.img) cur (cur :: t)) (hnd : (cur :: t).Nodup)
    (hin : ∀ x ∈ cur :: t, 2 ≤ x ∧ x < d.fs.totalClusters + 2 ∧ tabView d.fs d.img x ≠ .free) :
    ∃ d', run (truncateClusterChain cur) d = (.ok (), d') ∧ DevStep d d' ∧
      d'.fs = { markedFs d.fs with fsInfo := d.fs.fsInfo.mapFree (· + t.length) } ∧
      tabView d'.fs d'.img = freedView (updV (tabView d.fs d.img) cur .eoc) t ∧ InfoOk d'.fs d'.img ∧
      (∀ q, 0x42 ≤ q → OutsideFat d.fs q → d'.img.getByte q = d.img.getByte q) := by
  have hfuel := chain_fuel_ok hnd (fun x hx => (hin x hx).2.1)
  obtain ⟨d1, it1, h1, hst1, hfs1, htv1, hfr1⟩ := run_citer_truncate_any d.fs t cur (chainFuel d.fs) (fatSliceOf d.fs) d
    hfa hwf hg hch hnd (fun x hx => (hin x hx).2.1) (by simp at hfuel ⊢; omega) (isFatSlice_self _)
  unfold truncateClusterChain
  rw [run_bind_ok (run_getFs d)]
  simp only
  rw [run_bind_ok h1, run_modifyFs]
  have hgeo : FsGeomEq d.fs ({ d1.fs with fsInfo := d1.fs.fsInfo.mapFree (· + t.length) } : FsState) := by
    rw [hfs1]
    have := markedFs_geom d.fs
    unfold FsGeomEq at *
    rw [this]
  have hcurnt : cur ∉ t := (List.nodup_cons.mp hnd).1
  refine ⟨_, rfl, ⟨hst1.failAt, hst1.size, hst1.wf, hgeo, hst1.clock⟩, ?_, ?_, ?_, hfr1⟩
  · show ({ d1.fs with fsInfo := d1.fs.fsInfo.mapFree (· + t.length) } : FsState) = _
    rw [hfs1, markedFs_fsInfo]
  · show tabView ({ d1.fs with fsInfo := d1.fs.fsInfo.mapFree (· + t.length) } : FsState) d1.img = _
    rw [hgeo.tabView]; exact htv1
  · show InfoOk ({ d1.fs with fsInfo := d1.fs.fsInfo.mapFree (· + t.length) } : FsState) d1.img
    rw [hfs1]
    have hinfo' := infoOk_marked hinfo
    have hgm := markedFs_geom d.fs
    refine infoOk_after_free hinfo' t (freedView (updV (tabView d.fs d.img) cur .eoc) t) (by rw [hgm.tabView]; exact htv1) (List.nodup_cons.mp hnd).2
      (fun i hi => by rw [hgm.totalClusters, hgm.tabView]; exact hin i (List.mem_cons_of_mem _ hi)) ?_ ?_
    · intro i hi; unfold freedView; rw [if_pos hi]
    · intro i hi
      unfold freedView
      rw [if_neg hi, hgm.tabView]
      by_cases hic : i = cur
      · subst hic
        rw [updV_same]
        constructor
        · intro h; cases h
        · intro h; exact absurd h (hin i (by simp)).2.2
      · rw [updV_ne _ _ _ _ hic]

end FatVerif.FileSim
