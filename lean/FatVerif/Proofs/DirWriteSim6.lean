import FatVerif.Proofs.DirWriteSim5
import FatVerif.Proofs.DirReadSim12
/-! Directory WRITES, part 6: the GENERIC write layer. A directory is written through a family `F` of stream states
    (before anything was written through this clone) and a family `G` (afterwards; `G = F` when writing does not
    change the handle: the fixed root, the root of FAT32). Everything from `write_all` up to `writeSlotsKeep` and the
    slot-deleting loop is proved once from the single-`write` fact; the devices are threaded through an invariant
    `Inv` that every write re-establishes. -/
namespace FatVerif.DirSim
open FatVerif.FileSim DirEntryData

/-- slot geometry on the device: every slot lies behind the status byte, slots do not overlap -/
structure SlotGeo (N : Nat) (src : Nat → Nat) : Prop where
  behind : ∀ i, i < N → 0x42 ≤ src (32 * i)
  disjoint : ∀ i j, i < N → j < N → i ≠ j → src (32 * i) + 32 ≤ src (32 * j) ∨ src (32 * j) + 32 ≤ src (32 * i)

/-- the write interface: from a state of `F`, one `write` of a non-empty buffer that fits into the room (and into the
    directory) takes all bytes, puts them on the device and leaves a state of `G`; `seek(Current(-32))` after a slot and
    `seek(Start(t))` stay inside `F` -/
structure WFam (Inv : Dev → Prop) (F G : Nat → DirStream) (N : Nat) (src room : Nat → Nat) : Prop where
  rd : ∀ d, Inv d → ByteSrc d F (32 * N) src room
  write : ∀ d, Inv d → ∀ o bs, bs ≠ [] → bs.length ≤ room o → o + bs.length ≤ 32 * N →
    ∃ d', run (DirStream.write (F o) bs) d = (.ok (bs.length, G (o + bs.length)), d') ∧
      WritesTo d d' (src o) bs ∧ Inv d'
  seekBack : ∀ d, Inv d → ∀ o, o % 32 = 0 → o + 32 ≤ 32 * N →
    ∃ d1, run ((F (o + 32)).seek (.cur (-32))) d = (.ok (o, F o), d1) ∧ SameVol d d1

/-- what the invariant gives and how it is kept -/
structure InvOK (Inv : Dev → Prop) : Prop where
  noFault : ∀ d, Inv d → d.failAt = none
  wf : ∀ d, Inv d → d.img.WF
  vol : ∀ d d1, Inv d → SameVol d d1 → d1.clock = d.clock → Inv d1

section generic
variable {Inv : Dev → Prop} {F G : Nat → DirStream} {N : Nat} {src room : Nat → Nat}

/-- bytes behind the status byte and outside the slots of the directory are kept -/
def FrameOutG (N : Nat) (src : Nat → Nat) (d d' : Dev) : Prop :=
  ∀ q, 0x42 ≤ q → (∀ i, i < N → ¬ (src (32 * i) ≤ q ∧ q < src (32 * i) + 32)) → d'.img.getByte q = d.img.getByte q

theorem FrameOutG.refl (d : Dev) : FrameOutG N src d d := fun _ _ _ => rfl

theorem FrameOutG.trans {a b c : Dev} (h1 : FrameOutG N src a b) (h2 : FrameOutG N src b c) : FrameOutG N src a c :=
  fun q hq hn => (h2 q hq hn).trans (h1 q hq hn)

theorem FrameOutG.of_sameVol {a b : Dev} (h : SameVol a b) : FrameOutG N src a b := fun q _ _ => by rw [h.img]

/-- the slots of the image after slot `i` was overwritten -/
theorem srcSlots_put (hg : SlotGeo N src) {d d' : Dev} {i : Nat} {bs : List Nat}
    (hw : WritesTo d d' (src (32 * i)) bs) (hwf : d.img.WF) (hi : i < N) (hlen : bs.length = 32)
    (hb : ∀ b ∈ bs, b < 256) :
    srcSlots d'.img src N = (srcSlots d.img src N).set i bs ∧ FrameOutG N src d d' := by
  constructor
  · apply List.ext_getElem?
    intro j
    simp only [srcSlots, List.getElem?_set, List.getElem?_map, List.length_map, List.length_range]
    by_cases hj : j < N
    · rw [List.getElem?_range hj]
      simp only [Option.map]
      by_cases hij : i = j
      · subst hij
        simp only [if_true, hi]
        congr 1
        apply List.ext_getElem
        · simp [hlen]
        · intro x h1 h2
          simp only [Img.read, List.getElem_map, List.getElem_range]
          have hbh := hg.behind i hi
          rw [hw.bytes hwf _ (by omega)]
          unfold putBytes
          rw [if_pos (by omega), Nat.add_sub_cancel_left, List.getD_eq_getElem?_getD, List.getElem?_eq_getElem h2]
          simp only [Option.getD]
          exact Nat.mod_eq_of_lt (hb _ (List.getElem_mem h2))
      · simp only [hij, if_false]
        congr 1
        apply List.ext_getElem
        · simp
        · intro x h1 h2
          simp only [Img.read, List.getElem_map, List.getElem_range]
          have hx : x < 32 := by simpa using h1
          have hbh := hg.behind j hj
          have hdj := hg.disjoint i j hi hj hij
          rw [hw.bytes hwf _ (by omega)]
          unfold putBytes
          rw [if_neg (by omega)]
    · rw [List.getElem?_eq_none (by simp; omega)]
      split
      · omega
      · simp
  · intro q hq hn
    rw [hw.bytes hwf q hq]
    unfold putBytes
    rw [if_neg]
    have := hn i hi
    omega


theorem WFam.writeAll (W : WFam Inv F G N src room) (d : Dev) (hi : Inv d) (o : Nat) (bs : List Nat) (hne : bs ≠ [])
    (hroom : bs.length ≤ room o) (hfit : o + bs.length ≤ 32 * N) :
    ∃ d', run (writeAll DirStream.strm (F o) bs) d = (.ok (G (o + bs.length)), d') ∧
      WritesTo d d' (src o) bs ∧ Inv d' := by
  obtain ⟨d1, h1, hw1, hi1⟩ := W.write d hi o bs hne hroom hfit
  have hlen : bs.length ≠ 0 := by
    cases bs with
    | nil => exact absurd rfl hne
    | cons _ _ => simp
  have hemp : bs.isEmpty = false := by cases bs <;> simp_all
  have hw : run (DirStream.strm.write (F o) bs) d = (.ok (bs.length, G (o + bs.length)), d1) := h1
  refine ⟨d1, ?_, hw1, hi1⟩
  unfold FatVerif.writeAll
  obtain ⟨k, hk⟩ : ∃ k, bs.length = k + 1 := ⟨bs.length - 1, by omega⟩
  rw [hk]
  unfold writeAllLoop
  simp only [hemp, Bool.false_eq_true, if_false]
  rw [run_bind_ok hw]
  simp only [hlen, if_false, List.drop_length]
  unfold writeAllLoop
  rw [← hk]
  cases k <;> rfl

/-- `writeChunks` inside one room, closed family -/
theorem WFam.writeChunks_closed (W : WFam Inv G G N src room) : ∀ (cs : List (List Nat)) (o : Nat) (d : Dev), Inv d →
    (∀ c ∈ cs, c ≠ []) → cs.flatten.length ≤ room o → o + cs.flatten.length ≤ 32 * N →
    ∃ d', run (writeChunks DirStream.strm (G o) cs) d = (.ok (G (o + cs.flatten.length)), d') ∧
      WritesTo d d' (src o) cs.flatten ∧ Inv d' := by
  intro cs
  induction cs with
  | nil =>
    intro o d hi _ _ _
    exact ⟨d, rfl, WritesTo.refl d _, hi⟩
  | cons c rest ih =>
    intro o d hi hne hroom hfit
    simp only [List.flatten_cons, List.length_append] at hroom hfit ⊢
    obtain ⟨d1, h1, hw1, hi1⟩ := W.writeAll d hi o c (hne c (List.mem_cons_self ..)) (by omega) (by omega)
    have hB := W.rd d hi
    by_cases hlt : c.length < room o
    · obtain ⟨d2, h2, hw2, hi2⟩ := ih (o + c.length) d1 hi1 (fun c' hc' => hne c' (List.mem_cons_of_mem _ hc'))
        (by rw [hB.room_step o c.length hlt]; omega) (by omega)
      refine ⟨d2, ?_, ?_, hi2⟩
      · unfold FatVerif.writeChunks
        rw [run_bind_ok h1, h2, Nat.add_assoc]
      · rw [hB.src_step o c.length hlt] at hw2
        exact hw1.append hw2
    · have h0 : rest.flatten.length = 0 := by omega
      have hrest : rest = [] := by
        cases rest with
        | nil => rfl
        | cons c' r' =>
          have := hne c' (List.mem_cons_of_mem _ (List.mem_cons_self ..))
          simp only [List.flatten_cons, List.length_append] at h0
          have : c'.length = 0 := by omega
          exact absurd (List.eq_nil_of_length_eq_zero this) (hne c' (List.mem_cons_of_mem _ (List.mem_cons_self ..)))
      subst hrest
      refine ⟨d1, ?_, ?_, hi1⟩
      · unfold FatVerif.writeChunks
        rw [run_bind_ok h1]
        simp only [List.flatten_nil, List.length_nil, Nat.add_zero]
        rfl
      · simpa using hw1

/-- `writeChunks` inside one room: the first chunk leaves `F` -/
theorem WFam.writeChunks (W : WFam Inv F G N src room) (WG : WFam Inv G G N src room) (cs : List (List Nat))
    (hcs : cs ≠ []) (o : Nat) (d : Dev) (hi : Inv d) (hne : ∀ c ∈ cs, c ≠ []) (hroom : cs.flatten.length ≤ room o)
    (hfit : o + cs.flatten.length ≤ 32 * N) :
    ∃ d', run (FatVerif.writeChunks DirStream.strm (F o) cs) d = (.ok (G (o + cs.flatten.length)), d') ∧
      WritesTo d d' (src o) cs.flatten ∧ Inv d' := by
  cases cs with
  | nil => exact absurd rfl hcs
  | cons c rest =>
    simp only [List.flatten_cons, List.length_append] at hroom hfit ⊢
    obtain ⟨d1, h1, hw1, hi1⟩ := W.writeAll d hi o c (hne c (List.mem_cons_self ..)) (by omega) (by omega)
    have hB := W.rd d hi
    by_cases hlt : c.length < room o
    · have hBG := WG.rd d1 hi1
      have hroomG : room (o + c.length) = room o - c.length := hB.room_step o c.length hlt
      obtain ⟨d2, h2, hw2, hi2⟩ := WG.writeChunks_closed rest (o + c.length) d1 hi1
        (fun c' hc' => hne c' (List.mem_cons_of_mem _ hc')) (by rw [hroomG]; omega) (by omega)
      refine ⟨d2, ?_, ?_, hi2⟩
      · unfold FatVerif.writeChunks
        rw [run_bind_ok h1, h2, Nat.add_assoc]
      · rw [hB.src_step o c.length hlt] at hw2
        exact hw1.append hw2
    · have h0 : rest.flatten.length = 0 := by omega
      have hrest : rest = [] := by
        cases rest with
        | nil => rfl
        | cons c' r' =>
          simp only [List.flatten_cons, List.length_append] at h0
          have : c'.length = 0 := by omega
          exact absurd (List.eq_nil_of_length_eq_zero this) (hne c' (List.mem_cons_of_mem _ (List.mem_cons_self ..)))
      subst hrest
      refine ⟨d1, ?_, ?_, hi1⟩
      · unfold FatVerif.writeChunks
        rw [run_bind_ok h1]
        simp only [List.flatten_nil, List.length_nil, Nat.add_zero]
        rfl
      · simpa using hw1

/-- **`DirEntryData::serialize` onto a slot, generic** -/
theorem WFam.writeSlot (W : WFam Inv F G N src room) (WG : WFam Inv G G N src room) (o : Nat) (ho : o % 32 = 0)
    (e : DirEntryData) (hlen : e.serialize.length = 32) (d : Dev) (hi : Inv d) (hroom : o + 32 ≤ 32 * N) :
    ∃ d', run (FatVerif.writeSlot (F o) e) d = (.ok (G (o + 32)), d') ∧ WritesTo d d' (src o) e.serialize ∧ Inv d' := by
  have hr32 := (W.rd d hi).room_slot o ho hroom
  have key : ∀ (bs : List Nat) (ns : List Nat), bs.length = 32 → ns.sum = 32 → (∀ n ∈ ns, 0 < n) → ns ≠ [] →
      ∃ d', run (FatVerif.writeChunks DirStream.strm (F o) (chunksOf bs ns)) d = (.ok (G (o + 32)), d') ∧
        WritesTo d d' (src o) bs ∧ Inv d' := by
    intro bs ns hb hn hpos hnn
    have hfl := chunksOf_flatten ns bs (by rw [hn, hb])
    have hcne : chunksOf bs ns ≠ [] := by
      cases ns with
      | nil => exact absurd rfl hnn
      | cons n r => simp [chunksOf]
    have := W.writeChunks WG (chunksOf bs ns) hcne o d hi (chunksOf_ne_nil ns bs hpos (by rw [hn, hb]; exact Nat.le_refl _))
      (by rw [hfl, hb]; exact hr32) (by rw [hfl, hb]; exact hroom)
    rw [hfl, hb] at this
    exact this
  cases e with
  | file f => exact key f.serialize _ hlen entryChunks_sum (by decide) (by decide)
  | lfn l => exact key l.serialize _ hlen lfnChunks_sum (by decide) (by decide)

end generic

end FatVerif.DirSim
