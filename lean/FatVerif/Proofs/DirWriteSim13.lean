import FatVerif.Proofs.DirWriteSim12
/-! Directory WRITES, part 13: the fixed root as a write family; `WView` — a directory one can write into, packaged
    like `DirView` — with its constructors (fixed root; cluster chain without an entry) and the interface lemmas the
    tree-level composition (Props/C01img.lean: (W1), (W1-frame), (W2), (W3)) asks for. -/
namespace FatVerif.DirSim
open FatVerif.FileSim FatVerif.Fat DirEntryData

/-! ### the fixed root region as a write family -/

/-- the invariant threaded through the writes on the root region `s` (geometry `fs0`) -/
structure RootInv (fs0 : FsState) (s : DiskSlice) (N : Nat) (d : Dev) : Prop where
  noFault : d.failAt = none
  inside : s.beginOff + s.size ≤ d.img.size
  wf : d.img.WF
  geom : FsGeomEq fs0 d.fs
  fuel : N < dirFuel fs0

section root
variable {fs0 : FsState} {s : DiskSlice} {N : Nat}

theorem rootInv_ok : InvOK (RootInv fs0 s N) where
  noFault := fun _ h => h.noFault
  wf := fun _ h => h.wf
  vol := fun d d1 h hv _ => ⟨by rw [hv.failAt]; exact h.noFault, by rw [hv.img]; exact h.inside,
    by rw [hv.img]; exact h.wf, by rw [hv.fs]; exact h.geom, h.fuel⟩

theorem root_slotGeo (hN : s.size = 32 * N) (hB : 0x42 ≤ s.beginOff) : SlotGeo N (fun o => s.beginOff + o) :=
  ⟨fun i _ => by omega, fun i j _ _ hij => by omega⟩

theorem root_wfam (hN : s.size = 32 * N) (hv : s.viaFs = true) (hm : s.mirrors = 1) (hB : 0x42 ≤ s.beginOff) :
    WFam (RootInv fs0 s N) (fun o => .root (sliceAt s o)) (fun o => .root (sliceAt s o)) N
      (fun o => s.beginOff + o) (fun o => s.size - o) := by
  refine ⟨fun d h => (root_dirSrc s N hN d h.noFault h.inside).toByteSrc, fun d h o bs hne hroom hfit => ?_,
    fun d h o _ hfit => ?_⟩
  · obtain ⟨d', h1, hw⟩ := run_slice_write (sliceAt s o) hv hm bs hne d h.noFault (by have := h.inside; omega)
      (by show o + bs.length ≤ s.size; omega) h.inside
    refine ⟨d', ?_, hw, ⟨by rw [hw.step.failAt]; exact h.noFault, by rw [hw.step.size]; exact h.inside,
      hw.step.wf h.wf, h.geom.trans hw.step.geom, h.fuel⟩⟩
    simp only [DirStream.write]
    rw [run_bind_ok h1]
    rfl
  · exact ⟨d, root_seekCurNeg32_run s o (by rw [hN]; exact hfit) d, SameVol.refl d⟩

theorem root_wops (hN : s.size = 32 * N) :
    WOps (RootInv fs0 s N) (fun o => .root (sliceAt s o)) (fun o => .root (sliceAt s o)) N
      (fun o => s.beginOff + o) (fun o => s.size - o) (fun _ => False) (fun im im' => im' = im) := by
  have hD : ∀ d, RootInv fs0 s N d → DirSrc d (fun o => .root (sliceAt s o)) N (fun o => s.beginOff + o)
      (fun o => s.size - o) := fun d h => root_dirSrc s N hN d h.noFault h.inside
  refine ⟨hD, fun d h => by rw [dirFuel_geom h.geom]; exact h.fuel,
    fun d h d0 _ o t _ ht => ⟨d0, root_seekStart_run s o t (by rw [hN]; exact ht) d0, SameVol.refl d0⟩,
    fun d h o ho => (hD d h).seekCur d (SameVol.refl d) o ho, fun d h o ho => (hD d h).seekCur d (SameVol.refl d) o ho,
    fun d h fs' hg o ho32 hpos ho => ?_, fun d h o ho => ⟨d, rfl, VolStep.of_sameVol (SameVol.refl d), h, id, fun _ _ _ => rfl, rfl⟩,
    fun _ _ _ _ h => h⟩
  have := (hD d h).absPos d (SameVol.refl d) o ho32 hpos ho
  rw [absPos_geom hg] at this
  exact this

end root

/-! ### `WView`: a directory one can write into -/

/-- a writable directory starting at the stream `st` (cf. `DirView`) -/
structure WView (d : Dev) (st : DirStream) where
  Inv : Dev → Prop
  F : Nat → DirStream
  G : Nat → DirStream
  N : Nat
  src : Nat → Nat
  room : Nat → Nat
  Extra : Nat → Prop
  DropPost : Img → Img → Prop
  start : st = F 0
  io : InvOK Inv
  geo : SlotGeo N src
  w : WFam Inv F G N src room
  wg : WFam Inv G G N src room
  ops : WOps Inv F G N src room Extra DropPost
  here : Inv d

namespace WView
variable {d : Dev} {st : DirStream}

/-- the read view of a writable directory -/
def toDirView (V : WView d st) : DirView d st :=
  ⟨V.F, V.N, V.src, V.room, V.start, V.ops.dsrc d V.here, V.ops.fuel d V.here⟩

/-- the slots of the directory in an image -/
def slots (V : WView d st) (img : Img) : List (List Nat) := srcSlots img V.src V.N

/-- after a step that re-establishes the invariant the directory is writable (and readable) again -/
def step (V : WView d st) {d' : Dev} (h : V.Inv d') : WView d' st :=
  { V with here := h }

end WView

/-- the fixed root directory as a `WView` -/
def WView.ofRoot (s : DiskSlice) (N : Nat) (hN : s.size = 32 * N) (hv : s.viaFs = true) (hm : s.mirrors = 1)
    (hB : 0x42 ≤ s.beginOff) (d : Dev) (hfa : d.failAt = none) (hdev : s.beginOff + s.size ≤ d.img.size)
    (hwf : d.img.WF) (hfuel : N < dirFuel d.fs) : WView d (.root (sliceAt s 0)) where
  Inv := RootInv d.fs s N
  F := fun o => .root (sliceAt s o)
  G := fun o => .root (sliceAt s o)
  N := N
  src := fun o => s.beginOff + o
  room := fun o => s.size - o
  Extra := fun _ => False
  DropPost := fun im im' => im' = im
  start := rfl
  io := rootInv_ok
  geo := root_slotGeo hN hB
  w := root_wfam hN hv hm hB
  wg := root_wfam hN hv hm hB
  ops := root_wops hN
  here := ⟨hfa, hdev, hwf, FsGeomEq.refl _, hfuel⟩

/-- a cluster-chain directory without an entry (the root of FAT32) as a `WView` -/
def WView.ofChain (d : Dev) (c0 : Nat) (chain : List Nat) (C : ChainDir d (FileH.new (some c0) none) c0 chain)
    (hwf : d.img.WF) (hfuel : chain.length * (d.fs.clusterSize / 32) < dirFuel d.fs) :
    WView d (.file (FileH.new (some c0) none)) where
  Inv := ChainInv d.fs (FileH.new (some c0) none) c0 chain
  F := chainS (FileH.new (some c0) none) chain d.fs.clusterSize
  G := chainS (FileH.new (some c0) none) chain d.fs.clusterSize
  N := chain.length * (d.fs.clusterSize / 32)
  src := chainSrc d.fs chain
  room := chainRoom d.fs chain
  Extra := fun _ => False
  DropPost := fun im im' => im' = im
  start := rfl
  io := chainInv_ok
  geo := C.slotGeo
  w := chain_wfam rfl
  wg := chain_wfam rfl
  ops := chain_wops rfl
  here := ⟨C, hwf, FsGeomEq.refl _, hfuel⟩

/-! ### (W2) the record `create_sfn_entry` builds -/

/-- the 20 bytes behind the attribute byte of the record `create_sfn_entry` builds: reserved byte, the three time
    stamps from the clock, the first cluster, size 0 -/
def sfnStamp (fs : FsState) (t : Nat) (first : Option Nat) : List Nat :=
  (sfnAt fs t [] 0 first).serializeTail.drop 1

/-- **(W2)**: the serialised record is the raw name followed by the attribute byte and `sfnStamp` -/
theorem sfnAt_serialize (fs : FsState) (t : Nat) (sn : List Nat) (attrs : Nat) (first : Option Nat) :
    (sfnAt fs t sn attrs first).serialize = DirAlias.sfnWith sn (attrs :: sfnStamp fs t first) := by
  unfold DirAlias.sfnWith sfnStamp sfnAt DirFileEntryData.serialize DirFileEntryData.serializeTail
  simp only [DirFileEntryData.setModified, DirFileEntryData.setAccessed, DirFileEntryData.setCreated,
    DirFileEntryData.setFirstCluster, DirFileEntryData.new]
  split <;> rfl

theorem sfnStamp_length (fs : FsState) (t : Nat) (first : Option Nat) : (sfnStamp fs t first).length = 20 := by
  unfold sfnStamp
  rw [List.length_drop, DirFileEntryData.serializeTail_length]

/-! ### (W1) the entry `write_entry` returns, in the reader's form -/

/-- the entry returned by `write_entry` is the one the reader will build from the new short slot -/
theorem writeEntry_result (src : Nat → Nat) (raw : DirFileEntryData) (hraw : raw.WF) (hl : attrsIsLfn raw.attrs = false)
    (units : List Nat) (p n : Nat) (hn : 0 < n) :
    ({ data := raw, lfn := units, entryPos := src (32 * (p + n) - 32) + 32 - 32, rangeBegin := 32 * p,
       rangeEnd := 32 * (p + n) } : DirEntry) = toDirEntryS src ⟨raw.serialize, units, p, p + n⟩ := by
  have hd : DirEntryData.deserializeFile raw.serialize (attrsTruncate (DirEntryData.u8At raw.serialize 11)) = raw := by
    have := deserialize_serialize_file raw hraw hl
    unfold deserialize at this
    split at this
    · cases this
    · injection this
  simp only [toDirEntryS, Nat.add_sub_cancel]
  rw [hd]

/-! ### (W1-frame) what a directory write leaves alone -/

/-- the slots of ANOTHER directory (slot offsets `src2`, `N2` slots) are unchanged by a write into this one when they
    lie behind the status byte and do not meet the slots of this one -/
theorem srcSlots_frame {N : Nat} {src : Nat → Nat} {d d' : Dev} (hf : FrameOutG N src d d') (src2 : Nat → Nat) (N2 : Nat)
    (hcont : ∀ i, i < N2 → ∀ x, x < 32 → 0x42 ≤ src2 (32 * i) + x ∧
      ∀ j, j < N → ¬ (src (32 * j) ≤ src2 (32 * i) + x ∧ src2 (32 * i) + x < src (32 * j) + 32)) :
    srcSlots d'.img src2 N2 = srcSlots d.img src2 N2 := by
  unfold srcSlots
  apply List.map_congr_left
  intro i hi
  have hi' : i < N2 := List.mem_range.mp hi
  unfold Img.read
  apply List.map_congr_left
  intro x hx
  have hx' : x < 32 := List.mem_range.mp hx
  obtain ⟨h1, h2⟩ := hcont i hi' x hx'
  exact hf _ h1 h2

/-- a write into a directory whose slots lie behind the first FAT copy keeps that copy -/
theorem fatAgree_of_frame {N : Nat} {src : Nat → Nat} {d d' : Dev} (hf : FrameOutG N src d d') (fs : FsState)
    (h42 : 0x42 ≤ (fatSliceOf fs).beginOff)
    (hbehind : ∀ j, j < N → (fatSliceOf fs).beginOff + (fatSliceOf fs).size ≤ src (32 * j)) :
    FatAgree fs d.img d'.img := by
  intro q h1 h2
  exact hf q (by omega) (fun j hj => by have := hbehind j hj; omega)


/-! ### the packaged statements: (W1)+(W1-frame), (W1)+(W2), (W3) on a `WView` -/

namespace WView
variable {d : Dev} {st : DirStream}

/-- **(W1) + (W1-frame)**: `write_entry(name, raw)` through a writable directory, for an ordinary valid name whose
    slots fit into the allocated space. The entry returned is the one the reader builds from the new short slot; the
    slots of the directory afterwards are `DirSlots.writeEntry`; bytes from `0x42` on outside the slots of THIS
    directory are untouched; fault schedule, image size, geometry kept (`VolStep`; the mounted state changes only in
    `curDirty`/`curIoErr`: the volume is marked dirty); the directory is writable again (`Inv d'`) -/
theorem writeEntry_sim (V : WView d st) (name : String) (raw : DirFileEntryData)
    (hval : Names.validateLongName name = .ok ()) (hdot : (name = "." || name = "..") = false) (hraw : raw.WF)
    (hlfn : attrsIsLfn raw.attrs = false)
    (hfit : DirSlots.findFree (V.slots d.img) (Lfn.numParts (Names.encodeUtf16 name.toList).length + 1) +
      (Lfn.numParts (Names.encodeUtf16 name.toList).length + 1) ≤ V.N) :
    ∃ d', run (FatVerif.writeEntry st name raw) d =
        (.ok (toDirEntryS V.src ⟨raw.serialize, Names.encodeUtf16 name.toList,
          DirSlots.findFree (V.slots d.img) (Lfn.numParts (Names.encodeUtf16 name.toList).length + 1),
          DirSlots.findFree (V.slots d.img) (Lfn.numParts (Names.encodeUtf16 name.toList).length + 1) +
            (Lfn.numParts (Names.encodeUtf16 name.toList).length + 1)⟩), d') ∧
      VolStep d d' ∧ d'.fs.curDirty = true ∧ V.Inv d' ∧
      V.slots d'.img = DirSlots.writeEntry (V.slots d.img) (Names.encodeUtf16 name.toList) raw.serialize ∧
      FrameOutE V.N V.src V.Extra d d' ∧ MidImg V.N V.src V.DropPost d d' := by
  obtain ⟨d', hr, hs, hd, hinv, hsl, hfr, hmid⟩ := V.w.writeEntry V.io V.geo V.wg V.ops name raw hval hdot hraw d V.here hfit
  refine ⟨d', ?_, hs, hd, hinv, hsl, hfr, hmid⟩
  rw [congrArg (fun s => run (FatVerif.writeEntry s name raw) d) V.start, hr,
    writeEntry_result V.src raw hraw hlfn _ _ _ (by omega)]
  rfl

/-- **(W2) + (W1)**: `create_sfn_entry(a, attrs, first)` followed by `write_entry(name, ·)` — the program `WriteSim` of
    Props/C01img.lean is about. The short slot written is `sfnWith a (attrs :: sfnStamp fs clock first)` -/
theorem create_write_sim (V : WView d st) (name : String) (a : List Nat) (attrs : Nat) (first : Option Nat)
    (hval : Names.validateLongName name = .ok ()) (hdot : (name = "." || name = "..") = false)
    (ha11 : a.length = 11) (hab : ∀ b ∈ a, b < 256) (hattrs : attrs < 64) (hlfn : attrsIsLfn attrs = false)
    (hfit : DirSlots.findFree (V.slots d.img) (Lfn.numParts (Names.encodeUtf16 name.toList).length + 1) +
      (Lfn.numParts (Names.encodeUtf16 name.toList).length + 1) ≤ V.N) :
    ∃ d', run (Prog.bind (createSfnEntry a attrs first) fun sfn => FatVerif.writeEntry st name sfn) d =
        (.ok (toDirEntryS V.src ⟨DirAlias.sfnWith a (attrs :: sfnStamp d.fs d.clock first),
          Names.encodeUtf16 name.toList,
          DirSlots.findFree (V.slots d.img) (Lfn.numParts (Names.encodeUtf16 name.toList).length + 1),
          DirSlots.findFree (V.slots d.img) (Lfn.numParts (Names.encodeUtf16 name.toList).length + 1) +
            (Lfn.numParts (Names.encodeUtf16 name.toList).length + 1)⟩), d') ∧
      VolStep d d' ∧ d'.fs.curDirty = true ∧ V.Inv d' ∧
      V.slots d'.img = DirSlots.writeEntry (V.slots d.img) (Names.encodeUtf16 name.toList)
        (DirAlias.sfnWith a (attrs :: sfnStamp d.fs d.clock first)) ∧
      FrameOutE V.N V.src V.Extra d d' ∧ MidImg V.N V.src V.DropPost d d' := by
  have hwf := sfnAt_wf d.fs d.clock a attrs first ha11 hab hattrs
  have hl : attrsIsLfn (sfnAt d.fs d.clock a attrs first).attrs = false := by
    have : (sfnAt d.fs d.clock a attrs first).attrs = attrs := by
      simp only [sfnAt, DirFileEntryData.setModified, DirFileEntryData.setAccessed, DirFileEntryData.setCreated,
        DirFileEntryData.setFirstCluster, DirFileEntryData.new]
    rw [this]; exact hlfn
  obtain ⟨d', hr, hs, hd, hinv, hsl, hfr, hmid⟩ := V.writeEntry_sim name _ hval hdot hwf hl hfit
  rw [sfnAt_serialize] at hr hsl
  refine ⟨d', ?_, hs, hd, hinv, hsl, hfr, hmid⟩
  show run (Prog.bind _ _) d = _
  simp only [run, run_createSfnEntry a attrs first d]
  exact hr

/-- **(W3)**: `deleteEntry(entry)` for a listed entry of a writable directory: the slots become
    `DirSlots.deleteRange` over the slot range of the entry; frame as for (W1) -/
theorem deleteEntry_sim (V : WView d st) (le : LfnEntry)
    (hmem : le ∈ readDirEntries d.fs.lfnAlloc true (V.slots d.img)) :
    ∃ d', run (FatVerif.deleteEntry st (toDirEntryS V.src le)) d = (.ok (), d') ∧
      VolStep d d' ∧ d'.fs.curDirty = true ∧ V.Inv d' ∧
      V.slots d'.img = DirSlots.deleteRange (V.slots d.img) le.beginIdx le.endIdx ∧
      FrameOutE V.N V.src V.Extra d d' ∧ MidImg V.N V.src V.DropPost d d' := by
  have hb := readLoop_bounds d.fs.lfnAlloc true (V.slots d.img) 0 0 _ (Nat.le_refl _) le hmem
  unfold WView.slots at hb
  rw [srcSlots_length, Nat.zero_add] at hb
  obtain ⟨k, hk⟩ : ∃ k, le.endIdx = le.beginIdx + k := ⟨le.endIdx - le.beginIdx, by omega⟩
  obtain ⟨d', hr, hs, hd, hinv, hsl, hfr, hmid⟩ := V.w.deleteEntry V.io V.geo V.wg V.ops (toDirEntryS V.src le) le.beginIdx k
    (by omega) rfl (by simp only [toDirEntryS]; rw [hk]) (by omega) d V.here
  refine ⟨d', (congrArg (fun s => run (FatVerif.deleteEntry s (toDirEntryS V.src le)) d) V.start).trans hr, hs, hd,
    hinv, ?_, hfr, hmid⟩
  unfold WView.slots
  rw [hsl, hk]

end WView

end FatVerif.DirSim
