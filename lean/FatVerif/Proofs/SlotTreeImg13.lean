import FatVerif.Proofs.SlotTreeImg12
/-!
# Slot trees on a device image, part 13: `create_dir` whose last directory is the fixed root

`createDir_root_final`: the last component of `create_dir` in the root directory on a device whose image holds the slot
tree: the outcome `createS … true` gives at the root — the existing directory, `InvalidInput` for an existing file or
a dot name, the error of `validate_long_name`, or the new directory — and in the last case the image afterwards
holds the new slot tree under the cluster map extended by the new cluster.
-/
namespace FatVerif
namespace SlotTreeImg
open Lfn DirSlots DirAlias SlotTree DirSim FatVerif.FileSim FatVerif.Fat

/-- the resources of a `create_dir` of `name` in the root: volume facts of the allocation, the allocator finds `c`,
    the entry fits into the root region, `c` is on no directory chain of the tree -/
structure DirRes (d : Dev) (up : Char → List Char) (t : Node) (cl : List String → Option Nat)
    (slots : List (List Nat)) (name : String) (c : Nat) : Prop where
  geo : Geo d.fs d.img.size
  info : InfoOk d.fs d.img
  cs32 : d.fs.clusterSize % 32 = 0
  cs64 : 64 ≤ d.fs.clusterSize
  u32 : d.fs.clusterSize < 4294967296
  fuel : d.fs.clusterSize / 32 < dirFuel d.fs
  find : allocFindV (tabView d.fs d.img) d.fs.fsInfo.next d.fs.totalClusters = some c
  small : d.fs.totalClusters + 2 ≤ 65536
  room : HasRoomRoot d slots name
  apart : ∀ cur s ch, cur ≠ [] → getAtS up t cur = some (.dir s ch) → ∀ c0 chain, cl cur = some c0 →
    Chain (tabView d.fs d.img) c0 chain → c ∉ chain

section final
variable {d : Dev} {up : Char → List Char} {cl : List String → Option Nat} {slots : List (List Nat)}
  {ch : List (LfnEntry × Node)}

/-- **the last component of `create_dir` in the root directory** -/
theorem createDir_root_final (W : ImgTreeW d up (.dir slots ch) cl) (hwf : TreeWf up (.dir slots ch)) (env : Env)
    (henv : env.upper = up) (f : Nat) (chars a : List Char) (hsp : Names.splitPathL chars = (a, none)) (c : Nat)
    (hres : DirRes d up (.dir slots ch) cl slots (String.ofList a) c) (d4 : Dev) (hv : SameVol d d4)
    (hc : d4.clock = d.clock) :
    MOut (fun (_ : DirStream) d' => VolStep d d' ∧ ∃ cl',
        ImgTreeW d' up (cdFinal up (.dir slots ch) [] (String.ofList a) (sfnStamp d.fs d.clock (some c))).tree cl' ∧
        ClAgree up (.dir slots ch) cl cl')
      (createDir env (f + 1) (rootAt d.fs 0) (String.ofList chars)) d4
      (outErr (cdFinal up (.dir slots ch) [] (String.ofList a) (sfnStamp d.fs d.clock (some c)))) := by
  have hspS : Names.splitPath (String.ofList chars) = (String.ofList a, none) := by
    rw [splitPath_ofList, hsp]; rfl
  have W4 := W.of_sameVol hv
  obtain ⟨N, tail, hR, hsl, htl, hchild⟩ := W4.rootImg slots ch rfl
  have hd : DirOk up slots ch := ((all_dir _ slots ch).1 hwf).1
  have hst : rootAt d.fs 0 = rootAt d4.fs 0 := by rw [hv.fs]
  rw [hst]
  have hchk : ∀ k, (DirView.ofRoot hR).check env (String.ofList a) k =
      checkForExistenceL up slots (String.ofList a) k 70000 := by
    intro k
    unfold DirView.check
    show checkForExistenceL env.upper (srcSlots d4.img (fun o => (rootSliceOf d4.fs).beginOff + o) N) _ _ _ = _
    rw [henv, srcSlots_root hR, hsl, check_append_ends up slots tail htl]
  have halloc := W4.lay.alloc
  unfold cdFinal
  simp only [getAtS, List.isEmpty_nil, Bool.not_true, Bool.and_false, Bool.false_eq_true, if_false]
  unfold createFinal
  rcases check_cases up slots (String.ofList a) (some true) 70000 with
    h | ⟨e, he, hk, hce⟩ | ⟨e, he, hk, hce⟩ | ⟨hf, al, hal⟩
  · rw [h]
    exact (DirView.ofRoot hR).createDir_fails_sim halloc env _ _ hspS .hang (by rw [hchk, h]) f d4 (SameVol.refl d4)
  · rw [hce]
    obtain ⟨d', hr, hs⟩ := (DirView.ofRoot hR).createDir_exists_sim halloc env _ _ hspS e (by rw [hchk, hce]) f d4
      (SameVol.refl d4)
    exact ⟨_, d', hr, VolStep.of_sameVol (hv.trans hs), cl, W.of_sameVol (hv.trans hs), ClAgree.refl _ _ _⟩
  · rw [hce]
    exact (DirView.ofRoot hR).createDir_fails_sim halloc env _ _ hspS .invalidInput (by rw [hchk, hce]) f d4
      (SameVol.refl d4)
  · rw [hal]
    simp only
    cases hdn : isDotName (String.ofList a) with
    | true =>
      simp only [if_true]
      exact createDir_dot_fails (DirView.ofRoot hR) halloc env _ _ hspS hdn al (by rw [hchk, hal]) f d4
        (SameVol.refl d4)
    | false =>
      simp only [Bool.false_eq_true, if_false]
      cases hval : Names.validateLongName (String.ofList a) with
      | error x =>
        exact createDir_invalid_fails (DirView.ofRoot hR) halloc env _ _ hspS hdn al (by rw [hchk, hal]) x hval f d4
          (SameVol.refl d4)
      | ok u =>
        cases u
        simp only [outErr, done]
        -- the resources on `d4`
        have hgeo4 : Geo d4.fs d4.img.size := by rw [hv.fs, hv.img]; exact hres.geo
        have hinfo4 : InfoOk d4.fs d4.img := by rw [hv.fs, hv.img]; exact hres.info
        have hfind4 : allocFindV (tabView d4.fs d4.img) d4.fs.fsInfo.next d4.fs.totalClusters = some c := by
          rw [hv.fs, hv.img]; exact hres.find
        obtain ⟨hc2, hclt, hcfree⟩ := allocFindV_some _ _ _ _ hinfo4.hint hfind4
        have hlen := C16dir.dir_alias_length _ _ _ _ _ _ hal
        let stamp := sfnStamp d.fs d.clock (some c)
        obtain ⟨c0, c1, c2, c3, c4, c5, c6, _, _⟩ :=
          C16dir.dir_create_hyps up slots (String.ofList a) (some true) 70000 al 16 stamp hval (by decide) hal
        have hwf' := C16dir.dir_create_wf up slots (String.ofList a) (some true) 70000 al 16 stamp hd.wf hval
          (by decide) hal
        obtain ⟨V, hN, hsrc, hEx, hInv⟩ : ∃ V : WView d4 (rootAt d4.fs 0), V.N = N ∧
            V.src = (fun o => (rootSliceOf d4.fs).beginOff + o) ∧ V.Extra = (fun _ => False) ∧
            V.Inv = RootInv d4.fs (rootSliceOf d4.fs) N :=
          ⟨WView.ofRoot (rootSliceOf d4.fs) N hR.slots rfl rfl W4.lay.hB d4 hR.noFault hR.inside W4.lay.wf hR.fuel,
            rfl, rfl, rfl, rfl⟩
        have hVs : V.slots d4.img = slots ++ tail := by
          unfold WView.slots; rw [hN, hsrc, srcSlots_root hR, hsl]
        have h0 : RootInv d4.fs (rootSliceOf d4.fs) N d4 :=
          ⟨hR.noFault, hR.inside, W4.lay.wf, FsGeomEq.refl _, hR.fuel⟩
        have hfit := hres.room N (hR.of_volStep (VolStep.of_sameVol ⟨hv.img.symm, hv.fs.symm, hv.failAt.symm, hv.writesOf.symm⟩))
        have hsz := hR.slots
        have hin := hR.inside
        have hend := rootSlice_end d4.fs W4.lay.rootData
        have hfatAll := W4.lay.fatAllRoot
        obtain ⟨d', hr, hs, _, _, hslots', htv, hnew, hC, hfr⟩ := V.createDir_sim env (String.ofList chars)
          (String.ofList a) hspS (by rw [isDotName_eq]; exact hdn) hval halloc hgeo4 hinfo4 W4.lay.acc
          (by rw [hv.fs]; exact hres.cs32) (by rw [hv.fs]; exact hres.cs64) (by rw [hv.fs]; exact hres.u32)
          (by rw [hv.fs]; exact hres.fuel) al
          (by rw [hVs, henv, check_append_ends up slots tail htl]; exact hal) c hfind4
          (by rw [hVs, hN, findFree_append_ends slots tail htl]; exact hfit)
          (fun d1 d2 hv1 _ hal1 => by rw [hInv]; exact h0.of_alloc hv1 hal1)
          (fun d1 d2 hi hs1 _ _ => by rw [hInv] at hi ⊢; exact hi.of_volStep hs1)
          (fun i hi => by
            rw [hN] at hi
            rw [hsrc]
            have := clusterOff_ge d4.fs c
            exact ⟨by show _ ≤ _ + 32 * i; omega, by show _ + 32 * i + 32 ≤ _; omega,
              Or.inl (by show _ + 32 * i + 32 ≤ _; omega)⟩)
          (fun q hq => by rw [hEx] at hq; exact hq.elim) f
        refine ⟨_, d', hr, (VolStep.of_sameVol hv).trans hs, ?_⟩
        -- the new tree and the new root slots
        have hsfn : sfnWith al (16 :: sfnStamp d4.fs d4.clock (some c)) = sfnWith al (newBody true stamp) := by
          rw [hv.fs, hc]; rfl
        have hfl := DirSlots.findFree_le slots (numParts (Names.encodeUtf16 (String.ofList a).toList).length + 1)
          (by omega)
        obtain ⟨tail', htw, htl'⟩ := writeEntry_append_ends slots tail htl
          (Names.encodeUtf16 (String.ofList a).toList) (sfnWith al (newBody true stamp)) hfl
        have hroot' : rootDirSlots d'.fs d'.img =
            DirSlots.writeEntry slots (Names.encodeUtf16 (String.ofList a).toList)
              (sfnWith al (newBody true stamp)) ++ tail' := by
          rw [← htw, ← hVs, ← hsfn, ← hslots']
          unfold WView.slots
          rw [hN, hsrc, ← rootSliceOf_geomEq hs.geom]
          exact (srcSlots_root (hR.of_volStep hs)).symm
        have hkindF : Lfn.isDir (sfnWith al (newBody true stamp)) = (freshNode true).isDir := by
          rw [isDir_newBody al true _ hlen, fresh_isDir]
        obtain ⟨hd', hsub, _, hknew⟩ := addEntry_dirOk hd (Names.encodeUtf16 (String.ofList a).toList)
          (sfnWith al (newBody true stamp)) (freshNode true) hwf' c1 c2 c3 c4 c5 hkindF
        have htree : updS up (addEntry (Names.encodeUtf16 (String.ofList a).toList)
            (sfnWith al (newBody true stamp)) (freshNode true)) [] (.dir slots ch) =
            .dir (DirSlots.writeEntry slots (Names.encodeUtf16 (String.ofList a).toList)
              (sfnWith al (newBody true stamp)))
              (ch ++ [(newEntry slots (Names.encodeUtf16 (String.ofList a).toList)
                (sfnWith al (newBody true stamp)), .dir [] [])]) := by
          show addEntry _ _ _ (.dir slots ch) = _
          exact addEntry_dir hd.wf.shape _ _ _ ch c1 c2 c3 c4 c5
        have hft : d'.fs.fatType = d4.fs.fatType := hs.geom.fatType
        have hfat16 := W4.lay.fat16
        have hif : (if d4.fs.fatType = .fat32 then 4294967296 else 65536) = 65536 := by rw [if_neg hfat16]
        have hsmall : d4.fs.totalClusters + 2 ≤ 65536 := by rw [hv.fs]; exact hres.small
        have hc16 : 0 < c ∧ c < 65536 := ⟨by omega, by omega⟩
        have hab : ∀ x ∈ al, x < 256 := canon_lt (C16dir.dir_alias_canon up slots (String.ofList a) (some true) 70000 al hal).1
        have hfr' : DirFrame d4 d' N c := by
          intro q h1 h2 h3 h4
          exact hfr q h1 h2 (by rw [hN, hsrc]; exact h3) (by rw [hEx]; exact id) h4
        have hslC : chainSlots d'.fs d'.img [c] =
            sfnWith dotRaw (16 :: sfnStamp d4.fs d4.clock (some c)) ::
              sfnWith dotDotRaw (16 :: sfnStamp d4.fs d4.clock none) ::
              List.replicate (d4.fs.clusterSize / 32 - 2) (List.replicate 32 0) := by
          have hdd : (if (rootAt d4.fs 0).isRootDir then none else (rootAt d4.fs 0).firstCluster) = none := rfl
          rw [hdd] at hnew
          rw [← srcSlots_chain d'.fs d'.img hC.geo.cs_pos hC.cs32 [c], chainSrc_geom hs.geom, hs.geom.clusterSize,
            List.length_singleton, Nat.one_mul]
          exact hnew
        show ∃ cl', ImgTreeW d' up (updS up _ [] (.dir slots ch)) cl' ∧ _
        rw [htree]
        have hstampEq : stamp = sfnStamp d4.fs d4.clock (some c) := by rw [hv.fs, hc]
        refine ⟨_, imgTreeW_newDir W4 hd _ hd' hsub hknew hR hs c hc2 htv hfr' tail' hroot' htl' ?_ ?_ ?_⟩
        · show (toDirEntryS _ ⟨sfnWith al (16 :: stamp), _, _, _⟩).firstCluster d'.fs = some c
          rw [hstampEq]
          exact dot_firstCluster _ d4.fs d'.fs d4.clock al (some c) _ _ hlen hab hft
            (fun n hn => by cases hn; rw [hif]; exact hc16) _
        · intro q hm
          exact SubImg.fresh [q] c _ hC (by rw [hs.geom.clusterSize, dirFuel_geomEq hs.geom, hv.fs]; exact hres.fuel)
            d4.fs d4.clock none _ hft hfat16 hc16 (fun n hn => by cases hn) hslC (clAdd_hit _ _ _ _ _ hm) W.rootNone
        · intro cur s c' hne hg c0 chain hcl hch
          rw [hv.fs, hv.img] at hch
          exact hres.apart cur s c' hne hg c0 chain hcl hch

end final

end SlotTreeImg
end FatVerif
