import FatVerif.Proofs.FaultSim4
/-! Faults and forward evaluation, part 5: device-indexed rules for `FaultOutcomeX`; the second half of `create_dir`
    (`to_dir`, `.`, `..`) propagates a storage error. -/
namespace FatVerif.DirSim
open FatVerif.FileSim FatVerif.Fat DirEntryData DirAlias

theorem faultOutcome_of_X {e? : Option Err} {d' : Dev} (h : FaultOutcomeX (fun _ _ => False) e? d') : FaultOutcome e? d' := by
  rcases h with h | ⟨h1, f, h2, h3⟩
  · exact Or.inl h
  · exact Or.inr ⟨h1, f, h2, fun hf => by
      rcases h3 hf with h4 | ⟨_, _, h5⟩
      · exact h4
      · exact h5.elim⟩

theorem faultOutcomeX_bind_at {X : Fault → Err → Prop} {α β} {p : Prog β} {k : β → Prog α} {d : Dev}
    (hp : ∀ r1 d1, run p d = (r1, d1) → FaultOutcomeX X (resErr r1) d1)
    {r d'} (hr : run (p >>= k) d = (r, d'))
    (hk : ∀ b d1, run p d = (.ok b, d1) → d1.fault = none → ∀ r d', run (k b) d1 = (r, d') → FaultOutcomeX X (resErr r) d') :
    FaultOutcomeX X (resErr r) d' := by
  have hr' : run (Prog.bind p k) d = (r, d') := hr
  simp only [run] at hr'
  rcases hq : run p d with ⟨rp, d1⟩
  rw [hq] at hr'
  cases rp with
  | error e => simp only at hr'; cases hr'; exact hp _ _ hq
  | ok b =>
    simp only at hr'
    rcases hp _ _ hq with h1 | ⟨h1, f0, h2, h3⟩
    · exact hk b d1 hq h1 _ _ hr'
    · have hs := (run_facts (k b) d1 hr').spent h1
      right
      refine ⟨hs.1, f0, by rw [hs.2, h2], fun hf => ?_⟩
      rcases h3 hf with h4 | ⟨e, h4, _⟩ <;> simp [resErr] at h4

/-- a scope at a device: the outcome of the body is the outcome of the scope when the destructors cannot panic -/
theorem faultOutcomeX_finallyDrop_at {X : Fault → Err → Prop} {α} {p : Prog α} {c : Option α → Prog Unit} {d : Dev}
    (hb : ∀ rb db, run p d = (rb, db) → FaultOutcomeX X (resErr rb) db) (hc : ∀ o, NonFatal (c o))
    {r d'} (hr : run (Prog.finallyDrop p c) d = (r, d')) : FaultOutcomeX X (resErr r) d' := by
  simp only [run] at hr
  rcases hp : run p d with ⟨rp, d1⟩
  rw [hp] at hr
  have key : ∀ {o rc d2}, run (c o) { d1 with dropDepth := d1.dropDepth + 1 } = (rc, d2) →
      FaultOutcomeX X (resErr rp) { d2 with dropDepth := d2.dropDepth - 1 } := by
    intro o rc d2 hcr
    rcases hb _ _ hp with h1 | ⟨h1, f, h2, h3⟩
    · rcases run_any (c o) { d1 with dropDepth := d1.dropDepth + 1 } (by simpa using h1) hcr with h4 | ⟨h4, f', h5, h6⟩
      · left; simpa using h4
      · right
        refine ⟨by simpa using h4, f', by simpa using h5, fun hf => ?_⟩
        have := h6 (by simp); rw [this] at hf; cases hf
    · have := (run_facts (c o) _ hcr).spent (by simpa using h1)
      right; exact ⟨by simpa using this.1, f, by simpa [h2] using this.2, h3⟩
  cases rp with
  | ok a =>
    simp only at hr
    rcases hcr : run (c (some a)) { d1 with dropDepth := d1.dropDepth + 1 } with ⟨rc, d2⟩
    rw [hcr] at hr
    have hk := key hcr
    cases rc with
    | ok u => simp only at hr; cases hr; exact hk
    | error e' =>
      have hnf := (hc _).out _ _ _ hcr
      simp only [hnf] at hr
      cases hr; exact hk
  | error e =>
    simp only at hr
    split at hr
    · cases hr; exact hb _ _ hp
    · rcases hcr : run (c none) { d1 with dropDepth := d1.dropDepth + 1 } with ⟨rc, d2⟩
      rw [hcr] at hr
      have hk := key hcr
      cases rc with
      | ok u => simp only at hr; cases hr; exact hk
      | error e' =>
        have hnf := (hc _).out _ _ _ hcr
        simp only [hnf] at hr
        cases hr; exact hk

/-- **the second half of `create_dir` propagates a storage error**: hypotheses as `createDir_child` (the entry of the
    new directory is on the image, cluster `c` is zero-filled and ends a chain), on a device whose fault may still fire -/
theorem createDirTail_fo (fs0 : FsState) (st : DirStream) (e : DirEntry) (a : List Nat) (c : Nat) (d3 : Dev)
    (hl11 : a.length = 11) (hab : ∀ b ∈ a, b < 256) (hedata : e.data = sfnAt fs0 d3.clock a 16 (some c))
    (hg3 : FsGeomEq fs0 d3.fs) (hd3 : d3.fault = none) (hwf : d3.img.WF) (hgeo : FileSim.Geo fs0 d3.img.size)
    (hacc : fs0.accDate = false) (hcs32 : fs0.clusterSize % 32 = 0) (hcs64 : 64 ≤ fs0.clusterSize)
    (hu32 : fs0.clusterSize < 4294967296) (hfuelN : fs0.clusterSize / 32 < dirFuel fs0)
    (hrange : 2 ≤ c ∧ c < fs0.totalClusters + 2) (htvc : ∀ n, tabView d3.fs d3.img c ≠ .data n)
    (hzero : ∀ q, clusterOff fs0 c ≤ q → q < clusterOff fs0 c + fs0.clusterSize → d3.img.getByte q = 0)
    (hpos1 : (fatSliceOf fs0).beginOff + (fatSliceOf fs0).mirrors * (fatSliceOf fs0).size ≤ e.entryPos)
    (hpos2 : e.entryPos + 32 ≤ d3.img.size)
    (hpos3 : e.entryPos + 32 ≤ clusterOff fs0 c ∨ clusterOff fs0 c + fs0.clusterSize ≤ e.entryPos)
    {r d'} (hr : run (createDirTail fs0 st e) d3 = (r, d')) : FaultOutcome (resErr r) d' := by
  have hst42 := hgeo.status_lt
  have hfatdata := hgeo.fat_data
  have hms : (fatSliceOf fs0).size ≤ (fatSliceOf fs0).mirrors * (fatSliceOf fs0).size :=
    Nat.le_mul_of_pos_left _ hgeo.mirrors_pos
  obtain ⟨hco1, hco2⟩ := clusterOff_end hgeo hrange.1 hrange.2
  have heisdir : e.isDir = true := by
    unfold DirEntry.isDir; rw [hedata]; exact sfnAt_isDir_true _ _ _ _
  have hefc : e.firstCluster fs0 = some c := by
    unfold DirEntry.firstCluster
    rw [hedata]
    refine sfnAt_firstCluster fs0 d3.clock a 16 (some c) (fun m hm => ?_)
    cases hm
    have := hgeo.small
    have := badMark_bound fs0.fatType
    omega
  generalize hed0 : e.editor = ed0
  have hedpos : ed0.pos = e.entryPos := by rw [← hed0]; rfl
  have heddata : ed0.data = sfnAt fs0 d3.clock a 16 (some c) := by rw [← hed0]; exact hedata
  unfold createDirTail at hr
  refine faultOutcome_bind' (ioSafe_propagates (DirEntry.toDir_ioSafe _ _)) hd3 hr (fun dir d4 h4 hf4 r1 d1' hr1 => ?_)
  obtain ⟨d4g, h4g, hs4⟩ := toDir_sim fs0 e heisdir d3.disarm
  rw [run_disarm _ d3 h4 hd3 hf4] at h4g
  have hds : DirEntry.dirStream fs0 e = .file (FileH.new (some c) (some ed0)) := by
    unfold DirEntry.dirStream; rw [hefc, hed0]
  rw [hds] at h4g
  have hdir : dir = .file (FileH.new (some c) (some ed0)) := by
    injection (congrArg Prod.fst h4g) with h
  have hd4g : d4.disarm = d4g := congrArg Prod.snd h4g
  subst hd4g
  subst hdir
  have hg4 : FsGeomEq fs0 d4.fs := by have := hs4.fs; simp only [Dev.disarm_fs] at this; rw [this]; exact hg3
  have hc4 : d4.clock = d3.clock := run_clock _ _ _ _ h4
  have himg4 : d4.img = d3.img := by have := hs4.img; simpa using this
  have hcs4 : d4.fs.clusterSize = fs0.clusterSize := hg4.clusterSize
  have C4 : ChainDir d4.disarm (FileH.new (some c) (some ed0)) c [c] := by
    refine ⟨rfl, by show FileSim.Geo d4.fs d4.img.size; rw [himg4]; exact hgeo.frame hg4, rfl, ?_, ?_, ?_,
      Or.inl (by show d4.fs.accDate = false; rw [hg4.accDate]; exact hacc), ?_,
      by show d4.fs.clusterSize % 32 = 0; rw [hcs4]; exact hcs32,
      by show [c].length * d4.fs.clusterSize < _; rw [hcs4, List.length_singleton, Nat.one_mul]; exact hu32⟩
    · refine Chain.last c (fun m => ?_)
      show tabView d4.fs d4.img c ≠ _
      have := hs4.fs
      simp only [Dev.disarm_fs] at this
      rw [this, himg4]; exact htvc m
    · intro x hx
      simp only [List.mem_singleton] at hx
      subst hx
      show 2 ≤ x ∧ x < d4.fs.totalClusters + 2
      rw [hg4.totalClusters]; exact hrange
    · show ed0.data.size? = none
      rw [heddata]; exact sfnAt_size?_dir _ _ _ _
    · intro ed hed
      cases hed
      rw [← hed0]; rfl
  obtain ⟨K, hK⟩ : ∃ K, fs0.clusterSize / 32 = K + 2 := ⟨fs0.clusterSize / 32 - 2, by omega⟩
  have hcsK : fs0.clusterSize = 32 * (K + 2) := by
    have := Nat.div_add_mod fs0.clusterSize 32; omega
  have hsrcC : ∀ i, i < fs0.clusterSize / 32 → chainSrc fs0 [c] (32 * i) = clusterOff fs0 c + 32 * i :=
    fun i hi => chainSrc_single fs0 c i (by omega)
  -- the view of the new directory
  obtain ⟨V', hN, hsrc, hF⟩ : ∃ V' : WView d4.disarm (.file (FileH.new (some c) (some ed0))),
      V'.N = fs0.clusterSize / 32 ∧ V'.src = chainSrc fs0 [c] ∧
      V'.F = chainS (FileH.new (some c) (some ed0)) [c] d4.fs.clusterSize :=
    ⟨WView.ofSub d4.disarm c ed0 [c] C4 (by show d4.img.WF; rw [himg4]; exact hwf)
      (by show [c].length * (d4.fs.clusterSize / 32) < dirFuel d4.fs
          rw [List.length_singleton, Nat.one_mul, hcs4, dirFuel_geom hg4]; exact hfuelN)
      (by rw [heddata, sfnAt_name]; exact hl11)
      (by
        show (fatSliceOf d4.fs).beginOff + (fatSliceOf d4.fs).mirrors * (fatSliceOf d4.fs).size ≤ ed0.pos
        rw [hg4.fatSlice, hedpos]; exact hpos1)
      (by show ed0.pos + 32 ≤ d4.img.size; rw [himg4, hedpos]; exact hpos2)
      (fun i hi => by
        have hi' : i < fs0.clusterSize / 32 := by
          have : i < [c].length * (d4.fs.clusterSize / 32) := hi
          rwa [List.length_singleton, Nat.one_mul, hcs4] at this
        show chainSrc d4.fs [c] (32 * i) + 32 ≤ ed0.pos ∨ ed0.pos + 32 ≤ chainSrc d4.fs [c] (32 * i)
        rw [chainSrc_geom hg4, hsrcC i hi', hedpos]
        omega),
      by show [c].length * (d4.fs.clusterSize / 32) = _; rw [List.length_singleton, Nat.one_mul, hcs4],
      chainSrc_geom hg4 [c], rfl⟩
  have hcur : ∀ dd o, o ≤ 32 * V'.N → ∃ d1, run ((V'.F o).seek (.cur 0)) dd = (.ok (o, V'.F o), d1) := by
    intro dd o ho
    rw [hN] at ho
    rw [hF]
    have hle : o ≤ [c].length * d4.disarm.fs.clusterSize := by
      show o ≤ [c].length * d4.fs.clusterSize
      rw [List.length_singleton, Nat.one_mul, hcs4]; omega
    obtain ⟨d1, h1, _⟩ := dirFile_seekCur0 C4.core o hle dd
    refine ⟨d1, ?_⟩
    simp only [chainS, DirStream.seek]
    have h1' : run ((dirFile (FileH.new (some c) (some ed0)) [c] d4.fs.clusterSize o).seek (.cur 0)) dd =
        (.ok (o, dirFile (FileH.new (some c) (some ed0)) [c] d4.fs.clusterSize o), d1) := h1
    rw [run_bind_ok h1']
    rfl
  have hz : V'.slots d4.img = List.replicate (K + 2) (List.replicate 32 0) := by
    unfold WView.slots
    rw [hN, hsrc, hK]
    refine srcSlots_zero _ _ _ (fun i hi x hx => ?_)
    rw [hsrcC i (by omega), himg4]
    exact hzero _ (by omega) (by omega)
  obtain ⟨hf1, hw1, hf2, hw2⟩ := writeEntryDot_fresh
    (sfnWith (46 :: List.replicate 10 32) (16 :: sfnStamp d4.fs d4.clock (some c)))
    (sfnWith (46 :: 46 :: List.replicate 9 32) (16 :: sfnStamp d4.fs d4.clock (if st.isRootDir then none else st.firstCluster)))
    K rfl rfl
  have hraw1 := sfnAt_wf d4.fs d4.clock (46 :: List.replicate 10 32) 16 (some c) (by decide) (by decide) (by omega)
  have hlfn1 : attrsIsLfn (sfnAt d4.fs d4.clock (46 :: List.replicate 10 32) 16 (some c)).attrs = false := by
    rw [sfnAt_attrs]; decide
  -- the scope of the two dot entries
  refine faultOutcome_of_X (faultOutcomeX_finallyDrop_at (X := fun _ _ => False) (fun rb db hb => ?_) (fun o => ?_) hr1)
  · rw [run_bind_ok (run_createSfnEntry _ ATTR_DIRECTORY (e.firstCluster fs0) d4), hefc] at hb
    refine faultOutcomeX_bind_at (fun r5 d5 h5 => FaultOutcome.toX ?_) hb (fun e5 d5 h5 hf5 r6 d6 hr6 => ?_)
    · exact V'.writeEntryDot_fo hf4 hcur "." _ (by decide) hraw1 (by rw [hz, hf1, hN, hK]; omega) h5
    · -- `.` is written: the state of the directory on the disarmed device
      have h5' : run (FatVerif.writeEntry (.file (FileH.new (some c) (some ed0))) "."
          (sfnAt d4.fs d4.clock (46 :: List.replicate 10 32) 16 (some c))) d4 = (.ok e5, d5) := h5
      obtain ⟨d5g, h5g, _, _, hinv5, hsl5, _, _⟩ := V'.writeEntryDot_sim "."
        (sfnAt d4.fs d4.clock (46 :: List.replicate 10 32) 16 (some c)) validate_dot.1 (by decide) hraw1 hlfn1
        (by show DirSlots.findFree (V'.slots d4.img) 1 + 1 ≤ V'.N; rw [hz, hf1, hN, hK]; omega)
      rw [run_disarm _ d4 h5' hf4 hf5] at h5g
      have hd5g : d5.disarm = d5g := congrArg Prod.snd h5g
      subst hd5g
      have hsl5' : V'.slots d5.img = sfnWith (46 :: List.replicate 10 32) (16 :: sfnStamp d4.fs d4.clock (some c)) ::
          List.replicate (K + 1) (List.replicate 32 0) := by
        have : V'.slots d5.disarm.img = DirSlots.writeEntryDot (V'.slots d4.disarm.img)
            (sfnAt d4.fs d4.clock (46 :: List.replicate 10 32) 16 (some c)).serialize := hsl5
        simp only [Dev.disarm_img] at this
        rw [this, hz, sfnAt_serialize, hw1]
      rw [run_bind_ok (run_createSfnEntry _ ATTR_DIRECTORY _ d5)] at hr6
      have hraw2 := sfnAt_wf d5.fs d5.clock (46 :: 46 :: List.replicate 9 32) 16
        (if st.isRootDir then none else st.firstCluster) (by decide) (by decide) (by omega)
      refine faultOutcomeX_bind_at (fun r7 d7 h7 => FaultOutcome.toX ?_) hr6 (fun e7 d7 _ hf7 r8 d8 hr8 => ?_)
      · exact (V'.step hinv5).writeEntryDot_fo hf5 hcur ".." _ (by decide) hraw2
          (by show DirSlots.findFree (V'.slots d5.img) 1 + 1 ≤ V'.N; rw [hsl5', hf2, hN, hK]; omega) h7
      · exact FaultOutcome.toX (ioSafe_propagates (IoSafe.pure _) d7 hf7 _ _ hr8)
  · cases o with
    | some _ => exact NonFatal.pure ()
    | none => exact DirStream.dropBody_nonFatal _

end FatVerif.DirSim
