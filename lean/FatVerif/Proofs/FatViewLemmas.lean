import FatVerif.Model.FatView
/-! View-level lemmas: the free-cluster scans, allocation, chains and chain freeing on `Nat → FatValue`. -/
namespace FatVerif.Fat

@[simp] theorem updV_same (g : Nat → FatValue) (c : Nat) (v : FatValue) : updV g c v c = v := by simp [updV]

theorem updV_ne (g : Nat → FatValue) (c i : Nat) (v : FatValue) (h : i ≠ c) : updV g c v i = g i := by
  simp [updV, h]

/-! ### scans -/

theorem findFreeV_some (g : Nat → FatValue) : ∀ len s c, findFreeV g s len = some c →
    s ≤ c ∧ c < s + len ∧ g c = .free ∧ ∀ i, s ≤ i → i < c → g i ≠ .free := by
  intro len
  induction len with
  | zero => intro s c h; simp [findFreeV] at h
  | succ len ih =>
    intro s c h
    simp only [findFreeV] at h
    split at h
    · rename_i hf; cases h; exact ⟨Nat.le_refl _, by omega, hf, fun i h1 h2 => by omega⟩
    · rename_i hf
      obtain ⟨a, b, c', d⟩ := ih _ _ h
      refine ⟨by omega, by omega, c', fun i h1 h2 => ?_⟩
      by_cases hi : i = s
      · subst hi; exact hf
      · exact d i (by omega) h2

theorem findFreeV_none (g : Nat → FatValue) : ∀ len s, findFreeV g s len = none →
    ∀ i, s ≤ i → i < s + len → g i ≠ .free := by
  intro len
  induction len with
  | zero => intro s _ i h1 h2; omega
  | succ len ih =>
    intro s h i h1 h2
    simp only [findFreeV] at h
    split at h
    · cases h
    · rename_i hf
      by_cases hi : i = s
      · subst hi; exact hf
      · exact ih _ h i (by omega) (by omega)

/-- the scan depends only on the entries it reads -/
theorem findFreeV_congr (g g' : Nat → FatValue) : ∀ len s, (∀ i, s ≤ i → i < s + len → g i = g' i) →
    findFreeV g s len = findFreeV g' s len := by
  intro len
  induction len with
  | zero => intro s _; rfl
  | succ len ih =>
    intro s h
    simp only [findFreeV]
    rw [h s (Nat.le_refl _) (by omega), ih (s + 1) (fun i h1 h2 => h i (by omega) (by omega))]

theorem allocStartV_le (hint : Option Nat) (total : Nat) : allocStartV hint total ≤ total + 2 := by
  unfold allocStartV
  cases hint with
  | none => simp
  | some n => simp only; split <;> omega

/-- `Some(n) if n < end_cluster` : the first scan never starts at `total+2` unless the volume has no clusters -/
theorem allocStartV_lt (hint : Option Nat) (total : Nat) (ht : 0 < total) : allocStartV hint total < total + 2 := by
  unfold allocStartV
  cases hint with
  | none => simp; omega
  | some n => simp only; split <;> omega

theorem allocStartV_ge (hint : Option Nat) (total : Nat) (hh : ∀ n, hint = some n → 2 ≤ n) :
    2 ≤ allocStartV hint total := by
  unfold allocStartV
  cases hint with
  | none => simp
  | some n => have := hh n rfl; simp only; split <;> omega

/-- whatever the hint: the result is below `total+2` and was free -/
theorem allocFindV_some_lt (g : Nat → FatValue) (hint : Option Nat) (total c : Nat)
    (h : allocFindV g hint total = some c) : c < total + 2 ∧ g c = .free := by
  have hs := allocStartV_le hint total
  unfold allocFindV at h
  generalize allocStartV hint total = start at *
  cases h1 : findFreeV g start (total + 2 - start) with
  | some c' =>
    rw [h1] at h; cases h
    obtain ⟨a, b, cf, _⟩ := findFreeV_some g _ _ _ h1
    exact ⟨by omega, cf⟩
  | none =>
    rw [h1] at h
    simp only at h
    split at h
    · obtain ⟨a, b, cf, _⟩ := findFreeV_some g _ _ _ h
      exact ⟨by omega, cf⟩
    · cases h

theorem allocFindV_some (g : Nat → FatValue) (hint : Option Nat) (total c : Nat)
    (hh : ∀ n, hint = some n → 2 ≤ n) (h : allocFindV g hint total = some c) :
    2 ≤ c ∧ c < total + 2 ∧ g c = .free := by
  have hs := allocStartV_le hint total
  have hs2 := allocStartV_ge hint total hh
  obtain ⟨hlt, hf⟩ := allocFindV_some_lt g hint total c h
  refine ⟨?_, hlt, hf⟩
  unfold allocFindV at h
  generalize allocStartV hint total = start at *
  cases h1 : findFreeV g start (total + 2 - start) with
  | some c' =>
    rw [h1] at h; cases h
    obtain ⟨a, _, _, _⟩ := findFreeV_some g _ _ _ h1
    omega
  | none =>
    rw [h1] at h
    simp only at h
    split at h
    · obtain ⟨a, _, _, _⟩ := findFreeV_some g _ _ _ h
      exact a
    · cases h

/-- NotEnoughSpace ⇒ no free entry in `[max 2 start … total+2)` ∪ `[2, start)`; with a hint ≥ 2 (or none): none at all -/
theorem allocFindV_none (g : Nat → FatValue) (hint : Option Nat) (total : Nat)
    (h : allocFindV g hint total = none) : ∀ i, 2 ≤ i → i < total + 2 → g i ≠ .free := by
  have hs := allocStartV_le hint total
  unfold allocFindV at h
  generalize allocStartV hint total = start at *
  cases h1 : findFreeV g start (total + 2 - start) with
  | some c' => rw [h1] at h; cases h
  | none =>
    rw [h1] at h
    simp only at h
    have hn1 := findFreeV_none g _ _ h1
    intro i hi1 hi2
    split at h
    · have hn2 := findFreeV_none g _ _ h
      by_cases hlt : i < start
      · exact hn2 i hi1 (by omega)
      · exact hn1 i (by omega) (by omega)
    · exact hn1 i (by omega) (by omega)

/-- converse: a free entry in `[2,total+2)` is found (hint anywhere ≥ 2, or absent) -/
theorem allocFindV_isSome (g : Nat → FatValue) (hint : Option Nat) (total i : Nat)
    (hi1 : 2 ≤ i) (hi2 : i < total + 2) (hf : g i = .free) : ∃ c, allocFindV g hint total = some c := by
  cases h : allocFindV g hint total with
  | some c => exact ⟨c, rfl⟩
  | none => exact absurd hf (allocFindV_none g hint total h i hi1 hi2)

theorem allocLinkV_spec (g : Nat → FatValue) (prev : Option Nat) (c : Nat) (hp : ∀ p, prev = some p → p ≠ c) :
    allocLinkV g prev c c = .eoc ∧ (∀ p, prev = some p → allocLinkV g prev c p = .data c) ∧
    (∀ i, i ≠ c → (∀ p, prev = some p → i ≠ p) → allocLinkV g prev c i = g i) := by
  unfold allocLinkV
  cases prev with
  | none =>
    refine ⟨by simp [updV], ?_, ?_⟩
    · intro p h; cases h
    · intro i hi _; simp [updV, hi]
  | some p =>
    have := hp p rfl
    refine ⟨by simp [updV, Ne.symm this], ?_, ?_⟩
    · intro q hq; cases hq; simp [updV]
    · intro i hi hq; simp [updV, hi, hq p rfl]

/-! ### chains -/

theorem chain_head {g : Nat → FatValue} {c : Nat} {cs : List Nat} (h : Chain g c cs) : ∃ t, cs = c :: t := by
  cases h with
  | last _ _ => exact ⟨[], rfl⟩
  | cons _ n t _ _ => exact ⟨t, rfl⟩

theorem chain_ne_nil {g : Nat → FatValue} {c : Nat} {cs : List Nat} (h : Chain g c cs) : cs ≠ [] := by
  obtain ⟨t, rfl⟩ := chain_head h; simp

/-- a chain is determined by the view -/
theorem chain_unique {g : Nat → FatValue} : ∀ {cs : List Nat} {c : Nat} {cs' : List Nat},
    Chain g c cs → Chain g c cs' → cs = cs' := by
  intro cs
  induction cs with
  | nil => intro c cs' h; cases h
  | cons x xs ih =>
    intro c cs' h h'
    cases h with
    | last _ hl =>
      cases h' with
      | last _ _ => rfl
      | cons _ n t hd _ => exact absurd hd (hl n)
    | cons _ n _ hd hc =>
      cases h' with
      | last _ hl => exact absurd hd (hl n)
      | cons _ n' t hd' hc' =>
        rw [hd] at hd'; cases hd'
        rw [ih hc hc']

theorem chain_updV_other (g : Nat → FatValue) (c : Nat) (v : FatValue) : ∀ n cs, Chain g n cs → c ∉ cs →
    Chain (updV g c v) n cs := by
  intro n cs h
  induction h with
  | last m hl =>
    intro hc
    have : m ≠ c := by intro h; subst h; simp at hc
    exact Chain.last m (by intro k; simp [updV, this]; exact hl k)
  | cons m k ms hd _ ih =>
    intro hc
    have hm : m ≠ c := by intro h; subst h; simp at hc
    have : c ∉ ms := by intro h; exact hc (List.mem_cons_of_mem _ h)
    exact Chain.cons m k ms (by simp [updV, hm, hd]) (ih this)

/-- every member of a chain except its head has its predecessor in the chain -/
theorem chain_pred {g : Nat → FatValue} {c : Nat} {cs : List Nat} (h : Chain g c cs) :
    ∀ n, n ∈ cs → n = c ∨ ∃ a, a ∈ cs ∧ g a = .data n := by
  induction h with
  | last m _ => intro n hn; simp at hn; exact Or.inl hn
  | cons m k ms hd hc ih =>
    intro n hn
    rcases List.mem_cons.mp hn with rfl | hn
    · exact Or.inl rfl
    · rcases ih n hn with rfl | ⟨a, ha, hga⟩
      · exact Or.inr ⟨m, by simp, hd⟩
      · exact Or.inr ⟨a, List.mem_cons_of_mem _ ha, hga⟩

/-- the links leaving a chain's members stay in the chain, except the last one -/
theorem chain_succ {g : Nat → FatValue} {c : Nat} {cs : List Nat} (h : Chain g c cs) :
    ∀ a n, a ∈ cs → g a = .data n → n ∈ cs := by
  induction h with
  | last m hl => intro a n ha hd; simp at ha; subst ha; exact absurd hd (hl n)
  | cons m k ms hd hc ih =>
    intro a n ha hda
    rcases List.mem_cons.mp ha with rfl | ha
    · rw [hd] at hda; cases hda
      obtain ⟨t, rfl⟩ := chain_head hc
      simp
    · exact List.mem_cons_of_mem _ (ih a n ha hda)

/-! ### ClusterIterator::free on the view -/

theorem nextV_last {g : Nat → FatValue} {c : Nat} (hl : ∀ n, g c ≠ .data n) : nextV g c = none := by
  unfold nextV
  cases hfc : g c with
  | data n => exact absurd hfc (hl n)
  | _ => rfl

theorem nextV_data {g : Nat → FatValue} {c n : Nat} (hd : g c = .data n) : nextV g c = some n := by
  unfold nextV; rw [hd]

theorem freeChainV_spec : ∀ (cs : List Nat) (g : Nat → FatValue) (c : Nat), Chain g c cs →
    cs.Nodup → ∀ fuel cnt, cs.length ≤ fuel → ∃ g', freeChainV g (some c) fuel cnt = some (cnt + cs.length, g') ∧
      (∀ i, i ∈ cs → g' i = .free) ∧ (∀ i, i ∉ cs → g' i = g i) := by
  intro cs
  induction cs with
  | nil => intro g c h; cases h
  | cons x xs ih =>
    intro g c h hnd fuel cnt hf
    obtain ⟨fuel, rfl⟩ : ∃ k, fuel = k + 1 := ⟨fuel - 1, by simp at hf; omega⟩
    cases h with
    | last _ hl =>
      refine ⟨updV g x .free, ?_, ?_, ?_⟩
      · simp only [freeChainV, nextV_last hl]; rfl
      · intro i hi; simp at hi; subst hi; simp [updV]
      · intro i hi; simp at hi; simp [updV, hi]
    | cons _ n _ hd hc =>
      have hnd' : xs.Nodup := (List.nodup_cons.mp hnd).2
      have hcn : x ∉ xs := (List.nodup_cons.mp hnd).1
      have hc' := chain_updV_other g x .free n xs hc hcn
      obtain ⟨g', h1, h2, h3⟩ := ih (updV g x .free) n hc' hnd' fuel (cnt + 1) (by simp at hf; omega)
      refine ⟨g', ?_, ?_, ?_⟩
      · simp only [freeChainV, nextV_data hd, h1, List.length_cons]; congr 2; omega
      · intro i hi
        rcases List.mem_cons.mp hi with rfl | hi
        · rw [h3 _ hcn]; simp [updV]
        · exact h2 i hi
      · intro i hi
        have hic : i ≠ x := by intro h; subst h; simp at hi
        have hix : i ∉ xs := by intro h; exact hi (List.mem_cons_of_mem _ h)
        rw [h3 i hix]; simp [updV, hic]

/-- `truncate` keeps the head (now EOC) and frees the rest of the chain -/
theorem truncateChainV_spec (g : Nat → FatValue) (c : Nat) (t : List Nat) (h : Chain g c (c :: t))
    (hnd : (c :: t).Nodup) (fuel : Nat) (hf : t.length ≤ fuel) :
    ∃ g', truncateChainV g c fuel = some (t.length, g') ∧ g' c = .eoc ∧
      (∀ i, i ∈ t → g' i = .free) ∧ (∀ i, i ≠ c → i ∉ t → g' i = g i) := by
  have hct : c ∉ t := (List.nodup_cons.mp hnd).1
  have hndt : t.Nodup := (List.nodup_cons.mp hnd).2
  unfold truncateChainV
  cases h with
  | last _ hl =>
    refine ⟨updV g c .eoc, ?_, by simp, ?_, ?_⟩
    · simp [nextV_last hl, freeChainV]
    · intro i hi; simp at hi
    · intro i hi _; simp [updV, hi]
  | cons _ n _ hd hc =>
    have hc' := chain_updV_other g c .eoc n t hc hct
    obtain ⟨g', h1, h2, h3⟩ := freeChainV_spec t (updV g c .eoc) n hc' hndt fuel 0 hf
    refine ⟨g', ?_, ?_, h2, ?_⟩
    · rw [nextV_data hd, h1]; simp
    · rw [h3 c hct]; simp
    · intro i hi hit; rw [h3 i hit]; simp [updV, hi]

/-! ### counting -/

theorem countFreeV_congr (g g' : Nat → FatValue) (total : Nat)
    (h : ∀ i, 2 ≤ i → i < total + 2 → (g i = .free ↔ g' i = .free)) : countFreeV g total = countFreeV g' total := by
  unfold countFreeV
  apply List.countP_congr
  intro i hi
  have := List.mem_range.mp hi
  simp only [decide_eq_true_eq]
  exact h (i + 2) (by omega) (by omega)

theorem countFreeV_succ (g : Nat → FatValue) (total : Nat) :
    countFreeV g (total + 1) = countFreeV g total + (if g (total + 2) = .free then 1 else 0) := by
  unfold countFreeV
  rw [List.range_succ, List.countP_append]
  simp [List.countP_cons]


theorem countFreeV_updV_out (g : Nat → FatValue) (c : Nat) (v : FatValue) (total : Nat)
    (h : c < 2 ∨ total + 2 ≤ c) : countFreeV (updV g c v) total = countFreeV g total :=
  countFreeV_congr _ _ _ (fun i h1 h2 => by rw [updV_ne _ _ _ _ (by omega)])

/-- effect of a point update inside `[2,total+2)` on the free count -/
theorem countFreeV_updV (g : Nat → FatValue) (c : Nat) (v : FatValue) : ∀ total, 2 ≤ c → c < total + 2 →
    countFreeV (updV g c v) total + (if g c = .free then 1 else 0) =
      countFreeV g total + (if v = .free then 1 else 0) := by
  intro total
  induction total with
  | zero => intro h1 h2; omega
  | succ n ih =>
    intro h1 h2
    rw [countFreeV_succ, countFreeV_succ]
    by_cases hc : c = n + 2
    · subst hc
      rw [countFreeV_updV_out g (n + 2) v n (by omega), updV_same]
      omega
    · rw [updV_ne _ _ _ _ (Ne.symm hc)]
      have := ih h1 (by omega)
      omega

/-- freeing the members of a duplicate-free list of allocated in-range entries raises the free count by its length -/
theorem countFreeV_free_list : ∀ (cs : List Nat) (g g' : Nat → FatValue) (total : Nat), cs.Nodup →
    (∀ i, i ∈ cs → 2 ≤ i ∧ i < total + 2 ∧ g i ≠ .free) → (∀ i, i ∈ cs → g' i = .free) →
    (∀ i, i ∉ cs → (g' i = .free ↔ g i = .free)) → countFreeV g' total = countFreeV g total + cs.length := by
  intro cs
  induction cs with
  | nil =>
    intro g g' total _ _ _ h
    simp; exact countFreeV_congr _ _ _ (fun i _ _ => h i (by simp))
  | cons x xs ih =>
    intro g g' total hnd hin hfree hsame
    have hx := hin x (by simp)
    have hxn : x ∉ xs := (List.nodup_cons.mp hnd).1
    have h1 := ih (updV g x .free) g' total (List.nodup_cons.mp hnd).2
      (fun i hi => by
        have := hin i (List.mem_cons_of_mem _ hi)
        have hix : i ≠ x := by intro h; subst h; exact hxn hi
        rw [updV_ne _ _ _ _ hix]; exact this)
      (fun i hi => hfree i (List.mem_cons_of_mem _ hi))
      (fun i hi => by
        by_cases hix : i = x
        · subst hix; simp [hfree i (by simp)]
        · rw [updV_ne _ _ _ _ hix]; exact hsame i (by simp [hix, hi]))
    have h2 := countFreeV_updV g x .free total
    have h2 := h2 hx.1 hx.2.1
    rw [if_neg hx.2.2, if_pos rfl] at h2
    rw [h1, List.length_cons]; omega

end FatVerif.Fat
