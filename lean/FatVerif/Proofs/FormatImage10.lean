import FatVerif.Proofs.FormatImage9
/-! C06 image part, 10: `format_fat` on FAT16 — exact bytes. -/
namespace FatVerif
open Format

section fat16
variable {s0 : DiskSlice} (hv : s0.viaFs = false) (hmir : 0 < s0.mirrors)
include hv hmir

theorem set16_exact {s : DiskSlice} (hs : SliceInv s0 s) (c : Nat) (v : FatValue) (d : Dev)
    (hdev : s0.beginOff + s0.mirrors * s0.size ≤ d.img.size) {s' : DiskSlice} {d' : Dev}
    (hr : run (Table.set DiskSlice.strm .fat16 s c v) d = (.ok s', d')) :
    c * 2 + 2 ≤ s0.size ∧ SliceInv s0 s' ∧
    Seg d d' (mwItems s0 (c * 2) (bytesLe16 (Table.rawOfValue .fat16 v % 65536))) := by
  unfold Table.set at hr
  dsimp only at hr
  have := slice_seek_writeAll_exact hs hv hmir (c * 2) (bytesLe16 (Table.rawOfValue .fat16 v % 65536))
    (by simp [bytesLe16]) d hdev _ (fun _ _ => rfl) hr
  simpa [bytesLe16] using this

/-- effect of a list of records on every copy of the slice: bytes `[lo, hi)` (relative) become `val`, the rest of
    the copy is unchanged -/
def FillEff (s0 : DiskSlice) (L : List LogItem) (lo hi val : Nat) : Prop :=
  ∀ (g : Nat → Nat) (rest : List LogItem) (i x : Nat), i < s0.mirrors → x < s0.size →
    replay g (L ++ rest) (s0.beginOff + i * s0.size + x) =
      if lo ≤ x ∧ x < hi then val else replay g rest (s0.beginOff + i * s0.size + x)

theorem setRange16_exact : ∀ (k : Nat) (s : DiskSlice) (c : Nat) (d : Dev) (s' : DiskSlice) (d' : Dev),
    SliceInv s0 s → s0.beginOff + s0.mirrors * s0.size ≤ d.img.size →
    run (Table.setRange DiskSlice.strm .fat16 .eoc k s c) d = (.ok s', d') →
    SliceInv s0 s' ∧ (0 < k → (c + k) * 2 ≤ s0.size) ∧
    ∃ L, Seg d d' L ∧ FillEff s0 L (c * 2) ((c + k) * 2) 255 := by
  intro k
  induction k with
  | zero =>
    intro s c d s' d' hs _ hr
    unfold Table.setRange at hr
    have hr' : run (Prog.pure s) d = (.ok s', d') := hr
    simp only [run] at hr'; cases hr'
    refine ⟨hs, fun h => by omega, [], Seg.refl _, ?_⟩
    intro g rest i x _ _
    rw [if_neg (by omega)]; rfl
  | succ k ih =>
    intro s c d s' d' hs hdev hr
    unfold Table.setRange at hr
    rcases run_bind_cases hr with ⟨s1, d1, h1, h2⟩ | ⟨e, _, he⟩
    · obtain ⟨hfit, hs1, hseg1⟩ := set16_exact hv hmir hs c .eoc d hdev h1
      have hd1 : d1.img.size = d.img.size := run_img_size _ _ _ _ h1
      obtain ⟨hs', hk, L2, hseg2, heff2⟩ := ih s1 (c + 1) d1 s' d' hs1 (by rw [hd1]; exact hdev) h2
      refine ⟨hs', fun _ => ?_, L2 ++ mwItems s0 (c * 2) (bytesLe16 (Table.rawOfValue .fat16 .eoc % 65536)),
        hseg1.trans hseg2, ?_⟩
      · by_cases hk0 : 0 < k
        · have := hk hk0; omega
        · have : k = 0 := by omega
          subst this; omega
      · intro g rest i x hi hx
        rw [List.append_assoc, heff2 g _ i x hi hx]
        have hdata : bytesLe16 (Table.rawOfValue .fat16 .eoc % 65536) = [255, 255] := by decide
        rw [hdata, replay_mwItems s0 hmir (c * 2) [255, 255] (by simpa using hfit) g rest i x hi hx]
        simp only [List.length_cons, List.length_nil]
        by_cases h1 : (c + 1) * 2 ≤ x ∧ x < (c + 1 + k) * 2
        · rw [if_pos h1, if_pos (by omega)]
        · rw [if_neg h1]
          by_cases h2 : c * 2 ≤ x ∧ x < c * 2 + (0 + 1 + 1)
          · rw [if_pos h2, if_pos (by omega)]
            have : x - c * 2 = 0 ∨ x - c * 2 = 1 := by omega
            rcases this with e | e <;> rw [e] <;> rfl
          · rw [if_neg h2, if_neg (by omega)]
    · cases he

/-- effect of `format_fat` on FAT16: entry 0 = media | 0xFF00, entry 1 = 0xFFFF, entries `[total+2, endC)` = 0xFFFF -/
def Fmt16Eff (s0 : DiskSlice) (L : List LogItem) (media startC endC : Nat) : Prop :=
  ∀ (g : Nat → Nat) (rest : List LogItem) (i x : Nat), i < s0.mirrors → x < s0.size →
    replay g (L ++ rest) (s0.beginOff + i * s0.size + x) =
      if x < 2 then (bytesLe16 (media ||| 0xFF00)).getD x 0
      else if x < 4 then 255
      else if startC * 2 ≤ x ∧ x < (startC + (endC - startC)) * 2 then 255
      else replay g rest (s0.beginOff + i * s0.size + x)

theorem formatFat16_exact (media bytesPerFat total : Nat) (d : Dev) (s' : DiskSlice) (d' : Dev)
    (hdev : s0.beginOff + s0.mirrors * s0.size ≤ d.img.size)
    (hend : ¬ (bytesPerFat * 8 / 16) % 4294967296 > 0x0FFFFFF0)
    (hr : run (Table.formatFat DiskSlice.strm .fat16 { s0 with offset := 0 } media bytesPerFat total) d = (.ok s', d')) :
    ∃ L, Seg d d' L ∧ Fmt16Eff s0 L media (total + 2) ((bytesPerFat * 8 / 16) % 4294967296) ∧
      (0 < (bytesPerFat * 8 / 16) % 4294967296 - (total + 2) →
        (total + 2 + ((bytesPerFat * 8 / 16) % 4294967296 - (total + 2))) * 2 ≤ s0.size) ∧ 4 ≤ s0.size := by
  have hs : SliceInv s0 { s0 with offset := 0 } := ⟨rfl, rfl, rfl, rfl, Nat.zero_le _⟩
  unfold Table.formatFat at hr
  rcases run_bind_cases hr with ⟨s2, d2, h1, h2⟩ | ⟨e, _, he⟩
  · dsimp only at h1
    rcases run_bind_cases h1 with ⟨s1, d1, h3, h4⟩ | ⟨e, _, he⟩
    · have a1 := slice_writeAll_exact hs hv hmir (bytesLe16 (media ||| 0xFF00)) (by simp [bytesLe16]) d hdev h3
      obtain ⟨hfit1, hs1eq, hs1, hseg1⟩ := a1
      have hd1 : d1.img.size = d.img.size := run_img_size _ _ _ _ h3
      have a2 := slice_writeAll_exact hs1 hv hmir (bytesLe16 0xFFFF) (by simp [bytesLe16]) d1
        (by rw [hd1]; exact hdev) h4
      obtain ⟨hfit2, _, hs2, hseg2⟩ := a2
      have hoff1 : s1.offset = 2 := by rw [hs1eq]; simp [bytesLe16]
      rw [hoff1] at hseg2 hfit2
      have hd2 : d2.img.size = d.img.size := (run_img_size _ _ _ _ h4).trans hd1
      dsimp only at h2
      rw [show FatType.fat16.bits = 16 from rfl] at h2
      rcases run_bind_cases h2 with ⟨s3, d3, h5, h6⟩ | ⟨e, _, he⟩
      · obtain ⟨_, hk, L3, hseg3, heff3⟩ := setRange16_exact hv hmir _ s2 (total + 2) d2 s3 d3 hs2
          (by rw [hd2]; exact hdev) h5
        rw [if_neg hend] at h6
        have h6' : run (Prog.pure s3) d3 = (.ok s', d') := h6
        simp only [run] at h6'; cases h6'
        have hlen2 : (bytesLe16 0xFFFF).length = 2 := by simp [bytesLe16]
        have hlen1 : (bytesLe16 (media ||| 0xFF00)).length = 2 := by simp [bytesLe16]
        rw [hlen2] at hfit2
        refine ⟨L3 ++ (mwItems s0 2 (bytesLe16 0xFFFF) ++ mwItems s0 0 (bytesLe16 (media ||| 0xFF00))),
          (hseg1.trans hseg2).trans hseg3, ?_, hk, by omega⟩
        intro g rest i x hi hx
        rw [List.append_assoc, heff3 g _ i x hi hx, List.append_assoc,
          replay_mwItems s0 hmir 2 _ (by rw [hlen2]; omega) g _ i x hi hx,
          replay_mwItems s0 hmir 0 _ (by rw [hlen1]; omega) g _ i x hi hx, hlen1, hlen2]
        by_cases hx2 : x < 2
        · rw [if_pos hx2, if_neg (by omega), if_neg (by omega), if_pos (by omega)]
          rfl
        · rw [if_neg hx2]
          by_cases hx4 : x < 4
          · rw [if_pos hx4, if_neg (by omega), if_pos (by omega)]
            have : x - 2 = 0 ∨ x - 2 = 1 := by omega
            rcases this with e | e <;> rw [e] <;> rfl
          · rw [if_neg hx4]
            by_cases hr3 : (total + 2) * 2 ≤ x ∧ x < (total + 2 + ((bytesPerFat * 8 / 16) % 4294967296 - (total + 2))) * 2
            · rw [if_pos hr3, if_pos hr3]
            · rw [if_neg hr3, if_neg hr3, if_neg (by omega), if_neg (by omega)]
      · cases he
    · cases he
  · cases he

end fat16

end FatVerif
