import FatVerif.Proofs.FormatImage1
import FatVerif.Model.Fs
/-! C06 image part, 2: what the raw-device steps of `format_volume` append to the log (successful runs). -/
namespace FatVerif

/-- a successful raw-device step: the records appended tile `bs` from the old position, the position advances -/
def Tiled (d d' : Dev) (bs : List Nat) : Prop :=
  ∃ items, d'.log = items.reverse ++ d.log ∧ Pieces d.pos bs items ∧ d'.pos = d.pos + bs.length

theorem Tiled.size {d d' : Dev} {bs : List Nat} {α} {p : Prog α} {r} (_ : Tiled d d' bs) (hr : run p d = (r, d')) :
    d'.img.size = d.img.size := run_img_size _ _ _ _ hr

theorem writeAll_dev_tiled (bs : List Nat) (d : Dev) {u : Unit} {d' : Dev}
    (hr : run (writeAll devStrm () bs) d = (.ok u, d')) : Tiled d d' bs := by
  obtain ⟨items, h1, h2, h3, _⟩ := writeAll_dev_pieces bs d hr
  exact ⟨items, h1, h2, h3⟩

theorem Tiled.append {a b c : Dev} {x y : List Nat} (h1 : Tiled a b x) (h2 : Tiled b c y) : Tiled a c (x ++ y) := by
  obtain ⟨i1, l1, p1, q1⟩ := h1
  obtain ⟨i2, l2, p2, q2⟩ := h2
  refine ⟨i1 ++ i2, by rw [l2, l1]; simp, Pieces.append p1 (by rw [← q1]; exact p2), ?_⟩
  rw [q2, q1, List.length_append]; omega

theorem Tiled.nil (d : Dev) : Tiled d d [] := ⟨[], rfl, Pieces.nil _, rfl⟩

theorem writeChunks_dev_tiled : ∀ (cs : List (List Nat)) (d : Dev) (u : Unit) (d' : Dev),
    run (writeChunks devStrm () cs) d = (.ok u, d') → Tiled d d' cs.flatten := by
  intro cs
  induction cs with
  | nil =>
    intro d u d' hr
    unfold writeChunks at hr
    have : run (Prog.pure ()) d = (.ok u, d') := hr
    simp only [run] at this; cases this
    exact Tiled.nil _
  | cons c rest ih =>
    intro d u d' hr
    unfold writeChunks at hr
    have hr' : run (Prog.bind (writeAll devStrm () c) (fun s' => writeChunks devStrm s' rest)) d = (.ok u, d') := hr
    rcases run_bind_cases hr' with ⟨u1, d1, h1, h2⟩ | ⟨e, _, he⟩
    · rw [List.flatten_cons]
      exact (writeAll_dev_tiled c d h1).append (ih _ _ _ h2)
    · cases he

theorem writeZerosLoop_dev_tiled : ∀ (fuel len : Nat) (d : Dev) (u : Unit) (d' : Dev),
    run (writeZerosLoop devStrm fuel () len) d = (.ok u, d') → Tiled d d' (List.replicate len 0) := by
  intro fuel
  induction fuel with
  | zero =>
    intro len d u d' hr
    unfold writeZerosLoop at hr
    simp only [run] at hr; cases hr
  | succ k ih =>
    intro len d u d' hr
    unfold writeZerosLoop at hr
    split at hr
    · rename_i h0
      have : run (Prog.pure ()) d = (.ok u, d') := hr
      simp only [run] at this; cases this
      subst h0
      exact Tiled.nil _
    · rename_i hne
      have hr' : run (Prog.bind (writeAll devStrm () (List.replicate (min len 512) 0))
          (fun s' => writeZerosLoop devStrm k s' (len - min len 512))) d = (.ok u, d') := hr
      rcases run_bind_cases hr' with ⟨u1, d1, h1, h2⟩ | ⟨e, _, he⟩
      · have := (writeAll_dev_tiled _ d h1).append (ih _ _ _ _ h2)
        rw [List.replicate_append_replicate] at this
        rwa [show min len 512 + (len - min len 512) = len by omega] at this
      · cases he

theorem writeZeros_dev_tiled (len : Nat) (d : Dev) {u : Unit} {d' : Dev}
    (hr : run (writeZeros devStrm () len) d = (.ok u, d')) : Tiled d d' (List.replicate len 0) :=
  writeZerosLoop_dev_tiled _ _ _ _ _ hr

theorem count_s (d : Dev) : (d.count .s).log = d.log ∧ (d.count .s).pos = d.pos ∧ (d.count .s).img = d.img := by
  unfold Dev.count; simp

/-- a successful seek does not touch the log; the position is the value returned -/
theorem run_seekStart_ok (n : Nat) (d : Dev) {v : Nat} {d1 : Dev} (hr : run (Prog.seekStart n) d = (.ok v, d1)) :
    d1.log = d.log ∧ d1.pos = n := by
  have := run_seekStart_spec n d hr
  exact ⟨this.2.1, this.2.2 _ rfl⟩

theorem run_seekCur0_ok (d : Dev) {v : Nat} {d1 : Dev} (hr : run (Prog.seek (.cur 0)) d = (.ok v, d1)) :
    d1.log = d.log ∧ d1.pos = d.pos ∧ v = d.pos := by
  have hc := count_s d
  simp only [Prog.seek, run, stepOp, devCall, devCallCore] at hr
  split at hr
  · cases hr
  · split at hr
    · cases hr
    · cases hr
      simp only [hc.2.1, hc.1, Int.add_zero, Int.toNat_natCast, and_self]

theorem run_seekEnd0_ok (d : Dev) {v : Nat} {d1 : Dev} (hr : run (Prog.seek (.fromEnd 0)) d = (.ok v, d1)) :
    d1.log = d.log ∧ v = d.img.size := by
  have hc := count_s d
  simp only [Prog.seek, run, stepOp, devCall, devCallCore] at hr
  split at hr
  · cases hr
  · split at hr
    · cases hr
    · cases hr
      simp only [hc.2.2, hc.1, Int.add_zero, Int.toNat_natCast, and_self]

/-- `write_zeros_until_end_of_sector`: zeros from the position up to the next multiple of `bps` (nothing if the
    position is a multiple already) -/
theorem writeZerosUntilEndOfSector_tiled (bps : Nat) (d : Dev) {u : Unit} {d' : Dev}
    (hr : run (writeZerosUntilEndOfSector bps) d = (.ok u, d')) :
    ∃ d1, d1.log = d.log ∧ d1.pos = d.pos ∧
      Tiled d1 d' (List.replicate (if bps - d.pos % bps = bps then 0 else bps - d.pos % bps) 0) := by
  unfold writeZerosUntilEndOfSector at hr
  rcases run_bind_cases hr with ⟨v, d1, h1, h2⟩ | ⟨e, _, he⟩
  · obtain ⟨hl, hp, hv⟩ := run_seekCur0_ok d h1
    subst hv
    refine ⟨d1, hl, hp, ?_⟩
    dsimp only at h2
    split at h2
    · rename_i hn
      rw [if_neg hn]
      rcases run_bind_cases h2 with ⟨u1, d2, h3, h4⟩ | ⟨e, _, he⟩
      · have h4' : run (Prog.pure ()) d2 = (.ok u, d') := h4
        simp only [run] at h4'; cases h4'
        exact writeZeros_dev_tiled _ d1 h3
      · cases he
    · rename_i hn
      have hn' : bps - d.pos % bps = bps := by simpa using hn
      rw [if_pos hn']
      have h2' : run (Prog.pure ()) d1 = (.ok u, d') := h2
      simp only [run] at h2'; cases h2'
      exact Tiled.nil _
  · cases he

end FatVerif
