import FatVerif.Proofs.DirAlias
/-! The display form of a generated alias: explicit shape, ASCII, injective, fixed by case folding. -/
namespace FatVerif
namespace DirAlias
open Lfn DirSlots

/-- the shape of every candidate `generate` returns (also for the empty name): two fields of legal bytes, padded -/
def Canon (x : List Nat) : Prop :=
  ∃ b e : List Nat, x = Names.padTo 8 b ++ Names.padTo 3 e ∧ b.length ≤ 8 ∧ e.length ≤ 3 ∧
    Names.AllLegal b ∧ Names.AllLegal e

theorem legal_ne_32 {l : List Nat} (h : Names.AllLegal l) : ∀ x ∈ l, x ≠ 32 :=
  fun x hx => (Names.legal_not_reserved x (h x hx)).2.2.2

theorem dropWhile_replicate_append (k : Nat) (l : List Nat) :
    (List.replicate k 32 ++ l).dropWhile (· == 32) = l.dropWhile (· == 32) := by
  induction k with
  | zero => simp
  | succ k ih => simp [List.replicate_succ, ih]

theorem dropWhile_reverse_legal {l : List Nat} (h : ∀ x ∈ l, x ≠ 32) : l.reverse.dropWhile (· == 32) = l.reverse := by
  cases hr : l.reverse with
  | nil => rfl
  | cons x xs =>
    have : x ∈ l := by
      have : x ∈ l.reverse := by rw [hr]; simp
      simpa using this
    rw [List.dropWhile_cons_of_neg (by simpa using h x this)]

theorem fieldLen_padTo (k : Nat) {l : List Nat} (h : ∀ x ∈ l, x ≠ 32) : Names.fieldLen (Names.padTo k l) = l.length := by
  unfold Names.fieldLen Names.padTo
  rw [List.reverse_append, List.reverse_replicate, dropWhile_replicate_append, dropWhile_reverse_legal h]
  simp

theorem shortDisplay_canon {b e : List Nat} (hb : b.length ≤ 8) (he : e.length ≤ 3)
    (lb : Names.AllLegal b) (le : Names.AllLegal e) :
    Names.shortDisplay (Names.padTo 8 b ++ Names.padTo 3 e) = b ++ (if e = [] then [] else 46 :: e) := by
  have l8 := Names.padTo_length hb
  have l3 := Names.padTo_length he
  unfold Names.shortDisplay
  have t8 : (Names.padTo 8 b ++ Names.padTo 3 e).take 8 = Names.padTo 8 b := List.take_left' l8
  have d8 : ((Names.padTo 8 b ++ Names.padTo 3 e).drop 8).take 3 = Names.padTo 3 e := by
    rw [List.drop_left' l8]; exact List.take_of_length_le (by omega)
  simp only [t8, d8, fieldLen_padTo 8 (legal_ne_32 lb), fieldLen_padTo 3 (legal_ne_32 le)]
  have tb : (Names.padTo 8 b ++ Names.padTo 3 e).take b.length = b := by
    rw [List.take_append_of_le_length (by omega)]
    unfold Names.padTo
    exact List.take_left' rfl
  have te : ((Names.padTo 8 b ++ Names.padTo 3 e).drop 8).take e.length = e := by
    rw [List.drop_left' l8]
    unfold Names.padTo
    exact List.take_left' rfl
  rw [tb, te]
  have hbody : ∀ t : List Nat, (∀ x ∈ t.head?, x ≠ 5) → Names.fixE5 t = t := by
    intro t ht
    cases t with
    | nil => rfl
    | cons x xs =>
      have : x ≠ 5 := ht x (by simp)
      unfold Names.fixE5
      split
      · rename_i h5; simp at h5; exact absurd h5.1 this
      · rfl
  cases e with
  | nil =>
    simp only [List.length_nil, Nat.lt_irrefl, if_false, if_true, List.append_nil]
    exact hbody b (fun x hx => by
      cases b with
      | nil => simp at hx
      | cons y ys =>
        simp at hx; subst hx
        exact (Names.legal_not_reserved _ (lb _ (by simp))).2.1)
  | cons z zs =>
    simp only [List.length_cons, Nat.zero_lt_succ, if_true, reduceCtorEq, if_false]
    apply hbody
    intro x hx
    cases b with
    | nil => simp at hx; omega
    | cons y ys =>
      simp at hx; subst hx
      exact (Names.legal_not_reserved _ (lb _ (by simp))).2.1

theorem legal_lt_128 : ∀ x ∈ Names.legalSfnBytes, x < 128 := by
  rw [Names.legalSfnBytes_eq]; decide

/-- the display bytes of a candidate are ASCII: `str::from_utf8` in `check_for_existence` never fails -/
theorem displayAscii_of_canon {x : List Nat} (h : Canon x) : displayAscii x = true := by
  obtain ⟨b, e, rfl, hb, he, lb, le⟩ := h
  unfold displayAscii
  rw [shortDisplay_canon hb he lb le, List.all_eq_true]
  intro y hy
  simp only [decide_eq_true_eq]
  rcases List.mem_append.1 hy with h1 | h2
  · exact legal_lt_128 y (lb y h1)
  · by_cases hee : e = []
    · simp [hee] at h2
    · simp only [hee, if_false, List.mem_cons] at h2
      rcases h2 with rfl | h2
      · omega
      · exact legal_lt_128 y (le y h2)

theorem canon_of_legal {a : List Nat} (h : Names.LegalAlias a) : Canon a := by
  obtain ⟨hl, ⟨k1, hk1, f1, f2⟩, ⟨k2, hk2, g1, g2⟩, _⟩ := h
  have l8 : (a.take 8).length = 8 := by simp; omega
  have l3 : (a.drop 8).length = 3 := by simp; omega
  refine ⟨(a.take 8).take k1, (a.drop 8).take k2, ?_, by simp; omega, by simp; omega, f1, g1⟩
  have e1 : Names.padTo 8 ((a.take 8).take k1) = a.take 8 := by
    unfold Names.padTo
    conv => rhs; rw [← List.take_append_drop k1 (a.take 8), f2]
    congr 2
    simp only [List.length_take]; omega
  have e2 : Names.padTo 3 ((a.drop 8).take k2) = a.drop 8 := by
    unfold Names.padTo
    conv => rhs; rw [← List.take_append_drop k2 (a.drop 8), g2]
    congr 2
    simp only [List.length_take, List.length_drop]; omega
  rw [e1, e2, List.take_append_drop]

/-- every candidate of a well-formed generator state has the canonical shape -/
theorem generate_canon {g : Names.Gen} (h : Names.GenWF g) {a : List Nat} (hg : Names.generate g = .ok a) :
    Canon a := by
  by_cases hx : a = g.shortName
  · obtain ⟨b, e, hs, hb, he, _, lb, le, _⟩ := h
    exact ⟨b, e, by rw [hx, hs], hb, he, lb, le⟩
  · exact canon_of_legal (Names.generate_legal_prefixed h hg hx)

end DirAlias
end FatVerif
