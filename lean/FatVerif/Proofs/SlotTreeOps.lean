import FatVerif.Proofs.SlotTreeNode
/-!
# Slot trees: `open_dir`/`open_file`, `create_file`/`create_dir`, `remove`, listing — each call against `Spec.evalOp`
-/
namespace FatVerif
namespace SlotTree
open Lfn DirSlots DirAlias

/-- the specification's verdict `o` on a call accepts the model's result `r`: success must be allowed and give the
    abstraction of the new tree; an error must be among the acceptable kinds (`hang` = the alias loop ran out of the
    model's fuel: not a result of the library) -/
def Accepts (o : Spec.Outcome) (r : Res) : Prop :=
  match r.out with
  | .ok _ => o.errs = [] ∧ o.tree = abs r.tree
  | .error e => e = .hang ∨ e ∈ o.errs

theorem accepts_fail (o : Spec.Outcome) (t : Node) (e : Err) (h : e = .hang ∨ e ∈ o.errs) : Accepts o (fail t e) := h

theorem accepts_done (o : Spec.Outcome) (t : Node) (h1 : o.errs = []) (h2 : o.tree = abs t) : Accepts o (done t) :=
  ⟨h1, h2⟩

variable (u : Char → List Char)

theorem getLast_concat (ds : List String) (l : String) : (ds ++ [l]).getLast? = some l := by simp

theorem validate_empty : Names.validateLongName "" = .error .nameLen := by
  unfold Names.validateLongName Names.validateLongNameL; simp

theorem stepCompS_err {up : Char → List Char} {t : Node} {cur : List String} {comp : String} {e : Err}
    (h : stepCompS up t cur comp = .error e) : e = .notFound := by
  unfold stepCompS at h
  repeat' split at h
  all_goals first | (cases h; done) | (simp only [Except.error.injEq] at h; exact h.symm)

theorem stepCompS_empty {up : Char → List Char} {t : Node} {cur : List String} {s : List (List Nat)}
    {ch : List (LfnEntry × Node)} (hg : getAtS up t cur = some (.dir s ch)) (hq : QHit up "" s ch) :
    stepCompS up t cur "" = .error .notFound := by
  have hn := (lookup_none_of_bad hq (Or.inr (by rw [validate_empty]; simp))).2
  unfold stepCompS
  rw [hg]
  have h1 : (("" : String) == ".") = false := by decide
  have h2 : (("" : String) == "..") = false := by decide
  simp only [h1, h2, Bool.false_and, Bool.false_eq_true, if_false, hn]

theorem walkDirsS_nil {up : Char → List Char} {t : Node} {cwd : List String} {s : List (List Nat)}
    {ch : List (LfnEntry × Node)} (hg : getAtS up t cwd = some (.dir s ch)) : walkDirsS up t cwd [] = .ok cwd := by
  unfold walkDirsS; rw [hg]

/-! ## `resolve` -/

theorem resolve_corr (t : Node) (hwf : TreeWf (upOf u) t) (cwd : List String) (hc : CwdOk (upOf u) t cwd)
    (path : String) (hp : PathOk (upOf u) t path) :
    (∀ e, walkDirsS (upOf u) t cwd (pathParts path).1 = .error e →
      ∃ es, Spec.resolve (cfgOf u) (abs t) cwd path = .error es ∧ e ∈ es) ∧
    (∀ p, walkDirsS (upOf u) t cwd (pathParts path).1 = .ok p →
      (∀ p' n, stepCompS (upOf u) t p (pathParts path).2 = .ok (p', n) →
        Spec.resolve (cfgOf u) (abs t) cwd path = .ok (p', abs n)) ∧
      (∀ e, stepCompS (upOf u) t p (pathParts path).2 = .error e →
        ∃ es, Spec.resolve (cfgOf u) (abs t) cwd path = .error es ∧ e ∈ es)) := by
  obtain ⟨hsplit, hq1, hq2⟩ := hp
  obtain ⟨hl, s0, c0, hg0⟩ := hc
  unfold Spec.resolve
  rcases hsplit with ⟨h2, h1, hs⟩ | ⟨h2, hs⟩
  · rw [h1, h2, hs, walkDirsS_nil hg0]
    simp only [List.getLast?_nil]
    refine ⟨by simp, ?_⟩
    intro p hp
    simp only [Except.ok.injEq] at hp
    subst hp
    rw [h2] at hq2
    rw [stepCompS_empty hg0 (qall_at u hq2 hg0)]
    simp
  · rw [hs]
    simp only [getLast_concat, List.dropLast_concat]
    obtain ⟨w1, w2⟩ := walkDirs_corr u t hwf (pathParts path).1 cwd hl hq1
    constructor
    · intro e he
      obtain ⟨es, h1, h2⟩ := w2 e he
      exact ⟨es, by rw [h1], h2⟩
    · intro p hp
      obtain ⟨h1, hlp, _⟩ := w1 p hp
      rw [h1]
      simp only
      obtain ⟨c1, c2⟩ := stepComp_corr u t hwf p hlp _ hq2
      exact ⟨fun p' n h => (c1 p' n h).1, c2⟩

/-! ## `open_dir` / `open_file` -/

theorem open_refines (t : Node) (hwf : TreeWf (upOf u) t) (cwd : List String) (hc : CwdOk (upOf u) t cwd)
    (path : String) (hp : PathOk (upOf u) t path) (wantDir : Bool) :
    (openS (upOf u) t cwd path wantDir).tree = t ∧
    Accepts (Spec.evalOpen (cfgOf u) (abs t) cwd path wantDir) (openS (upOf u) t cwd path wantDir) := by
  obtain ⟨r1, r2⟩ := resolve_corr u t hwf cwd hc path hp
  unfold openS Spec.evalOpen
  cases hw : walkDirsS (upOf u) t cwd (pathParts path).1 with
  | error e =>
    obtain ⟨es, h1, h2⟩ := r1 e hw
    rw [h1]
    exact ⟨rfl, accepts_fail _ _ _ (Or.inr h2)⟩
  | ok p =>
    obtain ⟨s1, s2⟩ := r2 p hw
    dsimp only
    cases hs : stepCompS (upOf u) t p (pathParts path).2 with
    | error e =>
      obtain ⟨es, h1, h2⟩ := s2 e hs
      rw [h1]
      exact ⟨rfl, accepts_fail _ _ _ (Or.inr h2)⟩
    | ok pn =>
      obtain ⟨p', n⟩ := pn
      rw [s1 p' n hs]
      dsimp only
      rw [abs_isDir]
      by_cases hk : n.isDir = wantDir
      · simp only [hk, beq_self_eq_true, if_true]
        exact ⟨rfl, accepts_done _ _ rfl rfl⟩
      · have : (n.isDir == wantDir) = false := by simpa using hk
        simp only [this, Bool.false_eq_true, if_false]
        exact ⟨rfl, accepts_fail _ _ _ (Or.inr (by simp [Spec.failWith]))⟩

/-! ## listing -/

theorem list_refines (t : Node) (hwf : TreeWf (upOf u) t) (cwd : List String) (hc : CwdOk (upOf u) t cwd) :
    (listS (upOf u) t cwd).tree = t ∧
    Accepts (Spec.evalList (cfgOf u) (abs t) cwd) (listS (upOf u) t cwd) ∧
    ∃ rows, (listS (upOf u) t cwd).out = .ok rows ∧
      rows.Perm ((Spec.evalList (cfgOf u) (abs t) cwd).listing.map fun r => (r.1, r.2.1)) := by
  obtain ⟨hl, s, ch, hg⟩ := hc
  have hd := dirOk_at u hwf hg
  unfold listS Spec.evalList
  rw [getAt_corr u cwd t hwf hl, hg]
  simp only [Option.map, abs_dir]
  refine ⟨trivial, ⟨rfl, rfl⟩, _, rfl, ?_⟩
  rw [List.map_map, List.map_map]
  have h1 : (ch.map (·.1)).map (fun e => (entryName e, Lfn.isDir e.sfn)) =
      ch.map (((fun (r : String × Bool × Nat) => (r.1, r.2.1)) ∘
        fun (x : String × Spec.TNode) => (x.1, x.2.isDir, x.2.size)) ∘
        fun (x : LfnEntry × Node) => (entryName x.1, abs x.2)) := by
    rw [List.map_map]
    apply List.map_congr_left
    intro x hx
    simp only [Function.comp, abs_isDir]
    rw [hd.kind x hx]
  rw [← h1]
  exact (hd.perm.map _).symm

/-! ## `resolveParent` -/

theorem resolveParent_corr (t : Node) (hwf : TreeWf (upOf u) t) (cwd : List String) (hc : CwdOk (upOf u) t cwd)
    (path : String) (hp : PathOk (upOf u) t path) :
    (∀ e, walkDirsS (upOf u) t cwd (pathParts path).1 = .error e →
      ∃ es, Spec.resolveParent (cfgOf u) (abs t) cwd path = .error es ∧ e ∈ es) ∧
    (∀ p, walkDirsS (upOf u) t cwd (pathParts path).1 = .ok p →
      ∃ s ch, getAtS (upOf u) t p = some (.dir s ch) ∧ Lock (upOf u) t p ∧
        (isDotName (pathParts path).2 = true →
          (p = [] → Spec.resolveParent (cfgOf u) (abs t) cwd path = .ok (.dot none)) ∧
          (p ≠ [] → ∃ r, Spec.resolveParent (cfgOf u) (abs t) cwd path = .ok (.dot (some r)))) ∧
        (isDotName (pathParts path).2 = false →
          Spec.resolveParent (cfgOf u) (abs t) cwd path =
            .ok (.entry p (pathParts path).2
              ((lookupS (upOf u) s ch (pathParts path).2).map fun x => (entryName x.1, abs x.2))))) := by
  obtain ⟨hsplit, hq1, hq2⟩ := hp
  obtain ⟨hl, s0, c0, hg0⟩ := hc
  unfold Spec.resolveParent
  rcases hsplit with ⟨h2, h1, hs⟩ | ⟨h2, hs⟩
  · rw [h1, h2, hs, walkDirsS_nil hg0]
    simp only [List.getLast?_nil]
    refine ⟨by simp, ?_⟩
    intro p hp
    simp only [Except.ok.injEq] at hp
    subst hp
    rw [h2] at hq2
    refine ⟨s0, c0, hg0, hl, by intro h; exact absurd h (by decide), fun _ => ?_⟩
    rw [(lookup_none_of_bad (qall_at u hq2 hg0) (Or.inr (by rw [validate_empty]; simp))).2]
    rfl
  · rw [hs]
    simp only [getLast_concat, List.dropLast_concat]
    obtain ⟨w1, w2⟩ := walkDirs_corr u t hwf (pathParts path).1 cwd hl hq1
    constructor
    · intro e he
      obtain ⟨es, h1, h2⟩ := w2 e he
      exact ⟨es, by rw [h1], h2⟩
    · intro p hp
      obtain ⟨h1, hlp, s, ch, hg⟩ := w1 p hp
      rw [h1]
      simp only [spec_isDot_eq]
      refine ⟨s, ch, hg, hlp, ?_, ?_⟩
      · intro hdot
        simp only [hdot, if_true]
        obtain ⟨c1, c2⟩ := stepComp_corr u t hwf p hlp _ hq2
        constructor
        · intro hp0
          subst hp0
          have hn := (lookup_none_of_bad (qall_at u hq2 hg) (Or.inl hdot)).2
          have hserr : ∃ e, stepCompS (upOf u) t [] (pathParts path).2 = .error e := by
            unfold stepCompS
            rw [hg]
            simp [hn]
          obtain ⟨e, he⟩ := hserr
          obtain ⟨es, h3, _⟩ := c2 e he
          rw [h3]
        · intro hp0
          have hsok : ∃ r, stepCompS (upOf u) t p (pathParts path).2 = .ok r := by
            unfold stepCompS
            rw [hg]
            have hce : p.isEmpty = false := by simpa using hp0
            rcases (isDotName_iff _).1 hdot with hd | hd
            · rw [hd]; simp [hce]
            · rw [hd]
              obtain ⟨m, hm⟩ := getAtS_dropLast t p _ hg
              simp [hce, hm]
          obtain ⟨⟨p', n⟩, hr⟩ := hsok
          obtain ⟨h3, _, _⟩ := c1 p' n hr
          rw [h3]
          exact ⟨_, rfl⟩
      · intro hdot
        simp only [hdot, Bool.false_eq_true, if_false]
        rw [getAt_corr u p t hwf hlp, hg]
        simp only [Option.map]
        rw [find_corr u (dirOk_at u hwf hg) _ (qall_at u hq2 hg).nameHitOnly]
        cases lookupS (upOf u) s ch (pathParts path).2 <;> rfl

end SlotTree
end FatVerif
