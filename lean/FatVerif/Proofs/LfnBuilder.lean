import FatVerif.Proofs.LfnSlot
/-! Invariant of `LongNameBuilder` (both buffer variants), absence of slice panics, the 260 bound. -/
namespace FatVerif
namespace Lfn
open LongNameBuilder

/-- Representation invariant of the builder.  `alloc`: the vector's length is `len`; fixed: the array has 260
    units.  In both: a started run of `index` remaining slots has `index * 13 ≤ len ≤ 260`. -/
def WF (alloc : Bool) (b : LongNameBuilder) : Prop :=
  b.index ≤ 20 ∧ b.buf.len ≤ 260 ∧ b.index * 13 ≤ b.buf.len ∧ (b.index = 0 → b.buf.len = 0) ∧
  b.buf.units.length = (if alloc then b.buf.len else bufCap)

theorem bufCap_eq : bufCap = 260 := rfl

theorem WF_new (alloc : Bool) : WF alloc (new alloc) := by
  have hcap := bufCap_eq
  cases alloc <;> simp [WF, new, LfnBuf.new]

theorem WF_clear (alloc : Bool) (b : LongNameBuilder) : WF alloc (clear alloc b) := by
  have hcap := bufCap_eq
  cases alloc <;> simp [WF, clear, LfnBuf.clear, LfnBuf.new]

/-! ### the four cases of `process` -/

theorem process_invalid (alloc : Bool) (b : LongNameBuilder) (s : List Nat)
    (h : order s % 32 = 0 ∨ order s % 32 > 20) : process alloc b s = clear alloc b := by
  simp [process, pre, h]

theorem process_last (alloc : Bool) (b : LongNameBuilder) (s : List Nat)
    (h1 : ¬ (order s % 32 = 0 ∨ order s % 32 > 20)) (h2 : order s / 64 % 2 = 1) :
    process alloc b s =
      { buf := { units := setSlice (b.buf.setLen alloc (order s % 32 * 13)).units (13 * (order s % 32 - 1)) (units s),
                 len := (b.buf.setLen alloc (order s % 32 * 13)).len },
        chksum := chk s, index := order s % 32 } := by
  simp [process, pre, h1, h2]

theorem process_mismatch (alloc : Bool) (b : LongNameBuilder) (s : List Nat)
    (h1 : ¬ (order s % 32 = 0 ∨ order s % 32 > 20)) (h2 : ¬ (order s / 64 % 2 = 1))
    (h3 : b.index = 0 ∨ order s % 32 ≠ b.index - 1 ∨ chk s ≠ b.chksum) : process alloc b s = clear alloc b := by
  simp [process, pre, h1, h2, h3]

theorem process_cont (alloc : Bool) (b : LongNameBuilder) (s : List Nat)
    (h1 : ¬ (order s % 32 = 0 ∨ order s % 32 > 20)) (h2 : ¬ (order s / 64 % 2 = 1))
    (h3 : ¬ (b.index = 0 ∨ order s % 32 ≠ b.index - 1 ∨ chk s ≠ b.chksum)) :
    process alloc b s =
      { buf := { units := setSlice b.buf.units (13 * (order s % 32 - 1)) (units s), len := b.buf.len },
        chksum := b.chksum, index := b.index - 1 } := by
  simp [process, pre, h1, h2, h3]

/-- `pre` keeps the invariant and the slice `[pos, pos+13)` it asks for is inside the buffer -/
theorem pre_WF (alloc : Bool) (b : LongNameBuilder) (o c : Nat) (h : WF alloc b) :
    WF alloc (pre alloc b o c).1 ∧
    ∀ pos, (pre alloc b o c).2 = some pos → pos + 13 ≤ (pre alloc b o c).1.buf.units.length := by
  obtain ⟨h1, h2, h3, h4, h5⟩ := h
  have hcap := bufCap_eq
  unfold pre
  split
  · exact ⟨WF_clear alloc b, by simp⟩
  · rename_i hv
    split
    · constructor
      · cases alloc <;> simp [WF, LfnBuf.setLen] at h5 ⊢ <;> omega
      · intro pos hp
        simp only [Option.some.injEq] at hp
        cases alloc <;> simp [LfnBuf.setLen] at h5 ⊢ <;> omega
    · split
      · exact ⟨WF_clear alloc b, by simp⟩
      · rename_i hc
        constructor
        · cases alloc <;> simp [WF] at h5 ⊢ <;> omega
        · intro pos hp
          simp only [Option.some.injEq] at hp
          cases alloc <;> simp at h5 ⊢ <;> omega

/-- the slice `buf[pos..pos+13]` of `process` never goes out of range, and the invariant is kept -/
theorem process?_eq (alloc : Bool) (b : LongNameBuilder) (s : List Nat) (h : WF alloc b) :
    process? alloc b s = some (process alloc b s) ∧ WF alloc (process alloc b s) := by
  obtain ⟨hw, hp⟩ := pre_WF alloc b (order s) (chk s) h
  unfold process? process
  generalize pre alloc b (order s) (chk s) = r at hw hp
  rcases r with ⟨b', _ | pos⟩
  · exact ⟨rfl, hw⟩
  · have hpos := hp pos rfl
    simp only at hpos hw ⊢
    rw [setSlice?_eq _ _ _ hpos]
    refine ⟨rfl, ?_⟩
    obtain ⟨h1, h2, h3, h4, h5⟩ := hw
    exact ⟨h1, h2, h3, h4, by simpa [setSlice_length _ _ _ (units_length s) hpos] using h5⟩

theorem WF_process (alloc : Bool) (b : LongNameBuilder) (s : List Nat) (h : WF alloc b) :
    WF alloc (process alloc b s) := (process?_eq alloc b s h).2

theorem WF_validate (alloc : Bool) (b : LongNameBuilder) (n : List Nat) (h : WF alloc b) :
    WF alloc (validateChksum alloc b n) := by
  unfold validateChksum
  split
  · exact h
  · split
    · exact WF_clear alloc b
    · exact h

theorem WF_len_le (alloc : Bool) (b : LongNameBuilder) (h : WF alloc b) : b.buf.len ≤ b.buf.units.length := by
  obtain ⟨_, h2, _, _, h5⟩ := h
  have hcap := bufCap_eq
  cases alloc <;> simp at h5 <;> omega

theorem asUnits?_eq (buf : LfnBuf) (h : buf.len ≤ buf.units.length) : buf.asUnits? = some buf.asUnits := by
  simp [LfnBuf.asUnits?, LfnBuf.asUnits, h]

theorem asUnits_length (buf : LfnBuf) (h : buf.len ≤ buf.units.length) : buf.asUnits.length = buf.len := by
  simp [LfnBuf.asUnits]; omega

theorem truncate?_eq (alloc : Bool) (b : LongNameBuilder) (h : WF alloc b) :
    truncate? alloc b = some (truncate alloc b) := by
  simp [truncate?, truncate, asUnits?_eq _ (WF_len_le alloc b h)]

/-- after `truncate`: the new length is inside the storage and not larger than the old one -/
theorem truncate_ok (alloc : Bool) (b : LongNameBuilder) (h : WF alloc b) :
    (truncate alloc b).buf.len ≤ (truncate alloc b).buf.units.length ∧
    (truncate alloc b).buf.len = cutLen b.buf.asUnits ∧ cutLen b.buf.asUnits ≤ b.buf.len := by
  have hl := WF_len_le alloc b h
  have h1 := cutLen_le b.buf.asUnits
  rw [asUnits_length _ hl] at h1
  refine ⟨?_, ?_, h1⟩
  · cases alloc <;> simp [truncate, LfnBuf.setLen] <;> omega
  · cases alloc <;> simp [truncate, LfnBuf.setLen]

theorem new_asUnits (alloc : Bool) : (LfnBuf.new alloc).asUnits = [] := by
  cases alloc <;> simp [LfnBuf.new, LfnBuf.asUnits]

theorem new_len (alloc : Bool) : (LfnBuf.new alloc).len = 0 := by
  cases alloc <;> simp [LfnBuf.new]

/-- what `into_buf` hands to the entry: no bounds check fires, `len` is inside the storage and at most 255 -/
theorem intoBuf_ok (alloc : Bool) (b : LongNameBuilder) (h : WF alloc b) :
    intoBuf? alloc b = some (intoBuf alloc b) ∧
    (intoBuf alloc b).len ≤ (intoBuf alloc b).units.length ∧ (intoBuf alloc b).len ≤ 255 := by
  obtain ⟨t1, t2, t3⟩ := truncate_ok alloc b h
  have hl := WF_len_le alloc b h
  have h4 := h.2.2.2.1
  unfold intoBuf? intoBuf
  by_cases i1 : b.index = 1
  · simp only [i1, if_true, truncate?_eq alloc b h, maxNameLen]
    refine ⟨trivial, ?_⟩
    by_cases hgt : (truncate alloc b).buf.len > 255
    · simp only [hgt, if_true]
      simp [clear, LfnBuf.clear, new_len]
    · simp only [hgt, if_false]
      exact ⟨t1, by omega⟩
  · simp only [i1, if_false]
    by_cases i0 : b.index = 0
    · have := h4 i0
      simp [i0]; omega
    · simp [i0, clear, LfnBuf.clear, new_len]

theorem finish?_eq (alloc : Bool) (b : LongNameBuilder) (n : List Nat) (h : WF alloc b) :
    finish? alloc b n = some (finish alloc b n) ∧ (finish alloc b n).length ≤ 255 := by
  obtain ⟨e1, e2, e3⟩ := intoBuf_ok alloc _ (WF_validate alloc b n h)
  unfold finish? finish
  rw [e1]
  simp only [asUnits?_eq _ e2, true_and]
  rw [asUnits_length _ e2]; exact e3

/-- no panic site of the directory reader fires: the checked loop returns what the unchecked one computes -/
theorem readLoop?_eq (alloc sv : Bool) : ∀ (slots : List (List Nat)) (idx bg : Nat) (b : LongNameBuilder),
    WF alloc b → readLoop? alloc sv slots idx bg b = some (readLoop alloc sv slots idx bg b) := by
  intro slots
  induction slots with
  | nil => intros; rfl
  | cons s rest ih =>
    intro idx bg b hb
    unfold readLoop? readLoop
    cases hcl : slotClass s with
    | endMark => rfl
    | deleted => exact ih _ _ _ (WF_clear alloc b)
    | lfn =>
      simp only
      rw [(process?_eq alloc b s hb).1]
      exact ih _ _ _ (WF_process alloc b s hb)
    | volume =>
      simp only
      split
      · exact ih _ _ _ (WF_clear alloc b)
      · rw [(finish?_eq alloc b _ hb).1, ih _ _ _ (WF_new alloc)]
    | file =>
      simp only
      rw [(finish?_eq alloc b _ hb).1, ih _ _ _ (WF_new alloc)]

theorem readLoop_units_le (alloc sv : Bool) : ∀ (slots : List (List Nat)) (idx bg : Nat) (b : LongNameBuilder),
    WF alloc b → ∀ e ∈ readLoop alloc sv slots idx bg b, e.units.length ≤ 255 := by
  intro slots
  induction slots with
  | nil => intro _ _ _ _ e he; simp [readLoop] at he
  | cons s rest ih =>
    intro idx bg b hb e he
    unfold readLoop at he
    cases hcl : slotClass s with
    | endMark => simp [hcl] at he
    | deleted => simp only [hcl] at he; exact ih _ _ _ (WF_clear alloc b) e he
    | lfn => simp only [hcl] at he; exact ih _ _ _ (WF_process alloc b s hb) e he
    | volume =>
      simp only [hcl] at he
      split at he
      · exact ih _ _ _ (WF_clear alloc b) e he
      · rcases List.mem_cons.1 he with rfl | he
        · exact (finish?_eq alloc b _ hb).2
        · exact ih _ _ _ (WF_new alloc) e he
    | file =>
      simp only [hcl] at he
      rcases List.mem_cons.1 he with rfl | he
      · exact (finish?_eq alloc b _ hb).2
      · exact ih _ _ _ (WF_new alloc) e he

end Lfn
end FatVerif
