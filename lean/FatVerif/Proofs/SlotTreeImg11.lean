import FatVerif.Proofs.SlotTreeImg9
/-!
# Slot trees on a device image, part 11: `create_dir` in the fixed root — transport and the fresh directory

`create_dir` allocates a cluster `c` (the FAT entry of `c` becomes end-of-chain, the cluster is zero-filled), writes
the entry into the root region and the two dot entries into `c`.  Here:

* `SubImg.of_dirStep`: every OTHER directory survives (its chain does not contain `c` — `AllocApart` —, its slot
  bytes lie outside the FAT copies, the root region and the cluster `c`);
* `SubImg.fresh`: the new directory in the image is a `SubImg` of the empty node `.dir [] []`;
* `SubImg.congr_cl`: a bundle only looks at the cluster map at the path, its parent and its children.
-/
namespace FatVerif
namespace SlotTreeImg
open Lfn DirSlots DirAlias SlotTree DirSim FatVerif.FileSim FatVerif.Fat

theorem chain_updV_other {g : Nat → FatValue} {c : Nat} {v : FatValue} : ∀ {chain : List Nat} {c0 : Nat},
    Chain g c0 chain → c ∉ chain → Chain (updV g c v) c0 chain := by
  intro chain c0 h
  induction h with
  | last m hl =>
    intro hc
    refine Chain.last m (fun n hn => ?_)
    unfold updV at hn
    rw [if_neg (by intro h; exact hc (by simp [h]))] at hn
    exact hl n hn
  | cons m k ms hdm _ ih =>
    intro hc
    refine Chain.cons m k ms ?_ (ih (fun h => hc (List.mem_cons_of_mem _ h)))
    unfold updV
    rw [if_neg (by intro h; exact hc (by simp [h]))]
    exact hdm

/-- the frame of a `create_dir` in the root: bytes behind the status byte, outside the FAT copies, the root slots and
    the new cluster are kept -/
def DirFrame (d d' : Dev) (N c : Nat) : Prop :=
  ∀ q, 0x42 ≤ q → OutsideFat d.fs q →
    (∀ i, i < N → ¬ (rootSrc d.fs (32 * i) ≤ q ∧ q < rootSrc d.fs (32 * i) + 32)) →
    ¬ (clusterOff d.fs c ≤ q ∧ q < clusterOff d.fs c + d.fs.clusterSize) → d'.img.getByte q = d.img.getByte q

theorem SubImg.of_dirStep {d d' : Dev} {cl : List String → Option Nat} {cur : List String}
    {slots : List (List Nat)} {ch : List (LfnEntry × Node)} (L : Layout d) {N : Nat} (hR : RootReadable d N)
    (hs : VolStep d d') (c : Nat) (hc2 : 2 ≤ c) (htv : tabView d'.fs d'.img = updV (tabView d.fs d.img) c .eoc)
    (hfr : DirFrame d d' N c) (S : SubImg d cl cur slots ch)
    (hapart : ∀ c0 chain, cl cur = some c0 → Chain (tabView d.fs d.img) c0 chain → c ∉ chain) :
    SubImg d' cl cur slots ch := by
  obtain ⟨c0, chain, e1, e2, hcl, hC, hlist, hdots, hchild⟩ := S
  have hnc := hapart c0 chain hcl hC.dir.link
  have hend := rootSlice_end d.fs L.rootData
  have hC' : ChainReadable d' c0 none chain :=
    ⟨⟨by rw [hs.failAt]; exact hC.dir.failAt, by rw [hs.size]; exact hC.dir.geo.frame hs.geom, hC.dir.first,
      by rw [htv]; exact chain_updV_other hC.dir.link hnc, by rw [hs.geom.totalClusters]; exact hC.dir.inTab,
      hC.dir.nosize, by rw [hs.geom.accDate]; exact hC.dir.noacc, hC.dir.clean,
      by rw [hs.geom.clusterSize]; exact hC.dir.cs32, by rw [hs.geom.clusterSize]; exact hC.dir.u32⟩,
     by rw [hs.geom.clusterSize, dirFuel_geomEq hs.geom]; exact hC.fuel⟩
  have hsl : srcSlots d'.img (chainSrc d.fs chain) (chain.length * (d.fs.clusterSize / 32)) =
      srcSlots d.img (chainSrc d.fs chain) (chain.length * (d.fs.clusterSize / 32)) :=
    srcSlots_congr (fun i hi x hx => by
      obtain ⟨b1, b2⟩ := hC.dir.slot_behind i hi
      obtain ⟨c1, hc1, k1, k2⟩ := hC.dir.slot_in_cluster i hi
      have hne : c1 ≠ c := fun h => hnc (h ▸ hc1)
      have hr2 := (hC.dir.inTab c1 hc1).1
      refine hfr _ (by omega) (Or.inr (by have := hC.dir.geo.fat_data; omega)) (fun j hj => ?_) ?_
      · show ¬ ((rootSliceOf d.fs).beginOff + 32 * j ≤ _ ∧ _ < (rootSliceOf d.fs).beginOff + 32 * j + 32)
        have := hR.slots
        omega
      · rcases cluster_ranges_disjoint d.fs hr2 hc2 hne with h | h <;> omega)
  have hcs := chainSlots_of_step hC hC' hs hsl
  have hsrc := chainSrc_of_volStep hs chain
  refine ⟨c0, chain, e1, e2, hcl, hC', by rw [hcs]; exact hlist, ?_, ?_⟩
  · rw [hsrc]
    exact ⟨hdots.units1, hdots.raw1, hdots.dir1, by rw [firstCluster_geom hs.geom]; exact hdots.own,
      hdots.units2, hdots.raw2, hdots.dir2, by rw [firstCluster_geom hs.geom]; exact hdots.parent⟩
  · intro x hx hd
    rw [hsrc, firstCluster_geom hs.geom]
    exact hchild x hx hd

theorem SubImg.congr_cl {d : Dev} {cl cl' : List String → Option Nat} {cur : List String}
    {slots : List (List Nat)} {ch : List (LfnEntry × Node)} (S : SubImg d cl cur slots ch)
    (h1 : cl' cur = cl cur) (h2 : cl' cur.dropLast = cl cur.dropLast)
    (h3 : ∀ x ∈ ch, x.2.isDir = true → cl' (cur ++ [entryName x.1]) = cl (cur ++ [entryName x.1])) :
    SubImg d cl' cur slots ch := by
  obtain ⟨c0, chain, e1, e2, hcl, hC, hlist, hdots, hchild⟩ := S
  refine ⟨c0, chain, e1, e2, by rw [h1]; exact hcl, hC, hlist,
    ⟨hdots.units1, hdots.raw1, hdots.dir1, by rw [h1]; exact hdots.own, hdots.units2, hdots.raw2, hdots.dir2,
      by rw [h2]; exact hdots.parent⟩, ?_⟩
  intro x hx hd
  rw [h3 x hx hd]; exact hchild x hx hd

/-! ## the fresh directory -/

theorem slotClass_dotlike (raw : List Nat) (stamp : List Nat) (hl : raw.length = 11) (h0 : raw.headD 0 = 46) :
    slotClass (sfnWith raw (16 :: stamp)) = .file := by
  cases raw with
  | nil => simp at hl
  | cons x xs =>
    simp only [List.headD_cons] at h0
    subst h0
    have hb0 : Lfn.byte (sfnWith (46 :: xs) (16 :: stamp)) 0 = 46 := by simp [sfnWith, Lfn.byte]
    have hb11 : Lfn.byte (sfnWith (46 :: xs) (16 :: stamp)) 11 = 16 := by
      unfold sfnWith Lfn.byte
      rw [List.getD_eq_getElem?_getD, List.getElem?_append_right (by omega), hl]
      simp
    unfold slotClass Lfn.isEnd Lfn.isDeleted Lfn.isLfn Lfn.isVolume Lfn.attrs
    rw [hb0, hb11]
    decide

/-- the listing of a fresh directory cluster: the two dot entries -/
theorem listing_fresh (s1 s2 : List Nat) (k : Nat) (h1 : slotClass s1 = .file) (h2 : slotClass s2 = .file) :
    listing (s1 :: s2 :: List.replicate k (List.replicate 32 0)) = [⟨s1, [], 0, 1⟩, ⟨s2, [], 1, 2⟩] := by
  have hsh := listing_shape true [.entry [] s1, .entry [] s2] (List.replicate k (List.replicate 32 0))
    (by
      intro it hit
      simp only [List.mem_cons, List.not_mem_nil, or_false] at hit
      rcases hit with rfl | rfl
      · exact ⟨Or.inl rfl, by simp, h1⟩
      · exact ⟨Or.inl rfl, by simp, h2⟩)
    (by intro t ht; rw [List.eq_of_mem_replicate ht]; decide)
  unfold listing
  have hfl : flatten [Item.entry [] s1, Item.entry [] s2] ++ List.replicate k (List.replicate 32 0) =
      s1 :: s2 :: List.replicate k (List.replicate 32 0) := by simp [Item.slots]
  rw [hfl] at hsh
  rw [hsh]
  simp [listOf, nameOf_nil]

theorem dot_firstCluster (src : Nat → Nat) (fs fs' : FsState) (t : Nat) (a : List Nat) (first : Option Nat)
    (b e : Nat) (ha : a.length = 11) (hab : ∀ x ∈ a, x < 256) (hft : fs'.fatType = fs.fatType)
    (hc : ∀ n, first = some n → 0 < n ∧ n < (if fs.fatType = .fat32 then 4294967296 else 65536)) (units : List Nat) :
    (toDirEntryS src ⟨sfnWith a (16 :: sfnStamp fs t first), units, b, e⟩).firstCluster fs' = first := by
  unfold DirEntry.firstCluster
  rw [toDirEntryS_sfnAt_data src fs t a 16 first units b e ha hab (by decide) (by decide), hft]
  exact sfnAt_firstCluster fs t a 16 first hc

/-- **the fresh directory**: a one-cluster chain whose slots are `.`, `..` and zero slots is the empty node -/
theorem SubImg.fresh {d' : Dev} {cl' : List String → Option Nat} (cur : List String) (c : Nat)
    (ent : Option DirEntryEditor) (hC : ChainDir d' (FileH.new (some c) ent) c [c])
    (hfuel : d'.fs.clusterSize / 32 < dirFuel d'.fs) (fs : FsState) (t : Nat) (par : Option Nat) (k : Nat)
    (hft : d'.fs.fatType = fs.fatType) (hfat : fs.fatType ≠ .fat32) (hc : 0 < c ∧ c < 65536)
    (hpar : ∀ n, par = some n → 0 < n ∧ n < 65536)
    (hsl : chainSlots d'.fs d'.img [c] =
      sfnWith dotRaw (16 :: sfnStamp fs t (some c)) :: sfnWith dotDotRaw (16 :: sfnStamp fs t par) ::
        List.replicate k (List.replicate 32 0))
    (hcl : cl' cur = some c) (hp : cl' cur.dropLast = par) : SubImg d' cl' cur [] [] := by
  have hC0 : ChainReadable d' c none [c] :=
    ⟨⟨hC.failAt, hC.geo, rfl, hC.link, hC.inTab, rfl, Or.inr rfl, (fun e he => by cases he), hC.cs32, hC.u32⟩,
     by rw [List.length_singleton, Nat.one_mul]; exact hfuel⟩
  have hl1 : dotRaw.length = 11 := by decide
  have hl2 : dotDotRaw.length = 11 := by decide
  have hb1 : ∀ x ∈ dotRaw, x < 256 := by decide
  have hb2 : ∀ x ∈ dotDotRaw, x < 256 := by decide
  have hif : (if fs.fatType = .fat32 then 4294967296 else 65536) = 65536 := by rw [if_neg hfat]
  refine ⟨c, [c], ⟨sfnWith dotRaw (16 :: sfnStamp fs t (some c)), [], 0, 1⟩,
    ⟨sfnWith dotDotRaw (16 :: sfnStamp fs t par), [], 1, 2⟩, hcl, hC0, ?_, ?_, fun x hx => by cases hx⟩
  · rw [hsl]
    exact listing_fresh _ _ k (slotClass_dotlike dotRaw _ hl1 rfl) (slotClass_dotlike dotDotRaw _ hl2 rfl)
  · refine ⟨rfl, sfnName_sfnWith _ _ hl1, ?_, ?_, rfl, sfnName_sfnWith _ _ hl2, ?_, ?_⟩
    · rw [isDir_sfnWith _ _ _ hl1]; decide
    · rw [hcl]
      exact dot_firstCluster _ fs d'.fs t dotRaw (some c) 0 1 hl1 hb1 hft
        (fun n hn => by cases hn; rw [hif]; exact hc) []
    · rw [isDir_sfnWith _ _ _ hl2]; decide
    · rw [hp]
      exact dot_firstCluster _ fs d'.fs t dotDotRaw par 1 2 hl2 hb2 hft
        (fun n hn => by rw [hif]; exact hpar n hn) []

/-! ## the cluster map with the new directory -/

/-- `cl` with the one-component paths that hit the entry `k` sent to `c` -/
def clAdd (cl : List String → Option Nat) (up : Char → List Char) (k : LfnEntry) (c : Nat) :
    List String → Option Nat
  | [q] => if matchesName up k q.toList then some c else cl [q]
  | p => cl p

theorem clAdd_nil (cl : List String → Option Nat) (up : Char → List Char) (k : LfnEntry) (c : Nat) :
    clAdd cl up k c [] = cl [] := rfl

theorem clAdd_hit (cl : List String → Option Nat) (up : Char → List Char) (k : LfnEntry) (c : Nat) (q : String)
    (h : matchesName up k q.toList = true) : clAdd cl up k c [q] = some c := by
  show (if matchesName up k q.toList then some c else cl [q]) = some c
  rw [if_pos h]

theorem clAdd_miss (cl : List String → Option Nat) (up : Char → List Char) (k : LfnEntry) (c : Nat) (q : String)
    (r : List String) (h : matchesName up k q.toList = false) : clAdd cl up k c (q :: r) = cl (q :: r) := by
  cases r with
  | nil =>
    show (if matchesName up k q.toList then some c else cl [q]) = cl [q]
    rw [h]; rfl
  | cons a b => rfl

theorem clAdd_long (cl : List String → Option Nat) (up : Char → List Char) (k : LfnEntry) (c : Nat) (q a : String)
    (r : List String) : clAdd cl up k c (q :: a :: r) = cl (q :: a :: r) := rfl

theorem clAdd_dropLast (cl : List String → Option Nat) (up : Char → List Char) (k : LfnEntry) (c : Nat) (q : String)
    (r : List String) (h : matchesName up k q.toList = false) :
    clAdd cl up k c (q :: r).dropLast = cl (q :: r).dropLast := by
  cases r with
  | nil => rfl
  | cons a b =>
    rw [List.dropLast_cons_cons]
    exact clAdd_miss cl up k c q _ h

end SlotTreeImg
end FatVerif
