import FatVerif.Proofs.FatMore
/-! Termination and outcome analysis of the repaired `ClusterIterator::free` / `truncate` on ARBITRARY tables
    (cyclic chains, links out of range, links into padding, any start cluster).

    Measure: the number of entries whose view is a `data` link. Every iteration that continues found `view n = data m`
    and turns entry `n` into `Free`; an iteration on a non-link entry is the last one. A cycle therefore ends when it
    comes back to an entry it has already freed. -/
namespace FatVerif.Fat

def isData : FatValue → Bool
  | .data _ => true
  | _ => false

/-- number of `data` links among entries `0 … N-1` -/
def dataCount (g : Nat → FatValue) : Nat → Nat
  | 0 => 0
  | N + 1 => dataCount g N + (if isData (g N) then 1 else 0)

theorem dataCount_le (g : Nat → FatValue) : ∀ N, dataCount g N ≤ N := by
  intro N
  induction N with
  | zero => exact Nat.le_refl _
  | succ N ih => simp only [dataCount]; split <;> omega

theorem dataCount_congr (g g' : Nat → FatValue) : ∀ N, (∀ i, i < N → g i = g' i) → dataCount g N = dataCount g' N := by
  intro N
  induction N with
  | zero => intro _; rfl
  | succ N ih =>
    intro h
    simp only [dataCount]
    rw [ih (fun i hi => h i (by omega)), h N (by omega)]

/-- overwriting a link with a non-link removes exactly one link … -/
theorem dataCount_updV_lt (g : Nat → FatValue) (c : Nat) (v : FatValue) (hv : isData v = false)
    (hc : isData (g c) = true) : ∀ N, c < N → dataCount (updV g c v) N + 1 = dataCount g N := by
  intro N
  induction N with
  | zero => intro h; omega
  | succ N ih =>
    intro h
    simp only [dataCount]
    by_cases e : c = N
    · subst e
      rw [dataCount_congr (updV g c v) g c (fun i hi => updV_ne _ _ _ _ (by omega)), updV_same, hv, hc]
      simp
    · rw [updV_ne _ _ _ _ (Ne.symm e)]
      have := ih (by omega)
      omega

/-- … and overwriting anything with a non-link never adds one -/
theorem dataCount_updV_le (g : Nat → FatValue) (c : Nat) (v : FatValue) (hv : isData v = false) :
    ∀ N, dataCount (updV g c v) N ≤ dataCount g N := by
  intro N
  induction N with
  | zero => exact Nat.le_refl _
  | succ N ih =>
    simp only [dataCount]
    by_cases e : N = c
    · subst e; rw [updV_same, hv]; simp; omega
    · rw [updV_ne _ _ _ _ e]; omega

/-- a link can only be read from an entry inside the bytes, and never from a special FAT32 cluster number -/
theorem view_data_plain {ft : FatType} {f : Array Nat} {c m : Nat} (h : view ft f c = .data m) : Plain ft f c := by
  unfold view at h
  cases hg : get ft f c with
  | error e => rw [hg] at h; cases h
  | ok v =>
    refine ⟨get_inRange hg, ?_⟩
    intro hft hs; subst hft
    rw [hg] at h; simp only at h; subst h
    unfold get at hg
    cases hr : getRaw .fat32 f c with
    | error e => rw [hr] at hg; cases hg
    | ok r =>
      rw [hr] at hg
      simp only [classify, classify32] at hg
      split at hg
      · cases hg
      · split at hg
        · cases hg
        · split at hg
          · cases hg
          · cases hg

theorem inRange_lt_size {ft : FatType} {f : Array Nat} {c : Nat} (h : InRange ft f c) : c < f.size := by
  cases ft <;> simp only [InRange, off, width] at h <;> omega

/-- the possible results of the chain operations: a count, or one of the three errors a fault-free stream can
    produce (`panic` = u32 offset overflow resp. `Free` on a special FAT32 cluster number) -/
def ChainOutcome (o : Except Err Nat) : Prop :=
  (∃ n, o = .ok n) ∨ o = .error .panic ∨ o = .error .eof ∨ o = .error .writeZero

theorem chainOutcome_of_set_err {ft : FatType} {f : Array Nat} {c : Nat} {v : FatValue} {e : Err}
    (h : set ft f c v = .error e) : ChainOutcome (.error e) := by
  rcases set_err _ _ _ _ _ h with rfl | rfl | rfl
  · exact Or.inr (Or.inl rfl)
  · exact Or.inr (Or.inr (Or.inl rfl))
  · exact Or.inr (Or.inr (Or.inr rfl))

theorem chainNext_err {ft : FatType} {f : Array Nat} {c : Nat} {e : Err} (h : chainNext ft f c = .error e) :
    e = .panic ∨ e = .eof := by
  unfold chainNext get at h
  cases hr : getRaw ft f c with
  | error e' =>
    rw [hr] at h; simp only at h; cases h
    exact getRaw_err ft f c _ hr
  | ok r =>
    rw [hr] at h; simp only at h
    cases hc : classify ft c r <;> rw [hc] at h <;> cases h

/-- **termination on arbitrary tables.** If no entry `≥ N` holds a link and the fuel exceeds the number of links
    below `N`, the `free` loop ends with a count or a genuine error — never `hang`. -/
theorem freeLoop_terminates {ft : FatType} (N : Nat) : ∀ (fuel : Nat) (f : Array Nat) (c cnt : Nat), WfBytes f →
    (∀ i, N ≤ i → isData (view ft f i) = false) → dataCount (view ft f) N + 1 ≤ fuel →
    ChainOutcome (freeLoop ft fuel f (iterNew c) cnt).out := by
  intro fuel
  induction fuel with
  | zero => intro f c cnt _ _ h; omega
  | succ k ih =>
    intro f c cnt hf hN hfuel
    cases hcn : chainNext ft f c with
    | error e =>
      have : (freeLoop ft (k + 1) f (iterNew c) cnt).out = .error e := by
        simp [freeLoop, iterNew, iterItem, hcn]
      rw [this]
      rcases chainNext_err hcn with rfl | rfl
      · exact Or.inr (Or.inl rfl)
      · exact Or.inr (Or.inr (Or.inl rfl))
    | ok nx =>
      have hin : InRange ft f c := by
        unfold chainNext at hcn
        cases hg : get ft f c with
        | error e => rw [hg] at hcn; cases hcn
        | ok v => exact get_inRange hg
      have hnx : nx = nextV (view ft f) c := by
        have := chainNext_view hin; rw [hcn] at this; cases this; rfl
      cases hs : set ft f c .free with
      | error e =>
        have : (freeLoop ft (k + 1) f (iterNew c) cnt).out = .error e := by
          have hit := iterItem_view hin
          simp only [iterNew] at hit ⊢
          simp only [freeLoop, hit, hs]
          cases nextV (view ft f) c <;> rfl
        rw [this]; exact chainOutcome_of_set_err hs
      | ok f1 =>
        rw [freeLoop_step k cnt hin hs, ← hnx]
        cases nx with
        | none => rw [freeLoop_none]; exact Or.inl ⟨_, rfl⟩
        | some m =>
          have hd : view ft f c = .data m := by
            have := hnx.symm
            unfold nextV at this
            cases hv : view ft f c with
            | data n => rw [hv] at this; cases this; rfl
            | free => rw [hv] at this; cases this
            | bad => rw [hv] at this; cases this
            | eoc => rw [hv] at this; cases this
          have hpl := view_data_plain hd
          have hv1 := view_set hf (v := .free) (by cases ft <;> trivial) hpl.2 hs
          have hcN : c < N := by
            apply Classical.byContradiction
            intro hge
            have := hN c (by omega)
            rw [hd] at this; cases this
          have hcount := dataCount_updV_lt (view ft f) c .free rfl (by rw [hd]; rfl) N hcN
          apply ih f1 m (cnt + 1) (set_wf hf hs)
          · intro i hi
            rw [hv1]
            by_cases e : i = c
            · subst e; simp [isData]
            · rw [updV_ne _ _ _ _ e]; exact hN i hi
          · rw [hv1]; omega

/-- no link can be read from an entry at or beyond the byte length -/
theorem no_data_beyond_size (ft : FatType) (f : Array Nat) (i : Nat) (hi : f.size ≤ i) :
    isData (view ft f i) = false := by
  cases hv : view ft f i with
  | data m => have := inRange_lt_size (view_data_plain hv).1; omega
  | _ => rfl

/-- `free` from ANY start cluster on ANY byte-valued table (cycles, stray links, too-short tables):
    with fuel > byte length it ends with a count or `panic`/`eof`/`writeZero`, never `hang` -/
theorem freeChain_terminates (ft : FatType) (f : Array Nat) (c fuel : Nat) (hf : WfBytes f)
    (hfuel : f.size + 1 ≤ fuel) : ChainOutcome (freeChain ft f c fuel).out := by
  unfold freeChain
  apply freeLoop_terminates f.size fuel f c 0 hf (no_data_beyond_size ft f)
  have := dataCount_le (view ft f) f.size
  omega

theorem truncateChain_terminates_gen (ft : FatType) (N : Nat) (f : Array Nat) (c fuel : Nat) (hf : WfBytes f)
    (hN : ∀ i, N ≤ i → isData (view ft f i) = false) (hfuel : dataCount (view ft f) N + 1 ≤ fuel) :
    ChainOutcome (truncateChain ft f c fuel).out := by
  cases hcn : chainNext ft f c with
  | error e =>
    have : (truncateChain ft f c fuel).out = .error e := by
      simp [truncateChain, iterNew, iterItem, hcn]
    rw [this]
    rcases chainNext_err hcn with rfl | rfl
    · exact Or.inr (Or.inl rfl)
    · exact Or.inr (Or.inr (Or.inl rfl))
  | ok nx =>
    have hin : InRange ft f c := by
      unfold chainNext at hcn
      cases hg : get ft f c with
      | error e => rw [hg] at hcn; cases hcn
      | ok v => exact get_inRange hg
    cases hs : set ft f c .eoc with
    | error e =>
      have : (truncateChain ft f c fuel).out = .error e := by
        simp only [truncateChain, iterItem_view hin, hs]
        cases nextV (view ft f) c <;> rfl
      rw [this]; exact chainOutcome_of_set_err hs
    | ok f1 =>
      rw [truncateChain_step fuel hin hs]
      cases hnv : nextV (view ft f) c with
      | none => rw [freeLoop_none]; exact Or.inl ⟨_, rfl⟩
      | some m =>
        -- `c` held a link, so it is a plain entry and the view law applies
        have hd : view ft f c = .data m := by
          unfold nextV at hnv
          cases hv : view ft f c with
          | data n => rw [hv] at hnv; cases hnv; rfl
          | free => rw [hv] at hnv; cases hnv
          | bad => rw [hv] at hnv; cases hnv
          | eoc => rw [hv] at hnv; cases hnv
        have hpl := view_data_plain hd
        have hv1 := view_set hf (v := .eoc) (by cases ft <;> trivial) hpl.2 hs
        apply freeLoop_terminates N fuel f1 m 0 (set_wf hf hs)
        · intro i hi
          rw [hv1]
          by_cases e : i = c
          · subst e; simp [isData]
          · rw [updV_ne _ _ _ _ e]; exact hN i hi
        · rw [hv1]
          have := dataCount_updV_le (view ft f) c .eoc rfl N
          omega

theorem truncateChain_terminates (ft : FatType) (f : Array Nat) (c fuel : Nat) (hf : WfBytes f)
    (hfuel : f.size + 1 ≤ fuel) : ChainOutcome (truncateChain ft f c fuel).out := by
  apply truncateChain_terminates_gen ft f.size f c fuel hf (no_data_beyond_size ft f)
  have := dataCount_le (view ft f) f.size
  omega

end FatVerif.Fat
