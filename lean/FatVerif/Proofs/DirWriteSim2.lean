import FatVerif.Proofs.DirWriteSim1
/-! Directory WRITES, part 2: the slot-deleting loop and `deleteEntry` on the fixed root = `DirSlots.deleteRange` on
    the root slots of the image. -/
namespace FatVerif.DirSim
open FatVerif.FileSim DirEntryData

/-! ### `deserialize → set_deleted → serialize` is `markDeleted` -/

theorem serialize_setDeleted (raw : List Nat) (hlen : raw.length = 32) (hb : ∀ b ∈ raw, b < 256) :
    (deserialize raw).setDeleted.serialize = DirSlots.markDeleted raw := by
  have hsd := serialize_deserialize raw hlen hb
  have hset : (deserialize raw).setDeleted.serialize = ((deserialize raw).serialize).set 0 0xE5 := by
    cases hd : deserialize raw with
    | file f =>
      simp only [DirEntryData.setDeleted, DirEntryData.serialize, DirFileEntryData.serialize,
        DirFileEntryData.setDeleted]
      have hn : f.name.length = 11 := by
        unfold deserialize at hd
        split at hd
        · cases hd
        · cases hd
          simp only [deserializeFile, List.length_take, hlen]; rfl
      cases hname : f.name with
      | nil => rw [hname] at hn; cases hn
      | cons a t => rfl
    | lfn l => rfl
  rw [hset, hsd]
  unfold DirSlots.markDeleted Lfn.byte
  obtain ⟨a0, a1, a2, a3, a4, a5, a6, a7, a8, a9, a10, a11, a12, a13, a14, a15, a16, a17, a18, a19, a20, a21, a22,
    a23, a24, a25, a26, a27, a28, a29, a30, a31, rfl⟩ := list_length_32 hlen
  rfl

theorem markDeleted_length (raw : List Nat) : (DirSlots.markDeleted raw).length = raw.length := by
  simp [DirSlots.markDeleted]

theorem markDeleted_lt (raw : List Nat) (hb : ∀ b ∈ raw, b < 256) : ∀ b ∈ DirSlots.markDeleted raw, b < 256 := by
  intro b hm
  unfold DirSlots.markDeleted at hm
  rcases List.mem_or_eq_of_mem_set hm with h | h
  · rcases List.mem_or_eq_of_mem_set h with h | h
    · exact hb b h
    · omega
  · rw [h]; omega

/-! ### the iterated form of `deleteRange` -/

/-- mark `k` slots from index `i` on, one after the other -/
def delK (L : List (List Nat)) : Nat → Nat → List (List Nat)
  | _, 0 => L
  | i, k + 1 => delK (L.set i (DirSlots.markDeleted (L.getD i []))) (i + 1) k

theorem deleteFrom_getElem? : ∀ (L : List (List Nat)) (j b e i : Nat),
    (DirSlots.deleteFrom L j b e)[i]? = (L[i]?).map fun s => if b ≤ j + i ∧ j + i < e then DirSlots.markDeleted s else s := by
  intro L
  induction L with
  | nil => intro j b e i; simp [DirSlots.deleteFrom]
  | cons s rest ih =>
    intro j b e i
    cases i with
    | zero => simp [DirSlots.deleteFrom]
    | succ i =>
      simp only [DirSlots.deleteFrom, List.getElem?_cons_succ, ih]
      have : j + 1 + i = j + (i + 1) := by omega
      rw [this]

theorem delK_getElem? : ∀ (k : Nat) (L : List (List Nat)) (b i : Nat), b + k ≤ L.length →
    (delK L b k)[i]? = (L[i]?).map fun s => if b ≤ i ∧ i < b + k then DirSlots.markDeleted s else s := by
  intro k
  induction k with
  | zero =>
    intro L b i _
    simp only [delK, Nat.add_zero]
    cases L[i]? with
    | none => rfl
    | some s => simp only [Option.map]; rw [if_neg (by omega)]
  | succ k ih =>
    intro L b i hle
    simp only [delK]
    rw [ih _ (b + 1) i (by rw [List.length_set]; omega), List.getElem?_set]
    by_cases hbi : b = i
    · subst hbi
      have hlt : b < L.length := by omega
      simp only [if_true, hlt, List.getElem?_eq_getElem hlt, Option.map, List.getD_eq_getElem?_getD, Option.getD]
      rw [if_neg (by omega), if_pos (by omega)]
    · simp only [hbi, if_false]
      cases L[i]? with
      | none => rfl
      | some s =>
        simp only [Option.map]
        by_cases h1 : b + 1 ≤ i ∧ i < b + 1 + k
        · rw [if_pos h1, if_pos (by omega)]
        · rw [if_neg h1, if_neg (by omega)]

theorem delK_eq_deleteRange (L : List (List Nat)) (b k : Nat) (h : b + k ≤ L.length) :
    delK L b k = DirSlots.deleteRange L b (b + k) := by
  apply List.ext_getElem?
  intro i
  rw [delK_getElem? k L b i h, DirSlots.deleteRange, deleteFrom_getElem?]
  simp only [Nat.zero_add]


/-- the slot range of every entry the pure reader yields lies inside the slots read, and is not empty -/
theorem readLoop_bounds (alloc sv : Bool) : ∀ (L : List (List Nat)) (i bi : Nat) (b : LongNameBuilder), bi ≤ i →
    ∀ e ∈ Lfn.readLoop alloc sv L i bi b, bi ≤ e.beginIdx ∧ e.beginIdx < e.endIdx ∧ e.endIdx ≤ i + L.length := by
  intro L
  induction L with
  | nil => intro i bi b _ e he; simp [Lfn.readLoop] at he
  | cons sl rest ih =>
    intro i bi b hbi e he
    unfold Lfn.readLoop at he
    simp only [List.length_cons]
    cases hc : slotClass sl with
    | endMark => rw [hc] at he; simp at he
    | deleted =>
      rw [hc] at he
      have := ih (i + 1) (i + 1) _ (Nat.le_refl _) e he
      omega
    | lfn =>
      rw [hc] at he
      have := ih (i + 1) bi _ (by omega) e he
      omega
    | volume =>
      rw [hc] at he
      dsimp only at he
      split at he
      · have := ih (i + 1) (i + 1) _ (Nat.le_refl _) e he
        omega
      · rcases List.mem_cons.mp he with rfl | he
        · simp only; omega
        · have := ih (i + 1) (i + 1) _ (Nat.le_refl _) e he
          omega
    | file =>
      rw [hc] at he
      rcases List.mem_cons.mp he with rfl | he
      · simp only; omega
      · have := ih (i + 1) (i + 1) _ (Nat.le_refl _) e he
        omega

/-! ### the root slots after a slot was overwritten -/

section root
variable (s : DiskSlice) (N : Nat) (hN : s.size = 32 * N)

/-- bytes behind the status byte and outside the root region are kept -/
def FrameOut (d d' : Dev) : Prop :=
  ∀ q, 0x42 ≤ q → ¬ (s.beginOff ≤ q ∧ q < s.beginOff + s.size) → d'.img.getByte q = d.img.getByte q

theorem FrameOut.refl (d : Dev) : FrameOut s d d := fun _ _ _ => rfl

theorem FrameOut.trans {a b c : Dev} (h1 : FrameOut s a b) (h2 : FrameOut s b c) : FrameOut s a c :=
  fun q hq hn => (h2 q hq hn).trans (h1 q hq hn)

theorem FrameOut.of_sameStore {a b : Dev} (h : SameStore a b) : FrameOut s a b := fun q _ _ => by rw [h.img]

include hN in
theorem rootSlots_put {d d' : Dev} {i : Nat} {bs : List Nat} (hw : WritesTo d d' (s.beginOff + 32 * i) bs)
    (hwf : d.img.WF) (hB : 0x42 ≤ s.beginOff) (hi : i < N) (hlen : bs.length = 32) (hb : ∀ b ∈ bs, b < 256) :
    rootSlots d'.img s = (rootSlots d.img s).set i bs ∧ FrameOut s d d' := by
  constructor
  · apply List.ext_getElem?
    intro j
    simp only [rootSlots, List.getElem?_set, List.getElem?_map, List.length_map, List.length_range]
    have hNdiv : s.size / 32 = N := by rw [hN]; omega
    rw [hNdiv]
    by_cases hj : j < N
    · rw [List.getElem?_range hj]
      simp only [Option.map]
      by_cases hij : i = j
      · subst hij
        simp only [if_true, hi]
        congr 1
        apply List.ext_getElem
        · simp [hlen]
        · intro x h1 h2
          simp only [Img.read, List.getElem_map, List.getElem_range]
          rw [hw.bytes hwf _ (by omega)]
          unfold putBytes
          rw [if_pos (by omega), Nat.add_sub_cancel_left, List.getD_eq_getElem?_getD, List.getElem?_eq_getElem h2]
          simp only [Option.getD]
          exact Nat.mod_eq_of_lt (hb _ (List.getElem_mem h2))
      · simp only [hij, if_false]
        congr 1
        apply List.ext_getElem
        · simp
        · intro x h1 h2
          simp only [Img.read, List.getElem_map, List.getElem_range]
          have hx : x < 32 := by simpa using h1
          rw [hw.bytes hwf _ (by omega)]
          unfold putBytes
          rw [if_neg (by omega)]
    · rw [List.getElem?_eq_none (by simp; omega)]
      split
      · omega
      · simp
  · intro q hq hn
    rw [hw.bytes hwf q hq]
    unfold putBytes
    rw [if_neg]
    rw [hN] at hn
    omega


theorem slice_seekCurNeg32 (o : Nat) (ho : o + 32 ≤ s.size) :
    (sliceAt s (o + 32)).seek (.cur (-32)) = Prog.pure (o, sliceAt s o) := by
  have h1 : ¬ (((o + 32 : Nat) : Int) + (-32) < 0) := by omega
  have h3 : (((o + 32 : Nat) : Int) + (-32)).toNat = o := by omega
  simp only [DiskSlice.seek, sliceAt, h1, if_false, h3]
  show (if o > s.size then _ else _) = _
  rw [if_neg (by omega)]
  rfl

theorem slice_seekStart (o t : Nat) (ht : t ≤ s.size) :
    (sliceAt s o).seek (.start t) = Prog.pure (t, sliceAt s t) := by
  simp only [DiskSlice.seek, sliceAt]
  show (if t > s.size then _ else _) = _
  rw [if_neg (by omega)]
  rfl

theorem root_seekCurNeg32_run (o : Nat) (ho : o + 32 ≤ s.size) (dd : Dev) :
    run (DirStream.seek (.root (sliceAt s (o + 32))) (.cur (-32))) dd = (.ok (o, .root (sliceAt s o)), dd) := by
  simp only [DirStream.seek, slice_seekCurNeg32 s o ho]
  rfl

theorem root_seekStart_run (o t : Nat) (ht : t ≤ s.size) (dd : Dev) :
    run (DirStream.seek (.root (sliceAt s o)) (.start t)) dd = (.ok (t, .root (sliceAt s t)), dd) := by
  simp only [DirStream.seek, slice_seekStart s o t ht]
  rfl

variable (hv : s.viaFs = true) (hm : s.mirrors = 1)

include hN hv hm in
/-- **the slot-deleting loop on the fixed root**, forward: `k` slots from slot `i` on are read, marked deleted and
    written back; the root slots of the image afterwards are `delK` of those before -/
theorem root_deleteSlots (hB : 0x42 ≤ s.beginOff) : ∀ (k i : Nat) (d : Dev), d.failAt = none →
    s.beginOff + s.size ≤ d.img.size → d.img.WF → i + k ≤ N →
    ∃ d', run (deleteSlots k (.root (sliceAt s (32 * i)))) d = (.ok (.root (sliceAt s (32 * (i + k)))), d') ∧
      DevStep d d' ∧ (0 < k → d'.fs.curDirty = true) ∧ (d.fs.curDirty = true → d'.fs.curDirty = true) ∧
      rootSlots d'.img s = delK (rootSlots d.img s) i k ∧ FrameOut s d d' := by
  intro k
  induction k with
  | zero =>
    intro i d _ _ _ _
    exact ⟨d, rfl, DevStep.refl d, fun h => absurd h (by omega), id, rfl, FrameOut.refl s d⟩
  | succ k ih =>
    intro i d hfa hdev hwf hle
    have hroom : 32 * i + 32 ≤ s.size := by rw [hN]; omega
    obtain ⟨d1, h1, hs1⟩ := root_readSlot_evals s (32 * i) d hfa hroom hdev
    have hfa1 : d1.failAt = none := by rw [hs1.failAt]; exact hfa
    have hdev1 : s.beginOff + s.size ≤ d1.img.size := by rw [hs1.img]; exact hdev
    have hraw_len : (d.img.read (s.beginOff + 32 * i) 32).length = 32 := Img.read_length _ _ _
    have hraw_lt : ∀ b ∈ d.img.read (s.beginOff + 32 * i) 32, b < 256 := Img.read_lt _ _ _
    have hser := serialize_setDeleted _ hraw_len hraw_lt
    obtain ⟨d2, h2, hw2⟩ := root_writeSlot s hv hm (32 * i)
      (deserialize (d.img.read (s.beginOff + 32 * i) 32)).setDeleted
      (by rw [hser, markDeleted_length]; exact hraw_len) d1 hfa1 (by omega) hroom hdev1
    rw [hser] at hw2
    have hw2' : WritesTo d d2 (s.beginOff + 32 * i) (DirSlots.markDeleted (d.img.read (s.beginOff + 32 * i) 32)) :=
      WritesTo.of_sameStore_left hs1 hw2
    obtain ⟨hsl, hfr⟩ := rootSlots_put s N hN hw2' hwf hB (by omega) (by rw [markDeleted_length]; exact hraw_len)
      (markDeleted_lt _ hraw_lt)
    obtain ⟨d3, h3, hs3, hd3, hk3, hsl3, hfr3⟩ := ih (i + 1) d2 (by rw [hw2'.step.failAt]; exact hfa)
      (by rw [hw2'.step.size]; exact hdev) (hw2'.step.wf hwf) (by omega)
    have hne : DirSlots.markDeleted (d.img.read (s.beginOff + 32 * i) 32) ≠ [] := by
      intro h0
      have := congrArg List.length h0
      rw [markDeleted_length, hraw_len] at this
      cases this
    refine ⟨d3, ?_, hw2'.step.trans hs3, fun _ => hk3 (hw2'.dirty hne), fun hk => hk3 (hw2'.keep hk), ?_,
      hfr.trans s hfr3⟩
    · unfold deleteSlots
      rw [run_bind_ok h1]
      simp only
      rw [run_bind_ok (root_seekCurNeg32_run s (32 * i) hroom d1)]
      simp only
      rw [run_bind_ok h2, show 32 * i + 32 = 32 * (i + 1) by omega, h3, show i + 1 + k = i + (k + 1) by omega]
    · rw [hsl3, hsl]
      simp only [delK]
      have hget : (rootSlots d.img s).getD i [] = d.img.read (s.beginOff + 32 * i) 32 := by
        have := rootSlots_drop_getD s N hN d.img 0 i (by rw [List.drop_zero, rootSlots_length, hN]; omega)
        simpa using this
      rw [hget]


/-- scope exit with a destructor that does nothing: the device is the one the body left -/
theorem run_finallyDrop_noop {α} {p : Prog α} {c : Option α → Prog Unit} {d d1 : Dev} {a : α}
    (h : run p d = (.ok a, d1)) (hc : ∀ dd : Dev, run (c (some a)) dd = (.ok (), dd)) :
    run (Prog.finallyDrop p c) d = (.ok a, d1) := by
  simp only [run, h, hc]
  congr 1

include hN hv hm in
/-- **`deleteEntry` on the fixed root**, forward: for an entry occupying the slots `[b, b + k)`, the root slots of the
    image afterwards are `DirSlots.deleteRange` of those before; the volume is marked dirty (if `k > 0`); bytes behind
    the status byte and outside the root region are untouched -/
theorem root_deleteEntry (hB : 0x42 ≤ s.beginOff) (e : DirEntry) (b k : Nat) (hb : e.rangeBegin = 32 * b)
    (he : e.rangeEnd = 32 * (b + k)) (hle : b + k ≤ N) (d : Dev) (hfa : d.failAt = none)
    (hdev : s.beginOff + s.size ≤ d.img.size) (hwf : d.img.WF) :
    ∃ d', run (deleteEntry (.root (sliceAt s 0)) e) d = (.ok (), d') ∧
      DevStep d d' ∧ (0 < k → d'.fs.curDirty = true) ∧ (d.fs.curDirty = true → d'.fs.curDirty = true) ∧
      rootSlots d'.img s = DirSlots.deleteRange (rootSlots d.img s) b (b + k) ∧ FrameOut s d d' := by
  obtain ⟨d1, h1, hs1, hd1, hk1, hsl1, hfr1⟩ := root_deleteSlots s N hN hv hm hB k b d hfa hdev hwf hle
  have hlen : (rootSlots d.img s).length = N := by rw [rootSlots_length, hN]; omega
  refine ⟨d1, ?_, hs1, hd1, hk1, by rw [hsl1, delK_eq_deleteRange _ _ _ (by rw [hlen]; exact hle)], hfr1⟩
  unfold deleteEntry withStream
  have hk : (e.rangeEnd - e.rangeBegin) / 32 = k := by rw [hb, he]; omega
  have hbody : run (do
      let (_, st) ← DirStream.seek (.root (sliceAt s 0)) (.start e.rangeBegin)
      let st ← deleteSlots ((e.rangeEnd - e.rangeBegin) / 32) st
      pure ((), st)) d = (.ok ((), .root (sliceAt s (32 * (b + k)))), d1) := by
    rw [run_bind_ok (root_seekStart_run s 0 e.rangeBegin (by rw [hb, hN]; omega) d)]
    simp only
    rw [hk, hb, run_bind_ok h1]
    rfl
  rw [run_bind_ok (run_finallyDrop_noop hbody (fun dd => rfl))]
  rfl

end root

end FatVerif.DirSim
