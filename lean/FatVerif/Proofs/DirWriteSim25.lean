import FatVerif.Proofs.DirWriteSim24
/-! Directory WRITES, part 25: `write_entry` for the names `"."` and `".."` (no long-name slots: one short record) —
    the two entries `create_dir` puts into the new directory. -/
namespace FatVerif.DirSim
open FatVerif.FileSim DirEntryData

section generic
variable {Inv : Dev → Prop} {F G : Nat → DirStream} {N : Nat} {src room : Nat → Nat} {Extra : Nat → Prop}
  {DropPost : Img → Img → Prop}

/-- **`write_entry(".", raw)` / `write_entry("..", raw)`, generic**: one short record at `findFree slots 1` -/
theorem WFam.writeEntryDot (IO : InvOK Inv) (hg : SlotGeo N src) (W : WFam Inv F G N src room)
    (WG : WFam Inv G G N src room) (O : WOps Inv F G N src room Extra DropPost) (name : String) (raw : DirFileEntryData)
    (hval : Names.validateLongName name = .ok ()) (hdot : (name = "." || name = "..") = true) (hraw : raw.WF)
    (d : Dev) (hinv : Inv d) (hfit : DirSlots.findFree (srcSlots d.img src N) 1 + 1 ≤ N) :
    ∃ d', run (FatVerif.writeEntry (F 0) name raw) d =
        (.ok { data := raw, lfn := Names.encodeUtf16 name.toList,
               entryPos := src (32 * (DirSlots.findFree (srcSlots d.img src N) 1 + 1) - 32) + 32 - 32,
               rangeBegin := 32 * DirSlots.findFree (srcSlots d.img src N) 1,
               rangeEnd := 32 * (DirSlots.findFree (srcSlots d.img src N) 1 + 1) }, d') ∧
      VolStep d d' ∧ d'.fs.curDirty = true ∧ Inv d' ∧
      srcSlots d'.img src N = DirSlots.writeEntryDot (srcSlots d.img src N) raw.serialize ∧
      FrameOutE N src Extra d d' ∧ MidImg N src DropPost d d' := by
  generalize hp : DirSlots.findFree (srcSlots d.img src N) 1 = p at hfit ⊢
  have hseek : ∀ d1, SameVol d d1 → ∀ o t, o ≤ 32 * N → t ≤ 32 * N → Reads ((F o).seek (.start t)) d1 (t, F t) :=
    fun d1 hv o t ho ht => O.seekStartF d hinv d1 hv o t ho ht
  obtain ⟨d1, h1, hs1⟩ := (O.dsrc d hinv).findFreeEntries_sim hseek (O.fuel d hinv) 1 d (SameVol.refl d)
  rw [hp] at h1
  have hinv1 := IO.vol d d1 hinv hs1 (run_clock _ _ _ _ h1)
  obtain ⟨d2, h2, hs2⟩ := O.seekCurF d1 hinv1 (32 * p) (by omega)
  have hinv2 := IO.vol d1 d2 hinv1 hs2 (run_clock _ _ _ _ h2)
  have hes : ∀ e ∈ [DirEntryData.file raw], e.serialize.length = 32 ∧ ∀ b ∈ e.serialize, b < 256 := by
    intro e he
    simp only [List.mem_singleton] at he
    subst he
    exact ⟨DirFileEntryData.serialize_length raw hraw.name_len, DirFileEntryData.serialize_lt raw hraw⟩
  obtain ⟨d3, h3, hs3, hd3, hinv3, hsl3, hfr3⟩ := W.writeSlotsKeep IO hg WG [DirEntryData.file raw] (by simp) p d2 hinv2 hes
    (by simpa using hfit)
  simp only [List.length_singleton] at h3
  have hv12 := hs1.trans hs2
  have hstep13 : VolStep d d3 := (VolStep.of_sameVol hv12).trans hs3
  obtain ⟨d4, h4, hs4⟩ := O.seekCurG d3 hinv3 (32 * (p + 1)) (by omega)
  have hinv4 := IO.vol d3 d4 hinv3 hs4 (run_clock _ _ _ _ h4)
  have hgeo4 : FsGeomEq d.fs d4.fs := by rw [hs4.fs]; exact hstep13.geom
  obtain ⟨d5, h5, hs5⟩ := O.absPosG d4 hinv4 d.fs hgeo4 (32 * (p + 1)) (by omega) (by omega) (by omega)
  have hinv5 := IO.vol d4 d5 hinv4 hs5 (run_clock _ _ _ _ h5)
  have hinv5' : Inv { d5 with dropDepth := d5.dropDepth + 1 } := IO.vol _ _ hinv5 (sameVol_depth d5 _) rfl
  obtain ⟨d6, h6, hs6, hinv6, hk6, hb6, hdp6⟩ := O.dropG _ hinv5' (32 * (p + 1)) (by omega)
  have hv35 : SameVol d3 d5 := hs4.trans hs5
  have hs36 : VolStep d3 { d6 with dropDepth := d6.dropDepth - 1 } :=
    (((VolStep.of_sameVol hv35).trans (VolStep.of_sameVol (sameVol_depth d5 _))).trans hs6).trans
      (VolStep.of_sameVol (sameVol_depth d6 _))
  have hslots6 : srcSlots d6.img src N = srcSlots d3.img src N := by
    rw [← hv35.img]
    exact srcSlots_congr (fun i hi x hx => hb6 _ (by have := hg.behind i hi; omega) (O.extra_out i hi x hx))
  refine ⟨{ d6 with dropDepth := d6.dropDepth - 1 }, ?_, hstep13.trans hs36,
    hk6 (by show d5.fs.curDirty = true; rw [hv35.fs]; exact hd3),
    IO.vol _ _ hinv6 (sameVol_depth d6 _) rfl, ?_, ?_,
    ⟨d5.img, fun q hq hn => by rw [hv35.img, hfr3 q hq hn, hv12.img], hdp6⟩⟩
  · unfold FatVerif.writeEntry
    rw [hval]
    simp only [hdot, if_true, List.length_nil, Nat.zero_add, List.map_nil, List.nil_append]
    rw [run_bind_ok (run_getFs d)]
    rw [run_bind_ok h1, run_bind_finallyDrop_noop h2 (fun _ => rfl)]
    simp only
    rw [run_bind_ok h3]
    simp only [thenDrop]
    refine run_finallyDrop_ok ?_ h6
    rw [run_bind_ok h4]
    simp only
    rw [run_bind_ok h5]
    rfl
  · show srcSlots d6.img src N = _
    rw [hslots6, hsl3, hv12.img, putK_eq_writeAt _ _ _ (by rw [srcSlots_length]; simpa using hfit)]
    unfold DirSlots.writeEntryDot
    rw [hp]
    rfl
  · intro q hq hn he
    show d6.img.getByte q = _
    rw [hb6 q hq he]
    show d5.img.getByte q = _
    rw [hv35.img, hfr3 q hq hn, hv12.img]

end generic

namespace WView
variable {d : Dev} {st : DirStream}

/-- **(W1) for `"."` / `".."`** through a writable directory -/
theorem writeEntryDot_sim (V : WView d st) (name : String) (raw : DirFileEntryData)
    (hval : Names.validateLongName name = .ok ()) (hdot : (name = "." || name = "..") = true) (hraw : raw.WF)
    (hlfn : attrsIsLfn raw.attrs = false) (hfit : DirSlots.findFree (V.slots d.img) 1 + 1 ≤ V.N) :
    ∃ d', run (FatVerif.writeEntry st name raw) d =
        (.ok (toDirEntryS V.src ⟨raw.serialize, Names.encodeUtf16 name.toList, DirSlots.findFree (V.slots d.img) 1,
          DirSlots.findFree (V.slots d.img) 1 + 1⟩), d') ∧
      VolStep d d' ∧ d'.fs.curDirty = true ∧ V.Inv d' ∧
      V.slots d'.img = DirSlots.writeEntryDot (V.slots d.img) raw.serialize ∧
      FrameOutE V.N V.src V.Extra d d' ∧ MidImg V.N V.src V.DropPost d d' := by
  obtain ⟨d', hr, hs, hd, hinv, hsl, hfr, hmid⟩ := V.w.writeEntryDot V.io V.geo V.wg V.ops name raw hval hdot hraw d V.here hfit
  refine ⟨d', ?_, hs, hd, hinv, hsl, hfr, hmid⟩
  rw [congrArg (fun s => run (FatVerif.writeEntry s name raw) d) V.start, hr,
    writeEntry_result V.src raw hraw hlfn _ _ _ (by omega)]
  rfl

end WView

theorem validate_dot : Names.validateLongName "." = .ok () ∧ Names.validateLongName ".." = .ok () := by
  constructor <;> decide

end FatVerif.DirSim
