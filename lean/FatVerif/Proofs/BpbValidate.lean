import FatVerif.Proofs.BpbBasic
/-! What `Bpb.validate = .ok ()` implies, when the checked arithmetic of the model panics, and what
`Bpb.geometry` returns afterwards. -/
namespace FatVerif
namespace Bpb

/-- every field fits its machine type -/
structure InRange (p : Bpb) : Prop where
  bps : p.bytesPerSector < 65536
  spc : p.sectorsPerCluster < 256
  rsvd : p.reservedSectors < 65536
  fats : p.fats < 256
  rootEntries : p.rootEntries < 65536
  ts16 : p.totalSectors16 < 65536
  spf16 : p.sectorsPerFat16 < 65536
  ts32 : p.totalSectors32 < 4294967296
  spf32 : p.sectorsPerFat32 < 4294967296
  rootCluster : p.rootDirFirstCluster < 4294967296
  fsInfo : p.fsInfoSector < 65536
  backup : p.backupBootSector < 65536
  extFlags : p.extendedFlags < 65536
  reserved1 : p.reserved1 < 256

/-- root directory sectors in unbounded arithmetic -/
def rdsNat (p : Bpb) : Nat := (p.rootEntries * 32 + p.bytesPerSector - 1) / p.bytesPerSector

/-- first data sector in unbounded arithmetic -/
def fdsNat (p : Bpb) : Nat := p.reservedSectors + p.fats * p.sectorsPerFat + p.rdsNat

theorem sectorsPerFat_lt {p : Bpb} (hr : p.InRange) : p.sectorsPerFat < 4294967296 := by
  have := hr.spf16; have := hr.spf32
  unfold sectorsPerFat; split <;> omega

theorem totalSectors_lt {p : Bpb} (hr : p.InRange) : p.totalSectors < 4294967296 := by
  have := hr.ts16; have := hr.ts32
  unfold totalSectors; split <;> omega

theorem rootDirSectors_eq {p : Bpb} (hr : p.InRange) (hb : 0 < p.bytesPerSector) :
    p.rootDirSectors = .ok p.rdsNat := by
  have := hr.bps; have := hr.rootEntries
  unfold rootDirSectors rdsNat
  rw [u32Mul_of_lt (by omega), ebind_ok, u32Add_of_lt (by omega), ebind_ok, u32Sub_of_le (by omega), ebind_ok,
    u32Div_of_ne (by omega)]

theorem rdsNat_le {p : Bpb} (hr : p.InRange) (hb : 512 ≤ p.bytesPerSector) : p.rdsNat ≤ 4096 := by
  have := hr.bps; have := hr.rootEntries
  unfold rdsNat
  have : p.rootEntries * 32 + p.bytesPerSector - 1 < 4097 * p.bytesPerSector := by omega
  exact Nat.le_of_lt_succ ((Nat.div_lt_iff_lt_mul (by omega)).2 this)

theorem firstDataSector_ok {p : Bpb} (hr : p.InRange) (hb : 0 < p.bytesPerSector) {v : Nat} :
    p.firstDataSector = .ok v ↔
      p.fats * p.sectorsPerFat < 4294967296 ∧ p.fdsNat < 4294967296 ∧ v = p.fdsNat := by
  unfold firstDataSector sectorsPerAllFats fdsNat
  rw [rootDirSectors_eq hr hb, ebind_ok]
  simp only [ebind_eq_ok, u32Mul_ok, u32Add_ok]
  constructor
  · rintro ⟨a, ⟨h1, rfl⟩, s, ⟨h2, rfl⟩, h3, rfl⟩
    exact ⟨h1, h3, rfl⟩
  · rintro ⟨h1, h2, rfl⟩
    exact ⟨_, ⟨h1, rfl⟩, _, ⟨by omega, rfl⟩, h2, rfl⟩

theorem firstDataSector_error {p : Bpb} (hr : p.InRange) (hb : 0 < p.bytesPerSector) {e : Err}
    (h : p.firstDataSector = .error e) :
    e = .panic ∧ (4294967296 ≤ p.fats * p.sectorsPerFat ∨ 4294967296 ≤ p.fdsNat) := by
  unfold firstDataSector sectorsPerAllFats at h
  rw [rootDirSectors_eq hr hb, ebind_ok] at h
  unfold fdsNat
  simp only [ebind_eq_error, u32Mul_ok] at h
  rcases h with h | ⟨a, ⟨_, rfl⟩, h⟩
  · obtain ⟨he, hge⟩ := u32Mul_error h
    exact ⟨he, Or.inl hge⟩
  · rcases h with h | ⟨s, hs, h⟩
    · obtain ⟨he, hge⟩ := u32Add_error h
      exact ⟨he, Or.inr (by omega)⟩
    · rw [u32Add_ok] at hs
      obtain ⟨he, hge⟩ := u32Add_error h
      exact ⟨he, Or.inr (by omega)⟩

/-- total clusters in unbounded arithmetic -/
def tcNat (p : Bpb) : Nat := (p.totalSectors - p.fdsNat) / p.sectorsPerCluster

theorem totalClusters_ok {p : Bpb} (hr : p.InRange) (hb : 0 < p.bytesPerSector) {v : Nat} :
    p.totalClusters = .ok v ↔
      p.fats * p.sectorsPerFat < 4294967296 ∧ p.fdsNat < 4294967296 ∧ p.fdsNat ≤ p.totalSectors ∧
      p.sectorsPerCluster ≠ 0 ∧ v = p.tcNat := by
  unfold totalClusters tcNat
  simp only [ebind_eq_ok, firstDataSector_ok hr hb, u32Sub_ok, u32Div_ok]
  constructor
  · rintro ⟨a, ⟨h1, h2, rfl⟩, d, ⟨h3, rfl⟩, h4, rfl⟩
    exact ⟨h1, h2, h3, h4, rfl⟩
  · rintro ⟨h1, h2, h3, h4, rfl⟩
    exact ⟨_, ⟨h1, h2, rfl⟩, _, ⟨h3, rfl⟩, h4, rfl⟩

theorem clusterSize_eq {p : Bpb} (hr : p.InRange) :
    p.clusterSize = .ok (p.sectorsPerCluster * p.bytesPerSector) := by
  have h1 := hr.bps; have h2 := hr.spc
  unfold clusterSize
  have : p.sectorsPerCluster * p.bytesPerSector < 256 * 65536 :=
    Nat.mul_lt_mul'' h2 h1
  rw [u32Mul_of_lt (by omega)]

/-! ### the validation steps -/

theorem validateBytesPerSector_ok {p : Bpb} (h : p.validateBytesPerSector = .ok ()) :
    p.bytesPerSector = 512 ∨ p.bytesPerSector = 1024 ∨ p.bytesPerSector = 2048 ∨ p.bytesPerSector = 4096 := by
  unfold validateBytesPerSector at h
  split at h
  · cases h
  · split at h
    · cases h
    · exact isPowerOfTwo_sector (by simp_all) (by omega) (by omega)

theorem validateBytesPerSector_error {p : Bpb} {e : Err} (h : p.validateBytesPerSector = .error e) :
    e = .corrupted := by
  unfold validateBytesPerSector at h
  split at h
  · cases h; rfl
  · split at h
    · cases h; rfl
    · cases h

theorem validateSectorsPerCluster_ok {p : Bpb} (hr : p.InRange) (h : p.validateSectorsPerCluster = .ok ()) :
    p.sectorsPerCluster = 1 ∨ p.sectorsPerCluster = 2 ∨ p.sectorsPerCluster = 4 ∨ p.sectorsPerCluster = 8 ∨
    p.sectorsPerCluster = 16 ∨ p.sectorsPerCluster = 32 ∨ p.sectorsPerCluster = 64 ∨ p.sectorsPerCluster = 128 := by
  unfold validateSectorsPerCluster at h
  split at h
  · cases h
  · exact isPowerOfTwo_u8 (by simp_all) hr.spc

theorem validateSectorsPerCluster_error {p : Bpb} (hr : p.InRange) {e : Err}
    (h : p.validateSectorsPerCluster = .error e) : e = .corrupted := by
  have h1 := hr.bps; have h2 := hr.spc
  unfold validateSectorsPerCluster at h
  split at h
  · cases h; rfl
  · have : p.bytesPerSector * p.sectorsPerCluster < 65536 * 256 := Nat.mul_lt_mul'' h1 h2
    rw [u32Mul_of_lt (by omega)] at h
    cases h

theorem validateReservedSectors_ok {p : Bpb} (h : p.validateReservedSectors = .ok ()) :
    1 ≤ p.reservedSectors ∧ (p.isFat32 = true → p.backupBootSector < p.reservedSectors) ∧
    (p.isFat32 = true → p.fsInfoSector < p.reservedSectors) := by
  unfold validateReservedSectors at h
  split at h
  · cases h
  · split at h
    · cases h
    · split at h
      · cases h
      · refine ⟨by omega, fun hf => ?_, fun hf => ?_⟩ <;> simp_all <;> omega

theorem validateReservedSectors_error {p : Bpb} {e : Err} (h : p.validateReservedSectors = .error e) :
    e = .corrupted := by
  unfold validateReservedSectors at h
  repeat' split at h
  all_goals cases h
  all_goals rfl

theorem validateFats_ok {p : Bpb} (h : p.validateFats = .ok ()) : 1 ≤ p.fats := by
  unfold validateFats at h
  split at h
  · cases h
  · omega

theorem validateFats_error {p : Bpb} {e : Err} (h : p.validateFats = .error e) : e = .corrupted := by
  unfold validateFats at h
  split at h <;> cases h
  rfl

theorem validateRootEntries_ok {p : Bpb} (h : p.validateRootEntries = .ok ()) :
    (p.isFat32 = true → p.rootEntries = 0) ∧ (p.isFat32 = false → p.rootEntries ≠ 0) := by
  unfold validateRootEntries at h
  split at h
  · cases h
  · split at h
    · cases h
    · constructor <;> intro hf <;> simp_all

theorem validateRootEntries_error {p : Bpb} (hr : p.InRange) (hb : 0 < p.bytesPerSector) {e : Err}
    (h : p.validateRootEntries = .error e) : e = .corrupted := by
  have := hr.rootEntries
  unfold validateRootEntries at h
  split at h
  · cases h; rfl
  · split at h
    · cases h; rfl
    · rw [u32Mul_of_lt (by omega), ebind_ok, u32Rem_of_ne (by omega)] at h
      cases h

/-- the `u64` region sum never overflows and is the unbounded value -/
theorem firstDataSector64_eq {p : Bpb} (hr : p.InRange) (hb : 512 ≤ p.bytesPerSector) :
    p.firstDataSector64 = .ok p.fdsNat := by
  have h1 := hr.fats; have h2 := sectorsPerFat_lt hr; have h3 := hr.rsvd
  have h4 := rdsNat_le hr hb
  have hm : p.fats * p.sectorsPerFat < 256 * 4294967296 := Nat.mul_lt_mul'' h1 h2
  unfold firstDataSector64 fdsNat
  rw [u64Mul_of_lt (by omega), ebind_ok, u64Add_of_lt (by omega), ebind_ok, rootDirSectors_eq hr (by omega),
    ebind_ok, u64Add_of_lt (by omega)]

theorem validateTotalSectors_ok {p : Bpb} (hr : p.InRange) (hb : 512 ≤ p.bytesPerSector)
    (h : p.validateTotalSectors = .ok ()) :
    p.totalSectorsFieldsBad = false ∧ p.fdsNat < 4294967296 ∧ p.fdsNat < p.totalSectors := by
  unfold validateTotalSectors at h
  by_cases hbad : p.totalSectorsFieldsBad = true
  · rw [if_pos hbad] at h; cases h
  · rw [if_neg hbad, firstDataSector64_eq hr hb, ebind_ok] at h
    by_cases h64 : p.fdsNat > 0xFFFFFFFF
    · rw [if_pos h64] at h; cases h
    · rw [if_neg h64] at h
      rw [ebind_eq_ok] at h
      obtain ⟨v, hv, h⟩ := h
      rw [firstDataSector_ok hr (by omega)] at hv
      obtain ⟨_, _, rfl⟩ := hv
      split at h
      · cases h
      · exact ⟨by simpa using hbad, by omega, by omega⟩

/-- after the repair of F7 `validate_total_sectors` cannot panic -/
theorem validateTotalSectors_error {p : Bpb} (hr : p.InRange) (hb : 512 ≤ p.bytesPerSector) {e : Err}
    (h : p.validateTotalSectors = .error e) : e = .corrupted := by
  unfold validateTotalSectors at h
  by_cases hbad : p.totalSectorsFieldsBad = true
  · rw [if_pos hbad] at h; cases h; rfl
  · rw [if_neg hbad, firstDataSector64_eq hr hb, ebind_ok] at h
    by_cases h64 : p.fdsNat > 0xFFFFFFFF
    · rw [if_pos h64] at h; cases h; rfl
    · rw [if_neg h64] at h
      have hf : p.fats * p.sectorsPerFat < 4294967296 := by unfold fdsNat at h64; omega
      have : p.firstDataSector = .ok p.fdsNat := (firstDataSector_ok hr (by omega)).2 ⟨hf, by omega, rfl⟩
      rw [this, ebind_ok] at h
      split at h
      · cases h; rfl
      · cases h

theorem validateSectorsPerFat_ok {p : Bpb} (h : p.validateSectorsPerFat = .ok ()) :
    p.isFat32 = true → p.sectorsPerFat32 ≠ 0 := by
  unfold validateSectorsPerFat at h
  split at h
  · cases h
  · intro hf; simp_all

theorem validateSectorsPerFat_error {p : Bpb} {e : Err} (h : p.validateSectorsPerFat = .error e) :
    e = .corrupted := by
  unfold validateSectorsPerFat at h
  split at h <;> cases h
  rfl

theorem sectorsPerFat_pos {p : Bpb} (h : p.isFat32 = true → p.sectorsPerFat32 ≠ 0) : 1 ≤ p.sectorsPerFat := by
  unfold sectorsPerFat
  cases hf : p.isFat32
  · simp [isFat32] at hf; simp; omega
  · have := h hf; simp; omega

theorem fatBits_cases (ft : FatType) : ft.bits = 12 ∨ ft.bits = 16 ∨ ft.bits = 32 := by
  cases ft <;> simp [FatType.bits]

/-- the `u64` FAT capacity computation never overflows -/
theorem usableFatEntries_eq {p : Bpb} (hr : p.InRange) (ft : FatType) :
    p.usableFatEntries ft = .ok (p.sectorsPerFat * p.bytesPerSector * 8 / ft.bits - 2) := by
  have h1 := sectorsPerFat_lt hr; have h2 := hr.bps
  have hm : p.sectorsPerFat * p.bytesPerSector < 4294967296 * 65536 := Nat.mul_lt_mul'' h1 h2
  have hbits := fatBits_cases ft
  unfold usableFatEntries
  rw [u64Mul_of_lt (by omega), ebind_ok, u64Mul_of_lt (by omega), ebind_ok, u64Div_of_ne (by omega), ebind_ok]
  rfl

theorem fromClusters_fat32 {n : Nat} : FatType.fromClusters n = .fat32 ↔ 65525 ≤ n := by
  unfold FatType.fromClusters
  split
  · simp; omega
  · split
    · simp; omega
    · simp; omega

theorem validateTotalClusters_ok {p : Bpb} (hr : p.InRange) (hb : 512 ≤ p.bytesPerSector)
    (h : p.validateTotalClusters = .ok ()) :
    (p.isFat32 = true ↔ FatType.fromClusters p.tcNat = .fat32) ∧ p.tcNat ≤ 0x0FFFFFF4 ∧
    (p.isFat32 = true → 2 ≤ p.rootDirFirstCluster ∧ p.rootDirFirstCluster < p.tcNat + 2) := by
  unfold validateTotalClusters at h
  simp only [ebind_eq_ok, totalClusters_ok hr (by omega : 0 < p.bytesPerSector)] at h
  obtain ⟨v, ⟨_, _, _, _, rfl⟩, h⟩ := h
  by_cases hw : p.isFat32 ≠ decide (FatType.fromClusters p.tcNat = .fat32)
  · rw [if_pos hw] at h; cases h
  · rw [if_neg hw] at h
    by_cases hl : FatType.fromClusters p.tcNat = .fat32 ∧ p.tcNat > maxClusters (FatType.fromClusters p.tcNat)
    · rw [if_pos hl] at h; cases h
    · rw [if_neg hl] at h
      by_cases hrc : p.rootClusterBad p.tcNat = true
      · rw [if_pos hrc] at h; cases h
      · refine ⟨?_, ?_, ?_⟩
        · cases hf : p.isFat32 <;> simp_all
        · by_cases h32 : FatType.fromClusters p.tcNat = .fat32
          · rw [h32] at hl; simp only [true_and, maxClusters] at hl; omega
          · rw [fromClusters_fat32] at h32; omega
        · intro hf
          unfold rootClusterBad at hrc
          simp [hf] at hrc
          omega

theorem validateTotalClusters_error {p : Bpb} (hr : p.InRange) (hb : 512 ≤ p.bytesPerSector)
    (hspc : p.sectorsPerCluster ≠ 0)
    (hf : p.fdsNat < 4294967296) (hfds : p.fdsNat < p.totalSectors) {e : Err}
    (h : p.validateTotalClusters = .error e) : e = .corrupted := by
  have hfx : p.fats * p.sectorsPerFat < 4294967296 := by unfold fdsNat at hf; omega
  have htc : p.totalClusters = .ok p.tcNat :=
    (totalClusters_ok hr (by omega)).2 ⟨hfx, hf, by omega, hspc, rfl⟩
  unfold validateTotalClusters at h
  rw [htc, ebind_ok] at h
  by_cases hw : p.isFat32 ≠ decide (FatType.fromClusters p.tcNat = .fat32)
  · rw [if_pos hw] at h; cases h; rfl
  · rw [if_neg hw] at h
    by_cases hl : FatType.fromClusters p.tcNat = .fat32 ∧ p.tcNat > maxClusters (FatType.fromClusters p.tcNat)
    · rw [if_pos hl] at h; cases h; rfl
    · rw [if_neg hl] at h
      by_cases hrc : p.rootClusterBad p.tcNat = true
      · rw [if_pos hrc] at h; cases h; rfl
      · rw [if_neg hrc, usableFatEntries_eq hr, ebind_ok] at h
        cases h

/-- everything `validate = .ok ()` establishes -/
structure Valid (p : Bpb) : Prop where
  fsVersion : p.fsVersion = 0
  bps : p.bytesPerSector = 512 ∨ p.bytesPerSector = 1024 ∨ p.bytesPerSector = 2048 ∨ p.bytesPerSector = 4096
  spc : p.sectorsPerCluster = 1 ∨ p.sectorsPerCluster = 2 ∨ p.sectorsPerCluster = 4 ∨ p.sectorsPerCluster = 8 ∨
    p.sectorsPerCluster = 16 ∨ p.sectorsPerCluster = 32 ∨ p.sectorsPerCluster = 64 ∨ p.sectorsPerCluster = 128
  rsvd : 1 ≤ p.reservedSectors
  backup : p.isFat32 = true → p.backupBootSector < p.reservedSectors
  fsInfo : p.isFat32 = true → p.fsInfoSector < p.reservedSectors
  fats : 1 ≤ p.fats
  root32 : p.isFat32 = true → p.rootEntries = 0
  root16 : p.isFat32 = false → p.rootEntries ≠ 0
  tsFields : p.totalSectorsFieldsBad = false
  fatsXspf : p.fats * p.sectorsPerFat < 4294967296
  fds : p.fdsNat < p.totalSectors
  spf : 1 ≤ p.sectorsPerFat
  width : p.isFat32 = true ↔ FatType.fromClusters p.tcNat = .fat32
  limit : p.tcNat ≤ 0x0FFFFFF4
  rootCluster : p.isFat32 = true → 2 ≤ p.rootDirFirstCluster ∧ p.rootDirFirstCluster < p.tcNat + 2

theorem validate_ok {p : Bpb} (hr : p.InRange) (h : p.validate = .ok ()) : p.Valid := by
  unfold validate at h
  by_cases hv : p.fsVersion ≠ 0
  · rw [if_pos hv] at h; cases h
  · rw [if_neg hv] at h
    simp only [ebind_eq_ok] at h
    obtain ⟨_, h1, _, h2, _, h3, _, h4, _, h5, _, h6, _, h7, h8⟩ := h
    have hbps := validateBytesPerSector_ok h1
    have hb : 512 ≤ p.bytesPerSector := by omega
    have hspc := validateSectorsPerCluster_ok hr h2
    obtain ⟨r1, r2, r3⟩ := validateReservedSectors_ok h3
    obtain ⟨e1, e2⟩ := validateRootEntries_ok h5
    obtain ⟨t1, t2, t3⟩ := validateTotalSectors_ok hr hb h6
    have hspf := sectorsPerFat_pos (validateSectorsPerFat_ok h7)
    obtain ⟨c1, c2, c3⟩ := validateTotalClusters_ok hr hb h8
    have hfx : p.fats * p.sectorsPerFat < 4294967296 := by unfold fdsNat at t2; omega
    exact ⟨by omega, hbps, hspc, r1, r2, r3, validateFats_ok h4, e1, e2, t1, hfx, t3, hspf, c1, c2, c3⟩

/-- after the repairs every failure of `validate` is `CorruptedFileSystem`: no panic is left -/
theorem validate_error {p : Bpb} (hr : p.InRange) {e : Err} (h : p.validate = .error e) : e = .corrupted := by
  unfold validate at h
  by_cases hv : p.fsVersion ≠ 0
  · rw [if_pos hv] at h; cases h; rfl
  · rw [if_neg hv] at h
    rw [ebind_eq_error] at h
    rcases h with h | ⟨_, h1, h⟩
    · exact validateBytesPerSector_error h
    have hbps := validateBytesPerSector_ok h1
    have hb : 512 ≤ p.bytesPerSector := by omega
    rw [ebind_eq_error] at h
    rcases h with h | ⟨_, h2, h⟩
    · exact validateSectorsPerCluster_error hr h
    have hspc := validateSectorsPerCluster_ok hr h2
    rw [ebind_eq_error] at h
    rcases h with h | ⟨_, h3, h⟩
    · exact validateReservedSectors_error h
    rw [ebind_eq_error] at h
    rcases h with h | ⟨_, h4, h⟩
    · exact validateFats_error h
    rw [ebind_eq_error] at h
    rcases h with h | ⟨_, h5, h⟩
    · exact validateRootEntries_error hr (by omega) h
    rw [ebind_eq_error] at h
    rcases h with h | ⟨_, h6, h⟩
    · exact validateTotalSectors_error hr hb h
    obtain ⟨t1, t2, t3⟩ := validateTotalSectors_ok hr hb h6
    rw [ebind_eq_error] at h
    rcases h with h | ⟨_, h7, h⟩
    · exact validateSectorsPerFat_error h
    exact validateTotalClusters_error hr hb (by omega) t2 t3 h

theorem validate_not_panic {p : Bpb} (hr : p.InRange) : p.validate ≠ .error .panic := by
  intro h
  cases validate_error hr h

/-- after a successful validation the geometry derivation cannot fail, and yields these values -/
theorem geometry_eq {p : Bpb} (hr : p.InRange) (hv : p.Valid) :
    p.geometry = .ok
      { fatType := FatType.fromClusters p.tcNat
        bytesPerSector := p.bytesPerSector
        clusterSize := p.sectorsPerCluster * p.bytesPerSector
        totalClusters := p.tcNat
        firstDataSector := p.fdsNat
        rootDirSectors := p.rdsNat
        sectorsPerFat := p.sectorsPerFat
        reservedSectors := p.reservedSectors
        fats := p.fats
        totalSectors := p.totalSectors
        mirroring := p.mirroringEnabled
        activeFat := p.activeFat
        rootDirFirstCluster := p.rootDirFirstCluster
        fsInfoSector := p.fsInfoSector
        backupBootSector := p.backupBootSector
        statusDirty := p.statusDirty
        statusIoError := p.statusIoError } := by
  have hbps := hv.bps; have hspc := hv.spc; have hts := totalSectors_lt hr; have hfds := hv.fds
  have hb : 0 < p.bytesPerSector := by omega
  have h1 : p.firstDataSector = .ok p.fdsNat := (firstDataSector_ok hr hb).2 ⟨hv.fatsXspf, by omega, rfl⟩
  have h2 : p.totalClusters = .ok p.tcNat :=
    (totalClusters_ok hr hb).2 ⟨hv.fatsXspf, by omega, by omega, by omega, rfl⟩
  unfold geometry
  rw [rootDirSectors_eq hr hb, ebind_ok, h1, ebind_ok, h2, ebind_ok, clusterSize_eq hr, ebind_ok]
  rfl

end Bpb
end FatVerif
