import FatVerif.Proofs.DirReadSim4
/-! Directory reads, forward evaluation, part 5: the GENERIC layer. A directory stream is described by a family
    `S o` of stream states (one per byte offset `o ≤ T`), the device offset `src o` of stream byte `o`, and the number
    `room o` of bytes one `read` call can deliver at `o` (up to the end of the root region / of the cluster). Both kinds
    of directory — the fixed root region (DirReadSim1–4, kept as they are) and cluster chains (DirReadSim8) — are
    instances. Everything up to `readSlot` is proved here from the single-`read` fact.

    The evaluation relation is `Reads`: like `Evals` but the device may also have performed `flush` calls (the
    destructor of a clone of a cluster-chain directory flushes): image, mounted state, fault schedule and the WRITE
    records of the log are kept (`SameVol`). -/
namespace FatVerif.DirSim

/-- image, mounted state, fault schedule and write records coincide (the log may have gained `flush` records) -/
structure SameVol (d d' : Dev) : Prop where
  img : d'.img = d.img
  fs : d'.fs = d.fs
  failAt : d'.failAt = d.failAt
  writesOf : d'.writesOf = d.writesOf

theorem SameVol.refl (d : Dev) : SameVol d d := ⟨rfl, rfl, rfl, rfl⟩

theorem SameVol.trans {a b c : Dev} (h1 : SameVol a b) (h2 : SameVol b c) : SameVol a c :=
  ⟨h2.img.trans h1.img, h2.fs.trans h1.fs, h2.failAt.trans h1.failAt, h2.writesOf.trans h1.writesOf⟩

theorem _root_.FatVerif.SameStore.toVol {d d' : Dev} (h : SameStore d d') : SameVol d d' :=
  ⟨h.img, h.fs, h.failAt, by unfold Dev.writesOf; rw [h.log]⟩

/-- `p` evaluates on `d` to `v`, keeping the volume -/
def Reads {α} (p : Prog α) (d : Dev) (v : α) : Prop := ∃ d', run p d = (.ok v, d') ∧ SameVol d d'

theorem Evals.reads {α} {p : Prog α} {d : Dev} {v : α} (h : Evals p d v) : Reads p d v := by
  obtain ⟨d', hr, hs⟩ := h; exact ⟨d', hr, hs.toVol⟩

theorem Reads.pure {α} (a : α) (d : Dev) : Reads (Prog.pure a) d a := ⟨d, rfl, SameVol.refl d⟩

theorem Reads.bind {α β} {p : Prog β} {k : β → Prog α} {d : Dev} {b : β} {v : α} (h1 : Reads p d b)
    (h2 : ∀ d1, SameVol d d1 → Reads (k b) d1 v) : Reads (Prog.bind p k) d v := by
  obtain ⟨d1, hr1, hs1⟩ := h1
  obtain ⟨d2, hr2, hs2⟩ := h2 d1 hs1
  refine ⟨d2, ?_, hs1.trans hs2⟩
  simp only [run, hr1, hr2]

theorem Reads.getFs (d : Dev) : Reads Prog.getFs d d.fs := ⟨d, rfl, SameVol.refl d⟩

/-- `p` fails on `d` with `e`, keeping the volume -/
def FailsV {α} (p : Prog α) (d : Dev) (e : Err) : Prop := ∃ d', run p d = (.error e, d') ∧ SameVol d d'

theorem FailsV.bind_left {α β} {p : Prog β} {k : β → Prog α} {d : Dev} {e : Err} (h1 : FailsV p d e) :
    FailsV (Prog.bind p k) d e := by
  obtain ⟨d1, hr1, hs1⟩ := h1
  exact ⟨d1, by simp only [run, hr1], hs1⟩

theorem FailsV.bind_right {α β} {p : Prog β} {k : β → Prog α} {d : Dev} {b : β} {e : Err} (h1 : Reads p d b)
    (h2 : ∀ d1, SameVol d d1 → FailsV (k b) d1 e) : FailsV (Prog.bind p k) d e := by
  obtain ⟨d1, hr1, hs1⟩ := h1
  obtain ⟨d2, hr2, hs2⟩ := h2 d1 hs1
  exact ⟨d2, by simp only [run, hr1, hr2], hs1.trans hs2⟩

theorem Reads.tryCatch_ok {α} {p : Prog α} {hd : Err → Prog α} {d : Dev} {v : α} (h : Reads p d v) :
    Reads (Prog.tryCatch p hd) d v := by
  obtain ⟨d1, hr, hs⟩ := h
  exact ⟨d1, by simp only [run, hr], hs⟩

theorem Reads.tryCatch_caught {α} {p : Prog α} {hd : Err → Prog α} {d : Dev} {e : Err} {v : α} (h : FailsV p d e)
    (hnf : e.isFatal = false) (hh : ∀ d1, SameVol d d1 → Reads (hd e) d1 v) : Reads (Prog.tryCatch p hd) d v := by
  obtain ⟨d1, hr, hs⟩ := h
  obtain ⟨d2, hr2, hs2⟩ := hh d1 hs
  exact ⟨d2, by simp only [run, hr, hnf, Bool.false_eq_true, if_false, hr2], hs.trans hs2⟩

/-- `finallyDrop` when body and destructor both evaluate -/
theorem Reads.finallyDrop {α} {p : Prog α} {c : Option α → Prog Unit} {d : Dev} {a : α} (h : Reads p d a)
    (hc : ∀ d1, SameVol d d1 → Reads (c (some a)) d1 ()) : Reads (Prog.finallyDrop p c) d a := by
  obtain ⟨d1, hr, hs⟩ := h
  have hs1 : SameVol d { d1 with dropDepth := d1.dropDepth + 1 } := ⟨hs.img, hs.fs, hs.failAt, hs.writesOf⟩
  obtain ⟨d2, hr2, hs2⟩ := hc _ hs1
  refine ⟨{ d2 with dropDepth := d2.dropDepth - 1 }, ?_, ?_⟩
  · simp only [run, hr, hr2]
  · have := hs1.trans hs2
    exact ⟨this.img, this.fs, this.failAt, this.writesOf⟩

/-! ### the byte source -/

/-- the description of a directory stream on the device `d` (see the header) -/
structure ByteSrc (d : Dev) (S : Nat → DirStream) (T : Nat) (src room : Nat → Nat) : Prop where
  /-- one `read` call at offset `o` -/
  read : ∀ d1, SameVol d d1 → ∀ o n, o ≤ T →
    Reads (DirStream.read (S o) n) d1 (d.img.read (src o) (min n (room o)), S (o + min n (room o)))
  room_end : room T = 0
  /-- inside the room the stream is contiguous on the device -/
  src_step : ∀ o j, j < room o → src (o + j) = src o + j
  room_step : ∀ o j, j < room o → room (o + j) = room o - j
  room_le : ∀ o, o ≤ T → o + room o ≤ T
  /-- slots do not straddle -/
  room_slot : ∀ o, o % 32 = 0 → o + 32 ≤ T → 32 ≤ room o

section generic
variable {d : Dev} {S : Nat → DirStream} {T : Nat} {src room : Nat → Nat}

theorem ByteSrc.readExact (B : ByteSrc d S T src room) (d1 : Dev) (hv : SameVol d d1) (o n : Nat) (hn : n ≤ room o)
    (ho : o ≤ T) :
    Reads (readExact DirStream.strm (S o) n) d1 (d.img.read (src o) n, S (o + n)) := by
  unfold FatVerif.readExact
  cases n with
  | zero =>
    unfold readExactLoop
    simp only [if_true]
    exact Reads.pure _ d1
  | succ k =>
    unfold readExactLoop
    rw [if_neg (by omega)]
    have hr := B.read d1 hv o (k + 1) ho
    have hmin : min (k + 1) (room o) = k + 1 := by omega
    rw [hmin] at hr
    refine Reads.bind hr (fun d2 _ => ?_)
    dsimp only
    rw [if_neg (by rw [Img.read_length]; omega), Img.read_length, Nat.sub_self]
    unfold readExactLoop
    simp only [if_true, List.nil_append]
    exact Reads.pure _ d2

theorem ByteSrc.readExact_eof (B : ByteSrc d S T src room) (d1 : Dev) (hv : SameVol d d1) (n : Nat) (hn : 0 < n) :
    FailsV (FatVerif.readExact DirStream.strm (S T) n) d1 .eof := by
  unfold FatVerif.readExact readExactLoop
  rw [if_neg (by omega)]
  have hr := B.read d1 hv T n (Nat.le_refl _)
  rw [B.room_end, Nat.min_zero] at hr
  refine FailsV.bind_right hr (fun d2 _ => ?_)
  dsimp only
  rw [if_pos (by rw [Img.read_length])]
  exact ⟨d2, rfl, SameVol.refl d2⟩

theorem ByteSrc.readU8 (B : ByteSrc d S T src room) (d1 : Dev) (hv : SameVol d d1) (o : Nat) (hn : 1 ≤ room o)
    (ho : o ≤ T) :
    Reads (FatVerif.readU8 DirStream.strm (S o)) d1 (d.img.getByte (src o), S (o + 1)) := by
  unfold FatVerif.readU8
  refine Reads.bind (B.readExact d1 hv o 1 hn ho) (fun d2 _ => ?_)
  dsimp only
  rw [Img.read_getD _ _ _ _ (by omega), Nat.add_zero]
  exact Reads.pure _ d2

theorem ByteSrc.readChunks (B : ByteSrc d S T src room) : ∀ (ns : List Nat) (o : Nat) (acc : List Nat) (d1 : Dev),
    SameVol d d1 → ns.sum ≤ room o → o ≤ T →
    Reads (FatVerif.readChunks DirStream.strm (S o) ns acc) d1
      (acc ++ d.img.read (src o) ns.sum, S (o + ns.sum)) := by
  intro ns
  induction ns with
  | nil =>
    intro o acc d1 _ _ _
    unfold FatVerif.readChunks
    simp only [List.sum_nil, Img.read_zero, List.append_nil, Nat.add_zero]
    exact Reads.pure _ d1
  | cons n rest ih =>
    intro o acc d1 hv hroom ho
    unfold FatVerif.readChunks
    simp only [List.sum_cons] at hroom ⊢
    refine Reads.bind (B.readExact d1 hv o n (by omega) ho) (fun d2 hs2 => ?_)
    dsimp only
    have hle := B.room_le o ho
    by_cases hlt : n < room o
    · have := ih (o + n) (acc ++ d.img.read (src o) n) d2 (hv.trans hs2)
        (by rw [B.room_step o n hlt]; omega) (by omega)
      rw [B.src_step o n hlt, List.append_assoc, ← Img.read_append, Nat.add_assoc] at this
      exact this
    · have h0 : rest.sum = 0 := by omega
      have := ih (o + n) (acc ++ d.img.read (src o) n) d2 (hv.trans hs2) (by omega) (by omega)
      rw [h0, Img.read_zero, List.append_nil, Nat.add_zero] at this
      simp only [h0, Nat.add_zero]
      exact this

/-- **`readSlot`, generic**: at a slot-aligned offset with a whole slot left, `deserialize` reads the 32 bytes of the
    image at `src o` and the stream advances by 32 -/
theorem ByteSrc.readSlot (B : ByteSrc d S T src room) (d1 : Dev) (hv : SameVol d d1) (o : Nat) (ho : o % 32 = 0)
    (hroom : o + 32 ≤ T) :
    Reads (FatVerif.readSlot (S o)) d1 (d.img.read (src o) 32, S (o + 32)) := by
  have hr32 := B.room_slot o ho hroom
  unfold FatVerif.readSlot
  refine Reads.bind (b := some (d.img.read (src o) 11, S (o + 11))) ?_ (fun d2 hs2 => ?_)
  · refine Reads.tryCatch_ok ?_
    exact Reads.bind (B.readExact d1 hv o 11 (by omega) (by omega)) (fun d2 _ => Reads.pure _ d2)
  · dsimp only
    have hv2 := hv.trans hs2
    have hroom11 : room (o + 11) = room o - 11 := B.room_step o 11 (by omega)
    have hsrc11 : src (o + 11) = src o + 11 := B.src_step o 11 (by omega)
    refine Reads.bind (B.readU8 d2 hv2 (o + 11) (by omega) (by omega)) (fun d3 hs3 => ?_)
    dsimp only
    have hv3 := hv2.trans hs3
    have hroom12 : room (o + 11 + 1) = room o - 12 := by
      rw [Nat.add_assoc]; exact B.room_step o 12 (by omega)
    have hsrc12 : src (o + 11 + 1) = src o + 12 := by
      rw [Nat.add_assoc]; exact B.src_step o 12 (by omega)
    have key : ∀ (ns : List Nat), ns.sum = 20 →
        Reads (Prog.bind (FatVerif.readChunks DirStream.strm (S (o + 11 + 1)) ns [])
          (fun x => Prog.pure (d.img.read (src o) 11 ++ [d.img.getByte (src (o + 11))] ++ x.1, x.2))) d3
          (d.img.read (src o) 32, S (o + 32)) := by
      intro ns hns
      have hc := B.readChunks ns (o + 11 + 1) [] d3 hv3 (by rw [hns, hroom12]; omega) (by omega)
      rw [hns] at hc
      refine Reads.bind hc (fun d4 _ => ?_)
      dsimp only
      have e1 : d.img.read (src o) 32 =
          d.img.read (src o) 11 ++ [d.img.getByte (src (o + 11))] ++ ([] ++ d.img.read (src (o + 11 + 1)) 20) := by
        rw [hsrc11, hsrc12, List.nil_append, ← Img.read_one, show (32 : Nat) = 11 + (1 + 20) from rfl, Img.read_append,
          Img.read_append, List.append_assoc]
      have e2 : o + 32 = o + 11 + 1 + 20 := by omega
      rw [e1, e2]
      exact Reads.pure _ d4
    split
    · exact key _ lfnTail_sum
    · exact key _ fileTail_sum

/-- **`readSlot` at the end of the directory's allocated space, generic**: the `UnexpectedEof` of the first
    `read_exact` is caught, the all-zero record is returned and the stream is not advanced -/
theorem ByteSrc.readSlot_end (B : ByteSrc d S T src room) (d1 : Dev) (hv : SameVol d d1) :
    Reads (FatVerif.readSlot (S T)) d1 (List.replicate 32 0, S T) := by
  unfold FatVerif.readSlot
  refine Reads.bind (b := none) ?_ (fun d2 _ => Reads.pure _ d2)
  refine Reads.tryCatch_caught (e := .eof) ?_ rfl (fun d2 _ => Reads.pure _ d2)
  exact FailsV.bind_left (B.readExact_eof d1 hv 11 (by omega))

end generic

end FatVerif.DirSim
