import FatVerif.Proofs.IoSafeModel4
/-! C09, part 5: `createDir`, the one operation that re-raises a caught error only after a fallible roll-back. -/
namespace FatVerif

/-- an error the roll-back `free_cluster_chain(cluster)` of `create_dir` returns when run after the fault `f` fired -/
def RollbackErr (f : Fault) (e : Err) : Prop :=
  ∃ (c : Nat) (d1 d2 : Dev), d1.failAt = none ∧ d1.fault = some f ∧ run (freeClusterChain c) d1 = (.error e, d2)

theorem createDir_propagatesX (env) : ∀ fuel d path, PropagatesX RollbackErr (createDir env fuel d path) := by
  intro fuel
  induction fuel with
  | zero => intros; unfold createDir; exact (ioSafe_propagates (IoSafe.fail _)).toX
  | succ k ih =>
    intro d path; unfold createDir
    refine PropagatesX.bind (ioSafe_propagates IoSafe.progGetFs).toX (fun fs => ?_)
    split
    rename_i name rest _
    split
    · refine PropagatesX.bind (ioSafe_propagates (findEntry_ioSafe _ _ _ _)).toX (fun e => ?_)
      refine PropagatesX.bind (ioSafe_propagates (DirEntry.toDir_ioSafe _ _)).toX (fun sub => ?_)
      exact PropagatesX.finallyDrop (ih _ _) (fun _ => DirStream.dropBody_nonFatal _)
    · refine PropagatesX.bind (ioSafe_propagates (checkForExistence_ioSafe _ _ _ _)).toX (fun r => ?_)
      split
      · refine PropagatesX.bind (ioSafe_propagates (liftE_ioSafe _)).toX (fun _ => ?_)
        refine PropagatesX.bind (ioSafe_propagates (allocClusterFs_ioSafe _ _)).toX (fun cluster => ?_)
        refine PropagatesX.bind (ioSafe_propagates (createSfnEntry_ioSafe _ _ _)).toX (fun sfn => ?_)
        refine PropagatesX.attemptThen (ioSafe_propagates (writeEntry_ioSafe _ _ _)) ?_ ?_
        · intro r
          refine (ioSafe_propagates ?_).toX
          iosafe [freeClusterChain_ioSafe, DirEntry.toDir_ioSafe, createSfnEntry_ioSafe, writeEntry_ioSafe,
            DirStream.dropBody_nonFatal]
        · intro j d1 f h1 h2 r d' hr
          change run (Prog.bind (Prog.bind (freeClusterChain cluster) (fun _ => Prog.fail (.io j))) _) d1 = _ at hr
          simp only [run] at hr
          rcases hfree : run (freeClusterChain cluster) d1 with ⟨rf, d2⟩
          rw [hfree] at hr
          cases rf with
          | ok u => simp only at hr; cases hr; left; rfl
          | error e => simp only at hr; cases hr; right; exact ⟨e, rfl, cluster, d1, _, h1, h2, hfree⟩
      · exact (ioSafe_propagates (DirEntry.toDir_ioSafe _ _)).toX

end FatVerif
