import FatVerif.Proofs.IoSafeModel4
/-! C09, part 5: `createDir`, the one operation that re-raises a caught error only after a fallible roll-back of its
    own; and the tolerated outcomes of the whole API. -/
namespace FatVerif

/-- an error the roll-back `free_cluster_chain(cluster)` of `create_dir` returns when run after the fault `f` fired -/
def RollbackErr (f : Fault) (e : Err) : Prop :=
  ∃ (c : Nat) (d1 d2 : Dev), d1.failAt = none ∧ d1.fault = some f ∧ run (freeClusterChain c) d1 = (.error e, d2)

/-- what the API may return instead of `io k` after a fault `f` outside a destructor: the error of a failed
    `create_dir` roll-back, or the error of a failed `write_entry` roll-back (`EntryRollbackX`) — both run after the fault -/
def ApiX (f : Fault) (e : Err) : Prop := RollbackErr f e ∨ EntryRollbackX f e

theorem writeEntry_apiX (d : DirStream) (name : String) (raw : DirFileEntryData) :
    PropagatesX ApiX (writeEntry d name raw) := (writeEntry_propagatesX d name raw).mono (fun _ _ h => Or.inr h)

theorem createDir_propagatesX (env) : ∀ fuel d path, PropagatesX ApiX (createDir env fuel d path) := by
  intro fuel
  induction fuel with
  | zero => intros; unfold createDir; exact (ioSafe_propagates (IoSafe.fail _)).toX
  | succ k ih =>
    intro d path; unfold createDir
    refine PropagatesX.bind_ioSafe IoSafe.progGetFs (fun fs => ?_)
    split
    rename_i name rest _
    split
    · refine PropagatesX.bind_ioSafe (findEntry_ioSafe _ _ _ _) (fun e => ?_)
      refine PropagatesX.bind_ioSafe (DirEntry.toDir_ioSafe _ _) (fun sub => ?_)
      exact thenDrop_propagatesX _ (ih _ _)
    · refine PropagatesX.bind_ioSafe (checkForExistence_ioSafe _ _ _ _) (fun r => ?_)
      split
      · split
        · exact (ioSafe_propagates (IoSafe.fail _)).toX
        refine PropagatesX.bind_ioSafe (liftE_ioSafe _) (fun _ => ?_)
        refine PropagatesX.bind_ioSafe (allocClusterFs_ioSafe _ _) (fun cluster => ?_)
        refine PropagatesX.bind_ioSafe (createSfnEntry_ioSafe _ _ _) (fun sfn => ?_)
        refine PropagatesX.attemptThenX (writeEntry_apiX _ _ _) ?_ ?_ ?_
        · intro r
          refine PropagatesX.bind_ioSafe ?_ (fun entry => ?_)
          · iosafe [freeClusterChain_ioSafe]
          refine PropagatesX.bind_ioSafe (DirEntry.toDir_ioSafe _ _) (fun dir => ?_)
          refine PropagatesX.finallyDrop ?_ ?_
          · refine PropagatesX.bind_ioSafe (createSfnEntry_ioSafe _ _ _) (fun dot => ?_)
            refine PropagatesX.bind (writeEntry_apiX _ _ _) (fun _ => ?_)
            dsimp only
            refine PropagatesX.bind_ioSafe (createSfnEntry_ioSafe _ _ _) (fun dotdot => ?_)
            exact PropagatesX.bind (writeEntry_apiX _ _ _) (fun _ => (ioSafe_propagates (IoSafe.pure _)).toX)
          · intro o
            split
            · exact NonFatal.pure _
            · exact DirStream.dropBody_nonFatal _
        · intro j d1 f h1 h2 r d' hr
          change run (Prog.bind (Prog.bind (freeClusterChain cluster) (fun _ => Prog.fail (.io j))) _) d1 = _ at hr
          simp only [run] at hr
          rcases hfree : run (freeClusterChain cluster) d1 with ⟨rf, d2⟩
          rw [hfree] at hr
          cases rf with
          | ok u => simp only at hr; cases hr; left; rfl
          | error e => simp only at hr; cases hr; right; exact ⟨e, rfl, Or.inl ⟨cluster, d1, _, h1, h2, hfree⟩⟩
        · intro e d1 f hx h1 h2 r d' hr
          change run (Prog.bind (Prog.bind (freeClusterChain cluster) (fun _ => Prog.fail e)) _) d1 = _ at hr
          simp only [run] at hr
          rcases hfree : run (freeClusterChain cluster) d1 with ⟨rf, d2⟩
          rw [hfree] at hr
          cases rf with
          | ok u => simp only at hr; cases hr; exact ⟨e, rfl, hx⟩
          | error e' => simp only at hr; cases hr; exact ⟨e', rfl, Or.inl ⟨cluster, d1, _, h1, h2, hfree⟩⟩
      · exact (ioSafe_propagates (DirEntry.toDir_ioSafe _ _)).toX

end FatVerif
