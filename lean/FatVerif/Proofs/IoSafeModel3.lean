import FatVerif.Proofs.IoSafeModel2
import FatVerif.Model.DirOps
/-! C09, structural descent, part 3: `DirOps.lean`. -/
namespace FatVerif

namespace DirStream

theorem read_ioSafe (st : DirStream) (n : Nat) : IoSafe (st.read n) := by
  unfold read; iosafe [FileH.read_ioSafe, DiskSlice.read_ioSafe]

theorem write_ioSafe (st : DirStream) (bs : List Nat) : IoSafe (st.write bs) := by
  unfold write; iosafe [FileH.write_ioSafe, DiskSlice.write_ioSafe]

theorem seek_ioSafe (st : DirStream) (p : SeekFrom) : IoSafe (st.seek p) := by
  unfold seek; iosafe [FileH.seek_ioSafe, DiskSlice.seek_ioSafe]

theorem strm_safe : StrmSafe DirStream.strm := ⟨read_ioSafe, write_ioSafe, seek_ioSafe⟩

theorem absPos_ioSafe (fs) (st : DirStream) : IoSafe (st.absPos fs) := by
  unfold absPos; iosafe [FileH.absPos_ioSafe]

theorem dropBody_nonFatal (st : DirStream) : NonFatal st.dropBody := by
  unfold dropBody; split
  · exact FileH.dropBody_nonFatal _
  · exact NonFatal.pure _

theorem drop_ioSafe (st : DirStream) : IoSafe st.drop := inDrop_ioSafe st.dropBody_nonFatal

end DirStream

theorem liftE_ioSafe {α} (r : Except Err α) : IoSafe (liftE r) := by
  unfold liftE; iosafe

theorem withStream_ioSafe {α} (st0 : DirStream) {body : Prog (α × DirStream)} (hb : IoSafe body) :
    IoSafe (withStream st0 body) := by
  unfold withStream; iosafe [DirStream.dropBody_nonFatal]

theorem thenDrop_ioSafe {α} (st : DirStream) {body : Prog α} (hb : IoSafe body) : IoSafe (thenDrop st body) := by
  unfold thenDrop; iosafe [DirStream.dropBody_nonFatal]

theorem DirEntry.toFile_ioSafe (fs) (e : DirEntry) : IoSafe (e.toFile fs) := by
  unfold DirEntry.toFile; iosafe

theorem DirEntry.toDir_ioSafe (fs) (e : DirEntry) : IoSafe (e.toDir fs) := by
  unfold DirEntry.toDir; iosafe

/-- `DirEntryData::deserialize` catches `UnexpectedEof` only -/
theorem readSlot_ioSafe (st : DirStream) : IoSafe (readSlot st) := by
  unfold readSlot
  iosafe [readExact_ioSafe, readU8_ioSafe, readChunks_ioSafe, DirStream.strm_safe]

theorem writeSlot_ioSafe (st : DirStream) (e : DirEntryData) : IoSafe (writeSlot st e) := by
  unfold writeSlot; iosafe [writeChunks_ioSafe, DirStream.strm_safe]

theorem readDirEntryLoop_ioSafe (alloc skipVolume : Bool) :
    ∀ fuel st offset beginOff b, IoSafe (readDirEntryLoop alloc skipVolume fuel st offset beginOff b) := by
  intro fuel
  induction fuel with
  | zero => intros; unfold readDirEntryLoop; iosafe
  | succ k ih => intros; unfold readDirEntryLoop; iosafe [readSlot_ioSafe, DirStream.absPos_ioSafe]

theorem readDirEntry_ioSafe (skipVolume : Bool) (st : DirStream) : IoSafe (readDirEntry skipVolume st) := by
  unfold readDirEntry; iosafe [DirStream.seek_ioSafe, readDirEntryLoop_ioSafe]

theorem findEntryLoop_ioSafe (env name isDir) : ∀ fuel st gen, IoSafe (findEntryLoop env name isDir fuel st gen) := by
  intro fuel
  induction fuel with
  | zero => intros; unfold findEntryLoop; iosafe
  | succ k ih => intros; unfold findEntryLoop; iosafe [readDirEntry_ioSafe]

theorem findEntryG_ioSafe (env d name isDir gen) : IoSafe (findEntryG env d name isDir gen) := by
  unfold findEntryG; iosafe [withStream_ioSafe, findEntryLoop_ioSafe]

theorem findEntry_ioSafe (env d name isDir) : IoSafe (findEntry env d name isDir) := by
  unfold findEntry; iosafe [findEntryG_ioSafe]

theorem checkForExistenceLoop_ioSafe (env d name isDir) :
    ∀ fuel gen, IoSafe (checkForExistenceLoop env d name isDir fuel gen) := by
  intro fuel
  induction fuel with
  | zero => intros; unfold checkForExistenceLoop; iosafe
  | succ k ih => intros; unfold checkForExistenceLoop; iosafe [findEntryG_ioSafe]

theorem checkForExistence_ioSafe (env d name isDir) : IoSafe (checkForExistence env d name isDir) := by
  unfold checkForExistence; iosafe [checkForExistenceLoop_ioSafe]

theorem findFreeLoop_ioSafe (num) : ∀ fuel st firstFree numFree i, IoSafe (findFreeLoop num fuel st firstFree numFree i) := by
  intro fuel
  induction fuel with
  | zero => intros; unfold findFreeLoop; iosafe
  | succ k ih => intros; unfold findFreeLoop; iosafe [readSlot_ioSafe, DirStream.seek_ioSafe]

theorem findFreeEntries_ioSafe (d num) : IoSafe (findFreeEntries d num) := by
  unfold findFreeEntries; iosafe [findFreeLoop_ioSafe, DirStream.dropBody_nonFatal]

theorem createSfnEntry_ioSafe (sn attrs first) : IoSafe (createSfnEntry sn attrs first) := by
  unfold createSfnEntry; iosafe

/-- `writeSlotsKeep` returns a caught error as a value: a fault outside a destructor is either raised or carried -/
theorem writeSlotsKeep_via : ∀ slots st, PropagatesVia (fun r : Option Err × DirStream => r.1) (writeSlotsKeep slots st) := by
  intro slots
  induction slots with
  | nil => intro st; unfold writeSlotsKeep; exact PropagatesVia.pure _ _
  | cons e rest ih =>
    intro st
    unfold writeSlotsKeep
    refine PropagatesVia.bind (attempt_via (ioSafe_propagates (writeSlot_ioSafe st e))) ?_ ?_
    · intro b
      cases b with
      | ok st' => exact ih st'
      | error err => exact PropagatesVia.pure _ _
    · intro b j hb
      cases b with
      | ok st' => cases hb
      | error err =>
        simp only [exceptErr, Option.some.injEq] at hb
        subst hb
        intro d _ r d' hr
        cases hr; rfl

/-- `write_entry`: the error of a slot write is kept while the positioned clone is dropped, then re-raised -/
theorem writeEntry_ioSafe (d : DirStream) (name : String) (raw : DirFileEntryData) : IoSafe (writeEntry d name raw) := by
  unfold writeEntry
  split
  · exact IoSafe.fail _
  · refine IoSafe.bind _ _ IoSafe.progGetFs (fun fs => ?_)
    dsimp only
    refine IoSafe.bind _ _ (findFreeEntries_ioSafe _ _) (fun st0 => ?_)
    refine IoSafe.bind _ _ ?_ ?_
    · iosafe [DirStream.seek_ioSafe, DirStream.dropBody_nonFatal]
    · rintro ⟨startPos, st⟩
      dsimp only
      refine IoSafe.bindVia (fun r : Option Err × DirStream => r.1) _ _ (writeSlotsKeep_via _ _) ?_ ?_
      · iosafe [thenDrop_ioSafe, DirStream.seek_ioSafe, DirStream.absPos_ioSafe]
      · rintro ⟨err, st'⟩ j hb
        dsimp only at hb
        subst hb
        dsimp only
        exact Reraises.finallyDrop (Reraises.fail j) (fun _ => DirStream.dropBody_nonFatal _)

theorem deleteSlots_ioSafe : ∀ k st, IoSafe (deleteSlots k st) := by
  intro k
  induction k with
  | zero => intros; unfold deleteSlots; iosafe
  | succ k ih => intros; unfold deleteSlots; iosafe [readSlot_ioSafe, DirStream.seek_ioSafe, writeSlot_ioSafe]

theorem deleteEntry_ioSafe (d e) : IoSafe (deleteEntry d e) := by
  unfold deleteEntry; iosafe [withStream_ioSafe, DirStream.seek_ioSafe, deleteSlots_ioSafe]

/-! ### public operations -/

theorem openDir_ioSafe (env) : ∀ fuel d path, IoSafe (openDir env fuel d path) := by
  intro fuel
  induction fuel with
  | zero => intros; unfold openDir; iosafe
  | succ k ih =>
    intros; unfold openDir
    iosafe [findEntry_ioSafe, DirEntry.toDir_ioSafe, thenDrop_ioSafe]

theorem openFile_ioSafe (env) : ∀ fuel d path, IoSafe (openFile env fuel d path) := by
  intro fuel
  induction fuel with
  | zero => intros; unfold openFile; iosafe
  | succ k ih =>
    intros; unfold openFile
    iosafe [findEntry_ioSafe, DirEntry.toDir_ioSafe, DirEntry.toFile_ioSafe, thenDrop_ioSafe]

theorem createFile_ioSafe (env) : ∀ fuel d path, IoSafe (createFile env fuel d path) := by
  intro fuel
  induction fuel with
  | zero => intros; unfold createFile; iosafe
  | succ k ih =>
    intros; unfold createFile
    iosafe [findEntry_ioSafe, DirEntry.toDir_ioSafe, DirEntry.toFile_ioSafe, thenDrop_ioSafe,
      checkForExistence_ioSafe, createSfnEntry_ioSafe, writeEntry_ioSafe]

theorem isEmptyLoop_ioSafe : ∀ fuel st, IoSafe (isEmptyLoop fuel st) := by
  intro fuel
  induction fuel with
  | zero => intros; unfold isEmptyLoop; iosafe
  | succ k ih => intros; unfold isEmptyLoop; iosafe [readDirEntry_ioSafe]

theorem isEmpty_ioSafe (d) : IoSafe (isEmpty d) := by
  unfold isEmpty; iosafe [withStream_ioSafe, isEmptyLoop_ioSafe]

theorem remove_ioSafe (env) : ∀ fuel d path, IoSafe (remove env fuel d path) := by
  intro fuel
  induction fuel with
  | zero => intros; unfold remove; iosafe
  | succ k ih =>
    intros; unfold remove
    iosafe [findEntry_ioSafe, DirEntry.toDir_ioSafe, thenDrop_ioSafe, isEmpty_ioSafe, freeClusterChain_ioSafe,
      deleteEntry_ioSafe]

theorem renameInternal_ioSafe (env d srcName dst dstName) : IoSafe (renameInternal env d srcName dst dstName) := by
  unfold renameInternal
  iosafe [findEntry_ioSafe, liftE_ioSafe, checkForExistence_ioSafe, DirStream.seek_ioSafe, deleteSlots_ioSafe,
    DirStream.dropBody_nonFatal, thenDrop_ioSafe, writeEntry_ioSafe]

theorem rename_ioSafe (env) : ∀ fuel d srcPath dst dstPath, IoSafe (rename env fuel d srcPath dst dstPath) := by
  intro fuel
  induction fuel with
  | zero => intros; unfold rename; iosafe
  | succ k ih =>
    intros; unfold rename
    iosafe [findEntry_ioSafe, DirEntry.toDir_ioSafe, thenDrop_ioSafe, renameInternal_ioSafe]

theorem listLoop_ioSafe : ∀ fuel st acc, IoSafe (listLoop fuel st acc) := by
  intro fuel
  induction fuel with
  | zero => intros; unfold listLoop; iosafe
  | succ k ih => intros; unfold listLoop; iosafe [readDirEntry_ioSafe]

theorem listDir_ioSafe (d) : IoSafe (listDir d) := by
  unfold listDir; iosafe [withStream_ioSafe, listLoop_ioSafe]

theorem findVolumeLoop_ioSafe : ∀ fuel st, IoSafe (findVolumeLoop fuel st) := by
  intro fuel
  induction fuel with
  | zero => intros; unfold findVolumeLoop; iosafe
  | succ k ih => intros; unfold findVolumeLoop; iosafe [readDirEntry_ioSafe]

theorem findVolumeEntry_ioSafe (d) : IoSafe (findVolumeEntry d) := by
  unfold findVolumeEntry; iosafe [withStream_ioSafe, findVolumeLoop_ioSafe]

end FatVerif
