import FatVerif.Proofs.IoSafeModel2
import FatVerif.Model.DirOps
/-! C09, structural descent, part 3: `DirOps.lean`. -/
namespace FatVerif

namespace DirStream

theorem read_ioSafe (st : DirStream) (n : Nat) : IoSafe (st.read n) := by
  unfold read; iosafe [FileH.read_ioSafe, DiskSlice.read_ioSafe]

theorem write_ioSafe (st : DirStream) (bs : List Nat) : IoSafe (st.write bs) := by
  unfold write; iosafe [FileH.write_ioSafe, DiskSlice.write_ioSafe]

theorem seek_ioSafe (st : DirStream) (p : SeekFrom) : IoSafe (st.seek p) := by
  unfold seek; iosafe [FileH.seek_ioSafe, DiskSlice.seek_ioSafe]

theorem strm_safe : StrmSafe DirStream.strm := ⟨read_ioSafe, write_ioSafe, seek_ioSafe⟩

theorem absPos_ioSafe (fs) (st : DirStream) : IoSafe (st.absPos fs) := by
  unfold absPos; iosafe [FileH.absPos_ioSafe]

theorem dropBody_nonFatal (st : DirStream) : NonFatal st.dropBody := by
  unfold dropBody; split
  · exact FileH.dropBody_nonFatal _
  · exact NonFatal.pure _

theorem drop_ioSafe (st : DirStream) : IoSafe st.drop := inDrop_ioSafe st.dropBody_nonFatal

end DirStream

theorem liftE_ioSafe {α} (r : Except Err α) : IoSafe (liftE r) := by
  unfold liftE; iosafe

theorem withStream_ioSafe {α} (st0 : DirStream) {body : Prog (α × DirStream)} (hb : IoSafe body) :
    IoSafe (withStream st0 body) := by
  unfold withStream; iosafe [DirStream.dropBody_nonFatal]

theorem thenDrop_ioSafe {α} (st : DirStream) {body : Prog α} (hb : IoSafe body) : IoSafe (thenDrop st body) := by
  unfold thenDrop; iosafe [DirStream.dropBody_nonFatal]

theorem DirEntry.toFile_ioSafe (fs) (e : DirEntry) : IoSafe (e.toFile fs) := by
  unfold DirEntry.toFile; iosafe

theorem DirEntry.toDir_ioSafe (fs) (e : DirEntry) : IoSafe (e.toDir fs) := by
  unfold DirEntry.toDir; iosafe

/-- `DirEntryData::deserialize` catches `UnexpectedEof` only -/
theorem readSlot_ioSafe (st : DirStream) : IoSafe (readSlot st) := by
  unfold readSlot
  iosafe [readExact_ioSafe, readU8_ioSafe, readChunks_ioSafe, DirStream.strm_safe]

theorem writeSlot_ioSafe (st : DirStream) (e : DirEntryData) : IoSafe (writeSlot st e) := by
  unfold writeSlot; iosafe [writeChunks_ioSafe, DirStream.strm_safe]

theorem readDirEntryLoop_ioSafe (alloc skipVolume : Bool) :
    ∀ fuel st offset beginOff b, IoSafe (readDirEntryLoop alloc skipVolume fuel st offset beginOff b) := by
  intro fuel
  induction fuel with
  | zero => intros; unfold readDirEntryLoop; iosafe
  | succ k ih => intros; unfold readDirEntryLoop; iosafe [readSlot_ioSafe, DirStream.absPos_ioSafe]

theorem readDirEntry_ioSafe (skipVolume : Bool) (st : DirStream) : IoSafe (readDirEntry skipVolume st) := by
  unfold readDirEntry; iosafe [DirStream.seek_ioSafe, readDirEntryLoop_ioSafe]

theorem findEntryLoop_ioSafe (env name isDir) : ∀ fuel st gen, IoSafe (findEntryLoop env name isDir fuel st gen) := by
  intro fuel
  induction fuel with
  | zero => intros; unfold findEntryLoop; iosafe
  | succ k ih => intros; unfold findEntryLoop; iosafe [readDirEntry_ioSafe]

theorem findEntryG_ioSafe (env d name isDir gen) : IoSafe (findEntryG env d name isDir gen) := by
  unfold findEntryG; iosafe [withStream_ioSafe, findEntryLoop_ioSafe]

theorem findEntry_ioSafe (env d name isDir) : IoSafe (findEntry env d name isDir) := by
  unfold findEntry; iosafe [findEntryG_ioSafe]

theorem checkForExistenceLoop_ioSafe (env d name isDir) :
    ∀ fuel gen, IoSafe (checkForExistenceLoop env d name isDir fuel gen) := by
  intro fuel
  induction fuel with
  | zero => intros; unfold checkForExistenceLoop; iosafe
  | succ k ih => intros; unfold checkForExistenceLoop; iosafe [findEntryG_ioSafe]

theorem checkForExistence_ioSafe (env d name isDir) : IoSafe (checkForExistence env d name isDir) := by
  unfold checkForExistence; iosafe [checkForExistenceLoop_ioSafe]

theorem findFreeLoop_ioSafe (num) : ∀ fuel st firstFree numFree i, IoSafe (findFreeLoop num fuel st firstFree numFree i) := by
  intro fuel
  induction fuel with
  | zero => intros; unfold findFreeLoop; iosafe
  | succ k ih => intros; unfold findFreeLoop; iosafe [readSlot_ioSafe, DirStream.seek_ioSafe]

theorem findFreeEntries_ioSafe (d num) : IoSafe (findFreeEntries d num) := by
  unfold findFreeEntries; iosafe [findFreeLoop_ioSafe, DirStream.dropBody_nonFatal]

theorem createSfnEntry_ioSafe (sn attrs first) : IoSafe (createSfnEntry sn attrs first) := by
  unfold createSfnEntry; iosafe

/-- `writeSlotsKeep` returns a caught error as a value: a fault outside a destructor is either raised or carried -/
theorem writeSlotsKeep_via : ∀ slots st, PropagatesVia (fun r : Option Err × DirStream => r.1) (writeSlotsKeep slots st) := by
  intro slots
  induction slots with
  | nil => intro st; unfold writeSlotsKeep; exact PropagatesVia.pure _ _
  | cons e rest ih =>
    intro st
    unfold writeSlotsKeep
    refine PropagatesVia.bind (attempt_via (ioSafe_propagates (writeSlot_ioSafe st e))) ?_ ?_
    · intro b
      cases b with
      | ok st' => exact ih st'
      | error err => exact PropagatesVia.pure _ _
    · intro b j hb
      cases b with
      | ok st' => cases hb
      | error err =>
        simp only [exceptErr, Option.some.injEq] at hb
        subst hb
        intro d _ r d' hr
        cases hr; rfl

theorem freeWrittenLoop_ioSafe : ∀ k st pos endPos, IoSafe (freeWrittenLoop k st pos endPos) := by
  intro k
  induction k with
  | zero => intros; unfold freeWrittenLoop; iosafe
  | succ k ih => intros; unfold freeWrittenLoop; iosafe [DirStream.seek_ioSafe, writeAll_ioSafe, DirStream.strm_safe]

theorem freeWrittenEntries_ioSafe (st startPos) : IoSafe (freeWrittenEntries st startPos) := by
  unfold freeWrittenEntries; iosafe [DirStream.seek_ioSafe, freeWrittenLoop_ioSafe]

/-- the one outcome `write_entry` may substitute for `io k` after a fault `f` (fixes 7e7a6f2 + 68bd139:
    `free_written_entries(..)?; return Err(err)`): the fault hit a slot write, the schedule is spent, and the roll-back
    `free_written_entries` — run after the fault — itself ends in an error `e`, which is returned instead (same flavour as
    `RollbackErr` of `create_dir`) -/
def EntryRollbackX (f : Fault) (e : Err) : Prop :=
  ∃ (st : DirStream) (pos : Nat) (d1 d2 : Dev),
    d1.failAt = none ∧ d1.fault = some f ∧ run (freeWrittenEntries st pos) d1 = (.error e, d2)

/-- the error continuation of `write_entry` is pure `?`-propagation: roll back, drop the clone, re-raise -/
theorem entryRollback_ioSafe (st : DirStream) (startPos : Nat) (e : Err) :
    IoSafe (thenDrop st (Prog.bind (freeWrittenEntries st startPos) (fun _ => (Prog.fail e : Prog DirEntry)))) :=
  thenDrop_ioSafe st (IoSafe.bind _ _ (freeWrittenEntries_ioSafe st startPos) (fun _ => IoSafe.fail e))

/-- in particular a fault that fires INSIDE the roll-back (entered after a slot write failed for another reason) is
    reported: the swallowed-fault exception of the first version of the fix is gone -/
theorem entryRollback_propagates (st : DirStream) (startPos : Nat) (e : Err) :
    Propagates (thenDrop st (Prog.bind (freeWrittenEntries st startPos) (fun _ => (Prog.fail e : Prog DirEntry)))) :=
  ioSafe_propagates (entryRollback_ioSafe st startPos e)

theorem entryRollback_reraises (st : DirStream) (startPos j : Nat) (d : Dev) (f0 : Fault) (hfa : d.failAt = none)
    (hf : d.fault = some f0) {r d'}
    (hr : run (thenDrop st (Prog.bind (freeWrittenEntries st startPos)
      (fun _ => (Prog.fail (.io j) : Prog DirEntry)))) d = (r, d')) :
    resErr r = some (.io j) ∨ ∃ e, resErr r = some e ∧ EntryRollbackX f0 e := by
  unfold thenDrop at hr
  obtain ⟨rq, d1, hq, hres⟩ := resErr_finallyDrop (fun _ => DirStream.dropBody_nonFatal st) hr
  rw [hres]
  rcases run_bind_cases hq with ⟨b, d2, h1, h2⟩ | ⟨e', h1, he⟩
  · simp only [run] at h2; cases h2; left; rfl
  · subst he
    right
    exact ⟨e', rfl, st, startPos, d, d1, hfa, hf, h1⟩

/-- `write_entry`: the error of a slot write is kept while the slots written so far are rolled back and the positioned
    clone is dropped, then re-raised — `Propagates` up to `EntryRollbackX` -/
theorem writeEntry_propagatesX (d : DirStream) (name : String) (raw : DirFileEntryData) :
    PropagatesX EntryRollbackX (writeEntry d name raw) := by
  unfold writeEntry
  split
  · exact (ioSafe_propagates (IoSafe.fail _)).toX
  · refine PropagatesX.bind_ioSafe IoSafe.progGetFs (fun fs => ?_)
    dsimp only
    refine PropagatesX.bind_ioSafe (findFreeEntries_ioSafe _ _) (fun st0 => ?_)
    refine PropagatesX.bind_ioSafe ?_ ?_
    · iosafe [DirStream.seek_ioSafe, DirStream.dropBody_nonFatal]
    · rintro ⟨startPos, st⟩
      dsimp only
      refine PropagatesX.bindVia (f := fun r : Option Err × DirStream => r.1) (writeSlotsKeep_via _ _) ?_ ?_
      · rintro ⟨err, st'⟩
        dsimp only
        split
        · exact (entryRollback_propagates _ _ _).toX
        · refine (ioSafe_propagates ?_).toX
          iosafe [thenDrop_ioSafe, DirStream.seek_ioSafe, DirStream.absPos_ioSafe]
      · rintro ⟨err, st'⟩ j hb dv f0 hfa hf r d' hr
        dsimp only at hb
        subst hb
        exact entryRollback_reraises _ _ _ dv f0 hfa hf hr

theorem deleteSlots_ioSafe : ∀ k st, IoSafe (deleteSlots k st) := by
  intro k
  induction k with
  | zero => intros; unfold deleteSlots; iosafe
  | succ k ih => intros; unfold deleteSlots; iosafe [readSlot_ioSafe, DirStream.seek_ioSafe, writeSlot_ioSafe]

theorem deleteEntry_ioSafe (d e) : IoSafe (deleteEntry d e) := by
  unfold deleteEntry; iosafe [withStream_ioSafe, DirStream.seek_ioSafe, deleteSlots_ioSafe]

/-! ### public operations -/

theorem openDir_ioSafe (env) : ∀ fuel d path, IoSafe (openDir env fuel d path) := by
  intro fuel
  induction fuel with
  | zero => intros; unfold openDir; iosafe
  | succ k ih =>
    intros; unfold openDir
    iosafe [findEntry_ioSafe, DirEntry.toDir_ioSafe, thenDrop_ioSafe]

theorem openFile_ioSafe (env) : ∀ fuel d path, IoSafe (openFile env fuel d path) := by
  intro fuel
  induction fuel with
  | zero => intros; unfold openFile; iosafe
  | succ k ih =>
    intros; unfold openFile
    iosafe [findEntry_ioSafe, DirEntry.toDir_ioSafe, DirEntry.toFile_ioSafe, thenDrop_ioSafe]

theorem thenDrop_propagatesX {α} {X : Fault → Err → Prop} (st : DirStream) {body : Prog α} (hb : PropagatesX X body) :
    PropagatesX X (thenDrop st body) := by
  unfold thenDrop
  exact PropagatesX.finallyDrop hb (fun _ => DirStream.dropBody_nonFatal _)

/-- descent for `PropagatesX` goals: `IoSafe` parts are closed by `iosafe`, the listed `PropagatesX` lemmas (and local
    hypotheses) close the calls that are only `PropagatesX` -/
syntax "px_step" ("[" Lean.Parser.Tactic.SolveByElim.arg,* "]")? : tactic
macro_rules
  | `(tactic| px_step) => `(tactic| px_step [])
  | `(tactic| px_step [$ts,*]) => `(tactic| first
    | focus (refine (ioSafe_propagates ?_).toX; iosafe [$ts,*]; done)
    | apply_assumption (transparency := .reducible) (exfalso := false) (symm := false) only [*, $ts,*]
    | (with_reducible_and_instances apply PropagatesX.bind_ioSafe
       case hp => (iosafe [$ts,*]; done))
    | (with_reducible_and_instances apply PropagatesX.bind
       case hp => apply_assumption (transparency := .reducible) (exfalso := false) (symm := false) only [*, $ts,*])
    | dsimp only
    | split
    | with_reducible intro _)

syntax "px" ("[" Lean.Parser.Tactic.SolveByElim.arg,* "]")? : tactic
macro_rules
  | `(tactic| px) => `(tactic| repeat px_step [])
  | `(tactic| px [$ts,*]) => `(tactic| repeat px_step [$ts,*])

theorem createFile_propagatesX (env) : ∀ fuel d path, PropagatesX EntryRollbackX (createFile env fuel d path) := by
  intro fuel
  induction fuel with
  | zero => intros; unfold createFile; px
  | succ k ih =>
    intro d path; unfold createFile
    refine PropagatesX.bind_ioSafe IoSafe.progGetFs (fun fs => ?_)
    split
    split
    · refine PropagatesX.bind_ioSafe (findEntry_ioSafe _ _ _ _) (fun e => ?_)
      refine PropagatesX.bind_ioSafe (DirEntry.toDir_ioSafe _ _) (fun sub => ?_)
      exact thenDrop_propagatesX _ (ih _ _)
    · split
      · exact (ioSafe_propagates (IoSafe.fail _)).toX
      refine PropagatesX.bind_ioSafe (checkForExistence_ioSafe _ _ _ _) (fun r => ?_)
      split
      · refine PropagatesX.bind_ioSafe (createSfnEntry_ioSafe _ _ _) (fun sfn => ?_)
        refine PropagatesX.bind (writeEntry_propagatesX _ _ _) (fun e => ?_)
        exact (ioSafe_propagates (DirEntry.toFile_ioSafe _ _)).toX
      · exact (ioSafe_propagates (DirEntry.toFile_ioSafe _ _)).toX

theorem isEmptyLoop_ioSafe : ∀ fuel st, IoSafe (isEmptyLoop fuel st) := by
  intro fuel
  induction fuel with
  | zero => intros; unfold isEmptyLoop; iosafe
  | succ k ih => intros; unfold isEmptyLoop; iosafe [readDirEntry_ioSafe]

theorem isEmpty_ioSafe (d) : IoSafe (isEmpty d) := by
  unfold isEmpty; iosafe [withStream_ioSafe, isEmptyLoop_ioSafe]

theorem remove_ioSafe (env) : ∀ fuel d path, IoSafe (remove env fuel d path) := by
  intro fuel
  induction fuel with
  | zero => intros; unfold remove; iosafe
  | succ k ih =>
    intros; unfold remove
    iosafe [findEntry_ioSafe, DirEntry.toDir_ioSafe, thenDrop_ioSafe, isEmpty_ioSafe, freeClusterChain_ioSafe,
      deleteEntry_ioSafe]

theorem ancestorWalk_ioSafe (env target) : ∀ fuel anc depth, IoSafe (ancestorWalk env target fuel anc depth) := by
  intro fuel
  induction fuel with
  | zero => intros; unfold ancestorWalk; iosafe [thenDrop_ioSafe]
  | succ k ih =>
    intros; unfold ancestorWalk
    iosafe [thenDrop_ioSafe, DirStream.drop_ioSafe, openDir_ioSafe, DirStream.dropBody_nonFatal]

theorem ancestorWalkTop_ioSafe (env target dst) : IoSafe (ancestorWalkTop env target dst) := by
  unfold ancestorWalkTop; iosafe [ancestorWalk_ioSafe]

theorem renameInternal_propagatesX (env d srcName dst dstName) :
    PropagatesX EntryRollbackX (renameInternal env d srcName dst dstName) := by
  unfold renameInternal
  px [findEntry_ioSafe, liftE_ioSafe, ancestorWalkTop_ioSafe, checkForExistence_ioSafe, deleteEntry_ioSafe,
    DirEntry.toDir_ioSafe, thenDrop_ioSafe, writeChunks_ioSafe, devStrm_safe, writeEntry_propagatesX]

theorem rename_propagatesX (env) : ∀ fuel d srcPath dst dstPath,
    PropagatesX EntryRollbackX (rename env fuel d srcPath dst dstPath) := by
  intro fuel
  induction fuel with
  | zero => intros; unfold rename; px
  | succ k ih =>
    intros; unfold rename
    px [findEntry_ioSafe, DirEntry.toDir_ioSafe, thenDrop_ioSafe, thenDrop_propagatesX, renameInternal_propagatesX]

theorem listLoop_ioSafe : ∀ fuel st acc, IoSafe (listLoop fuel st acc) := by
  intro fuel
  induction fuel with
  | zero => intros; unfold listLoop; iosafe
  | succ k ih => intros; unfold listLoop; iosafe [readDirEntry_ioSafe]

theorem listDir_ioSafe (d) : IoSafe (listDir d) := by
  unfold listDir; iosafe [withStream_ioSafe, listLoop_ioSafe]

theorem findVolumeLoop_ioSafe : ∀ fuel st, IoSafe (findVolumeLoop fuel st) := by
  intro fuel
  induction fuel with
  | zero => intros; unfold findVolumeLoop; iosafe
  | succ k ih => intros; unfold findVolumeLoop; iosafe [readDirEntry_ioSafe]

theorem findVolumeEntry_ioSafe (d) : IoSafe (findVolumeEntry d) := by
  unfold findVolumeEntry; iosafe [withStream_ioSafe, findVolumeLoop_ioSafe]

end FatVerif
