import FatVerif.Proofs.DirWriteSim19
/-! Directory WRITES, part 20 (generic): `writeSlotsKeep` and `write_entry` ACROSS ONE GROWTH of the directory: the
    records that fit are written in the old configuration (`W`, `WG`), the next record is the growth slot (hypotheses
    `growF` / `growG`), the rest goes into the new configuration (`WG'`). -/
namespace FatVerif.DirSim
open FatVerif.FileSim DirEntryData

/-- strengthening the invariant of a write family by a predicate that its writes preserve -/
theorem WFam.strengthen {Inv : Dev → Prop} {F G : Nat → DirStream} {N : Nat} {src room : Nat → Nat}
    (W : WFam Inv F G N src room) (P : Dev → Prop)
    (hPw : ∀ d d' o bs, Inv d → P d → WritesTo d d' (src o) bs → Inv d' → o + bs.length ≤ 32 * N → P d') :
    WFam (fun d => Inv d ∧ P d) F G N src room :=
  ⟨fun d h => W.rd d h.1, fun d h o bs hne hroom hfit => by
    obtain ⟨d', h1, hw, hi⟩ := W.write d h.1 o bs hne hroom hfit
    exact ⟨d', h1, hw, hi, hPw d d' o bs h.1 h.2 hw hi hfit⟩,
   fun d h o ho hfit => W.seekBack d h.1 o ho hfit⟩

theorem InvOK.strengthen {Inv : Dev → Prop} (IO : InvOK Inv) (P : Dev → Prop)
    (hPv : ∀ d d1, P d → SameVol d d1 → P d1) : InvOK (fun d => Inv d ∧ P d) :=
  ⟨fun d h => IO.noFault d h.1, fun d h => IO.wf d h.1, fun d d1 h hv hc => ⟨IO.vol d d1 h.1 hv hc, hPv d d1 h.2 hv⟩⟩

/-- bytes behind the status byte, outside the region `Out` excludes (the FAT copies) and outside the slots are kept -/
def FrameOutF (N : Nat) (src : Nat → Nat) (OutFat : Nat → Prop) (d d' : Dev) : Prop :=
  ∀ q, 0x42 ≤ q → OutFat q → (∀ i, i < N → ¬ (src (32 * i) ≤ q ∧ q < src (32 * i) + 32)) →
    d'.img.getByte q = d.img.getByte q

theorem FrameOutF.trans {N : Nat} {src : Nat → Nat} {OutFat : Nat → Prop} {a b c : Dev} (h1 : FrameOutF N src OutFat a b)
    (h2 : FrameOutF N src OutFat b c) : FrameOutF N src OutFat a c :=
  fun q hq ho hn => (h2 q hq ho hn).trans (h1 q hq ho hn)

theorem FrameOutF.refl {N : Nat} {src : Nat → Nat} {OutFat : Nat → Prop} (d : Dev) : FrameOutF N src OutFat d d :=
  fun _ _ _ _ => rfl

/-- the frame of a write in the old configuration is a frame of the new one (the old slots are slots of the new) -/
theorem FrameOutG.toF {N N' : Nat} {src src' : Nat → Nat} {OutFat : Nat → Prop} {d d' : Dev} (h : FrameOutG N src d d')
    (hN : N ≤ N') (hsub : ∀ i, i < N → src' (32 * i) = src (32 * i)) : FrameOutF N' src' OutFat d d' :=
  fun q hq _ hn => h q hq (fun i hi => by rw [← hsub i hi]; exact hn i (by omega))

section generic
variable {Inv Inv' : Dev → Prop} {F G G' : Nat → DirStream} {N K : Nat} {src room src' room' : Nat → Nat}
  {OutFat : Nat → Prop}

/-- the shape of a growth-slot hypothesis for the stream family `X` -/
def GrowSlot (Inv Inv' : Dev → Prop) (X G' : Nat → DirStream) (N K : Nat) (src src' : Nat → Nat) (OutFat : Nat → Prop) :
    Prop :=
  ∀ d, Inv d → ∀ e : DirEntryData, e.serialize.length = 32 → (∀ b ∈ e.serialize, b < 256) →
    ∃ d', run (writeSlot (X (32 * N)) e) d = (.ok (G' (32 * N + 32)), d') ∧ VolStep d d' ∧ d'.fs.curDirty = true ∧
      Inv' d' ∧
      srcSlots d'.img src' (N + K) = srcSlots d.img src N ++ [e.serialize] ++ List.replicate (K - 1) DirSlots.zeroSlot ∧
      FrameOutF (N + K) src' OutFat d d'

theorem writeSlotsKeep_cons_ok {st st' : DirStream} {e : DirEntryData} {d d1 : Dev}
    (h : run (writeSlot st e) d = (.ok st', d1)) (rest : List DirEntryData) :
    run (writeSlotsKeep (e :: rest) st) d = run (writeSlotsKeep rest st') d1 := by
  conv => lhs; unfold writeSlotsKeep
  have ha : run (Prog.attempt (writeSlot st e)) d = (.ok (.ok st'), d1) := by rw [run_attempt, h]
  rw [run_bind_ok ha]

theorem writeSlotsKeep_append_ok : ∀ (l : List DirEntryData) (st st1 : DirStream) (d d1 : Dev) (rest : List DirEntryData),
    run (writeSlotsKeep l st) d = (.ok (none, st1), d1) →
    run (writeSlotsKeep (l ++ rest) st) d = run (writeSlotsKeep rest st1) d1 := by
  intro l
  induction l with
  | nil =>
    intro st st1 d d1 rest h
    have h' : run (Prog.pure ((none : Option Err), st)) d = (.ok (none, st1), d1) := h
    simp only [run] at h'
    injection h' with h1 h2
    injection h1 with h1
    injection h1 with _ h1
    subst h1; subst h2
    rfl
  | cons x xs ih =>
    intro st st1 d d1 rest h
    rcases hx : run (writeSlot st x) d with ⟨r, dd⟩
    cases r with
    | ok a =>
      rw [writeSlotsKeep_cons_ok hx] at h
      rw [List.cons_append, writeSlotsKeep_cons_ok hx]
      exact ih a st1 dd d1 rest h
    | error err =>
      exfalso
      unfold writeSlotsKeep at h
      have ha := run_attempt (writeSlot st x) d
      rw [hx] at ha
      simp only at ha
      by_cases hf : err.isFatal = true
      · rw [if_pos hf] at ha
        simp only [bind, run, ha] at h
        cases h
      · rw [if_neg hf] at ha
        rw [run_bind_ok ha] at h
        have h' : run (Prog.pure (some err, st)) dd = (.ok (none, st1), d1) := h
        simp only [run] at h'
        injection h' with h1 _
        injection h1 with h1
        injection h1 with h1 _
        cases h1

/-- **`writeSlotsKeep` across one growth** -/
theorem writeSlotsKeep_grow (IO : InvOK Inv) (IO' : InvOK Inv') (hg : SlotGeo N src) (hg' : SlotGeo (N + K) src')
    (W : WFam Inv F G N src room) (WG : WFam Inv G G N src room) (WG' : WFam Inv' G' G' (N + K) src' room')
    (hK : 0 < K) (hsub : ∀ i, i < N → src' (32 * i) = src (32 * i))
    (growF : GrowSlot Inv Inv' F G' N K src src' OutFat) (growG : GrowSlot Inv Inv' G G' N K src src' OutFat)
    (es1 : List DirEntryData) (e : DirEntryData) (es2 : List DirEntryData) (p : Nat) (hp : p + es1.length = N)
    (hes2 : es2.length + 1 ≤ K)
    (hes : ∀ x ∈ es1 ++ e :: es2, x.serialize.length = 32 ∧ ∀ b ∈ x.serialize, b < 256) (d : Dev) (hinv : Inv d) :
    ∃ d', run (writeSlotsKeep (es1 ++ e :: es2) (F (32 * p))) d =
        (.ok (none, G' (32 * (p + (es1 ++ e :: es2).length))), d') ∧
      VolStep d d' ∧ d'.fs.curDirty = true ∧ Inv' d' ∧
      srcSlots d'.img src' (N + K) =
        putK (srcSlots d.img src N ++ List.replicate K DirSlots.zeroSlot) p ((es1 ++ e :: es2).map DirEntryData.serialize) ∧
      FrameOutF (N + K) src' OutFat d d' := by
  have hesE := hes e (by simp)
  have hes1 : ∀ x ∈ es1, x.serialize.length = 32 ∧ ∀ b ∈ x.serialize, b < 256 := fun x hx => hes x (by simp [hx])
  have hes2' : ∀ x ∈ es2, x.serialize.length = 32 ∧ ∀ b ∈ x.serialize, b < 256 := fun x hx => hes x (by simp [hx])
  have hlenS : ∀ dd : Dev, (srcSlots dd.img src N).length = N := fun dd => srcSlots_length _ _ _
  have hfinlen : p + (es1 ++ e :: es2).length = N + 1 + es2.length := by
    rw [List.length_append, List.length_cons]; omega
  -- phase 1 and the growth slot: a device `d1`, a stream `X (32 * N)`, the growth result `d2`
  have phase12 : ∃ d1 d2, run (writeSlotsKeep (es1 ++ e :: es2) (F (32 * p))) d =
        run (writeSlotsKeep es2 (G' (32 * N + 32))) d2 ∧
      VolStep d d1 ∧ FrameOutF (N + K) src' OutFat d d1 ∧
      srcSlots d1.img src N ++ List.replicate K DirSlots.zeroSlot =
        putK (srcSlots d.img src N ++ List.replicate K DirSlots.zeroSlot) p (es1.map DirEntryData.serialize) ∧
      VolStep d1 d2 ∧ d2.fs.curDirty = true ∧ Inv' d2 ∧
      srcSlots d2.img src' (N + K) = srcSlots d1.img src N ++ [e.serialize] ++ List.replicate (K - 1) DirSlots.zeroSlot ∧
      FrameOutF (N + K) src' OutFat d1 d2 := by
    cases es1 with
    | nil =>
      simp only [List.length_nil, Nat.add_zero] at hp
      subst hp
      obtain ⟨d2, h2, hs2, hd2, hinv2, hsl2, hf2⟩ := growF d hinv e hesE.1 hesE.2
      exact ⟨d, d2, by rw [List.nil_append, writeSlotsKeep_cons_ok h2], VolStep.of_sameVol (SameVol.refl d),
        FrameOutF.refl d, by simp [putK], hs2, hd2, hinv2, hsl2, hf2⟩
    | cons e1 r1 =>
      have hN1 : p + (e1 :: r1).length ≤ N := by omega
      obtain ⟨d1, h1, hs1, hd1, hinv1, hsl1, hf1⟩ := W.writeSlotsKeep IO hg WG (e1 :: r1) (by simp) p d hinv hes1 hN1
      rw [hp] at h1
      obtain ⟨d2, h2, hs2, hd2, hinv2, hsl2, hf2⟩ := growG d1 hinv1 e hesE.1 hesE.2
      refine ⟨d1, d2, ?_, hs1, hf1.toF (by omega) hsub, ?_, hs2, hd2, hinv2, hsl2, hf2⟩
      · rw [writeSlotsKeep_append_ok _ _ _ _ _ (e :: es2) h1, writeSlotsKeep_cons_ok h2]
      · rw [hsl1, putK_left _ _ _ _ (by rw [hlenS, List.length_map]; exact hN1)]
  obtain ⟨d1, d2, hrun, hs01, hf01, hsl01, hs12, hd2, hinv2, hsl2, hf12⟩ := phase12
  obtain ⟨d3, h3, hs3, _, hk3, hinv3, hsl3, hfr3⟩ := WG'.writeSlotsKeep_closed IO' hg' es2 (N + 1) d2 hinv2 hes2' (by omega)
  refine ⟨d3, ?_, (hs01.trans hs12).trans hs3, hk3 hd2, hinv3, ?_, ?_⟩
  · rw [hrun, show 32 * N + 32 = 32 * (N + 1) by omega, h3, hfinlen]
  · rw [hsl3, hsl2]
    have hZ : srcSlots d1.img src N ++ [e.serialize] ++ List.replicate (K - 1) DirSlots.zeroSlot =
        (srcSlots d1.img src N ++ List.replicate K DirSlots.zeroSlot).set N e.serialize := by
      obtain ⟨k, rfl⟩ : ∃ k, K = k + 1 := ⟨K - 1, by omega⟩
      rw [List.set_append_right _ _ (by rw [hlenS]; exact Nat.le_refl _), hlenS, Nat.sub_self]
      simp [List.replicate_succ]
    rw [hZ, hsl01, List.map_append, List.map_cons, putK_append]
    simp only [List.length_map, putK]
    rw [hp]
  · exact (hf01.trans hf12).trans (fun q hq _ hn => hfr3 q hq hn)

/-- **`write_entry` across one growth of the directory**, for an ordinary valid name: the entry starts in the allocated
    space (or exactly at its end) and reaches into ONE new cluster. The slots of the grown directory afterwards are
    `DirSlots.writeEntry` of the old ones (the list grows) followed by the zero slots that remain in the new cluster -/
theorem writeEntry_grow {F' : Nat → DirStream} {Extra Extra' : Nat → Prop} {DropPost DropPost' : Img → Img → Prop}
    (IO : InvOK Inv) (IO' : InvOK Inv') (hg : SlotGeo N src) (hg' : SlotGeo (N + K) src')
    (W : WFam Inv F G N src room) (WG : WFam Inv G G N src room) (WG' : WFam Inv' G' G' (N + K) src' room')
    (hK : 0 < K) (hsub : ∀ i, i < N → src' (32 * i) = src (32 * i))
    (growF : GrowSlot Inv Inv' F G' N K src src' OutFat) (growG : GrowSlot Inv Inv' G G' N K src src' OutFat)
    (O : WOps Inv F G N src room Extra DropPost) (O' : WOps Inv' F' G' (N + K) src' room' Extra' DropPost')
    (name : String) (raw : DirFileEntryData)
    (hval : Names.validateLongName name = .ok ()) (hdot : (name = "." || name = "..") = false) (hraw : raw.WF)
    (d : Dev) (hinv : Inv d)
    (hgrow : N < DirSlots.findFree (srcSlots d.img src N) (Lfn.numParts (Names.encodeUtf16 name.toList).length + 1) +
      (Lfn.numParts (Names.encodeUtf16 name.toList).length + 1))
    (hfit : DirSlots.findFree (srcSlots d.img src N) (Lfn.numParts (Names.encodeUtf16 name.toList).length + 1) +
      (Lfn.numParts (Names.encodeUtf16 name.toList).length + 1) ≤ N + K) :
    ∃ d', run (FatVerif.writeEntry (F 0) name raw) d =
        (.ok { data := raw, lfn := Names.encodeUtf16 name.toList,
               entryPos := src' (32 * (DirSlots.findFree (srcSlots d.img src N)
                  (Lfn.numParts (Names.encodeUtf16 name.toList).length + 1) +
                  (Lfn.numParts (Names.encodeUtf16 name.toList).length + 1)) - 32) + 32 - 32,
               rangeBegin := 32 * DirSlots.findFree (srcSlots d.img src N)
                  (Lfn.numParts (Names.encodeUtf16 name.toList).length + 1),
               rangeEnd := 32 * (DirSlots.findFree (srcSlots d.img src N)
                  (Lfn.numParts (Names.encodeUtf16 name.toList).length + 1) +
                  (Lfn.numParts (Names.encodeUtf16 name.toList).length + 1)) }, d') ∧
      VolStep d d' ∧ d'.fs.curDirty = true ∧ Inv' d' ∧
      srcSlots d'.img src' (N + K) =
        DirSlots.writeEntry (srcSlots d.img src N) (Names.encodeUtf16 name.toList) raw.serialize ++
          List.replicate (N + K - (DirSlots.findFree (srcSlots d.img src N)
            (Lfn.numParts (Names.encodeUtf16 name.toList).length + 1) +
            (Lfn.numParts (Names.encodeUtf16 name.toList).length + 1))) DirSlots.zeroSlot ∧
      (∀ q, 0x42 ≤ q → OutFat q → (∀ i, i < N + K → ¬ (src' (32 * i) ≤ q ∧ q < src' (32 * i) + 32)) → ¬ Extra' q →
        d'.img.getByte q = d.img.getByte q) := by
  generalize hunits : Names.encodeUtf16 name.toList = units at hgrow hfit ⊢
  generalize hnum : Lfn.numParts units.length + 1 = num at hgrow hfit ⊢
  have hple : DirSlots.findFree (srcSlots d.img src N) num ≤ N := by
    have := findFreeLoop_le num (srcSlots d.img src N) 0 0 0 (Nat.le_refl _)
    rw [srcSlots_length, Nat.zero_add] at this
    exact this
  generalize hp : DirSlots.findFree (srcSlots d.img src N) num = p at hgrow hfit hple ⊢
  have hchk := lfnChecksum_lt raw.name
  have hslen : (lfnGenerate units (lfnChecksum raw.name)).length + 1 = num := by rw [lfnGenerate_length, hnum]
  have hseek : ∀ d1, SameVol d d1 → ∀ o t, o ≤ 32 * N → t ≤ 32 * N → Reads ((F o).seek (.start t)) d1 (t, F t) :=
    fun d1 hv o t ho ht => O.seekStartF d hinv d1 hv o t ho ht
  -- 1. find_free_entries, 2. position
  obtain ⟨d1, h1, hs1⟩ := (O.dsrc d hinv).findFreeEntries_sim hseek (O.fuel d hinv) num d (SameVol.refl d)
  rw [hp] at h1
  have hinv1 := IO.vol d d1 hinv hs1 (run_clock _ _ _ _ h1)
  obtain ⟨d2, h2, hs2⟩ := O.seekCurF d1 hinv1 (32 * p) (by omega)
  have hinv2 := IO.vol d1 d2 hinv1 hs2 (run_clock _ _ _ _ h2)
  -- 3. the records, split at the end of the allocated space
  generalize hes : (lfnGenerate units (lfnChecksum raw.name)).map deserialize ++ [DirEntryData.file raw] = es
  have hesok : ∀ e ∈ es, e.serialize.length = 32 ∧ ∀ b ∈ e.serialize, b < 256 := by
    intro e he
    rw [← hes] at he
    rcases List.mem_append.mp he with he | he
    · obtain ⟨sl, hsl, rfl⟩ := List.mem_map.mp he
      obtain ⟨h32, hlt, hrt⟩ := lfnGenerate_slot units _ hchk sl hsl
      rw [hrt]; exact ⟨h32, hlt⟩
    · simp only [List.mem_singleton] at he
      subst he
      exact ⟨DirFileEntryData.serialize_length raw hraw.name_len, DirFileEntryData.serialize_lt raw hraw⟩
  have heslen : es.length = num := by
    rw [← hes, List.length_append, List.length_map, List.length_singleton]; exact hslen
  have hidx : N - p < es.length := by rw [heslen]; omega
  have hsplit : es = es.take (N - p) ++ es[N - p] :: es.drop (N - p + 1) := by
    conv => lhs; rw [← List.take_append_drop (N - p) es]
    congr 1
    exact List.drop_eq_getElem_cons hidx
  obtain ⟨d3, h3, hs3, hd3, hinv3, hsl3, hfr3⟩ := writeSlotsKeep_grow IO IO' hg hg' W WG WG' hK hsub growF growG
    (es.take (N - p)) es[N - p] (es.drop (N - p + 1)) p (by rw [List.length_take]; omega)
    (by rw [List.length_drop]; omega) (by rw [← hsplit]; exact hesok) d2 hinv2
  rw [← hsplit] at h3 hsl3
  rw [heslen] at h3
  have hmap : es.map DirEntryData.serialize = DirSlots.entrySlots units raw.serialize := by
    have hm1 : (lfnGenerate units (lfnChecksum raw.name)).map (DirEntryData.serialize ∘ deserialize) =
        lfnGenerate units (lfnChecksum raw.name) :=
      (List.map_congr_left (f := DirEntryData.serialize ∘ deserialize) (g := id)
        (fun sl hsl => (lfnGenerate_slot units _ hchk sl hsl).2.2)).trans (List.map_id _)
    unfold DirSlots.entrySlots
    rw [← hes, List.map_append, List.map_map, sfnName_serialize raw hraw.name_len, hm1]
    rfl
  -- 4. the end position, 5. the destructor (new configuration)
  have hv12 := hs1.trans hs2
  have hstep13 : VolStep d d3 := (VolStep.of_sameVol hv12).trans hs3
  obtain ⟨d4, h4, hs4⟩ := O'.seekCurG d3 hinv3 (32 * (p + num)) (by omega)
  have hinv4 := IO'.vol d3 d4 hinv3 hs4 (run_clock _ _ _ _ h4)
  have hgeo4 : FsGeomEq d.fs d4.fs := by rw [hs4.fs]; exact hstep13.geom
  obtain ⟨d5, h5, hs5⟩ := O'.absPosG d4 hinv4 d.fs hgeo4 (32 * (p + num)) (by omega) (by omega) (by omega)
  have hinv5 := IO'.vol d4 d5 hinv4 hs5 (run_clock _ _ _ _ h5)
  have hinv5' : Inv' { d5 with dropDepth := d5.dropDepth + 1 } := IO'.vol _ _ hinv5 (sameVol_depth d5 _) rfl
  obtain ⟨d6, h6, hs6, hinv6, hk6, hb6, _⟩ := O'.dropG _ hinv5' (32 * (p + num)) (by omega)
  have hv35 : SameVol d3 d5 := hs4.trans hs5
  have hs36 : VolStep d3 { d6 with dropDepth := d6.dropDepth - 1 } :=
    (((VolStep.of_sameVol hv35).trans (VolStep.of_sameVol (sameVol_depth d5 _))).trans hs6).trans
      (VolStep.of_sameVol (sameVol_depth d6 _))
  have hslots6 : srcSlots d6.img src' (N + K) = srcSlots d3.img src' (N + K) := by
    rw [← hv35.img]
    exact srcSlots_congr (fun i hi x hx => hb6 _ (by have := hg'.behind i hi; omega) (O'.extra_out i hi x hx))
  have hlenS : (srcSlots d.img src N).length = N := srcSlots_length _ _ _
  refine ⟨{ d6 with dropDepth := d6.dropDepth - 1 }, ?_, hstep13.trans hs36,
    hk6 (by show d5.fs.curDirty = true; rw [hv35.fs]; exact hd3),
    IO'.vol _ _ hinv6 (sameVol_depth d6 _) rfl, ?_, ?_⟩
  · unfold FatVerif.writeEntry
    rw [hval]
    simp only [hunits, hdot, Bool.false_eq_true, if_false]
    rw [run_bind_ok (run_getFs d)]
    simp only [hslen]
    rw [run_bind_ok h1, run_bind_finallyDrop_noop h2 (fun _ => rfl)]
    simp only
    rw [hes, run_bind_ok h3]
    simp only [thenDrop]
    refine run_finallyDrop_ok ?_ h6
    rw [run_bind_ok h4]
    simp only
    rw [run_bind_ok h5]
    rfl
  · show srcSlots d6.img src' (N + K) = _
    rw [hslots6, hsl3, hv12.img, hmap]
    have hnl : (DirSlots.entrySlots units raw.serialize).length = num := by
      unfold DirSlots.entrySlots
      rw [List.length_append, List.length_singleton, sfnName_serialize raw hraw.name_len, hslen]
    rw [putK_grow _ K p _ (by rw [hlenS]; exact hple) (by rw [hlenS, hnl]; omega) (by rw [hlenS, hnl]; exact hfit), hlenS, hnl]
    unfold DirSlots.writeEntry
    rw [hnum, hp]
  · intro q hq ho hn he
    show d6.img.getByte q = _
    rw [hb6 q hq he]
    show d5.img.getByte q = _
    rw [hv35.img, hfr3 q hq ho hn, hv12.img]

end generic

end FatVerif.DirSim
