import FatVerif.Proofs.AFileInv
import FatVerif.Proofs.AFileByteFile
import FatVerif.Proofs.AFileRead
/-! ONE `File::write` call refines `ByteFile.write` with the documented short write. -/
namespace FatVerif.Cursor

theorem getElem?_map_range (g : Nat → Nat) (n p : Nat) :
    ((List.range n).map g)[p]? = if p < n then some (g p) else none := by
  by_cases h : p < n
  · simp [h]
  · simp [h]

/-- closes goals that `simp only` may or may not already have turned into `True` -/
local macro "triv" : tactic => `(tactic| first | rfl | trivial | assumption)

section
variable {σ : Type} {isFree : σ → Nat → Prop} {A : Allocator σ} {f : AFile} {s : σ}

theorem content_getElem? (f : AFile) (p : Nat) :
    f.content[p]? = if p < f.size then some (f.byteAt p) else none :=
  getElem?_map_range _ _ _

/-- the device write + bookkeeping of `File::write`, given the cluster of the cursor -/
theorem AFileInv.put_refines (h : AFileInv isFree f s) {c : Nat} (bs : List Nat)
    (hc : f.chain[f.offset / f.cs]? = some c) (hpos : 0 < bs.length)
    (hfit : bs.length ≤ f.cs - f.offset % f.cs) (hmax : f.offset + bs.length ≤ u32Max) :
    AFileInv isFree (f.put c bs) s ∧ (f.put c bs).abs = (f.abs.write bs).2 ∧ (f.put c bs).cs = f.cs := by
  have hcs := h.cs_pos
  have hoff := h.off_le
  have hdm := divmod_spec f.cs f.offset hcs
  have hq : f.offset / f.cs < f.chain.length := by
    rcases Nat.lt_or_ge (f.offset / f.cs) f.chain.length with hl | hl
    · exact hl
    · rw [List.getElem?_eq_none hl] at hc; cases hc
  have hsm : (f.offset / f.cs + 1) * f.cs = f.offset / f.cs * f.cs + f.cs := Nat.succ_mul _ _
  have hLc : (f.offset / f.cs + 1) * f.cs ≤ f.chain.length * f.cs := mul_le_of_le hq
  refine ⟨⟨hcs, h.nodup, h.first, ?_, ?_, ?_, ?_, h.live⟩, ?_, rfl⟩
  · show (if f.size < f.offset + bs.length then f.offset + bs.length else f.size) ≤ f.chain.length * f.cs
    have := h.cover
    split <;> omega
  · show f.offset + bs.length ≤ (if f.size < f.offset + bs.length then f.offset + bs.length else f.size)
    split <;> omega
  · show (if f.size < f.offset + bs.length then f.offset + bs.length else f.size) ≤ u32Max
    have := h.size_le
    split <;> omega
  · show some c = if f.offset + bs.length = 0 then none else f.chain[(f.offset + bs.length - 1) / f.cs]?
    rw [if_neg (by omega)]
    have : (f.offset + bs.length - 1) / f.cs = f.offset / f.cs :=
      div_eq_of_decomp hcs (j := f.offset % f.cs + bs.length - 1) (by omega) (by omega)
    rw [this, hc]
  · -- content
    simp only [AFile.abs, ByteFile.write]
    congr 1
    apply List.ext_getElem?
    intro p
    rw [content_getElem?]
    show (if p < (if f.size < f.offset + bs.length then f.offset + bs.length else f.size) then
        some (AFile.putBytes f.data c (f.offset % f.cs) bs.toArray (f.chain.getD (p / f.cs) 0) (p % f.cs)) else none) = _
    have hpd := divmod_spec f.cs p hcs
    simp only [List.getElem?_append, List.length_append, List.length_take, AFile.content_length,
      Nat.min_eq_left hoff, List.getElem?_take, List.getElem?_drop, content_getElem?]
    unfold AFile.putBytes
    simp only [List.size_toArray]
    by_cases h1 : p < f.offset
    · -- before the written range: another position of the file
      have hps : p < f.size := by omega
      have hne : ¬ (f.chain.getD (p / f.cs) 0 = c ∧ f.offset % f.cs ≤ p % f.cs ∧
          p % f.cs < f.offset % f.cs + bs.length) := by
        rintro ⟨e, h2, _⟩
        have hpi : p / f.cs < f.chain.length := h.index_lt hps
        have e' : f.chain[p / f.cs]? = some c := by
          rw [List.getD_eq_getElem?_getD, List.getElem?_eq_getElem hpi] at e
          rw [List.getElem?_eq_getElem hpi]; exact congrArg some e
        have := nodup_getElem?_inj h.nodup e' hc
        rw [this] at hpd
        omega
      have hlt : p < (if f.size < f.offset + bs.length then f.offset + bs.length else f.size) := by
        split <;> omega
      simp only [hlt, if_true, hne, if_false, h1, hps, Nat.lt_add_right bs.length h1]
      rfl
    · by_cases h2 : p < f.offset + bs.length
      · -- inside the written range
        have hd : p / f.cs = f.offset / f.cs :=
          div_eq_of_decomp hcs (j := f.offset % f.cs + (p - f.offset)) (by omega) (by omega)
        have hm : p % f.cs = f.offset % f.cs + (p - f.offset) :=
          mod_eq_of_decomp hcs (i := f.offset / f.cs) (by omega) (by omega)
        have hgc : f.chain.getD (p / f.cs) 0 = c := by
          rw [hd, List.getD_eq_getElem?_getD, hc]; rfl
        have hlt : p < (if f.size < f.offset + bs.length then f.offset + bs.length else f.size) := by
          split <;> omega
        have hin : f.offset % f.cs ≤ p % f.cs ∧ p % f.cs < f.offset % f.cs + bs.length := by omega
        have hidx : p % f.cs - f.offset % f.cs = p - f.offset := by omega
        have hb : p - f.offset < bs.length := by omega
        simp only [hlt, if_true, hgc, hin, and_self, h2, h1, if_false, hidx]
        simp [hb]
      · -- after the written range
        have hp3 : ¬ p < f.offset + bs.length := h2
        have hidx : f.offset + bs.length + (p - (f.offset + bs.length)) = p := by omega
        simp only [h1, h2, if_false, hidx]
        by_cases hps : p < f.size
        · have hlt : p < (if f.size < f.offset + bs.length then f.offset + bs.length else f.size) := by
            split <;> omega
          have hne : ¬ (f.chain.getD (p / f.cs) 0 = c ∧ f.offset % f.cs ≤ p % f.cs ∧
              p % f.cs < f.offset % f.cs + bs.length) := by
            rintro ⟨e, h3, h4⟩
            have hpi : p / f.cs < f.chain.length := h.index_lt hps
            have e' : f.chain[p / f.cs]? = some c := by
              rw [List.getD_eq_getElem?_getD, List.getElem?_eq_getElem hpi] at e
              rw [List.getElem?_eq_getElem hpi]; exact congrArg some e
            have := nodup_getElem?_inj h.nodup e' hc
            rw [this] at hpd
            omega
          simp only [hlt, if_true, hne, if_false, hps]
          rfl
        · have hlt : ¬ p < (if f.size < f.offset + bs.length then f.offset + bs.length else f.size) := by
            split <;> omega
          simp only [hlt, if_false, hps]

/-- what `alloc_cluster(current_cluster)` + `set_first_cluster` do to the chain when the cursor sits at the end of
    the last cluster: the new cluster is appended -/
theorem AFileInv.linkNew_post (h : AFileInv isFree f s) (c : Nat) (hend : f.offset = f.chain.length * f.cs) :
    (f.linkNew c).chain = f.chain ++ [c] ∧ (f.linkNew c).firstCluster = (f.chain ++ [c]).head? ∧
    (f.linkNew c).cs = f.cs ∧ (f.linkNew c).data = f.data ∧ (f.linkNew c).size = f.size ∧
    (f.linkNew c).offset = f.offset ∧ (f.linkNew c).current = f.current := by
  have hcs := h.cs_pos
  unfold AFile.linkNew
  cases hf : f.firstCluster with
  | none =>
    have hnil : f.chain = [] := by
      have hfi := h.first; rw [hf] at hfi
      cases hc : f.chain with
      | nil => rfl
      | cons a l => rw [hc] at hfi; simp at hfi
    simp [hnil]
  | some c0 =>
    have hne : f.chain ≠ [] := by
      intro e; have hfi := h.first; rw [hf, e] at hfi; simp at hfi
    have hL : 0 < f.chain.length := List.length_pos_iff.mpr hne
    have hpos : 0 < f.offset := by
      rw [hend]; exact Nat.mul_pos hL hcs
    have hm : f.offset % f.cs = 0 := by rw [hend]; exact Nat.mul_mod_left _ _
    have hq : f.offset / f.cs = f.chain.length := div_eq_of_decomp hcs (j := 0) (by omega) hcs
    have hp := pred_div_of_boundary hcs hpos hm
    have hlast : f.chain.getLast? = f.current := by
      rw [h.cur, if_neg (by omega), List.getLast?_eq_getElem?]
      congr 1; omega
    simp only [hlast, if_true]
    refine ⟨by triv, ?_, by triv, by triv, by triv, by triv, by triv⟩
    rw [← hf, h.first]
    cases hc : f.chain with
    | nil => exact absurd hc hne
    | cons a l => simp

theorem AFileInv.writeCluster_post (h : AFileInv isFree f s) (hA : AllocLaws A isFree) :
    (f.writeCluster A s = (.error .noSpace, f, s) ∧ f.offset % f.cs = 0 ∧ f.offset = f.size ∧
      A.alloc s = none) ∨
    ∃ c f1 s1, f.writeCluster A s = (.ok c, f1, s1) ∧ AFileInv isFree f1 s1 ∧
      f1.chain[f.offset / f.cs]? = some c ∧ f1.cs = f.cs ∧ f1.offset = f.offset ∧ f1.abs = f.abs := by
  have hcs := h.cs_pos
  have hoff := h.off_le
  have hdm := divmod_spec f.cs f.offset hcs
  have hrc := h.readCluster_eq
  unfold AFile.readCluster at hrc
  unfold AFile.writeCluster
  by_cases hm : f.offset % f.cs = 0
  · simp only [hm, if_true] at hrc ⊢
    cases hbc : f.chain[f.offset / f.cs]? with
    | some n =>
      right
      rw [hbc] at hrc
      exact ⟨n, f, s, by simp [hrc], h, hbc, rfl, rfl, rfl⟩
    | none =>
      rw [hbc] at hrc
      have hnone : f.readCluster = none := by unfold AFile.readCluster; simp [hm, hrc]
      obtain ⟨hsz, hend⟩ := h.readCluster_none hnone
      cases halloc : A.alloc s with
      | none => left; exact ⟨by simp [hrc], by triv, hsz, by triv⟩
      | some r =>
        obtain ⟨c, s'⟩ := r
        right
        obtain ⟨l1, l2, l3, l4, l5, l6, l7⟩ := h.linkNew_post c hend
        have hcn : c ∉ f.chain := fun hc => h.live c hc (hA.alloc_free halloc)
        have hq : f.offset / f.cs = f.chain.length := div_eq_of_decomp hcs (j := 0) (by omega) hcs
        refine ⟨c, f.linkNew c, s', by simp [hrc], ⟨?_, ?_, ?_, ?_, ?_, ?_, ?_, ?_⟩, ?_, l3, l6, ?_⟩
        · rw [l3]; exact hcs
        · rw [l1]
          refine List.nodup_append.mpr ⟨h.nodup, by simp, ?_⟩
          intro a ha b hb e
          simp at hb
          exact hcn (hb ▸ e ▸ ha)
        · rw [l2, l1]
        · rw [l5, l1, l3]
          have := h.cover
          have : (f.chain ++ [c]).length * f.cs = f.chain.length * f.cs + f.cs := by
            simp [Nat.succ_mul]
          omega
        · rw [l6, l5]; exact hoff
        · rw [l5]; exact h.size_le
        · rw [l7, l6, l3, l1, h.cur]
          by_cases h0 : f.offset = 0
          · simp [h0]
          · simp only [h0, if_false]
            have hidx : (f.offset - 1) / f.cs < f.chain.length := h.index_lt (by omega)
            rw [List.getElem?_append_left hidx]
        · intro d hd hfree
          rw [l1] at hd
          obtain ⟨hf1, hf2⟩ := hA.alloc_frame halloc hfree
          rcases List.mem_append.mp hd with hd | hd
          · exact h.live d hd hf1
          · simp at hd; exact hf2 hd
        · rw [l1, hq]; simp
        · -- content unchanged: bytes below `size` live in clusters of the old chain
          simp only [AFile.abs, l6]
          congr 1
          unfold AFile.content
          rw [l5]
          apply List.map_congr_left
          intro p hp
          have hp' : p < f.size := List.mem_range.mp hp
          have hpi : p / f.cs < f.chain.length := h.index_lt hp'
          unfold AFile.byteAt
          rw [l1, l3, l4]
          simp only [List.getD_eq_getElem?_getD, List.getElem?_append_left hpi]
  · simp only [hm, if_false] at hrc ⊢
    have hq : f.offset / f.cs < f.chain.length := by
      rcases Nat.lt_or_ge (f.offset / f.cs) f.chain.length with hl | hl
      · exact hl
      · have := mul_le_of_le (cs := f.cs) hl
        have := h.cover
        omega
    right
    refine ⟨f.chain[f.offset / f.cs], f, s, ?_, h, List.getElem?_eq_getElem hq, rfl, rfl, rfl⟩
    rw [hrc, List.getElem?_eq_getElem hq]

/-- `writeLen` is the short-write length of the specification -/
theorem writeLen_eq_shortWrite (f : AFile) (n : Nat) : f.writeLen n = f.abs.shortWrite f.cs n := by
  simp [AFile.writeLen, ByteFile.shortWrite]

/-- refinement of ONE write call: either `NotEnoughSpace` with the state untouched (only possible on a cluster
    boundary at the end of the file), or the documented short write -/
theorem AFileInv.write_refines (h : AFileInv isFree f s) (hA : AllocLaws A isFree) (bs : List Nat) :
    (f.write A s bs = (.error .noSpace, f, s) ∧ f.offset % f.cs = 0 ∧ f.offset = f.size ∧ A.alloc s = none ∧
      ByteFile.check f.cs (.write bs) (.err .noSpace) f.abs = .ok f.abs) ∨
    ((f.write A s bs).1 = .ok (f.writeLen bs.length) ∧
      AFileInv isFree (f.write A s bs).2.1 (f.write A s bs).2.2 ∧
      (f.write A s bs).2.1.cs = f.cs ∧
      (f.write A s bs).2.1.abs = (f.abs.write (bs.take (f.writeLen bs.length))).2 ∧
      ByteFile.check f.cs (.write bs) (.count (f.writeLen bs.length)) f.abs = .ok (f.write A s bs).2.1.abs) := by
  have hcs := h.cs_pos
  have hoff := h.off_le
  have hdm := divmod_spec f.cs f.offset hcs
  have hchk : ∀ g : AFile, g.abs = (f.abs.write (bs.take (f.writeLen bs.length))).2 →
      ByteFile.check f.cs (.write bs) (.count (f.writeLen bs.length)) f.abs = .ok g.abs := by
    intro g hg
    simp only [ByteFile.check, writeLen_eq_shortWrite, if_true]
    rw [hg, writeLen_eq_shortWrite]
  unfold AFile.write
  by_cases hw : f.writeLen bs.length = 0
  · right
    simp only [hw, if_true]
    have habs : f.abs = (f.abs.write (bs.take 0)).2 := by simp [ByteFile.write_nil]
    refine ⟨by triv, h, by triv, habs, ?_⟩
    have := hchk f (by rw [hw]; exact habs)
    rw [hw] at this; exact this
  · simp only [hw, if_false]
    rcases h.writeCluster_post hA with ⟨he, hm, hsz, hal⟩ | ⟨c, f1, s1, he, h1, hc, hcs1, ho1, ha1⟩
    · left
      rw [he]
      refine ⟨rfl, hm, hsz, hal, ?_⟩
      have : 0 < f.abs.shortWrite f.cs bs.length := by
        rw [← writeLen_eq_shortWrite]; exact Nat.pos_of_ne_zero hw
      have hm' : f.size % f.cs = 0 := hsz ▸ hm
      simp [ByteFile.check, hm', hsz, this]
    · right
      rw [he]
      simp only
      have hwl : f.writeLen bs.length ≤ bs.length ∧ f.writeLen bs.length ≤ f.cs - f.offset % f.cs ∧
          f.writeLen bs.length ≤ u32Max - f.offset := by unfold AFile.writeLen; omega
      have hlen : (bs.take (f.writeLen bs.length)).length = f.writeLen bs.length := by
        rw [List.length_take]; omega
      have hc1 : f1.chain[f1.offset / f1.cs]? = some c := by rw [ho1, hcs1]; exact hc
      obtain ⟨hi, hab, hcs2⟩ := h1.put_refines (bs.take (f.writeLen bs.length)) hc1
        (by rw [hlen]; exact Nat.pos_of_ne_zero hw) (by rw [hlen, ho1, hcs1]; exact hwl.2.1)
        (by rw [hlen, ho1]; have := h.size_le; omega)
      rw [ha1] at hab
      exact ⟨by triv, hi, hcs2.trans hcs1, hab, hchk _ hab⟩

end
end FatVerif.Cursor
