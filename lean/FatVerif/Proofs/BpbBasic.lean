import FatVerif.Model.Bpb
import FatVerif.Spec.Geometry
/-! Basic lemmas for the boot-sector model: the `Except` monad, checked arithmetic, powers of two, byte ranges,
field projections of `deserialize`. -/
namespace FatVerif

/-! ### `Except` -/
section
variable {ε α β : Type}

@[simp] theorem ebind_ok (a : α) (f : α → Except ε β) : (Except.ok a >>= f) = f a := rfl
@[simp] theorem ebind_error (e : ε) (f : α → Except ε β) : ((Except.error e : Except ε α) >>= f) = .error e := rfl
@[simp] theorem epure_eq (a : α) : (pure a : Except ε α) = .ok a := rfl

theorem ebind_eq_ok {x : Except ε α} {f : α → Except ε β} {b : β} :
    (x >>= f) = .ok b ↔ ∃ a, x = .ok a ∧ f a = .ok b := by
  cases x <;> simp

theorem ebind_eq_error {x : Except ε α} {f : α → Except ε β} {e : ε} :
    (x >>= f) = .error e ↔ x = .error e ∨ ∃ a, x = .ok a ∧ f a = .error e := by
  cases x <;> simp
end

/-! ### checked arithmetic -/

theorem u32Add_ok {a b c : Nat} : u32Add a b = .ok c ↔ a + b < 4294967296 ∧ c = a + b := by
  unfold u32Add; split <;> simp_all <;> omega
theorem u32Sub_ok {a b c : Nat} : u32Sub a b = .ok c ↔ b ≤ a ∧ c = a - b := by
  unfold u32Sub; split <;> simp_all <;> omega
theorem u32Mul_ok {a b c : Nat} : u32Mul a b = .ok c ↔ a * b < 4294967296 ∧ c = a * b := by
  unfold u32Mul; split <;> simp_all <;> omega
theorem u32Div_ok {a b c : Nat} : u32Div a b = .ok c ↔ b ≠ 0 ∧ c = a / b := by
  unfold u32Div; split <;> simp_all <;> omega
theorem u32Rem_ok {a b c : Nat} : u32Rem a b = .ok c ↔ b ≠ 0 ∧ c = a % b := by
  unfold u32Rem; split <;> simp_all <;> omega
theorem u64Mul_ok {a b c : Nat} : u64Mul a b = .ok c ↔ a * b < 18446744073709551616 ∧ c = a * b := by
  unfold u64Mul; split <;> simp_all <;> omega

theorem u32Add_of_lt {a b : Nat} (h : a + b < 4294967296) : u32Add a b = .ok (a + b) := by simp [u32Add, h]
theorem u32Sub_of_le {a b : Nat} (h : b ≤ a) : u32Sub a b = .ok (a - b) := by simp [u32Sub, h]
theorem u32Mul_of_lt {a b : Nat} (h : a * b < 4294967296) : u32Mul a b = .ok (a * b) := by simp [u32Mul, h]
theorem u32Div_of_ne {a b : Nat} (h : b ≠ 0) : u32Div a b = .ok (a / b) := by simp [u32Div, h]
theorem u32Rem_of_ne {a b : Nat} (h : b ≠ 0) : u32Rem a b = .ok (a % b) := by simp [u32Rem, h]
theorem u64Mul_of_lt {a b : Nat} (h : a * b < 18446744073709551616) : u64Mul a b = .ok (a * b) := by
  simp [u64Mul, h]

theorem u64Add_of_lt {a b : Nat} (h : a + b < 18446744073709551616) : u64Add a b = .ok (a + b) := by
  simp [u64Add, h]
theorem u64Div_of_ne {a b : Nat} (h : b ≠ 0) : u64Div a b = .ok (a / b) := by simp [u64Div, h]

theorem u32Add_error {a b : Nat} {e : Err} : u32Add a b = .error e → e = .panic ∧ 4294967296 ≤ a + b := by
  unfold u32Add; split <;> simp_all <;> omega
theorem u32Mul_error {a b : Nat} {e : Err} : u32Mul a b = .error e → e = .panic ∧ 4294967296 ≤ a * b := by
  unfold u32Mul; split <;> simp_all <;> omega

/-! ### powers of two -/

theorem isPowerOfTwo_u8 {n : Nat} (h : isPowerOfTwo n = true) (hn : n < 256) :
    n = 1 ∨ n = 2 ∨ n = 4 ∨ n = 8 ∨ n = 16 ∨ n = 32 ∨ n = 64 ∨ n = 128 := by
  simp [isPowerOfTwo, pow2s] at h
  omega

theorem isPowerOfTwo_sector {n : Nat} (h : isPowerOfTwo n = true) (h1 : 512 ≤ n) (h2 : n ≤ 4096) :
    n = 512 ∨ n = 1024 ∨ n = 2048 ∨ n = 4096 := by
  simp [isPowerOfTwo, pow2s] at h
  omega

/-! ### bytes -/

theorem getD_lt_256 {b : List Nat} (hb : ∀ x ∈ b, x < 256) (i : Nat) : b.getD i 0 < 256 := by
  rw [List.getD_eq_getElem?_getD]
  cases h : b[i]? with
  | none => simp
  | some x => simp; exact hb x (List.mem_of_getElem? h)

theorem u8At_lt {b : List Nat} (hb : IsSector b) (i : Nat) : u8At b i < 256 := getD_lt_256 hb.2 i

theorem u16At_lt {b : List Nat} (hb : IsSector b) (i : Nat) : u16At b i < 65536 := by
  have h0 := getD_lt_256 hb.2 i
  have h1 := getD_lt_256 hb.2 (i + 1)
  unfold u16At le16; omega

theorem u32At_lt {b : List Nat} (hb : IsSector b) (i : Nat) : u32At b i < 4294967296 := by
  have h0 := getD_lt_256 hb.2 i
  have h1 := getD_lt_256 hb.2 (i + 1)
  have h2 := getD_lt_256 hb.2 (i + 2)
  have h3 := getD_lt_256 hb.2 (i + 3)
  unfold u32At le32; omega

end FatVerif
