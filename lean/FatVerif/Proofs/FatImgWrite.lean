import FatVerif.Proofs.FatImgScan
/-! Writing the FAT through a `DiskSlice`: the effect of one entry update on the device image, as an
    order-independent fact (`FatWrite`): the entry bytes land at the same relative offset of every copy, the only other
    byte that may change is the status byte (`FsIoAdapter` marks the volume dirty around the first modifying write). -/
namespace FatVerif
open FatVerif.Fat

/-- effect on the image of writing `data` at relative offset `rel` of the FAT window `s0` (all its copies) -/
structure FatWrite (s0 : DiskSlice) (d d' : Dev) (rel : Nat) (data : List Nat) : Prop where
  wf : d'.img.WF
  size : d'.img.size = d.img.size
  geom : SameGeom d.fs d'.fs
  copies : ∀ i, i < s0.mirrors → ∀ x, x < s0.size →
    d'.img.getByte (s0.beginOff + i * s0.size + x) =
      if rel ≤ x ∧ x < rel + data.length then data.getD (x - rel) 0 % 256
      else d.img.getByte (s0.beginOff + i * s0.size + x)
  outside : ∀ q, ¬ (s0.beginOff ≤ q ∧ q < s0.beginOff + s0.mirrors * s0.size) → q ≠ statusOff d.fs →
    d'.img.getByte q = d.img.getByte q

/-- the only place that depends on the ORDER of the records of a mirrored write: the bytes after replaying them
    (records newest first: copies 1…k, then copy 0, the status record `st` being the OLDEST) -/
theorem replay_setItems (B Z rel k : Nat) (data : List Nat) (hfit : rel + data.length ≤ Z) (st : List LogItem)
    (so : Nat) (hso : so + 1 ≤ B) (hst : ∀ off bs, LogItem.write off bs ∈ st → off = so ∧ bs.length = 1)
    (g : Nat → Nat) :
    (∀ i, i < k + 1 → ∀ x, x < Z →
      replay g (mirrorLog (B + rel) Z data k 1 ++ (.write (B + rel) data :: st)) (B + i * Z + x) =
        if rel ≤ x ∧ x < rel + data.length then data.getD (x - rel) 0 else g (B + i * Z + x)) ∧
    (∀ q, ¬ (B ≤ q ∧ q < B + (k + 1) * Z) → q ≠ so →
      replay g (mirrorLog (B + rel) Z data k 1 ++ (.write (B + rel) data :: st)) q = g q) := by
  have hstq : ∀ (h : Nat → Nat) q, q ≠ so → replay h st q = h q := by
    intro h q hq
    apply replay_outside
    intro off bs hm
    obtain ⟨rfl, hl⟩ := hst off bs hm
    omega
  constructor
  · intro i hi x hx
    rw [replay_append, replay_mirrorLog B Z rel data hfit _ 1 _ i x hx]
    have hq : B + i * Z + x ≠ so := by omega
    simp only [replay, applyRec]
    rw [hstq _ _ hq]
    have hc := cover_iff (B := B) (Z := Z) (rel := rel) (len := data.length) (j := 0) (i := i) hx hfit
    simp only [Nat.zero_mul, Nat.add_zero] at hc
    by_cases hin : rel ≤ x ∧ x < rel + data.length
    · rw [if_pos hin]
      by_cases h1 : 1 ≤ i ∧ i < 1 + k
      · rw [if_pos ⟨h1, hin⟩]
      · rw [if_neg (fun h => h1 h.1)]
        have hi0 : i = 0 := by omega
        rw [if_pos (hc.mpr ⟨hi0, hin⟩)]
        congr 1; subst hi0; omega
    · rw [if_neg hin, if_neg (fun h => hin h.2), if_neg (fun h => hin (hc.mp h).2)]
  · intro q hq hso'
    apply replay_outside
    intro off bs hm
    rcases List.mem_append.mp hm with hm | hm
    · obtain ⟨j, hj, hit⟩ := (mem_mirrorLog k 1 _).mp hm
      simp only [LogItem.write.injEq] at hit
      obtain ⟨rfl, rfl⟩ := hit
      have : (1 + j + 1) * Z ≤ (k + 1) * Z := Nat.mul_le_mul_right Z (by omega)
      rw [Nat.add_mul, Nat.one_mul] at this
      intro hcov
      apply hq
      constructor <;> omega
    · rcases List.mem_cons.mp hm with hm | hm
      · simp only [LogItem.write.injEq] at hm
        obtain ⟨rfl, rfl⟩ := hm
        have : Z ≤ (k + 1) * Z := by rw [Nat.add_mul, Nat.one_mul]; omega
        intro hcov
        apply hq
        constructor <;> omega
      · obtain ⟨rfl, hl⟩ := hst off bs hm
        omega

theorem statusExtra_mem (via : Bool) (fs : FsState) : ∀ off bs, LogItem.write off bs ∈ statusExtra via fs →
    off = statusOff fs ∧ bs.length = 1 := by
  intro off bs hm
  unfold statusExtra at hm
  split at hm
  · simp only [List.mem_singleton, statusWrite, LogItem.write.injEq] at hm
    obtain ⟨rfl, rfl⟩ := hm
    exact ⟨rfl, rfl⟩
  · cases hm

section window
variable {s0 : DiskSlice}

/-- seek to `rel`, then `write_all data`, successfully: a `FatWrite` -/
theorem seek_writeAll_fatWrite {s : DiskSlice} (hs : SliceInv s0 s) (hmir : 0 < s0.mirrors) (rel : Nat)
    (data : List Nat) (hne : data ≠ []) (d : Dev) (hw : d.img.WF)
    (hdev : s0.beginOff + s0.mirrors * s0.size ≤ d.img.size) (hstat : statusOff d.fs + 1 ≤ s0.beginOff)
    {s' : DiskSlice} {d' : Dev} (k : Nat × DiskSlice → Prog DiskSlice)
    (hk : ∀ t s1, k (t, s1) = writeAll DiskSlice.strm s1 data)
    (hr : run (Prog.bind (DiskSlice.strm.seek s (.start rel)) k) d = (.ok s', d')) :
    rel + data.length ≤ s0.size ∧ SliceInv s0 s' ∧ FatWrite s0 d d' rel data := by
  obtain ⟨⟨rel', data', k', _, hfit', hk', hfs, hwo⟩, hs'⟩ :=
    seek_writeAll_mirrored hs hmir rel data hne d d rfl rfl hdev k hk hr
  -- recover `rel`, `data` of the existential witness from the run itself
  rcases run_bind_cases hr with ⟨⟨t, s1⟩, d1, h1, h2⟩ | ⟨e, _, he⟩
  rotate_left
  · cases he
  rw [hk] at h2
  obtain ⟨hd1, hs1, hn, hi1⟩ := slice_seek_at hs rel d h1
  subst hd1
  have hwa := slice_writeAll_ok s1 data hne d1 hi1.le (by rw [hi1.mirrors]; exact hmir)
    (by rw [hi1.beginOff, hi1.mirrors, hi1.size]; exact hdev) h2
  obtain ⟨hfit, _, kk, hkk, hfs2, hlog⟩ := hwa
  have hoff1 : s1.offset = rel := by rw [hs1]
  rw [hi1.beginOff, hi1.size, hi1.viaFs, hoff1] at hlog
  rw [hi1.size, hoff1] at hfit
  rw [hi1.mirrors] at hkk
  have hseg : Seg d1 d' (mirrorLog (s0.beginOff + rel) s0.size data kk 1 ++
      (.write (s0.beginOff + rel) data :: statusExtra s0.viaFs d1.fs)) := by
    unfold Seg Dev.writesOf
    rw [hlog, writesOf_mirror _ _ _ _ _ _ (statusExtra_isWrite _ _)]
    simp
  obtain ⟨hwf', hbytes⟩ := img_after_seg h2 hw hseg
  obtain ⟨hcop, hout⟩ := replay_setItems s0.beginOff s0.size rel kk data hfit (statusExtra s0.viaFs d1.fs)
    (statusOff d1.fs) hstat (statusExtra_mem _ _) d1.img.getByte
  refine ⟨hfit, hs', ⟨hwf', run_img_size _ _ _ _ h2, by rw [hfs2, hi1.viaFs]; exact fsAfter_geom _ _, ?_, ?_⟩⟩
  · intro i hi x hx
    rw [hbytes, hcop i (by omega) x hx]
    split
    · rfl
    · exact Nat.mod_eq_of_lt (Img.getByte_lt _ _)
  · intro q hq hso
    rw [hbytes, hout q (by rw [← hkk]; exact hq) hso]
    exact Nat.mod_eq_of_lt (Img.getByte_lt _ _)

end window

theorem array_ext_rd (a b : Array Nat) (hs : a.size = b.size) (h : ∀ i, i < a.size → rd a i = rd b i) : a = b := by
  apply Array.ext hs
  intro i h1 h2
  have := h i h1
  unfold rd at this
  rw [Array.getD_eq_getD_getElem?, Array.getD_eq_getD_getElem?, Array.getElem?_eq_getElem h1,
    Array.getElem?_eq_getElem h2] at this
  simpa using this

/-- what may change besides the FAT entry bytes: nothing outside the FAT copies except the status byte; geometry,
    image size and well-formedness are kept -/
structure FatFrame (s0 : DiskSlice) (d d' : Dev) : Prop where
  wf : d'.img.WF
  size : d'.img.size = d.img.size
  geom : SameGeom d.fs d'.fs
  outside : ∀ q, ¬ (s0.beginOff ≤ q ∧ q < s0.beginOff + s0.mirrors * s0.size) → q ≠ statusOff d.fs →
    d'.img.getByte q = d.img.getByte q

theorem FatFrame.of_sameBytes {s0 : DiskSlice} {d d' : Dev} (h : SameBytes d d') : FatFrame s0 d d' :=
  ⟨h.2.2.1, h.2.2.2, by rw [h.2.1]; exact SameGeom.refl _, fun q _ _ => h.1 q⟩

theorem FatFrame.trans {s0 : DiskSlice} {a b c : Dev} (h1 : FatFrame s0 a b) (h2 : FatFrame s0 b c) : FatFrame s0 a c :=
  ⟨h2.wf, h2.size.trans h1.size, h1.geom.trans h2.geom, fun q hq hs => by
    rw [h2.outside q hq (by rw [statusOff_geom h1.geom]; exact hs), h1.outside q hq hs]⟩

theorem FatWrite.frame {s0 : DiskSlice} {d d' : Dev} {rel : Nat} {data : List Nat} (h : FatWrite s0 d d' rel data) :
    FatFrame s0 d d' := ⟨h.wf, h.size, h.geom, h.outside⟩

theorem FatWrite.of_sameBytes {s0 : DiskSlice} {d0 d d' : Dev} {rel : Nat} {data : List Nat} (hsb : SameBytes d0 d)
    (h : FatWrite s0 d d' rel data) : FatWrite s0 d0 d' rel data :=
  ⟨h.wf, h.size.trans hsb.2.2.2, by rw [← hsb.2.1]; exact h.geom,
   fun i hi x hx => by rw [h.copies i hi x hx, hsb.1],
   fun q hq hs => by rw [h.outside q hq (by rw [hsb.2.1]; exact hs), hsb.1]⟩

section window
variable {s0 : DiskSlice}
local notation "F[" d "]" => fatBytes s0.beginOff s0.size (Dev.img d)

theorem fatWrite_rd (hmir : 0 < s0.mirrors) {d d' : Dev} {rel : Nat} {data : List Nat}
    (h : FatWrite s0 d d' rel data) (x : Nat) :
    rd F[d'] x = if rel ≤ x ∧ x < rel + data.length ∧ x < s0.size then data.getD (x - rel) 0 % 256 else rd F[d] x := by
  rw [rd_fatBytes, rd_fatBytes]
  by_cases hx : x < s0.size
  · rw [if_pos hx, if_pos hx]
    have := h.copies 0 hmir x hx
    simp only [Nat.zero_mul, Nat.add_zero] at this
    rw [this]
    by_cases hin : rel ≤ x ∧ x < rel + data.length
    · rw [if_pos hin, if_pos ⟨hin.1, hin.2, hx⟩]
    · rw [if_neg hin, if_neg (fun h => hin ⟨h.1, h.2.1⟩)]
  · rw [if_neg hx, if_neg hx, if_neg (fun h => hx h.2.2)]

theorem fatWrite_bytes16 (hmir : 0 < s0.mirrors) {d d' : Dev} {rel v : Nat} (hfit : rel + 2 ≤ s0.size)
    (h : FatWrite s0 d d' rel (bytesLe16 v)) : F[d'] = wr16 F[d] rel v := by
  apply array_ext_rd
  · rw [size_wr16, fatBytes_size, fatBytes_size]
  · intro x _
    have hlen : (bytesLe16 v).length = 2 := rfl
    rw [fatWrite_rd hmir h, rd_wr16 _ _ _ _ (by rw [fatBytes_size]; exact hfit), hlen]
    by_cases h0 : x = rel
    · subst h0
      rw [if_pos ⟨Nat.le_refl _, by omega, by omega⟩, if_pos rfl, Nat.sub_self]
      show v % 256 % 256 = v % 256; omega
    · by_cases h1 : x = rel + 1
      · subst h1
        rw [if_pos ⟨by omega, by omega, by omega⟩, if_neg (by omega), if_pos rfl, show rel + 1 - rel = 1 by omega]
        show v / 256 % 256 % 256 = v / 256 % 256; omega
      · rw [if_neg (fun hh => by omega), if_neg h0, if_neg h1]

theorem fatWrite_bytes32 (hmir : 0 < s0.mirrors) {d d' : Dev} {rel v : Nat} (hfit : rel + 4 ≤ s0.size)
    (h : FatWrite s0 d d' rel (bytesLe32 v)) : F[d'] = wr32 F[d] rel v := by
  apply array_ext_rd
  · rw [size_wr32, fatBytes_size, fatBytes_size]
  · intro x _
    have hlen : (bytesLe32 v).length = 4 := rfl
    rw [fatWrite_rd hmir h, rd_wr32 _ _ _ _ (by rw [fatBytes_size]; exact hfit), hlen]
    by_cases h0 : x = rel
    · subst h0
      rw [if_pos ⟨Nat.le_refl _, by omega, by omega⟩, if_pos rfl, Nat.sub_self]
      show v % 256 % 256 = v % 256; omega
    · by_cases h1 : x = rel + 1
      · subst h1
        rw [if_pos ⟨by omega, by omega, by omega⟩, if_neg (by omega), if_pos rfl, show rel + 1 - rel = 1 by omega]
        show v / 256 % 256 % 256 = v / 256 % 256; omega
      · by_cases h2 : x = rel + 2
        · subst h2
          rw [if_pos ⟨by omega, by omega, by omega⟩, if_neg (by omega), if_neg (by omega), if_pos rfl,
            show rel + 2 - rel = 2 by omega]
          show v / 65536 % 256 % 256 = v / 65536 % 256; omega
        · by_cases h3 : x = rel + 3
          · subst h3
            rw [if_pos ⟨by omega, by omega, by omega⟩, if_neg (by omega), if_neg (by omega), if_neg (by omega),
              if_pos rfl, show rel + 3 - rel = 3 by omega]
            show v / 16777216 % 256 % 256 = v / 16777216 % 256; omega
          · rw [if_neg (fun hh => by omega), if_neg h0, if_neg h1, if_neg h2, if_neg h3]

/-- **`Table.set` at image level.** A successful `write_fat(c, v)` through the FAT slice of a device: the window's bytes
    afterwards are those the pure `Fat.set` computes from the bytes before; nothing outside the FAT copies changes
    except (possibly) the status byte. (All copies receive the same bytes: `fat_copies_equal_img`.) -/
theorem set_img (ft : FatType) {s : DiskSlice} (hs : SliceInv s0 s) (hmir : 0 < s0.mirrors) (c : Nat) (v : FatValue)
    (d : Dev) (hw : d.img.WF) (hdev : s0.beginOff + s0.mirrors * s0.size ≤ d.img.size)
    (hstat : statusOff d.fs + 1 ≤ s0.beginOff) (hZ : s0.size < u32Lim) {s' : DiskSlice} {d' : Dev}
    (hr : run (Table.set DiskSlice.strm ft s c v) d = (.ok s', d')) :
    Fat.set ft F[d] c v = .ok F[d'] ∧ SliceInv s0 s' ∧ FatFrame s0 d d' := by
  have hdev1 : s0.beginOff + s0.size ≤ d.img.size := by
    have : s0.size ≤ s0.mirrors * s0.size := Nat.le_mul_of_pos_left _ hmir
    omega
  have hsz := fatBytes_size s0.beginOff s0.size d.img
  cases ft with
  | fat16 =>
    unfold Table.set at hr
    dsimp only at hr
    obtain ⟨hfit, hs', hfw⟩ := seek_writeAll_fatWrite hs hmir (c * 2) (bytesLe16 (Table.rawOfValue .fat16 v % 65536))
      (by simp [bytesLe16]) d hw hdev hstat _ (fun _ _ => rfl) hr
    simp only [bytesLe16, List.length_cons, List.length_nil] at hfit
    refine ⟨?_, hs', hfw.frame⟩
    simp only [Fat.set, setRaw16, hsz]
    rw [if_neg (by omega), if_neg (by omega), fatWrite_bytes16 hmir (by omega) hfw, tableRawOfValue_eq]
  | fat12 =>
    unfold Table.set at hr
    dsimp only at hr
    rcases run_bind_cases hr with ⟨⟨t, s1⟩, d1, h1, h2⟩ | ⟨e, _, he⟩
    · obtain ⟨hd1, hs1, _, hi1⟩ := slice_seek_at hs _ d h1
      subst hd1
      dsimp only at h2
      rcases run_bind_cases h2 with ⟨⟨old, s2⟩, d2, h3, h4⟩ | ⟨e, _, he⟩
      · obtain ⟨a, b, _, hi2, f⟩ := slice_readU16_at hi1 d1 hw hdev1 h3
        rw [hs1] at a b
        dsimp only at a b h4
        obtain ⟨hfit, hs', hfw⟩ := seek_writeAll_fatWrite hi2 hmir (c + c / 2) (bytesLe16 _) (by simp [bytesLe16]) d2
          f.2.2.1 (by rw [f.2.2.2]; exact hdev) (by rw [f.2.1]; exact hstat) _ (fun _ _ => rfl) h4
        have hfw' := FatWrite.of_sameBytes f hfw
        refine ⟨?_, hs', hfw'.frame⟩
        simp only [Fat.set, setRaw12, hsz]
        rw [if_neg (by omega), if_neg (by omega), fatWrite_bytes16 hmir (by omega) hfw', ← b, tableRawOfValue_eq]
        rfl
      · cases he
    · cases he
  | fat32 =>
    unfold Table.set at hr
    dsimp only at hr
    rcases run_bind_cases hr with ⟨⟨old, s2⟩, d2, h3, h4⟩ | ⟨e, _, he⟩
    · obtain ⟨hg, hi2, f⟩ := getRaw_img .fat32 hs c d hw hdev1 hZ h3
      dsimp only at h4
      have hg' : getRaw32 F[d] c = .ok old := hg
      simp only [Fat.set, set32, hg']
      by_cases hsp : v = .free ∧ Table.isSpecial32 c = true
      · rw [if_pos hsp] at h4; simp only [run] at h4; cases h4
      · rw [if_neg hsp] at h4
        rw [if_neg (fun h => hsp ⟨h.1, (isSpecial32_iff c).mpr h.2⟩)]
        obtain ⟨hfit, hs', hfw⟩ := seek_writeAll_fatWrite hi2 hmir (c * 4) (bytesLe32 _) (by simp [bytesLe32]) d2
          f.2.2.1 (by rw [f.2.2.2]; exact hdev) (by rw [f.2.1]; exact hstat) _ (fun _ _ => rfl) h4
        simp only [bytesLe32, List.length_cons, List.length_nil] at hfit
        have hfw' := FatWrite.of_sameBytes f hfw
        refine ⟨?_, hs', hfw'.frame⟩
        simp only [setRaw32, hsz]
        rw [if_neg (by omega), if_neg (by omega), fatWrite_bytes32 hmir (by omega) hfw', tableRawOfValue_eq]
    · cases he

end window
end FatVerif
