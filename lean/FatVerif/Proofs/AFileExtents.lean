import FatVerif.Proofs.AFileInv
/-! `File::extents`: the cs-sized ranges of the chain, clipped to the size, concatenate to the content. -/
namespace FatVerif.Cursor

/-- bytes `[0, left)` of a file laid out on the clusters `l` -/
theorem extentsFrom_bytes (data : Nat → Nat → Nat) (cs : Nat) (hcs : 0 < cs) :
    ∀ (l : List Nat) (left : Nat), left ≤ l.length * cs →
      ((AFile.extentsFrom cs l left).flatMap fun e => (List.range e.2).map fun j => data e.1 (0 + j)) =
      (List.range left).map fun p => data (l.getD (p / cs) 0) (p % cs)
  | [], left, h => by
    have : left = 0 := by simpa using h
    subst this; simp [AFile.extentsFrom]
  | c :: r, left, h => by
    have hlen : left - min cs left ≤ r.length * cs := by
      have : (c :: r).length * cs = r.length * cs + cs := by simp [Nat.succ_mul]
      omega
    have ih := extentsFrom_bytes data cs hcs r (left - min cs left) hlen
    have hsplit : left = min cs left + (left - min cs left) := by omega
    simp only [AFile.extentsFrom, List.flatMap_cons, ih]
    conv => rhs; rw [hsplit, List.range_add, List.map_append, List.map_map]
    congr 1
    · apply List.map_congr_left
      intro j hj
      have hj' : j < min cs left := List.mem_range.mp hj
      have hjc : j < cs := by omega
      simp [Nat.div_eq_of_lt hjc, Nat.mod_eq_of_lt hjc]
    · apply List.map_congr_left
      intro j hj
      have hj' : j < left - min cs left := List.mem_range.mp hj
      have hm : min cs left = cs := by omega
      have hdm := divmod_spec cs j hcs
      have hd : (min cs left + j) / cs = j / cs + 1 :=
        div_eq_of_decomp hcs (j := j % cs) (by rw [hm, Nat.succ_mul]; omega) hdm.2
      have hmo : (min cs left + j) % cs = j % cs :=
        mod_eq_of_decomp hcs (i := j / cs + 1) (by rw [hm, Nat.succ_mul]; omega) hdm.2
      simp only [Function.comp, hd, hmo, List.getD_cons_succ]

section
variable {σ : Type} {isFree : σ → Nat → Prop} {f : AFile} {s : σ}

/-- concatenating the ranges `extents` reports yields the content -/
theorem AFileInv.extents_content (h : AFileInv isFree f s) :
    (f.extents.flatMap fun e => f.clusterBytes e.1 0 e.2) = f.content := by
  unfold AFile.extents
  cases hf : f.firstCluster with
  | none =>
    have hnil : f.chain = [] := by
      have hfi := h.first; rw [hf] at hfi
      cases hc : f.chain with
      | nil => rfl
      | cons a l => rw [hc] at hfi; simp at hfi
    have hcov := h.cover; rw [hnil] at hcov
    have : f.size = 0 := by simpa using hcov
    simp [AFile.content, this]
  | some c0 =>
    exact extentsFrom_bytes f.data f.cs h.cs_pos f.chain f.size h.cover

end
end FatVerif.Cursor
