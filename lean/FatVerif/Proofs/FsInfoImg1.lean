import FatVerif.Proofs.FileSimFatFree
import FatVerif.Proofs.FatImgOps
/-! C05 at image level, part 1: `stats` on a mounted volume returns the number of free entries of the image's FAT —
    from the cache (under `InfoOk`) or by the recount program (`countFree_img`) — and changes no byte. -/
namespace FatVerif.FsInfoImg
open FatVerif FatVerif.Fat FatVerif.FileSim

/-- the clipped table of agent-cursor's development (`tabView`) and `Fat.view` of the window bytes count the same -/
theorem countFreeV_tabView {fs : FsState} {sz : Nat} (g : Geo fs sz) (img : Img) :
    countFreeV (tabView fs img) fs.totalClusters =
      countFreeV (view fs.fatType (imgFatBytes fs img)) fs.totalClusters :=
  countFreeV_congr _ _ _ (fun i _ h2 => by rw [tabView_eq_view g img h2, fatArr_eq_imgFatBytes])

/-- hint bookkeeping kept along a session: `InfoOk` (hint ≥ 2, cached count exact) plus the upper bound on the hint -/
structure InfoOk2 (fs : FsState) (img : Img) : Prop where
  ok : InfoOk fs img
  hintLe : ∀ n, fs.fsInfo.next = some n → n ≤ fs.totalClusters + 2

theorem run_getFs_inv {d : Dev} {fs : FsState} {d0 : Dev} (h : run Prog.getFs d = (.ok fs, d0)) : fs = d.fs ∧ d0 = d := by
  simp only [Prog.getFs, run, stepOp] at h
  cases h; exact ⟨rfl, rfl⟩

/-- **`stats_img`** -/
theorem stats_img (d : Dev) (hwf : d.img.WF) (hg : Geo d.fs d.img.size) (hinfo : InfoOk d.fs d.img)
    {a b n : Nat} {d' : Dev} (hr : run stats d = (.ok (a, b, n), d')) :
    a = d.fs.clusterSize ∧ b = d.fs.totalClusters ∧
    n = countFreeV (tabView d.fs d.img) d.fs.totalClusters ∧
    d'.img = d.img ∧ d'.fs = { d.fs with fsInfo := d'.fs.fsInfo } ∧
    d'.fs.fsInfo.free = some n ∧ d'.fs.fsInfo.next = d.fs.fsInfo.next ∧
    (d.fs.fsInfo.free ≠ none → d'.fs = d.fs) ∧ (d.fs.fsInfo.free = none → d'.fs.fsInfo.dirty = true) ∧
    (d.failAt = none → d'.failAt = none) := by
  unfold stats at hr
  rcases run_bind_cases hr with ⟨fs, d0, h0, h1⟩ | ⟨e, _, he⟩
  rotate_left
  · cases he
  obtain ⟨rfl, rfl⟩ := run_getFs_inv h0
  rcases run_bind_cases h1 with ⟨free, d1, h2, h3⟩ | ⟨e, _, he⟩
  rotate_left
  · cases he
  have h3' : run (Prog.pure (d0.fs.clusterSize, d0.fs.totalClusters, free)) d1 = (.ok (a, b, n), d') := h3
  simp only [run] at h3'; cases h3'
  cases hfree : d0.fs.fsInfo.free with
  | some m =>
    rw [hfree] at h2
    have h2' : run (Prog.pure m) d0 = (.ok n, d') := h2
    simp only [run] at h2'; cases h2'
    exact ⟨rfl, rfl, hinfo.count n hfree, rfl, rfl, hfree, rfl, fun _ => rfl, fun h => (by cases h), id⟩
  | none =>
    rw [hfree] at h2
    dsimp only at h2
    rcases run_bind_cases h2 with ⟨⟨cnt, sl⟩, d2, h4, h5⟩ | ⟨e, _, he⟩
    rotate_left
    · cases he
    dsimp only at h5
    rcases run_bind_cases h5 with ⟨u, d3, h6, h7⟩ | ⟨e, _, he⟩
    rotate_left
    · cases he
    have h7' : run (Prog.pure cnt) d3 = (.ok n, d') := h7
    simp only [run] at h7'; cases h7'
    rw [FileSim.run_modifyFs] at h6
    cases h6
    -- the recount
    have hq := Table.countFree_quiet DiskSlice.strm DiskSlice.strm_quiet d0.fs.fatType (fatSliceOf d0.fs) d0.fs.totalClusters
    have hsw := noWriteOps_sound hq.noWriteOps d0 h4
    have hfs := quietOps_fs hq d0 h4
    have hfa := (run_facts _ d0 h4).spent
    have hdev := hg.fat_dev
    have hsmall := hg.small
    have htot : d0.fs.totalClusters + 2 < u32Lim := by
      cases hft : d0.fs.fatType <;> rw [hft] at hsmall <;> simp only [badMark, u32Lim] at * <;> omega
    obtain ⟨hcf, _⟩ := FatVerif.countFree_img (s0 := fatSliceOf d0.fs) d0.fs.fatType (SliceInv.self (by simp [fatSliceOf]; split <;> simp))
      d0.fs.totalClusters d0 hwf hdev htot h4
    have htab : TableOk d0.fs.fatType (imgFatBytes d0.fs d0.img) d0.fs.totalClusters := by
      have := hg.tableOk d0.img; rwa [fatArr_eq_imgFatBytes] at this
    have hcf' : Fat.countFree d0.fs.fatType (imgFatBytes d0.fs d0.img) d0.fs.totalClusters = .ok n := hcf
    rw [countFree_sim htab] at hcf'
    cases hcf'
    refine ⟨rfl, rfl, (countFreeV_tabView hg d0.img).symm, hsw.1, ?_, rfl, ?_, fun h => absurd rfl h, fun _ => rfl,
      fun h => (hfa h).1⟩
    · show ({ d2.fs with fsInfo := _ } : FsState) = _
      rw [hfs]
    · show ({ d2.fs.fsInfo with free := _, dirty := true } : FsInfoSt).next = _
      rw [hfs]

end FatVerif.FsInfoImg
