import FatVerif.Proofs.DirWriteSim43
/-! Directory WRITES, part 44: `create_dir(name)` when the parent, a SUB-DIRECTORY, is full and grows by one cluster
    (as part 42, with the parent's own entry `ed0` stamped and written back to the grandparent by the clones). -/
namespace FatVerif.DirSim
open FatVerif.FileSim FatVerif.Fat DirEntryData DirAlias

/-- every slot of a list of clusters lies inside one of them -/
theorem slot_in_cluster' (fs : FsState) (hcs : 0 < fs.clusterSize) (h32 : fs.clusterSize % 32 = 0) (chain : List Nat)
    (i : Nat) (hi : i < chain.length * (fs.clusterSize / 32)) :
    ∃ c ∈ chain, clusterOff fs c ≤ chainSrc fs chain (32 * i) ∧
      chainSrc fs chain (32 * i) + 32 ≤ clusterOff fs c + fs.clusterSize := by
  have hK : 32 * (fs.clusterSize / 32) = fs.clusterSize := by
    have := Nat.div_add_mod fs.clusterSize 32; omega
  have hT : 32 * i + 32 ≤ chain.length * fs.clusterSize := by
    have : 32 * (chain.length * (fs.clusterSize / 32)) = chain.length * fs.clusterSize := by
      rw [Nat.mul_left_comm, hK]
    omega
  have hlt : 32 * i / fs.clusterSize < chain.length := div_lt_of_lt_mul hcs (by omega)
  have hmod : 32 * i % fs.clusterSize + 32 ≤ fs.clusterSize := by
    have h1 : 32 * i % fs.clusterSize % 32 = 0 := by
      rw [Nat.mod_mod_of_dvd _ (Nat.dvd_of_mod_eq_zero h32)]; omega
    have := Nat.mod_lt (32 * i) hcs
    omega
  refine ⟨chain[32 * i / fs.clusterSize], List.getElem_mem hlt, ?_, ?_⟩
  · unfold chainSrc
    rw [List.getD_eq_getElem?_getD, List.getElem?_eq_getElem hlt]
    simp only [Option.getD]; omega
  · unfold chainSrc
    rw [List.getD_eq_getElem?_getD, List.getElem?_eq_getElem hlt]
    simp only [Option.getD]; omega

theorem createDir_sub_grow (d : Dev) (c0 : Nat) (ed0 : DirEntryEditor) (chain : List Nat)
    (C : ChainDir d (FileH.new (some c0) (some ed0)) c0 chain) (hwf : d.img.WF)
    (hdirattr : ed0.data.isDir = true) (hname : ed0.data.name.length = 11)
    (hepos : (fatSliceOf d.fs).beginOff + (fatSliceOf d.fs).mirrors * (fatSliceOf d.fs).size ≤ ed0.pos)
    (hein : ed0.pos + 32 ≤ d.img.size)
    (hfuel : chain.length * (d.fs.clusterSize / 32) < dirFuel d.fs) (hinfo : InfoOk d.fs d.img)
    (ha : d.fs.lfnAlloc = true) (hacc : d.fs.accDate = false) (hcs64 : 64 ≤ d.fs.clusterSize)
    (hu32 : (chain.length + 1) * d.fs.clusterSize < 4294967296)
    (hfuel' : (chain.length + 1) * (d.fs.clusterSize / 32) < dirFuel d.fs) (hfuelN : d.fs.clusterSize / 32 < dirFuel d.fs)
    (env : Env) (path name : String) (hsp : Names.splitPath path = (name, none))
    (hdot : (name = "." || name = "..") = false) (hval : Names.validateLongName name = .ok ()) (a : List Nat)
    (hchk : DirAlias.checkForExistenceL env.upper
      (srcSlots d.img (chainSrc d.fs chain) (chain.length * (d.fs.clusterSize / 32))) name (some true) 70000 = .ok (.alias a))
    (c : Nat) (hfind : allocFindV (tabView d.fs d.img) d.fs.fsInfo.next d.fs.totalClusters = some c)
    (last : Nat) (hlast : chain.getLast? = some last) (hlv : tabView d.fs d.img last ≠ .free)
    (c2 : Nat) (hfind2 : allocFindV (updV (tabView d.fs d.img) c .eoc) (some (hintAfter d.fs.totalClusters c))
      d.fs.totalClusters = some c2)
    (heout : ∀ x, 2 ≤ x → x < d.fs.totalClusters + 2 →
      ed0.pos + 32 ≤ clusterOff d.fs x ∨ clusterOff d.fs x + d.fs.clusterSize ≤ ed0.pos)
    (hgrow : chain.length * (d.fs.clusterSize / 32) <
      DirSlots.findFree (srcSlots d.img (chainSrc d.fs chain) (chain.length * (d.fs.clusterSize / 32)))
        (Lfn.numParts (Names.encodeUtf16 name.toList).length + 1) + (Lfn.numParts (Names.encodeUtf16 name.toList).length + 1))
    (hfit : DirSlots.findFree (srcSlots d.img (chainSrc d.fs chain) (chain.length * (d.fs.clusterSize / 32)))
        (Lfn.numParts (Names.encodeUtf16 name.toList).length + 1) + (Lfn.numParts (Names.encodeUtf16 name.toList).length + 1) ≤
      chain.length * (d.fs.clusterSize / 32) + d.fs.clusterSize / 32) (fuel : Nat) :
    ∃ (d' : Dev) (edN : DirEntryEditor),
      run (FatVerif.createDir env (fuel + 1) (.file (FileH.new (some c0) (some ed0))) path) d =
        (.ok (.file (FileH.new (some c) (some edN))), d') ∧
      edN.data = sfnAt d.fs d.clock a 16 (some c) ∧
      VolStep d d' ∧ d'.fs.curDirty = true ∧ SubInv d.fs ed0 c0 (chain ++ [c2]) d.clock d' ∧
      srcSlots d'.img (chainSrc d.fs (chain ++ [c2])) (chain.length * (d.fs.clusterSize / 32) + d.fs.clusterSize / 32) =
        DirSlots.writeEntry (srcSlots d.img (chainSrc d.fs chain) (chain.length * (d.fs.clusterSize / 32)))
          (Names.encodeUtf16 name.toList) (sfnWith a (16 :: sfnStamp d.fs d.clock (some c))) ++
        List.replicate (chain.length * (d.fs.clusterSize / 32) + d.fs.clusterSize / 32 -
          (DirSlots.findFree (srcSlots d.img (chainSrc d.fs chain) (chain.length * (d.fs.clusterSize / 32)))
            (Lfn.numParts (Names.encodeUtf16 name.toList).length + 1) +
            (Lfn.numParts (Names.encodeUtf16 name.toList).length + 1))) DirSlots.zeroSlot ∧
      tabView d'.fs d'.img = allocLinkV (updV (tabView d.fs d.img) c .eoc) (some last) c2 ∧
      srcSlots d'.img (chainSrc d.fs [c]) (d.fs.clusterSize / 32) =
        sfnWith (46 :: List.replicate 10 32) (16 :: sfnStamp d.fs d.clock (some c)) ::
        sfnWith (46 :: 46 :: List.replicate 9 32) (16 :: sfnStamp d.fs d.clock (some c0)) ::
        List.replicate (d.fs.clusterSize / 32 - 2) (List.replicate 32 0) ∧
      ChainDir d' (FileH.new (some c) (some edN)) c [c] := by
  generalize hn : Lfn.numParts (Names.encodeUtf16 name.toList).length + 1 = n at hgrow hfit ⊢
  have hn1 : 1 ≤ n := by omega
  generalize hN : chain.length * (d.fs.clusterSize / 32) = N at hchk hgrow hfit hfuel ⊢
  generalize hp : DirSlots.findFree (srcSlots d.img (chainSrc d.fs chain) N) n = p at hgrow hfit ⊢
  have hgeo := C.geo
  have hfa := C.failAt
  have hcs32 := C.cs32
  have hst42 := hgeo.status_lt
  have hfatdata := hgeo.fat_data
  have hms : (fatSliceOf d.fs).size ≤ (fatSliceOf d.fs).mirrors * (fatSliceOf d.fs).size :=
    Nat.le_mul_of_pos_left _ hgeo.mirrors_pos
  obtain ⟨hcan, hl11, _⟩ := C16dir.dir_alias_canon env.upper _ name (some true) 70000 a hchk
  obtain ⟨hc2', hct, hcf⟩ := allocFindV_some _ _ _ _ hinfo.hint hfind
  have hcnot : c ∉ chain := free_not_in_chain C.link hcf (fun l hl => by rw [hlast] at hl; cases hl; exact hlv)
  have hlastmem : last ∈ chain := List.mem_of_getLast? hlast
  have hlastc : last ≠ c := fun e => hcnot (e ▸ hlastmem)
  have hple : p ≤ N := by
    have := findFreeLoop_le n (srcSlots d.img (chainSrc d.fs chain) N) 0 0 0 (Nat.le_refl _)
    rw [srcSlots_length, Nat.zero_add] at this
    rw [← hp]; exact this
  -- 1. check_for_existence
  have hdsrc : DirSrc d (chainS (FileH.new (some c0) (some ed0)) chain d.fs.clusterSize) N (chainSrc d.fs chain)
      (chainRoom d.fs chain) := by rw [← hN]; exact C.dirSrc
  have hce := hdsrc.checkForExistence_sim hfuel ha env name (some true) d (SameVol.refl d)
  rw [hchk] at hce
  obtain ⟨d1, h1, hs1⟩ := hce
  have hc1 : d1.clock = d.clock := run_clock _ _ _ _ h1
  -- 2. alloc_cluster(None, true)
  obtain ⟨d2, h2, hal⟩ := run_alloc_step c d1 (by rw [hs1.failAt]; exact hfa) (by rw [hs1.img]; exact hwf)
    (by rw [hs1.fs, hs1.img]; exact hgeo) (by rw [hs1.fs, hs1.img]; exact hinfo) (by rw [hs1.fs, hs1.img]; exact hfind)
  have hinv0 : SubInv d.fs ed0 c0 chain d.clock d :=
    ⟨C, hwf, FsGeomEq.refl _, by rw [hN]; exact hfuel, rfl, hname, hepos, hein⟩
  have hinv2 := hinv0.of_alloc hs1 hc1 hal hcnot
  have hg2 : FsGeomEq d.fs d2.fs := hinv2.geom
  have hc2 : d2.clock = d.clock := hal.step.clock.trans hc1
  have hvs2 : VolStep d d2 := (VolStep.of_sameVol hs1).trans (VolStep.of_devStep hal.step)
  have htv2 : tabView d2.fs d2.img = updV (tabView d.fs d.img) c .eoc := by rw [hal.tv, hs1.fs, hs1.img]
  have hslots2 : srcSlots d2.img (chainSrc d.fs chain) N = srcSlots d.img (chainSrc d.fs chain) N := by
    refine srcSlots_congr (fun i hi x hx => ?_)
    rw [← hN] at hi
    obtain ⟨y, hy, h3, h4⟩ := C.core.slot_in_cluster i hi
    have h5 := clusterOff_ge d.fs y
    have hyc : y ≠ c := fun e => hcnot (e ▸ hy)
    have h6 := cluster_ranges_disjoint d.fs (C.inTab y hy).1 hc2' hyc
    rw [hal.frame _ (by omega) (by rw [hs1.fs]; exact Or.inr (by omega)) (by rw [hs1.fs]; omega), hs1.img]
  -- 3. write_entry in the parent, across the growth
  have hrawwf := sfnAt_wf d.fs d.clock a 16 (some c) hl11 (canon_lt hcan) (by omega)
  have hrawlfn : attrsIsLfn (sfnAt d.fs d.clock a 16 (some c)).attrs = false := by rw [sfnAt_attrs]; decide
  have hnext2 : d2.fs.fsInfo.next = some (hintAfter d.fs.totalClusters c) := by
    rw [hal.fs]
    show (FsInfoSt.mapFree _ _).next = _
    rw [mapFree_next, hs1.fs]
  obtain ⟨hc22, hc2t, hc2f⟩ := allocFindV_some _ _ _ _ (fun m hm => by
    cases hm
    unfold hintAfter; split <;> omega) hfind2
  have heo : ∀ (ch : List Nat), (∀ x ∈ ch, 2 ≤ x ∧ x < d.fs.totalClusters + 2) →
      ∀ i, i < ch.length * (d.fs.clusterSize / 32) →
      chainSrc d.fs ch (32 * i) + 32 ≤ ed0.pos ∨ ed0.pos + 32 ≤ chainSrc d.fs ch (32 * i) := by
    intro ch hch i hi
    obtain ⟨x, hx, h1, h2⟩ := slot_in_cluster' d.fs hgeo.cs_pos hcs32 ch i hi
    have := heout x (hch x hx).1 (hch x hx).2
    omega
  obtain ⟨d3, e, h3, he, hs3, hd3, hinv3, hsl3, hfr3, htv3⟩ := sub_writeEntry_grow_tv (fs0 := d.fs) (ed0 := ed0)
    (c0 := c0) (chain := chain) (t0 := d.clock) hdirattr c2 last name (sfnAt d.fs d.clock a 16 (some c)) hval hdot
    hrawwf hrawlfn d2 hinv2 hal.info hlast
    (by rw [htv2]; unfold updV; rw [if_neg hlastc]; exact hlv)
    (by rw [htv2, hnext2, hg2.totalClusters]; exact hfind2) hu32 hfuel'
    (heo chain C.inTab)
    (heo (chain ++ [c2]) (fun x hx => by
      rcases List.mem_append.mp hx with h | h
      · exact C.inTab x h
      · simp only [List.mem_singleton] at h; subst h; exact ⟨hc22, hc2t⟩))
    (by rw [hN, hslots2, hn, hp]; exact hgrow) (by rw [hN, hslots2, hn, hp]; exact hfit)
  rw [hN, hslots2, hn, hp] at he hsl3
  rw [hN] at hfr3
  have hcc2 : c ≠ c2 := by
    intro heq
    rw [← heq] at hc2f
    unfold updV at hc2f
    rw [if_pos rfl] at hc2f
    cases hc2f
  have hc3 : d3.clock = d.clock := (run_clock _ _ _ _ h3).trans hc2
  have hg3 : FsGeomEq d.fs d3.fs := hinv3.geom
  have hedata : e.data = sfnAt d.fs d3.clock a 16 (some c) := by
    rw [he, hc3]
    have := writeEntry_result (chainSrc d.fs (chain ++ [c2])) _ hrawwf hrawlfn (Names.encodeUtf16 name.toList) 0 1 (by omega)
    simp only [toDirEntryS] at this ⊢
    injection this with h1
    exact h1.symm
  have hepos : e.entryPos = chainSrc d.fs (chain ++ [c2]) (32 * (p + n - 1)) := by
    rw [he]
    show chainSrc d.fs (chain ++ [c2]) (32 * (p + n) - 32) = _
    congr 1; omega
  -- the slot of the new entry
  have hK : 32 * (d.fs.clusterSize / 32) = d.fs.clusterSize := by
    have := Nat.div_add_mod d.fs.clusterSize 32; omega
  have hNK : (chain ++ [c2]).length * (d.fs.clusterSize / 32) = N + d.fs.clusterSize / 32 := by
    rw [List.length_append, List.length_singleton, Nat.add_mul, Nat.one_mul, hN]
  have hidx : p + n - 1 < (chain ++ [c2]).length * (d3.fs.clusterSize / 32) := by
    rw [hg3.clusterSize, hNK]; omega
  obtain ⟨y, hy, hy1, hy2⟩ := hinv3.dir.core.slot_in_cluster (p + n - 1) hidx
  rw [hg3.clusterOff, chainSrc_geom hg3] at hy1 hy2
  rw [hg3.clusterSize] at hy2
  have hyin := hinv3.dir.inTab y hy
  rw [hg3.totalClusters] at hyin
  have hyc : y ≠ c := by
    intro heq
    rcases List.mem_append.mp hy with h | h
    · exact hcnot (heq ▸ h)
    · simp only [List.mem_singleton] at h; exact hcc2 (heq.symm.trans h)
  have hydisj := cluster_ranges_disjoint d.fs hyin.1 hc2' hyc
  have hyend := (clusterOff_end hgeo hyin.1 hyin.2).2
  have hyge := clusterOff_ge d.fs y
  -- cluster `c` after the growth: still zero, still the end of a chain
  have hgslots : ∀ i, i < N + d.fs.clusterSize / 32 → ∀ q, clusterOff d.fs c ≤ q → q < clusterOff d.fs c + d.fs.clusterSize →
      ¬ (chainSrc d.fs (chain ++ [c2]) (32 * i) ≤ q ∧ q < chainSrc d.fs (chain ++ [c2]) (32 * i) + 32) := by
    intro i hi q h1 h2
    obtain ⟨z, hz, hz1, hz2⟩ := hinv3.dir.core.slot_in_cluster i (by rw [hg3.clusterSize, hNK]; exact hi)
    rw [hg3.clusterOff, chainSrc_geom hg3] at hz1 hz2
    rw [hg3.clusterSize] at hz2
    have hzin := (hinv3.dir.inTab z hz).1
    have hzc : z ≠ c := by
      intro heq
      rcases List.mem_append.mp hz with h | h
      · exact hcnot (heq ▸ h)
      · simp only [List.mem_singleton] at h; exact hcc2 (heq.symm.trans h)
    have := cluster_ranges_disjoint d.fs hzin hc2' hzc
    omega
  have hco := clusterOff_end hgeo hc2' hct
  have hzero3 : ∀ q, clusterOff d.fs c ≤ q → q < clusterOff d.fs c + d.fs.clusterSize → d3.img.getByte q = 0 := by
    intro q h1 h2
    rw [hfr3 q (by omega) (Or.inr (by omega)) (fun i hi => hgslots i hi q h1 h2) (fun hx => by
      unfold subExtra at hx
      have := heout c hc2' hct
      omega)]
    exact hal.zero q (by rw [hs1.fs]; exact h1) (by rw [hs1.fs]; exact h2)
  have htvc : ∀ m, tabView d3.fs d3.img c ≠ .data m := by
    intro m
    rw [htv3, htv2]
    have e1 : allocLinkV (updV (tabView d.fs d.img) c .eoc) (some last) c2 c = .eoc := by
      unfold allocLinkV updV
      simp only
      rw [if_neg (fun h => hlastc h.symm), if_neg hcc2]
      simp
    rw [e1]
    exact fun h => by cases h
  -- the bytes of the new entry on the image
  have hslot : (srcSlots d3.img (chainSrc d.fs (chain ++ [c2])) (N + d.fs.clusterSize / 32)).getD (p + n - 1) [] =
      (sfnAt d.fs d.clock a 16 (some c)).serialize := by
    rw [hsl3]
    unfold DirSlots.writeEntry DirSlots.entrySlots
    rw [hn, hp]
    have hlen : (lfnGenerate (Names.encodeUtf16 name.toList)
        (lfnChecksum (Lfn.sfnName (sfnAt d.fs d.clock a 16 (some c)).serialize))).length = n - 1 := by
      rw [lfnGenerate_length]; omega
    have hw := writeAt_last_getD (srcSlots d.img (chainSrc d.fs chain) N) (lfnGenerate (Names.encodeUtf16 name.toList)
        (lfnChecksum (Lfn.sfnName (sfnAt d.fs d.clock a 16 (some c)).serialize)))
      (sfnAt d.fs d.clock a 16 (some c)).serialize p (by rw [srcSlots_length]; exact hple)
    rw [hlen] at hw
    have e1 : p + (n - 1) = p + n - 1 := by omega
    rw [e1] at hw
    rw [DirSlots.getD_append_left' _ _ _ (by
      unfold DirSlots.writeAt
      simp only [List.length_append, List.length_take, List.length_cons, List.length_nil, hlen, srcSlots_length]
      omega)]
    exact hw
  rw [srcSlots_getD _ _ _ _ (by omega)] at hslot
  have hP : ∀ x, x < 32 → d3.img.getByte (e.entryPos + x) = e.data.serialize.getD x 0 := by
    intro x hx
    rw [hepos, ← Img.read_getD d3.img _ 32 x hx, hslot, hedata, hc3]
  -- 4. the new directory
  obtain ⟨d6, h6, hs6, hd6, hc6, hC6, hsl6, htv6, hfr6⟩ := createDir_child d.fs (.file (FileH.new (some c0) (some ed0))) e a c d3
    hl11 (canon_lt hcan) hedata hg3 (by rw [hs3.failAt, hvs2.failAt]; exact hfa) (hs3.wf (hvs2.wf hwf))
    (by rw [hs3.size, hvs2.size]; exact hgeo) hacc hcs32 hcs64 (by
      have : d.fs.clusterSize ≤ (chain.length + 1) * d.fs.clusterSize := Nat.le_mul_of_pos_left _ (by omega)
      omega) hfuelN ⟨hc2', hct⟩ htvc hzero3
    (by rw [hepos]; omega) (by rw [hepos, hs3.size, hvs2.size]; omega) (by rw [hepos]; omega) hP
  have hdd : (if (DirStream.file (FileH.new (some c0) (some ed0))).isRootDir then none
      else (DirStream.file (FileH.new (some c0) (some ed0))).firstCluster) = some c0 := rfl
  rw [hdd, hc3] at hsl6
  -- the parent after the writes in the new directory
  have hinv6 : SubInv d.fs ed0 c0 (chain ++ [c2]) d.clock d6 := hinv3.of_volStep hs6 (hc6.trans (hc3.trans hinv3.clock.symm ▸ rfl)) htv6
  have hpslots6 : srcSlots d6.img (chainSrc d.fs (chain ++ [c2])) (N + d.fs.clusterSize / 32) =
      srcSlots d3.img (chainSrc d.fs (chain ++ [c2])) (N + d.fs.clusterSize / 32) := by
    refine srcSlots_congr (fun i hi x hx => ?_)
    obtain ⟨z, hz, hz1, hz2⟩ := hinv3.dir.core.slot_in_cluster i (by rw [hg3.clusterSize, hNK]; exact hi)
    rw [hg3.clusterOff, chainSrc_geom hg3] at hz1 hz2
    rw [hg3.clusterSize] at hz2
    have hzge := clusterOff_ge d.fs z
    refine hfr6 _ (by omega) (fun hc => ?_)
    exact hgslots i hi _ hc.1 hc.2 ⟨by omega, by omega⟩
  refine ⟨d6, e.editor, ?_, by show e.data = _; rw [hedata, hc3], (hvs2.trans hs3).trans hs6, hd6, hinv6,
    by rw [hpslots6, hsl3, sfnAt_serialize], by rw [htv6, htv3, htv2], hsl6, hC6⟩
  unfold FatVerif.createDir
  rw [run_bind_ok (run_getFs d), hsp]
  simp only
  have h1' : run (checkForExistence env (.file (FileH.new (some c0) (some ed0))) name (some true)) d =
      (.ok (liftEOA (chainSrc d.fs chain) (.alias a)), d1) := h1
  rw [run_bind_ok h1']
  simp only [liftEOA, hdot, Bool.false_eq_true, if_false, liftE, hval]
  rw [run_bind_ok (rfl : run (pure () : Prog Unit) d1 = (.ok (), d1)), run_bind_ok h2,
    run_bind_ok (run_createSfnEntry a ATTR_DIRECTORY (some c) d2)]
  have h3' : run (Prog.attempt (FatVerif.writeEntry (.file (FileH.new (some c0) (some ed0))) name
      (sfnAt d2.fs d2.clock a ATTR_DIRECTORY (some c)))) d2 = (.ok (.ok e), d3) := by
    have h3'' : run (FatVerif.writeEntry (.file (FileH.new (some c0) (some ed0))) name
        (sfnAt d.fs d.clock a ATTR_DIRECTORY (some c))) d2 = (.ok e, d3) := h3
    rw [run_attempt, sfnAt_geom hg2, hc2, h3'']
  rw [run_bind_ok h3']
  simp only
  rw [run_bind_ok (rfl : run (pure e : Prog DirEntry) d3 = (.ok e, d3))]
  exact h6

end FatVerif.DirSim
