import FatVerif.Proofs.NamesGen
/-! State invariant of the alias generator and legality of everything `generate` returns (C16.1). -/
namespace FatVerif.Names

theorem legalSfnBytes_eq : legalSfnBytes =
    [65, 66, 67, 68, 69, 70, 71, 72, 73, 74, 75, 76, 77, 78, 79, 80, 81, 82, 83, 84, 85, 86, 87, 88, 89, 90,
     48, 49, 50, 51, 52, 53, 54, 55, 56, 57, 33, 35, 36, 37, 38, 39, 40, 41, 45, 64, 94, 95, 96, 123, 125, 126] := by
  decide

theorem sfnByte_small : ∀ n < 128, (if sfnAllowed n then asciiUpper n else 95) ∈ legalSfnBytes := by
  rw [legalSfnBytes_eq]; decide +kernel

theorem sfnByte_legal (c : Char) : sfnByte c ∈ legalSfnBytes := by
  unfold sfnByte
  by_cases h : c.toNat < 128
  · exact sfnByte_small _ h
  · have : sfnAllowed c.toNat = false := by
      simp only [sfnAllowed, Bool.or_eq_false_iff, Bool.and_eq_false_iff, decide_eq_false_iff_not,
        List.contains_eq_mem, List.mem_cons, List.not_mem_nil, or_false]
      omega
    rw [this]; simp only [Bool.false_eq_true, if_false]; rw [legalSfnBytes_eq]; decide

theorem hexUp_legal : ∀ d < 16, hexUp d ∈ legalSfnBytes := by
  rw [legalSfnBytes_eq]; decide

theorem digit_legal : ∀ i < 10, 48 + i ∈ legalSfnBytes := by
  rw [legalSfnBytes_eq]; decide

theorem tilde_legal : 126 ∈ legalSfnBytes := by
  rw [legalSfnBytes_eq]; decide

theorem legal_not_reserved : ∀ x ∈ legalSfnBytes, x ≠ 0x00 ∧ x ≠ 0x05 ∧ x ≠ 0xE5 ∧ x ≠ 0x20 := by
  rw [legalSfnBytes_eq]; decide

def AllLegal (l : List Nat) : Prop := ∀ x ∈ l, x ∈ legalSfnBytes

theorem AllLegal.append {a b : List Nat} (ha : AllLegal a) (hb : AllLegal b) : AllLegal (a ++ b) := by
  intro x hx; rcases List.mem_append.1 hx with h | h
  · exact ha x h
  · exact hb x h

theorem AllLegal.take {a : List Nat} (ha : AllLegal a) (k : Nat) : AllLegal (a.take k) :=
  fun x hx => ha x (List.mem_of_mem_take hx)

/-! ## `copy_short_name_part` -/

theorem copyPart_spec (cap : Nat) (src : List Char) (out : List Nat) (lossy : Bool)
    (hlen : out.length ≤ cap) (hleg : AllLegal out) :
    (copyPart cap src out lossy).out.length ≤ cap ∧ AllLegal (copyPart cap src out lossy).out ∧
    out.length ≤ (copyPart cap src out lossy).out.length ∧
    ((copyPart cap src out lossy).lossy = false →
      lossy = false ∧ (src ≠ [] → out.length < cap → out.length < (copyPart cap src out lossy).out.length)) := by
  induction src generalizing out lossy with
  | nil => simp [copyPart, hlen, hleg]
  | cons c cs ih =>
    unfold copyPart
    by_cases h1 : out.length = cap
    · simp only [h1, if_true]
      refine ⟨by omega, hleg, by omega, fun h => ⟨h, fun _ h' => by omega⟩⟩
    · simp only [h1, if_false]
      by_cases h2 : c = ' ' ∨ c = '.'
      · simp only [h2, if_true]
        obtain ⟨a, b, c', d⟩ := ih out true hlen hleg
        refine ⟨a, b, c', fun h => ?_⟩
        have := (d h).1; cases this
      · simp only [h2, if_false]
        have hl' : (out ++ [sfnByte c]).length ≤ cap := by simp; omega
        have hg' : AllLegal (out ++ [sfnByte c]) :=
          hleg.append (by intro x hx; simp at hx; subst hx; exact sfnByte_legal c)
        obtain ⟨a, b, c', d⟩ := ih (out ++ [sfnByte c]) (lossy || !(sfnAllowed c.toNat)) hl' hg'
        refine ⟨a, b, by simp at c'; omega, fun h => ?_⟩
        have := (d h).1
        refine ⟨by cases lossy <;> simp_all, fun _ _ => by simp at c'; omega⟩

/-! ## padding -/

theorem padTo_length {k : Nat} {l : List Nat} (h : l.length ≤ k) : (padTo k l).length = k := by
  simp [padTo]; omega

theorem legalField_padTo {k : Nat} {l : List Nat} (h : l.length ≤ k) (hl : AllLegal l) : LegalField (padTo k l) := by
  refine ⟨l.length, by rw [padTo_length h]; exact h, ?_, ?_⟩
  · unfold padTo; rw [List.take_left']; exact hl; rfl
  · unfold padTo; rw [List.drop_left']; simp; rfl

/-! ## the invariant -/

/-- shape of every reachable generator state (for every name, the empty one included): the two fields hold legal
    bytes then padding, `basename_len` is the number of bytes in the first field, `chksum` is a `u16` -/
def GenWF (g : Gen) : Prop :=
  ∃ b e : List Nat, g.shortName = padTo 8 b ++ padTo 3 e ∧ b.length ≤ 8 ∧ e.length ≤ 3 ∧
    g.basenameLen = b.length ∧ AllLegal b ∧ AllLegal e ∧ g.chksum < 65536

/-- additional invariant of the states built from a NON-EMPTY name: a loss-free conversion wrote at least one byte
    of the base (so the exact form never starts with padding) -/
def GenNE (g : Gen) : Prop := g.lossyConv = false → g.basenameLen ≠ 0

theorem checksumStep_lt (chk : Nat) (c : Char) : checksumStep chk c < 65536 := by
  unfold checksumStep; omega

theorem checksum_lt (name : List Char) : checksum name < 65536 := by
  unfold checksum
  suffices ∀ (l : List Char) a, a < 65536 → l.foldl checksumStep a < 65536 from this name 0 (by omega)
  intro l; induction l with
  | nil => intro a h; simpa
  | cons c cs ih => intro a _; exact ih _ (checksumStep_lt a c)

theorem newParts_wf (name base : List Char) (ext : Option (List Char)) :
    GenWF (newParts name base ext) := by
  obtain ⟨b1, b2, _, b4⟩ := copyPart_spec 8 base [] false (by simp) (by intro x hx; simp at hx)
  refine ⟨(copyPart 8 base [] false).out,
    (match ext with | none => (⟨[], true, false⟩ : PartRes) | some x => copyPart 3 x [] false).out,
    rfl, b1, ?_, rfl, b2, ?_, checksum_lt name⟩
  · cases ext with
    | none => simp
    | some x => exact (copyPart_spec 3 x [] false (by simp) (by intro x hx; simp at hx)).1
  · cases ext with
    | none => intro x hx; simp at hx
    | some x => exact (copyPart_spec 3 x [] false (by simp) (by intro x hx; simp at hx)).2.1

theorem newParts_ne (name base : List Char) (ext : Option (List Char)) (hb : base ≠ []) :
    GenNE (newParts name base ext) := by
  obtain ⟨_, _, _, b4⟩ := copyPart_spec 8 base [] false (by simp) (by intro x hx; simp at hx)
  intro hl
  have hl' : (copyPart 8 base [] false).lossy = false := by
    simp only [newParts, Bool.or_eq_false_iff] at hl; exact hl.1
  have := (b4 hl').2 hb (by simp)
  simp only [newParts]
  simp at this
  omega

theorem newL_wf {name : List Char} {g : Gen} (h : newL name = .ok g) : GenWF g := by
  cases name with
  | nil => rw [newL_nil] at h; cases h; exact newParts_wf _ _ _
  | cons c cs =>
    rcases newL_cons c cs with ⟨_, h'⟩ | ⟨pre, post, _, _, h'⟩
    · rw [h'] at h; cases h; exact newParts_wf _ _ _
    · rw [h'] at h; cases h; exact newParts_wf _ _ _

theorem newL_ne {name : List Char} {g : Gen} (hn : name ≠ []) (h : newL name = .ok g) : GenNE g := by
  cases name with
  | nil => exact absurd rfl hn
  | cons c cs =>
    rcases newL_cons c cs with ⟨_, h'⟩ | ⟨pre, post, _, _, h'⟩
    · rw [h'] at h; cases h; exact newParts_ne _ _ _ (by simp)
    · rw [h'] at h; cases h; exact newParts_ne _ _ _ (by simp)

/-- the fields `add_existing`/`next_iteration` never touch -/
def SameStatic (g g' : Gen) : Prop :=
  g'.shortName = g.shortName ∧ g'.basenameLen = g.basenameLen ∧ g'.nameFits = g.nameFits ∧ g'.lossyConv = g.lossyConv

theorem SameStatic.refl (g : Gen) : SameStatic g g := ⟨rfl, rfl, rfl, rfl⟩

theorem SameStatic.trans {a b c : Gen} (h1 : SameStatic a b) (h2 : SameStatic b c) : SameStatic a c :=
  ⟨h2.1.trans h1.1, h2.2.1.trans h1.2.1, h2.2.2.1.trans h1.2.2.1, h2.2.2.2.trans h1.2.2.2⟩

theorem markExact_static (g : Gen) (sn : List Nat) : SameStatic g (markExact g sn) ∧ (markExact g sn).chksum = g.chksum := by
  unfold markExact; split <;> exact ⟨⟨rfl, rfl, rfl, rfl⟩, rfl⟩

theorem checkLong_static (g : Gen) (sn : List Nat) : SameStatic g (checkLong g sn) ∧ (checkLong g sn).chksum = g.chksum := by
  unfold checkLong; repeat' split
  all_goals exact ⟨⟨rfl, rfl, rfl, rfl⟩, rfl⟩

theorem checkShort_static (g : Gen) (sn : List Nat) : SameStatic g (checkShort g sn) ∧ (checkShort g sn).chksum = g.chksum := by
  unfold checkShort; repeat' split
  all_goals exact ⟨⟨rfl, rfl, rfl, rfl⟩, rfl⟩

theorem addExisting_static (g : Gen) (sn : List Nat) :
    SameStatic g (addExisting g sn) ∧ (addExisting g sn).chksum = g.chksum := by
  unfold addExisting
  have a := markExact_static g sn
  have b := checkLong_static (markExact g sn) sn
  have c := checkShort_static (checkLong (markExact g sn) sn) sn
  exact ⟨a.1.trans (b.1.trans c.1), by rw [c.2, b.2, a.2]⟩

theorem addAll_static (g : Gen) (ex : List (List Nat)) :
    SameStatic g (addAll g ex) ∧ (addAll g ex).chksum = g.chksum := by
  unfold addAll
  induction ex generalizing g with
  | nil => exact ⟨SameStatic.refl g, rfl⟩
  | cons e es ih =>
    simp only [List.foldl_cons]
    have a := addExisting_static g e
    have b := ih (addExisting g e)
    exact ⟨a.1.trans b.1, by rw [b.2, a.2]⟩

theorem nextIteration_static (g : Gen) : SameStatic g (nextIteration g) := ⟨rfl, rfl, rfl, rfl⟩

theorem GenWF.of_static {g g' : Gen} (h : GenWF g) (hs : SameStatic g g') (hc : g'.chksum < 65536) : GenWF g' := by
  obtain ⟨b, e, h1, h2, h3, h4, h5, h6, _⟩ := h
  exact ⟨b, e, by rw [hs.1, h1], h2, h3, by rw [hs.2.1, h4], h5, h6, hc⟩

theorem GenNE.of_static {g g' : Gen} (h : GenNE g) (hs : SameStatic g g') : GenNE g' := by
  intro hl; rw [hs.2.1]; exact h (by rw [← hs.2.2.2]; exact hl)

theorem GenWF.chk {g : Gen} (h : GenWF g) : g.chksum < 65536 := by
  obtain ⟨_, _, _, _, _, _, _, _, h7⟩ := h; exact h7

theorem GenWF.addExisting {g : Gen} (h : GenWF g) (sn : List Nat) : GenWF (addExisting g sn) := by
  have := addExisting_static g sn
  exact h.of_static this.1 (by rw [this.2]; exact h.chk)

theorem GenWF.addAll {g : Gen} (h : GenWF g) (ex : List (List Nat)) : GenWF (addAll g ex) := by
  have := addAll_static g ex
  exact h.of_static this.1 (by rw [this.2]; exact h.chk)

theorem GenWF.nextIteration {g : Gen} (h : GenWF g) : GenWF (nextIteration g) :=
  h.of_static (nextIteration_static g) (by simp only [Names.nextIteration]; omega)

end FatVerif.Names

namespace FatVerif.Names

/-! ## legality of generated names -/

theorem u16ToHex_legal (x : Nat) : AllLegal (u16ToHex x) := by
  intro y hy
  simp only [u16ToHex, List.mem_cons, List.not_mem_nil, or_false] at hy
  rcases hy with h | h | h | h <;> subst h <;> apply hexUp_legal <;> omega

theorem u16ToHex_length (x : Nat) : (u16ToHex x).length = 4 := rfl

/-- facts about the 11-byte buffer of a well-formed state -/
theorem shortName_shape {g : Gen} {b e : List Nat} (hs : g.shortName = padTo 8 b ++ padTo 3 e)
    (hb : b.length ≤ 8) (he : e.length ≤ 3) :
    g.shortName.length = 11 ∧ g.shortName.take 8 = padTo 8 b ∧ g.shortName.drop 8 = padTo 3 e ∧
    ∀ p, p ≤ b.length → g.shortName.take p = b.take p := by
  have l8 := padTo_length hb
  have l3 := padTo_length he
  refine ⟨by rw [hs, List.length_append, l8, l3], by rw [hs, List.take_left' l8], by rw [hs, List.drop_left' l8], ?_⟩
  intro p hp
  rw [hs, List.take_append_of_le_length (by rw [l8]; omega)]
  unfold padTo
  rw [List.take_append_of_le_length hp]

theorem prefixPart_spec {g : Gen} (h : GenWF g) (w : Bool) :
    AllLegal (prefixPart g w) ∧ (prefixPart g w).length ≤ 6 := by
  obtain ⟨b, e, hs, hb, he, hl, lb, _, _⟩ := h
  obtain ⟨_, _, _, ht⟩ := shortName_shape hs hb he
  unfold prefixPart
  cases w with
  | true =>
    have hp : shortPrefixLen g ≤ b.length := by unfold shortPrefixLen; omega
    have h2 : shortPrefixLen g ≤ 2 := by unfold shortPrefixLen; omega
    simp only [if_true]
    rw [ht _ hp]
    refine ⟨(lb.take _).append (u16ToHex_legal _), ?_⟩
    simp [u16ToHex_length]; omega
  | false =>
    have hp : longPrefixLen g ≤ b.length := by unfold longPrefixLen; omega
    have h2 : longPrefixLen g ≤ 6 := by unfold longPrefixLen; omega
    simp only [Bool.false_eq_true, if_false]
    rw [ht _ hp]
    refine ⟨lb.take _, ?_⟩
    simp; omega

theorem legalAlias_of_fields {b e : List Nat} (hb : b.length ≤ 8) (he : e.length ≤ 3)
    (lb : AllLegal b) (le : AllLegal e) (hne : b ≠ []) : LegalAlias (padTo 8 b ++ padTo 3 e) := by
  have l8 := padTo_length hb
  have l3 := padTo_length he
  have hh : (padTo 8 b ++ padTo 3 e).head? = some (b.head hne) := by
    cases b with
    | nil => exact absurd rfl hne
    | cons x t => simp [padTo]
  obtain ⟨r0, r5, re5, r20⟩ := legal_not_reserved _ (lb _ (List.head_mem hne))
  refine ⟨by rw [List.length_append, l8, l3], ?_, ?_, ?_, ?_, ?_, ?_⟩
  · rw [List.take_left' l8]; exact legalField_padTo hb lb
  · rw [List.drop_left' l8]; exact legalField_padTo he le
  all_goals rw [hh]; simp only [ne_eq, Option.some.injEq]; assumption

theorem buildPrefixedName_legal {g : Gen} (h : GenWF g) (i : Nat) (hi : i < 10) (w : Bool) :
    LegalAlias (buildPrefixedName g i w) := by
  obtain ⟨lp, hp⟩ := prefixPart_spec h w
  obtain ⟨b, e, hs, hb, he, _, _, le, _⟩ := h
  obtain ⟨_, _, hd, _⟩ := shortName_shape hs hb he
  unfold buildPrefixedName
  rw [hd]
  refine legalAlias_of_fields (by simp; omega) he ?_ le (by simp)
  refine lp.append ?_
  intro x hx
  simp only [List.mem_cons, List.not_mem_nil, or_false] at hx
  rcases hx with h | h <;> subst h
  · exact tilde_legal
  · exact digit_legal i hi

theorem generate_cases {g : Gen} {a : List Nat} (h : generate g = .ok a) :
    (g.lossyConv = false ∧ g.nameFits = true ∧ g.exactMatch = false ∧ a = g.shortName) ∨
    (∃ i, 1 ≤ i ∧ i ≤ 4 ∧ bitClear g.longPrefixBitmap i = true ∧ a = buildPrefixedName g i false) ∨
    (∃ i, 1 ≤ i ∧ i ≤ 9 ∧ bitClear g.prefixChksumBitmap i = true ∧ a = buildPrefixedName g i true) := by
  unfold generate at h
  split at h
  · rename_i hc
    left
    simp only [Bool.and_eq_true, Bool.not_eq_true', ] at hc
    cases h
    exact ⟨hc.1.1, hc.1.2, hc.2, rfl⟩
  · split at h
    · rename_i i hf
      right; left
      cases h
      have hm := List.mem_of_find?_eq_some hf
      have hb := List.find?_some hf
      simp only [List.mem_cons, List.not_mem_nil, or_false] at hm
      exact ⟨i, by omega, by omega, hb, rfl⟩
    · split at h
      · rename_i i hf
        right; right
        cases h
        have hm := List.mem_of_find?_eq_some hf
        have hb := List.find?_some hf
        simp only [List.mem_cons, List.not_mem_nil, or_false] at hm
        exact ⟨i, by omega, by omega, hb, rfl⟩
      · cases h

/-- the `~N` forms are legal in every well-formed state (also for the empty name) -/
theorem generate_legal_prefixed {g : Gen} (h : GenWF g) {a : List Nat} (hg : generate g = .ok a)
    (hx : a ≠ g.shortName) : LegalAlias a := by
  rcases generate_cases hg with ⟨_, _, _, rfl⟩ | ⟨i, _, _, _, rfl⟩ | ⟨i, _, _, _, rfl⟩
  · exact absurd rfl hx
  · exact buildPrefixedName_legal h i (by omega) false
  · exact buildPrefixedName_legal h i (by omega) true

/-- C16.1 on a well-formed state built from a non-empty name -/
theorem generate_legal {g : Gen} (h : GenWF g) (hne : GenNE g) {a : List Nat} (hg : generate g = .ok a) :
    LegalAlias a := by
  rcases generate_cases hg with ⟨hl, _, _, rfl⟩ | ⟨i, _, _, _, rfl⟩ | ⟨i, _, _, _, rfl⟩
  · obtain ⟨b, e, hs, hb, he, hbl, lb, le, _⟩ := h
    have : b ≠ [] := by
      intro h0; exact hne hl (by rw [hbl, h0]; rfl)
    rw [hs]; exact legalAlias_of_fields hb he lb le this
  · exact buildPrefixedName_legal h i (by omega) false
  · exact buildPrefixedName_legal h i (by omega) true

end FatVerif.Names

namespace FatVerif.Names

/-- every state the library can bring a generator into after `new` -/
inductive Reach (g : Gen) : Gen → Prop
  | refl : Reach g g
  | add {g' : Gen} (sn : List Nat) : Reach g g' → Reach g (addExisting g' sn)
  | next {g' : Gen} : Reach g g' → Reach g (nextIteration g')

theorem Reach.wf {g g' : Gen} (h : GenWF g) (r : Reach g g') : GenWF g' := by
  induction r with
  | refl => exact h
  | add sn _ ih => exact ih.addExisting sn
  | next _ ih => exact ih.nextIteration

theorem Reach.static {g g' : Gen} (r : Reach g g') : SameStatic g g' := by
  induction r with
  | refl => exact SameStatic.refl g
  | add sn _ ih => exact ih.trans (addExisting_static _ sn).1
  | next _ ih => exact ih.trans (nextIteration_static _)

theorem Reach.ne {g g' : Gen} (h : GenNE g) (r : Reach g g') : GenNE g' := h.of_static r.static

theorem Reach.addAll {g g' : Gen} (r : Reach g g') (ex : List (List Nat)) : Reach g (addAll g' ex) := by
  unfold Names.addAll
  induction ex generalizing g' with
  | nil => exact r
  | cons e es ih => exact ih (Reach.add e r)

theorem newL_bitmaps {name : List Char} {g : Gen} (h : newL name = .ok g) :
    g.longPrefixBitmap = 0 ∧ g.prefixChksumBitmap = 0 ∧ g.exactMatch = false := by
  cases name with
  | nil => rw [newL_nil] at h; cases h; exact ⟨rfl, rfl, rfl⟩
  | cons c cs =>
    rcases newL_cons c cs with ⟨_, h'⟩ | ⟨pre, post, _, _, h'⟩ <;>
      (rw [h'] at h; cases h; exact ⟨rfl, rfl, rfl⟩)

/-- whatever the retry loop returns was produced by `generate` in a reachable state that has just been fed the
    whole population -/
theorem loop_result (ex : List (List Nat)) {a : List Nat} {k : Nat} :
    ∀ (fuel i : Nat) (g0 g : Gen), Reach g0 g → generateLoop ex fuel i g = some (a, k) →
      ∃ g', Reach g0 g' ∧ generate (Names.addAll g' ex) = .ok a := by
  intro fuel
  induction fuel with
  | zero => intro i g0 g _ h; simp [generateLoop] at h
  | succ fuel ih =>
    intro i g0 g r h
    unfold generateLoop at h
    split at h
    · rename_i n hn; cases h; exact ⟨g, r, hn⟩
    · exact ih _ g0 _ (Reach.next (r.addAll ex)) h

end FatVerif.Names
