import FatVerif.Proofs.LfnRun
import FatVerif.Spec.DirSpec
/-! The forward state machine (`LongNameBuilder`, `Vec` variant) against the specification's backward scan. -/
namespace FatVerif
namespace Lfn
open LongNameBuilder

/-! ### the two sets of accessors agree -/

theorem spec_ldirName (s : List Nat) : DirSpec.ldirName s = units s := by
  simp [DirSpec.ldirName, DirSpec.w, DirSpec.b, units, unitOffsets, unitAt, byte, le16]

theorem spec_ordNum (s : List Nat) : DirSpec.ordNum s = order s % 32 := rfl
theorem spec_ldirChk (s : List Nat) : DirSpec.ldirChk s = chk s := rfl
theorem spec_shortName (s : List Nat) : DirSpec.shortName s = sfnName s := rfl

theorem spec_ordLast (s : List Nat) : DirSpec.ordLast s = true ↔ order s / 64 % 2 = 1 := by
  simp [DirSpec.ordLast, DirSpec.b, order, byte]

theorem slotClass_spec (s : List Nat) :
    slotClass s =
      if DirSpec.isEndMark s then .endMark else if DirSpec.isFree s then .deleted
      else if DirSpec.isLong s then .lfn else if DirSpec.isLabel s then .volume else .file := rfl

/-! ### the implementation's cut at the first NUL = the specification's `nameOf` -/

theorem cutAtNul_eq_spec (r : List Nat) : cutAtNul r = DirSpec.nameOf r := by
  unfold DirSpec.nameOf
  induction r with
  | nil => rfl
  | cons x xs ih =>
    by_cases hx : x = 0
    · simp [cutAtNul, List.takeWhile, hx]
    · simp [cutAtNul, List.takeWhile, hx, ih]

/-! ### forward machine vs backward scan -/

/-- the builder after the slots `Q` (NEAREST FIRST, i.e. reversed on-disk order) starting from `b0` -/
def runB (alloc : Bool) (b0 : LongNameBuilder) (Q : List (List Nat)) : LongNameBuilder :=
  Q.foldr (fun s b => process alloc b s) b0

theorem WF_runB (alloc : Bool) (b0 : LongNameBuilder) (h : Dead alloc b0) : ∀ Q, WF alloc (runB alloc b0 Q) := by
  intro Q
  induction Q with
  | nil => exact Dead_WF alloc b0 h
  | cons s Q ih => exact WF_process alloc _ s ih

/-- the 255-unit cap of `into_buf` -/
def capName (t : List Nat) : List Nat := if t.length > 255 then [] else t

def outName : Option (List Nat) → List Nat
  | none => []
  | some r => capName (cutAtNul r)

theorem truncate_asUnits (alloc : Bool) (b : LongNameBuilder) (hw : WF alloc b) :
    (truncate alloc b).buf.asUnits = cutAtNul b.buf.asUnits := by
  obtain ⟨_, _, t3⟩ := truncate_ok alloc b hw
  have hll := WF_len_le alloc b hw
  rw [← take_cutLen]
  simp only [truncate, LfnBuf.setLen]
  generalize cutLen b.buf.asUnits = m at t3 ⊢
  have hm : m ≤ b.buf.units.length := by omega
  cases alloc
  · simp [LfnBuf.asUnits, List.take_take, Nat.min_eq_left t3]
  · simp [LfnBuf.asUnits, resize_of_le _ _ hm, List.take_take, Nat.min_eq_left t3]

/-- a completed run (ordinal 1 reached, checksum of the short name): the live units cut at the first NUL, capped -/
theorem finish_complete (alloc : Bool) (b : LongNameBuilder) (n : List Nat) (hw : WF alloc b) (hi : b.index = 1)
    (hc : b.chksum = lfnChecksum n) : finish alloc b n = capName (cutAtNul b.buf.asUnits) := by
  obtain ⟨_, t2, _⟩ := truncate_ok alloc b hw
  have v : validateChksum alloc b n = b := by simp [validateChksum, hi, hc]
  have hslen : (cutAtNul b.buf.asUnits).length = cutLen b.buf.asUnits := rfl
  rw [finish, v]
  unfold intoBuf capName
  simp only [hi, if_true, maxNameLen, t2, hslen]
  by_cases hgt : cutLen b.buf.asUnits > 255
  · simp [hgt, clear, LfnBuf.clear, new_asUnits]
  · simp only [hgt, if_false]
    exact truncate_asUnits alloc b hw

/-- **Main lemma.**  After the long-name slots `Q` (nearest first) and then a tail of ordinals `k-1 … 1`, the name the
    builder (either variant) hands out is what the backward scan finds when it arrives at `Q` expecting ordinal `k`
    (cut at the first `0x0000`, dropped if longer than 255). -/
theorem run_spec (alloc : Bool) (n : List Nat) (b0 : LongNameBuilder) (h0 : Dead alloc b0) :
    ∀ Q k T, TailOk (lfnChecksum n) T (k - 1) → 1 ≤ k →
      finish alloc (T.foldl (process alloc) (runB alloc b0 Q)) n =
        outName (DirSpec.specRun (lfnChecksum n) Q k (tailUnits T)) := by
  intro Q
  induction Q with
  | nil =>
    intro k T ht _
    simp only [DirSpec.specRun, outName, runB, List.foldr_nil]
    exact finish_Dead alloc _ n (Dead_foldl alloc _ T _ _ ht h0)
  | cons s Q ih =>
    intro k T ht hk
    have hwf : WF alloc (runB alloc b0 (s :: Q)) := WF_runB alloc b0 h0 _
    have hwfQ : WF alloc (runB alloc b0 Q) := WF_runB alloc b0 h0 _
    have hres := process_result alloc (runB alloc b0 Q) s
    have hrun : runB alloc b0 (s :: Q) = process alloc (runB alloc b0 Q) s := rfl
    unfold DirSpec.specRun
    by_cases c1 : k > 20
    · rw [if_pos c1]
      simp only [outName]
      apply tail_mismatch alloc _ n rfl T (k - 1) _ ht hwf
      left
      have := hwf.1
      omega
    · rw [if_neg c1]
      by_cases c2 : DirSpec.ldirChk s ≠ lfnChecksum n
      · rw [if_pos c2]
        simp only [outName]
        apply tail_mismatch alloc _ n rfl T (k - 1) _ ht hwf
        rw [hrun]
        rcases hres with hd | ⟨_, hc, _⟩
        · left; rw [hd.1]; omega
        · right; rw [hc]; exact c2
      · rw [if_neg c2]
        have c2' : chk s = lfnChecksum n := by
          have : DirSpec.ldirChk s = lfnChecksum n := Decidable.not_not.1 c2
          exact this
        by_cases c3 : DirSpec.ordNum s ≠ k
        · rw [if_pos c3]
          simp only [outName]
          apply tail_mismatch alloc _ n rfl T (k - 1) _ ht hwf
          rw [hrun]
          left
          rcases hres with hd | ⟨hi, _, _⟩
          · rw [hd.1]; omega
          · rw [hi]; rw [spec_ordNum] at c3; omega
        · rw [if_neg c3]
          have c3' : order s % 32 = k := by
            have : DirSpec.ordNum s = k := Decidable.not_not.1 c3
            exact this
          have a1 : ¬ (order s % 32 = 0 ∨ order s % 32 > 20) := by omega
          by_cases c4 : DirSpec.ordLast s = true
          · -- the 0x40 slot of the set: the run is complete
            have c4' := (spec_ordLast s).1 c4
            rw [if_pos c4]
            simp only [outName, spec_ldirName]
            have hcap := bufCap_eq
            obtain ⟨b1, hb1, e1, e2, e3, e4⟩ : ∃ b1, runB alloc b0 (s :: Q) = b1 ∧ b1.index = k ∧
                b1.chksum = lfnChecksum n ∧ b1.buf.len = k * 13 ∧
                b1.buf.units = setSlice ((runB alloc b0 Q).buf.setLen alloc (k * 13)).units (13 * (k - 1))
                  (units s) := by
              refine ⟨_, rfl, ?_⟩
              rw [hrun, process_last _ _ _ a1 c4']
              cases alloc <;> simp [LfnBuf.setLen, c3', c2']
            rw [hb1] at hwf ⊢
            have hUlen : k * 13 ≤ ((runB alloc b0 Q).buf.setLen alloc (k * 13)).units.length := by
              have := hwfQ.2.2.2.2
              cases alloc <;> simp [LfnBuf.setLen] at this ⊢ <;> omega
            have hlive : b1.buf.asUnits.drop (13 * (k - 1)) = units s := by
              unfold LfnBuf.asUnits
              rw [e3, e4, setSlice_take _ _ _ _ (units_length s) (by omega) hUlen,
                setSlice_drop _ _ _ (by simp; omega), List.drop_of_length_le (by simp; omega)]
              simp
            obtain ⟨r1, r2, _, r4⟩ := tail_run alloc _ T (k - 1) b1 ht hwf (by omega) e2
            rw [finish_complete alloc _ n (WF_foldl alloc T b1 hwf) r1 r2, r4, hlive]
          · -- a continuing slot: hand over to the induction hypothesis with the longer tail
            have c4' : ¬ (order s / 64 % 2 = 1) := fun h => c4 ((spec_ordLast s).2 h)
            rw [if_neg c4]
            simp only [spec_ldirName]
            have ht' : TailOk (lfnChecksum n) (s :: T) (k + 1 - 1) := by
              refine ⟨by omega, by omega, c4', c2', ?_⟩
              simpa using ht
            have := ih (k + 1) (s :: T) ht' (by omega)
            simpa [tailUnits, hrun] using this

/-! ### the two directory loops -/

/-- the model-side rendering of a specification entry: the specification's own long name (`SpecEntry.name`: the units
    before the first `0x0000` of the complete run, 1 … 255 of them), or no long name -/
def specToModel (e : DirSpec.SpecEntry) : LfnEntry :=
  ⟨e.sfn, e.name.getD [], e.beginIdx, e.endIdx⟩

theorem specToModel_mk (s : List Nat) (o : Option (List Nat)) (bg en : Nat) :
    specToModel ⟨s, o, bg, en⟩ = ⟨s, outName o, bg, en⟩ := by
  cases o with
  | none => simp [specToModel, outName, DirSpec.SpecEntry.name]
  | some r =>
    simp only [specToModel, outName, capName, DirSpec.SpecEntry.name, cutAtNul_eq_spec]
    congr 1
    by_cases h1 : 1 ≤ (DirSpec.nameOf r).length
    · by_cases h2 : (DirSpec.nameOf r).length ≤ 255
      · simp [h1, h2, Nat.not_lt.2 h2]
      · simp [h2, Nat.lt_of_not_le h2]
    · have : DirSpec.nameOf r = [] := List.eq_nil_of_length_eq_zero (by omega)
      simp [this]

theorem readLoop_spec (alloc sv : Bool) : ∀ (slots : List (List Nat)) (idx : Nat) (pend : List (List Nat))
    (b0 : LongNameBuilder), Dead alloc b0 → pend.length ≤ idx →
    readLoop alloc sv slots idx (idx - pend.length) (runB alloc b0 pend) =
      (DirSpec.specLoop sv slots idx pend).map specToModel := by
  intro slots
  induction slots with
  | nil => intros; rfl
  | cons s rest ih =>
    intro idx pend b0 h0 hp
    unfold readLoop DirSpec.specLoop
    rw [slotClass_spec]
    have hnew := ih (idx + 1) [] (new alloc) (Dead_new alloc) (Nat.zero_le _)
    simp only [List.length_nil, Nat.sub_zero, runB, List.foldr_nil] at hnew
    have hentry : (⟨s, finish alloc (runB alloc b0 pend) (sfnName s), idx - pend.length, idx + 1⟩ : LfnEntry) =
        specToModel ⟨s, DirSpec.specRun (lfnChecksum (DirSpec.shortName s)) pend 1 [], idx - pend.length,
          idx + 1⟩ := by
      rw [specToModel_mk, spec_shortName]
      have := run_spec alloc (sfnName s) b0 h0 pend 1 [] (by simp [TailOk]) (Nat.le_refl 1)
      simp only [List.foldl_nil, tailUnits] at this
      rw [this]
    by_cases c1 : DirSpec.isEndMark s = true
    · simp [c1]
    · by_cases c2 : DirSpec.isFree s = true
      · simp only [c1, c2, if_true, Bool.false_eq_true, if_false]
        have := ih (idx + 1) [] (clear alloc (runB alloc b0 pend)) (Dead_clear alloc _) (Nat.zero_le _)
        simpa [runB] using this
      · by_cases c3 : DirSpec.isLong s = true
        · simp only [c1, c2, c3, if_true, Bool.false_eq_true, if_false]
          have := ih (idx + 1) (s :: pend) b0 h0 (by simp; omega)
          have e : idx + 1 - (s :: pend).length = idx - pend.length := by simp
          rw [e] at this
          exact this
        · by_cases c4 : DirSpec.isLabel s = true
          · simp only [c1, c2, c3, c4, if_true, Bool.false_eq_true, if_false]
            cases sv
            · simp only [Bool.false_and, Bool.false_eq_true, if_false, List.map_cons]
              rw [hentry, hnew]
            · simp only [Bool.true_and, if_true]
              have := ih (idx + 1) [] (clear alloc (runB alloc b0 pend)) (Dead_clear alloc _) (Nat.zero_le _)
              simpa [runB] using this
          · simp only [c1, c2, c3, c4, Bool.false_eq_true, if_false, Bool.and_false, List.map_cons]
            rw [hentry, hnew]

/-! ### declarative reading of the backward scan -/

/-- `R` (on-disk order) is a complete long-name set for checksum `c`: first slot carries `0x40 | n` with
    `n = |R| ≤ 20`, then ordinals `n-1 … 1` unflagged, one checksum -/
def CompleteRun (c : Nat) (R : List (List Nat)) : Prop :=
  ∃ s0 T, R = s0 :: T ∧ order s0 % 32 = T.length + 1 ∧ T.length + 1 ≤ 20 ∧ order s0 / 64 % 2 = 1 ∧
    chk s0 = c ∧ TailOk c T T.length

/-- all units of a run in name order -/
def runUnits (R : List (List Nat)) : List Nat := tailUnits R

theorem TailOk_length (c : Nat) : ∀ T j, TailOk c T j → T.length = j := by
  intro T
  induction T with
  | nil => intro j h; simp [TailOk] at h; simp [h]
  | cons s T ih =>
    intro j h
    have := ih _ h.2.2.2.2
    have h1 := h.1
    simp only [List.length_cons]; omega

theorem TailOk_append (c : Nat) : ∀ A B j, TailOk c (A ++ B) j → TailOk c B (j - A.length) ∧ A.length ≤ j := by
  intro A
  induction A with
  | nil => intro B j h; simpa using h
  | cons a A ih =>
    intro B j h
    obtain ⟨h1, _, _, _, h5⟩ := h
    have := ih B (j - 1) h5
    simp only [List.length_cons]
    rw [show j - (A.length + 1) = j - 1 - A.length by omega]
    exact ⟨this.1, by omega⟩

/-- soundness: whatever the backward scan returns is a complete set ending right before the short entry -/
theorem specRun_sound (c : Nat) : ∀ Q k T r, TailOk c T (k - 1) → 1 ≤ k →
    DirSpec.specRun c Q k (tailUnits T) = some r →
    ∃ R Q0, Q = R.reverse ++ Q0 ∧ CompleteRun c (R ++ T) ∧ r = runUnits (R ++ T) := by
  intro Q
  induction Q with
  | nil => intro k T r _ _ h; simp [DirSpec.specRun] at h
  | cons s Q ih =>
    intro k T r ht hk h
    unfold DirSpec.specRun at h
    by_cases c1 : k > 20
    · simp [c1] at h
    · by_cases c2 : DirSpec.ldirChk s ≠ c
      · simp [c1, c2] at h
      · by_cases c3 : DirSpec.ordNum s ≠ k
        · simp [c1, c2, c3] at h
        · have c2' : chk s = c := Decidable.not_not.1 c2
          have c3' : order s % 32 = k := Decidable.not_not.1 c3
          have hl := TailOk_length c T _ ht
          by_cases c4 : DirSpec.ordLast s = true
          · simp only [c1, c2, c3, c4, if_true, if_false, Option.some.injEq, spec_ldirName] at h
            refine ⟨[s], Q, by simp, ⟨s, T, rfl, by omega, by omega, (spec_ordLast s).1 c4, c2', ?_⟩, ?_⟩
            · rw [hl]; exact ht
            · simp [runUnits, tailUnits, ← h]
          · simp only [c1, c2, c3, c4, if_false, Bool.false_eq_true, spec_ldirName] at h
            have ht' : TailOk c (s :: T) (k + 1 - 1) :=
              ⟨by omega, by omega, fun hh => c4 ((spec_ordLast s).2 hh), c2', by simpa using ht⟩
            obtain ⟨R, Q0, e1, e2, e3⟩ := ih (k + 1) (s :: T) r ht' (by omega) (by simpa [tailUnits] using h)
            exact ⟨R ++ [s], Q0, by simp [e1], by simpa using e2, by simpa using e3⟩

/-- completeness: a complete set directly before the short entry is found, whatever precedes it -/
theorem specRun_complete_aux (c : Nat) (s0 : List Nat) (Q0 : List (List Nat)) (hc : chk s0 = c)
    (hf : order s0 / 64 % 2 = 1) :
    ∀ Ar B, TailOk c (Ar.reverse ++ B) (Ar.length + B.length) → order s0 % 32 = Ar.length + B.length + 1 →
      Ar.length + B.length + 1 ≤ 20 →
      DirSpec.specRun c (Ar ++ s0 :: Q0) (B.length + 1) (tailUnits B) =
        some (tailUnits (Ar.reverse ++ B) ++ units s0) := by
  intro Ar
  induction Ar with
  | nil =>
    intro B _ ho h20
    simp only [List.nil_append, List.reverse_nil, List.length_nil, Nat.zero_add] at *
    unfold DirSpec.specRun
    have a1 : ¬ (B.length + 1 > 20) := by omega
    have a2 : ¬ (DirSpec.ldirChk s0 ≠ c) := by simp [spec_ldirChk, hc]
    have a3 : ¬ (DirSpec.ordNum s0 ≠ B.length + 1) := by simp [spec_ordNum, ho]
    simp [a1, a2, a3, (spec_ordLast s0).2 hf, spec_ldirName]
  | cons s Ar ih =>
    intro B ht ho h20
    have hsplit : (s :: Ar).reverse ++ B = Ar.reverse ++ (s :: B) := by simp
    rw [hsplit] at ht ⊢
    obtain ⟨hs, _⟩ := TailOk_append c Ar.reverse (s :: B) _ ht
    simp only [List.length_reverse, List.length_cons] at hs
    obtain ⟨_, g2, g3, g4, _⟩ := hs
    simp only [List.cons_append, List.length_cons] at *
    unfold DirSpec.specRun
    have a1 : ¬ (B.length + 1 > 20) := by omega
    have a2 : ¬ (DirSpec.ldirChk s ≠ c) := by simp [spec_ldirChk, g4]
    have a3 : ¬ (DirSpec.ordNum s ≠ B.length + 1) := by rw [spec_ordNum, g2]; omega
    have a4 : ¬ (DirSpec.ordLast s = true) := fun h => g3 ((spec_ordLast s).1 h)
    simp only [a1, a2, a3, a4, if_false, spec_ldirName]
    have := ih (s :: B) (by simpa [Nat.add_assoc, Nat.add_comm 1] using ht) (by simp; omega) (by simp; omega)
    simpa [tailUnits] using this

theorem specRun_complete (c : Nat) (R Q0 : List (List Nat)) (h : CompleteRun c R) :
    DirSpec.specRun c (R.reverse ++ Q0) 1 [] = some (runUnits R) := by
  obtain ⟨s0, T, rfl, h1, h2, h3, h4, h5⟩ := h
  have := specRun_complete_aux c s0 Q0 h4 h3 T.reverse [] (by simpa using h5) (by simpa using h1)
    (by simpa using h2)
  simpa [runUnits, tailUnits] using this

end Lfn
end FatVerif
