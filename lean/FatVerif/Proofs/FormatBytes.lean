import FatVerif.Proofs.FormatValid
set_option linter.unusedSimpArgs false
set_option linter.unusedVariables false
/-! The spec's decoder inverts the model's serialisation on the boot sectors `format_boot_sector` builds. -/
namespace FatVerif.Format
open FatVerif.FormatSpec

/-- field ranges of the option fields that are copied into the boot sector (their Rust types) -/
structure InRange (o : FormatOpts) : Prop where
  media : o.media < 256
  spt : o.spt < 65536
  heads : o.heads < 65536
  drive : ∀ d, o.driveNum = some d → d < 256
  volumeId : o.volumeId < 4294967296
  label : ∀ l, o.label = some l → l.length = 11

theorem len11 (l : List Nat) (h : l.length = 11) : ∃ a b c d e f g h' i j k, l = [a, b, c, d, e, f, g, h', i, j, k] := by
  rcases l with _ | ⟨a, _ | ⟨b, _ | ⟨c, _ | ⟨d, _ | ⟨e, _ | ⟨f, _ | ⟨g, _ | ⟨h', _ | ⟨i, _ | ⟨j, _ | ⟨k, _ | ⟨m, l⟩⟩⟩⟩⟩⟩⟩⟩⟩⟩⟩⟩ <;>
    simp at h
  exact ⟨a, b, c, d, e, f, g, h', i, j, k, rfl⟩

theorem getD_append_lt {A R : List Nat} {i : Nat} (h : i < A.length) : (A ++ R).getD i 0 = A.getD i 0 := by
  simp [List.getD_eq_getElem?_getD, List.getElem?_append_left h]

theorem getD_append_ge {A R : List Nat} {i n : Nat} (hn : A.length = n) (h : n ≤ i) :
    (A ++ R).getD i 0 = R.getD (i - n) 0 := by
  subst hn
  simp [List.getD_eq_getElem?_getD, List.getElem?_append_right h]

theorem code12_len : ((bootCodeFor .fat12).take 448).length = 448 := by decide +kernel
theorem code16_len : ((bootCodeFor .fat16).take 448).length = 448 := by decide +kernel
theorem code32_len : ((bootCodeFor .fat32).take 420).length = 420 := by decide +kernel

set_option maxHeartbeats 2000000 in
set_option maxRecDepth 4000 in
theorem decode_bootOf_12 (o : FormatOpts) (t spf spc : Nat) (hr : InRange o)
    (hbps : o.bps < 65536) (hfats : o.fats < 256) (hroot : o.rootEntries < 65536)
    (ht : t < 4294967296) (hspf1 : 1 ≤ spf) (h16 : spf ≤ 65535) (hspc : spc < 256)
    (a b c d e f g h' i j k : Nat) (dn : Nat) (hdn : dn < 256)
    (hl : o.label.getD noNameLabel = [a, b, c, d, e, f, g, h', i, j, k])
    (hd : o.driveNum.getD 0 = dn) :
    decodeBoot (bootOf o t .fat12 spf spc).serialize = viewOfBoot (bootOf o t .fat12 spf spc) ∧
    (bootOf o t .fat12 spf spc).serialize.length = 512 := by
  have hne : (spf == 0) = false := by simp; omega
  have hser : (bootOf o t .fat12 spf spc).serialize =
      ([0xEB, 0x3C, 0x90] ++ oemName ++ (mkBpb o t ⟨.fat12, 1, spf, spc⟩ spf).serialize) ++
      (((bootCodeFor .fat12).take 448) ++ [0x55, 0xAA]) := by
    simp [FBoot.serialize, bootOf, bootJmpFor, FBpb.isFat32, mkBpb, hne, reservedFor]
  have hH : ∃ H : List Nat, H.length = 62 ∧
      ([0xEB, 0x3C, 0x90] ++ oemName ++ (mkBpb o t ⟨.fat12, 1, spf, spc⟩ spf).serialize) = H ∧
      H = [0xEB, 0x3C, 0x90] ++ oemName ++ (mkBpb o t ⟨.fat12, 1, spf, spc⟩ spf).serialize := by
    refine ⟨_, ?_, rfl, rfl⟩
    simp [FBpb.serialize, FBpb.isFat32, mkBpb, hne, bytesLe16, bytesLe32, oemName, hl, fsTypeLabelOf]
  obtain ⟨H, hlen, hH1, hH2⟩ := hH
  have hL512 : (bootOf o t .fat12 spf spc).serialize.length = 512 := by
    rw [hser, hH1, List.length_append, List.length_append, hlen, code12_len]; rfl
  refine ⟨?_, hL512⟩
  rw [hser, hH1]
  have rdH : ∀ i, i < 62 → rd8 (H ++ (List.take 448 (bootCodeFor .fat12) ++ [0x55, 0xAA])) i = H.getD i 0 := by
    intro i hi; unfold rd8; exact getD_append_lt (by omega)
  have rdS : ∀ i, 510 ≤ i → rd8 (H ++ (List.take 448 (bootCodeFor .fat12) ++ [0x55, 0xAA])) i = [0x55, 0xAA].getD (i - 510) 0 := by
    intro i hi; unfold rd8
    rw [getD_append_ge hlen (by omega), getD_append_ge code12_len (by omega)]
    rfl
  have r2 : List.range 2 = [0, 1] := rfl
  have r3 : List.range 3 = [0, 1, 2] := rfl
  have r8 : List.range 8 = [0, 1, 2, 3, 4, 5, 6, 7] := rfl
  have r11 : List.range 11 = [0, 1, 2, 3, 4, 5, 6, 7, 8, 9, 10] := rfl
  have h22 : rd16 (H ++ (List.take 448 (bootCodeFor .fat12) ++ [0x55, 0xAA])) 22 = spf := by
    unfold rd16
    rw [rdH 22 (by omega), rdH 23 (by omega), hH2]
    simp [FBpb.serialize, FBpb.isFat32, mkBpb, hne, bytesLe16, bytesLe32, oemName]
    omega
  have hne2 : ¬ spf = 0 := by omega
  simp only [decodeBoot, h22, hne2, if_false, ↓reduceIte]
  simp only [rdN, r2, r3, r8, r11, List.map_cons, List.map_nil, rd16, rd32]
  simp (disch := omega) only [rdH, rdS]
  rw [hH2]
  simp [FBpb.serialize, FBpb.isFat32, mkBpb, hne, bytesLe16, bytesLe32, oemName, hl, fsTypeLabelOf, viewOfBoot,
    bootOf, bootJmpFor, reservedFor, hd]
  have := hr.media; have := hr.spt; have := hr.heads; have := hr.volumeId
  refine ⟨?_, ?_, ?_, ?_, ?_, ?_, ?_, ?_, ?_, ?_, ?_⟩
  all_goals (try split)
  all_goals omega

set_option maxHeartbeats 2000000 in
set_option maxRecDepth 4000 in
theorem decode_bootOf_16 (o : FormatOpts) (t spf spc : Nat) (hr : InRange o)
    (hbps : o.bps < 65536) (hfats : o.fats < 256) (hroot : o.rootEntries < 65536)
    (ht : t < 4294967296) (hspf1 : 1 ≤ spf) (h16 : spf ≤ 65535) (hspc : spc < 256)
    (a b c d e f g h' i j k : Nat) (dn : Nat) (hdn : dn < 256)
    (hl : o.label.getD noNameLabel = [a, b, c, d, e, f, g, h', i, j, k])
    (hd : o.driveNum.getD 0x80 = dn) :
    decodeBoot (bootOf o t .fat16 spf spc).serialize = viewOfBoot (bootOf o t .fat16 spf spc) ∧
    (bootOf o t .fat16 spf spc).serialize.length = 512 := by
  have hne : (spf == 0) = false := by simp; omega
  have hser : (bootOf o t .fat16 spf spc).serialize =
      ([0xEB, 0x3C, 0x90] ++ oemName ++ (mkBpb o t ⟨.fat16, 1, spf, spc⟩ spf).serialize) ++
      (((bootCodeFor .fat16).take 448) ++ [0x55, 0xAA]) := by
    simp [FBoot.serialize, bootOf, bootJmpFor, FBpb.isFat32, mkBpb, hne, reservedFor]
  have hH : ∃ H : List Nat, H.length = 62 ∧
      ([0xEB, 0x3C, 0x90] ++ oemName ++ (mkBpb o t ⟨.fat16, 1, spf, spc⟩ spf).serialize) = H ∧
      H = [0xEB, 0x3C, 0x90] ++ oemName ++ (mkBpb o t ⟨.fat16, 1, spf, spc⟩ spf).serialize := by
    refine ⟨_, ?_, rfl, rfl⟩
    simp [FBpb.serialize, FBpb.isFat32, mkBpb, hne, bytesLe16, bytesLe32, oemName, hl, fsTypeLabelOf]
  obtain ⟨H, hlen, hH1, hH2⟩ := hH
  have hL512 : (bootOf o t .fat16 spf spc).serialize.length = 512 := by
    rw [hser, hH1, List.length_append, List.length_append, hlen, code16_len]; rfl
  refine ⟨?_, hL512⟩
  rw [hser, hH1]
  have rdH : ∀ i, i < 62 → rd8 (H ++ (List.take 448 (bootCodeFor .fat16) ++ [0x55, 0xAA])) i = H.getD i 0 := by
    intro i hi; unfold rd8; exact getD_append_lt (by omega)
  have rdS : ∀ i, 510 ≤ i → rd8 (H ++ (List.take 448 (bootCodeFor .fat16) ++ [0x55, 0xAA])) i = [0x55, 0xAA].getD (i - 510) 0 := by
    intro i hi; unfold rd8
    rw [getD_append_ge hlen (by omega), getD_append_ge code16_len (by omega)]
    rfl
  have r2 : List.range 2 = [0, 1] := rfl
  have r3 : List.range 3 = [0, 1, 2] := rfl
  have r8 : List.range 8 = [0, 1, 2, 3, 4, 5, 6, 7] := rfl
  have r11 : List.range 11 = [0, 1, 2, 3, 4, 5, 6, 7, 8, 9, 10] := rfl
  have h22 : rd16 (H ++ (List.take 448 (bootCodeFor .fat16) ++ [0x55, 0xAA])) 22 = spf := by
    unfold rd16
    rw [rdH 22 (by omega), rdH 23 (by omega), hH2]
    simp [FBpb.serialize, FBpb.isFat32, mkBpb, hne, bytesLe16, bytesLe32, oemName]
    omega
  have hne2 : ¬ spf = 0 := by omega
  simp only [decodeBoot, h22, hne2, if_false, ↓reduceIte]
  simp only [rdN, r2, r3, r8, r11, List.map_cons, List.map_nil, rd16, rd32]
  simp (disch := omega) only [rdH, rdS]
  rw [hH2]
  simp [FBpb.serialize, FBpb.isFat32, mkBpb, hne, bytesLe16, bytesLe32, oemName, hl, fsTypeLabelOf, viewOfBoot,
    bootOf, bootJmpFor, reservedFor, hd]
  have := hr.media; have := hr.spt; have := hr.heads; have := hr.volumeId
  refine ⟨?_, ?_, ?_, ?_, ?_, ?_, ?_, ?_, ?_, ?_, ?_⟩
  all_goals (try split)
  all_goals omega

set_option maxHeartbeats 2000000 in
set_option maxRecDepth 4000 in
theorem decode_bootOf_32 (o : FormatOpts) (t spf spc : Nat) (hr : InRange o)
    (hbps : o.bps < 65536) (hfats : o.fats < 256) (hroot : o.rootEntries < 65536)
    (ht : t < 4294967296) (hspf1 : 1 ≤ spf) (h16 : spf < 4294967296) (hspc : spc < 256)
    (a b c d e f g h' i j k : Nat) (dn : Nat) (hdn : dn < 256)
    (hl : o.label.getD noNameLabel = [a, b, c, d, e, f, g, h', i, j, k])
    (hd : o.driveNum.getD 0x80 = dn) :
    decodeBoot (bootOf o t .fat32 spf spc).serialize = viewOfBoot (bootOf o t .fat32 spf spc) ∧
    (bootOf o t .fat32 spf spc).serialize.length = 512 := by
  have hne : ((0 : Nat) == 0) = true := rfl
  have hser : (bootOf o t .fat32 spf spc).serialize =
      ([0xEB, 0x58, 0x90] ++ oemName ++ (mkBpb o t ⟨.fat32, 8, spf, spc⟩ 0).serialize) ++
      (((bootCodeFor .fat32).take 420) ++ [0x55, 0xAA]) := by
    simp [FBoot.serialize, bootOf, bootJmpFor, FBpb.isFat32, mkBpb, hne, reservedFor]
  have hH : ∃ H : List Nat, H.length = 90 ∧
      ([0xEB, 0x58, 0x90] ++ oemName ++ (mkBpb o t ⟨.fat32, 8, spf, spc⟩ 0).serialize) = H ∧
      H = [0xEB, 0x58, 0x90] ++ oemName ++ (mkBpb o t ⟨.fat32, 8, spf, spc⟩ 0).serialize := by
    refine ⟨_, ?_, rfl, rfl⟩
    simp [FBpb.serialize, FBpb.isFat32, mkBpb, hne, bytesLe16, bytesLe32, oemName, hl, fsTypeLabelOf]
  obtain ⟨H, hlen, hH1, hH2⟩ := hH
  have hL512 : (bootOf o t .fat32 spf spc).serialize.length = 512 := by
    rw [hser, hH1, List.length_append, List.length_append, hlen, code32_len]; rfl
  refine ⟨?_, hL512⟩
  rw [hser, hH1]
  have rdH : ∀ i, i < 90 → rd8 (H ++ (List.take 420 (bootCodeFor .fat32) ++ [0x55, 0xAA])) i = H.getD i 0 := by
    intro i hi; unfold rd8; exact getD_append_lt (by omega)
  have rdS : ∀ i, 510 ≤ i → rd8 (H ++ (List.take 420 (bootCodeFor .fat32) ++ [0x55, 0xAA])) i = [0x55, 0xAA].getD (i - 510) 0 := by
    intro i hi; unfold rd8
    rw [getD_append_ge hlen (by omega), getD_append_ge code32_len (by omega)]
    rfl
  have r2 : List.range 2 = [0, 1] := rfl
  have r3 : List.range 3 = [0, 1, 2] := rfl
  have r8 : List.range 8 = [0, 1, 2, 3, 4, 5, 6, 7] := rfl
  have r11 : List.range 11 = [0, 1, 2, 3, 4, 5, 6, 7, 8, 9, 10] := rfl
  have h22 : rd16 (H ++ (List.take 420 (bootCodeFor .fat32) ++ [0x55, 0xAA])) 22 = 0 := by
    unfold rd16
    rw [rdH 22 (by omega), rdH 23 (by omega), hH2]
    simp [FBpb.serialize, FBpb.isFat32, mkBpb, bytesLe16, bytesLe32, oemName]
  simp only [decodeBoot, h22, if_true, ↓reduceIte]
  simp only [rdN, r2, r3, r8, r11, List.map_cons, List.map_nil, rd16, rd32]
  simp (disch := omega) only [rdH, rdS]
  rw [hH2]
  simp [FBpb.serialize, FBpb.isFat32, mkBpb, hne, bytesLe16, bytesLe32, oemName, hl, fsTypeLabelOf, viewOfBoot,
    bootOf, bootJmpFor, reservedFor, hd]
  have := hr.media; have := hr.spt; have := hr.heads; have := hr.volumeId
  refine ⟨?_, ?_, ?_, ?_, ?_, ?_, ?_, ?_, ?_, ?_⟩
  all_goals omega

/-- on every boot sector `format_boot_sector` can build, the spec's decoder recovers exactly the projected fields -/
theorem decode_bootOf (o : FormatOpts) (t spf spc : Nat) (ft : FatType) (hr : InRange o)
    (hbps : o.bps < 65536) (hfats : o.fats < 256) (hroot : o.rootEntries < 65536)
    (ht : t < 4294967296) (hspf1 : 1 ≤ spf) (hspf32 : spf < 4294967296) (h16 : ft ≠ .fat32 → spf ≤ 65535)
    (hspc : spc < 256) :
    decodeBoot (bootOf o t ft spf spc).serialize = viewOfBoot (bootOf o t ft spf spc) ∧
    (bootOf o t ft spf spc).serialize.length = 512 := by
  have hlen : (o.label.getD noNameLabel).length = 11 := by
    cases hlab : o.label with
    | none => rfl
    | some l => exact hr.label l hlab
  obtain ⟨a, b, c, d, e, f, g, h', i, j, k, hl⟩ := len11 _ hlen
  have hdn : ∀ x, x < 256 → o.driveNum.getD x < 256 := by
    intro x hx
    cases hdr : o.driveNum with
    | none => exact hx
    | some dd => exact hr.drive dd hdr
  cases ft
  · exact decode_bootOf_12 o t spf spc hr hbps hfats hroot ht hspf1 (h16 (by simp)) hspc a b c d e f g h' i j k _
      (hdn 0 (by omega)) hl rfl
  · exact decode_bootOf_16 o t spf spc hr hbps hfats hroot ht hspf1 (h16 (by simp)) hspc a b c d e f g h' i j k _
      (hdn 0x80 (by omega)) hl rfl
  · exact decode_bootOf_32 o t spf spc hr hbps hfats hroot ht hspf1 hspf32 hspc a b c d e f g h' i j k _
      (hdn 0x80 (by omega)) hl rfl

end FatVerif.Format
