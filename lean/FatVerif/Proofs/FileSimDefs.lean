import FatVerif.Proofs.FileSimIter
import FatVerif.Props.C02
/-!
# FileSim, part 3: the abstraction `absFile`, the representation invariant `FileRep`

`absFile fs img f` maps a byte-level handle `f : FileH` on the image `img` of a volume mounted as `fs` to a state of the
cursor machine `Cursor.AFile` (Model/AFile.lean):

* `cs` = `fs.clusterSize`;
* `chain` = the clusters reached from `f.firstCluster` by following the `data` links of the decoded FAT of the image
  (`chainFrom (tabView fs img)`, fuel `total + 2`);
* `data c j` = the byte of the image at offset `j` of cluster `c` (`clusterOff fs c + j`);
* `size` = the size recorded in the handle's directory-entry editor; `firstCluster`, `offset`, `current` from the handle;
* the bookkeeping fields `dirty`, `mtime`, `now` of the machine (which no result and no byte depends on) are not
  represented: they are fixed to `false, 0, 0`, and states are compared with `CoreEq`, which ignores them.

`FileRep fs img f`: `f` is a regular file (its editor records a size) and `absFile fs img f` satisfies the cursor
machine's invariant `Cursor.AFileInv` (current cluster = cluster of the byte before the cursor, `⌈size/cs⌉ ≤` chain
length, …) with "free" read off the decoded FAT; the chain is the FAT chain of the first cluster, lies inside the table
`[2, total + 2)`, and ends with an end-of-chain mark.
-/
namespace FatVerif.FileSim
open FatVerif FatVerif.Fat

/-- follow `data` links from `c`, at most `fuel` of them -/
def chainFrom (g : Nat → FatValue) : Nat → Nat → List Nat
  | 0, c => [c]
  | fuel + 1, c =>
    match g c with
    | .data n => c :: chainFrom g fuel n
    | _ => [c]

/-- the chain of the file in the image -/
def fileChain (fs : FsState) (img : Img) (f : FileH) : List Nat :=
  match f.firstCluster with
  | none => []
  | some c => chainFrom (tabView fs img) (fs.totalClusters + 2) c

/-- the abstraction function: byte-level handle + image ↦ cursor-machine state -/
def absFile (fs : FsState) (img : Img) (f : FileH) : Cursor.AFile :=
  { cs := fs.clusterSize
    chain := fileChain fs img f
    data := fun c j => img.getByte (clusterOff fs c + j)
    size := f.size?.getD 0
    firstCluster := f.firstCluster
    offset := f.offset
    current := f.currentCluster
    dirty := false, mtime := 0, now := 0 }

/-- "cluster `c` is free in allocator state `g`" when the allocator state is the decoded FAT -/
def viewFree (g : Nat → FatValue) (c : Nat) : Prop := g c = .free

/-- the representation invariant -/
structure FileRep (fs : FsState) (img : Img) (f : FileH) : Prop where
  /-- a regular file: the editor records a size -/
  file : ∃ sz, f.size? = some sz
  /-- the cursor machine's invariant -/
  inv : Cursor.AFileInv viewFree (absFile fs img f) (tabView fs img)
  /-- the chain is the FAT chain of the first cluster -/
  chain : ∀ c, f.firstCluster = some c → Chain (tabView fs img) c (fileChain fs img f)
  /-- inside the table -/
  inTab : ∀ c ∈ fileChain fs img f, 2 ≤ c ∧ c < fs.totalClusters + 2
  /-- terminated by an end-of-chain mark -/
  last_eoc : ∀ c, (fileChain fs img f).getLast? = some c → tabView fs img c = .eoc

/-- equality of cursor-machine states up to the bookkeeping fields; `data` is compared on the clusters of the chain -/
structure CoreEq (a b : Cursor.AFile) : Prop where
  cs : a.cs = b.cs
  chain : a.chain = b.chain
  data : ∀ c ∈ b.chain, ∀ j, j < b.cs → a.data c j = b.data c j
  size : a.size = b.size
  first : a.firstCluster = b.firstCluster
  offset : a.offset = b.offset
  current : a.current = b.current

theorem CoreEq.refl (a : Cursor.AFile) : CoreEq a a := ⟨rfl, rfl, fun _ _ _ _ => rfl, rfl, rfl, rfl, rfl⟩

theorem CoreEq.of_eq {a b : Cursor.AFile} (h : a = b) : CoreEq a b := h ▸ CoreEq.refl a

/-- core-equal states have the same byte-array abstraction, given that the chain covers the size -/
theorem CoreEq.abs_eq {a b : Cursor.AFile} (h : CoreEq a b) (hcs : 0 < b.cs) (hcov : b.size ≤ b.chain.length * b.cs) :
    a.abs = b.abs := by
  unfold Cursor.AFile.abs
  rw [h.offset]
  congr 1
  unfold Cursor.AFile.content
  rw [h.size]
  apply List.map_congr_left
  intro p hp
  have hp' : p < b.size := List.mem_range.mp hp
  have hpi : p / b.cs < b.chain.length := Cursor.div_lt_of_lt_mul' (Nat.lt_of_lt_of_le hp' hcov)
  unfold Cursor.AFile.byteAt
  rw [h.cs, h.chain]
  have hmem : b.chain.getD (p / b.cs) 0 ∈ b.chain := by
    rw [List.getD_eq_getElem?_getD, List.getElem?_eq_getElem hpi]
    exact List.getElem_mem hpi
  exact h.data _ hmem _ (Nat.mod_lt _ hcs)

/-! ### chains of the view as lists -/

theorem chain_nextV_getElem? {g : Nat → FatValue} {c : Nat} {cs : List Nat} (h : Chain g c cs) :
    ∀ i a, cs[i]? = some a → nextV g a = cs[i + 1]? := by
  induction h with
  | last m hl =>
    intro i a hi
    cases i with
    | zero => simp at hi; subst hi; simp [nextV_last hl]
    | succ i => simp at hi
  | cons m k ms hd hc ih =>
    intro i a hi
    cases i with
    | zero =>
      simp at hi; subst hi
      obtain ⟨t, rfl⟩ := chain_head hc
      simp [nextV_data hd]
    | succ i =>
      have : ms[i]? = some a := by simpa using hi
      rw [ih i a this]; simp

theorem chainFrom_of_chain {g : Nat → FatValue} {c : Nat} {cs : List Nat} (h : Chain g c cs) :
    ∀ fuel, cs.length ≤ fuel + 1 → chainFrom g fuel c = cs := by
  induction h with
  | last m hl =>
    intro fuel _
    cases fuel with
    | zero => rfl
    | succ k =>
      unfold chainFrom
      cases hg : g m with
      | data n => exact absurd hg (hl n)
      | _ => rfl
  | cons m k ms hd hc ih =>
    intro fuel hlen
    cases fuel with
    | zero =>
      have := chain_ne_nil hc
      cases ms with
      | nil => exact absurd rfl this
      | cons _ _ => simp at hlen
    | succ j =>
      unfold chainFrom
      rw [hd]
      simp only
      rw [ih j (by simp at hlen; omega)]

/-! ### `nextCluster` and the walk of `seek` -/

theorem run_getFs (d : Dev) : run Prog.getFs d = (.ok d.fs, d) := rfl

/-- `fs.cluster_iter(c).next()` at a cluster of the table: the link of the decoded FAT -/
theorem run_nextCluster (c : Nat) (d : Dev) (h : d.failAt = none) (hg : Geo d.fs d.img.size)
    (hin : c < d.fs.totalClusters + 2) :
    ∃ d', run (nextCluster c) d = (.ok (nextV (tabView d.fs d.img) c), d') ∧ SameStore d d' := by
  obtain ⟨d1, s1, h1, hs1, _⟩ := run_citer_next d.fs { fat := fatSliceOf d.fs, cluster := some c } c d h hg
    (isFatSlice_self _) rfl rfl hin
  refine ⟨d1, ?_, hs1⟩
  unfold nextCluster
  rw [run_bind_ok (run_getFs d)]
  simp only
  rw [run_bind_ok h1]
  simp only
  cases nextV (tabView d.fs d.img) c <;> rfl

end FatVerif.FileSim
