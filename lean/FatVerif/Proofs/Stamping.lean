import FatVerif.Proofs.StampingClock
import FatVerif.Proofs.DirEntry
import FatVerif.Model.DirOps
/-! C18.4 (stamping rules), part 2: what the clock-reading programs store. -/
namespace FatVerif

/-! ### the model clock always yields values `Date::new` / `Time::new` accept -/

theorem clockDate_inRange (ms : Nat) :
    Date.inRange (clockDate ms).year (clockDate ms).month (clockDate ms).day := by
  simp only [Date.inRange, clockDate]; omega

theorem clockTime_inRange (ms : Nat) :
    Time.inRange (clockTime ms).hour (clockTime ms).min (clockTime ms).sec (clockTime ms).millis := by
  simp only [Time.inRange, clockTime]; omega

/-- a decoded time is a fixed point of the rounding its field applies -/
theorem Time.round10_decode (raw hi : Nat) : (Time.decode raw hi).round10 = Time.decode raw hi := by
  simp only [Time.decode, Time.round10, Time.mk.injEq]
  refine ⟨trivial, trivial, trivial, ?_⟩; omega

theorem Time.round2s_decode_zero (raw : Nat) : (Time.decode raw 0).round2s = Time.decode raw 0 := by
  simp only [Time.decode, Time.round2s, Time.mk.injEq]
  refine ⟨trivial, trivial, ?_, ?_⟩ <;> first | omega | trivial

/-! ### the time fields of a record -/

/-- the raw time fields: byte 13, bytes 14–15, 16–17 (created), 18–19 (accessed), 22–23, 24–25 (modified) -/
def DirFileEntryData.timeFields (e : DirFileEntryData) : Nat × Nat × Nat × Nat × Nat × Nat :=
  (e.createTime0, e.createTime1, e.createDate, e.accessDate, e.modifyTime, e.modifyDate)

/-- the three getters read nothing but the time fields -/
theorem DirFileEntryData.getters_of_timeFields {a b : DirFileEntryData} (h : a.timeFields = b.timeFields) :
    a.created = b.created ∧ a.accessed = b.accessed ∧ a.modified = b.modified := by
  simp only [timeFields, Prod.mk.injEq] at h
  obtain ⟨h1, h2, h3, h4, h5, h6⟩ := h
  simp only [created, accessed, modified, h1, h2, h3, h4, h5, h6, and_self]

theorem DirFileEntryData.timeFields_setFirstCluster (e : DirFileEntryData) (c : Option Nat) (ft : FatType) :
    (e.setFirstCluster c ft).timeFields = e.timeFields := rfl
theorem DirFileEntryData.timeFields_setSize (e : DirFileEntryData) (n : Nat) :
    (e.setSize n).timeFields = e.timeFields := rfl
theorem DirFileEntryData.timeFields_renamed (e : DirFileEntryData) (sn : List Nat) :
    (e.renamed sn).timeFields = e.timeFields := rfl
theorem DirFileEntryData.timeFields_setDeleted (e : DirFileEntryData) : e.setDeleted.timeFields = e.timeFields := rfl

theorem DirEntryEditor.timeFields_setFirstCluster (ed : DirEntryEditor) (c : Option Nat) (ft : FatType) :
    (ed.setFirstCluster c ft).data.timeFields = ed.data.timeFields ∧ (ed.setFirstCluster c ft).pos = ed.pos := by
  unfold DirEntryEditor.setFirstCluster; split <;> exact ⟨rfl, rfl⟩

theorem DirEntryEditor.timeFields_setSize (ed : DirEntryEditor) (n : Nat) :
    (ed.setSize n).data.timeFields = ed.data.timeFields ∧ (ed.setSize n).pos = ed.pos := by
  unfold DirEntryEditor.setSize
  split
  · split <;> exact ⟨rfl, rfl⟩
  · exact ⟨rfl, rfl⟩

/-! ### what the editor's setters leave in the record -/

/-- `DirEntryEditor::set_modified`: whether or not the latch fires, the record afterwards reads back the 2 s rounding
    of the argument; the other two stamps and the position are untouched -/
theorem DirEntryEditor.setModified_reads (ed : DirEntryEditor) (dt : DateTime)
    (hd : Date.inRange dt.date.year dt.date.month dt.date.day)
    (ht : Time.inRange dt.time.hour dt.time.min dt.time.sec dt.time.millis) :
    (ed.setModified dt).data.modified = ⟨dt.date, dt.time.round2s⟩ ∧
    (ed.setModified dt).data.created = ed.data.created ∧ (ed.setModified dt).data.accessed = ed.data.accessed ∧
    (ed.setModified dt).pos = ed.pos := by
  unfold DirEntryEditor.setModified
  split
  · exact ⟨DirFileEntryData.modified_setModified _ _ hd ht, rfl, rfl, rfl⟩
  · rename_i h
    have h' : dt = ed.data.modified := Classical.not_not.mp h
    refine ⟨?_, rfl, rfl, rfl⟩
    rw [h']
    simp only [DirFileEntryData.modified, DateTime.decode, Time.round2s_decode_zero]

theorem DirEntryEditor.setCreated_reads (ed : DirEntryEditor) (dt : DateTime)
    (hd : Date.inRange dt.date.year dt.date.month dt.date.day)
    (ht : Time.inRange dt.time.hour dt.time.min dt.time.sec dt.time.millis) :
    (ed.setCreated dt).data.created = ⟨dt.date, dt.time.round10⟩ ∧
    (ed.setCreated dt).data.accessed = ed.data.accessed ∧ (ed.setCreated dt).data.modified = ed.data.modified ∧
    (ed.setCreated dt).pos = ed.pos := by
  unfold DirEntryEditor.setCreated
  split
  · exact ⟨DirFileEntryData.created_setCreated _ _ hd ht, rfl, rfl, rfl⟩
  · rename_i h
    have h' : dt = ed.data.created := Classical.not_not.mp h
    refine ⟨?_, rfl, rfl, rfl⟩
    rw [h']
    simp only [DirFileEntryData.created, DateTime.decode, Time.round10_decode]

theorem DirEntryEditor.setAccessed_reads (ed : DirEntryEditor) (d : Date)
    (hd : Date.inRange d.year d.month d.day) :
    (ed.setAccessed d).data.accessed = d ∧
    (ed.setAccessed d).data.created = ed.data.created ∧ (ed.setAccessed d).data.modified = ed.data.modified ∧
    (ed.setAccessed d).pos = ed.pos := by
  unfold DirEntryEditor.setAccessed
  split
  · exact ⟨DirFileEntryData.accessed_setAccessed _ _ hd, rfl, rfl, rfl⟩
  · rename_i h
    exact ⟨(Classical.not_not.mp h).symm, rfl, rfl, rfl⟩

/-- `set_accessed` changes no field other than `access_date` -/
theorem DirEntryEditor.setAccessed_data (ed : DirEntryEditor) (d : Date) :
    (ed.setAccessed d).data = { ed.data with accessDate := (ed.setAccessed d).data.accessDate } := by
  unfold DirEntryEditor.setAccessed
  split <;> rfl

/-! ### (1) `create_sfn_entry` -/

/-- the whole run: clock reads only, no device call, cannot fail, the device is left exactly as it was -/
theorem createSfnEntry_run (sn : List Nat) (attrs : Nat) (first : Option Nat) (d : Dev) :
    run (createSfnEntry sn attrs first) d =
      (.ok (((((DirFileEntryData.new sn attrs).setFirstCluster first d.fs.fatType).setCreated
          (clockDateTime d.clock)).setAccessed (clockDateTime d.clock).date).setModified (clockDateTime d.clock)),
       d) := by
  simp only [createSfnEntry, bind, pure, Prog.getFs, Prog.now, run, stepOp]

/-! ### `update_dir_entry_after_write` -/

theorem updateAfterWrite_spec (f : FileH) (d : Dev) {r : Except Err FileH} {d' : Dev}
    (hr : run f.updateAfterWrite d = (r, d')) :
    (f.entry = none → r = .ok f ∧ d' = d) ∧
    (∀ e, f.entry = some e → d' = d ∧ ∃ f' e', r = .ok f' ∧ f'.entry = some e' ∧
      f' = { f with entry := some e' } ∧
      e'.data.modified = ⟨(clockDateTime d.clock).date, (clockDateTime d.clock).time.round2s⟩ ∧
      e'.data.created = e.data.created ∧ e'.data.accessed = e.data.accessed ∧ e'.pos = e.pos) := by
  unfold FileH.updateAfterWrite at hr
  split at hr
  · rename_i e he
    refine ⟨fun h => (by rw [he] at h; cases h), fun e0 he0 => ?_⟩
    rw [he] at he0; cases he0
    rcases run_bind_cases hr with ⟨t, d1, h1, h2⟩ | ⟨e', h1, _⟩
    · rw [run_now] at h1
      cases h1
      have h2' : run (Prog.pure _) d = (r, d') := h2
      simp only [run] at h2'
      cases h2'
      refine ⟨rfl, _, _, rfl, rfl, rfl, ?_⟩
      have hm := DirEntryEditor.setModified_reads e (clockDateTime d.clock) (clockDate_inRange _) (clockTime_inRange _)
      have key : ∀ ed : DirEntryEditor, ed.data.timeFields = (e.setModified (clockDateTime d.clock)).data.timeFields →
          ed.pos = (e.setModified (clockDateTime d.clock)).pos →
          ed.data.modified = ⟨(clockDateTime d.clock).date, (clockDateTime d.clock).time.round2s⟩ ∧
          ed.data.created = e.data.created ∧ ed.data.accessed = e.data.accessed ∧ ed.pos = e.pos := by
        intro ed htf hpos
        obtain ⟨g1, g2, g3⟩ := DirFileEntryData.getters_of_timeFields htf
        exact ⟨g3.trans hm.1, g1.trans hm.2.1, g2.trans hm.2.2.1, hpos.trans hm.2.2.2⟩
      split
      · split
        · exact key _ (DirEntryEditor.timeFields_setSize _ _).1 (DirEntryEditor.timeFields_setSize _ _).2
        · exact key _ rfl rfl
      · exact key _ rfl rfl
    · rw [run_now] at h1; cases h1
  · rename_i hnone
    have hr' : run (Prog.pure f) d = (r, d') := hr
    simp only [run] at hr'; cases hr'
    exact ⟨fun _ => ⟨rfl, rfl⟩, fun e he => (by rw [hnone] at he; cases he)⟩

/-! ### (2) `File::write` -/

/-- two optional editors carry the same time fields at the same position (or are both absent) -/
def SameStamps (a b : Option DirEntryEditor) : Prop :=
  match a, b with
  | none, none => True
  | some x, some y => y.data.timeFields = x.data.timeFields ∧ y.pos = x.pos
  | _, _ => False

theorem SameStamps.refl (a : Option DirEntryEditor) : SameStamps a a := by
  cases a <;> simp [SameStamps]

theorem SameStamps.setFirstCluster (fs : FsState) (f : FileH) (c : Nat) :
    SameStamps f.entry (FileH.setFirstCluster fs f c).entry := by
  unfold FileH.setFirstCluster
  cases h : f.entry with
  | none => simp [SameStamps]
  | some e => simpa [SameStamps] using DirEntryEditor.timeFields_setFirstCluster e (some c) fs.fatType

theorem SameStamps.some_inv {e : DirEntryEditor} {b : Option DirEntryEditor} (h : SameStamps (some e) b) :
    ∃ e', b = some e' ∧ e'.data.timeFields = e.data.timeFields ∧ e'.pos = e.pos := by
  cases b with
  | none => simp [SameStamps] at h
  | some y => exact ⟨y, rfl, h⟩

theorem SameStamps.none_inv {b : Option DirEntryEditor} (h : SameStamps none b) : b = none := by
  cases b with
  | none => rfl
  | some y => simp [SameStamps] at h

/-- `File::write`, successful.  The clock is never changed.  Returning 0: the handle's time fields are as before.
    Returning `n > 0` on a handle with a directory entry: the entry's modified stamp reads back the operation's clock
    value `d.clock` at 2 s resolution, created / accessed and the entry position are untouched. -/
theorem write_stamps (f : FileH) (buf : List Nat) (d : Dev) {n : Nat} {f' : FileH} {d' : Dev}
    (hr : run (f.write buf) d = (.ok (n, f'), d')) :
    SameClock d d' ∧
    (n = 0 → SameStamps f.entry f'.entry) ∧
    (0 < n →
      (f.entry = none → f'.entry = none) ∧
      (∀ e, f.entry = some e →
        ∃ e', f'.entry = some e' ∧
          e'.data.modified = ⟨(clockDateTime d.clock).date, (clockDateTime d.clock).time.round2s⟩ ∧
          e'.data.created = e.data.created ∧ e'.data.accessed = e.data.accessed ∧ e'.pos = e.pos)) := by
  refine ⟨run_sameClock hr, ?_⟩
  unfold FileH.write at hr
  rcases run_bind_cases hr with ⟨fs, d0, h0, hr⟩ | ⟨e, _, he⟩
  rotate_left
  · cases he
  have c0 : SameClock d d0 := run_sameClock h0
  dsimp only at hr
  split at hr
  · have hr' : run (Prog.pure ((0 : Nat), f)) d0 = (.ok (n, f'), d') := hr
    simp only [run] at hr'; cases hr'
    exact ⟨fun _ => SameStamps.refl _, fun h => by omega⟩
  · rcases run_bind_cases hr with ⟨_, d1, h1, hr⟩ | ⟨e, _, he⟩
    rotate_left
    · cases he
    have c1 : SameClock d0 d1 := run_sameClock h1
    rcases run_bind_cases hr with ⟨⟨cur, f1⟩, d2, hsel, hr⟩ | ⟨e, _, he⟩
    rotate_left
    · cases he
    have c2 : SameClock d1 d2 :=
      run_sameClock hsel
    have hst : SameStamps f.entry f1.entry := by
      split at hsel
      · rcases run_bind_cases hsel with ⟨nxt, dA, _, hB⟩ | ⟨e, _, he⟩
        rotate_left
        · cases he
        split at hB
        · have hB' : run (Prog.pure (_, f)) dA = (.ok (cur, f1), d2) := hB
          simp only [run] at hB'; cases hB'
          exact SameStamps.refl _
        · rcases run_bind_cases hB with ⟨c, dB, _, hC⟩ | ⟨e, _, he⟩
          rotate_left
          · cases he
          have hC' : run (Prog.pure (c, if f.firstCluster.isNone then FileH.setFirstCluster fs f c else f)) dB =
              (.ok (cur, f1), d2) := hC
          simp only [run] at hC'; cases hC'
          split
          · exact SameStamps.setFirstCluster fs f _
          · exact SameStamps.refl _
      · split at hsel
        · have hB' : run (Prog.pure (_, f)) d1 = (.ok (cur, f1), d2) := hsel
          simp only [run] at hB'; cases hB'
          exact SameStamps.refl _
        · have hB' : run (Prog.fail .panic) d1 = (.ok (cur, f1), d2) := hsel
          simp only [run] at hB'; cases hB'
    dsimp only at hr
    rcases run_bind_cases hr with ⟨off, d3, h3, hr⟩ | ⟨e, _, he⟩
    rotate_left
    · cases he
    have c3 : SameClock d2 d3 := run_sameClock h3
    rcases run_bind_cases hr with ⟨_, d4, h4, hr⟩ | ⟨e, _, he⟩
    rotate_left
    · cases he
    have c4 : SameClock d3 d4 := run_sameClock h4
    rcases run_bind_cases hr with ⟨m, d5, hw, hr⟩ | ⟨e, _, he⟩
    rotate_left
    · cases he
    have c5 : SameClock d4 d5 := run_sameClock hw
    have c05 : SameClock d d5 :=
      sameClock_ok.trans _ _ _ c0 (sameClock_ok.trans _ _ _ c1 (sameClock_ok.trans _ _ _ c2
        (sameClock_ok.trans _ _ _ c3 (sameClock_ok.trans _ _ _ c4 c5))))
    split at hr
    · have hr' : run (Prog.pure ((0 : Nat), f1)) d5 = (.ok (n, f'), d') := hr
      simp only [run] at hr'; cases hr'
      exact ⟨fun _ => hst, fun h => by omega⟩
    · rename_i hm
      rcases run_bind_cases hr with ⟨f2, d6, hu, hr⟩ | ⟨e, _, he⟩
      rotate_left
      · cases he
      have hr' : run (Prog.pure (m, f2)) d6 = (.ok (n, f'), d') := hr
      simp only [run] at hr'; cases hr'
      have hsp := updateAfterWrite_spec _ d5 hu
      refine ⟨fun h => absurd h hm, fun _ => ⟨fun hnone => ?_, fun e he => ?_⟩⟩
      · rw [hnone] at hst
        have h1n := hst.none_inv
        obtain ⟨hf2, hd6⟩ := hsp.1 h1n
        cases hf2
        exact h1n
      · rw [he] at hst
        obtain ⟨e1, he1, htf, hpos⟩ := hst.some_inv
        obtain ⟨hd6, f3, e', hf3, he', _, hmod, hcr, hac, hp⟩ := hsp.2 e1 he1
        cases hf3
        obtain ⟨g1, g2, _⟩ := DirFileEntryData.getters_of_timeFields htf
        refine ⟨e', he', ?_, hcr.trans g1, hac.trans g2, hp.trans hpos⟩
        rw [hmod, c05.1]

/-! ### (3) `File::read` -/

/-- `File::read`, successful: the clock is never changed; either the handle's editor is untouched, or — only with
    the `update_accessed_date` option on, only when data was returned, only on a handle with a directory entry — the
    editor went through `set_accessed(date of the operation's clock value)`. -/
theorem read_stamps (f : FileH) (n : Nat) (d : Dev) {bs : List Nat} {f' : FileH} {d' : Dev}
    (hr : run (f.read n) d = (.ok (bs, f'), d')) :
    SameClock d d' ∧
    (f'.entry = f.entry ∨
     (d.fs.accDate = true ∧ bs ≠ [] ∧ ∃ e, f.entry = some e ∧
       f'.entry = some (e.setAccessed (clockDate d.clock)))) := by
  refine ⟨run_sameClock hr, ?_⟩
  unfold FileH.read at hr
  rcases run_bind_cases hr with ⟨fs, d0, h0, hr⟩ | ⟨e, _, he⟩
  rotate_left
  · cases he
  simp only [Prog.getFs, run, stepOp] at h0
  cases h0
  dsimp only at hr
  rcases run_bind_cases hr with ⟨curOpt, d1, hcur, hr⟩ | ⟨e, _, he⟩
  rotate_left
  · cases he
  have c1 : SameClock d d1 := run_sameClock hcur
  split at hr
  · have hr' : run (Prog.pure (([] : List Nat), f)) d1 = (.ok (bs, f'), d') := hr
    simp only [run] at hr'; cases hr'
    exact Or.inl rfl
  · rename_i cur
    split at hr
    · have hr' : run (Prog.fail .panic) d1 = (.ok (bs, f'), d') := hr
      simp only [run] at hr'; cases hr'
    · split at hr
      · have hr' : run (Prog.pure (([] : List Nat), f)) d1 = (.ok (bs, f'), d') := hr
        simp only [run] at hr'; cases hr'
        exact Or.inl rfl
      · rcases run_bind_cases hr with ⟨off, d2, h2, hr⟩ | ⟨e, _, he⟩
        rotate_left
        · cases he
        have c2 : SameClock d1 d2 := run_sameClock h2
        rcases run_bind_cases hr with ⟨_, d3, h3, hr⟩ | ⟨e, _, he⟩
        rotate_left
        · cases he
        have c3 : SameClock d2 d3 := run_sameClock h3
        rcases run_bind_cases hr with ⟨bs1, d4, h4, hr⟩ | ⟨e, _, he⟩
        rotate_left
        · cases he
        have c4 : SameClock d3 d4 := run_sameClock h4
        have c04 : SameClock d d4 :=
          sameClock_ok.trans _ _ _ c1 (sameClock_ok.trans _ _ _ c2 (sameClock_ok.trans _ _ _ c3 c4))
        split at hr
        · have hr' : run (Prog.pure (([] : List Nat), f)) d4 = (.ok (bs, f'), d') := hr
          simp only [run] at hr'; cases hr'
          exact Or.inl rfl
        · rename_i hlen
          split at hr
          · rename_i e he
            split at hr
            · rename_i hacc
              rcases run_bind_cases hr with ⟨t, d5, h5, hr⟩ | ⟨e', h5, _⟩
              rotate_left
              · rw [run_today] at h5; cases h5
              rw [run_today] at h5
              cases h5
              have hr' : run (Prog.pure (bs1, _)) d4 = (.ok (bs, f'), d') := hr
              simp only [run] at hr'; cases hr'
              refine Or.inr ⟨hacc, ?_, e, he, ?_⟩
              · intro hb; rw [hb] at hlen; exact hlen rfl
              · rw [c04.1]
            · have hr' : run (Prog.pure (bs1, _)) d4 = (.ok (bs, f'), d') := hr
              simp only [run] at hr'; cases hr'
              exact Or.inl rfl
          · have hr' : run (Prog.pure (bs1, _)) d4 = (.ok (bs, f'), d') := hr
            simp only [run] at hr'; cases hr'
            exact Or.inl rfl

/-! ### (5) rename -/

/-- a successful scope exit returns the body's value -/
theorem run_finallyDrop_ok {α} {p : Prog α} {c : Option α → Prog Unit} {d : Dev} {a : α} {d' : Dev}
    (h : run (Prog.finallyDrop p c) d = (.ok a, d')) : ∃ d1, run p d = (.ok a, d1) := by
  simp only [run] at h
  rcases hq : run p d with ⟨rp, d1⟩
  rw [hq] at h
  cases rp with
  | error e =>
    simp only at h
    split at h
    · cases h
    · split at h
      · split at h <;> cases h
      · cases h
  | ok b =>
    simp only at h
    split at h
    · split at h
      · cases h
      · cases h; exact ⟨d1, rfl⟩
    · cases h; exact ⟨d1, rfl⟩

/-- `write_entry` returns a `DirEntry` whose record is the one it was asked to write -/
theorem writeEntry_data (st : DirStream) (name : String) (raw : DirFileEntryData) (d : Dev) {de : DirEntry} {d' : Dev}
    (hr : run (writeEntry st name raw) d = (.ok de, d')) : de.data = raw := by
  unfold writeEntry at hr
  split at hr
  · have hr' : run (Prog.fail _) d = (.ok de, d') := hr
    simp only [run] at hr'; cases hr'
  · rcases run_bind_cases hr with ⟨fs, d0, _, hr⟩ | ⟨e, _, he⟩
    rotate_left
    · cases he
    dsimp only at hr
    rcases run_bind_cases hr with ⟨st0, d1, _, hr⟩ | ⟨e, _, he⟩
    rotate_left
    · cases he
    rcases run_bind_cases hr with ⟨⟨startPos, st1⟩, d2, _, hr⟩ | ⟨e, _, he⟩
    rotate_left
    · cases he
    dsimp only at hr
    rcases run_bind_cases hr with ⟨⟨err, st2⟩, d3, _, hr⟩ | ⟨e, _, he⟩
    rotate_left
    · cases he
    dsimp only at hr
    split at hr
    · -- roll-back branch: the body ends in `fail`
      obtain ⟨d4, hb⟩ := run_finallyDrop_ok (hr : run (Prog.finallyDrop _ _) d3 = (.ok de, d'))
      rcases run_bind_cases hb with ⟨_, d5, _, hb⟩ | ⟨e, _, he⟩
      · have hb' : run (Prog.fail _) d5 = (.ok de, d4) := hb
        simp only [run] at hb'; cases hb'
      · cases he
    · obtain ⟨d4, hb⟩ := run_finallyDrop_ok (hr : run (Prog.finallyDrop _ _) d3 = (.ok de, d'))
      rcases run_bind_cases hb with ⟨⟨endPos, st3⟩, d5, _, hb⟩ | ⟨e, _, he⟩
      rotate_left
      · cases he
      dsimp only at hb
      rcases run_bind_cases hb with ⟨endAbs, d6, _, hb⟩ | ⟨e, _, he⟩
      rotate_left
      · cases he
      split at hb
      · have hb' : run (Prog.fail _) d6 = (.ok de, d4) := hb
        simp only [run] at hb'; cases hb'
      · have hb' : run (Prog.pure _) d6 = (.ok de, d4) := hb
        simp only [run] at hb'; cases hb'
        rfl

/- the part of `rename_internal` after the ancestor check (the join point of `if e.isDir`): `check_for_existence`,
    then either the same-entry no-op or `write_entry` of the renamed record -/
set_option hygiene false in
local macro "rename_tail" : tactic => `(tactic| (
    rcases run_bind_cases hr with ⟨r, d4, hce, hr⟩ | ⟨e, _, he⟩
    rotate_left
    · cases he
    split at hr
    · rename_i dstE
      split at hr
      · rename_i hpos; exact Or.inl ⟨dstE, hpos⟩
      · have hr' : run (Prog.fail _) d4 = (.ok (), d') := hr
        simp only [run] at hr'; cases hr'
    · rename_i sn
      rcases run_bind_cases hr with ⟨newEntry, d5, hw, hr⟩ | ⟨e, _, he⟩
      rotate_left
      · cases he
      exact Or.inr ⟨sn, _, newEntry, d5, hw, writeEntry_data _ _ _ _ hw⟩))

/-- `rename_internal`, successful: the source entry `e` is the one `find_entry` returned; either the destination
    name already denotes that same entry (nothing is written) or the entry written at the destination is
    `write_entry dst dstName (e.data.renamed sn)` for the generated short name `sn`, and the `DirEntry` it returns
    carries exactly that record -/
theorem renameInternal_record (env : Env) (st : DirStream) (srcName : String) (dst : DirStream) (dstName : String)
    (d : Dev) {d' : Dev} (hr : run (renameInternal env st srcName dst dstName) d = (.ok (), d')) :
    ∃ e dA, run (findEntry env st srcName none) d = (.ok e, dA) ∧
      ((∃ dstE : DirEntry, e.entryPos = dstE.entryPos) ∨
       (∃ sn dB newEntry dC, run (writeEntry dst dstName (e.data.renamed sn)) dB = (.ok newEntry, dC) ∧
          newEntry.data = e.data.renamed sn)) := by
  unfold renameInternal at hr
  split at hr
  · have hr' : run (Prog.fail .invalidInput) d = (.ok (), d') := hr
    simp only [run] at hr'; cases hr'
  rcases run_bind_cases hr with ⟨fs, d0, h0, hr⟩ | ⟨e, _, he⟩
  rotate_left
  · cases he
  simp only [Prog.getFs, run, stepOp] at h0
  cases h0
  rcases run_bind_cases hr with ⟨e, dA, hfind, hr⟩ | ⟨e, _, he⟩
  rotate_left
  · cases he
  refine ⟨e, dA, hfind, ?_⟩
  rcases run_bind_cases hr with ⟨_, d2, _, hr⟩ | ⟨e, _, he⟩
  rotate_left
  · cases he
  dsimp only at hr
  split at hr
  · rcases run_bind_cases hr with ⟨_, d3, _, hr⟩ | ⟨e, _, he⟩
    rotate_left
    · cases he
    rename_tail
  · rename_tail

end FatVerif
