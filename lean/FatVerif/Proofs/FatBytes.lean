import FatVerif.Model.FatCodec
/-! Byte-array lemmas for the FAT codec: `rd`/`wr` and the 16/32-bit little-endian accessors. -/
namespace FatVerif.Fat

theorem size_wr (f : Array Nat) (i v : Nat) : (wr f i v).size = f.size := by
  simp [wr]

theorem rd_wr (f : Array Nat) (i v j : Nat) :
    rd (wr f i v) j = if j = i ∧ i < f.size then v else rd f j := by
  unfold rd wr
  simp only [Array.getD_eq_getD_getElem?, Array.getElem?_setIfInBounds]
  by_cases h : i = j
  · subst h
    by_cases h2 : i < f.size
    · simp [h2]
    · simp [h2]
  · have : ¬ (j = i) := fun e => h e.symm
    simp [h, this]

theorem rd_wr_same (f : Array Nat) (i v : Nat) (h : i < f.size) : rd (wr f i v) i = v := by
  simp [rd_wr, h]

theorem rd_wr_ne (f : Array Nat) (i v j : Nat) (h : j ≠ i) : rd (wr f i v) j = rd f j := by
  simp [rd_wr, h]

theorem rd_oob (f : Array Nat) (i : Nat) (h : f.size ≤ i) : rd f i = 0 := by
  unfold rd
  simp [Array.getD_eq_getD_getElem?]
  have : f[i]? = none := by simp; omega
  simp [this]

theorem size_wr16 (f : Array Nat) (o v : Nat) : (wr16 f o v).size = f.size := by
  simp [wr16, size_wr]

theorem size_wr32 (f : Array Nat) (o v : Nat) : (wr32 f o v).size = f.size := by
  simp [wr32, size_wr]

theorem rd_wr16 (f : Array Nat) (o v j : Nat) (h : o + 2 ≤ f.size) :
    rd (wr16 f o v) j = if j = o then v % 256 else if j = o + 1 then v / 256 % 256 else rd f j := by
  unfold wr16
  rw [rd_wr, size_wr, rd_wr]
  by_cases h1 : j = o
  · subst h1; simp <;> omega
  · by_cases h2 : j = o + 1
    · subst h2; simp <;> omega
    · simp [h1, h2]

theorem rd_wr32 (f : Array Nat) (o v j : Nat) (h : o + 4 ≤ f.size) :
    rd (wr32 f o v) j = if j = o then v % 256 else if j = o + 1 then v / 256 % 256
      else if j = o + 2 then v / 65536 % 256 else if j = o + 3 then v / 16777216 % 256 else rd f j := by
  unfold wr32
  rw [rd_wr, size_wr, size_wr, size_wr, rd_wr, size_wr, size_wr, rd_wr, size_wr, rd_wr]
  by_cases h1 : j = o
  · subst h1
    simp <;> omega
  · by_cases h2 : j = o + 1
    · subst h2
      simp <;> omega
    · by_cases h3 : j = o + 2
      · subst h3
        simp <;> omega
      · by_cases h4 : j = o + 3
        · subst h4; simp <;> omega
        · simp [h1, h2, h3, h4]

theorem wfBytes_wr (f : Array Nat) (i v : Nat) (hf : WfBytes f) (hv : v < 256) : WfBytes (wr f i v) := by
  intro j
  rw [rd_wr]
  split
  · exact hv
  · exact hf j

theorem wfBytes_wr16 (f : Array Nat) (o v : Nat) (hf : WfBytes f) : WfBytes (wr16 f o v) := by
  unfold wr16
  exact wfBytes_wr _ _ _ (wfBytes_wr _ _ _ hf (by omega)) (by omega)

theorem wfBytes_wr32 (f : Array Nat) (o v : Nat) (hf : WfBytes f) : WfBytes (wr32 f o v) := by
  unfold wr32
  exact wfBytes_wr _ _ _ (wfBytes_wr _ _ _ (wfBytes_wr _ _ _ (wfBytes_wr _ _ _ hf (by omega)) (by omega)) (by omega))
    (by omega)

theorem rd16_lt (f : Array Nat) (hf : WfBytes f) (o : Nat) : rd16 f o < 65536 := by
  have := hf o; have := hf (o + 1); unfold rd16; omega

theorem rd32_lt (f : Array Nat) (hf : WfBytes f) (o : Nat) : rd32 f o < 4294967296 := by
  have := hf o; have := hf (o + 1); have := hf (o + 2); have := hf (o + 3); unfold rd32; omega

/-- `WfBytes` of a concrete array, by evaluation -/
theorem wfBytes_of_all (f : Array Nat) (h : f.toList.all (fun x => decide (x < 256)) = true) : WfBytes f := by
  intro i
  unfold rd
  rw [Array.getD_eq_getD_getElem?]
  by_cases hi : i < f.size
  · rw [Array.getElem?_eq_getElem hi]
    simp only [Option.getD_some]
    rw [List.all_eq_true] at h
    have := h f[i] (by simp)
    simpa using this
  · have : f[i]? = none := by simp; omega
    rw [this]; simp

/-- `x &&& 0xF0000000` of a u32, arithmetically -/
theorem and_top_nibble (x : Nat) (hx : x < 4294967296) : x &&& 0xF0000000 = x / 268435456 * 268435456 := by
  apply Nat.eq_of_testBit_eq
  intro i
  rw [Nat.testBit_and]
  have e1 : (0xF0000000 : Nat) = (2 ^ 4 - 1) * 2 ^ 28 := by decide
  have e2 : (268435456 : Nat) = 2 ^ 28 := by decide
  rw [e1, e2, Nat.testBit_mul_two_pow, Nat.testBit_mul_two_pow, Nat.testBit_two_pow_sub_one,
    Nat.testBit_div_two_pow]
  by_cases h : 28 ≤ i
  · simp [h]
    intro hb
    apply Classical.byContradiction
    intro h2
    have : x.testBit i = false := by
      apply Nat.testBit_lt_two_pow
      calc x < 2 ^ 32 := by simpa using hx
        _ ≤ 2 ^ i := Nat.pow_le_pow_right (by decide) (by omega)
    rw [this] at hb; cases hb
  · simp [h]

end FatVerif.Fat
