import FatVerif.Proofs.DirWriteSim28
/-! Directory WRITES, part 29: `create_dir(name)` as a whole operation through any writable directory (`WView`),
    single-component path, free name: `check_for_existence` → `alloc_cluster(None, true)` → `create_sfn_entry` →
    `write_entry` in the parent → `to_dir` → `.` and `..` in the new directory. -/
namespace FatVerif.DirSim
open FatVerif.FileSim FatVerif.Fat DirEntryData DirAlias

theorem sfnStamp_geom {a b : FsState} (h : FsGeomEq a b) (t : Nat) (first : Option Nat) :
    sfnStamp b t first = sfnStamp a t first := by
  unfold sfnStamp; rw [sfnAt_geom h]

namespace WView
variable {d : Dev} {st : DirStream}

/-- **`create_dir(name)` through a writable directory** (single-component path, the name is free, the entry fits into
    the allocated slots of the parent, the allocator finds the cluster `c`).
    `hkeepA` / `hkeepW`: the invariant of the parent survives the allocation step and writes that leave the FAT alone
    (instances: `RootInv.of_alloc`, `ChainInv.of_alloc`, `SubInv.of_alloc`; `*.of_volStep`).
    `hslots` / `hextra`: the slots of the parent (and its own entry, if any) lie behind the FAT copies, inside the device
    and outside the cluster `c` (which is free). -/
theorem createDir_sim (V : WView d st) (env : Env) (path name : String)
    (hsp : Names.splitPath path = (name, none)) (hdot : (name = "." || name = "..") = false)
    (hval : Names.validateLongName name = .ok ()) (hla : d.fs.lfnAlloc = true)
    (hgeo : Geo d.fs d.img.size) (hinfo : InfoOk d.fs d.img) (hacc : d.fs.accDate = false)
    (hcs32 : d.fs.clusterSize % 32 = 0) (hcs64 : 64 ≤ d.fs.clusterSize) (hu32 : d.fs.clusterSize < 4294967296)
    (hfuelN : d.fs.clusterSize / 32 < dirFuel d.fs) (a : List Nat)
    (hchk : DirAlias.checkForExistenceL env.upper (V.slots d.img) name (some true) 70000 = .ok (.alias a))
    (c : Nat) (hfind : allocFindV (tabView d.fs d.img) d.fs.fsInfo.next d.fs.totalClusters = some c)
    (hfit : DirSlots.findFree (V.slots d.img) (Lfn.numParts (Names.encodeUtf16 name.toList).length + 1) +
      (Lfn.numParts (Names.encodeUtf16 name.toList).length + 1) ≤ V.N)
    (hkeepA : ∀ d1 d2, SameVol d d1 → d1.clock = d.clock → AllocStep d1 d2 c → V.Inv d2)
    (hkeepW : ∀ d1 d2, V.Inv d1 → VolStep d1 d2 → d2.clock = d1.clock →
      tabView d2.fs d2.img = tabView d1.fs d1.img → V.Inv d2)
    (hslots : ∀ i, i < V.N →
      (fatSliceOf d.fs).beginOff + (fatSliceOf d.fs).mirrors * (fatSliceOf d.fs).size ≤ V.src (32 * i) ∧
      V.src (32 * i) + 32 ≤ d.img.size ∧
      (V.src (32 * i) + 32 ≤ clusterOff d.fs c ∨ clusterOff d.fs c + d.fs.clusterSize ≤ V.src (32 * i)))
    (hextra : ∀ q, V.Extra q →
      (fatSliceOf d.fs).beginOff + (fatSliceOf d.fs).mirrors * (fatSliceOf d.fs).size ≤ q ∧
      ¬ (clusterOff d.fs c ≤ q ∧ q < clusterOff d.fs c + d.fs.clusterSize))
    (fuel : Nat) :
    ∃ d', run (FatVerif.createDir env (fuel + 1) st path) d =
        (.ok (.file (FileH.new (some c) (some (DirEntryEditor.new (sfnAt d.fs d.clock a 16 (some c))
          (V.src (32 * (DirSlots.findFree (V.slots d.img) (Lfn.numParts (Names.encodeUtf16 name.toList).length + 1) +
            (Lfn.numParts (Names.encodeUtf16 name.toList).length + 1)) - 32)))))), d') ∧
      VolStep d d' ∧ d'.fs.curDirty = true ∧ V.Inv d' ∧
      V.slots d'.img = DirSlots.writeEntry (V.slots d.img) (Names.encodeUtf16 name.toList)
        (sfnWith a (16 :: sfnStamp d.fs d.clock (some c))) ∧
      tabView d'.fs d'.img = updV (tabView d.fs d.img) c .eoc ∧
      srcSlots d'.img (chainSrc d.fs [c]) (d.fs.clusterSize / 32) =
        sfnWith (46 :: List.replicate 10 32) (16 :: sfnStamp d.fs d.clock (some c)) ::
        sfnWith (46 :: 46 :: List.replicate 9 32)
          (16 :: sfnStamp d.fs d.clock (if st.isRootDir then none else st.firstCluster)) ::
        List.replicate (d.fs.clusterSize / 32 - 2) (List.replicate 32 0) ∧
      ChainDir d' (FileH.new (some c) (some (DirEntryEditor.new (sfnAt d.fs d.clock a 16 (some c))
          (V.src (32 * (DirSlots.findFree (V.slots d.img) (Lfn.numParts (Names.encodeUtf16 name.toList).length + 1) +
            (Lfn.numParts (Names.encodeUtf16 name.toList).length + 1)) - 32))))) c [c] ∧
      (∀ q, 0x42 ≤ q → OutsideFat d.fs q → (∀ i, i < V.N → ¬ (V.src (32 * i) ≤ q ∧ q < V.src (32 * i) + 32)) →
        ¬ V.Extra q → ¬ (clusterOff d.fs c ≤ q ∧ q < clusterOff d.fs c + d.fs.clusterSize) →
        d'.img.getByte q = d.img.getByte q) := by
  have hn1 : 1 ≤ Lfn.numParts (Names.encodeUtf16 name.toList).length + 1 := by omega
  generalize hn : Lfn.numParts (Names.encodeUtf16 name.toList).length + 1 = n at hfit hn1 ⊢
  generalize hp : DirSlots.findFree (V.slots d.img) n = p at hfit ⊢
  generalize hed0 : DirEntryEditor.new (sfnAt d.fs d.clock a 16 (some c)) (V.src (32 * (p + n) - 32)) = ed0
  have hfa := V.io.noFault d V.here
  have hwf := V.io.wf d V.here
  have hsl0 : srcSlots d.img V.src V.N = V.slots d.img := rfl
  have hms : (fatSliceOf d.fs).size ≤ (fatSliceOf d.fs).mirrors * (fatSliceOf d.fs).size :=
    Nat.le_mul_of_pos_left _ hgeo.mirrors_pos
  have hst42 := hgeo.status_lt
  obtain ⟨hcan, hl11, _⟩ := C16dir.dir_alias_canon env.upper (V.slots d.img) name (some true) 70000 a hchk
  -- 1. check_for_existence
  have hce := (V.ops.dsrc d V.here).checkForExistence_sim (V.ops.fuel d V.here) hla env name (some true) d (SameVol.refl d)
  rw [hsl0, hchk] at hce
  obtain ⟨d1, h1, hs1⟩ := hce
  have hc1 : d1.clock = d.clock := run_clock _ _ _ _ h1
  -- 2. alloc_cluster(None, true)
  obtain ⟨d2, h2, ha⟩ := run_alloc_step c d1 (by rw [hs1.failAt]; exact hfa) (by rw [hs1.img]; exact hwf)
    (by rw [hs1.fs, hs1.img]; exact hgeo) (by rw [hs1.fs, hs1.img]; exact hinfo) (by rw [hs1.fs, hs1.img]; exact hfind)
  have hinv2 := hkeepA d1 d2 hs1 hc1 ha
  have hg2 : FsGeomEq d.fs d2.fs := by have := ha.step.geom; rwa [hs1.fs] at this
  have hc2 : d2.clock = d.clock := ha.step.clock.trans hc1
  have hvs2 : VolStep d d2 := (VolStep.of_sameVol hs1).trans (VolStep.of_devStep ha.step)
  have hrange : 2 ≤ c ∧ c < d.fs.totalClusters + 2 := by have := ha.range; rwa [hs1.fs] at this
  obtain ⟨hco1, hco2⟩ := clusterOff_end hgeo hrange.1 hrange.2
  have hfatdata := hgeo.fat_data
  have hslots2 : V.slots d2.img = V.slots d.img := by
    unfold WView.slots
    refine srcSlots_congr (fun i hi x hx => ?_)
    obtain ⟨hb, _, hcl⟩ := hslots i hi
    rw [ha.frame _ (by omega) (by rw [hs1.fs]; exact Or.inr (by omega)) (by rw [hs1.fs]; omega), hs1.img]
  -- 3. create_sfn_entry, write_entry in the parent
  have hrawwf := sfnAt_wf d.fs d.clock a 16 (some c) hl11 (canon_lt hcan) (by omega)
  have hrawlfn : attrsIsLfn (sfnAt d.fs d.clock a 16 (some c)).attrs = false := by rw [sfnAt_attrs]; decide
  obtain ⟨d3, h3, hs3, hd3, hinv3, hsl3, hfr3, _⟩ := (V.step hinv2).writeEntry_sim name (sfnAt d.fs d.clock a 16 (some c))
    hval hdot hrawwf hrawlfn (by
      show DirSlots.findFree (V.slots d2.img) _ + _ ≤ V.N
      rw [hslots2, hn, hp]; exact hfit)
  have e2 : (V.step hinv2).slots d2.img = V.slots d.img := hslots2
  have hsl3' : V.slots d3.img = DirSlots.writeEntry (V.slots d.img) (Names.encodeUtf16 name.toList)
      (sfnAt d.fs d.clock a 16 (some c)).serialize := by
    have e1 : (V.step hinv2).slots d3.img = V.slots d3.img := rfl
    rw [← e1, hsl3, e2]
  rw [e2, hn, hp] at h3
  have hfr3' : FrameOutE V.N V.src V.Extra d2 d3 := hfr3
  have hc3 : d3.clock = d.clock := (run_clock _ _ _ _ h3).trans hc2
  generalize he : toDirEntryS (V.step hinv2).src
    ⟨(sfnAt d.fs d.clock a 16 (some c)).serialize, Names.encodeUtf16 name.toList, p, p + n⟩ = e at h3
  have hedata : e.data = sfnAt d.fs d.clock a 16 (some c) := by
    rw [← he, sfnAt_serialize]
    exact toDirEntryS_sfnAt_data _ d.fs d.clock a 16 (some c) _ _ _ hl11 (canon_lt hcan) (by omega) (by decide)
  have hepos : e.entryPos = V.src (32 * (p + n) - 32) := by rw [← he]; rfl
  have heisdir : e.isDir = true := by
    unfold DirEntry.isDir; rw [hedata]; exact sfnAt_isDir_true _ _ _ _
  have hefc : e.firstCluster d.fs = some c := by
    unfold DirEntry.firstCluster
    rw [hedata]
    refine sfnAt_firstCluster d.fs d.clock a 16 (some c) (fun m hm => ?_)
    cases hm
    have := hgeo.small
    have := badMark_bound d.fs.fatType
    omega
  have heditor : e.editor = ed0 := by
    unfold DirEntry.editor; rw [hedata, hepos, hed0]
  -- 4. to_dir
  obtain ⟨d4, h4, hs4⟩ := toDir_sim d.fs e heisdir d3
  have hds : DirEntry.dirStream d.fs e = .file (FileH.new (some c) (some ed0)) := by
    unfold DirEntry.dirStream; rw [hefc, heditor]
  rw [hds] at h4
  have hvs4 : VolStep d d4 := (hvs2.trans hs3).trans (VolStep.of_sameVol hs4)
  have hg4 : FsGeomEq d.fs d4.fs := hvs4.geom
  have hc4 : d4.clock = d.clock := (run_clock _ _ _ _ h4).trans hc3
  have hFS2 : fatSliceOf d2.fs = fatSliceOf d.fs := hg2.fatSlice
  have hagree3 : FatAgree d2.fs d2.img d3.img :=
    fatAgree_of_frameE hfr3' d2.fs (by rw [hFS2]; exact hst42)
      (fun j hj => by rw [hFS2]; have := (hslots j hj).1; omega)
      (fun q hq => by rw [hFS2]; have := (hextra q hq).1; omega)
  have htv3 : tabView d3.fs d3.img = updV (tabView d.fs d.img) c .eoc := by
    rw [hs3.geom.tabView, tabView_congr (hgeo.frame hg2) hagree3, ha.tv, hs1.fs, hs1.img]
  have htv4 : tabView d4.fs d4.img = updV (tabView d.fs d.img) c .eoc := by rw [hs4.fs, hs4.img]; exact htv3
  have hcs4 : d4.fs.clusterSize = d.fs.clusterSize := hg4.clusterSize
  have hsz4 : d4.img.size = d.img.size := hvs4.size
  -- the index of the short slot of the new entry
  have hpn : p + n - 1 < V.N := by omega
  have hpos32 : 32 * (p + n) - 32 = 32 * (p + n - 1) := by omega
  obtain ⟨hsb, hsi, hsc⟩ := hslots (p + n - 1) hpn
  have hedpos : ed0.pos = V.src (32 * (p + n - 1)) := by rw [← hed0, hpos32]; rfl
  have heddata : ed0.data = sfnAt d.fs d.clock a 16 (some c) := by rw [← hed0]; rfl
  have C4 : ChainDir d4 (FileH.new (some c) (some ed0)) c [c] := by
    refine ⟨by rw [hvs4.failAt]; exact hfa, by rw [hsz4]; exact hgeo.frame hg4, rfl, ?_, ?_, ?_,
      Or.inl (by rw [hg4.accDate]; exact hacc), ?_, by rw [hcs4]; exact hcs32,
      by rw [hcs4, List.length_singleton, Nat.one_mul]; exact hu32⟩
    · refine Chain.last c (fun m => ?_)
      rw [htv4]
      simp [updV]
    · intro x hx
      simp only [List.mem_singleton] at hx
      subst hx
      rw [hg4.totalClusters]; exact hrange
    · show ed0.data.size? = none
      rw [heddata]; exact sfnAt_size?_dir _ _ _ _
    · intro ed hed
      cases hed
      rw [← hed0]; rfl
  obtain ⟨K, hK⟩ : ∃ K, d.fs.clusterSize / 32 = K + 2 := ⟨d.fs.clusterSize / 32 - 2, by omega⟩
  have hcsK : d.fs.clusterSize = 32 * (K + 2) := by
    have := Nat.div_add_mod d.fs.clusterSize 32; omega
  have hsrcC : ∀ i, i < d.fs.clusterSize / 32 → chainSrc d.fs [c] (32 * i) = clusterOff d.fs c + 32 * i :=
    fun i hi => chainSrc_single d.fs c i (by omega)
  have hzero4 : ∀ q, clusterOff d4.fs c ≤ q → q < clusterOff d4.fs c + d4.fs.clusterSize → d4.img.getByte q = 0 := by
    intro q h1 h2
    rw [hg4.clusterOff] at h1 h2
    rw [hcs4] at h2
    rw [hs4.img, hfr3' q (by omega) (fun i hi hc => by have := (hslots i hi).2.2; omega)
      (fun hq => (hextra q hq).2 ⟨h1, h2⟩)]
    exact ha.zero q (by rw [hs1.fs]; exact h1) (by rw [hs1.fs]; exact h2)
  -- the bytes of the new entry on the image
  have hP4 : ∀ q, subExtra ed0 q → d4.img.getByte q = ed0.data.serialize.getD (q - ed0.pos) 0 := by
    intro q hq
    unfold subExtra at hq
    have hslot : (V.slots d3.img).getD (p + n - 1) [] = (sfnAt d.fs d.clock a 16 (some c)).serialize := by
      rw [hsl3']
      unfold DirSlots.writeEntry DirSlots.entrySlots
      rw [hn, hp]
      have hlen : (lfnGenerate (Names.encodeUtf16 name.toList)
          (lfnChecksum (Lfn.sfnName (sfnAt d.fs d.clock a 16 (some c)).serialize))).length = n - 1 := by
        rw [lfnGenerate_length]; omega
      have := writeAt_last_getD (V.slots d.img) (lfnGenerate (Names.encodeUtf16 name.toList)
          (lfnChecksum (Lfn.sfnName (sfnAt d.fs d.clock a 16 (some c)).serialize)))
        (sfnAt d.fs d.clock a 16 (some c)).serialize p (by unfold WView.slots; rw [srcSlots_length]; omega)
      rw [hlen] at this
      have e : p + (n - 1) = p + n - 1 := by omega
      rw [e] at this
      exact this
    unfold WView.slots at hslot
    rw [srcSlots_getD _ _ _ _ hpn] at hslot
    obtain ⟨x, hx⟩ : ∃ x, q = ed0.pos + x := ⟨q - ed0.pos, by omega⟩
    subst hx
    rw [hs4.img, hedpos, ← Img.read_getD d3.img (V.src (32 * (p + n - 1))) 32 x (by omega), hslot, heddata]
    congr 1
    omega
  -- 5. `.` and `..`
  have hfatE4 : (fatSliceOf d4.fs).beginOff + (fatSliceOf d4.fs).mirrors * (fatSliceOf d4.fs).size ≤ ed0.pos := by
    rw [hg4.fatSlice, hedpos]; exact hsb
  obtain ⟨d5, e5, d6, e6, h5, h6, hs6, hd6, hc6, hinv6, hsl6, hfr6, hst6⟩ := sub_fresh_dots d4 c ed0
    (if st.isRootDir then none else st.firstCluster) K C4 (hvs4.wf hwf) (by rw [hcs4]; exact hK)
    (by rw [hcs4, dirFuel_geom hg4]; exact hfuelN) (by rw [heddata, sfnAt_name]; exact hl11) hfatE4
    (by rw [hsz4, hedpos]; exact hsi)
    (fun i hi => by
      rw [hcs4] at hi
      rw [chainSrc_geom hg4, hsrcC i hi, hedpos]
      omega)
    hzero4 (by rw [heddata, hc4]; exact sfnAt_setModified _ _ _ _ _) (by rw [heddata]; exact hrawwf) hP4
  rw [chainSrc_geom hg4, hcs4, sfnStamp_geom hg4, sfnStamp_geom hg4, hc4] at hsl6
  rw [chainSrc_geom hg4, hcs4] at hfr6
  have hvs6 : VolStep d d6 := hvs4.trans hs6
  -- the FAT after the writes in the new directory
  have hagree6 : FatAgree d4.fs d4.img d6.img :=
    fatAgree_of_frameE hfr6 d4.fs (by rw [hg4.fatSlice]; exact hst42)
      (fun j hj => by rw [hg4.fatSlice, hsrcC j hj]; omega)
      (fun q hq => by rw [hg4.fatSlice]; unfold subExtra at hq; rw [hedpos] at hq; omega)
  have htv46 : tabView d6.fs d6.img = tabView d4.fs d4.img := by
    rw [hs6.geom.tabView, tabView_congr (sz := d.img.size) (hgeo.frame hg4) hagree6]
  -- the parent after the writes in the new directory
  have hinv4 : V.Inv d4 := V.io.vol d3 d4 hinv3 hs4 (run_clock _ _ _ _ h4)
  have hinv6P : V.Inv d6 := hkeepW d4 d6 hinv4 hs6 hc6 htv46
  have hslots6 : V.slots d6.img = V.slots d3.img := by
    unfold WView.slots
    refine srcSlots_congr (fun i hi x hx => ?_)
    rw [← hs4.img]
    by_cases hq : subExtra ed0 (V.src (32 * i) + x)
    · exact hst6 _ hq
    · obtain ⟨hb, _, hcl⟩ := hslots i hi
      refine hfr6 _ (by omega) (fun j hj hc => ?_) hq
      rw [hsrcC j hj] at hc
      omega
  refine ⟨d6, ?_, hvs6, hd6, hinv6P, by rw [hslots6, hsl3', sfnAt_serialize], by rw [htv46, htv4], ?_, ?_, ?_⟩
  · unfold FatVerif.createDir
    rw [run_bind_ok (run_getFs d), hsp]
    simp only
    have h1' : run (checkForExistence env st name (some true)) d = (.ok (liftEOA V.src (.alias a)), d1) :=
      (congrArg (fun s => run (checkForExistence env s name (some true)) d) V.start).trans h1
    rw [run_bind_ok h1']
    simp only [liftEOA, hdot, Bool.false_eq_true, if_false, liftE, hval]
    rw [run_bind_ok (rfl : run (pure () : Prog Unit) d1 = (.ok (), d1)), run_bind_ok h2,
      run_bind_ok (run_createSfnEntry a ATTR_DIRECTORY (some c) d2)]
    have h3' : run (Prog.attempt (FatVerif.writeEntry st name (sfnAt d2.fs d2.clock a ATTR_DIRECTORY (some c)))) d2 =
        (.ok (.ok e), d3) := by
      have h3'' : run (FatVerif.writeEntry st name (sfnAt d.fs d.clock a ATTR_DIRECTORY (some c))) d2 = (.ok e, d3) := h3
      rw [run_attempt, sfnAt_geom hg2, hc2, h3'']
    rw [run_bind_ok h3']
    simp only
    rw [run_bind_ok (rfl : run (pure e : Prog DirEntry) d3 = (.ok e, d3)), run_bind_ok h4]
    refine run_finallyDrop_noop ?_ (fun _ => rfl)
    rw [run_bind_ok (run_createSfnEntry _ ATTR_DIRECTORY (e.firstCluster d.fs) d4), hefc]
    have h5' : run (FatVerif.writeEntry (.file (FileH.new (some c) (some ed0))) "."
        (sfnAt d4.fs d4.clock (46 :: List.replicate 10 32) ATTR_DIRECTORY (some c))) d4 = (.ok e5, d5) := h5
    have h6' : run (FatVerif.writeEntry (.file (FileH.new (some c) (some ed0))) ".."
        (sfnAt d5.fs d5.clock (46 :: 46 :: List.replicate 9 32) ATTR_DIRECTORY
          (if st.isRootDir then none else st.firstCluster))) d5 = (.ok e6, d6) := h6
    rw [run_bind_ok h5']
    rw [run_bind_ok (run_createSfnEntry _ ATTR_DIRECTORY _ d5), run_bind_ok h6']
    rfl
  · rw [hsl6, hK]; rfl
  · have := hinv6.dir
    exact ⟨this.failAt, this.geo, this.first, this.link, this.inTab, this.nosize, this.noacc, this.clean, this.cs32,
      this.u32⟩
  · intro q hq ho hn hne hnc
    rw [hfr6 q hq (fun j hj hc => by rw [hsrcC j hj] at hc; omega)
      (fun hx => by
        unfold subExtra at hx
        rw [hedpos] at hx
        exact hn (p + n - 1) hpn (by omega)), hs4.img, hfr3' q hq hn hne,
      ha.frame q hq (by rw [hs1.fs]; exact ho) (by rw [hs1.fs]; exact hnc), hs1.img]

end WView

/-! ### the invariants survive writes elsewhere that leave the FAT alone (`hkeepW`) -/

theorem RootInv.of_volStep {fs0 : FsState} {s : DiskSlice} {N : Nat} {d1 d2 : Dev} (h : RootInv fs0 s N d1)
    (hs : VolStep d1 d2) : RootInv fs0 s N d2 :=
  ⟨by rw [hs.failAt]; exact h.noFault, by rw [hs.size]; exact h.inside, hs.wf h.wf, h.geom.trans hs.geom, h.fuel⟩

theorem ChainDir.of_tabView {d1 d2 : Dev} {f0 : FileH} {c0 : Nat} {chain : List Nat} (C : ChainDir d1 f0 c0 chain)
    (hs : VolStep d1 d2) (htv : tabView d2.fs d2.img = tabView d1.fs d1.img) : ChainDir d2 f0 c0 chain :=
  ⟨by rw [hs.failAt]; exact C.failAt, by rw [hs.size]; exact C.geo.frame hs.geom, C.first, by rw [htv]; exact C.link,
   by rw [hs.geom.totalClusters]; exact C.inTab, C.nosize, by rw [hs.geom.accDate]; exact C.noacc, C.clean,
   by rw [hs.geom.clusterSize]; exact C.cs32, by rw [hs.geom.clusterSize]; exact C.u32⟩

theorem ChainInv.of_volStep {fs0 : FsState} {f0 : FileH} {c0 : Nat} {chain : List Nat} {d1 d2 : Dev}
    (h : ChainInv fs0 f0 c0 chain d1) (hs : VolStep d1 d2) (htv : tabView d2.fs d2.img = tabView d1.fs d1.img) :
    ChainInv fs0 f0 c0 chain d2 :=
  ⟨h.dir.of_tabView hs htv, hs.wf h.wf, h.geom.trans hs.geom, h.fuel⟩

theorem SubInv.of_volStep {fs0 : FsState} {ed0 : DirEntryEditor} {c0 : Nat} {chain : List Nat} {t0 : Nat} {d1 d2 : Dev}
    (h : SubInv fs0 ed0 c0 chain t0 d1) (hs : VolStep d1 d2) (hc : d2.clock = d1.clock)
    (htv : tabView d2.fs d2.img = tabView d1.fs d1.img) : SubInv fs0 ed0 c0 chain t0 d2 :=
  ⟨h.dir.of_tabView hs htv, hs.wf h.wf, h.geom.trans hs.geom, h.fuel, hc.trans h.clock, h.nameLen, h.epos,
   by rw [hs.size]; exact h.einside⟩

end FatVerif.DirSim
