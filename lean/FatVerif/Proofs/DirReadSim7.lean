import FatVerif.Proofs.DirReadSim6
import FatVerif.Proofs.FileSimRead
/-! Directory reads, part 7: a CLUSTER-CHAIN directory (a subdirectory, or the root of FAT32) is a `DirSrc`. The stream
    is a `File` without a size; its clusters are the chain of the decoded FAT of the image (`tabView`, from
    Proofs/FileSimIter.lean; forward `nextCluster` = `run_nextCluster` of Proofs/FileSimDefs.lean). -/
namespace FatVerif.DirSim
open FatVerif.FileSim FatVerif.Fat

/-! ### arithmetic of byte offsets in clusters -/

theorem div_of_bounds {x cs q : Nat} (h1 : q * cs ≤ x) (h2 : x < q * cs + cs) : x / cs = q :=
  Nat.div_eq_of_lt_le h1 (by rw [Nat.add_mul, Nat.one_mul]; exact h2)

theorem mod_of_bounds {x cs q : Nat} (h1 : q * cs ≤ x) (h2 : x < q * cs + cs) : x % cs = x - q * cs := by
  have hd := div_of_bounds h1 h2
  have := Nat.div_add_mod x cs
  rw [hd, Nat.mul_comm] at this
  omega

/-- `o = q * cs + r` with `r < cs` -/
theorem decomp (o cs : Nat) (hcs : 0 < cs) : o / cs * cs + o % cs = o ∧ o % cs < cs := by
  have := Nat.div_add_mod o cs
  rw [Nat.mul_comm] at this
  exact ⟨this, Nat.mod_lt _ hcs⟩

theorem div_mod_add {o j cs : Nat} (hcs : 0 < cs) (h : o % cs + j < cs) :
    (o + j) / cs = o / cs ∧ (o + j) % cs = o % cs + j := by
  obtain ⟨h1, h2⟩ := decomp o cs hcs
  have b1 : o / cs * cs ≤ o + j := by omega
  have b2 : o + j < o / cs * cs + cs := by omega
  exact ⟨div_of_bounds b1 b2, by rw [mod_of_bounds b1 b2]; omega⟩

/-- the cluster of the byte before `o` -/
theorem pred_div {o cs : Nat} (hcs : 0 < cs) (ho : 0 < o) :
    (o - 1) / cs = if o % cs = 0 then o / cs - 1 else o / cs := by
  obtain ⟨h1, h2⟩ := decomp o cs hcs
  split
  · rename_i h0
    have hq : 1 ≤ o / cs := by
      rcases Nat.eq_zero_or_pos (o / cs) with h | h
      · rw [h] at h1; omega
      · exact h
    have hm : (o / cs - 1) * cs = o / cs * cs - cs := by rw [Nat.sub_mul, Nat.one_mul]
    have hge : cs ≤ o / cs * cs := Nat.le_mul_of_pos_left _ hq
    exact div_of_bounds (by omega) (by omega)
  · exact div_of_bounds (by omega) (by omega)

theorem pred_div_pos {o cs : Nat} (hcs : 0 < cs) (ho : 0 < o) (h0 : o % cs = 0) : 1 ≤ o / cs := by
  obtain ⟨h1, _⟩ := decomp o cs hcs
  rcases Nat.eq_zero_or_pos (o / cs) with h | h
  · rw [h] at h1; omega
  · exact h

/-- the end of the previous slot, as `File::abs_pos` computes it -/
theorem slot_pred {o cs : Nat} (hcs : 0 < cs) (hc32 : cs % 32 = 0) (ho32 : o % 32 = 0) (ho : 0 < o) :
    (o - 32) / cs = (o - 1) / cs ∧ (o - 32) % cs + 32 = if o % cs = 0 then cs else o % cs := by
  obtain ⟨h1, h2⟩ := decomp o cs hcs
  have hr32 : o % cs % 32 = 0 := by
    rw [Nat.mod_mod_of_dvd o (Nat.dvd_of_mod_eq_zero hc32)]; exact ho32
  rw [pred_div hcs ho]
  split
  · rename_i h0
    have hq := pred_div_pos hcs ho h0
    have hm : (o / cs - 1) * cs = o / cs * cs - cs := by rw [Nat.sub_mul, Nat.one_mul]
    have hge : cs ≤ o / cs * cs := Nat.le_mul_of_pos_left _ hq
    have b1 : (o / cs - 1) * cs ≤ o - 32 := by omega
    have b2 : o - 32 < (o / cs - 1) * cs + cs := by omega
    exact ⟨div_of_bounds b1 b2, by rw [mod_of_bounds b1 b2]; omega⟩
  · have b1 : o / cs * cs ≤ o - 32 := by omega
    have b2 : o - 32 < o / cs * cs + cs := by omega
    exact ⟨div_of_bounds b1 b2, by rw [mod_of_bounds b1 b2]; omega⟩

theorem lt_mul_of_div_lt {o cs L : Nat} (hcs : 0 < cs) (h : o / cs < L) : o < L * cs := by
  obtain ⟨h1, h2⟩ := decomp o cs hcs
  have : (o / cs + 1) * cs ≤ L * cs := Nat.mul_le_mul_right _ h
  rw [Nat.add_mul, Nat.one_mul] at this
  omega

theorem div_lt_of_lt_mul {o cs L : Nat} (hcs : 0 < cs) (h : o < L * cs) : o / cs < L :=
  (Nat.div_lt_iff_lt_mul hcs).mpr h


/-! ### the handle of a cluster-chain directory -/

/-- the handle positioned at byte `o`: the current cluster is the cluster of the byte before `o` -/
def dirFile (f0 : FileH) (chain : List Nat) (cs o : Nat) : FileH :=
  { f0 with offset := o, currentCluster := if o = 0 then none else chain[(o - 1) / cs]? }

/-- the part of `ChainDir` that reading, seeking and writing through the handle need (everything except that the
    handle's entry has nothing to write back) -/
structure ChainCore (d : Dev) (f0 : FileH) (c0 : Nat) (chain : List Nat) : Prop where
  failAt : d.failAt = none
  geo : Geo d.fs d.img.size
  first : f0.firstCluster = some c0
  link : Chain (tabView d.fs d.img) c0 chain
  inTab : ∀ c ∈ chain, 2 ≤ c ∧ c < d.fs.totalClusters + 2
  nosize : f0.size? = none
  noacc : d.fs.accDate = false ∨ f0.entry = none
  cs32 : d.fs.clusterSize % 32 = 0
  u32 : chain.length * d.fs.clusterSize < 4294967296

/-- a cluster-chain directory readable on `d`: no fault scheduled, layout `Geo`, the chain of `c0` in the decoded FAT
    of the image lies inside the table; the handle has no size (a directory), its entry (if any) has nothing to write
    back, and reads do not stamp it (`update_accessed_date` off, or no entry: the root of FAT32) -/
structure ChainDir (d : Dev) (f0 : FileH) (c0 : Nat) (chain : List Nat) : Prop where
  failAt : d.failAt = none
  geo : Geo d.fs d.img.size
  first : f0.firstCluster = some c0
  link : Chain (tabView d.fs d.img) c0 chain
  inTab : ∀ c ∈ chain, 2 ≤ c ∧ c < d.fs.totalClusters + 2
  nosize : f0.size? = none
  noacc : d.fs.accDate = false ∨ f0.entry = none
  clean : ∀ e, f0.entry = some e → e.dirty = false
  cs32 : d.fs.clusterSize % 32 = 0
  u32 : chain.length * d.fs.clusterSize < 4294967296

theorem ChainDir.core {d : Dev} {f0 : FileH} {c0 : Nat} {chain : List Nat} (C : ChainDir d f0 c0 chain) :
    ChainCore d f0 c0 chain :=
  ⟨C.failAt, C.geo, C.first, C.link, C.inTab, C.nosize, C.noacc, C.cs32, C.u32⟩

theorem ChainCore.of_sameVol {d d1 : Dev} {f0 : FileH} {c0 : Nat} {chain : List Nat} (C : ChainCore d f0 c0 chain)
    (hv : SameVol d d1) : ChainCore d1 f0 c0 chain :=
  ⟨by rw [hv.failAt]; exact C.failAt, by rw [hv.fs, hv.img]; exact C.geo, C.first, by rw [hv.fs, hv.img]; exact C.link,
   by rw [hv.fs]; exact C.inTab, C.nosize, by rw [hv.fs]; exact C.noacc, by rw [hv.fs]; exact C.cs32,
   by rw [hv.fs]; exact C.u32⟩

theorem ChainDir.of_sameVol {d d1 : Dev} {f0 : FileH} {c0 : Nat} {chain : List Nat} (C : ChainDir d f0 c0 chain)
    (hv : SameVol d d1) : ChainDir d1 f0 c0 chain :=
  ⟨by rw [hv.failAt]; exact C.failAt, by rw [hv.fs, hv.img]; exact C.geo, C.first, by rw [hv.fs, hv.img]; exact C.link,
   by rw [hv.fs]; exact C.inTab, C.nosize, by rw [hv.fs]; exact C.noacc, C.clean, by rw [hv.fs]; exact C.cs32,
   by rw [hv.fs]; exact C.u32⟩

/-- device offset of stream byte `o` -/
def chainSrc (fs : FsState) (chain : List Nat) (o : Nat) : Nat :=
  clusterOff fs (chain.getD (o / fs.clusterSize) 0) + o % fs.clusterSize

/-- bytes one `read` can deliver at `o`: up to the end of the cluster; none at the end of the chain -/
def chainRoom (fs : FsState) (chain : List Nat) (o : Nat) : Nat :=
  if o < chain.length * fs.clusterSize then fs.clusterSize - o % fs.clusterSize else 0

section chain
variable {d : Dev} {f0 : FileH} {c0 : Nat} {chain : List Nat}

theorem dirFile_size? (cs o : Nat) : (dirFile f0 chain cs o).size? = f0.size? := rfl

theorem ChainCore.head (C : ChainCore d f0 c0 chain) : chain[0]? = some c0 := by
  obtain ⟨t, ht⟩ := chain_head C.link
  rw [ht]; rfl

/-- the cluster `File::read` selects at `o`: the `o / cs`-th of the chain, if any -/
theorem ChainCore.curOpt (C : ChainCore d f0 c0 chain) (o : Nat) (ho : o ≤ chain.length * d.fs.clusterSize) :
    ∃ d1, run (if o % d.fs.clusterSize = 0 then (dirFile f0 chain d.fs.clusterSize o).boundaryCluster
               else pure (dirFile f0 chain d.fs.clusterSize o).currentCluster) d =
      (.ok chain[o / d.fs.clusterSize]?, d1) ∧ SameStore d d1 := by
  have hcs := C.geo.cs_pos
  by_cases hm : o % d.fs.clusterSize = 0
  · rw [if_pos hm]
    unfold FileH.boundaryCluster
    by_cases h0 : o = 0
    · subst h0
      simp only [dirFile, if_true, Nat.zero_div, C.head, C.first]
      exact ⟨d, rfl, SameStore.refl d⟩
    · have hq := pred_div_pos hcs (by omega) hm
      have hle : o / d.fs.clusterSize ≤ chain.length := Nat.div_le_of_le_mul (by rw [Nat.mul_comm]; exact ho)
      have hp : (o - 1) / d.fs.clusterSize = o / d.fs.clusterSize - 1 := by
        rw [pred_div hcs (by omega), if_pos hm]
      have hlt : o / d.fs.clusterSize - 1 < chain.length := by omega
      have hget : chain[o / d.fs.clusterSize - 1]? = some chain[o / d.fs.clusterSize - 1] :=
        List.getElem?_eq_getElem hlt
      simp only [dirFile, if_neg h0, hp, hget]
      obtain ⟨d1, h1, hs1⟩ := run_nextCluster chain[o / d.fs.clusterSize - 1] d C.failAt C.geo
        (C.inTab _ (List.getElem_mem hlt)).2
      refine ⟨d1, ?_, hs1⟩
      rw [h1, chain_nextV_getElem? C.link _ _ hget, Nat.sub_add_cancel hq]
  · rw [if_neg hm]
    have h0 : o ≠ 0 := by rintro rfl; simp at hm
    have hp : (o - 1) / d.fs.clusterSize = o / d.fs.clusterSize := by
      rw [pred_div hcs (by omega), if_neg hm]
    simp only [dirFile, if_neg h0, hp]
    exact ⟨d, rfl, SameStore.refl d⟩

/-- **one `File::read` on a cluster-chain directory**: the bytes of the image from the stream position to the end of
    the cluster (at most `n`), nothing at the end of the chain -/
theorem ChainCore.file_read (C : ChainCore d f0 c0 chain) (o n : Nat) (ho : o ≤ chain.length * d.fs.clusterSize) :
    Evals ((dirFile f0 chain d.fs.clusterSize o).read n) d
      (d.img.read (chainSrc d.fs chain o) (min n (chainRoom d.fs chain o)),
       dirFile f0 chain d.fs.clusterSize (o + min n (chainRoom d.fs chain o))) := by
  have hcs := C.geo.cs_pos
  obtain ⟨d1, h1, hs1⟩ := C.curOpt o ho
  obtain ⟨hq1, hq2⟩ := decomp o d.fs.clusterSize hcs
  have hoff : (dirFile f0 chain d.fs.clusterSize o).offset = o := rfl
  have hsz : (dirFile f0 chain d.fs.clusterSize o).size? = none := C.nosize
  unfold Evals FileH.read
  rw [run_bind_ok (run_getFs d)]
  simp only
  rw [hoff, run_bind_ok h1]
  cases hcur : chain[o / d.fs.clusterSize]? with
  | none =>
    have hge : chain.length ≤ o / d.fs.clusterSize := by
      rcases Nat.lt_or_ge (o / d.fs.clusterSize) chain.length with h | h
      · rw [List.getElem?_eq_getElem h] at hcur; cases hcur
      · exact h
    have hnl : ¬ o < chain.length * d.fs.clusterSize := fun h => by
      have := div_lt_of_lt_mul hcs h; omega
    simp only [chainRoom, if_neg hnl, Nat.min_zero, Nat.add_zero, Img.read_zero]
    exact ⟨d1, rfl, hs1⟩
  | some cur =>
    have hlt : o / d.fs.clusterSize < chain.length := by
      rcases Nat.lt_or_ge (o / d.fs.clusterSize) chain.length with h | h
      · exact h
      · rw [List.getElem?_eq_none h] at hcur; cases hcur
    have holt : o < chain.length * d.fs.clusterSize := lt_mul_of_div_lt hcs hlt
    have hmem : cur ∈ chain := List.mem_of_getElem? hcur
    obtain ⟨hc2, hct⟩ := C.inTab cur hmem
    have hgetD : chain.getD (o / d.fs.clusterSize) 0 = cur := by
      rw [List.getD_eq_getElem?_getD, hcur]; rfl
    simp only [hsz, chainRoom, if_pos holt, chainSrc, hgetD]
    generalize hk : min n (d.fs.clusterSize - o % d.fs.clusterSize) = k
    have hkk : min k (d.fs.clusterSize - o % d.fs.clusterSize) = k := by
      omega
    rw [hkk]
    by_cases hk0 : k = 0
    · rw [if_pos hk0, hk0, Nat.add_zero, Img.read_zero]
      exact ⟨d1, rfl, hs1⟩
    · rw [if_neg hk0]
      have hfa1 : d1.failAt = none := by rw [hs1.failAt]; exact C.failAt
      rw [run_bind_ok (run_offsetFromClusterP C.geo cur hc2 hct d1)]
      rw [run_bind_ok (run_seekStart _ d1 hfa1)]
      have hdev := C.geo.cluster_dev hc2 hct
      have hmin : min k ((d1.didSeek (clusterOff d.fs cur + o % d.fs.clusterSize)).img.size -
          (d1.didSeek (clusterOff d.fs cur + o % d.fs.clusterSize)).pos) = k := by
        simp only [didSeek_img, didSeek_pos, hs1.img]; omega
      rw [run_bind_ok (run_read k _ (by simpa using hfa1)), hmin]
      simp only [Img.read_length, if_neg hk0, didSeek_img, didSeek_pos, hs1.img]
      have hstore : SameStore d ((d1.didSeek (clusterOff d.fs cur + o % d.fs.clusterSize)).didRead k) :=
        hs1.trans ((sameStore_didSeek _ _).trans (sameStore_didRead _ _))
      -- the handle afterwards
      have hnew : ∀ ent, f0.entry = ent →
          ({ firstCluster := (dirFile f0 chain d.fs.clusterSize o).firstCluster, currentCluster := some cur,
             offset := o + k, entry := ent } : FileH) = dirFile f0 chain d.fs.clusterSize (o + k) := by
        intro ent hent
        subst hent
        have hne : o + k ≠ 0 := by omega
        have hd : (o + k - 1) / d.fs.clusterSize = o / d.fs.clusterSize := by
          have := (div_mod_add (o := o) (j := k - 1) hcs (by omega)).1
          rw [← this]; congr 1; omega
        simp only [dirFile, if_neg hne, hd, hcur]
      have hent : (dirFile f0 chain d.fs.clusterSize o).entry = f0.entry := rfl
      rw [hent]
      rcases C.noacc with hacc | hnone
      · cases he : f0.entry with
        | none => simp only [he]; rw [hnew _ he]; exact ⟨_, rfl, hstore⟩
        | some e =>
          simp only [he, hacc, Bool.false_eq_true, if_false]
          rw [hnew _ he]; exact ⟨_, rfl, hstore⟩
      · simp only [hnone]; rw [hnew _ hnone]; exact ⟨_, rfl, hstore⟩

theorem ChainDir.head (C : ChainDir d f0 c0 chain) : chain[0]? = some c0 := C.core.head

theorem ChainDir.file_read (C : ChainDir d f0 c0 chain) (o n : Nat) (ho : o ≤ chain.length * d.fs.clusterSize) :
    Evals ((dirFile f0 chain d.fs.clusterSize o).read n) d
      (d.img.read (chainSrc d.fs chain o) (min n (chainRoom d.fs chain o)),
       dirFile f0 chain d.fs.clusterSize (o + min n (chainRoom d.fs chain o))) := C.core.file_read o n ho

end chain

end FatVerif.DirSim
