import FatVerif.Proofs.FormatImage3
import FatVerif.Props.C06
/-! C06 image part, 4: `format_volume` cut into named phases (definitionally the same program). -/
namespace FatVerif
open Format

/-- last phase: the volume-label entry at the start of the root directory, then rewind -/
def fmtLabel (o : FormatOpts) (rootPos : Nat) : Prog Unit :=
  match o.label with
  | some lbl =>
    Prog.bind (Prog.seekStart rootPos) fun _ =>
    Prog.bind (writeChunks devStrm () (chunksOf (DirFileEntryData.new lbl ATTR_VOLUME_ID).serialize FileH.entryChunkSizes))
      fun _ =>
    Prog.bind (Prog.seekStart 0) fun _ => Prog.pure ()
  | none => Prog.bind (Prog.seekStart 0) fun _ => Prog.pure ()

/-- FAT32 only: allocate the root cluster, zero it, write the FS-info sector -/
def fmtFat32 (o : FormatOpts) (b : FBpb) (ft : FatType) (totalClusters rootPos : Nat) : Prog Unit :=
  if ft = .fat32 then
    Prog.bind (Table.allocCluster DiskSlice.strm ft (fatSliceOf (formatFsState b ft) false) none none 1) fun x =>
    if x.1 ≠ b.rootCluster then Prog.bind (Prog.fail .panic) fun (_ : Unit) => fmtLabel o rootPos
    else
      Prog.bind (Prog.seekStart
        ((b.reserved + b.fats * b.sectorsPerFat + b.rootDirSectors + (x.1 - 2) * b.spc) * b.bps)) fun _ =>
      Prog.bind (writeZeros devStrm () (b.spc * b.bps)) fun _ =>
      Prog.bind (Prog.seekStart (b.fsInfoSector * b.bps)) fun _ =>
      Prog.bind (writeChunks devStrm ()
        (chunksOf (fsInfoBytes { free := some (totalClusters - 1), next := some (x.1 + 1), dirty := false })
          fsInfoChunks)) fun _ =>
      Prog.bind (writeZerosUntilEndOfSector b.bps) fun _ => fmtLabel o rootPos
  else fmtLabel o rootPos

/-- FAT area and root region -/
def fmtFatRoot (o : FormatOpts) (b : FBpb) (ft : FatType) : Prog Unit :=
  Prog.bind (Prog.seekStart (b.reserved * b.bps)) fun _ =>
  Prog.bind (writeZeros devStrm () (b.fats * b.sectorsPerFat * b.bps)) fun _ =>
  Prog.bind (liftE b.totalClusters) fun totalClusters =>
  Prog.bind (Table.formatFat DiskSlice.strm ft (fatSliceOf (formatFsState b ft) false) b.media
    (b.sectorsPerFat * b.bps) totalClusters) fun _ =>
  Prog.bind (Prog.seekStart ((b.reserved + b.fats * b.sectorsPerFat) * b.bps)) fun _ =>
  Prog.bind (writeZeros devStrm () (b.rootDirSectors * b.bps)) fun _ =>
  fmtFat32 o b ft totalClusters ((b.reserved + b.fats * b.sectorsPerFat) * b.bps)

/-- boot sector (and its FAT32 backup), each padded to the end of its sector -/
def fmtBoot (o : FormatOpts) (boot : FBoot) (ft : FatType) : Prog Unit :=
  Prog.bind (writeBootSector boot) fun _ =>
  Prog.bind (writeZerosUntilEndOfSector boot.bpb.bps) fun _ =>
  if boot.bpb.isFat32 = true then
    Prog.bind (Prog.seekStart (boot.bpb.backupBoot * boot.bpb.bps)) fun _ =>
    Prog.bind (writeBootSector boot) fun _ =>
    Prog.bind (writeZerosUntilEndOfSector boot.bpb.bps) fun _ => fmtFatRoot o boot.bpb ft
  else fmtFatRoot o boot.bpb ft

/-- the sector count `format_volume` uses -/
def fmtTotalProg (o : FormatOpts) : Prog Nat :=
  match o.totalSectors with
  | some t => Prog.pure t
  | none =>
    Prog.bind (Prog.seek (.fromEnd 0)) fun bytes =>
    Prog.bind (Prog.seekStart 0) fun _ =>
    if bytes / o.bps > 4294967295 then Prog.fail .invalidInput else Prog.pure (bytes / o.bps)

def fmtProg (o : FormatOpts) : Prog Unit :=
  Prog.bind (Prog.seek (.cur 0)) fun pos =>
  if pos ≠ 0 then Prog.fail .panic else
  Prog.bind (fmtTotalProg o) fun total =>
  Prog.bind (liftE (formatChecked o total)) fun x => fmtBoot o x.1 x.2

theorem formatVolume_eq (o : FormatOpts) : formatVolume o = fmtProg o := by
  unfold formatVolume fmtProg fmtTotalProg fmtBoot fmtFatRoot fmtFat32 fmtLabel
  rfl

end FatVerif
