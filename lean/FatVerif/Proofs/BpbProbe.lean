import FatVerif.Proofs.BpbParse
/-! `probe` (= `fatfs::verif::bpb_probe`, the boot-sector part of `FileSystem::new`) and `mountGeometry`. -/
namespace FatVerif
open Bpb

/-- the geometry `probe` returns for a validated boot sector -/
def Bpb.geoOf (p : Bpb) : Geometry :=
  { fatType := FatType.fromClusters p.tcNat
    bytesPerSector := p.bytesPerSector
    clusterSize := p.sectorsPerCluster * p.bytesPerSector
    totalClusters := p.tcNat
    firstDataSector := p.fdsNat
    rootDirSectors := p.rdsNat
    sectorsPerFat := p.sectorsPerFat
    reservedSectors := p.reservedSectors
    fats := p.fats
    totalSectors := p.totalSectors
    mirroring := p.mirroringEnabled
    activeFat := p.activeFat
    rootDirFirstCluster := p.rootDirFirstCluster
    fsInfoSector := p.fsInfoSector
    backupBootSector := p.backupBootSector
    statusDirty := p.statusDirty
    statusIoError := p.statusIoError }

theorem probe_ok {b : List Nat} {strict : Bool} {g : Geometry} (hb : IsSector b)
    (h : probe b strict = .ok g) : (Bpb.deserialize b).Valid ∧ g = (Bpb.deserialize b).geoOf := by
  have hr := deserialize_inRange hb
  unfold probe probeBoot at h
  rw [ebind_eq_ok] at h
  obtain ⟨_, hv, hg⟩ := h
  unfold BootSector.validate at hv
  by_cases hs : strict = true ∧ (BootSector.deserialize b).bootSig ≠ [0x55, 0xAA]
  · rw [if_pos hs] at hv; cases hv
  · rw [if_neg hs] at hv
    have hvalid : (Bpb.deserialize b).Valid := validate_ok hr hv
    refine ⟨hvalid, ?_⟩
    have := geometry_eq hr hvalid
    change (Bpb.deserialize b).geometry = .ok g at hg
    rw [this] at hg
    cases hg; rfl

/-- after the repairs every failure of `probe` is `CorruptedFileSystem` -/
theorem probe_error {b : List Nat} {strict : Bool} {e : Err} (hb : IsSector b)
    (h : probe b strict = .error e) : e = .corrupted := by
  have hr := deserialize_inRange hb
  unfold probe probeBoot at h
  rw [ebind_eq_error] at h
  rcases h with hv | ⟨_, hv, hg⟩
  · unfold BootSector.validate at hv
    by_cases hs : strict = true ∧ (BootSector.deserialize b).bootSig ≠ [0x55, 0xAA]
    · rw [if_pos hs] at hv; cases hv; rfl
    · rw [if_neg hs] at hv
      exact validate_error hr hv
  · exfalso
    unfold BootSector.validate at hv
    by_cases hs : strict = true ∧ (BootSector.deserialize b).bootSig ≠ [0x55, 0xAA]
    · rw [if_pos hs] at hv; cases hv
    · rw [if_neg hs] at hv
      have := geometry_eq hr (validate_ok hr hv)
      change (Bpb.deserialize b).geometry = .error e at hg
      rw [this] at hg
      cases hg

/-! ### FS-info -/

theorem FsInfo.fixFree_le {total : Nat} {o : Option Nat} {n : Nat} (h : FsInfo.fixFree total o = some n) :
    n ≤ total ∧ o = some n := by
  cases o with
  | none => cases h
  | some m =>
    simp only [FsInfo.fixFree] at h
    split at h
    · cases h
    · cases h; exact ⟨by omega, rfl⟩

theorem FsInfo.fixNext_le {mx : Nat} {o : Option Nat} {n : Nat} (h : FsInfo.fixNext mx o = some n) :
    n ≤ mx ∧ o = some n := by
  cases o with
  | none => cases h
  | some m =>
    simp only [FsInfo.fixNext] at h
    split at h
    · cases h
    · cases h; exact ⟨by omega, rfl⟩

theorem FsInfo.decodeNext_ge {v n : Nat} (h : FsInfo.decodeNext v = some n) : 2 ≤ n ∧ n < 0xFFFFFFFF ∨ 0xFFFFFFFF < n := by
  unfold FsInfo.decodeNext at h
  split at h
  · cases h
  · cases h; omega

theorem FsInfo.deserialize_next_ge {b : List Nat} {f : FsInfo} (h : FsInfo.deserialize b = .ok f) {n : Nat}
    (hn : f.nextFreeCluster = some n) : 2 ≤ n := by
  unfold FsInfo.deserialize at h
  split at h
  · cases h
  · split at h
    · cases h
    · split at h
      · cases h
      · cases h
        have := FsInfo.decodeNext_ge hn
        omega

end FatVerif
