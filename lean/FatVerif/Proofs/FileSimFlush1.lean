import FatVerif.Props.C02sim
import FatVerif.Props.C14
import FatVerif.Proofs.DirEntry
/-!
# FileSim / flush, part 1: `File::flush` and `drop` on a fault-free device

`EntryRep fs img f`: where the handle's 32-byte directory record lives and how it relates to the image — the slot lies
inside the device, outside the first FAT copy and outside the clusters of the file; the record is well formed and not
LFN-patterned; its first-cluster field is the handle's first cluster; a clean editor means the slot already holds the
record.  `flush_sim`: `File::flush` succeeds, writes the record into the slot (nothing if the editor is clean), then
flushes the device; the abstraction of the handle is unchanged.
-/
namespace FatVerif.FileSim
open FatVerif FatVerif.Fat

/-- `write_all` on the raw device of a non-empty buffer that fits: ONE write -/
theorem run_writeAll_dev (bs : List Nat) (d : Dev) (hfa : d.failAt = none) (hne : 0 < bs.length)
    (hfit : d.pos + bs.length ≤ d.img.size) :
    run (writeAll devStrm () bs) d = (.ok (), didWrite d bs) := by
  have hmin : min bs.length (d.img.size - d.pos) = bs.length := by omega
  obtain ⟨k, hk⟩ : ∃ k, bs.length = k + 1 := ⟨bs.length - 1, by omega⟩
  have hemp : bs.isEmpty = false := by
    cases bs with
    | nil => simp at hne
    | cons _ _ => rfl
  have hw : run (devStrm.write () bs) d = (.ok (bs.length, ()), didWrite d bs) := by
    show run (Prog.write bs >>= fun n => (pure (n, ()) : Prog (Nat × Unit))) d = _
    rw [run_bind_ok (run_write bs d hfa), hmin]
    rfl
  unfold writeAll
  rw [hk]
  unfold writeAllLoop
  simp only [hemp, Bool.false_eq_true, if_false]
  rw [run_bind_ok hw]
  simp only
  rw [if_neg (by omega), List.drop_length]
  unfold writeAllLoop
  simp

theorem getD_append_left' (a b : List Nat) (i : Nat) (h : i < a.length) : (a ++ b).getD i 0 = a.getD i 0 := by
  simp [List.getD_eq_getElem?_getD, List.getElem?_append_left h]

theorem getD_append_right' (a b : List Nat) (i : Nat) (h : a.length ≤ i) :
    (a ++ b).getD i 0 = b.getD (i - a.length) 0 := by
  simp [List.getD_eq_getElem?_getD, List.getElem?_append_right h]

/-- field-by-field serialisers on the raw device: consecutive non-empty chunks that fit -/
theorem run_writeChunks_dev : ∀ (cs : List (List Nat)) (d : Dev), d.failAt = none → d.img.WF →
    (∀ c ∈ cs, 0 < c.length) → d.pos + cs.flatten.length ≤ d.img.size →
    ∃ d', run (writeChunks devStrm () cs) d = (.ok (), d') ∧ d'.fs = d.fs ∧ d'.failAt = d.failAt ∧
      d'.clock = d.clock ∧ d'.img.size = d.img.size ∧ d'.img.WF ∧
      (∀ q, d'.img.getByte q =
        if d.pos ≤ q ∧ q < d.pos + cs.flatten.length then cs.flatten.getD (q - d.pos) 0 % 256
        else d.img.getByte q) := by
  intro cs
  induction cs with
  | nil =>
    intro d _ hwf _ _
    exact ⟨d, rfl, rfl, rfl, rfl, rfl, hwf, fun q => by
      rw [if_neg (by simp only [List.flatten_nil, List.length_nil]; omega)]⟩
  | cons c rest ih =>
    intro d hfa hwf hne hfit
    have hc := hne c (by simp)
    simp only [List.flatten_cons, List.length_append] at hfit
    unfold writeChunks
    rw [run_bind_ok (run_writeAll_dev c d hfa hc (by omega))]
    have hfit1 : d.pos + c.length ≤ d.img.size := by omega
    have himg1 : (didWrite d c).img = d.img.write d.pos c := didWrite_img d c hfit1
    have hpos1 : (didWrite d c).pos = d.pos + c.length := by
      show d.pos + min c.length (d.img.size - d.pos) = _
      congr 1; omega
    obtain ⟨d2, h2, hfs2, hfa2, hclk2, hsz2, hwf2, hb2⟩ := ih (didWrite d c) hfa
      (by rw [himg1]; exact Img.wf_write _ hwf _ _) (fun x hx => hne x (List.mem_cons_of_mem _ hx))
      (by rw [hpos1, didWrite_img_size]; omega)
    refine ⟨d2, h2, hfs2, hfa2, hclk2, by rw [hsz2, didWrite_img_size], hwf2, ?_⟩
    intro q
    rw [hb2 q, hpos1, himg1, Img.getByte_write _ hwf]
    simp only [List.flatten_cons, List.length_append]
    by_cases h1 : d.pos + c.length ≤ q ∧ q < d.pos + c.length + rest.flatten.length
    · rw [if_pos h1, if_pos (by omega), getD_append_right' _ _ _ (by omega)]
      congr 2; omega
    · rw [if_neg h1]
      by_cases h2 : d.pos ≤ q ∧ q < d.pos + c.length
      · rw [if_pos h2, if_pos (by omega), getD_append_left' _ _ _ (by omega)]
      · rw [if_neg h2, if_neg (by omega)]

/-- the device after a successful `flush` call -/
def didFlush (d : Dev) : Dev := { d.count .f with log := .flush :: d.log }

theorem run_flush (d : Dev) (h : d.failAt = none) : run Prog.flush d = (.ok (), didFlush d) := by
  show stepOp .flush d = _
  simp only [stepOp]
  rw [devCall_nofault _ _ _ h]
  rfl

/-- the handle's directory record and its slot -/
structure EntryRep (fs : FsState) (img : Img) (f : FileH) (e : DirEntryEditor) : Prop where
  entry : f.entry = some e
  /-- every field of the record fits its width -/
  wf : e.data.WF
  /-- a short entry, not an LFN slot -/
  notLfn : attrsIsLfn e.data.attrs = false
  /-- the slot lies inside the device -/
  inDev : e.pos + 32 ≤ img.size
  /-- … outside the first FAT copy -/
  offFat : e.pos + 32 ≤ (fatSliceOf fs).beginOff ∨ (fatSliceOf fs).beginOff + (fatSliceOf fs).size ≤ e.pos
  /-- … and outside the clusters of the file itself -/
  offData : ∀ c ∈ fileChain fs img f, e.pos + 32 ≤ clusterOff fs c ∨ clusterOff fs c + fs.clusterSize ≤ e.pos
  /-- the record's first cluster is the handle's -/
  first : e.data.firstCluster fs.fatType = f.firstCluster
  /-- a clean editor: the slot holds the record -/
  sync : e.dirty = false → img.read e.pos 32 = e.data.serialize

/-- two images that agree on the first FAT copy and on the clusters of the file give the same representation -/
theorem FileRep.of_agree {fs : FsState} {sz : Nat} (hg : Geo fs sz) {img img' : Img} {f f' : FileH}
    (hrep : FileRep fs img f) (hfat : FatAgree fs img img')
    (hdata : ∀ c ∈ fileChain fs img f, ∀ j, j < fs.clusterSize →
      img'.getByte (clusterOff fs c + j) = img.getByte (clusterOff fs c + j))
    (hfirst : f'.firstCluster = f.firstCluster) (hcur : f'.currentCluster = f.currentCluster)
    (hoff : f'.offset = f.offset) (hsize : f'.size? = f.size?) :
    FileRep fs img' f' ∧ CoreEq (absFile fs img' f') (absFile fs img f) ∧
    fileChain fs img' f' = fileChain fs img f ∧ tabView fs img' = tabView fs img := by
  have htv : tabView fs img' = tabView fs img := tabView_congr hg hfat
  have hch : fileChain fs img' f' = fileChain fs img f := by unfold fileChain; rw [hfirst, htv]
  have hcore : CoreEq (absFile fs img' f') (absFile fs img f) :=
    ⟨rfl, hch, fun c hc j hj => hdata c hc j hj, by show f'.size?.getD 0 = f.size?.getD 0; rw [hsize], hfirst,
      hoff, hcur⟩
  obtain ⟨szv, hsz⟩ := hrep.file
  refine ⟨⟨⟨szv, hsize.trans hsz⟩, by rw [htv]; exact AFileInv.of_coreEq hcore hrep.inv, ?_, ?_, ?_⟩, hcore, hch, htv⟩
  · intro c hc; rw [hch, htv]; exact hrep.chain c (hfirst ▸ hc)
  · intro c hc; exact hrep.inTab c (hch ▸ hc)
  · intro c hc; rw [htv]; exact hrep.last_eoc c (hch ▸ hc)

theorem entryChunks_pos (bs : List Nat) (h : bs.length = 32) :
    ∀ c ∈ chunksOf bs FileH.entryChunkSizes, 0 < c.length := by
  intro c hc
  simp only [FileH.entryChunkSizes, chunksOf, List.mem_cons, List.not_mem_nil, or_false] at hc
  rcases hc with rfl | rfl | rfl | rfl | rfl | rfl | rfl | rfl | rfl | rfl | rfl | rfl <;>
    simp only [List.length_take, List.length_drop] <;> omega

/-- **`flush_sim`.**  `File::flush` on a fault-free device, for a represented handle whose record lives in a slot
    satisfying `EntryRep`: the call succeeds; the new handle is the old one with a clean editor; the image changes only
    inside the 32-byte slot (not at all if the editor was clean) and the slot now holds the serialised record (size,
    first cluster, time stamps); the device log is `flush :: (slot pieces) ++ old log`, i.e. the device flush mark
    comes after the slot write and after everything written before the call; mounted state, representation and
    abstraction are unchanged. -/
theorem flush_sim (f : FileH) (e : DirEntryEditor) (d : Dev) (h : SimInv f d) (he : EntryRep d.fs d.img f e) :
    ∃ d', run f.flush d = (.ok { f with entry := some { e with dirty := false } }, d') ∧
      DevStep d d' ∧ d'.fs = d.fs ∧
      (∀ q, ¬ (e.pos ≤ q ∧ q < e.pos + 32) → d'.img.getByte q = d.img.getByte q) ∧
      (e.dirty = false → d'.img = d.img) ∧
      d'.img.read e.pos 32 = e.data.serialize ∧
      (∃ items, d'.log = .flush :: (items.reverse ++ d.log) ∧
        (e.dirty = true → Pieces e.pos (e.data.serialize.take 32) items) ∧ (e.dirty = false → items = [])) ∧
      SimInv { f with entry := some { e with dirty := false } } d' ∧
      EntryRep d'.fs d'.img { f with entry := some { e with dirty := false } } { e with dirty := false } ∧
      CoreEq (absFile d'.fs d'.img { f with entry := some { e with dirty := false } }) (absFile d.fs d.img f) := by
  obtain ⟨hfa, hwf, hg, hrep, hinfo⟩ := h
  have hlen : e.data.serialize.length = 32 := DirFileEntryData.serialize_length _ he.wf.name_len
  have hlt := DirFileEntryData.serialize_lt _ he.wf
  -- the program, evaluated
  have hrun : ∃ d1, run f.flushDirEntry d = (.ok { f with entry := some { e with dirty := false } }, d1) ∧
      d1.fs = d.fs ∧ d1.failAt = d.failAt ∧ d1.clock = d.clock ∧ d1.img.size = d.img.size ∧ d1.img.WF ∧
      (∀ q, d1.img.getByte q = if e.dirty = true ∧ e.pos ≤ q ∧ q < e.pos + 32 then
        e.data.serialize.getD (q - e.pos) 0 else d.img.getByte q) ∧
      (e.dirty = false → d1 = d) := by
    unfold FileH.flushDirEntry
    rw [he.entry]
    simp only
    cases hd : e.dirty with
    | false =>
      refine ⟨d, ?_, rfl, rfl, rfl, rfl, hwf, fun q => by simp, fun _ => rfl⟩
      simp only [Bool.false_eq_true, if_false]
      have : ({ e with dirty := false } : DirEntryEditor) = e := by cases e; simp_all
      rw [this, ← he.entry]
      rfl
    | true =>
      simp only [if_true]
      rw [run_bind_ok (run_seekStart e.pos d hfa)]
      have hflat : (chunksOf e.data.serialize FileH.entryChunkSizes).flatten = e.data.serialize := by
        rw [flatten_chunksOf, entryChunkSizes_sum, ← hlen, List.take_length]
      obtain ⟨d1, h1, hfs1, hfa1, hclk1, hsz1, hwf1, hb1⟩ := run_writeChunks_dev
        (chunksOf e.data.serialize FileH.entryChunkSizes) (d.didSeek e.pos) (by simpa using hfa) (by simpa using hwf)
        (entryChunks_pos _ hlen) (by rw [hflat, hlen]; simp only [didSeek_pos, didSeek_img]; exact he.inDev)
      rw [run_bind_ok h1]
      refine ⟨d1, rfl, hfs1, hfa1, hclk1, hsz1, hwf1, ?_, fun h => by cases h⟩
      intro q
      have hb := hb1 q
      rw [hflat, hlen] at hb
      rw [hb]
      by_cases hq : e.pos ≤ q ∧ q < e.pos + 32
      · rw [if_pos (show (d.didSeek e.pos).pos ≤ q ∧ q < (d.didSeek e.pos).pos + 32 from hq), if_pos ⟨trivial, hq⟩]
        have hi : q - e.pos < e.data.serialize.length := by omega
        have : e.data.serialize.getD (q - e.pos) 0 < 256 := by
          rw [List.getD_eq_getElem?_getD, List.getElem?_eq_getElem hi]
          exact hlt _ (List.getElem_mem hi)
        show e.data.serialize.getD (q - e.pos) 0 % 256 = _
        rw [Nat.mod_eq_of_lt this]
      · rw [if_neg (show ¬ ((d.didSeek e.pos).pos ≤ q ∧ q < (d.didSeek e.pos).pos + 32) from hq),
          if_neg (fun h => hq h.2)]
        rfl
  obtain ⟨d1, hr1, hfs1, hfa1, hclk1, hsz1, hwf1, hb1, hclean1⟩ := hrun
  have hfa1' : d1.failAt = none := by rw [hfa1]; exact hfa
  have hrunf : run f.flush d = (.ok { f with entry := some { e with dirty := false } }, didFlush d1) := by
    unfold FileH.flush
    rw [run_bind_ok hr1, run_bind_ok (run_flush d1 hfa1')]
    rfl
  -- what the image looks like
  have hout : ∀ q, ¬ (e.pos ≤ q ∧ q < e.pos + 32) → (didFlush d1).img.getByte q = d.img.getByte q := by
    intro q hq
    show d1.img.getByte q = _
    rw [hb1 q, if_neg (fun h => hq h.2)]
  have hslot : (didFlush d1).img.read e.pos 32 = e.data.serialize := by
    show d1.img.read e.pos 32 = _
    cases hd : e.dirty with
    | false => rw [hclean1 hd]; exact he.sync hd
    | true =>
      apply List.ext_getElem
      · rw [Img.read_length, hlen]
      · intro i h1 h2
        rw [Img.read_length] at h1
        have := Img.read_getD d1.img e.pos 32 i h1
        rw [List.getD_eq_getElem?_getD, List.getElem?_eq_getElem (by rw [Img.read_length]; exact h1)] at this
        simp only [Option.getD_some] at this
        rw [this, hb1, if_pos ⟨hd, by omega, by omega⟩, Nat.add_sub_cancel_left,
          List.getD_eq_getElem?_getD, List.getElem?_eq_getElem h2]
        rfl
  have hfat : FatAgree d.fs d.img (didFlush d1).img := by
    intro q h1 h2
    exact hout q (by rcases he.offFat with h | h <;> omega)
  have hdata : ∀ c ∈ fileChain d.fs d.img f, ∀ j, j < d.fs.clusterSize →
      (didFlush d1).img.getByte (clusterOff d.fs c + j) = d.img.getByte (clusterOff d.fs c + j) := by
    intro c hc j hj
    exact hout _ (by rcases he.offData c hc with h | h <;> omega)
  have hsize? : ({ f with entry := some { e with dirty := false } } : FileH).size? = f.size? := by
    unfold FileH.size?; rw [he.entry]
  obtain ⟨hrep', hcore, hch', htv'⟩ := hrep.of_agree hg hfat hdata (f' := { f with entry := some { e with dirty := false } })
    rfl rfl rfl hsize?
  have hfsF : (didFlush d1).fs = d.fs := hfs1
  have hstep : DevStep d (didFlush d1) :=
    ⟨hfa1, hsz1, fun _ => hwf1, by rw [hfsF]; exact FsGeomEq.refl _, hclk1⟩
  obtain ⟨_, _, hdirty, hcl⟩ := flush_persists f d hrunf
  refine ⟨didFlush d1, hrunf, hstep, hfsF, hout, ?_, hslot, ?_, ?_, ?_, ?_⟩
  · intro hd; show d1.img = d.img; rw [hclean1 hd]
  · cases hd : e.dirty with
    | true =>
      obtain ⟨_, items, hl, hp⟩ := hdirty e he.entry hd
      exact ⟨items, hl, fun _ => hp, fun h => (by cases h)⟩
    | false =>
      obtain ⟨_, hl⟩ := hcl (fun e0 he0 => by rw [he.entry] at he0; cases he0; exact hd)
      exact ⟨[], by simpa using hl, fun h => (by cases h), fun _ => rfl⟩
  · refine ⟨hfa1', hwf1, ?_, ?_, ?_⟩
    · show Geo (didFlush d1).fs (didFlush d1).img.size
      rw [hfsF, show (didFlush d1).img.size = d.img.size from hsz1]; exact hg
    · show FileRep (didFlush d1).fs _ _
      rw [hfsF]; exact hrep'
    · show InfoOk (didFlush d1).fs _
      rw [hfsF]; exact ⟨hinfo.hint, by rw [htv']; exact hinfo.count⟩
  · show EntryRep (didFlush d1).fs _ _ _
    rw [hfsF]
    exact ⟨rfl, he.wf, he.notLfn, by rw [show (didFlush d1).img.size = d.img.size from hsz1]; exact he.inDev, he.offFat,
      fun c hc => he.offData c (hch' ▸ hc), he.first, fun _ => hslot⟩
  · show CoreEq (absFile (didFlush d1).fs _ _) _
    rw [hfsF]; exact hcore

/-- **`drop_sim`.**  `impl Drop for File` (`FileH.drop`: the flush runs inside the destructor): same effect on image
    and log as `flush_sim`; the handle is gone afterwards, the conclusions are stated for the value it had. -/
theorem drop_sim (f : FileH) (e : DirEntryEditor) (d : Dev) (h : SimInv f d) (he : EntryRep d.fs d.img f e) :
    ∃ d', run f.drop d = (.ok (), d') ∧
      DevStep d d' ∧ d'.fs = d.fs ∧
      (∀ q, ¬ (e.pos ≤ q ∧ q < e.pos + 32) → d'.img.getByte q = d.img.getByte q) ∧
      d'.img.read e.pos 32 = e.data.serialize ∧
      (∃ items, d'.log = .flush :: (items.reverse ++ d.log) ∧
        (e.dirty = true → Pieces e.pos (e.data.serialize.take 32) items) ∧ (e.dirty = false → items = [])) ∧
      SimInv { f with entry := some { e with dirty := false } } d' ∧
      EntryRep d'.fs d'.img { f with entry := some { e with dirty := false } } { e with dirty := false } ∧
      CoreEq (absFile d'.fs d'.img { f with entry := some { e with dirty := false } }) (absFile d.fs d.img f) := by
  have h0 : SimInv f { d with dropDepth := d.dropDepth + 1 } := ⟨h.nofault, h.wf, h.geo, h.rep, h.info⟩
  obtain ⟨d1, hr, hst, hfs, hout, _, hslot, hlog, hsim, hent, hcore⟩ :=
    flush_sim f e { d with dropDepth := d.dropDepth + 1 } h0 he
  have hrun : run f.drop d = (.ok (), { d1 with dropDepth := d1.dropDepth - 1 }) := by
    unfold FileH.drop Prog.inDrop
    have hc : run (do let _ ← f.flush; (pure () : Prog Unit)) { d with dropDepth := d.dropDepth + 1 } =
        (.ok (), d1) := by
      rw [run_bind_ok hr]; rfl
    simp only [run, hc]
  refine ⟨{ d1 with dropDepth := d1.dropDepth - 1 }, hrun, ?_, hfs, hout, hslot, hlog, ?_, hent, hcore⟩
  · exact ⟨hst.failAt, hst.size, hst.wf, hst.geom, hst.clock⟩
  · exact ⟨hsim.nofault, hsim.wf, hsim.geo, hsim.rep, hsim.info⟩

end FatVerif.FileSim
