import FatVerif.Proofs.DirWriteSim27
/-! Directory WRITES, part 28: the two dot entries of a fresh one-cluster directory. -/
namespace FatVerif.DirSim
open FatVerif.FileSim FatVerif.Fat DirEntryData DirAlias

/-- **`.` and `..` in a fresh sub-directory**: the directory of the single zero-filled cluster `c`, opened through the
    handle with the (clean) editor `ed0` of its own entry, whose record already carries the stamp of the clock and is on
    the image. `.` goes to slot 0 and `..` (first cluster `dd`) to slot 1; the rest stays zero; the own entry keeps its
    bytes. -/
theorem sub_fresh_dots (d : Dev) (c : Nat) (ed0 : DirEntryEditor) (dd : Option Nat) (K : Nat)
    (C : ChainDir d (FileH.new (some c) (some ed0)) c [c]) (hwf : d.img.WF)
    (hK : d.fs.clusterSize / 32 = K + 2) (hfuel : d.fs.clusterSize / 32 < dirFuel d.fs)
    (hname : ed0.data.name.length = 11)
    (hepos : (fatSliceOf d.fs).beginOff + (fatSliceOf d.fs).mirrors * (fatSliceOf d.fs).size ≤ ed0.pos)
    (hein : ed0.pos + 32 ≤ d.img.size)
    (heout : ∀ i, i < d.fs.clusterSize / 32 →
      chainSrc d.fs [c] (32 * i) + 32 ≤ ed0.pos ∨ ed0.pos + 32 ≤ chainSrc d.fs [c] (32 * i))
    (hzero : ∀ q, clusterOff d.fs c ≤ q → q < clusterOff d.fs c + d.fs.clusterSize → d.img.getByte q = 0)
    (hst : ed0.data.setModified (clockDateTime d.clock) = ed0.data) (hedwf : ed0.data.WF)
    (hP : ∀ q, subExtra ed0 q → d.img.getByte q = ed0.data.serialize.getD (q - ed0.pos) 0) :
    ∃ d5 e5 d6 e6,
      run (FatVerif.writeEntry (.file (FileH.new (some c) (some ed0))) "."
        (sfnAt d.fs d.clock (46 :: List.replicate 10 32) 16 (some c))) d = (.ok e5, d5) ∧
      run (FatVerif.writeEntry (.file (FileH.new (some c) (some ed0))) ".."
        (sfnAt d5.fs d5.clock (46 :: 46 :: List.replicate 9 32) 16 dd)) d5 = (.ok e6, d6) ∧
      VolStep d d6 ∧ d6.fs.curDirty = true ∧ d6.clock = d.clock ∧ SubInv d.fs ed0 c [c] d.clock d6 ∧
      srcSlots d6.img (chainSrc d.fs [c]) (d.fs.clusterSize / 32) =
        sfnWith (46 :: List.replicate 10 32) (16 :: sfnStamp d.fs d.clock (some c)) ::
        sfnWith (46 :: 46 :: List.replicate 9 32) (16 :: sfnStamp d.fs d.clock dd) ::
        List.replicate K (List.replicate 32 0) ∧
      FrameOutE (d.fs.clusterSize / 32) (chainSrc d.fs [c]) (subExtra ed0) d d6 ∧
      (∀ q, subExtra ed0 q → d6.img.getByte q = d.img.getByte q) := by
  obtain ⟨V', hN, hsrc, hEx, hDP, hInv⟩ : ∃ V' : WView d (.file (FileH.new (some c) (some ed0))),
      V'.N = d.fs.clusterSize / 32 ∧ V'.src = chainSrc d.fs [c] ∧ V'.Extra = subExtra ed0 ∧
      V'.DropPost = subDropPost ed0 d.clock ∧ V'.Inv = SubInv d.fs ed0 c [c] d.clock :=
    ⟨WView.ofSub d c ed0 [c] C hwf (by rw [List.length_singleton, Nat.one_mul]; exact hfuel) hname hepos hein
      (fun i hi => heout i (by rwa [List.length_singleton, Nat.one_mul] at hi)),
      by show [c].length * _ = _; rw [List.length_singleton, Nat.one_mul], rfl, rfl, rfl, rfl⟩
  have hcs : d.fs.clusterSize = 32 * (K + 2) := by
    have := Nat.div_add_mod d.fs.clusterSize 32
    have := C.cs32
    omega
  have h42 : 0x42 ≤ ed0.pos := by
    have := C.geo.status_lt
    omega
  -- the records
  have hraw1 := sfnAt_wf d.fs d.clock (46 :: List.replicate 10 32) 16 (some c) (by decide) (by decide) (by omega)
  have hlfn1 : attrsIsLfn (sfnAt d.fs d.clock (46 :: List.replicate 10 32) 16 (some c)).attrs = false := by
    rw [sfnAt_attrs]; decide
  have hz : V'.slots d.img = List.replicate (K + 2) (List.replicate 32 0) := by
    unfold WView.slots
    rw [hN, hsrc, hK]
    refine srcSlots_zero _ _ _ (fun i hi x hx => ?_)
    rw [chainSrc_single d.fs c i (by omega)]
    exact hzero _ (by omega) (by omega)
  obtain ⟨hf1, hw1, hf2, hw2⟩ := writeEntryDot_fresh
    (sfnWith (46 :: List.replicate 10 32) (16 :: sfnStamp d.fs d.clock (some c)))
    (sfnWith (46 :: 46 :: List.replicate 9 32) (16 :: sfnStamp d.fs d.clock dd)) K rfl rfl
  -- `.`
  obtain ⟨d5, h5, hs5, hd5, hinv5, hsl5, hfr5, hmid5⟩ := V'.writeEntryDot_sim "."
    (sfnAt d.fs d.clock (46 :: List.replicate 10 32) 16 (some c)) validate_dot.1 (by decide) hraw1 hlfn1
    (by rw [hz, hf1, hN, hK]; omega)
  rw [hz, sfnAt_serialize, hw1] at hsl5
  have hc5 : d5.clock = d.clock := run_clock _ _ _ _ h5
  have hg5 : FsGeomEq d.fs d5.fs := hs5.geom
  -- `..`
  have hraw2 := sfnAt_wf d5.fs d5.clock (46 :: 46 :: List.replicate 9 32) 16 dd (by decide) (by decide) (by omega)
  have hlfn2 : attrsIsLfn (sfnAt d5.fs d5.clock (46 :: 46 :: List.replicate 9 32) 16 dd).attrs = false := by
    rw [sfnAt_attrs]; decide
  obtain ⟨d6, h6, hs6, hd6, hinv6, hsl6, hfr6, hmid6⟩ := (V'.step hinv5).writeEntryDot_sim ".."
    (sfnAt d5.fs d5.clock (46 :: 46 :: List.replicate 9 32) 16 dd) validate_dot.2 (by decide) hraw2 hlfn2
    (by show DirSlots.findFree (V'.slots d5.img) 1 + 1 ≤ V'.N
        rw [hsl5, hf2, hN, hK]; omega)
  have hsl6' : V'.slots d6.img = DirSlots.writeEntryDot (V'.slots d5.img)
      (sfnAt d5.fs d5.clock (46 :: 46 :: List.replicate 9 32) 16 dd).serialize := hsl6
  rw [hsl5, sfnAt_geom hg5, hc5, sfnAt_serialize, hw2] at hsl6'
  unfold WView.slots at hsl6'
  rw [hN, hsrc] at hsl6'
  have hinv6' : V'.Inv d6 := hinv6
  rw [hInv] at hinv6'
  have hfr : FrameOutE V'.N V'.src V'.Extra d d6 := FrameOutE.trans hfr5 hfr6
  rw [hN, hsrc, hEx] at hfr
  -- the own entry
  have hout : ∀ i, i < d.fs.clusterSize / 32 →
      chainSrc d.fs [c] (32 * i) + 32 ≤ ed0.pos ∨ ed0.pos + 32 ≤ chainSrc d.fs [c] (32 * i) := heout
  rw [hN, hsrc, hDP] at hmid5
  have hmid6' : MidImg V'.N V'.src V'.DropPost d5 d6 := hmid6
  rw [hN, hsrc, hDP] at hmid6'
  have hst5 := sub_entry_stable hmid5 hst hedwf h42 hout hP
  have hst6 := sub_entry_stable hmid6' hst hedwf h42 hout (fun q hq => by rw [hst5 q hq]; exact hP q hq)
  exact ⟨d5, _, d6, _, h5, h6, hs5.trans hs6, hd6, (run_clock _ _ _ _ h6).trans hc5, hinv6', hsl6', hfr,
    fun q hq => (hst6 q hq).trans (hst5 q hq)⟩

end FatVerif.DirSim
