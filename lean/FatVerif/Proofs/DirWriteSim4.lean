import FatVerif.Proofs.DirWriteSim3
/-! Directory WRITES, part 4: `writeSlotsKeep` and `write_entry` on the fixed root = `DirSlots.writeAt` /
    `DirSlots.writeEntry` on the root slots of the image (when the entry fits into the root region). -/
namespace FatVerif.DirSim
open FatVerif.FileSim DirEntryData

/-! ### iterated form of `writeAt` -/

/-- overwrite the slots from index `p` on, one after the other -/
def putK (L : List (List Nat)) : Nat → List (List Nat) → List (List Nat)
  | _, [] => L
  | p, x :: xs => putK (L.set p x) (p + 1) xs

theorem putK_length : ∀ (new : List (List Nat)) (L : List (List Nat)) (p : Nat), (putK L p new).length = L.length := by
  intro new
  induction new with
  | nil => intro L p; rfl
  | cons x xs ih => intro L p; simp only [putK, ih, List.length_set]

theorem putK_getElem? : ∀ (new : List (List Nat)) (L : List (List Nat)) (p i : Nat), p + new.length ≤ L.length →
    (putK L p new)[i]? = if p ≤ i ∧ i < p + new.length then new[i - p]? else L[i]? := by
  intro new
  induction new with
  | nil => intro L p i _; simp only [putK, List.length_nil, Nat.add_zero]; rw [if_neg (by omega)]
  | cons x xs ih =>
    intro L p i h
    simp only [List.length_cons] at h
    simp only [putK, List.length_cons]
    rw [ih (L.set p x) (p + 1) i (by rw [List.length_set]; omega)]
    by_cases h1 : p + 1 ≤ i ∧ i < p + 1 + xs.length
    · rw [if_pos h1, if_pos (by omega)]
      obtain ⟨j, hj⟩ : ∃ j, i - p = j + 1 := ⟨i - p - 1, by omega⟩
      rw [hj, List.getElem?_cons_succ]
      congr 1; omega
    · rw [if_neg h1, List.getElem?_set]
      by_cases h2 : p = i
      · subst h2
        rw [if_pos rfl, if_pos (by omega), if_pos (by omega), Nat.sub_self]
        rfl
      · rw [if_neg h2, if_neg (by omega)]

theorem putK_eq_writeAt (L : List (List Nat)) (p : Nat) (new : List (List Nat)) (h : p + new.length ≤ L.length) :
    putK L p new = DirSlots.writeAt L p new := by
  apply List.ext_getElem?
  intro i
  rw [putK_getElem? new L p i h]
  unfold DirSlots.writeAt
  by_cases h1 : p ≤ i ∧ i < p + new.length
  · rw [if_pos h1, List.append_assoc, List.getElem?_append_right (by simp; omega),
      List.getElem?_append_left (by simp; omega)]
    congr 1
    simp; omega
  · rw [if_neg h1]
    by_cases h2 : i < p
    · rw [List.append_assoc, List.getElem?_append_left (by simp; omega), List.getElem?_take_of_lt h2]
    · rw [List.getElem?_append_right (by simp; omega), List.getElem?_drop]
      congr 1
      simp; omega


/-! ### the generated long-name slots survive `deserialize → serialize` -/

theorem lfnChecksumStep_lt (c b : Nat) : lfnChecksumStep c b < 256 := by
  unfold lfnChecksumStep; omega

theorem lfnChecksum_lt (l : List Nat) : lfnChecksum l < 256 := by
  unfold lfnChecksum
  have : ∀ (l : List Nat) (c : Nat), c < 256 → l.foldl lfnChecksumStep c < 256 := by
    intro l
    induction l with
    | nil => intro c h; exact h
    | cons x xs ih => intro c _; exact ih _ (lfnChecksumStep_lt c x)
  exact this l 0 (by omega)

theorem orderByte_lt (k num : Nat) : Lfn.orderByte k num < 256 := by
  unfold Lfn.orderByte Lfn.orLast
  split
  · split <;> omega
  · omega

theorem lfnSlotBytes_length (o c : Nat) (u : List Nat) : (lfnSlotBytes o c u).length = 32 := rfl

theorem lfnSlotBytes_lt (o c : Nat) (u : List Nat) (ho : o < 256) (hc : c < 256) : ∀ b ∈ lfnSlotBytes o c u, b < 256 := by
  intro b hb
  simp only [lfnSlotBytes, Lfn.lo, Lfn.hi, List.mem_cons, List.not_mem_nil, or_false] at hb
  omega

theorem lfnSlotBytes_roundtrip (o c : Nat) (u : List Nat) (ho : o < 256) (hc : c < 256) :
    (deserialize (lfnSlotBytes o c u)).serialize = lfnSlotBytes o c u := by
  rw [serialize_deserialize _ (lfnSlotBytes_length o c u) (lfnSlotBytes_lt o c u ho hc)]
  rfl

theorem genFrom_mem (name : List Nat) (chk num : Nat) : ∀ (k : Nat) (sl : List Nat), sl ∈ Lfn.genFrom name chk num k →
    ∃ j, sl = lfnSlotBytes (Lfn.orderByte (j + 1) num) chk (Lfn.part name j) := by
  intro k
  induction k with
  | zero => intro sl h; simp [Lfn.genFrom] at h
  | succ k ih =>
    intro sl h
    simp only [Lfn.genFrom, List.mem_cons] at h
    rcases h with rfl | h
    · exact ⟨k, rfl⟩
    · exact ih sl h

theorem genFrom_length (name : List Nat) (chk num : Nat) : ∀ k, (Lfn.genFrom name chk num k).length = k := by
  intro k
  induction k with
  | zero => rfl
  | succ k ih => simp only [Lfn.genFrom, List.length_cons, ih]

theorem lfnGenerate_length (units : List Nat) (chk : Nat) : (lfnGenerate units chk).length = Lfn.numParts units.length :=
  genFrom_length _ _ _ _

theorem lfnGenerate_slot (units : List Nat) (chk : Nat) (hc : chk < 256) (sl : List Nat) (h : sl ∈ lfnGenerate units chk) :
    sl.length = 32 ∧ (∀ b ∈ sl, b < 256) ∧ (deserialize sl).serialize = sl := by
  obtain ⟨j, rfl⟩ := genFrom_mem _ _ _ _ sl h
  exact ⟨rfl, lfnSlotBytes_lt _ _ _ (orderByte_lt _ _) hc, lfnSlotBytes_roundtrip _ _ _ (orderByte_lt _ _) hc⟩

theorem sfnName_serialize (raw : DirFileEntryData) (h : raw.name.length = 11) : Lfn.sfnName raw.serialize = raw.name := by
  unfold Lfn.sfnName DirFileEntryData.serialize Lfn.byte
  apply List.ext_getElem
  · simp [h]
  · intro i h1 h2
    simp only [List.getElem_map, List.getElem_range]
    rw [List.getD_eq_getElem?_getD, List.getElem?_append_left (by omega), List.getElem?_eq_getElem h2]
    rfl

section root
variable (s : DiskSlice) (N : Nat) (hN : s.size = 32 * N) (hv : s.viaFs = true) (hm : s.mirrors = 1)

include hN hv hm in
/-- **`writeSlotsKeep` on the fixed root**, forward, when all records fit: every record is serialised onto its slot -/
theorem root_writeSlotsKeep (hB : 0x42 ≤ s.beginOff) : ∀ (es : List DirEntryData) (p : Nat) (d : Dev),
    (∀ e ∈ es, e.serialize.length = 32 ∧ ∀ b ∈ e.serialize, b < 256) → p + es.length ≤ N → d.failAt = none →
    s.beginOff + s.size ≤ d.img.size → d.img.WF →
    ∃ d', run (writeSlotsKeep es (.root (sliceAt s (32 * p)))) d =
        (.ok (none, .root (sliceAt s (32 * (p + es.length)))), d') ∧
      DevStep d d' ∧ (es ≠ [] → d'.fs.curDirty = true) ∧ (d.fs.curDirty = true → d'.fs.curDirty = true) ∧
      rootSlots d'.img s = putK (rootSlots d.img s) p (es.map DirEntryData.serialize) ∧ FrameOut s d d' := by
  intro es
  induction es with
  | nil =>
    intro p d _ _ _ _ _
    exact ⟨d, rfl, DevStep.refl d, fun h => absurd rfl h, id, rfl, FrameOut.refl s d⟩
  | cons e rest ih =>
    intro p d hes hle hfa hdev hwf
    simp only [List.length_cons] at hle
    obtain ⟨hl, hlt⟩ := hes e (List.mem_cons_self ..)
    have hroom : 32 * p + 32 ≤ s.size := by rw [hN]; omega
    obtain ⟨d1, h1, hw1⟩ := root_writeSlot s hv hm (32 * p) e hl d hfa (by omega) hroom hdev
    obtain ⟨hsl, hfr⟩ := rootSlots_put s N hN hw1 hwf hB (by omega) hl hlt
    obtain ⟨d2, h2, hs2, _, hk2, hsl2, hfr2⟩ := ih (p + 1) d1 (fun e' he' => hes e' (List.mem_cons_of_mem _ he'))
      (by omega) (by rw [hw1.step.failAt]; exact hfa) (by rw [hw1.step.size]; exact hdev) (hw1.step.wf hwf)
    have hne : e.serialize ≠ [] := by
      intro h0; rw [h0] at hl; cases hl
    refine ⟨d2, ?_, hw1.step.trans hs2, fun _ => hk2 (hw1.dirty hne), fun hk => hk2 (hw1.keep hk), ?_,
      hfr.trans s hfr2⟩
    · unfold writeSlotsKeep
      have ha : run (Prog.attempt (writeSlot (.root (sliceAt s (32 * p))) e)) d =
          (.ok (.ok (.root (sliceAt s (32 * p + 32)))), d1) := by
        rw [run_attempt, h1]
      rw [run_bind_ok ha]
      simp only
      rw [show 32 * p + 32 = 32 * (p + 1) by omega, h2, List.length_cons, show p + 1 + rest.length = p + (rest.length + 1) by omega]
    · rw [hsl2, hsl]
      simp only [List.map_cons, putK]


theorem run_bind_finallyDrop_noop {α β} {p : Prog α} {c : Option α → Prog Unit} {k : α → Prog β} {d d1 : Dev} {a : α}
    (h : run p d = (.ok a, d1)) (hc : ∀ dd : Dev, run (c (some a)) dd = (.ok (), dd)) :
    run (Prog.finallyDrop p c >>= k) d = run (k a) d1 :=
  run_bind_ok (run_finallyDrop_noop h hc)

/-- what a directory write keeps of the device: fault schedule, size, well-formedness of the image, geometry -/
structure VolStep (d d' : Dev) : Prop where
  failAt : d'.failAt = d.failAt
  size : d'.img.size = d.img.size
  wf : d.img.WF → d'.img.WF
  geom : FsGeomEq d.fs d'.fs

theorem VolStep.of_devStep {d d' : Dev} (h : DevStep d d') : VolStep d d' := ⟨h.failAt, h.size, h.wf, h.geom⟩

theorem VolStep.of_sameVol {d d' : Dev} (h : SameVol d d') : VolStep d d' :=
  ⟨h.failAt, by rw [h.img], fun hw => by rw [h.img]; exact hw, by rw [h.fs]; exact FsGeomEq.refl _⟩

theorem VolStep.trans {a b c : Dev} (h1 : VolStep a b) (h2 : VolStep b c) : VolStep a c :=
  ⟨h2.failAt.trans h1.failAt, h2.size.trans h1.size, fun h => h2.wf (h1.wf h), h1.geom.trans h2.geom⟩

include hN in
theorem srcSlots_eq_rootSlots (img : Img) : srcSlots img (fun o => s.beginOff + o) N = rootSlots img s := by
  unfold srcSlots rootSlots
  rw [hN, Nat.mul_div_cancel_left N (by omega : 0 < 32)]

include hN hv hm in
/-- **`write_entry` on the fixed root**, forward, for an ordinary name whose slots fit into the root region: the entry
    returned, and the root slots of the image afterwards = `DirSlots.writeEntry` of those before (long-name run for the
    UTF-16 units of the name with the checksum of the short name, then the short record) -/
theorem root_writeEntry (hB : 0x42 ≤ s.beginOff) (name : String) (raw : DirFileEntryData)
    (hval : Names.validateLongName name = .ok ()) (hdot : (name = "." || name = "..") = false) (hraw : raw.WF)
    (d : Dev) (hfa : d.failAt = none) (hdev : s.beginOff + s.size ≤ d.img.size) (hwf : d.img.WF)
    (hfuel : N < dirFuel d.fs)
    (hfit : DirSlots.findFree (rootSlots d.img s) (Lfn.numParts (Names.encodeUtf16 name.toList).length + 1) +
      (Lfn.numParts (Names.encodeUtf16 name.toList).length + 1) ≤ N) :
    ∃ d', run (writeEntry (.root (sliceAt s 0)) name raw) d =
        (.ok { data := raw, lfn := Names.encodeUtf16 name.toList,
               entryPos := s.beginOff + 32 * (DirSlots.findFree (rootSlots d.img s)
                  (Lfn.numParts (Names.encodeUtf16 name.toList).length + 1) +
                  (Lfn.numParts (Names.encodeUtf16 name.toList).length + 1)) - 32,
               rangeBegin := 32 * DirSlots.findFree (rootSlots d.img s)
                  (Lfn.numParts (Names.encodeUtf16 name.toList).length + 1),
               rangeEnd := 32 * (DirSlots.findFree (rootSlots d.img s)
                  (Lfn.numParts (Names.encodeUtf16 name.toList).length + 1) +
                  (Lfn.numParts (Names.encodeUtf16 name.toList).length + 1)) }, d') ∧
      VolStep d d' ∧ d'.fs.curDirty = true ∧
      rootSlots d'.img s = DirSlots.writeEntry (rootSlots d.img s) (Names.encodeUtf16 name.toList) raw.serialize ∧
      FrameOut s d d' := by
  generalize hunits : Names.encodeUtf16 name.toList = units at hfit ⊢
  generalize hp : DirSlots.findFree (rootSlots d.img s) (Lfn.numParts units.length + 1) = p at hfit ⊢
  have hchk := lfnChecksum_lt raw.name
  have hslen : (lfnGenerate units (lfnChecksum raw.name)).length = Lfn.numParts units.length := lfnGenerate_length _ _
  have D := root_dirSrc s N hN d hfa hdev
  have hseek : ∀ d1, SameVol d d1 → ∀ o t, o ≤ 32 * N → t ≤ 32 * N →
      Reads (DirStream.seek (.root (sliceAt s o)) (.start t)) d1 (t, .root (sliceAt s t)) :=
    fun d1 _ o t _ ht => ⟨d1, root_seekStart_run s o t (by rw [hN]; exact ht) d1, SameVol.refl d1⟩
  -- 1. find_free_entries
  obtain ⟨d1, h1, hs1⟩ := D.findFreeEntries_sim hseek hfuel (Lfn.numParts units.length + 1) d (SameVol.refl d)
  rw [srcSlots_eq_rootSlots s N hN, hp] at h1
  have hfa1 : d1.failAt = none := by rw [hs1.failAt]; exact hfa
  have hdev1 : s.beginOff + s.size ≤ d1.img.size := by rw [hs1.img]; exact hdev
  have hwf1 : d1.img.WF := by rw [hs1.img]; exact hwf
  -- 2. the records
  have hes : ∀ e ∈ (lfnGenerate units (lfnChecksum raw.name)).map deserialize ++ [DirEntryData.file raw],
      e.serialize.length = 32 ∧ ∀ b ∈ e.serialize, b < 256 := by
    intro e he
    rcases List.mem_append.mp he with he | he
    · obtain ⟨sl, hsl, rfl⟩ := List.mem_map.mp he
      obtain ⟨h32, hlt, hrt⟩ := lfnGenerate_slot units _ hchk sl hsl
      rw [hrt]; exact ⟨h32, hlt⟩
    · simp only [List.mem_singleton] at he
      subst he
      exact ⟨DirFileEntryData.serialize_length raw hraw.name_len, DirFileEntryData.serialize_lt raw hraw⟩
  have heslen : ((lfnGenerate units (lfnChecksum raw.name)).map deserialize ++ [DirEntryData.file raw]).length =
      Lfn.numParts units.length + 1 := by simp [hslen]
  obtain ⟨d2, h2, hs2, hd2, _, hsl2, hfr2⟩ := root_writeSlotsKeep s N hN hv hm hB _ p d1 hes
    (by rw [heslen]; exact hfit) hfa1 hdev1 hwf1
  rw [heslen] at h2
  have hmap : ((lfnGenerate units (lfnChecksum raw.name)).map deserialize ++ [DirEntryData.file raw]).map
      DirEntryData.serialize = DirSlots.entrySlots units raw.serialize := by
    have hm1 : (lfnGenerate units (lfnChecksum raw.name)).map (DirEntryData.serialize ∘ deserialize) =
        lfnGenerate units (lfnChecksum raw.name) := by
      exact (List.map_congr_left (f := DirEntryData.serialize ∘ deserialize) (g := id)
        (fun sl hsl => (lfnGenerate_slot units _ hchk sl hsl).2.2)).trans (List.map_id _)
    unfold DirSlots.entrySlots
    rw [List.map_append, List.map_map, sfnName_serialize raw hraw.name_len, hm1]
    rfl
  have hlenL : (rootSlots d.img s).length = N := by rw [rootSlots_length, hN]; omega
  refine ⟨d2, ?_, (VolStep.of_sameVol hs1).trans (VolStep.of_devStep hs2), hd2 (by simp), ?_, ?_⟩
  · unfold writeEntry
    rw [hval]
    simp only [hunits, hdot, Bool.false_eq_true, if_false]
    rw [run_bind_ok (run_getFs d)]
    simp only [hslen]
    rw [run_bind_ok h1]
    have hsk : run (DirStream.seek (.root (sliceAt s (32 * p))) (.cur 0)) d1 =
        (.ok (32 * p, .root (sliceAt s (32 * p))), d1) := by
      simp only [DirStream.seek, slice_seekCur0 s (32 * p) (by rw [hN]; omega)]
      rfl
    rw [run_bind_finallyDrop_noop hsk (fun _ => rfl)]
    simp only
    rw [run_bind_ok h2]
    simp only [thenDrop]
    refine run_finallyDrop_noop ?_ (fun _ => rfl)
    simp only [DirStream.seek, slice_seekCur0 s (32 * (p + (Lfn.numParts units.length + 1))) (by rw [hN]; omega)]
    rfl
  · rw [hsl2, hs1.img, hmap, putK_eq_writeAt _ _ _ (by
      rw [hlenL]; unfold DirSlots.entrySlots
      rw [List.length_append, lfnGenerate_length, List.length_singleton]; exact hfit)]
    unfold DirSlots.writeEntry
    rw [hp]
  · intro q hq hn
    rw [hfr2 q hq hn, hs1.img]

end root

end FatVerif.DirSim
