import FatVerif.Proofs.SlotTreeImg8
/-!
# Slot trees on a device image, part 9: `remove` of a file in the root on a path of any depth; calls and histories
with `remove`
-/
namespace FatVerif
namespace SlotTreeImg
open Lfn DirSlots DirAlias SlotTree DirSim FatVerif.FileSim FatVerif.Fat

/-- directories below a changed root are kept if the lookups of directory children are -/
theorem dirs_kept_of_lookup {up : Char → List Char} {slots slots' : List (List Nat)}
    {ch ch' : List (LfnEntry × Node)}
    (hlook : ∀ q y, lookupS up slots ch q = some y → y.2.isDir = true → lookupS up slots' ch' q = some y)
    (p : List String) (h : ∃ s c, getAtS up (.dir slots ch) p = some (.dir s c)) :
    ∃ s c, getAtS up (.dir slots' ch') p = some (.dir s c) := by
  obtain ⟨s, c, hg⟩ := h
  cases p with
  | nil => exact ⟨_, _, rfl⟩
  | cons q r =>
    simp only [getAtS] at hg ⊢
    cases hl : lookupS up slots ch q with
    | none => rw [hl] at hg; cases hg
    | some y =>
      rw [hl] at hg
      simp only at hg
      have hd : y.2.isDir = true := by
        cases hy : y.2 with
        | dir _ _ => rfl
        | file b =>
          rw [hy] at hg
          obtain ⟨_, h2⟩ := getAtS_file b r _ hg
          cases h2
      rw [hlook q y hl hd]
      exact ⟨s, c, hg⟩

theorem rmFinal_tree_cases {up : Char → List Char} {slots : List (List Nat)} {ch : List (LfnEntry × Node)}
    (name : String) :
    (rmFinal up (.dir slots ch) [] name).tree = .dir slots ch ∨
    ∃ x, lookupS up slots ch name = some x ∧
      (rmFinal up (.dir slots ch) [] name).tree =
        .dir (DirSlots.deleteRange slots x.1.beginIdx x.1.endIdx) (ch.filter fun y => !(y.1 == x.1)) := by
  unfold rmFinal
  simp only [getAtS]
  cases isDotName name with
  | true => left; rfl
  | false =>
    simp only [Bool.false_eq_true, if_false]
    cases hx : lookupS up slots ch name with
    | none => left; rfl
    | some x =>
      simp only
      split
      · left; rfl
      · right; exact ⟨x, rfl, rfl⟩

theorem rmFinal_keeps_dirs {up : Char → List Char} {slots : List (List Nat)} {ch : List (LfnEntry × Node)}
    (hwf : TreeWf up (.dir slots ch)) (name : String)
    (hfile : ∀ x, lookupS up slots ch name = some x → x.2.isDir = false) (p : List String)
    (h : ∃ s c, getAtS up (.dir slots ch) p = some (.dir s c)) :
    ∃ s c, getAtS up (rmFinal up (.dir slots ch) [] name).tree p = some (.dir s c) := by
  rcases rmFinal_tree_cases (up := up) (slots := slots) (ch := ch) name with h0 | ⟨x, hx, h1⟩
  · rw [h0]; exact h
  · rw [h1]
    have hd : DirOk up slots ch := ((all_dir _ slots ch).1 hwf).1
    obtain ⟨_, hxm, hxl, _⟩ := lookupS_some hd hx
    have hd' := delEntry_dirOk hd x.1 hxl
    refine dirs_kept_of_lookup ?_ p h
    intro q y hy hdy
    obtain ⟨_, hym, hyl, hyq⟩ := lookupS_some hd hy
    have hne : y.1 ≠ x.1 := by
      intro heq
      have h1 := hd.find_key hym
      have h2 := hd.find_key hxm
      rw [heq, h2] at h1
      have : x = y := by simpa using h1
      rw [← this, hfile x hx] at hdy
      cases hdy
    have hyf : y ∈ ch.filter (fun z => !(z.1 == x.1)) := List.mem_filter.2 ⟨hym, by simpa using hne⟩
    unfold lookupS
    rw [DirSlots.findEntry_unique up _ hd'.wf _ _ (hd'.mem_listing hyf) hyq]
    exact hd'.find_key hyf

theorem rmFinal_no_hang (up : Char → List Char) (t : Node) (p : List String) (l : String) :
    (rmFinal up t p l).out ≠ .error .hang := by
  unfold rmFinal
  repeat' split
  all_goals simp [fail, done]

section top
variable {d : Dev} {up : Char → List Char} {t : Node} {cl : List String → Option Nat}

/-- **`remove` of a file at byte level, parent = the fixed root** (any path whose directory components lead back to
    the root).  `hres` (`RemoveRes`): volume facts of the release step, the named entry is a file, its cluster chain
    (empty for a file without clusters) is apart from every directory chain. -/
theorem remove_file_root_img (W : ImgTreeW d up t cl) (hwf : TreeWf up t) (hup : DotSafe up) (env : Env)
    (henv : env.upper = up) (cwd : List String) (st : DirStream) (hden : Den d up t cl cwd st) (path : String)
    (fuel : Nat) (hfuel : path.toList.length < fuel)
    (hlast : ∀ p, walkDirsS up t cwd (pathParts path).1 = .ok p → p = [])
    (hres : ∀ slots ch, t = .dir slots ch → RemoveRes d up t cl slots ch (pathParts path).2) :
    (∀ e, (removeS up t cwd path).out = .error e → FailsV (FatVerif.remove env fuel st path) d e) ∧
    (∀ rows, (removeS up t cwd path).out = .ok rows →
      ∃ d' : Dev, run (FatVerif.remove env fuel st path) d = (.ok (), d') ∧ VolStep d d' ∧
        ImgTreeW d' up (removeS up t cwd path).tree cl) := by
  obtain ⟨slots, ch, rfl⟩ := root_of_den hden
  have I := W.toImgTree
  let L := (pathParts path).2
  let T' := (rmFinal up (.dir slots ch) [] L).tree
  have hR := hres slots ch rfl
  have hpp : pathParts path = splitAll path.toList.length path.toList := rfl
  have M := mut_walk I hwf hup env henv (FatVerif.remove env) (remove_unfold_step env)
    (fun (_ : Unit) d' => VolStep d d' ∧ ImgTreeW d' up T' cl)
    (fun _ d1 d2 hp hs => ⟨hp.1.trans (VolStep.of_sameVol hs), hp.2.of_sameVol hs⟩)
    (fun _ d' p sub hp hdn => by
      have hden' : Den d' up T' cl p sub :=
        ⟨rmFinal_keeps_dirs hwf L (fun x hx => (hR.2.2 x hx).1) p hdn.1, streamFor_geom hp.1.geom hdn.2⟩
      obtain ⟨V'⟩ := den_view hp.2.toImgTree hden'
      exact V'.drop_sim d' (SameVol.refl d'))
    (fun p => p = []) (fun p l => outErr (rmFinal up (.dir slots ch) p l)) L
    (fun cur st' hgood hden' f chars a hsp hL d4 hv4 hc4 => by
      subst hgood
      have hst := den_root_stream W hden'
      subst hst
      have h0 := removeFile_root_final W hwf env henv f chars a hsp (by rw [hL]; exact hR) d4 hv4 hc4
      rw [hL] at h0
      show MOut _ _ d4 (outErr (rmFinal up (.dir slots ch) [] (String.ofList a)))
      rw [hL]
      exact h0)
    path.toList.length path.toList (Nat.le_refl _) fuel hfuel cwd st hden (by rw [← hpp]; exact hlast)
  rw [String.ofList_toList, ← hpp] at M
  have hS := removeS_eq up (.dir slots ch) cwd path
  have hverd : mverdict up (.dir slots ch) (fun p l => outErr (rmFinal up (.dir slots ch) p l)) cwd (pathParts path) =
      outErr (removeS up (.dir slots ch) cwd path) := by
    rw [hS]
    unfold mverdict
    cases walkDirsS up (.dir slots ch) cwd (pathParts path).1 <;> rfl
  have hnh : ∀ e, outErr (removeS up (.dir slots ch) cwd path) = some e → e ≠ .hang := by
    intro e he
    rw [hS] at he
    cases hw : walkDirsS up (.dir slots ch) cwd (pathParts path).1 with
    | error e' =>
      rw [hw] at he
      simp only [outErr, fail, Option.some.injEq] at he
      rw [← he]; exact err_ne_hang_of_walk hw
    | ok p =>
      rw [hw] at he
      simp only at he
      intro hh
      subst hh
      have := rmFinal_no_hang up (.dir slots ch) p (pathParts path).2
      unfold outErr at he
      cases ho : (rmFinal up (.dir slots ch) p (pathParts path).2).out with
      | ok r => rw [ho] at he; cases he
      | error e' =>
        rw [ho] at he
        simp only [Option.some.injEq] at he
        rw [he] at ho
        exact this ho
  have M' := M (by rw [hverd]; exact hnh) rfl d (SameVol.refl d) rfl
  rw [hverd] at M'
  constructor
  · intro e he
    unfold outErr at M'
    rw [he] at M'
    exact M'
  · intro rows hr
    unfold outErr at M'
    rw [hr] at M'
    obtain ⟨_, d', hrun, hvs, hW⟩ := M'
    refine ⟨d', hrun, hvs, ?_⟩
    have htree : (removeS up (.dir slots ch) cwd path).tree = T' := by
      rw [hS]
      cases hw : walkDirsS up (.dir slots ch) cwd (pathParts path).1 with
      | error e =>
        rw [hS, hw] at hr
        cases hr
      | ok p =>
        have := hlast p hw
        subst this
        rfl
    rw [htree]
    exact hW

end top

end SlotTreeImg
end FatVerif
