import FatVerif.Props.C14hist
/-!
# FileSim / multi: any number of open handles on distinct files of one volume

`MultiInv F d`: every handle of the table `F : Nat → Option FileH` satisfies `FullInv` on the shared device; the chains are
pairwise disjoint; no slot is a position ANY handle may write (`MayTouchData`), and the slots are pairwise disjoint.
`multi_step_op` / `multi_step_flush`: an operation on handle `i` re-establishes `MultiInv` and leaves the byte-array
abstraction of every other handle unchanged.
-/
namespace FatVerif.FileSim
open FatVerif FatVerif.Fat

/-- the handle table with entry `i` replaced -/
def updF (F : Nat → Option FileH) (i : Nat) (h : FileH) : Nat → Option FileH := fun j => if j = i then some h else F j

/-- the slot of a handle -/
def slotPos (h : FileH) : Option Nat := h.entry.map (·.pos)

structure MultiInv (F : Nat → Option FileH) (d : Dev) : Prop where
  full : ∀ i h, F i = some h → ∃ e, FullInv h e d
  chains : ∀ i j hi hj, i ≠ j → F i = some hi → F j = some hj →
    ∀ c ∈ fileChain d.fs d.img hi, c ∉ fileChain d.fs d.img hj
  slots : ∀ i j hi hj pi, F i = some hi → F j = some hj → slotPos hi = some pi →
    (∀ q, pi ≤ q → q < pi + 32 → ¬ MayTouchData d.fs d.img hj q) ∧
    (i ≠ j → ∀ pj, slotPos hj = some pj → pi + 32 ≤ pj ∨ pj + 32 ≤ pi)

theorem slotPos_of_entry {h : FileH} {e : DirEntryEditor} (he : h.entry = some e) : slotPos h = some e.pos := by
  unfold slotPos; rw [he]; rfl

/-- what another handle may write after a step on `f`: what it might before, or what `f` might -/
theorem mayTouchData_other {f f' g : FileH} {d d' : Dev} (hsum : OpSummary f d f' d')
    (hchg : fileChain d'.fs d'.img g = fileChain d.fs d.img g) {q : Nat} (h : MayTouchData d'.fs d'.img g q) :
    MayTouchData d.fs d.img g q ∨ MayTouchData d.fs d.img f q := by
  have hgeo := hsum.step.geom
  have hic : ∀ c, InCluster d'.fs c q ↔ InCluster d.fs c q := by
    intro c; unfold InCluster; rw [hgeo.clusterOff, hgeo.clusterSize]
  have hfe : ∀ c, FatEntryPos d'.fs c q ↔ FatEntryPos d.fs c q := by
    intro c; unfold FatEntryPos; rw [hgeo.fatSlice, hgeo.fatType]
  have hso : statusOff d'.fs = statusOff d.fs := by unfold statusOff; rw [hgeo.fatType]
  have hfree : ∀ c, FreeCluster d'.fs d'.img c → FreeCluster d.fs d.img c ∨ c ∈ fileChain d.fs d.img f := by
    rintro c ⟨h2, ht, hfr⟩
    by_cases hcf : c ∈ fileChain d.fs d.img f
    · exact Or.inr hcf
    · by_cases hf0 : tabView d.fs d.img c = .free
      · rw [hgeo.totalClusters] at ht; exact Or.inl ⟨h2, ht, hf0⟩
      · rw [hsum.view c hcf hf0] at hfr; exact absurd hfr hf0
  rcases h with hs | ⟨c, hc, h'⟩ | ⟨c, hc, h'⟩ | ⟨c, hc, hp⟩
  · exact Or.inl (Or.inl (hso ▸ hs))
  · rw [hchg] at hc; exact Or.inl (Or.inr (Or.inl ⟨c, hc, (hic c).mp h'⟩))
  · rcases hfree c hc with h1 | h1
    · exact Or.inl (Or.inr (Or.inr (Or.inl ⟨c, h1, (hic c).mp h'⟩)))
    · exact Or.inr (Or.inr (Or.inl ⟨c, h1, (hic c).mp h'⟩))
  · rcases hc with hc | hc
    · rw [hchg] at hc; exact Or.inl (Or.inr (Or.inr (Or.inr ⟨c, Or.inl hc, (hfe c).mp hp⟩)))
    · rcases hfree c hc with h1 | h1
      · exact Or.inl (Or.inr (Or.inr (Or.inr ⟨c, Or.inr h1, (hfe c).mp hp⟩)))
      · exact Or.inr (Or.inr (Or.inr (Or.inr ⟨c, Or.inl h1, (hfe c).mp hp⟩)))

/-- an operation of `HOp` on handle `i` -/
theorem multi_step_op (F : Nat → Option FileH) (d : Dev) (hM : MultiInv F d) (i : Nat) (h : FileH) (hi : F i = some h)
    (o : HOp) (hok : o.BytesOk) :
    MultiInv (updF F i (execH o h d).2.1) (execH o h d).2.2 ∧
    (∀ j hj, j ≠ i → F j = some hj →
      (absFile (execH o h d).2.2.fs (execH o h d).2.2.img hj).abs = (absFile d.fs d.img hj).abs) := by
  obtain ⟨e, hfull⟩ := hM.full i h hi
  obtain ⟨hsim', _, _⟩ := execH_refines o h d hfull.sim hok
  obtain ⟨e', he', hap', hrel⟩ := execH_entry o h d hfull.sim hok e hfull.ent hfull.apart
  have hsum := execH_summary o h d hfull.sim hok
  generalize (execH o h d).2.1 = f' at *
  generalize (execH o h d).2.2 = d' at *
  have hpos' : slotPos f' = slotPos h := by
    rw [slotPos_of_entry he'.entry, slotPos_of_entry hfull.ent.entry, hrel.pos]
  -- the other handles
  have hother : ∀ j hj, j ≠ i → F j = some hj →
      (∃ ej, FullInv hj ej d') ∧ CoreEq (absFile d'.fs d'.img hj) (absFile d.fs d.img hj) ∧
      fileChain d'.fs d'.img hj = fileChain d.fs d.img hj ∧
      (∀ c ∈ fileChain d'.fs d'.img f', c ∉ fileChain d'.fs d'.img hj) := by
    intro j hj hji hFj
    obtain ⟨ej, hfj⟩ := hM.full j hj hFj
    obtain ⟨hrepj, hcorej, hchj, hapj⟩ := other_file_kept hsum hfull.sim.geo hfull.sim.rep hfj.sim.rep
      (hM.chains i j h hj (fun e => hji e.symm) hi hFj)
    have hpj := slotPos_of_entry hfj.ent.entry
    have hentj := other_entry_kept hsum hfj.ent hchj (hM.slots j i hj h ej.pos hFj hi hpj).1
    refine ⟨⟨ej, ⟨hsim'.nofault, hsim'.wf, hsim'.geo, hrepj, hsim'.info⟩, hentj, ?_⟩, hcorej, hchj, hapj⟩
    intro q h1 h2 hm
    rcases mayTouchData_other hsum hchj hm with h' | h'
    · exact (hM.slots j j hj hj ej.pos hFj hFj hpj).1 q h1 h2 h'
    · exact (hM.slots j i hj h ej.pos hFj hi hpj).1 q h1 h2 h'
  -- every handle of the new table comes from one of the old table with the same slot
  have hold : ∀ a ha, updF F i f' a = some ha → ∃ ha0, F a = some ha0 ∧ slotPos ha = slotPos ha0 ∧
      (a = i → ha = f') ∧ (a ≠ i → ha = ha0) := by
    intro a ha hna
    unfold updF at hna
    by_cases hai : a = i
    · rw [if_pos hai] at hna
      have : ha = f' := (Option.some.inj hna).symm
      subst hai
      exact ⟨h, hi, by rw [this, hpos'], fun _ => this, fun hn => absurd rfl hn⟩
    · rw [if_neg hai] at hna
      exact ⟨ha, hna, rfl, fun e => absurd e hai, fun _ => rfl⟩
  -- what a handle of the new table may write
  have hmt : ∀ b hb hb0, updF F i f' b = some hb → F b = some hb0 → (b = i → hb = f') → (b ≠ i → hb = hb0) →
      ∀ q, MayTouchData d'.fs d'.img hb q → MayTouchData d.fs d.img hb0 q ∨ MayTouchData d.fs d.img h q := by
    intro b hb hb0 _ hFb hbi hbn q hm
    by_cases hbe : b = i
    · rw [hbi hbe] at hm
      exact Or.inr (mayTouchData_mono hsum hfull.sim.rep hsim'.rep hm)
    · rw [hbn hbe] at hm
      obtain ⟨_, _, hch, _⟩ := hother b hb0 hbe hFb
      exact mayTouchData_other hsum hch hm
  refine ⟨⟨?_, ?_, ?_⟩, fun j hj hji hFj => ?_⟩
  · intro a ha hna
    obtain ⟨ha0, hFa, _, hai, han⟩ := hold a ha hna
    by_cases hae : a = i
    · rw [hai hae]; exact ⟨e', hsim', he', hap'⟩
    · rw [han hae]; exact (hother a ha0 hae hFa).1
  · intro a b ha hb hab hna hnb
    obtain ⟨ha0, hFa, _, hai, han⟩ := hold a ha hna
    obtain ⟨hb0, hFb, _, hbi, hbn⟩ := hold b hb hnb
    by_cases hae : a = i
    · have hbe : b ≠ i := fun e => hab (hae.trans e.symm)
      rw [hai hae, hbn hbe]
      exact (hother b hb0 hbe hFb).2.2.2
    · by_cases hbe : b = i
      · rw [han hae, hbi hbe]
        intro c hc hc'
        exact (hother a ha0 hae hFa).2.2.2 c hc' hc
      · rw [han hae, hbn hbe, (hother a ha0 hae hFa).2.2.1, (hother b hb0 hbe hFb).2.2.1]
        exact hM.chains a b ha0 hb0 hab hFa hFb
  · intro a b ha hb pa hna hnb hpa
    obtain ⟨ha0, hFa, hsa, _, _⟩ := hold a ha hna
    obtain ⟨hb0, hFb, hsb, hbi, hbn⟩ := hold b hb hnb
    rw [hsa] at hpa
    refine ⟨fun q h1 h2 hm => ?_, fun hab pb hpb => ?_⟩
    · rcases hmt b hb hb0 hnb hFb hbi hbn q hm with h' | h'
      · exact (hM.slots a b ha0 hb0 pa hFa hFb hpa).1 q h1 h2 h'
      · exact (hM.slots a i ha0 h pa hFa hi hpa).1 q h1 h2 h'
    · rw [hsb] at hpb
      exact (hM.slots a b ha0 hb0 pa hFa hFb hpa).2 hab pb hpb
  · obtain ⟨⟨ej, hfj⟩, hcorej, _, _⟩ := hother j hj hji hFj
    obtain ⟨ej0, hfj0⟩ := hM.full j hj hFj
    exact hcorej.abs_eq hfj0.sim.rep.inv.cs_pos hfj0.sim.rep.inv.cover

/-- `MayTouchData` only looks at the geometry, the decoded FAT and the chain -/
theorem mayTouchData_congr {fs : FsState} {img img' : Img} {f f' : FileH} (htv : tabView fs img' = tabView fs img)
    (hch : fileChain fs img' f' = fileChain fs img f) (q : Nat) :
    MayTouchData fs img' f' q ↔ MayTouchData fs img f q := by
  unfold MayTouchData FreeCluster
  rw [hch, htv]

/-- `flush` on handle `i` -/
theorem multi_step_flush (F : Nat → Option FileH) (d : Dev) (hM : MultiInv F d) (i : Nat) (h : FileH)
    (hi : F i = some h) :
    ∃ f1 d', run h.flush d = (.ok f1, d') ∧ MultiInv (updF F i f1) d' ∧ d'.fs = d.fs ∧
      (absFile d'.fs d'.img f1).abs = (absFile d.fs d.img h).abs ∧
      (∀ j hj, j ≠ i → F j = some hj → (absFile d'.fs d'.img hj).abs = (absFile d.fs d.img hj).abs) := by
  obtain ⟨e, hfull⟩ := hM.full i h hi
  obtain ⟨d', hr, hst, hfs, hout, _, _, _, hsim, hent, hcore⟩ := flush_sim h e d hfull.sim hfull.ent
  obtain ⟨w, hr', hfull1, _, habs⟩ := flush_full h e d hfull
  have hw : w = d' := by rw [hr] at hr'; exact (congrArg Prod.snd hr').symm
  rw [hw] at hfull1 habs
  generalize hf1 : ({ h with entry := some { e with dirty := false } } : FileH) = f1 at *
  have hpos1 : slotPos f1 = slotPos h := by
    rw [slotPos_of_entry hent.entry, slotPos_of_entry hfull.ent.entry]
  have hfat : FatAgree d.fs d.img d'.img := by
    intro q h1 h2
    exact hout q (by rcases hfull.ent.offFat with h | h <;> omega)
  have htv : tabView d.fs d'.img = tabView d.fs d.img := tabView_congr hfull.sim.geo hfat
  have hpi := slotPos_of_entry hfull.ent.entry
  have hch1 : fileChain d.fs d'.img f1 = fileChain d.fs d.img h := by
    have := hcore.chain; rw [hfs] at this; exact this
  have hother : ∀ j hj, j ≠ i → F j = some hj →
      (∃ ej, FullInv hj ej d') ∧ CoreEq (absFile d'.fs d'.img hj) (absFile d.fs d.img hj) ∧
      fileChain d.fs d'.img hj = fileChain d.fs d.img hj := by
    intro j hj hji hFj
    obtain ⟨ej, hfj⟩ := hM.full j hj hFj
    have hpj := slotPos_of_entry hfj.ent.entry
    have hdata : ∀ c ∈ fileChain d.fs d.img hj, ∀ k, k < d.fs.clusterSize →
        d'.img.getByte (clusterOff d.fs c + k) = d.img.getByte (clusterOff d.fs c + k) := by
      intro c hc k hk
      apply hout
      intro hin
      exact (hM.slots i j h hj e.pos hi hFj hpi).1 _ hin.1 hin.2
        (Or.inr (Or.inl ⟨c, hc, Nat.le_add_right _ _, by omega⟩))
    obtain ⟨hrepj, hcorej, hchj⟩ := hfj.sim.rep.of_sem_agree (fs' := d'.fs) (img' := d'.img) hst.geom
      (fun c _ => by rw [hfs, htv]) hdata
    have hchj' : fileChain d.fs d'.img hj = fileChain d.fs d.img hj := by rw [hfs] at hchj; exact hchj
    have hdisj := (hM.slots i j h hj e.pos hi hFj hpi).2 (fun e => hji e.symm) ej.pos hpj
    refine ⟨⟨ej, ⟨hsim.nofault, hsim.wf, hsim.geo, hrepj, hsim.info⟩, ?_, ?_⟩, hcorej, hchj'⟩
    · rw [hfs]
      refine ⟨hfj.ent.entry, hfj.ent.wf, hfj.ent.notLfn, by rw [hst.size]; exact hfj.ent.inDev, hfj.ent.offFat,
        fun c hc => hfj.ent.offData c (hchj' ▸ hc), hfj.ent.first, fun hcl => ?_⟩
      rw [← hfj.ent.sync hcl]
      unfold Img.read
      apply List.map_congr_left
      intro k hk
      have := List.mem_range.mp hk
      apply hout
      omega
    · intro q h1 h2 hm
      rw [hfs, mayTouchData_congr htv hchj'] at hm
      exact hfj.apart q h1 h2 hm
  have hold : ∀ a ha, updF F i f1 a = some ha → ∃ ha0, F a = some ha0 ∧ slotPos ha = slotPos ha0 ∧
      fileChain d.fs d'.img ha = fileChain d.fs d.img ha0 ∧ (a = i → ha = f1) ∧ (a ≠ i → ha = ha0) := by
    intro a ha hna
    unfold updF at hna
    by_cases hai : a = i
    · rw [if_pos hai] at hna
      have : ha = f1 := (Option.some.inj hna).symm
      subst hai
      exact ⟨h, hi, by rw [this, hpos1], by rw [this]; exact hch1, fun _ => this, fun hn => absurd rfl hn⟩
    · rw [if_neg hai] at hna
      exact ⟨ha, hna, rfl, (hother a ha hai hna).2.2, fun e => absurd e hai, fun _ => rfl⟩
  refine ⟨f1, d', hr, ⟨?_, ?_, ?_⟩, hfs, habs, fun j hj hji hFj => ?_⟩
  · intro a ha hna
    obtain ⟨ha0, hFa, _, _, hai, han⟩ := hold a ha hna
    by_cases hae : a = i
    · rw [hai hae]; exact ⟨_, hfull1⟩
    · rw [han hae]; exact (hother a ha0 hae hFa).1
  · intro a b ha hb hab hna hnb
    obtain ⟨ha0, hFa, _, hca, _, _⟩ := hold a ha hna
    obtain ⟨hb0, hFb, _, hcb, _, _⟩ := hold b hb hnb
    rw [hfs, hca, hcb]
    exact hM.chains a b ha0 hb0 hab hFa hFb
  · intro a b ha hb pa hna hnb hpa
    obtain ⟨ha0, hFa, hsa, _, _, _⟩ := hold a ha hna
    obtain ⟨hb0, hFb, hsb, hcb, _, _⟩ := hold b hb hnb
    rw [hsa] at hpa
    refine ⟨fun q h1 h2 hm => ?_, fun hab pb hpb => ?_⟩
    · rw [hfs, mayTouchData_congr htv hcb] at hm
      exact (hM.slots a b ha0 hb0 pa hFa hFb hpa).1 q h1 h2 hm
    · rw [hsb] at hpb
      exact (hM.slots a b ha0 hb0 pa hFa hFb hpa).2 hab pb hpb
  · obtain ⟨_, hcorej, _⟩ := hother j hj hji hFj
    obtain ⟨ej0, hfj0⟩ := hM.full j hj hFj
    exact hcorej.abs_eq hfj0.sim.rep.inv.cs_pos hfj0.sim.rep.inv.cover

end FatVerif.FileSim
