import FatVerif.Proofs.DirWriteSim34
/-! Directory WRITES, part 35: `rename_internal` between two directories, the common part for files and directories
    (up to the `..` fix), and the move of a DIRECTORY between two directories that lie apart. -/
namespace FatVerif.DirSim
open FatVerif.FileSim FatVerif.Fat DirEntryData DirAlias

/-- the slots after 32 bytes were put onto slot `i` -/
theorem srcSlots_putBytes {N : Nat} {src : Nat → Nat} (hg : SlotGeo N src) {im im' : Img} {i : Nat} {bs : List Nat}
    (hb : ∀ q, im'.getByte q = putBytes im.getByte (src (32 * i)) bs q) (hi : i < N) (hlen : bs.length = 32)
    (hlt : ∀ b ∈ bs, b < 256) : srcSlots im' src N = (srcSlots im src N).set i bs := by
  apply List.ext_getElem?
  intro j
  simp only [srcSlots, List.getElem?_set, List.getElem?_map, List.length_map, List.length_range]
  by_cases hj : j < N
  · rw [List.getElem?_range hj]
    simp only [Option.map]
    by_cases hij : i = j
    · subst hij
      simp only [if_true, hi]
      congr 1
      apply List.ext_getElem
      · simp [hlen]
      · intro x h1 h2
        simp only [Img.read, List.getElem_map, List.getElem_range]
        rw [hb]
        unfold putBytes
        rw [if_pos (by omega), Nat.add_sub_cancel_left, List.getD_eq_getElem?_getD, List.getElem?_eq_getElem h2]
        simp only [Option.getD]
        exact Nat.mod_eq_of_lt (hlt _ (List.getElem_mem h2))
    · simp only [hij, if_false]
      congr 1
      apply List.ext_getElem
      · simp
      · intro x h1 h2
        simp only [Img.read, List.getElem_map, List.getElem_range]
        have hx : x < 32 := by simpa using h1
        have hdj := hg.disjoint i j hi hj hij
        rw [hb]
        unfold putBytes
        rw [if_neg (by omega)]
  · rw [List.getElem?_eq_none (by simp; omega)]
    split
    · omega
    · simp

namespace WView
variable {d : Dev} {st1 st2 : DirStream}

/-- **`rename_internal` between two directories up to the `..` fix**: the entry `le` of the source is a file, or a
    directory for which the climb from the destination succeeds. `dm`: after the new entry is written; `d4`: after the old
    slots are deleted; what remains to run is `fixDotDot` on the new entry -/
theorem rename_across_core (V1 : WView d st1) (V2 : WView d st2) (env : Env) (srcName dstName : String)
    (hdots : (srcName = "." || srcName = ".." || dstName = "." || dstName = "..") = false)
    (hval : Names.validateLongName dstName = .ok ()) (ha : d.fs.lfnAlloc = true) (hgeo : Geo d.fs d.img.size)
    (le : LfnEntry)
    (hl : lookupL env.upper srcName.toList none (readDirEntries d.fs.lfnAlloc true (V1.slots d.img)) = .ok le)
    (hkind : Lfn.isDir le.sfn = false ∨
      ∃ n, Climbs d env ((toDirEntryS V1.src le).firstCluster d.fs) st2 0 n ∧ n < d.fs.totalClusters + 3)
    (a : List Nat)
    (hchk : DirAlias.checkForExistenceL env.upper (V2.slots d.img) dstName none 70000 = .ok (.alias a))
    (hfit : DirSlots.findFree (V2.slots d.img) (Lfn.numParts (Names.encodeUtf16 dstName.toList).length + 1) +
      (Lfn.numParts (Names.encodeUtf16 dstName.toList).length + 1) ≤ V2.N)
    (hkeep1 : ∀ d2 d3, V1.Inv d2 → VolStep d2 d3 → d3.clock = d2.clock →
      tabView d3.fs d3.img = tabView d2.fs d2.img → V1.Inv d3)
    (hbehind2 : ∀ j, j < V2.N → (fatSliceOf d.fs).beginOff + (fatSliceOf d.fs).size ≤ V2.src (32 * j))
    (hextra2 : ∀ q, V2.Extra q → (fatSliceOf d.fs).beginOff + (fatSliceOf d.fs).size ≤ q) :
    ∃ (dm d4 : Dev) (newE : DirEntry),
      run (renameInternal env st1 srcName st2 dstName) d = run (fixDotDot env d.fs st2 newE) d4 ∧
      newE.data = (toDirEntryS V1.src le).data.renamed a ∧
      VolStep d dm ∧ VolStep dm d4 ∧ dm.clock = d.clock ∧ d4.clock = d.clock ∧ d4.fs.curDirty = true ∧
      V2.Inv dm ∧ V1.Inv d4 ∧
      V2.slots dm.img = DirSlots.writeEntry (V2.slots d.img) (Names.encodeUtf16 dstName.toList)
        ((toDirEntryS V1.src le).data.renamed a).serialize ∧
      FrameOutE V2.N V2.src V2.Extra d dm ∧ MidImg V2.N V2.src V2.DropPost d dm ∧
      tabView dm.fs dm.img = tabView d.fs d.img ∧
      V1.slots d4.img = DirSlots.deleteRange (V1.slots dm.img) le.beginIdx le.endIdx ∧
      FrameOutE V1.N V1.src V1.Extra dm d4 ∧ MidImg V1.N V1.src V1.DropPost dm d4 := by
  obtain ⟨hmem, _, _⟩ := lookupL_ok _ _ _ _ _ hl
  have hslotok := srcEntries_slotOK _ _ _ _ _ le hmem
  have hbnd := readLoop_bounds d.fs.lfnAlloc true (V1.slots d.img) 0 0 _ (Nat.le_refl _) le hmem
  unfold WView.slots at hbnd
  rw [srcSlots_length, Nat.zero_add] at hbnd
  obtain ⟨k, hk⟩ : ∃ k, le.endIdx = le.beginIdx + k := ⟨le.endIdx - le.beginIdx, by omega⟩
  have hsfn : le.sfn.length = 32 ∧ ∀ b ∈ le.sfn, b < 256 := by
    have hm := readLoop_sfn_mem d.fs.lfnAlloc true _ _ _ _ le hmem
    simp only [WView.slots, srcSlots, List.mem_map] at hm
    obtain ⟨j, _, hj⟩ := hm
    rw [← hj]
    exact ⟨Img.read_length _ _ _, Img.read_lt _ _ _⟩
  -- 1. find_entry in the source
  have hfe := V1.toDirView.findEntry_sim env srcName none d (SameVol.refl d)
  have hlook : V1.toDirView.lookup env srcName none = .ok (toDirEntryS V1.src le) := by
    unfold DirView.lookup DirView.lfnEntries
    show (lookupL env.upper srcName.toList none (readDirEntries d.fs.lfnAlloc true (srcSlots d.img V1.src V1.N))).map _ = _
    have : srcSlots d.img V1.src V1.N = V1.slots d.img := rfl
    rw [this, hl]; rfl
  rw [hlook] at hfe
  obtain ⟨d1, h1, hs1⟩ := hfe
  have hisdir : (toDirEntryS V1.src le).isDir = Lfn.isDir le.sfn := toDirEntryS_isDir V1.src le hslotok
  -- 2. the ancestor walk (directories only)
  obtain ⟨d1', hs1', hcl1', hwalk⟩ : ∃ d1', SameVol d1 d1' ∧ d1'.clock = d1.clock ∧ ∀ k : Prog Unit,
      run (if (toDirEntryS V1.src le).isDir = true then
        (ancestorWalkTop env ((toDirEntryS V1.src le).firstCluster d.fs) st2 >>= fun _ => k) else k) d1 = run k d1' := by
    cases hd : (toDirEntryS V1.src le).isDir with
    | false => exact ⟨d1, SameVol.refl d1, rfl, fun k => by simp⟩
    | true =>
      rcases hkind with hf | ⟨n, hclimb, hn⟩
      · rw [hisdir, hf] at hd; cases hd
      · obtain ⟨d1', h1', hs1'⟩ := ancestorWalkTop_sim hclimb hn d1 hs1
        exact ⟨d1', hs1', run_clock _ _ _ _ h1', fun k => by simp only [if_true]; exact run_bind_ok h1'⟩
  have hv01 := hs1.trans hs1'
  have hc1 : d1'.clock = d.clock := hcl1'.trans (run_clock _ _ _ _ h1)
  -- 3. check_for_existence in the destination
  have hce := (V2.ops.dsrc d V2.here).checkForExistence_sim (V2.ops.fuel d V2.here) ha env dstName none d1' hv01
  have hsl0 : srcSlots d.img V2.src V2.N = V2.slots d.img := rfl
  rw [hsl0, hchk] at hce
  obtain ⟨d2, h2, hs2⟩ := hce
  have hc2 : d2.clock = d.clock := (run_clock _ _ _ _ h2).trans hc1
  have hv02 := hv01.trans hs2
  have hinv2 : V2.Inv d2 := V2.io.vol d d2 V2.here hv02 hc2
  have hinv1 : V1.Inv d2 := V1.io.vol d d2 V1.here hv02 hc2
  -- 4. write_entry of the renamed record in the destination
  obtain ⟨hcan, hl11, _⟩ := C16dir.dir_alias_canon env.upper (V2.slots d.img) dstName none 70000 a hchk
  have hdwf : (toDirEntryS V1.src le).data.WF := deserializeFile_wf le.sfn hsfn.1 hsfn.2
  have hrawwf : ((toDirEntryS V1.src le).data.renamed a).WF := hdwf.renamed a hl11 (canon_lt hcan)
  have hattr : ((toDirEntryS V1.src le).data.renamed a).attrs = attrsTruncate (DirEntryData.u8At le.sfn 11) := rfl
  have hlfn : attrsIsLfn ((toDirEntryS V1.src le).data.renamed a).attrs = false := by
    rw [hattr, deser_lfn le.sfn hslotok.2]
    exact readLoop_sfn_notLfn d.fs.lfnAlloc true _ _ _ _ le hmem
  have hdotd : (dstName = "." || dstName = "..") = false := by
    simp only [Bool.or_eq_false_iff] at hdots ⊢
    exact ⟨hdots.1.2, hdots.2⟩
  have hsl2 : V2.slots d2.img = V2.slots d.img := by unfold WView.slots; rw [hv02.img]
  obtain ⟨d3, h3, hs3, hd3, hinv3, hsl3, hfr3, hmid3⟩ := (V2.step hinv2).writeEntry_sim dstName _ hval hdotd hrawwf hlfn
    (by show DirSlots.findFree (V2.slots d2.img) _ + _ ≤ V2.N
        rw [hsl2]; exact hfit)
  have hc3 : d3.clock = d2.clock := run_clock _ _ _ _ h3
  have hfr3' : FrameOutE V2.N V2.src V2.Extra d2 d3 := hfr3
  have hmid3' : MidImg V2.N V2.src V2.DropPost d2 d3 := hmid3
  have hsl3' : V2.slots d3.img = DirSlots.writeEntry (V2.slots d.img) (Names.encodeUtf16 dstName.toList)
      ((toDirEntryS V1.src le).data.renamed a).serialize := by
    have e1 : (V2.step hinv2).slots d3.img = V2.slots d3.img := rfl
    have e2 : (V2.step hinv2).slots d2.img = V2.slots d.img := hsl2
    rw [← e1, hsl3, e2]
  have hagree : FatAgree d2.fs d2.img d3.img :=
    fatAgree_of_frameE hfr3' d2.fs (by rw [hv02.fs]; exact hgeo.status_lt)
      (fun j hj => by rw [hv02.fs]; exact hbehind2 j hj) (fun q hq => by rw [hv02.fs]; exact hextra2 q hq)
  have htv3 : tabView d3.fs d3.img = tabView d2.fs d2.img := by
    rw [hs3.geom.tabView, tabView_congr (sz := d2.img.size) (by rw [hv02.fs, hv02.img]; exact hgeo) hagree]
  have hinv1_3 : V1.Inv d3 := hkeep1 d2 d3 hinv1 hs3 hc3 htv3
  -- 5. deleteEntry of the old entry in the source
  obtain ⟨d4, h4, hs4, hd4, hinv4, hsl4, hfr4, hmid4⟩ := (V1.step hinv1_3).deleteEntry_range (toDirEntryS V1.src le)
    le.beginIdx k (by have := hbnd.2.1; omega) rfl (by simp only [toDirEntryS]; rw [hk])
    (by show le.beginIdx + k ≤ V1.N; have := hbnd.2.2; omega)
  generalize hne : toDirEntryS (V2.step hinv2).src
    ⟨((toDirEntryS V1.src le).data.renamed a).serialize, Names.encodeUtf16 dstName.toList,
      DirSlots.findFree ((V2.step hinv2).slots d2.img) (Lfn.numParts (Names.encodeUtf16 dstName.toList).length + 1),
      DirSlots.findFree ((V2.step hinv2).slots d2.img) (Lfn.numParts (Names.encodeUtf16 dstName.toList).length + 1) +
        (Lfn.numParts (Names.encodeUtf16 dstName.toList).length + 1)⟩ = newE at h3
  have hnd : newE.data = (toDirEntryS V1.src le).data.renamed a := by
    rw [← hne, ← writeEntry_result (V2.step hinv2).src _ hrawwf hlfn _ _ _ (by omega)]
  refine ⟨d3, d4, newE, ?_, hnd, (VolStep.of_sameVol hv02).trans hs3, hs4, hc3.trans hc2,
    (run_clock _ _ _ _ h4).trans (hc3.trans hc2), hd4, hinv3, hinv4, hsl3',
    fun q hq hn he => by rw [hfr3' q hq hn he, hv02.img], ?_, by rw [htv3, hv02.fs, hv02.img], ?_, hfr4, hmid4⟩
  · unfold renameInternal
    rw [if_neg (by rw [hdots]; decide)]
    rw [run_bind_ok (run_getFs d), run_bind_ok h1]
    simp only [id, liftE, hval]
    rw [run_bind_ok (rfl : run (pure () : Prog Unit) d1 = (.ok (), d1))]
    refine (hwalk _).trans ?_
    have h2' : run (checkForExistence env st2 dstName none) d1' = (.ok (liftEOA V2.src (.alias a)), d2) :=
      (congrArg (fun s => run (checkForExistence env s dstName none) d1') V2.start).trans h2
    rw [run_bind_ok h2']
    simp only [liftEOA]
    rw [run_bind_ok h3, run_bind_ok h4]
    rfl
  · obtain ⟨im, him1, him2⟩ := hmid3'
    exact ⟨im, fun q hq hn => by rw [him1 q hq hn, hv02.img], him2⟩
  · have e1 : (V1.step hinv1_3).slots d4.img = V1.slots d4.img := rfl
    have e2 : (V1.step hinv1_3).slots d3.img = V1.slots d3.img := rfl
    rw [← e1, hsl4, e2, hk]

end WView

end FatVerif.DirSim
