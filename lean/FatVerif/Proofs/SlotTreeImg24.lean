import FatVerif.Proofs.SlotTreeImg23
/-!
# Slot trees on a device image, part 24: `create_file(name)` through the handle of a SUB-directory, slot level

The single-directory core of "`create_file` whose last directory lies below the root": the cluster chain of the
directory holds the two dot slots, then the model's slot list `slots`, then end markers.  The program (one path
component, through the handle `File::new(Some(c0), Some(entry))` of the directory) ends as the slot model says ON
`slots` — `check_for_existence` behind the dot entries is `check_dots`, `find_free_entries`/`write_entry` shift by
two (`findFree_cons_live`, `writeEntry_cons_live`) — and after success the chain holds the dot slots, then
`write_entry` of the model on `slots`, then end markers.

NOT done here (hence no tree step for this case in Props/C01img.lean): the transport of the OTHER directories of the
tree (needs: the chains of distinct directories are disjoint), and the record of this directory in its parent, whose
modification stamp the destructor of the handle re-writes (`FrameOutE` leaves the 32 bytes at `ed0.pos` open;
`MidImg … subDropPost` says they become the re-stamped record: equal bytes iff the stamp was already the clock's).
-/
namespace FatVerif
namespace SlotTreeImg
open Lfn DirSlots DirAlias SlotTree DirSim FatVerif.FileSim FatVerif.Fat

/-- the chain of a sub-directory at slot level: the dot slots, the node's slot list, end markers -/
structure SubSlots (d : Dev) (chain : List Nat) (s1 s2 : List Nat) (slots tail : List (List Nat)) : Prop where
  eq : chainSlots d.fs d.img chain = s1 :: s2 :: slots ++ tail
  ends : ∀ s ∈ tail, Lfn.isEnd s = true
  c1 : slotClass s1 = .file
  c2 : slotClass s2 = .file
  r1 : sfnName s1 = dotRaw
  r2 : sfnName s2 = dotDotRaw

theorem live_of_file {s : List Nat} (h : slotClass s = .file) : Lfn.isEnd s = false ∧ Lfn.isDeleted s = false := by
  unfold slotClass at h
  cases h1 : Lfn.isEnd s with
  | true => rw [h1] at h; simp at h
  | false =>
    cases h2 : Lfn.isDeleted s with
    | true => rw [h1, h2] at h; simp at h
    | false => exact ⟨rfl, rfl⟩

/-- the listing of such a chain: the dot entries, then the node's entries moved by two (this is `SubImg`'s equation) -/
theorem SubSlots.listing {d : Dev} {chain : List Nat} {s1 s2 : List Nat} {slots tail : List (List Nat)}
    (S : SubSlots d chain s1 s2 slots tail) :
    listing (chainSlots d.fs d.img chain) =
      [⟨s1, [], 0, 1⟩, ⟨s2, [], 1, 2⟩] ++ (listing slots).map (shiftE 2) := by
  rw [S.eq, List.cons_append, List.cons_append, listing_dots s1 s2 S.c1 S.c2, listing_append_ends slots tail S.ends,
    finish_new, finish_new]
  rfl

section sub
variable {d : Dev} {up : Char → List Char}

/-- **`create_file(name)` through the handle of a sub-directory, at slot level** -/
theorem createFile_sub_slots (hup : DotSafe up) (env : Env) (henv : env.upper = up) (c0 : Nat) (ed0 : DirEntryEditor)
    (chain : List Nat) (C : ChainDir d (FileH.new (some c0) (some ed0)) c0 chain) (hwfI : d.img.WF)
    (hfuel : chain.length * (d.fs.clusterSize / 32) < dirFuel d.fs) (hnm : ed0.data.name.length = 11)
    (hepos : (fatSliceOf d.fs).beginOff + (fatSliceOf d.fs).mirrors * (fatSliceOf d.fs).size ≤ ed0.pos)
    (hein : ed0.pos + 32 ≤ d.img.size)
    (heout : ∀ i, i < chain.length * (d.fs.clusterSize / 32) →
      chainSrc d.fs chain (32 * i) + 32 ≤ ed0.pos ∨ ed0.pos + 32 ≤ chainSrc d.fs chain (32 * i))
    (halloc : d.fs.lfnAlloc = true) (s1 s2 : List Nat) (slots tail : List (List Nat))
    (S : SubSlots d chain s1 s2 slots tail) (path name : String) (hsp : Names.splitPath path = (name, none))
    (hdot : isDotName name = false)
    (hroom : DirSlots.findFree slots (numParts (Names.encodeUtf16 name.toList).length + 1) +
      (numParts (Names.encodeUtf16 name.toList).length + 1) + 2 ≤ chain.length * (d.fs.clusterSize / 32))
    (f : Nat) :
    match checkForExistenceL up slots name (some false) 70000 with
    | .error e => FailsV (createFile env (f + 1) (.file (FileH.new (some c0) (some ed0))) path) d e
    | .ok (.entry _) => ∃ h, Reads (createFile env (f + 1) (.file (FileH.new (some c0) (some ed0))) path) d h
    | .ok (.alias a) =>
      match Names.validateLongName name with
      | .error e => FailsV (createFile env (f + 1) (.file (FileH.new (some c0) (some ed0))) path) d e
      | .ok () =>
        ∃ (h : FileH) (d' : Dev) (tail' : List (List Nat)),
          run (createFile env (f + 1) (.file (FileH.new (some c0) (some ed0))) path) d = (.ok h, d') ∧ VolStep d d' ∧
          SubSlots d' chain s1 s2
            (DirSlots.writeEntry slots (Names.encodeUtf16 name.toList) (sfnWith a (0 :: sfnStamp d.fs d.clock none)))
            tail' ∧
          FrameOutE (chain.length * (d.fs.clusterSize / 32)) (chainSrc d.fs chain) (subExtra ed0) d d' := by
  let V : WView d (.file (FileH.new (some c0) (some ed0))) :=
    WView.ofSub d c0 ed0 chain C hwfI hfuel hnm hepos hein heout
  have hVs : V.slots d.img = s1 :: s2 :: slots ++ tail := by
    show srcSlots d.img (chainSrc d.fs chain) (chain.length * (d.fs.clusterSize / 32)) = _
    rw [srcSlots_chain d.fs d.img C.geo.cs_pos C.cs32 chain, S.eq]
  obtain ⟨l1a, l1b⟩ := live_of_file S.c1
  obtain ⟨l2a, l2b⟩ := live_of_file S.c2
  have hdot' : (name = "." || name = "..") = false := by rw [isDotName_eq]; exact hdot
  -- `check_for_existence` on the chain is the model's on `slots`, moved by the two dot slots
  have hchk : ∀ k, V.toDirView.check env name k =
      (checkForExistenceL up slots name k 70000).map (shiftR 2) := by
    intro k
    unfold DirView.check
    show checkForExistenceL env.upper (srcSlots d.img (chainSrc d.fs chain) (chain.length * (d.fs.clusterSize / 32)))
      _ _ _ = _
    have : srcSlots d.img (chainSrc d.fs chain) (chain.length * (d.fs.clusterSize / 32)) = V.slots d.img := rfl
    rw [this, hVs, henv]
    have happ : s1 :: s2 :: slots ++ tail = (s1 :: s2 :: slots) ++ tail := rfl
    rw [happ, check_append_ends up _ tail S.ends, check_dots up hup s1 s2 S.c1 S.c2 S.r1 S.r2 slots name hdot]
  cases hc : checkForExistenceL up slots name (some false) 70000 with
  | error e =>
    simp only
    exact V.toDirView.createFile_fails_sim halloc env _ _ hsp hdot' e (by rw [hchk, hc]; rfl) f d (SameVol.refl d)
  | ok r =>
    cases r with
    | entry le =>
      simp only
      exact ⟨_, V.toDirView.createFile_exists_sim halloc env _ _ hsp hdot' (shiftE 2 le) (by rw [hchk, hc]; rfl) f d
        (SameVol.refl d)⟩
    | alias a =>
      simp only
      cases hval : Names.validateLongName name with
      | error e =>
        simp only
        exact createFile_invalid_fails V.toDirView halloc env _ _ hsp hdot a (by rw [hchk, hc]; rfl) e hval f d
          (SameVol.refl d)
      | ok u =>
        cases u
        simp only
        have hchkV : checkForExistenceL env.upper (V.slots d.img) name (some false) 70000 = .ok (.alias a) := by
          have := hchk (some false)
          unfold DirView.check at this
          rw [hc] at this
          exact this
        have hff : DirSlots.findFree (V.slots d.img) (numParts (Names.encodeUtf16 name.toList).length + 1) =
            DirSlots.findFree slots (numParts (Names.encodeUtf16 name.toList).length + 1) + 2 := by
          have happ : s1 :: s2 :: slots ++ tail = (s1 :: s2 :: slots) ++ tail := rfl
          rw [hVs, happ, findFree_append_ends _ tail S.ends, findFree_cons_live s1 _ _ l1a l1b,
            findFree_cons_live s2 _ _ l2a l2b]
        obtain ⟨d', e, hr, _, _, hs, _, _, hslots', hfr, _⟩ := V.createFile_sim env path name hsp hdot' hval halloc a hchkV
          (by rw [hff]; show _ ≤ chain.length * (d.fs.clusterSize / 32); omega) f
        have hfl := DirSlots.findFree_le slots (numParts (Names.encodeUtf16 name.toList).length + 1) (by omega)
        have hfl2 : DirSlots.findFree (s1 :: s2 :: slots) (numParts (Names.encodeUtf16 name.toList).length + 1) ≤
            (s1 :: s2 :: slots).length := by
          rw [findFree_cons_live s1 _ _ l1a l1b, findFree_cons_live s2 _ _ l2a l2b]
          simp only [List.length_cons]; omega
        obtain ⟨tail', htw, htl'⟩ := writeEntry_append_ends (s1 :: s2 :: slots) tail S.ends
          (Names.encodeUtf16 name.toList) (sfnWith a (0 :: sfnStamp d.fs d.clock none)) hfl2
        refine ⟨_, d', tail', hr, hs, ⟨?_, htl', S.c1, S.c2, S.r1, S.r2⟩, hfr⟩
        rw [← srcSlots_chain d'.fs d'.img (C.geo.frame hs.geom).cs_pos (by rw [hs.geom.clusterSize]; exact C.cs32) chain,
          chainSrc_geom hs.geom, hs.geom.clusterSize]
        show V.slots d'.img = _
        rw [hslots', hVs, sfnAt_serialize]
        have happ : s1 :: s2 :: slots ++ tail = (s1 :: s2 :: slots) ++ tail := rfl
        rw [happ, htw, writeEntry_cons_live s1 _ _ _ l1a l1b, writeEntry_cons_live s2 _ _ _ l2a l2b]

end sub

end SlotTreeImg
end FatVerif
