import FatVerif.Model.AFile
/-! The FAT restricted to one file, as a duplicate-free list: successor, truncation, the seek walk. -/
namespace FatVerif.Cursor

theorem nextOf_of_getElem? : ∀ (l : List Nat) (i c : Nat), l.Nodup → l[i]? = some c → nextOf l c = l[i + 1]?
  | [], i, c, _, h => by simp at h
  | [x], i, c, _, h => by
    cases i with
    | zero => simp [nextOf]
    | succ i => simp at h
  | x :: y :: r, 0, c, _, h => by
    simp at h; subst h; simp [nextOf]
  | x :: y :: r, i + 1, c, nd, h => by
    have hx : x ∉ y :: r := (List.nodup_cons.mp nd).1
    have nd' : (y :: r).Nodup := (List.nodup_cons.mp nd).2
    have h' : (y :: r)[i]? = some c := by simpa using h
    have hc : c ∈ y :: r := List.mem_of_getElem? h'
    have hne : x ≠ c := fun e => hx (e ▸ hc)
    have ih := nextOf_of_getElem? (y :: r) i c nd' h'
    simp only [nextOf, hne, if_false]
    rw [ih]; simp

theorem cutAfter_of_getElem? : ∀ (l : List Nat) (i c : Nat), l.Nodup → l[i]? = some c →
    cutAfter c l = l.take (i + 1) ∧ freedAfter c l = l.drop (i + 1)
  | [], i, c, _, h => by simp at h
  | x :: r, 0, c, _, h => by
    simp at h; subst h; simp [cutAfter, freedAfter]
  | x :: r, i + 1, c, nd, h => by
    have hx : x ∉ r := (List.nodup_cons.mp nd).1
    have nd' : r.Nodup := (List.nodup_cons.mp nd).2
    have h' : r[i]? = some c := by simpa using h
    have hc : c ∈ r := List.mem_of_getElem? h'
    have hne : x ≠ c := fun e => hx (e ▸ hc)
    have ih := cutAfter_of_getElem? r i c nd' h'
    simp only [cutAfter, freedAfter, hne, if_false, ih.1, ih.2]
    simp

theorem seekWalk_of_getElem? (l : List Nat) (cs : Nat) (nd : l.Nodup) :
    ∀ (todo j c i off : Nat), l[j]? = some c → j + todo < l.length →
      ∃ c', l[j + todo]? = some c' ∧ AFile.seekWalk l cs c i todo off = (c', off)
  | 0, j, c, i, off, h, _ => ⟨c, by simpa using h, by simp [AFile.seekWalk]⟩
  | todo + 1, j, c, i, off, h, hlt => by
    have hn := nextOf_of_getElem? l j c nd h
    have hj1 : j + 1 < l.length := by omega
    obtain ⟨d, hd⟩ : ∃ d, l[j + 1]? = some d := ⟨l[j + 1], by simp [hj1]⟩
    obtain ⟨c', h1, h2⟩ := seekWalk_of_getElem? l cs nd todo (j + 1) d (i + 1) off hd (by omega)
    refine ⟨c', by rw [← h1]; congr 1; omega, ?_⟩
    simp only [AFile.seekWalk, hn, hd]
    exact h2

/-- in a duplicate-free list equal entries have equal indices -/
theorem nodup_getElem?_inj {l : List Nat} (nd : l.Nodup) {i j c : Nat}
    (hi : l[i]? = some c) (hj : l[j]? = some c) : i = j := by
  have hi' : i < l.length := by
    rcases Nat.lt_or_ge i l.length with h | h
    · exact h
    · simp [List.getElem?_eq_none h] at hi
  have hj' : j < l.length := by
    rcases Nat.lt_or_ge j l.length with h | h
    · exact h
    · simp [List.getElem?_eq_none h] at hj
  have e1 : l[i] = c := by simpa [List.getElem?_eq_getElem hi'] using hi
  have e2 : l[j] = c := by simpa [List.getElem?_eq_getElem hj'] using hj
  exact (List.getElem_inj nd).mp (e1.trans e2.symm)

end FatVerif.Cursor
