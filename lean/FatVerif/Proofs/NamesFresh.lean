import FatVerif.Proofs.NamesLegal
/-! Freshness of generated aliases (C16.2): a name that was fed to `add_existing` is never returned. -/
namespace FatVerif.Names

/-! ## bitmaps -/

theorem bitClear_eq (bm i : Nat) : bitClear bm i = !bm.testBit i := by
  unfold bitClear
  rw [Nat.one_shiftLeft]
  cases h : bm.testBit i
  · have : bm &&& 2 ^ i = 0 := by
      apply Nat.eq_of_testBit_eq
      intro j
      rw [Nat.testBit_and, Nat.testBit_two_pow, Nat.zero_testBit]
      by_cases hj : i = j
      · subst hj; simp [h]
      · simp [hj]
    simp [this]
  · have : bm &&& 2 ^ i ≠ 0 := by
      intro h0
      have := Nat.testBit_and bm (2 ^ i) i
      rw [h0, Nat.zero_testBit, h, Nat.testBit_two_pow_self] at this
      cases this
    simp [this]

theorem testBit_setBit (bm d i : Nat) : (setBit bm d).testBit i = (bm.testBit i || decide (d = i)) := by
  unfold setBit
  rw [Nat.testBit_or, Nat.one_shiftLeft, Nat.testBit_two_pow]

/-! ## monotonicity of the collision record -/

def Mono (g g' : Gen) : Prop :=
  (∀ i, g.longPrefixBitmap.testBit i = true → g'.longPrefixBitmap.testBit i = true) ∧
  (∀ i, g.prefixChksumBitmap.testBit i = true → g'.prefixChksumBitmap.testBit i = true) ∧
  (g.exactMatch = true → g'.exactMatch = true)

theorem Mono.refl (g : Gen) : Mono g g := ⟨fun _ h => h, fun _ h => h, fun h => h⟩

theorem Mono.trans {a b c : Gen} (h1 : Mono a b) (h2 : Mono b c) : Mono a c :=
  ⟨fun i h => h2.1 i (h1.1 i h), fun i h => h2.2.1 i (h1.2.1 i h), fun h => h2.2.2 (h1.2.2 h)⟩

theorem markExact_mono (g : Gen) (sn : List Nat) : Mono g (markExact g sn) := by
  unfold markExact; split
  · exact ⟨fun _ h => h, fun _ h => h, fun _ => rfl⟩
  · exact Mono.refl g

theorem checkLong_mono (g : Gen) (sn : List Nat) : Mono g (checkLong g sn) := by
  unfold checkLong; repeat' split
  all_goals first
    | exact Mono.refl g
    | exact ⟨fun i h => by simp only [testBit_setBit, h, Bool.true_or], fun _ h => h, fun h => h⟩

theorem checkShort_mono (g : Gen) (sn : List Nat) : Mono g (checkShort g sn) := by
  unfold checkShort; repeat' split
  all_goals first
    | exact Mono.refl g
    | exact ⟨fun _ h => h, fun i h => by simp only [testBit_setBit, h, Bool.true_or], fun h => h⟩

theorem addExisting_mono (g : Gen) (sn : List Nat) : Mono g (addExisting g sn) :=
  (markExact_mono g sn).trans ((checkLong_mono _ sn).trans (checkShort_mono _ sn))

theorem addAll_mono (g : Gen) (ex : List (List Nat)) : Mono g (addAll g ex) := by
  unfold addAll
  induction ex generalizing g with
  | nil => exact Mono.refl g
  | cons e es ih => exact (addExisting_mono g e).trans (ih _)

/-! ## a generated name, fed back, records its own collision -/

theorem byteAt_append_right (l r : List Nat) (k : Nat) : byteAt (l ++ r) (l.length + k) = byteAt r k := by
  simp [byteAt, List.getD_eq_getElem?_getD, List.getElem?_append_right]

theorem digit10_digit {i : Nat} (h : i ≤ 9) : digit10 (48 + i) = some i := by
  unfold digit10
  have : 48 ≤ 48 + i ∧ 48 + i ≤ 57 := by omega
  simp [this]

theorem digit16_hexUp : ∀ d < 16, digit16 (hexUp d) = some d ∧ hexUp d ≠ 43 := by decide

theorem fromStrRadix16_cons (b c : Nat) (bs : List Nat) (h : b ≠ 43) :
    fromStrRadix16 (b :: c :: bs) = parseHexDigits (b :: c :: bs) 0 := by
  unfold fromStrRadix16
  split <;> simp_all

/-- the four characters `u16_to_hex` writes parse back to the same checksum -/
theorem hexRoundTrip (x : Nat) (hx : x < 65536) : fromStrRadix16 (u16ToHex x) = some x := by
  unfold u16ToHex
  obtain ⟨a1, a2⟩ := digit16_hexUp (x / 4096 % 16) (by omega)
  obtain ⟨b1, _⟩ := digit16_hexUp (x / 256 % 16) (by omega)
  obtain ⟨c1, _⟩ := digit16_hexUp (x / 16 % 16) (by omega)
  obtain ⟨d1, _⟩ := digit16_hexUp (x % 16) (by omega)
  rw [fromStrRadix16_cons _ _ _ a2]
  simp only [parseHexDigits, a1, b1, c1, d1]
  have h1 : 0 * 16 + x / 4096 % 16 < 65536 := by omega
  have h2 : (0 * 16 + x / 4096 % 16) * 16 + x / 256 % 16 < 65536 := by omega
  have h3 : ((0 * 16 + x / 4096 % 16) * 16 + x / 256 % 16) * 16 + x / 16 % 16 < 65536 := by omega
  have h4 : (((0 * 16 + x / 4096 % 16) * 16 + x / 256 % 16) * 16 + x / 16 % 16) * 16 + x % 16 < 65536 := by omega
  simp only [h1, h2, h3, h4, if_true]
  congr 1; omega

/-- shape of `build_prefixed_name`: prefix, `~`, digit, then the rest; the extension field is copied -/
theorem build_shape {g : Gen} (h : GenWF g) (i : Nat) (w : Bool) :
    (∃ tail, buildPrefixedName g i w = prefixPart g w ++ 126 :: (48 + i) :: tail) ∧
    (buildPrefixedName g i w).drop 8 = g.shortName.drop 8 := by
  obtain ⟨_, hp⟩ := prefixPart_spec h w
  unfold buildPrefixedName
  constructor
  · exact ⟨List.replicate (8 - (prefixPart g w ++ [126, 48 + i]).length) 32 ++ g.shortName.drop 8, by simp [padTo]⟩
  · rw [List.drop_left']
    exact padTo_length (by simp; omega)

theorem shortName_length {g : Gen} (h : GenWF g) : g.shortName.length = 11 := by
  obtain ⟨b, e, hs, hb, he, _⟩ := h
  exact (shortName_shape hs hb he).1

theorem long_hit {g : Gen} (h : GenWF g) {i : Nat} (hi : i ≤ 9) :
    (checkLong g (buildPrefixedName g i false)).longPrefixBitmap.testBit i = true := by
  obtain ⟨⟨tail, ht⟩, hd⟩ := build_shape h i false
  have hl := shortName_length h
  have hp : (prefixPart g false).length = longPrefixLen g := by
    simp [prefixPart, List.length_take]; unfold longPrefixLen; omega
  have e0 : byteAt (buildPrefixedName g i false) (longPrefixLen g) = 126 := by
    rw [ht, ← hp]; exact byteAt_append_right _ _ 0
  have e1 : byteAt (buildPrefixedName g i false) (longPrefixLen g + 1) = 48 + i := by
    rw [ht, ← hp]; exact byteAt_append_right _ _ 1
  have e2 : prefixExtMatch g (buildPrefixedName g i false) (longPrefixLen g) = true := by
    unfold prefixExtMatch
    rw [hd, ht, List.take_left' hp]
    simp [prefixPart]
  unfold checkLong
  simp only [e0, e1, digit10_digit hi, e2, ne_eq, not_true_eq_false, if_false, if_true, testBit_setBit]
  simp

theorem short_hit {g : Gen} (h : GenWF g) {i : Nat} (hi : i ≤ 9) :
    (checkShort g (buildPrefixedName g i true)).prefixChksumBitmap.testBit i = true := by
  obtain ⟨⟨tail, ht⟩, hd⟩ := build_shape h i true
  have hl := shortName_length h
  have hc := h.chk
  have hq : (g.shortName.take (shortPrefixLen g)).length = shortPrefixLen g := by
    simp [List.length_take]; unfold shortPrefixLen; omega
  have hp : (prefixPart g true).length = shortPrefixLen g + 4 := by
    simp only [prefixPart, if_true, List.length_append, hq, u16ToHex_length]
  have e0 : byteAt (buildPrefixedName g i true) (shortPrefixLen g + 4) = 126 := by
    rw [ht, ← hp]; exact byteAt_append_right _ _ 0
  have e1 : byteAt (buildPrefixedName g i true) (shortPrefixLen g + 4 + 1) = 48 + i := by
    rw [ht, ← hp]; exact byteAt_append_right _ _ 1
  have e2 : prefixExtMatch g (buildPrefixedName g i true) (shortPrefixLen g) = true := by
    unfold prefixExtMatch
    rw [hd, ht]
    simp only [prefixPart, if_true, List.append_assoc]
    rw [List.take_left' hq]
    simp
  have e3 : ((buildPrefixedName g i true).drop (shortPrefixLen g)).take 4 = u16ToHex g.chksum := by
    rw [ht]
    simp only [prefixPart, if_true, List.append_assoc]
    rw [List.drop_left' hq, List.take_left' (u16ToHex_length _)]
  unfold checkShort
  simp only [e0, e1, digit10_digit hi, e2, e3, hexRoundTrip _ hc, ne_eq, not_true_eq_false, if_false, if_true,
    testBit_setBit]
  simp

/-- same static fields and same checksum: `build_prefixed_name` and the three checks behave identically -/
def Same (g g' : Gen) : Prop := SameStatic g g' ∧ g'.chksum = g.chksum

theorem Same.build {g g' : Gen} (h : Same g g') (i : Nat) (w : Bool) :
    buildPrefixedName g' i w = buildPrefixedName g i w := by
  obtain ⟨⟨h1, h2, _, _⟩, h3⟩ := h
  simp [buildPrefixedName, prefixPart, shortPrefixLen, longPrefixLen, h1, h2, h3]

theorem Same.refl (g : Gen) : Same g g := ⟨SameStatic.refl g, rfl⟩

theorem Same.trans {a b c : Gen} (h1 : Same a b) (h2 : Same b c) : Same a c :=
  ⟨h1.1.trans h2.1, h2.2.trans h1.2⟩

theorem Same.wf {g g' : Gen} (h : Same g g') (hw : GenWF g) : GenWF g' :=
  hw.of_static h.1 (by rw [h.2]; exact hw.chk)

theorem addExisting_same (g : Gen) (sn : List Nat) : Same g (addExisting g sn) := addExisting_static g sn
theorem addAll_same (g : Gen) (ex : List (List Nat)) : Same g (addAll g ex) := addAll_static g ex

theorem addExisting_long_hit {g : Gen} (h : GenWF g) {i : Nat} (hi : i ≤ 9) :
    (addExisting g (buildPrefixedName g i false)).longPrefixBitmap.testBit i = true := by
  unfold addExisting
  have s := markExact_static g (buildPrefixedName g i false)
  have w : GenWF (markExact g (buildPrefixedName g i false)) := Same.wf s h
  have := long_hit w hi
  rw [Same.build s] at this
  exact (checkShort_mono _ _).1 i this

theorem addExisting_short_hit {g : Gen} (h : GenWF g) {i : Nat} (hi : i ≤ 9) :
    (addExisting g (buildPrefixedName g i true)).prefixChksumBitmap.testBit i = true := by
  unfold addExisting
  have s1 := markExact_static g (buildPrefixedName g i true)
  have s2 := checkLong_static (markExact g (buildPrefixedName g i true)) (buildPrefixedName g i true)
  have s : Same g (checkLong (markExact g (buildPrefixedName g i true)) (buildPrefixedName g i true)) :=
    Same.trans s1 s2
  have := short_hit (Same.wf s h) hi
  rw [Same.build s] at this
  exact this

theorem addExisting_exact_hit (g : Gen) : (addExisting g g.shortName).exactMatch = true := by
  have : (markExact g g.shortName).exactMatch = true := by simp [markExact]
  exact ((checkLong_mono _ _).trans (checkShort_mono _ _)).2.2 this

/-- whatever a member of the population would record is recorded after the whole population was fed -/
theorem addAll_hit (Q : Gen → Prop) (a : List Nat) (g : Gen)
    (hmono : ∀ g1 g2, Mono g1 g2 → Q g1 → Q g2)
    (hhit : ∀ g0, Same g g0 → Q (addExisting g0 a))
    (ex : List (List Nat)) (ha : a ∈ ex) : Q (addAll g ex) := by
  suffices ∀ g1, Same g g1 → Q (addAll g1 ex) from this g (Same.refl g)
  induction ex with
  | nil => cases ha
  | cons e es ih =>
    intro g1 hs
    simp only [addAll, List.foldl_cons]
    rcases List.mem_cons.1 ha with rfl | hm
    · exact hmono _ _ (addAll_mono _ es) (hhit g1 hs)
    · exact ih hm _ (hs.trans (addExisting_same g1 e))

/-- C16.2 for one round: the name returned after the population was fed is not in the population -/
theorem generate_fresh {g : Gen} (hw : GenWF g) (ex : List (List Nat)) {a : List Nat}
    (hg : generate (addAll g ex) = .ok a) : a ∉ ex := by
  intro ha
  have hs := addAll_same g ex
  rcases generate_cases hg with ⟨_, _, hx, rfl⟩ | ⟨i, _, hi, hb, rfl⟩ | ⟨i, _, hi, hb, rfl⟩
  · have : (addAll g ex).exactMatch = true :=
      addAll_hit (fun g' => g'.exactMatch = true) _ g (fun _ _ m h => m.2.2 h)
        (fun g0 s0 => by rw [hs.1.1, ← s0.1.1]; exact addExisting_exact_hit g0) ex ha
    rw [this] at hx; cases hx
  · have : (addAll g ex).longPrefixBitmap.testBit i = true :=
      addAll_hit (fun g' => g'.longPrefixBitmap.testBit i = true) _ g (fun _ _ m h => m.1 i h)
        (fun g0 s0 => by
          rw [Same.build hs, ← Same.build s0]; exact addExisting_long_hit (Same.wf s0 hw) (by omega)) ex ha
    rw [bitClear_eq, this] at hb; cases hb
  · have : (addAll g ex).prefixChksumBitmap.testBit i = true :=
      addAll_hit (fun g' => g'.prefixChksumBitmap.testBit i = true) _ g (fun _ _ m h => m.2.1 i h)
        (fun g0 s0 => by
          rw [Same.build hs, ← Same.build s0]; exact addExisting_short_hit (Same.wf s0 hw) (by omega)) ex ha
    rw [bitClear_eq, this] at hb; cases hb

end FatVerif.Names
