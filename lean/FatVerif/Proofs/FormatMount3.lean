import FatVerif.Props.C06fat12
import FatVerif.Props.C05img
/-!
# C06 — the freshly formatted and mounted volume

`Fresh` bundles the conclusion of `C06mount.format_then_mount_full` (one record instead of a 23-fold conjunction).
On such a volume:

* `Fresh.geo`: the layout facts `FileSim.Geo` that the FAT / cluster-chain simulations (agent-cursor, agent-effects,
  agent-fat) assume hold;
* `Fresh.table`: the decoded FAT of the image (`C03img.imgTable`, first copy) has entries `[2, total+2)` free — except
  entry 2 = end-of-chain on FAT32 (the root directory cluster).
-/
namespace FatVerif.C06vol
open FatVerif FatVerif.Format FatVerif.FormatSpec FatVerif.C06image FatVerif.C06mount FatVerif.C06fat12
open FatVerif.FileSim

/-- the result of formatting `d0` (→ `d1`) and mounting the device as the next call sees it (→ state `fs`, device
    `d2`): the conclusion of `format_then_mount_full` -/
structure Fresh (o : FormatOpts) (d0 d1 : Dev) (strict accDate lfnAlloc unicode : Bool)
    (boot : FBoot) (ft : FatType) (fs : FsState) (d2 : Dev) : Prop where
  checked : formatChecked o (fmtTotal o d0) = .ok (boot, ft)
  mounted : run (mount strict accDate lfnAlloc unicode) (nextOp d1) = (.ok fs, d2)
  fsEq : d2.fs = fs
  img : d2.img = d1.img
  log : d2.log = []
  fatType : fs.fatType = ft
  bps : fs.bps = boot.bpb.bps
  spc : fs.spc = boot.bpb.spc
  reserved : fs.reserved = boot.bpb.reserved
  fats : fs.fats = boot.bpb.fats
  spf : fs.spf = boot.bpb.sectorsPerFat
  rootEntries : fs.rootEntries = boot.bpb.rootEntries
  tc : boot.bpb.totalClusters = .ok fs.totalClusters
  rootCluster : fs.rootCluster = boot.bpb.rootCluster
  totalSectors : fs.totalSectors = fmtTotal o d0
  curDirty : fs.curDirty = false
  curIoErr : fs.curIoErr = false
  info : FsInfoAsFormatted ft fs
  extra : MountedExtra boot fs d2 strict accDate lfnAlloc unicode

theorem fresh_of_format (o : FormatOpts) (d0 d1 : Dev) (hpre : Formattable o d0)
    (hrun : run (formatVolume o) d0 = (.ok (), d1)) (strict accDate lfnAlloc unicode : Bool) :
    ∃ boot ft fs d2, Fresh o d0 d1 strict accDate lfnAlloc unicode boot ft fs d2 := by
  obtain ⟨boot, ft, fs, d2, h1, h2, h3, h4, h5, h6, h7, h8, h9, h10, h11, h12, h13, h14, h15, h16, h17, h18, h19⟩ :=
    format_then_mount_full o d0 d1 hpre hrun strict accDate lfnAlloc unicode
  exact ⟨boot, ft, fs, d2, h1, h2, h3, h4, h5, h6, h7, h8, h9, h10, h11, h12, h13, h14, h15, h16, h17, h18, h19⟩

section fresh
variable {o : FormatOpts} {d0 d1 : Dev} {strict accDate lfnAlloc unicode : Bool}
  {boot : FBoot} {ft : FatType} {fs : FsState} {d2 : Dev}

theorem Fresh.fatSlice (F : Fresh o d0 d1 strict accDate lfnAlloc unicode boot ft fs d2) :
    (fatSliceOf fs).beginOff = boot.bpb.reserved * boot.bpb.bps ∧
    (fatSliceOf fs).size = boot.bpb.sectorsPerFat * boot.bpb.bps ∧
    (fatSliceOf fs).mirrors = boot.bpb.fats := by
  unfold fatSliceOf
  rw [if_pos F.extra.mirroring]
  simp only [F.reserved, F.bps, F.spf, F.fats, and_self]

/-- the number of clusters, as format computed it -/
theorem Fresh.tcEq (hpre : Formattable o d0) (F : Fresh o d0 d1 strict accDate lfnAlloc unicode boot ft fs d2) :
    fs.totalClusters = (fmtTotal o d0 - (boot.bpb.reserved + boot.bpb.fats * boot.bpb.sectorsPerFat +
      boot.bpb.rootDirSectors)) / boot.bpb.spc := by
  have hg := fmtGeom_of_ok hpre.acc hpre.tot F.checked
  have := hg.tc
  rw [F.tc] at this
  simp only [Except.ok.injEq] at this
  exact this

/-- **the layout facts hold on a freshly formatted and mounted volume** (FAT32: for volumes whose FAT has no room for
    the BAD markers, as in `formatFat_view_fat32`; this bounds one FAT copy by 4 GiB) -/
theorem Fresh.geo (hpre : Formattable o d0) (hrun : run (formatVolume o) d0 = (.ok (), d1))
    (F : Fresh o d0 d1 strict accDate lfnAlloc unicode boot ft fs d2)
    (hcap : ft = .fat32 → boot.bpb.sectorsPerFat * boot.bpb.bps * 8 / 32 ≤ 0x0FFFFFF0) :
    Geo fs d2.img.size := by
  have hg := fmtGeom_of_ok hpre.acc hpre.tot F.checked
  obtain ⟨hB, hZ, hM⟩ := F.fatSlice
  have htc := F.tcEq hpre
  have hbps := hg.bps_mem
  have hspc := hg.spc_mem
  simp only [List.mem_cons, List.mem_nil_iff, or_false] at hbps hspc
  have hbo : boot.bpb.bps = o.bps := by
    obtain ⟨c, _, _, _, _, _, _, _, hboot, _⟩ := formatChecked_ok_layout hpre.acc hpre.tot F.checked
    rw [hboot]; rfl
  have hsize : d2.img.size = d0.img.size := by rw [F.img, run_img_size _ _ _ _ hrun]
  have hres : 1 ≤ boot.bpb.reserved := by
    rw [hg.reserved]; unfold reservedFor; split <;> omega
  have hfds := F.extra.firstDataSector
  have hfit := hg.fit
  have htot := hpre.tot
  have hmax := hg.tcmax
  have hcapc := hg.cap
  rw [← htc] at hmax hcapc
  generalize hF : boot.bpb.reserved + boot.bpb.fats * boot.bpb.sectorsPerFat + boot.bpb.rootDirSectors = fds at *
  have hmul : fs.totalClusters * boot.bpb.spc ≤ fmtTotal o d0 - fds := by
    rw [htc]; exact Nat.div_mul_le_self _ _
  refine ⟨by rw [F.bps]; omega, by rw [F.spc]; omega, ?_, ?_, by rw [hM]; rcases hg.fats with h | h <;> omega, ?_, ?_,
    by rw [F.spc]; omega, by rw [hfds, F.spc]; omega, ?_, ?_⟩
  · rw [hB]
    have := Nat.mul_le_mul hres (show 512 ≤ boot.bpb.bps by omega)
    omega
  · intro c hc
    rw [hZ, F.fatType]
    generalize boot.bpb.sectorsPerFat * boot.bpb.bps = Z at *
    cases ft <;> simp only [entOff, entWidth, FatType.bits] at * <;> omega
  · rw [hB, hM, hZ, hfds, ← hF, F.bps]
    rw [Nat.add_mul, Nat.add_mul, Nat.mul_assoc]
    omega
  · show (fs.firstDataSector + (fs.totalClusters + 2 - 2) * fs.spc) * fs.bps ≤ _
    rw [hfds, F.spc, F.bps, Nat.add_sub_cancel, hsize]
    have := Nat.mul_le_mul_right boot.bpb.bps (show fds + fs.totalClusters * boot.bpb.spc ≤ fmtTotal o d0 by omega)
    have := hpre.size
    rw [hbo] at *; omega
  · rw [hZ]
    by_cases h32 : ft = .fat32
    · have := hcap h32; omega
    · have h1 := hg.spf16 h32
      have := Nat.mul_le_mul h1 (show boot.bpb.bps ≤ 4096 by omega)
      omega
  · rw [F.fatType]
    cases ft <;> simp only [maxClusters, Fat.badMark] at * <;> omega

/-! ### the decoded FAT of the image -/

theorem entry32_lt {G : Nat → Nat} {c a : Nat} (h : Entry32 G c a) (r : Nat) (hr : r < 4) : G (c * 4 + r) < 256 := by
  obtain ⟨w, _, h0, h1, h2, h3⟩ := h
  have : r = 0 ∨ r = 1 ∨ r = 2 ∨ r = 3 := by omega
  rcases this with rfl | rfl | rfl | rfl
  · rw [Nat.add_zero, h0]; omega
  · rw [h1]; omega
  · rw [h2]; omega
  · rw [h3]; omega

theorem getD_bytesLe16_lt (v x : Nat) : (bytesLe16 v).getD x 0 < 256 := by
  unfold bytesLe16
  match x with
  | 0 => simp only [List.getD_cons_zero]; omega
  | 1 => simp only [List.getD_cons_succ, List.getD_cons_zero]; omega
  | (n + 2) => simp

theorem getD_bytesLe32_lt (v x : Nat) : (bytesLe32 v).getD x 0 < 256 := by
  unfold bytesLe32
  match x with
  | 0 => simp only [List.getD_cons_zero]; omega
  | 1 => simp only [List.getD_cons_succ, List.getD_cons_zero]; omega
  | 2 => simp only [List.getD_cons_succ, List.getD_cons_zero]; omega
  | 3 => simp only [List.getD_cons_succ, List.getD_cons_zero]; omega
  | (n + 4) => simp

/-- the FAT window of the mounted volume holds the bytes of the first FAT copy of the formatted image -/
theorem Fresh.fatArr12 (F : Fresh o d0 d1 strict accDate lfnAlloc unicode boot ft fs d2) :
    fatArr fs d2.img = imgFatCopy d1 boot.bpb 0 := by
  obtain ⟨hB, hZ, _⟩ := F.fatSlice
  apply fatArr_eq_of_bytes
  · rw [imgFatCopy_size, hZ]
  · intro i hi
    rw [hZ] at hi
    rw [rd_imgFatCopy _ _ _ _ hi, hB, F.img, Nat.zero_mul, Nat.add_zero]

/-- … for FAT16/FAT32 in terms of the log replay over the previous contents (`C06image.fatCopy`), given that the
    replayed bytes of the window are bytes -/
theorem Fresh.fatArrReplay (hpre : Formattable o d0) (hrun : run (formatVolume o) d0 = (.ok (), d1))
    (F : Fresh o d0 d1 strict accDate lfnAlloc unicode boot ft fs d2)
    (hlt : ∀ x, x < boot.bpb.sectorsPerFat * boot.bpb.bps →
      d1.bytes d0.img.getByte (boot.bpb.reserved * boot.bpb.bps + 0 * (boot.bpb.sectorsPerFat * boot.bpb.bps) + x) < 256) :
    fatArr fs d2.img = fatCopy d0.img.getByte d1 boot.bpb 0 := by
  obtain ⟨hB, hZ, _⟩ := F.fatSlice
  obtain ⟨_, himg⟩ := run_img_replay _ d0 _ d1 hrun hpre.imgWf hpre.logEmpty
  apply fatArr_eq_of_bytes
  · rw [fatCopy_size, hZ]
  · intro i hi
    rw [hZ] at hi
    rw [rd_fatCopy _ _ _ _ _ hi, hB, F.img, himg]
    have := hlt i hi
    rw [Nat.zero_mul, Nat.add_zero] at this ⊢
    exact Nat.mod_eq_of_lt this

/-- **the table of a freshly formatted and mounted volume**: every entry `[2, total+2)` of the decoded FAT of the
    image is free — except, on FAT32, entry 2 (the root directory cluster), which is end-of-chain -/
theorem Fresh.table (hpre : Formattable o d0) (hrun : run (formatVolume o) d0 = (.ok (), d1))
    (F : Fresh o d0 d1 strict accDate lfnAlloc unicode boot ft fs d2)
    (hcap : ft = .fat32 → boot.bpb.sectorsPerFat * boot.bpb.bps * 8 / 32 ≤ 0x0FFFFFF0) :
    (∀ c, 2 ≤ c → c < fs.totalClusters + 2 → (ft = .fat32 → c ≠ 2) → C03img.imgTable fs d2.img c = .free) ∧
    (ft = .fat32 → C03img.imgTable fs d2.img 2 = .eoc) := by
  have hR := hpre.run hrun
  have hc := F.checked
  have hg := fmtGeom_of_ok hpre.acc hpre.tot hc
  unfold C03img.imgTable
  rw [← fatArr_eq_imgFatBytes, F.fatType]
  have hfats : 0 < boot.bpb.fats := by rcases hg.fats with h | h <;> omega
  cases hft : ft with
  | fat12 =>
    subst hft
    obtain ⟨tc, htc, hv⟩ := formatFat_view_fat12 o d0 d1 hpre hrun boot hc
    rw [F.tc] at htc; simp only [Except.ok.injEq] at htc; subst htc
    rw [F.fatArr12]
    exact ⟨fun c h2 hlt _ => (hv 0 hfats).2.2.1 c h2 hlt, fun h => by cases h⟩
  | fat16 =>
    subst hft
    obtain ⟨tc, htc, hv⟩ := formatFat_view_fat16 o d0 d1 hR boot hc
    rw [F.tc] at htc; simp only [Except.ok.injEq] at htc; subst htc
    obtain ⟨boot', ft', Lb, Lk, Lz, Lf, Lr, Lt, hf⟩ := hR.facts
    obtain ⟨rfl, rfl⟩ := facts_unique hf hc
    rw [F.fatArrReplay hpre hrun (fun x hx => by
      rw [fat16_bytes o d0 d1 hR hf _ F.tc d0.img.getByte 0 x hfats hx]
      have := getD_bytesLe16_lt (o.media ||| 0xFF00) x
      repeat' split
      all_goals omega)]
    exact ⟨fun c h2 hlt _ => (hv _ 0 hfats).2.2.1 c h2 hlt, fun h => by cases h⟩
  | fat32 =>
    subst hft
    have hcap' := hcap rfl
    obtain ⟨tc, htc, hv⟩ := formatFat_view_fat32 o d0 d1 hR boot hc hcap'
    rw [F.tc] at htc; simp only [Except.ok.injEq] at htc; subst htc
    obtain ⟨boot', ft', Lb, Lk, Lz, Lf, Lr, Lt, hf⟩ := hR.facts
    obtain ⟨rfl, rfl⟩ := facts_unique hf hc
    have hbps := hg.bps_mem
    simp only [List.mem_cons, List.mem_nil_iff, or_false] at hbps
    have hcapc := hg.cap
    rw [← F.tcEq hpre] at hcapc
    simp only [FatType.bits] at hcapc
    rw [F.fatArrReplay hpre hrun (fun x hx => by
      obtain ⟨b0, b1, e2, eE, eZ⟩ := fat32_bytes o d0 d1 hR hf _ F.tc hcap' d0.img.getByte 0 hfats
      dsimp only at b0 b1 e2 eE eZ
      obtain ⟨m, hm⟩ : ∃ m, boot'.bpb.bps = 4 * m := by
        rcases hbps with h | h | h | h <;> exact ⟨boot'.bpb.bps / 4, by omega⟩
      generalize hZe : boot'.bpb.sectorsPerFat * boot'.bpb.bps = Z at *
      have hZ4 : Z = 4 * (boot'.bpb.sectorsPerFat * m) := by
        rw [← hZe, hm, ← Nat.mul_assoc, Nat.mul_comm _ 4, Nat.mul_assoc]
      by_cases h4 : x < 4
      · rw [b0 x h4]; exact getD_bytesLe32_lt _ _
      by_cases h8 : x < 8
      · rw [b1 x (by omega) h8]; omega
      by_cases h12 : x < 12
      · have := entry32_lt e2 (x - 8) (by omega)
        rwa [show 2 * 4 + (x - 8) = x by omega] at this
      by_cases hz : x < (fs.totalClusters + 2) * 4
      · rw [eZ x (by omega) hz]; omega
      · have := entry32_lt (eE (x / 4) (by omega) (by omega)) (x % 4) (Nat.mod_lt _ (by omega))
        rwa [show x / 4 * 4 + x % 4 = x by omega] at this)]
    refine ⟨fun c h2 hlt hne => (hv _ 0 hfats).2.2.2.1 c ?_ hlt, fun _ => (hv _ 0 hfats).2.2.1⟩
    have := hne rfl
    omega

end fresh

/-! ### counting -/

/-- a table whose first `k` entries are in use and whose other entries are free has `total - k` free entries -/
theorem countFreeV_tail_free (g : Nat → FatValue) (k : Nat) : ∀ total,
    (∀ c, 2 + k ≤ c → c < total + 2 → g c = .free) → (∀ c, 2 ≤ c → c < 2 + k → g c ≠ .free) →
    Fat.countFreeV g total = total - k := by
  intro total
  induction total with
  | zero => intro _ _; simp [Fat.countFreeV]
  | succ n ih =>
    intro h1 h2
    rw [Fat.countFreeV_succ, ih (fun c a b => h1 c a (by omega)) h2]
    by_cases hk : k ≤ n
    · rw [if_pos (h1 (n + 2) (by omega) (by omega))]; omega
    · rw [if_neg (h2 (n + 2) (by omega) (by omega))]; omega

end FatVerif.C06vol
