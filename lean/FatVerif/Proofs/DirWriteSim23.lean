import FatVerif.Proofs.DirWriteSim22
/-! Directory WRITES, part 23: `remove(name)` of a FILE through any writable directory (`WView`), single-component path:
    `find_entry` → `free_cluster_chain` → `deleteEntry`; the invariant of the directory survives the release of a chain
    that shares no cluster with the directory's own chain. -/
namespace FatVerif.DirSim
open FatVerif.FileSim FatVerif.Fat DirEntryData DirAlias

/-- a chain is untouched by freeing clusters outside it -/
theorem chain_freed_other {g : Nat → FatValue} {cs : List Nat} : ∀ {chain : List Nat} {c0 : Nat}, Chain g c0 chain →
    (∀ x ∈ chain, x ∉ cs) → Chain (freedView g cs) c0 chain := by
  intro chain c0 h
  induction h with
  | last m hl =>
    intro hd
    refine Chain.last m (fun n hn => ?_)
    unfold freedView at hn
    rw [if_neg (hd m (by simp))] at hn
    exact hl n hn
  | cons m k ms hdm hc ih =>
    intro hd
    refine Chain.cons m k ms ?_ (ih (fun x hx => hd x (List.mem_cons_of_mem _ hx)))
    unfold freedView
    rw [if_neg (hd m (by simp))]
    exact hdm

/-- what `free_cluster_chain` (or nothing, for an entry without a cluster) leaves of the device -/
structure FreedStep (d d' : Dev) (cs : List Nat) : Prop where
  step : DevStep d d'
  tv : tabView d'.fs d'.img = freedView (tabView d.fs d.img) cs
  frame : ∀ q, 0x42 ≤ q → OutsideFat d.fs q → d'.img.getByte q = d.img.getByte q

/-- forward evaluation of the release step of `remove` -/
theorem run_free_step (fc : Option Nat) (cs : List Nat) (d : Dev) (hfa : d.failAt = none) (hwf : d.img.WF)
    (hgeo : Geo d.fs d.img.size) (hinfo : InfoOk d.fs d.img)
    (hcs : match fc with
      | some n => Chain (tabView d.fs d.img) n cs ∧ cs.Nodup ∧
          ∀ x ∈ cs, 2 ≤ x ∧ x < d.fs.totalClusters + 2 ∧ tabView d.fs d.img x ≠ .free
      | none => cs = []) :
    ∃ d', (∀ k : Prog Unit, run (match fc with
        | some n => do freeClusterChain n; k
        | none => k) d = run k d') ∧ FreedStep d d' cs := by
  cases fc with
  | none =>
    subst hcs
    exact ⟨d, fun k => rfl, DevStep.refl d, by rw [freedView_nil], fun q _ _ => rfl⟩
  | some n =>
    obtain ⟨hch, hnd, hin⟩ := hcs
    obtain ⟨d', h2, hst2, _, htv2, _, hfr2⟩ := run_freeClusterChain_any n cs d hfa hwf hgeo hinfo hch hnd hin
    exact ⟨d', fun k => run_bind_ok h2, hst2, htv2, hfr2⟩

namespace WView
variable {d : Dev} {st : DirStream}

/-- **`remove(name)` of a file through a writable directory** (single-component path). `hkeep`: the invariant of the
    directory survives the release step (instances: `RootInv.of_freed`, `ChainInv.of_freed`, `SubInv.of_freed`) -/
theorem remove_file_sim (V : WView d st) (env : Env) (path name : String) (hsp : Names.splitPath path = (name, none))
    (hdot : (name = "." || name = "..") = false) (hgeo : Geo d.fs d.img.size) (hinfo : InfoOk d.fs d.img)
    (le : LfnEntry)
    (hl : lookupL env.upper name.toList none (readDirEntries d.fs.lfnAlloc true (V.slots d.img)) = .ok le)
    (hfile : Lfn.isDir le.sfn = false) (cs : List Nat)
    (hcs : match (toDirEntryS V.src le).firstCluster d.fs with
      | some n => Chain (tabView d.fs d.img) n cs ∧ cs.Nodup ∧
          ∀ x ∈ cs, 2 ≤ x ∧ x < d.fs.totalClusters + 2 ∧ tabView d.fs d.img x ≠ .free
      | none => cs = [])
    (hkeep : ∀ d1 d2, SameVol d d1 → d1.clock = d.clock → FreedStep d1 d2 cs → V.Inv d2)
    (hslots : ∀ i, i < V.N → V.src (32 * i) + 32 ≤ (fatSliceOf d.fs).beginOff ∨
      (fatSliceOf d.fs).beginOff + (fatSliceOf d.fs).mirrors * (fatSliceOf d.fs).size ≤ V.src (32 * i)) (fuel : Nat) :
    ∃ d', run (FatVerif.remove env (fuel + 1) st path) d = (.ok (), d') ∧
      VolStep d d' ∧ d'.fs.curDirty = true ∧ V.Inv d' ∧
      V.slots d'.img = DirSlots.deleteRange (V.slots d.img) le.beginIdx le.endIdx ∧
      (∃ dm, tabView dm.fs dm.img = freedView (tabView d.fs d.img) cs ∧ VolStep d dm ∧
        FrameOutE V.N V.src V.Extra dm d' ∧ MidImg V.N V.src V.DropPost dm d') := by
  have g0 : Names.Gen := default
  obtain ⟨hmem, _, _⟩ := lookupL_ok _ _ _ _ _ hl
  -- 1. find_entry
  have hfe := V.toDirView.findEntry_sim env name none d (SameVol.refl d)
  have hlook : V.toDirView.lookup env name none = .ok (toDirEntryS V.src le) := by
    unfold DirView.lookup DirView.lfnEntries
    show (lookupL env.upper name.toList none (readDirEntries d.fs.lfnAlloc true (srcSlots d.img V.src V.N))).map _ = _
    have : srcSlots d.img V.src V.N = V.slots d.img := rfl
    rw [this, hl]; rfl
  rw [hlook] at hfe
  obtain ⟨d1, h1, hs1⟩ := hfe
  have hisdir : (toDirEntryS V.src le).isDir = false := by
    rw [toDirEntryS_isDir V.src le (srcEntries_slotOK _ _ _ _ _ le hmem)]; exact hfile
  -- 2. release
  obtain ⟨d2, h2, hf2⟩ := run_free_step ((toDirEntryS V.src le).firstCluster d.fs) cs d1
    (by rw [hs1.failAt]; exact V.io.noFault d V.here) (by rw [hs1.img]; exact V.io.wf d V.here)
    (by rw [hs1.fs, hs1.img]; exact hgeo) (by rw [hs1.fs, hs1.img]; exact hinfo) (by rw [hs1.fs, hs1.img]; exact hcs)
  have hinv2 := hkeep d1 d2 hs1 (run_clock _ _ _ _ h1) hf2
  -- the slots are those of `d`: they lie outside the FAT
  have hslots2 : V.slots d2.img = V.slots d.img := by
    unfold WView.slots
    refine srcSlots_congr (fun i hi x hx => ?_)
    have hb := V.geo.behind i hi
    have ho := hslots i hi
    rw [hf2.frame _ (by omega) (by
      rw [hs1.fs]
      unfold OutsideFat
      rcases ho with ho | ho
      · left; omega
      · right; omega), hs1.img]
  -- 3. deleteEntry on the device after the release
  have hmem2 : le ∈ readDirEntries d2.fs.lfnAlloc true ((V.step hinv2).slots d2.img) := by
    have : (V.step hinv2).slots d2.img = V.slots d2.img := rfl
    rw [this, hslots2]
    have hla : d2.fs.lfnAlloc = d.fs.lfnAlloc := by
      have := hf2.step.geom
      rw [← hs1.fs]
      unfold FsGeomEq at this
      rw [this]
    rw [hla]; exact hmem
  obtain ⟨d3, h3, hs3, hd3, hinv3, hsl3, hfr3, hmid3⟩ := (V.step hinv2).deleteEntry_sim le hmem2
  refine ⟨d3, ?_, ((VolStep.of_sameVol hs1).trans (VolStep.of_devStep hf2.step)).trans hs3, hd3, hinv3, ?_,
    ⟨d2, by rw [hf2.tv, hs1.fs, hs1.img], (VolStep.of_sameVol hs1).trans (VolStep.of_devStep hf2.step), hfr3, hmid3⟩⟩
  · unfold FatVerif.remove
    rw [run_bind_ok (run_getFs d), hsp]
    simp only [hdot, Bool.false_eq_true, if_false]
    rw [run_bind_ok h1]
    simp only [id, hisdir, Bool.false_eq_true, if_false]
    rw [run_bind_ok (rfl : run (pure false : Prog Bool) d1 = (.ok false, d1))]
    simp only [Bool.false_eq_true, if_false]
    exact (h2 (FatVerif.deleteEntry st (toDirEntryS V.src le))).trans h3
  · have : (V.step hinv2).slots d3.img = V.slots d3.img := rfl
    rw [← this, hsl3]
    have : (V.step hinv2).slots d2.img = V.slots d2.img := rfl
    rw [this, hslots2]

end WView


/-! ### the invariants survive the release step -/

theorem RootInv.of_freed {fs0 : FsState} {s : DiskSlice} {N : Nat} {d d1 d2 : Dev} {cs : List Nat}
    (h : RootInv fs0 s N d) (hv : SameVol d d1) (hf : FreedStep d1 d2 cs) : RootInv fs0 s N d2 :=
  ⟨by rw [hf.step.failAt, hv.failAt]; exact h.noFault, by rw [hf.step.size, hv.img]; exact h.inside,
   hf.step.wf (by rw [hv.img]; exact h.wf), (show FsGeomEq fs0 d1.fs by rw [hv.fs]; exact h.geom).trans hf.step.geom,
   h.fuel⟩

theorem ChainCore.of_freed {d1 d2 : Dev} {f0 : FileH} {c0 : Nat} {chain cs : List Nat} (C : ChainCore d1 f0 c0 chain)
    (hf : FreedStep d1 d2 cs) (hdisj : ∀ x ∈ chain, x ∉ cs) : ChainCore d2 f0 c0 chain :=
  ⟨by rw [hf.step.failAt]; exact C.failAt, by rw [hf.step.size]; exact C.geo.frame hf.step.geom, C.first,
   by rw [hf.tv]; exact chain_freed_other C.link hdisj, by rw [hf.step.geom.totalClusters]; exact C.inTab, C.nosize,
   by rw [hf.step.geom.accDate]; exact C.noacc, by rw [hf.step.geom.clusterSize]; exact C.cs32,
   by rw [hf.step.geom.clusterSize]; exact C.u32⟩

theorem ChainInv.of_freed {fs0 : FsState} {f0 : FileH} {c0 : Nat} {chain cs : List Nat} {d d1 d2 : Dev}
    (h : ChainInv fs0 f0 c0 chain d) (hv : SameVol d d1) (hf : FreedStep d1 d2 cs) (hdisj : ∀ x ∈ chain, x ∉ cs) :
    ChainInv fs0 f0 c0 chain d2 := by
  have h1 : ChainInv fs0 f0 c0 chain d1 :=
    ⟨h.dir.of_sameVol hv, by rw [hv.img]; exact h.wf, by rw [hv.fs]; exact h.geom, h.fuel⟩
  have C2 := h1.dir.core.of_freed hf hdisj
  exact ⟨⟨C2.failAt, C2.geo, C2.first, C2.link, C2.inTab, C2.nosize, C2.noacc, h.dir.clean, C2.cs32, C2.u32⟩,
    hf.step.wf h1.wf, h1.geom.trans hf.step.geom, h.fuel⟩

theorem SubInv.of_freed {fs0 : FsState} {ed0 : DirEntryEditor} {c0 : Nat} {chain cs : List Nat} {t0 : Nat} {d d1 d2 : Dev}
    (h : SubInv fs0 ed0 c0 chain t0 d) (hv : SameVol d d1) (hc : d1.clock = d.clock) (hf : FreedStep d1 d2 cs)
    (hdisj : ∀ x ∈ chain, x ∉ cs) : SubInv fs0 ed0 c0 chain t0 d2 := by
  have h1 := subInv_ok.vol d d1 h hv hc
  have C2 := h1.dir.core.of_freed hf hdisj
  exact ⟨⟨C2.failAt, C2.geo, C2.first, C2.link, C2.inTab, C2.nosize, C2.noacc, h.dir.clean, C2.cs32, C2.u32⟩,
    hf.step.wf h1.wf, h1.geom.trans hf.step.geom, h.fuel, hf.step.clock.trans h1.clock, h.nameLen, h.epos,
    by rw [hf.step.size]; exact h1.einside⟩

end FatVerif.DirSim
