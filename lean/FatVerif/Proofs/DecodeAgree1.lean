import FatVerif.Props.C01sim
import FatVerif.Props.C17
import FatVerif.Props.C18
/-! C04, part 1: the library's `DirEntry` (decoded field by field by `Model/DirEntry.lean`) shows, through its accessors,
    exactly the row the independent specification decoder `DirSpec.rowOf` computes from the same 32 bytes. -/
namespace FatVerif.DecodeAgree
open FatVerif FatVerif.DirSim FatVerif.Lfn FatVerif.C18

def tripleD (d : Date) : Nat × Nat × Nat := (d.year, d.month, d.day)
def quadT (t : Time) : Nat × Nat × Nat × Nat := (t.hour, t.min, t.sec, t.millis)

/-- the row the session can report of a library `DirEntry`: every accessor (`long_file_name_as_ucs2_units`,
    `short_file_name_as_bytes`, `lowercase_name` = the fallback of `file_name()`, `is_dir`, `attributes`, `len`,
    `first_cluster`, `created`, `accessed`, `modified`) and the slot range -/
def libRow (ft : FatType) (e : DirEntry) : DirSpec.Row :=
  { longName := if e.lfn.length > 0 then some e.lfn else none
    shortName := e.shortDisplay
    shortNameNT := e.data.lowercaseName.asBytes
    isDir := e.isDir
    attrs := e.data.attrs
    size := e.data.size
    firstCluster := e.data.firstCluster ft
    created := (tripleD e.data.created.date, quadT e.data.created.time)
    accessed := tripleD e.data.accessed
    modified := (tripleD e.data.modified.date, quadT e.data.modified.time)
    beginIdx := e.rangeBegin / 32
    endIdx := e.rangeEnd / 32 }

/-- `file_name()` is determined by the row: the long name decoded lossily, else the NT-cased short name through the
    lossy OEM converter -/
theorem fileName_of_row (ft : FatType) (e : DirEntry) :
    Session.fileName e =
      match (libRow ft e).longName with
      | some u => String.ofList (Session.utf16Lossy u)
      | none => String.ofList ((libRow ft e).shortNameNT.map fun b => Char.ofNat (ShortName.lossyDecode b)) := by
  unfold Session.fileName libRow
  by_cases h : e.lfn.length > 0 <;> simp [h]

/-! ### byte accessors -/

theorem spec_b (s : List Nat) (i : Nat) : DirSpec.b s i = DirEntryData.u8At s i := rfl
theorem spec_w (s : List Nat) (i : Nat) : DirSpec.w s i = DirEntryData.u16At s i := rfl
theorem spec_d32 (s : List Nat) (i : Nat) : DirSpec.d32 s i = DirEntryData.u32At s i := by
  unfold DirSpec.d32 DirEntryData.u32At le32 DirSpec.b; rfl

theorem spec_shortName_take (s : List Nat) (h : 11 ≤ s.length) : DirSpec.shortName s = s.take 11 := by
  apply Lfn.ext_getD _ _ 0 (by simp [DirSpec.shortName]; omega)
  intro i hi
  simp only [DirSpec.shortName, List.length_map, List.length_range] at hi
  simp [DirSpec.shortName, DirSpec.b, List.getD_eq_getElem?_getD, hi]

theorem spec_displayShort (raw : List Nat) : DirSpec.displayShort raw = specShortName raw := rfl

theorem spec_displayShortNT (flags : Nat) (raw : List Nat) :
    DirSpec.displayShortNT flags raw = specLowercaseName flags raw := rfl

theorem isDir_table : ∀ a, a < 64 → attrContains a ATTR_DIRECTORY = (a / 16 % 2 == 1) := by decide +kernel

theorem isDir_spec (x : Nat) : attrContains (attrsTruncate x) ATTR_DIRECTORY = (x % 64 / 16 % 2 == 1) := by
  rw [attrsTruncate_eq]
  exact isDir_table _ (Nat.mod_lt _ (by decide))

theorem date_spec (raw : Nat) : tripleD (Date.decode raw) = DirSpec.specDate raw := by
  simp [tripleD, Date.decode, DirSpec.specDate, Nat.add_comm]

theorem time_spec (raw hi : Nat) : quadT (Time.decode raw hi) = DirSpec.specTime raw hi := by
  simp [quadT, Time.decode, DirSpec.specTime, Nat.mul_comm]

/-- **one entry**: the accessors of the `DirEntry` the library builds from a 32-byte short slot and the collected long
    name show the specification's row of that slot -/
theorem libRow_toDirEntryS (ft : FatType) (src : Nat → Nat) (e : DirSpec.SpecEntry) (hlen : 11 ≤ e.sfn.length) :
    libRow ft (toDirEntryS src ⟨e.sfn, e.name.getD [], e.beginIdx, e.endIdx⟩) = DirSpec.rowOf (ft == .fat32) e := by
  have hname : (DirEntryData.deserializeFile e.sfn (attrsTruncate (DirEntryData.u8At e.sfn 11))).name.length = 11 := by
    simp [DirEntryData.deserializeFile]; omega
  unfold libRow DirSpec.rowOf toDirEntryS
  rw [DirSpec.Row.mk.injEq]
  refine ⟨?_, ?_, ?_, ?_, ?_, ?_, ?_, ?_, ?_, ?_, ?_, ?_⟩
  · -- long name
    show (if (e.name.getD []).length > 0 then some (e.name.getD []) else none) = e.name
    cases hn : e.name with
    | none => simp
    | some n =>
      have : 1 ≤ n.length := by
        unfold DirSpec.SpecEntry.name at hn
        split at hn
        · cases hn
        · split at hn
          · rename_i h; cases hn; exact h.1
          · cases hn
      simp only [Option.getD_some]
      rw [if_pos (by omega)]
  · show shortDisplay (e.sfn.take 11) = _
    rw [spec_shortName_take _ hlen, spec_displayShort]
    exact shortName_spec _ (by simp; omega)
  · show (DirEntryData.deserializeFile e.sfn (attrsTruncate (DirEntryData.u8At e.sfn 11))).lowercaseName.asBytes = _
    rw [spec_shortName_take _ hlen, spec_displayShortNT, lowercaseName_spec _ hname]
    rfl
  · exact isDir_spec _
  · exact attrsTruncate_eq _
  · exact (spec_d32 _ _).symm
  · show (DirEntryData.deserializeFile e.sfn (attrsTruncate (DirEntryData.u8At e.sfn 11))).firstCluster ft = _
    unfold DirFileEntryData.firstCluster DirFileEntryData.firstClusterRaw DirSpec.firstClusterOf
    cases ft <;> simp [DirEntryData.deserializeFile, spec_w]
  · show (tripleD (Date.decode (DirEntryData.u16At e.sfn 16)), quadT (Time.decode (DirEntryData.u16At e.sfn 14) (DirEntryData.u8At e.sfn 13))) = _
    rw [date_spec, time_spec]; rfl
  · show tripleD (Date.decode (DirEntryData.u16At e.sfn 18)) = _
    rw [date_spec]; rfl
  · show (tripleD (Date.decode (DirEntryData.u16At e.sfn 24)), quadT (Time.decode (DirEntryData.u16At e.sfn 22) 0)) = _
    rw [date_spec, time_spec]; rfl
  · show 32 * e.beginIdx / 32 = e.beginIdx
    omega
  · show 32 * e.endIdx / 32 = e.endIdx
    omega

theorem libRow_toDirEntry (ft : FatType) (B : Nat) (e : DirSpec.SpecEntry) (hlen : 11 ≤ e.sfn.length) :
    libRow ft (toDirEntry B ⟨e.sfn, e.name.getD [], e.beginIdx, e.endIdx⟩) = DirSpec.rowOf (ft == .fat32) e := by
  have := libRow_toDirEntryS ft (fun o => B + o) e hlen
  unfold libRow at this ⊢
  exact this

/-! ### the short slot of a specification entry is one of the slots -/

theorem specLoop_sfn_mem (sv : Bool) : ∀ (slots : List (List Nat)) (idx : Nat) (pend : List (List Nat)),
    ∀ e ∈ DirSpec.specLoop sv slots idx pend, e.sfn ∈ slots := by
  intro slots
  induction slots with
  | nil => intro _ _ e he; simp [DirSpec.specLoop] at he
  | cons s rest ih =>
    intro idx pend e he
    unfold DirSpec.specLoop at he
    split at he
    · simp at he
    · split at he
      · exact List.mem_cons_of_mem _ (ih _ _ e he)
      · split at he
        · exact List.mem_cons_of_mem _ (ih _ _ e he)
        · split at he
          · exact List.mem_cons_of_mem _ (ih _ _ e he)
          · rcases List.mem_cons.1 he with rfl | he
            · simp
            · exact List.mem_cons_of_mem _ (ih _ _ e he)

theorem specEntries_sfn_mem (sv : Bool) (slots : List (List Nat)) : ∀ e ∈ DirSpec.specEntries sv slots, e.sfn ∈ slots :=
  specLoop_sfn_mem sv slots 0 []

/-- **a whole listing**: the pure reader's entries, turned into library entries, show the specification's rows —
    whenever every slot has (at least) its 11 name bytes -/
theorem rows_agree (ft : FatType) (src : Nat → Nat) (slots : List (List Nat)) (hlen : ∀ s ∈ slots, 11 ≤ s.length) :
    ((DirSlots.listing slots).map (toDirEntryS src)).map (libRow ft) = DirSpec.specRows (ft == .fat32) slots := by
  unfold DirSlots.listing DirSpec.specRows
  rw [dirIter_spec true true slots, List.map_map, List.map_map]
  apply List.map_congr_left
  intro e he
  exact libRow_toDirEntryS ft src e (hlen _ (specEntries_sfn_mem true slots e he))

theorem rows_agree_root (ft : FatType) (B : Nat) (slots : List (List Nat)) (hlen : ∀ s ∈ slots, 11 ≤ s.length) :
    ((DirSlots.listing slots).map (toDirEntry B)).map (libRow ft) = DirSpec.specRows (ft == .fat32) slots := by
  unfold DirSlots.listing DirSpec.specRows
  rw [dirIter_spec true true slots, List.map_map, List.map_map]
  apply List.map_congr_left
  intro e he
  exact libRow_toDirEntry ft B e (hlen _ (specEntries_sfn_mem true slots e he))

/-! ### the slots read from an image are 32 bytes long -/

theorem rootDirSlots_len32 (fs : FsState) (img : Img) : ∀ s ∈ rootDirSlots fs img, s.length = 32 := by
  intro s hs
  unfold rootDirSlots rootSlots at hs
  obtain ⟨j, _, rfl⟩ := List.mem_map.1 hs
  exact Img.read_length _ _ _

theorem chainSlots_len32 (fs : FsState) (img : Img) (chain : List Nat) : ∀ s ∈ chainSlots fs img chain, s.length = 32 := by
  intro s hs
  unfold chainSlots at hs
  obtain ⟨c, _, hs⟩ := List.mem_flatMap.1 hs
  obtain ⟨j, _, rfl⟩ := List.mem_map.1 hs
  exact Img.read_length _ _ _

end FatVerif.DecodeAgree
