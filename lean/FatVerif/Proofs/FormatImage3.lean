import FatVerif.Proofs.FormatImage2
/-! C06 image part, 3: segments of the write log; the FAT-slice phases stay inside the FAT window. -/
namespace FatVerif

/-- the write records appended between `d` and `d'` are exactly `L` (newest first) -/
def Seg (d d' : Dev) (L : List LogItem) : Prop := d'.writesOf = L ++ d.writesOf

theorem Seg.refl (d : Dev) : Seg d d [] := rfl

theorem Seg.of_log_eq {d d' : Dev} (h : d'.log = d.log) : Seg d d' [] := by
  unfold Seg Dev.writesOf; rw [h]; rfl

theorem Seg.trans {a b c : Dev} {L1 L2 : List LogItem} (h1 : Seg a b L1) (h2 : Seg b c L2) : Seg a c (L2 ++ L1) := by
  unfold Seg at *; rw [h2, h1, List.append_assoc]

theorem Tiled.seg {d d' : Dev} {bs : List Nat} (h : Tiled d d' bs) :
    ∃ items, Pieces d.pos bs items ∧ Seg d d' items.reverse := by
  obtain ⟨items, hl, hp, _⟩ := h
  refine ⟨items, hp, ?_⟩
  unfold Seg Dev.writesOf
  rw [hl, List.filter_append]
  congr 1
  apply List.filter_eq_self.mpr
  intro it hit
  exact hp.all_write it (List.mem_reverse.mp hit)

/-- all records of `L` lie inside `[lo, hi)` -/
def Within (lo hi : Nat) (L : List LogItem) : Prop :=
  ∀ off bs, LogItem.write off bs ∈ L → lo ≤ off ∧ off + bs.length ≤ hi

theorem Within.nil (lo hi : Nat) : Within lo hi [] := by intro _ _ h; cases h

theorem Within.append {lo hi : Nat} {a b : List LogItem} (h1 : Within lo hi a) (h2 : Within lo hi b) :
    Within lo hi (a ++ b) := by
  intro off bs hm
  rcases List.mem_append.mp hm with h | h
  · exact h1 _ _ h
  · exact h2 _ _ h

theorem Within.mono {lo hi lo' hi' : Nat} {L : List LogItem} (h : Within lo hi L) (h1 : lo' ≤ lo) (h2 : hi ≤ hi') :
    Within lo' hi' L := by
  intro off bs hm
  have := h _ _ hm
  omega

theorem Within.of_pieces {p : Nat} {bs : List Nat} {items : List LogItem} (h : Pieces p bs items) :
    Within p (p + bs.length) items.reverse := by
  intro off b hm
  exact h.within off b (List.mem_reverse.mp hm)

/-- records inside `[lo, hi)` do not cover a point outside -/
theorem Within.skip {lo hi : Nat} {L : List LogItem} (h : Within lo hi L) (g : Nat → Nat) (rest : List LogItem) (x : Nat)
    (hx : x < lo ∨ hi ≤ x) : replay g (L ++ rest) x = replay g rest x := by
  apply replay_skip
  intro off bs hm hc
  have := h _ _ hm
  omega

/-- a `MirroredSeq` over a slice on the raw device appends only records inside the window of the copies -/
theorem MirroredSeq.within {s0 : DiskSlice} {d d' : Dev} (h : MirroredSeq s0 d d') (hv : s0.viaFs = false) :
    ∃ L, Seg d d' L ∧ Within s0.beginOff (s0.beginOff + s0.mirrors * s0.size) L := by
  induction h with
  | refl d => exact ⟨[], Seg.refl _, Within.nil _ _⟩
  | quiet hq _ ih =>
    obtain ⟨L, h1, h2⟩ := ih
    refine ⟨L, ?_, h2⟩
    unfold Seg at *; rw [h1, hq.1]
  | write hw _ ih =>
    obtain ⟨L, h1, h2⟩ := ih
    obtain ⟨rel, data, k, hne, hfit, hk, hfs, hwr⟩ := hw
    have hst : ∀ fs, statusExtra s0.viaFs fs = [] := by
      intro fs; unfold statusExtra; rw [hv]; simp
    rw [hst] at hwr
    refine ⟨L ++ (mirrorLog (s0.beginOff + rel) s0.size data k 1 ++ [.write (s0.beginOff + rel) data]), ?_, ?_⟩
    · unfold Seg at *; rw [h1, hwr]; simp
    · refine h2.append ?_
      intro off bs hm
      rcases List.mem_append.mp hm with hm | hm
      · obtain ⟨j, hj, he⟩ := (mem_mirrorLog k 1 _).mp hm
        simp only [LogItem.write.injEq] at he
        obtain ⟨rfl, rfl⟩ := he
        have := mirror_bound (b := s0.beginOff) (o := rel) (z := s0.size) (m := s0.mirrors) (j := 1 + j)
          (w := bs.length) (sz := s0.beginOff + s0.mirrors * s0.size) (by omega) hfit (Nat.le_refl _)
        constructor
        · omega
        · omega
      · simp only [List.mem_singleton, LogItem.write.injEq] at hm
        obtain ⟨rfl, rfl⟩ := hm
        have := mirror_bound (b := s0.beginOff) (o := rel) (z := s0.size) (m := s0.mirrors) (j := 0)
          (w := bs.length) (sz := s0.beginOff + s0.mirrors * s0.size) (by omega) hfit (Nat.le_refl _)
        constructor
        · omega
        · omega

end FatVerif
