import FatVerif.Proofs.FileSimFatSet
/-!
# FileSim, part 11: `find_free_cluster` on the FAT slice = the view-level scan `findFreeV` of the decoded FAT
-/
namespace FatVerif.FileSim
open FatVerif FatVerif.Fat

section
variable {fs : FsState} {sz : Nat}

theorem tabView_free_iff16 (g : Geo fs sz) (img : Img) (hft : fs.fatType = .fat16) {c : Nat}
    (hc : c < fs.totalClusters + 2) :
    tabView fs img c = .free ↔ img.le16 ((fatSliceOf fs).beginOff + c * 2) = 0 := by
  have hin := g.inRange img hc
  rw [tabView_eq_view g img hc]
  rw [hft] at hin ⊢
  rw [view16_free_iff hin, rd16_fatArr fs img _ (by
    have := hin.1; simp only [off, width, fatArr_size] at this; exact this)]

theorem tabView_free_iff32 (g : Geo fs sz) (img : Img) (hft : fs.fatType = .fat32) {c : Nat}
    (hc : c < fs.totalClusters + 2) :
    tabView fs img c = .free ↔ img.le32 ((fatSliceOf fs).beginOff + c * 4) % 268435456 = 0 := by
  have hin := g.inRange img hc
  have hpl := (g.tableOk img).plain hc
  rw [tabView_eq_view g img hc]
  rw [hft] at hin hpl ⊢
  rw [view32_free_iff hpl, rd32_fatArr fs img _ (by
    have := hin.1; simp only [off, width, fatArr_size] at this; exact this)]

theorem tabView_free_iff12 (g : Geo fs sz) (img : Img) (hft : fs.fatType = .fat12) {c : Nat}
    (hc : c < fs.totalClusters + 2) :
    tabView fs img c = .free ↔ val12 c (img.le16 ((fatSliceOf fs).beginOff + (c + c / 2))) = 0 := by
  have hin := g.inRange img hc
  rw [tabView_eq_view g img hc]
  rw [hft] at hin ⊢
  rw [view12_free_iff hin, rd16_fatArr fs img _ (by
    have := hin.1; simp only [off, width, fatArr_size] at this; exact this)]

end

/-- outcome of a scan: the cluster found (and a FAT slice), or `NotEnoughSpace` -/
def ScanOut (fs : FsState) (d' : Dev) (found : Option Nat) (r : Except Err (Nat × DiskSlice) × Dev) : Prop :=
  match found with
  | some c => ∃ s', r = (.ok (c, s'), d') ∧ IsFatSlice fs s'
  | none => r = (.error .noSpace, d')

/-- the FAT16 / FAT32 scan loop, the slice positioned at entry `c` -/
theorem run_findFreeLoop (fs : FsState) (img : Img) (hg : Geo fs img.size) (hft : fs.fatType ≠ .fat12) :
    ∀ (fuel : Nat) (s : DiskSlice) (c endC : Nat) (d : Dev), IsFatSlice fs s → s.offset = entOff fs.fatType c →
      endC ≤ fs.totalClusters + 2 → endC - c + 1 ≤ fuel → d.failAt = none → d.img = img →
      ∃ d', SameStore d d' ∧ ScanOut fs d' (findFreeV (tabView fs img) c (endC - c))
        (run (Table.findFreeLoop DiskSlice.strm fs.fatType fuel s c endC) d) := by
  intro fuel
  induction fuel with
  | zero => intro s c endC d _ _ _ hf; omega
  | succ k ih =>
    intro s c endC d hs hoff hend hfuel hfa himg
    obtain ⟨hb, hsz, hm, hvf⟩ := hs
    unfold Table.findFreeLoop
    by_cases hc : c < endC
    · rw [if_pos hc]
      have hct : c < fs.totalClusters + 2 := by omega
      have hfit := hg.ents c hct
      have hfdev := hg.fat_dev
      obtain ⟨n, hn⟩ : ∃ n, endC - c = n + 1 := ⟨endC - c - 1, by omega⟩
      have hn' : endC - (c + 1) = n := by omega
      rw [hn]
      -- the value read and the slice afterwards
      have hread : ∃ d1 v, run (if fs.fatType = FatType.fat16 then readU16 DiskSlice.strm s else do
            let (r, s) ← readU32 DiskSlice.strm s
            pure (r % 0x10000000, s)) d =
          (.ok (v, { s with offset := entOff fs.fatType (c + 1) }), d1) ∧ SameStore d d1 ∧
          (v = 0 ↔ tabView fs img c = .free) := by
        cases hft' : fs.fatType with
        | fat12 => exact absurd hft' hft
        | fat16 =>
          rw [hft'] at hoff hfit
          simp only [entOff, entWidth] at hoff hfit
          obtain ⟨d1, h1, hs1⟩ := run_slice_readU16 s d hfa (by rw [hoff, hsz]; exact hfit)
            (by rw [hb, hsz, himg]; exact hfdev)
          refine ⟨d1, d.img.le16 (s.beginOff + s.offset), ?_, hs1, ?_⟩
          · have e : s.offset + 2 = (c + 1) * 2 := by omega
            rw [if_pos rfl, h1, e]
            rfl
          · rw [tabView_free_iff16 hg img hft' hct, himg, hb, hoff]
        | fat32 =>
          rw [hft'] at hoff hfit
          simp only [entOff, entWidth] at hoff hfit
          obtain ⟨d1, h1, hs1⟩ := run_slice_readU32 s d hfa (by rw [hoff, hsz]; exact hfit)
            (by rw [hb, hsz, himg]; exact hfdev)
          refine ⟨d1, d.img.le32 (s.beginOff + s.offset) % 268435456, ?_, hs1, ?_⟩
          · have e : s.offset + 4 = (c + 1) * 4 := by omega
            rw [if_neg (by intro h; cases h), run_bind_ok h1, e]
            rfl
          · rw [tabView_free_iff32 hg img hft' hct, himg, hb, hoff]
      obtain ⟨d1, v, hr, hs1, hv⟩ := hread
      rw [run_bind_ok hr]
      simp only
      unfold findFreeV
      by_cases hv0 : v = 0
      · rw [if_pos hv0, if_pos (hv.mp hv0)]
        exact ⟨d1, hs1, _, rfl, ⟨hb, hsz, hm, hvf⟩⟩
      · rw [if_neg hv0, if_neg (fun h => hv0 (hv.mpr h))]
        obtain ⟨d2, hs2, hout⟩ := ih { s with offset := entOff fs.fatType (c + 1) } (c + 1) endC d1
          ⟨hb, hsz, hm, hvf⟩ rfl hend (by omega) (by rw [hs1.failAt]; exact hfa) (by rw [hs1.img]; exact himg)
        rw [hn'] at hout
        exact ⟨d2, hs1.trans hs2, hout⟩
    · rw [if_neg hc]
      have : endC - c = 0 := by omega
      rw [this]
      exact ⟨d, SameStore.refl d, rfl⟩

theorem or_mul256 (x b : Nat) (hx : x < 256) : x ||| b * 256 = x + b * 256 := by
  have := Nat.shiftLeft_add_eq_or_of_lt (i := 8) (b := x) (by simpa using hx) b
  rw [Nat.shiftLeft_eq] at this
  simp only [Nat.reducePow] at this
  rw [Nat.or_comm, ← this, Nat.add_comm]

theorem run_slice_readU8 (s : DiskSlice) (d : Dev) (h : d.failAt = none)
    (hfit : s.offset + 1 ≤ s.size) (hdev : s.beginOff + s.size ≤ d.img.size) :
    ∃ d', run (readU8 DiskSlice.strm s) d =
      (.ok (d.img.getByte (s.beginOff + s.offset), { s with offset := s.offset + 1 }), d') ∧ SameStore d d' := by
  obtain ⟨d1, h1, hs1⟩ := run_slice_readExact s 1 d h hfit hdev
  refine ⟨d1, ?_, hs1⟩
  unfold readU8
  rw [run_bind_ok h1]
  simp only [run_pure, Img.read_getD _ _ _ _ (show 0 < 1 by omega)]
  rfl

/-- the FAT12 scan loop: `packed` is the 16-bit window at entry `c`, the slice stands right after it -/
theorem run_findFree12Loop (fs : FsState) (img : Img) (hg : Geo fs img.size) (hft : fs.fatType = .fat12) :
    ∀ (fuel : Nat) (s : DiskSlice) (c endC packed : Nat) (d : Dev), IsFatSlice fs s →
      s.offset = c + c / 2 + 2 → packed = img.le16 ((fatSliceOf fs).beginOff + (c + c / 2)) →
      c < endC → endC ≤ fs.totalClusters + 2 → endC - c + 1 ≤ fuel → d.failAt = none → d.img = img →
      ∃ d', SameStore d d' ∧ ScanOut fs d' (findFreeV (tabView fs img) c (endC - c))
        (run (Table.findFree12Loop DiskSlice.strm fuel s c endC packed) d) := by
  intro fuel
  induction fuel with
  | zero => intro s c endC packed d _ _ _ _ _ hf; omega
  | succ k ih =>
    intro s c endC packed d hs hoff hpk hc hend hfuel hfa himg
    obtain ⟨hb, hsz, hm, hvf⟩ := hs
    have hct : c < fs.totalClusters + 2 := by omega
    have hfdev := hg.fat_dev
    obtain ⟨n, hn⟩ : ∃ n, endC - c = n + 1 := ⟨endC - c - 1, by omega⟩
    have hn' : endC - (c + 1) = n := by omega
    have hfree := tabView_free_iff12 hg img hft hct
    rw [← hpk] at hfree
    unfold Table.findFree12Loop
    rw [hn]
    unfold findFreeV
    show ∃ d', _ ∧ ScanOut fs d' _ (run (if val12 c packed = 0 then _ else _) d)
    by_cases hv0 : val12 c packed = 0
    · rw [if_pos hv0, if_pos (hfree.mpr hv0)]
      exact ⟨d, SameStore.refl d, _, rfl, ⟨hb, hsz, hm, hvf⟩⟩
    · rw [if_neg hv0, if_neg (fun h => hv0 (hfree.mp h))]
      simp only
      by_cases hlast : c + 1 = endC
      · rw [if_pos hlast]
        have : n = 0 := by omega
        subst this
        exact ⟨d, SameStore.refl d, rfl⟩
      · rw [if_neg hlast]
        have hc1 : c + 1 < fs.totalClusters + 2 := by omega
        have hfit1 := hg.ents (c + 1) hc1
        rw [hft] at hfit1
        simp only [entOff, entWidth] at hfit1
        by_cases hev : (c + 1) % 2 = 0
        · rw [if_pos hev]
          have hpos : s.offset = (c + 1) + (c + 1) / 2 := by omega
          obtain ⟨d1, h1, hs1⟩ := run_slice_readU16 s d hfa (by rw [hpos, hsz]; exact hfit1)
            (by rw [hb, hsz, himg]; exact hfdev)
          rw [run_bind_ok h1]
          simp only
          obtain ⟨d2, hs2, hout⟩ := ih { s with offset := s.offset + 2 } (c + 1) endC
            (d.img.le16 (s.beginOff + s.offset)) d1 ⟨hb, hsz, hm, hvf⟩ (by show s.offset + 2 = _; omega)
            (by rw [himg, hb, hpos]) (by omega) hend (by omega) (by rw [hs1.failAt]; exact hfa)
            (by rw [hs1.img]; exact himg)
          rw [hn'] at hout
          exact ⟨d2, hs1.trans hs2, hout⟩
        · rw [if_neg hev]
          obtain ⟨d1, h1, hs1⟩ := run_slice_readU8 s d hfa (by rw [hoff, hsz]; omega)
            (by rw [hb, hsz, himg]; exact hfdev)
          rw [run_bind_ok h1]
          simp only
          obtain ⟨d2, hs2, hout⟩ := ih { s with offset := s.offset + 1 } (c + 1) endC
            (packed / 256 ||| d.img.getByte (s.beginOff + s.offset) * 256) d1 ⟨hb, hsz, hm, hvf⟩
            (by show s.offset + 1 = _; omega)
            (by
              have hlt : packed / 256 < 256 := by
                rw [hpk]; unfold Img.le16
                have := getByte_lt' img ((fatSliceOf fs).beginOff + (c + c / 2))
                have := getByte_lt' img ((fatSliceOf fs).beginOff + (c + c / 2) + 1)
                omega
              rw [or_mul256 _ _ hlt, hpk, himg, hb, hoff]
              unfold Img.le16
              have h0 := getByte_lt' img ((fatSliceOf fs).beginOff + (c + c / 2))
              have e1 : (fatSliceOf fs).beginOff + (c + 1 + (c + 1) / 2) =
                  (fatSliceOf fs).beginOff + (c + c / 2) + 1 := by omega
              have e2 : (fatSliceOf fs).beginOff + (c + c / 2 + 2) =
                  (fatSliceOf fs).beginOff + (c + c / 2) + 1 + 1 := by omega
              rw [e1, e2]
              omega)
            (by omega) hend (by omega) (by rw [hs1.failAt]; exact hfa) (by rw [hs1.img]; exact himg)
          rw [hn'] at hout
          exact ⟨d2, hs1.trans hs2, hout⟩

end FatVerif.FileSim
