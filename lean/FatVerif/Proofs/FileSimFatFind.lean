import FatVerif.Proofs.FileSimFatSet
/-!
# FileSim, part 11: `find_free_cluster` on the FAT slice = the view-level scan `findFreeV` of the decoded FAT
-/
namespace FatVerif.FileSim
open FatVerif FatVerif.Fat

section
variable {fs : FsState} {sz : Nat}

theorem tabView_free_iff16 (g : Geo fs sz) (img : Img) (hft : fs.fatType = .fat16) {c : Nat}
    (hc : c < fs.totalClusters + 2) :
    tabView fs img c = .free ↔ img.le16 ((fatSliceOf fs).beginOff + c * 2) = 0 := by
  have hin := g.inRange img hc
  rw [tabView_eq_view g img hc]
  rw [hft] at hin ⊢
  rw [view16_free_iff hin, rd16_fatArr fs img _ (by
    have := hin.1; simp only [off, width, fatArr_size] at this; exact this)]

theorem tabView_free_iff32 (g : Geo fs sz) (img : Img) (hft : fs.fatType = .fat32) {c : Nat}
    (hc : c < fs.totalClusters + 2) :
    tabView fs img c = .free ↔ img.le32 ((fatSliceOf fs).beginOff + c * 4) % 268435456 = 0 := by
  have hin := g.inRange img hc
  have hpl := (g.tableOk img).plain hc
  rw [tabView_eq_view g img hc]
  rw [hft] at hin hpl ⊢
  rw [view32_free_iff hpl, rd32_fatArr fs img _ (by
    have := hin.1; simp only [off, width, fatArr_size] at this; exact this)]

theorem tabView_free_iff12 (g : Geo fs sz) (img : Img) (hft : fs.fatType = .fat12) {c : Nat}
    (hc : c < fs.totalClusters + 2) :
    tabView fs img c = .free ↔ val12 c (img.le16 ((fatSliceOf fs).beginOff + (c + c / 2))) = 0 := by
  have hin := g.inRange img hc
  rw [tabView_eq_view g img hc]
  rw [hft] at hin ⊢
  rw [view12_free_iff hin, rd16_fatArr fs img _ (by
    have := hin.1; simp only [off, width, fatArr_size] at this; exact this)]

end

/-- outcome of a scan: the cluster found (and a FAT slice), or `NotEnoughSpace` -/
def ScanOut (fs : FsState) (d' : Dev) (found : Option Nat) (r : Except Err (Nat × DiskSlice) × Dev) : Prop :=
  match found with
  | some c => ∃ s', r = (.ok (c, s'), d') ∧ IsFatSlice fs s'
  | none => r = (.error .noSpace, d')

/-- the FAT16 / FAT32 scan loop, the slice positioned at entry `c` -/
theorem run_findFreeLoop (fs : FsState) (img : Img) (hg : Geo fs img.size) (hft : fs.fatType ≠ .fat12) :
    ∀ (fuel : Nat) (s : DiskSlice) (c endC : Nat) (d : Dev), IsFatSlice fs s → s.offset = entOff fs.fatType c →
      endC ≤ fs.totalClusters + 2 → endC - c + 1 ≤ fuel → d.failAt = none → d.img = img →
      ∃ d', SameStore d d' ∧ ScanOut fs d' (findFreeV (tabView fs img) c (endC - c))
        (run (Table.findFreeLoop DiskSlice.strm fs.fatType fuel s c endC) d) := by
  intro fuel
  induction fuel with
  | zero => intro s c endC d _ _ _ hf; omega
  | succ k ih =>
    intro s c endC d hs hoff hend hfuel hfa himg
    obtain ⟨hb, hsz, hm, hvf⟩ := hs
    unfold Table.findFreeLoop
    by_cases hc : c < endC
    · rw [if_pos hc]
      have hct : c < fs.totalClusters + 2 := by omega
      have hfit := hg.ents c hct
      have hfdev := hg.fat_dev
      obtain ⟨n, hn⟩ : ∃ n, endC - c = n + 1 := ⟨endC - c - 1, by omega⟩
      have hn' : endC - (c + 1) = n := by omega
      rw [hn]
      -- the value read and the slice afterwards
      have hread : ∃ d1 v, run (if fs.fatType = FatType.fat16 then readU16 DiskSlice.strm s else do
            let (r, s) ← readU32 DiskSlice.strm s
            pure (r % 0x10000000, s)) d =
          (.ok (v, { s with offset := entOff fs.fatType (c + 1) }), d1) ∧ SameStore d d1 ∧
          (v = 0 ↔ tabView fs img c = .free) := by
        cases hft' : fs.fatType with
        | fat12 => exact absurd hft' hft
        | fat16 =>
          rw [hft'] at hoff hfit
          simp only [entOff, entWidth] at hoff hfit
          obtain ⟨d1, h1, hs1⟩ := run_slice_readU16 s d hfa (by rw [hoff, hsz]; exact hfit)
            (by rw [hb, hsz, himg]; exact hfdev)
          refine ⟨d1, d.img.le16 (s.beginOff + s.offset), ?_, hs1, ?_⟩
          · have e : s.offset + 2 = (c + 1) * 2 := by omega
            rw [if_pos rfl, h1, e]
            rfl
          · rw [tabView_free_iff16 hg img hft' hct, himg, hb, hoff]
        | fat32 =>
          rw [hft'] at hoff hfit
          simp only [entOff, entWidth] at hoff hfit
          obtain ⟨d1, h1, hs1⟩ := run_slice_readU32 s d hfa (by rw [hoff, hsz]; exact hfit)
            (by rw [hb, hsz, himg]; exact hfdev)
          refine ⟨d1, d.img.le32 (s.beginOff + s.offset) % 268435456, ?_, hs1, ?_⟩
          · have e : s.offset + 4 = (c + 1) * 4 := by omega
            rw [if_neg (by intro h; cases h), run_bind_ok h1, e]
            rfl
          · rw [tabView_free_iff32 hg img hft' hct, himg, hb, hoff]
      obtain ⟨d1, v, hr, hs1, hv⟩ := hread
      rw [run_bind_ok hr]
      simp only
      unfold findFreeV
      by_cases hv0 : v = 0
      · rw [if_pos hv0, if_pos (hv.mp hv0)]
        exact ⟨d1, hs1, _, rfl, ⟨hb, hsz, hm, hvf⟩⟩
      · rw [if_neg hv0, if_neg (fun h => hv0 (hv.mpr h))]
        obtain ⟨d2, hs2, hout⟩ := ih { s with offset := entOff fs.fatType (c + 1) } (c + 1) endC d1
          ⟨hb, hsz, hm, hvf⟩ rfl hend (by omega) (by rw [hs1.failAt]; exact hfa) (by rw [hs1.img]; exact himg)
        rw [hn'] at hout
        exact ⟨d2, hs1.trans hs2, hout⟩
    · rw [if_neg hc]
      have : endC - c = 0 := by omega
      rw [this]
      exact ⟨d, SameStore.refl d, rfl⟩

end FatVerif.FileSim
