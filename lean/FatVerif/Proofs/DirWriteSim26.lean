import FatVerif.Proofs.DirWriteSim25
/-! Directory WRITES, part 26: the allocation step of `create_dir` (`alloc_cluster(None, true)`) and what it leaves of
    the directory invariants; slot-list helpers for the fresh one-cluster directory. -/
namespace FatVerif.DirSim
open FatVerif.FileSim FatVerif.Fat DirEntryData DirAlias

/-- what a successful `alloc_cluster(None, true)` with result `c` leaves of the device -/
structure AllocStep (d d' : Dev) (c : Nat) : Prop where
  step : DevStep d d'
  range : 2 ≤ c ∧ c < d.fs.totalClusters + 2
  wasFree : tabView d.fs d.img c = .free
  tv : tabView d'.fs d'.img = updV (tabView d.fs d.img) c .eoc
  dirty : d'.fs.curDirty = true
  info : InfoOk d'.fs d'.img
  fs : d'.fs = { markedFs d.fs with fsInfo := ({ d.fs.fsInfo with
        next := some (hintAfter d.fs.totalClusters c), dirty := true }).mapFree (· - 1) }
  zero : ∀ q, clusterOff d.fs c ≤ q → q < clusterOff d.fs c + d.fs.clusterSize → d'.img.getByte q = 0
  frame : ∀ q, 0x42 ≤ q → OutsideFat d.fs q → ¬ (clusterOff d.fs c ≤ q ∧ q < clusterOff d.fs c + d.fs.clusterSize) →
    d'.img.getByte q = d.img.getByte q

/-- forward evaluation of the allocation step of `create_dir` -/
theorem run_alloc_step (c : Nat) (d : Dev) (hfa : d.failAt = none) (hwf : d.img.WF) (hgeo : Geo d.fs d.img.size)
    (hinfo : InfoOk d.fs d.img)
    (hfind : allocFindV (tabView d.fs d.img) d.fs.fsInfo.next d.fs.totalClusters = some c) :
    ∃ d', run (allocClusterFs none true) d = (.ok c, d') ∧ AllocStep d d' c := by
  rcases run_allocClusterFs_any none true d hfa hwf hgeo hinfo (fun p h => by cases h) with
    ⟨hnone, _⟩ | ⟨c', d', hsome, hr, hst, hfs, htv, hinfo', hz, hfr⟩
  · rw [hnone] at hfind; cases hfind
  · rw [hsome] at hfind
    cases hfind
    obtain ⟨h2, hlt, hfree⟩ := allocFindV_some _ _ _ _ hinfo.hint hsome
    exact ⟨d', hr, hst, ⟨h2, hlt⟩, hfree, htv, by rw [hfs]; exact markedFs_curDirty _, hinfo', hfs, hz rfl,
      fun q hq ho hn => hfr q hq ho (fun _ => hn)⟩

/-! ### the invariants survive the allocation step -/

theorem RootInv.of_alloc {fs0 : FsState} {s : DiskSlice} {N : Nat} {d d1 d2 : Dev} {c : Nat}
    (h : RootInv fs0 s N d) (hv : SameVol d d1) (ha : AllocStep d1 d2 c) : RootInv fs0 s N d2 :=
  ⟨by rw [ha.step.failAt, hv.failAt]; exact h.noFault, by rw [ha.step.size, hv.img]; exact h.inside,
   ha.step.wf (by rw [hv.img]; exact h.wf), (show FsGeomEq fs0 d1.fs by rw [hv.fs]; exact h.geom).trans ha.step.geom,
   h.fuel⟩

theorem ChainCore.of_alloc {d1 d2 : Dev} {f0 : FileH} {c0 : Nat} {chain : List Nat} {c : Nat}
    (C : ChainCore d1 f0 c0 chain) (ha : AllocStep d1 d2 c) (hc : c ∉ chain) : ChainCore d2 f0 c0 chain :=
  ⟨by rw [ha.step.failAt]; exact C.failAt, by rw [ha.step.size]; exact C.geo.frame ha.step.geom, C.first,
   by rw [ha.tv]; exact chain_updV_other _ _ _ _ _ C.link hc, by rw [ha.step.geom.totalClusters]; exact C.inTab, C.nosize,
   by rw [ha.step.geom.accDate]; exact C.noacc, by rw [ha.step.geom.clusterSize]; exact C.cs32,
   by rw [ha.step.geom.clusterSize]; exact C.u32⟩

theorem ChainInv.of_alloc {fs0 : FsState} {f0 : FileH} {c0 : Nat} {chain : List Nat} {d d1 d2 : Dev} {c : Nat}
    (h : ChainInv fs0 f0 c0 chain d) (hv : SameVol d d1) (ha : AllocStep d1 d2 c) (hc : c ∉ chain) :
    ChainInv fs0 f0 c0 chain d2 := by
  have h1 : ChainInv fs0 f0 c0 chain d1 :=
    ⟨h.dir.of_sameVol hv, by rw [hv.img]; exact h.wf, by rw [hv.fs]; exact h.geom, h.fuel⟩
  have C2 := h1.dir.core.of_alloc ha hc
  exact ⟨⟨C2.failAt, C2.geo, C2.first, C2.link, C2.inTab, C2.nosize, C2.noacc, h.dir.clean, C2.cs32, C2.u32⟩,
    ha.step.wf h1.wf, h1.geom.trans ha.step.geom, h.fuel⟩

theorem SubInv.of_alloc {fs0 : FsState} {ed0 : DirEntryEditor} {c0 : Nat} {chain : List Nat} {t0 : Nat} {d d1 d2 : Dev}
    {c : Nat} (h : SubInv fs0 ed0 c0 chain t0 d) (hv : SameVol d d1) (hcl : d1.clock = d.clock) (ha : AllocStep d1 d2 c)
    (hc : c ∉ chain) : SubInv fs0 ed0 c0 chain t0 d2 := by
  have h1 := subInv_ok.vol d d1 h hv hcl
  have C2 := h1.dir.core.of_alloc ha hc
  exact ⟨⟨C2.failAt, C2.geo, C2.first, C2.link, C2.inTab, C2.nosize, C2.noacc, h.dir.clean, C2.cs32, C2.u32⟩,
    ha.step.wf h1.wf, h1.geom.trans ha.step.geom, h.fuel, ha.step.clock.trans h1.clock, h.nameLen, h.epos,
    by rw [ha.step.size]; exact h1.einside⟩

/-- a cluster that is free in the FAT is not on a chain whose last link is in use -/
theorem free_not_in_chain {g : Nat → FatValue} {c0 : Nat} {chain : List Nat} (h : Chain g c0 chain) {c : Nat}
    (hfree : g c = .free) (hlast : ∀ l, chain.getLast? = some l → g l ≠ .free) : c ∉ chain := by
  induction h with
  | last m _ =>
    intro hm
    simp only [List.mem_singleton] at hm
    subst hm
    exact hlast c rfl hfree
  | cons m k ms hd hc ih =>
    intro hm
    rcases List.mem_cons.mp hm with h1 | h1
    · subst h1; rw [hfree] at hd; cases hd
    · refine ih (fun l hl => hlast l ?_) h1
      cases hc with
      | last _ _ => simpa using hl
      | cons _ _ _ _ _ => simpa [List.getLast?_cons_cons] using hl

/-! ### slot lists -/

theorem srcSlots_getD (img : Img) (src : Nat → Nat) (N i : Nat) (hi : i < N) :
    (srcSlots img src N).getD i [] = img.read (src (32 * i)) 32 := by
  have := srcSlots_drop_getD img src N 0 i (by rw [List.drop_zero, srcSlots_length]; exact hi)
  rwa [List.drop_zero, Nat.zero_add] at this

theorem writeAt_last_getD (slots A : List (List Nat)) (s : List Nat) (p : Nat) (hp : p ≤ slots.length) :
    (DirSlots.writeAt slots p (A ++ [s])).getD (p + A.length) [] = s := by
  unfold DirSlots.writeAt
  simp only [List.getD_eq_getElem?_getD]
  rw [List.append_assoc, List.getElem?_append_right (by simp; omega)]
  have : p + A.length - (List.take p slots).length = A.length := by simp; omega
  rw [this, List.append_assoc, List.getElem?_append_right (Nat.le_refl _), Nat.sub_self]
  rfl

/-- the slots of a zero-filled region -/
theorem srcSlots_zero (img : Img) (src : Nat → Nat) (N : Nat)
    (h : ∀ i, i < N → ∀ x, x < 32 → img.getByte (src (32 * i) + x) = 0) :
    srcSlots img src N = List.replicate N (List.replicate 32 0) := by
  have hread : ∀ j, j ∈ List.range N → img.read (src (32 * j)) 32 = List.replicate 32 0 := by
    intro j hj
    unfold Img.read
    rw [List.map_congr_left (g := fun _ => 0) (fun x hx => h j (List.mem_range.mp hj) x (List.mem_range.mp hx))]
    rfl
  unfold srcSlots
  rw [List.map_congr_left (g := fun _ => List.replicate 32 0) hread, List.map_const', List.length_range]

/-- the two dot entries in a fresh directory of `K + 2` zero slots: `.` goes to slot 0, `..` to slot 1 -/
theorem writeEntryDot_fresh (s1 s2 : List Nat) (K : Nat) (h1 : Lfn.isEnd s1 = false) (h1d : Lfn.isDeleted s1 = false) :
    DirSlots.findFree (List.replicate (K + 2) (List.replicate 32 0)) 1 = 0 ∧
    DirSlots.writeEntryDot (List.replicate (K + 2) (List.replicate 32 0)) s1 =
      s1 :: List.replicate (K + 1) (List.replicate 32 0) ∧
    DirSlots.findFree (s1 :: List.replicate (K + 1) (List.replicate 32 0)) 1 = 1 ∧
    DirSlots.writeEntryDot (s1 :: List.replicate (K + 1) (List.replicate 32 0)) s2 =
      s1 :: s2 :: List.replicate K (List.replicate 32 0) := by
  have hz : Lfn.isEnd (List.replicate 32 0) = true := by decide
  have f1 : DirSlots.findFree (List.replicate (K + 2) (List.replicate 32 0)) 1 = 0 := by
    unfold DirSlots.findFree
    rw [List.replicate_succ]
    unfold DirSlots.findFreeLoop
    rw [hz]; rfl
  have f2 : DirSlots.findFree (s1 :: List.replicate (K + 1) (List.replicate 32 0)) 1 = 1 := by
    unfold DirSlots.findFree
    unfold DirSlots.findFreeLoop
    rw [h1, h1d]
    simp only [Bool.false_eq_true, if_false]
    rw [List.replicate_succ]
    unfold DirSlots.findFreeLoop
    rw [hz]; rfl
  refine ⟨f1, ?_, f2, ?_⟩
  · unfold DirSlots.writeEntryDot
    rw [f1]
    unfold DirSlots.writeAt
    simp [List.replicate_succ]
  · unfold DirSlots.writeEntryDot
    rw [f2]
    unfold DirSlots.writeAt
    simp [List.replicate_succ]

end FatVerif.DirSim
