import FatVerif.Proofs.MountRun1
import FatVerif.Model.DirOps
/-! Directory reads, forward (fault-free) evaluation, part 1: the fixed root directory of FAT12/16 — `DiskSlice::read`,
    `read_exact`, `read_u8`, `readChunks` and `DirEntryData::deserialize` (`readSlot`) on a slot-aligned root stream
    return the bytes of the image and leave the store alone. -/
namespace FatVerif.DirSim

/-- `p` evaluates on `d` to `v` without touching image, log, mounted state or fault schedule -/
def Evals {α} (p : Prog α) (d : Dev) (v : α) : Prop := ∃ d', run p d = (.ok v, d') ∧ SameStore d d'

theorem Evals.pure {α} (a : α) (d : Dev) : Evals (Prog.pure a) d a := ⟨d, rfl, SameStore.refl d⟩

theorem Evals.bind {α β} {p : Prog β} {k : β → Prog α} {d : Dev} {b : β} {v : α} (h1 : Evals p d b)
    (h2 : ∀ d1, SameStore d d1 → Evals (k b) d1 v) : Evals (Prog.bind p k) d v := by
  obtain ⟨d1, hr1, hs1⟩ := h1
  obtain ⟨d2, hr2, hs2⟩ := h2 d1 hs1
  refine ⟨d2, ?_, hs1.trans hs2⟩
  simp only [run, hr1, hr2]

/-- `p` fails on `d` with `e` without touching the store -/
def Fails {α} (p : Prog α) (d : Dev) (e : Err) : Prop := ∃ d', run p d = (.error e, d') ∧ SameStore d d'

theorem Fails.bind_left {α β} {p : Prog β} {k : β → Prog α} {d : Dev} {e : Err} (h1 : Fails p d e) :
    Fails (Prog.bind p k) d e := by
  obtain ⟨d1, hr1, hs1⟩ := h1
  exact ⟨d1, by simp only [run, hr1], hs1⟩

theorem Fails.bind_right {α β} {p : Prog β} {k : β → Prog α} {d : Dev} {b : β} {e : Err} (h1 : Evals p d b)
    (h2 : ∀ d1, SameStore d d1 → Fails (k b) d1 e) : Fails (Prog.bind p k) d e := by
  obtain ⟨d1, hr1, hs1⟩ := h1
  obtain ⟨d2, hr2, hs2⟩ := h2 d1 hs1
  exact ⟨d2, by simp only [run, hr1, hr2], hs1.trans hs2⟩

/-! ### the inner stream of a slice -/

theorem inner_seek_evals (s : DiskSlice) (n : Nat) (d : Dev) (h : d.failAt = none) :
    ∃ d', run (s.inner.seek () (.start n)) d = (.ok (n, ()), d') ∧ SameStore d d' ∧ d'.pos = n := by
  have : run (Prog.bind (Prog.seekStart n) (fun m => Prog.pure (m, ()))) d = (.ok (n, ()), d.didSeek n) := by
    simp only [run, run_seekStart n d h]
  refine ⟨d.didSeek n, ?_, sameStore_didSeek d n, rfl⟩
  unfold DiskSlice.inner
  split <;> exact this

theorem inner_read_evals (s : DiskSlice) (n : Nat) (d : Dev) (h : d.failAt = none) :
    ∃ d', run (s.inner.read () n) d = (.ok (d.img.read d.pos (min n (d.img.size - d.pos)), ()), d') ∧ SameStore d d' := by
  have : run (Prog.bind (Prog.read n) (fun bs => Prog.pure (bs, ()))) d =
      (.ok (d.img.read d.pos (min n (d.img.size - d.pos)), ()), d.didRead (min n (d.img.size - d.pos))) := by
    simp only [run, run_read n d h]
  refine ⟨d.didRead (min n (d.img.size - d.pos)), ?_, sameStore_didRead d _⟩
  unfold DiskSlice.inner
  split <;> exact this

/-- `DiskSlice::read` of a slice inside the device -/
theorem slice_read_evals (s : DiskSlice) (n : Nat) (d : Dev) (h : d.failAt = none) (hle : s.offset ≤ s.size)
    (hdev : s.beginOff + s.size ≤ d.img.size) :
    Evals (s.read n) d (d.img.read (s.beginOff + s.offset) (min n (s.size - s.offset)),
      { s with offset := s.offset + min n (s.size - s.offset) }) := by
  unfold DiskSlice.read
  obtain ⟨d1, hr1, hs1, hp1⟩ := inner_seek_evals s (s.beginOff + s.offset) d h
  obtain ⟨d2, hr2, hs2⟩ := inner_read_evals s (min n (s.size - s.offset)) d1 (by rw [hs1.failAt]; exact h)
  have hmin : min (min n (s.size - s.offset)) (d1.img.size - d1.pos) = min n (s.size - s.offset) := by
    rw [hs1.img, hp1]; omega
  rw [hmin, hp1, hs1.img] at hr2
  refine ⟨d2, ?_, hs1.trans hs2⟩
  show run (Prog.bind _ (fun _ => Prog.bind _ _)) d = _
  simp only [run, hr1, hr2, Img.read_length]
  rfl

/-! ### a fixed-root stream -/

/-- the slice positioned at `o` -/
def sliceAt (s : DiskSlice) (o : Nat) : DiskSlice := { s with offset := o }

@[simp] theorem sliceAt_beginOff (s : DiskSlice) (o : Nat) : (sliceAt s o).beginOff = s.beginOff := rfl
@[simp] theorem sliceAt_size (s : DiskSlice) (o : Nat) : (sliceAt s o).size = s.size := rfl
@[simp] theorem sliceAt_offset (s : DiskSlice) (o : Nat) : (sliceAt s o).offset = o := rfl
@[simp] theorem sliceAt_sliceAt (s : DiskSlice) (a b : Nat) : sliceAt (sliceAt s a) b = sliceAt s b := rfl

theorem root_read_evals (s : DiskSlice) (o n : Nat) (d : Dev) (h : d.failAt = none) (hle : o ≤ s.size)
    (hdev : s.beginOff + s.size ≤ d.img.size) :
    Evals (DirStream.read (.root (sliceAt s o)) n) d
      (d.img.read (s.beginOff + o) (min n (s.size - o)), .root (sliceAt s (o + min n (s.size - o)))) := by
  have := slice_read_evals (sliceAt s o) n d h hle hdev
  simp only [DirStream.read]
  exact Evals.bind this (fun d1 _ => Evals.pure _ d1)

/-- `read_exact(n)` with `n` bytes left in the root region: the bytes of the image -/
theorem root_readExact_evals (s : DiskSlice) (o n : Nat) (d : Dev) (h : d.failAt = none) (hroom : o + n ≤ s.size)
    (hdev : s.beginOff + s.size ≤ d.img.size) :
    Evals (readExact DirStream.strm (.root (sliceAt s o)) n) d
      (d.img.read (s.beginOff + o) n, .root (sliceAt s (o + n))) := by
  unfold readExact
  cases n with
  | zero =>
    unfold readExactLoop
    simp only [if_true]
    exact Evals.pure _ d
  | succ k =>
    unfold readExactLoop
    rw [if_neg (by omega)]
    have hr := root_read_evals s o (k + 1) d h (by omega) hdev
    have hmin : min (k + 1) (s.size - o) = k + 1 := by omega
    rw [hmin] at hr
    refine Evals.bind hr (fun d1 hs1 => ?_)
    dsimp only
    rw [if_neg (by rw [Img.read_length]; omega), Img.read_length, Nat.sub_self]
    unfold readExactLoop
    simp only [if_true, List.nil_append]
    exact Evals.pure _ d1

/-- `read_exact` at the very end of the root region: `UnexpectedEof` -/
theorem root_readExact_eof (s : DiskSlice) (n : Nat) (hn : 0 < n) (d : Dev) (h : d.failAt = none)
    (hdev : s.beginOff + s.size ≤ d.img.size) :
    Fails (readExact DirStream.strm (.root (sliceAt s s.size)) n) d .eof := by
  unfold readExact readExactLoop
  rw [if_neg (by omega)]
  have hr := root_read_evals s s.size n d h (Nat.le_refl _) hdev
  have hmin : min n (s.size - s.size) = 0 := by omega
  rw [hmin] at hr
  refine Fails.bind_right hr (fun d1 hs1 => ?_)
  dsimp only
  rw [if_pos (by rw [Img.read_length])]
  exact ⟨d1, rfl, SameStore.refl d1⟩

theorem root_readU8_evals (s : DiskSlice) (o : Nat) (d : Dev) (h : d.failAt = none) (hroom : o + 1 ≤ s.size)
    (hdev : s.beginOff + s.size ≤ d.img.size) :
    Evals (readU8 DirStream.strm (.root (sliceAt s o))) d
      (d.img.getByte (s.beginOff + o), .root (sliceAt s (o + 1))) := by
  unfold readU8
  refine Evals.bind (root_readExact_evals s o 1 d h hroom hdev) (fun d1 _ => ?_)
  dsimp only
  rw [Img.read_getD _ _ _ _ (by omega), Nat.add_zero]
  exact Evals.pure _ d1

theorem root_readChunks_evals (s : DiskSlice) : ∀ (ns : List Nat) (o : Nat) (acc : List Nat) (d : Dev),
    d.failAt = none → o + ns.sum ≤ s.size → s.beginOff + s.size ≤ d.img.size →
    Evals (readChunks DirStream.strm (.root (sliceAt s o)) ns acc) d
      (acc ++ d.img.read (s.beginOff + o) ns.sum, .root (sliceAt s (o + ns.sum))) := by
  intro ns
  induction ns with
  | nil =>
    intro o acc d _ _ _
    unfold readChunks
    simp only [List.sum_nil, Img.read_zero, List.append_nil, Nat.add_zero]
    exact Evals.pure _ d
  | cons n rest ih =>
    intro o acc d h hroom hdev
    unfold readChunks
    simp only [List.sum_cons] at hroom ⊢
    refine Evals.bind (root_readExact_evals s o n d h (by omega) hdev) (fun d1 hs1 => ?_)
    dsimp only
    have := ih (o + n) (acc ++ d.img.read (s.beginOff + o) n) d1 (by rw [hs1.failAt]; exact h) (by omega)
      (by rw [hs1.img]; exact hdev)
    rw [hs1.img, List.append_assoc, ← Nat.add_assoc, ← Img.read_append, Nat.add_assoc] at this
    exact this

theorem Evals.tryCatch_ok {α} {p : Prog α} {hd : Err → Prog α} {d : Dev} {v : α} (h : Evals p d v) :
    Evals (Prog.tryCatch p hd) d v := by
  obtain ⟨d1, hr, hs⟩ := h
  exact ⟨d1, by simp only [run, hr], hs⟩

theorem Evals.tryCatch_caught {α} {p : Prog α} {hd : Err → Prog α} {d : Dev} {e : Err} {v : α} (h : Fails p d e)
    (hnf : e.isFatal = false) (hh : ∀ d1, SameStore d d1 → Evals (hd e) d1 v) : Evals (Prog.tryCatch p hd) d v := by
  obtain ⟨d1, hr, hs⟩ := h
  obtain ⟨d2, hr2, hs2⟩ := hh d1 hs
  exact ⟨d2, by simp only [run, hr, hnf, Bool.false_eq_true, if_false, hr2], hs.trans hs2⟩

theorem Img.read_one (i : Img) (p : Nat) : i.read p 1 = [i.getByte p] := by
  simp [Img.read]

theorem lfnTail_sum : lfnTailChunks.sum = 20 := by decide
theorem fileTail_sum : fileTailChunks.sum = 20 := by decide

/-- **`readSlot` on a slot of the fixed root**: with at least 32 bytes left in the root region, `deserialize` reads the
    32 bytes of the image at the stream position (as 11 + 1 + 20 bytes in 12 resp. 13 `read_exact` calls) and the stream
    advances by 32 -/
theorem root_readSlot_evals (s : DiskSlice) (o : Nat) (d : Dev) (h : d.failAt = none) (hroom : o + 32 ≤ s.size)
    (hdev : s.beginOff + s.size ≤ d.img.size) :
    Evals (readSlot (.root (sliceAt s o))) d (d.img.read (s.beginOff + o) 32, .root (sliceAt s (o + 32))) := by
  unfold readSlot
  refine Evals.bind (b := some (d.img.read (s.beginOff + o) 11, .root (sliceAt s (o + 11)))) ?_ (fun d1 hs1 => ?_)
  · refine Evals.tryCatch_ok ?_
    exact Evals.bind (root_readExact_evals s o 11 d h (by omega) hdev) (fun d1 _ => Evals.pure _ d1)
  · dsimp only
    have h1 : d1.failAt = none := by rw [hs1.failAt]; exact h
    have hdev1 : s.beginOff + s.size ≤ d1.img.size := by rw [hs1.img]; exact hdev
    refine Evals.bind (root_readU8_evals s (o + 11) d1 h1 (by omega) hdev1) (fun d2 hs2 => ?_)
    dsimp only
    have h2 : d2.failAt = none := by rw [hs2.failAt]; exact h1
    have hdev2 : s.beginOff + s.size ≤ d2.img.size := by rw [hs2.img]; exact hdev1
    have key : ∀ (ns : List Nat), ns.sum = 20 →
        Evals (Prog.bind (readChunks DirStream.strm (.root (sliceAt s (o + 11 + 1))) ns [])
          (fun x => Prog.pure (d.img.read (s.beginOff + o) 11 ++ [d1.img.getByte (s.beginOff + (o + 11))] ++ x.1, x.2))) d2
          (d.img.read (s.beginOff + o) 32, .root (sliceAt s (o + 32))) := by
      intro ns hns
      have hc := root_readChunks_evals s ns (o + 11 + 1) [] d2 h2 (by rw [hns]; omega) hdev2
      rw [hns] at hc
      refine Evals.bind hc (fun d3 _ => ?_)
      dsimp only
      have e1 : d.img.read (s.beginOff + o) 32 =
          d.img.read (s.beginOff + o) 11 ++ [d1.img.getByte (s.beginOff + (o + 11))] ++
            ([] ++ d2.img.read (s.beginOff + (o + 11 + 1)) 20) := by
        rw [hs2.img, hs1.img, List.nil_append, ← Img.read_one, show (32 : Nat) = 11 + (1 + 20) from rfl, Img.read_append,
          Img.read_append, List.append_assoc]
        congr 2 <;> omega
      have e2 : o + 32 = o + 11 + 1 + 20 := by omega
      rw [e1, e2]
      exact Evals.pure _ d3
    split
    · exact key _ lfnTail_sum
    · exact key _ fileTail_sum

/-- **`readSlot` at the end of the root region**: the `UnexpectedEof` of the first `read_exact` is caught, the all-zero
    record (an end marker) is returned and the stream is NOT advanced -/
theorem root_readSlot_end (s : DiskSlice) (d : Dev) (h : d.failAt = none) (hdev : s.beginOff + s.size ≤ d.img.size) :
    Evals (readSlot (.root (sliceAt s s.size))) d (List.replicate 32 0, .root (sliceAt s s.size)) := by
  unfold readSlot
  refine Evals.bind (b := none) ?_ (fun d1 _ => Evals.pure _ d1)
  refine Evals.tryCatch_caught (e := .eof) ?_ rfl (fun d1 _ => Evals.pure _ d1)
  exact Fails.bind_left (root_readExact_eof s 11 (by omega) d h hdev)

end FatVerif.DirSim
