import FatVerif.Proofs.SlotTreeImg22
/-!
# Slot trees on a device image, part 23: the dot entries are neutral for `check_for_existence` (groundwork)

`check_dots`: on `s1 :: s2 :: slots`, `s1`/`s2` the short slots of `.`/`..`, `check_for_existence(name, kind)` for a
name other than `.`/`..` gives what it gives on `slots` (the entry moved by the two dot slots, the same alias):

* the raw names `".          "` / `"..         "` do not change the generator state (`addExisting_dot`: they are not
  the exact form — no generated short name starts with `.` — and contain no `~`, so neither prefix bitmap changes);
* under `DotSafe` the dot entries answer to no other name, in particular to no candidate alias (`canon_not_dot`:
  the display form of a canonical short name is not `.` / `..`).
-/
namespace FatVerif
namespace SlotTreeImg
open Lfn DirSlots DirAlias SlotTree

/-! ## the generator -/

theorem getD_ne_of_all {l : List Nat} {v dflt : Nat} (h : ∀ x ∈ l, x ≠ v) (hd : dflt ≠ v) (i : Nat) :
    l.getD i dflt ≠ v := by
  rw [List.getD_eq_getElem?_getD]
  cases hi : l[i]? with
  | none => exact hd
  | some x => exact h x (List.mem_of_getElem? hi)

/-- the exact form of a generator never starts with `.` -/
theorem shortName_head_ne_46 {g : Names.Gen} (hw : Names.GenWF g) : g.shortName.head? ≠ some 46 := by
  obtain ⟨b, e, hs, hb, _, _, lb, _, _⟩ := hw
  rw [hs]
  cases b with
  | nil => simp [Names.padTo]
  | cons x r =>
    simp only [Names.padTo, List.cons_append, List.head?_cons, ne_eq, Option.some.injEq]
    exact legal_ne_46 lb x (by simp)

/-- **neutrality**: a raw name that starts with `.` and contains no `~` leaves the generator as it is -/
theorem addExisting_dot {g : Names.Gen} (hw : Names.GenWF g) (sn : List Nat) (h0 : sn.head? = some 46)
    (h126 : ∀ x ∈ sn, x ≠ 126) : Names.addExisting g sn = g := by
  have hne : sn ≠ g.shortName := by
    intro h
    rw [h] at h0
    exact shortName_head_ne_46 hw h0
  have hb : ∀ i, Names.byteAt sn i ≠ 126 := fun i => getD_ne_of_all h126 (by decide) i
  unfold Names.addExisting Names.markExact
  rw [if_neg hne]
  unfold Names.checkLong
  rw [if_pos (hb _)]
  unfold Names.checkShort
  rw [if_pos (hb _)]

theorem addExisting_dotRaw {g : Names.Gen} (hw : Names.GenWF g) : Names.addExisting g dotRaw = g :=
  addExisting_dot hw dotRaw rfl (by decide)

theorem addExisting_dotDotRaw {g : Names.Gen} (hw : Names.GenWF g) : Names.addExisting g dotDotRaw = g :=
  addExisting_dot hw dotDotRaw rfl (by decide)

theorem ofNat_ne_dot : ∀ x, x < 128 → x ≠ 46 → Char.ofNat x ≠ '.' := by decide +kernel

/-- the display form of a canonical short name is neither `.` nor `..` -/
theorem canon_not_dot {a : List Nat} (hc : Canon a) :
    Names.aliasDisplay a ≠ ['.'] ∧ Names.aliasDisplay a ≠ ['.', '.'] := by
  obtain ⟨b, e, rfl, hb, he, lb, le⟩ := hc
  rw [aliasDisplay_canon hb he lb le]
  cases b with
  | cons x r =>
    have hx := legal_ne_46 lb x (by simp)
    have hx128 : x < 128 := legal_lt_128 x (lb x (by simp))
    have hne : Char.ofNat x ≠ '.' := ofNat_ne_dot x hx128 hx
    constructor <;> intro h <;> simp only [List.cons_append, List.map_cons, List.cons.injEq] at h <;> exact hne h.1
  | nil =>
    unfold dotExt
    by_cases hee : e = []
    · simp [hee]
    · simp only [hee, if_false, List.nil_append, List.map_cons]
      cases e with
      | nil => exact absurd rfl hee
      | cons y r =>
        have hy := legal_ne_46 le y (by simp)
        have hy128 : y < 128 := legal_lt_128 y (le y (by simp))
        have hne : Char.ofNat y ≠ '.' := ofNat_ne_dot y hy128 hy
        constructor
        · intro h; simp at h
        · intro h
          simp only [List.map_cons, List.cons.injEq] at h
          exact hne h.2.1

/-! ## the scan -/

/-- the result of `check_for_existence` moved by `k` slots -/
def shiftR (k : Nat) : EntryOrAlias → EntryOrAlias
  | .entry e => .entry (shiftE k e)
  | .alias a => .alias a

section
variable (up : Char → List Char)

theorem scan_wf (name : List Char) (kd : Option Bool) : ∀ (L : List LfnEntry) (g : Names.Gen), Names.GenWF g →
    Names.GenWF (scan up name kd L g).2 := by
  intro L
  induction L with
  | nil => intro g hw; exact hw
  | cons e r ih =>
    intro g hw
    simp only [scan]
    split
    · split <;> exact hw
    · exact ih _ (hw.addExisting _)

theorem scan_shift (name : List Char) (kd : Option Bool) (k : Nat) : ∀ (L : List LfnEntry) (g : Names.Gen),
    scan up name kd (L.map (shiftE k)) g = ((scan up name kd L g).1.map (shiftE k), (scan up name kd L g).2) := by
  intro L
  induction L with
  | nil => intro g; rfl
  | cons e r ih =>
    intro g
    have hmm : matchesName up (shiftE k e) name = matchesName up e name := rfl
    have hsf : (shiftE k e).sfn = e.sfn := rfl
    simp only [List.map_cons, scan, hmm, hsf]
    split
    · split <;> rfl
    · exact ih _

/-- an entry of a dot name answers to no other name -/
theorem dot_nomatch (hup : DotSafe up) (e : LfnEntry) (hu : e.units = [])
    (hr : sfnName e.sfn = dotRaw ∨ sfnName e.sfn = dotDotRaw) (q : List Char) (hq : q ≠ ['.'] ∧ q ≠ ['.', '.']) :
    matchesName up e q = false := by
  rw [matches_short up e hu q]
  rcases hr with hr | hr <;> rw [hr]
  · rw [display_dot]
    cases h : (Names.fold up ['.'] == Names.fold up q) with
    | false => rfl
    | true => exact absurd (hup.dot q (eq_of_beq h).symm) hq.1
  · rw [display_dotdot]
    cases h : (Names.fold up ['.', '.'] == Names.fold up q) with
    | false => rfl
    | true => exact absurd (hup.dotdot q (eq_of_beq h).symm) hq.2

end

/-! ## the loop -/

section
variable (up : Char → List Char)

theorem scan_dots (hup : DotSafe up) (e1 e2 : LfnEntry) (hu1 : e1.units = []) (hr1 : sfnName e1.sfn = dotRaw)
    (hu2 : e2.units = []) (hr2 : sfnName e2.sfn = dotDotRaw) (name : List Char)
    (hname : name ≠ ['.'] ∧ name ≠ ['.', '.']) (kd : Option Bool) (M : List LfnEntry) (g : Names.Gen)
    (hw : Names.GenWF g) : scan up name kd (e1 :: e2 :: M) g = scan up name kd M g := by
  simp only [scan, dot_nomatch up hup e1 hu1 (Or.inl hr1) name hname,
    dot_nomatch up hup e2 hu2 (Or.inr hr2) name hname, Bool.false_eq_true, if_false, hr1, hr2,
    addExisting_dotRaw hw, addExisting_dotDotRaw hw]

theorem lookupNoGen_dots (hup : DotSafe up) (e1 e2 : LfnEntry) (hu1 : e1.units = []) (hr1 : sfnName e1.sfn = dotRaw)
    (hu2 : e2.units = []) (hr2 : sfnName e2.sfn = dotDotRaw) (q : List Char) (hq : q ≠ ['.'] ∧ q ≠ ['.', '.'])
    (L : List LfnEntry) (k : Nat) :
    lookupNoGen up (e1 :: e2 :: L.map (shiftE k)) q = (lookupNoGen up L q).map (shiftE k) := by
  unfold lookupNoGen
  rw [List.find?_cons_of_neg (by rw [dot_nomatch up hup e1 hu1 (Or.inl hr1) q hq]; simp),
    List.find?_cons_of_neg (by rw [dot_nomatch up hup e2 hu2 (Or.inr hr2) q hq]; simp), List.find?_map]
  rfl

/-- **the loop of `check_for_existence` behind the two dot entries** -/
theorem loop_dots (hup : DotSafe up) (e1 e2 : LfnEntry) (hu1 : e1.units = []) (hr1 : sfnName e1.sfn = dotRaw)
    (hu2 : e2.units = []) (hr2 : sfnName e2.sfn = dotDotRaw) (L : List LfnEntry) (name : List Char)
    (hname : name ≠ ['.'] ∧ name ≠ ['.', '.']) (kd : Option Bool) : ∀ (fuel : Nat) (g : Names.Gen), Names.GenWF g →
    loop up (e1 :: e2 :: L.map (shiftE 2)) name kd fuel g = (loop up L name kd fuel g).map (shiftR 2) := by
  intro fuel
  induction fuel with
  | zero => intro g _; rfl
  | succ f ih =>
    intro g hw
    have hsc : scan up name kd (e1 :: e2 :: L.map (shiftE 2)) g =
        ((scan up name kd L g).1.map (shiftE 2), (scan up name kd L g).2) := by
      rw [scan_dots up hup e1 e2 hu1 hr1 hu2 hr2 name hname kd _ g hw, scan_shift]
    have hw' := scan_wf up name kd L g hw
    simp only [loop, hsc]
    generalize scan up name kd L g = sc at hw' ⊢
    obtain ⟨r, g'⟩ := sc
    simp only at hw' ⊢
    cases r with
    | ok e => rfl
    | error err =>
      by_cases hnf : err = .notFound
      · subst hnf
        simp only [Except.map]
        cases hgen : Names.generate g' with
        | error x =>
          simp only
          exact ih _ hw'.nextIteration
        | ok a =>
          simp only
          have hcan := canon_not_dot (generate_canon hw' hgen)
          cases hda : displayAscii a with
          | false => rfl
          | true =>
            simp only [if_true]
            rw [lookupNoGen_dots up hup e1 e2 hu1 hr1 hu2 hr2 _ hcan L 2]
            cases lookupNoGen up L (Names.aliasDisplay a) with
            | none => rfl
            | some x =>
              simp only [Option.map]
              exact ih _ (hw'.addExisting a)
      · cases err <;> first | exact absurd rfl hnf | rfl

theorem listing_dots (s1 s2 : List Nat) (hc1 : slotClass s1 = .file) (hc2 : slotClass s2 = .file)
    (slots : List (List Nat)) :
    listing (s1 :: s2 :: slots) =
      ⟨s1, (LongNameBuilder.new true).finish true (sfnName s1), 0, 1⟩ ::
      ⟨s2, (LongNameBuilder.new true).finish true (sfnName s2), 1, 2⟩ :: (listing slots).map (shiftE 2) := by
  rw [listing_cons_file s1 _ hc1, listing_cons_file s2 _ hc2, List.map_cons, List.map_map]
  congr 2

theorem finish_new (x : List Nat) : (LongNameBuilder.new true).finish true x = [] := by
  unfold LongNameBuilder.finish LongNameBuilder.validateChksum LongNameBuilder.new
  rfl

/-- **`check_for_existence` behind the two dot slots**: for a name other than `.`/`..` it gives what it gives on the
    slot list without them — the entry moved by two slots, the same alias, the same error -/
theorem check_dots (hup : DotSafe up) (s1 s2 : List Nat) (hc1 : slotClass s1 = .file) (hc2 : slotClass s2 = .file)
    (hr1 : sfnName s1 = dotRaw) (hr2 : sfnName s2 = dotDotRaw) (slots : List (List Nat)) (name : String)
    (hname : isDotName name = false) (kd : Option Bool) (fuel : Nat) :
    checkForExistenceL up (s1 :: s2 :: slots) name kd fuel =
      (checkForExistenceL up slots name kd fuel).map (shiftR 2) := by
  have hq : name.toList ≠ ['.'] ∧ name.toList ≠ ['.', '.'] := by
    rw [← isDotName_eq] at hname
    simp only [Bool.or_eq_false_iff, decide_eq_false_iff_not] at hname
    constructor
    · intro h; apply hname.1; rw [← String.ofList_toList (s := name), h]
    · intro h; apply hname.2; rw [← String.ofList_toList (s := name), h]
  unfold checkForExistenceL
  cases hn : Names.new name with
  | error e => rfl
  | ok g =>
    simp only
    rw [listing_dots s1 s2 hc1 hc2 slots]
    exact loop_dots up hup _ _ (finish_new (sfnName s1)) hr1 (finish_new (sfnName s2)) hr2 (listing slots) name.toList hq kd fuel g
      (Names.newL_wf hn)

end

end SlotTreeImg
end FatVerif
