import FatVerif.Model.Names
/-! Lemmas for C15.1: `validate_long_name` against the specification's character set. -/
namespace FatVerif.Names

theorem longCharOk_small : ∀ n < 128, (longCharOk n = true ↔
    (0x20 ≤ n ∧ n ≤ 0xFFFF ∧ n ≠ 0x7F ∧ n ∉ forbiddenLong)) := by decide +kernel

theorem longCharOk_iff (c : Char) : longCharOk c.toNat = true ↔ InCharset c := by
  unfold InCharset
  by_cases h : c.toNat < 128
  · exact longCharOk_small _ h
  · have hf : c.toNat ∉ forbiddenLong := by
      simp only [forbiddenLong, List.mem_cons, List.not_mem_nil, or_false]; omega
    simp only [longCharOk, Bool.or_eq_true, Bool.and_eq_true, decide_eq_true_eq, List.contains_eq_mem,
      List.mem_cons, List.not_mem_nil, or_false]
    constructor
    · intro _; refine ⟨by omega, ?_, by omega, hf⟩; omega
    · intro ⟨_, h2, _, _⟩; omega

theorem utf8Len_pos_of_ne_nil : ∀ {cs : List Char}, cs ≠ [] → 1 ≤ utf8Len cs
  | c :: cs, _ => by have := c.utf8Size_pos; simp [utf8Len]; omega

theorem utf8Len_eq_zero_iff (cs : List Char) : utf8Len cs = 0 ↔ cs = [] := by
  constructor
  · intro h; by_cases hn : cs = []
    · exact hn
    · have := utf8Len_pos_of_ne_nil hn; omega
  · rintro rfl; rfl

theorem all_ok_iff (cs : List Char) :
    cs.all (fun c => longCharOk c.toNat) = true ↔ ∀ c ∈ cs, InCharset c := by
  simp [List.all_eq_true, longCharOk_iff]

end FatVerif.Names

namespace FatVerif.Names

/-- the model's byte length is the real UTF-8 length of the string -/
theorem utf8Len_ofList (l : List Char) : (String.ofList l).utf8ByteSize = utf8Len l := by
  induction l with
  | nil => rfl
  | cons c cs ih => simp [utf8Len, ← ih]

theorem utf8Len_toList (s : String) : utf8Len s.toList = s.utf8ByteSize := by
  rw [← utf8Len_ofList, String.ofList_toList]

theorem validateL_ok_iff (cs : List Char) :
    validateLongNameL cs = .ok () ↔ 1 ≤ utf8Len cs ∧ utf8Len cs ≤ 255 ∧ ∀ c ∈ cs, InCharset c := by
  unfold validateLongNameL
  by_cases h0 : cs = []
  · subst h0; simp [utf8Len]
  · have := utf8Len_pos_of_ne_nil h0
    by_cases h1 : utf8Len cs > 255
    · simp [h0, h1]; omega
    · by_cases h2 : cs.all (fun c => longCharOk c.toNat) = true
      · simp only [List.isEmpty_iff, h0, h1, h2]; simp; exact ⟨this, by omega, (all_ok_iff cs).1 h2⟩
      · simp only [List.isEmpty_iff, h0, h1, h2]; simp
        intro _ _; have := mt (all_ok_iff cs).2 h2; simpa using this

theorem validateL_nameLen_iff (cs : List Char) :
    validateLongNameL cs = .error .nameLen ↔ utf8Len cs = 0 ∨ 255 < utf8Len cs := by
  unfold validateLongNameL
  by_cases h0 : cs = []
  · subst h0; simp [utf8Len]
  · have := utf8Len_pos_of_ne_nil h0
    by_cases h1 : utf8Len cs > 255
    · simp [h0, h1]
    · by_cases h2 : cs.all (fun c => longCharOk c.toNat) = true
      · simp only [List.isEmpty_iff, h0, h1, h2]; simp; omega
      · simp only [List.isEmpty_iff, h0, h1, h2]; simp; omega

theorem validateL_nameChar_iff (cs : List Char) :
    validateLongNameL cs = .error .nameChar ↔
      1 ≤ utf8Len cs ∧ utf8Len cs ≤ 255 ∧ ¬ ∀ c ∈ cs, InCharset c := by
  unfold validateLongNameL
  by_cases h0 : cs = []
  · subst h0; simp [utf8Len]
  · have := utf8Len_pos_of_ne_nil h0
    by_cases h1 : utf8Len cs > 255
    · simp [h0, h1]; omega
    · by_cases h2 : cs.all (fun c => longCharOk c.toNat) = true
      · simp only [List.isEmpty_iff, h0, h1, h2]; simp
        intro _ _; exact (all_ok_iff cs).1 h2
      · simp only [List.isEmpty_iff, h0, h1, h2]; simp
        refine ⟨this, by omega, ?_⟩
        have := mt (all_ok_iff cs).2 h2; simpa using this

end FatVerif.Names
