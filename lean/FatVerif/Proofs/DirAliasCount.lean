import FatVerif.Proofs.DirAliasTerm
/-! Counting argument for the termination bound: nine distinct tokens per failed epoch, three tokens per entry. -/
namespace FatVerif
namespace DirAlias
open Lfn DirSlots

/-! ## pigeonhole for an injective relation -/

theorem pigeon_rel {α β : Type} [DecidableEq β] (R : α → β → Prop)
    (hinj : ∀ a a' b, R a b → R a' b → a = a') :
    ∀ (l : List α) (T : List β), l.Nodup → (∀ a ∈ l, ∃ b ∈ T, R a b) → l.length ≤ T.length := by
  intro l
  induction l with
  | nil => intro T _ _; simp
  | cons a l ih =>
    intro T hn hall
    obtain ⟨ha, hl⟩ := List.nodup_cons.1 hn
    obtain ⟨b, hb, hr⟩ := hall a (by simp)
    have := ih (T.erase b) hl (by
      intro a' ha'
      obtain ⟨b', hb', hr'⟩ := hall a' (by simp [ha'])
      have hne : b' ≠ b := by
        rintro rfl
        exact ha (by rw [hinj a a' b' hr hr']; exact ha')
      exact ⟨b', (List.mem_erase_of_ne hne).2 hb', hr'⟩)
    rw [List.length_erase_of_mem hb] at this
    have : 0 < T.length := List.length_pos_of_mem hb
    simp only [List.length_cons]; omega

/-! ## display forms of candidates: fixed by the case folding, injective -/

/-- the case folding leaves the characters of short names alone (true of `to_ascii_uppercase` and of
    `char::to_uppercase`: upper-case ASCII letters, digits and punctuation are their own upper case) -/
def UpperFixes (upper : Char → List Char) : Prop :=
  ∀ y, (y ∈ Names.legalSfnBytes ∨ y = 46) → upper (Char.ofNat y) = [Char.ofNat y]

theorem upperAscii_fixes : UpperFixes Names.upperAscii := by
  intro y hy
  have key : ∀ y < 128, (y ∈ Names.legalSfnBytes ∨ y = 46) → Names.upperAscii (Char.ofNat y) = [Char.ofNat y] := by
    rw [Names.legalSfnBytes_eq]; decide +kernel
  have hy128 : y < 128 := by
    rcases hy with h | h
    · exact legal_lt_128 y h
    · omega
  exact key y hy128 hy

def dotExt (e : List Nat) : List Nat := if e = [] then [] else 46 :: e

theorem legal_ne_46 {l : List Nat} (h : Names.AllLegal l) : ∀ x ∈ l, x ≠ 46 := by
  intro x hx
  have key : ∀ x ∈ Names.legalSfnBytes, x ≠ 46 := by rw [Names.legalSfnBytes_eq]; decide
  exact key x (h x hx)

theorem aliasDisplay_canon {b e : List Nat} (hb : b.length ≤ 8) (he : e.length ≤ 3)
    (lb : Names.AllLegal b) (le : Names.AllLegal e) :
    Names.aliasDisplay (Names.padTo 8 b ++ Names.padTo 3 e) = (b ++ dotExt e).map Char.ofNat := by
  unfold Names.aliasDisplay
  rw [shortDisplay_canon hb he lb le]
  apply List.map_congr_left
  intro y hy
  have hy128 : y < 128 := by
    rcases List.mem_append.1 hy with h | h
    · exact legal_lt_128 y (lb y h)
    · by_cases hee : e = []
      · simp [hee] at h
      · simp only [hee, if_false, List.mem_cons] at h
        rcases h with rfl | h
        · omega
        · exact legal_lt_128 y (le y h)
  unfold Names.oemDecode
  rw [if_pos (by omega)]

theorem fold_fix (upper : Char → List Char) (hup : UpperFixes upper) (l : List Nat)
    (hl : ∀ y ∈ l, y ∈ Names.legalSfnBytes ∨ y = 46) :
    Names.fold upper (l.map Char.ofNat) = l.map Char.ofNat := by
  induction l with
  | nil => rfl
  | cons y ys ih =>
    simp only [Names.fold, List.map_cons, List.flatMap_cons, hup y (hl y (by simp)), List.singleton_append]
    have := ih (fun z hz => hl z (by simp [hz]))
    simp only [Names.fold] at this
    rw [this]

theorem canon_body_mem {b e : List Nat} (lb : Names.AllLegal b) (le : Names.AllLegal e) :
    ∀ y ∈ b ++ dotExt e, y ∈ Names.legalSfnBytes ∨ y = 46 := by
  intro y hy
  rcases List.mem_append.1 hy with h | h
  · exact Or.inl (lb y h)
  · unfold dotExt at h
    by_cases hee : e = []
    · simp [hee] at h
    · simp only [hee, if_false, List.mem_cons] at h
      rcases h with rfl | h
      · exact Or.inr rfl
      · exact Or.inl (le y h)

/-- the display form of a candidate is its own case folding -/
theorem fold_display_canon (upper : Char → List Char) (hup : UpperFixes upper) {x : List Nat} (h : Canon x) :
    Names.fold upper (Names.aliasDisplay x) = Names.aliasDisplay x := by
  obtain ⟨b, e, rfl, hb, he, lb, le⟩ := h
  rw [aliasDisplay_canon hb he lb le]
  exact fold_fix upper hup _ (canon_body_mem lb le)

theorem ofNat_inj_small : ∀ y < 128, ∀ z < 128, Char.ofNat y = Char.ofNat z → y = z := by decide +kernel

theorem map_ofNat_inj : ∀ (l l' : List Nat), (∀ y ∈ l, y < 128) → (∀ y ∈ l', y < 128) →
    l.map Char.ofNat = l'.map Char.ofNat → l = l'
  | [], [], _, _, _ => rfl
  | [], _ :: _, _, _, h => by simp at h
  | _ :: _, [], _, _, h => by simp at h
  | y :: ys, z :: zs, h1, h2, h => by
    simp only [List.map_cons, List.cons.injEq] at h
    rw [ofNat_inj_small y (h1 y (by simp)) z (h2 z (by simp)) h.1,
      map_ofNat_inj ys zs (fun w hw => h1 w (by simp [hw])) (fun w hw => h2 w (by simp [hw])) h.2]

theorem body_inj : ∀ (b b' e e' : List Nat), (∀ x ∈ b, x ≠ 46) → (∀ x ∈ b', x ≠ 46) →
    b ++ dotExt e = b' ++ dotExt e' → b = b' ∧ e = e'
  | [], [], e, e', _, _, h => by
    refine ⟨rfl, ?_⟩
    unfold dotExt at h
    by_cases h1 : e = [] <;> by_cases h2 : e' = [] <;> simp_all
  | [], y :: ys, e, e', _, hb', h => by
    exfalso
    unfold dotExt at h
    by_cases h1 : e = []
    · simp [h1] at h
    · simp only [h1, if_false, List.nil_append, List.cons_append, List.cons.injEq] at h
      exact hb' y (by simp) h.1.symm
  | y :: ys, [], e, e', hb, _, h => by
    exfalso
    unfold dotExt at h
    by_cases h2 : e' = []
    · simp [h2] at h
    · simp only [h2, if_false, List.nil_append, List.cons_append, List.cons.injEq] at h
      exact hb y (by simp) h.1
  | y :: ys, z :: zs, e, e', hb, hb', h => by
    simp only [List.cons_append, List.cons.injEq] at h
    obtain ⟨r1, r2⟩ := body_inj ys zs e e' (fun x hx => hb x (by simp [hx])) (fun x hx => hb' x (by simp [hx])) h.2
    exact ⟨by rw [h.1, r1], r2⟩

/-- different candidates have different display forms -/
theorem display_inj {x x' : List Nat} (h : Canon x) (h' : Canon x')
    (hd : Names.aliasDisplay x = Names.aliasDisplay x') : x = x' := by
  obtain ⟨b, e, rfl, hb, he, lb, le⟩ := h
  obtain ⟨b', e', rfl, hb', he', lb', le'⟩ := h'
  rw [aliasDisplay_canon hb he lb le, aliasDisplay_canon hb' he' lb' le'] at hd
  have h128 : ∀ {b e : List Nat}, Names.AllLegal b → Names.AllLegal e → ∀ y ∈ b ++ dotExt e, y < 128 := by
    intro b e lb le y hy
    rcases canon_body_mem lb le y hy with h | h
    · exact legal_lt_128 y h
    · omega
  have := map_ofNat_inj _ _ (h128 lb le) (h128 lb' le') hd
  obtain ⟨r1, r2⟩ := body_inj b b' e e' (legal_ne_46 lb) (legal_ne_46 lb') this
  rw [r1, r2]

/-! ## tokens: three per listed entry -/

def tokens (L : List LfnEntry) : List (LfnEntry × Nat) := L.flatMap fun e => [(e, 0), (e, 1), (e, 2)]

theorem tokens_length (L : List LfnEntry) : (tokens L).length = 3 * L.length := by
  induction L with
  | nil => rfl
  | cons e es ih => simp only [tokens, List.flatMap_cons, List.length_append, List.length_cons] at ih ⊢; simp at ih ⊢; omega

theorem mem_tokens {L : List LfnEntry} {e : LfnEntry} (he : e ∈ L) (k : Nat) (hk : k ≤ 2) : (e, k) ∈ tokens L := by
  unfold tokens
  rw [List.mem_flatMap]
  refine ⟨e, he, ?_⟩
  have : k = 0 ∨ k = 1 ∨ k = 2 := by omega
  rcases this with rfl | rfl | rfl <;> simp

/-- the long name of `e` answers to `q` -/
def LongHit (upper : Char → List Char) (e : LfnEntry) (q : List Char) : Prop :=
  e.units ≠ [] ∧ ∃ long : List Char, Names.decodeUtf16 e.units = long.map some ∧
    Names.fold upper q = Names.fold upper long

/-- the pair (checksum, digit) is charged to the token: 0 = the entry's raw short name parses to it; 1 / 2 = the entry's
    long name / alias answers to the display form of a candidate that sets it -/
def TokR (upper : Char → List Char) (g0 : Names.Gen) (p : Nat × Nat) (t : LfnEntry × Nat) : Prop :=
  (t.2 = 0 ∧ HK g0 (sfnName t.1.sfn) p.1 p.2) ∨
  (t.2 = 1 ∧ ∃ x, Canon x ∧ HK g0 x p.1 p.2 ∧ LongHit upper t.1 (Names.aliasDisplay x)) ∨
  (t.2 = 2 ∧ ∃ x, Canon x ∧ HK g0 x p.1 p.2 ∧
    Names.fold upper (Names.aliasDisplay x) = Names.fold upper (Names.aliasDisplay (sfnName t.1.sfn)))

theorem charged_token (upper : Char → List Char) (L : List LfnEntry) (g0 : Names.Gen) (c i : Nat)
    (h : Charged upper L g0 c i) : ∃ t ∈ tokens L, TokR upper g0 (c, i) t := by
  obtain ⟨x, hx, hk⟩ := h
  rcases hx with hx | ⟨hc, e, he, hm⟩
  · obtain ⟨e, he, rfl⟩ := List.mem_map.1 hx
    exact ⟨(e, 0), mem_tokens he 0 (by omega), Or.inl ⟨rfl, hk⟩⟩
  · unfold matchesName Names.eqName at hm
    rw [Bool.or_eq_true, Names.eqNameLfn_iff, Names.eqIgnoreCase_iff] at hm
    rcases hm with hm | hm
    · exact ⟨(e, 1), mem_tokens he 1 (by omega), Or.inr (Or.inl ⟨rfl, x, hc, hk, hm⟩)⟩
    · exact ⟨(e, 2), mem_tokens he 2 (by omega), Or.inr (Or.inr ⟨rfl, x, hc, hk, hm⟩)⟩

theorem tokR_inj (upper : Char → List Char) (hup : UpperFixes upper) (g0 : Names.Gen) (p p' : Nat × Nat)
    (t : LfnEntry × Nat) (h : TokR upper g0 p t) (h' : TokR upper g0 p' t) : p = p' := by
  have fin : ∀ {x x' : List Nat}, Canon x → Canon x' →
      Names.fold upper (Names.aliasDisplay x) = Names.fold upper (Names.aliasDisplay x') →
      HK g0 x p.1 p.2 → HK g0 x' p'.1 p'.2 → p = p' := by
    intro x x' hc hc' hf hk hk'
    rw [fold_display_canon upper hup hc, fold_display_canon upper hup hc'] at hf
    have := display_inj hc hc' hf
    subst this
    obtain ⟨a, b⟩ := HK_fun hk hk'
    exact Prod.ext a b
  rcases h with ⟨k, hk⟩ | ⟨k, x, hc, hk, hl⟩ | ⟨k, x, hc, hk, hf⟩ <;>
    rcases h' with ⟨k', hk'⟩ | ⟨k', x', hc', hk', hl'⟩ | ⟨k', x', hc', hk', hf'⟩
  all_goals first
    | (rw [k] at k'; omega)
    | skip
  · obtain ⟨a, b⟩ := HK_fun hk hk'
    exact Prod.ext a b
  · obtain ⟨_, long, d1, f1⟩ := hl
    obtain ⟨_, long', d1', f1'⟩ := hl'
    rw [d1] at d1'
    have := Names.map_some_inj d1'
    subst this
    exact fin hc hc' (f1.trans f1'.symm) hk hk'
  · exact fin hc hc' (hf.trans hf'.symm) hk hk'

/-! ## the pairs of the failed epochs -/

def row (c : Nat) : List (Nat × Nat) := [(c, 1), (c, 2), (c, 3), (c, 4), (c, 5), (c, 6), (c, 7), (c, 8), (c, 9)]

def pairs : List Nat → List (Nat × Nat)
  | [] => []
  | c :: cs => row c ++ pairs cs

theorem mem_row {c c' i : Nat} : (c', i) ∈ row c ↔ c' = c ∧ 1 ≤ i ∧ i ≤ 9 := by
  simp only [row, List.mem_cons, Prod.mk.injEq, List.not_mem_nil, or_false]
  omega

theorem row_nodup (c : Nat) : (row c).Nodup := by
  simp [row, List.nodup_cons]

theorem mem_pairs {cs : List Nat} {c i : Nat} : (c, i) ∈ pairs cs ↔ c ∈ cs ∧ 1 ≤ i ∧ i ≤ 9 := by
  induction cs with
  | nil => simp [pairs]
  | cons d ds ih =>
    simp only [pairs, List.mem_append, mem_row, ih, List.mem_cons]
    constructor
    · rintro (⟨rfl, h⟩ | ⟨h1, h⟩)
      · exact ⟨Or.inl rfl, h⟩
      · exact ⟨Or.inr h1, h⟩
    · rintro ⟨rfl | h1, h⟩
      · exact Or.inl ⟨rfl, h⟩
      · exact Or.inr ⟨h1, h⟩

theorem pairs_length (cs : List Nat) : (pairs cs).length = 9 * cs.length := by
  induction cs with
  | nil => rfl
  | cons d ds ih => simp only [pairs, List.length_append, ih, List.length_cons, row, List.length_nil]; omega

theorem pairs_nodup {cs : List Nat} (h : cs.Nodup) : (pairs cs).Nodup := by
  induction cs with
  | nil => simp [pairs]
  | cons d ds ih =>
    obtain ⟨hd, hds⟩ := List.nodup_cons.1 h
    simp only [pairs]
    rw [List.nodup_append]
    refine ⟨row_nodup d, ih hds, ?_⟩
    rintro ⟨c, i⟩ h1 ⟨c', i'⟩ h2 heq
    cases heq
    rw [mem_row] at h1
    rw [mem_pairs] at h2
    exact hd (h1.1 ▸ h2.1)

/-- nine tokens per failed epoch: `m` epochs with pairwise different checksums need `9·m ≤ 3·n` -/
theorem epochs_le (upper : Char → List Char) (hup : UpperFixes upper) (L : List LfnEntry) (g0 : Names.Gen)
    (cs : List Nat) (hcs : cs.Nodup)
    (h : ∀ c ∈ cs, ∀ i, 1 ≤ i → i ≤ 9 → Charged upper L g0 c i) : 9 * cs.length ≤ 3 * L.length := by
  have := pigeon_rel (TokR upper g0) (fun a a' b => tokR_inj upper hup g0 a a' b) (pairs cs) (tokens L)
    (pairs_nodup hcs) (by
      rintro ⟨c, i⟩ hp
      obtain ⟨h1, h2, h3⟩ := mem_pairs.1 hp
      exact charged_token upper L g0 c i (h c h1 i h2 h3))
  rwa [pairs_length, tokens_length] at this

/-- **the loop does not run out of fuel** when nothing matches the name, the directory lists `n < 3·65536` entries and
    the fuel is at least `15·(n/3) + 15` -/
theorem loop_no_hang (upper : Char → List Char) (hup : UpperFixes upper) (L : List LfnEntry) (name : List Char)
    (isDir : Option Bool) (hnone : (L.find? fun e => matchesName upper e name) = none)
    (g0 : Names.Gen) (hw0 : Names.GenWF g0) (hz : g0.prefixChksumBitmap = 0)
    (hn : L.length < 3 * 65536) (fuel : Nat) (hfuel : 15 * (L.length / 3) + 15 ≤ fuel) :
    loop upper L name isDir fuel g0 ≠ .error .hang := by
  intro hh
  have inv0 : EpochInv upper L g0 g0 := by
    intro i hi; rw [hz] at hi; simp at hi
  obtain ⟨m, hm1, hm2⟩ := loop_hang upper L name isDir hnone g0 hw0 fuel g0 Names.Reach.refl inv0 hh
  have hf := free_le g0
  have hc := hw0.chk
  have hm : L.length / 3 + 1 ≤ m := by omega
  have hnd := Names.chkSeq_nodup (c := g0.chksum) (m := L.length / 3 + 1) hc (by omega)
  have hlen : ∀ c k, (Names.chkSeq c k).length = k := by
    intro c k
    induction k generalizing c with
    | zero => rfl
    | succ k ih => simp [Names.chkSeq, ih]
  have := epochs_le upper hup L g0 (Names.chkSeq g0.chksum (L.length / 3 + 1)) hnd
    (fun c hcm i h1 h9 => hm2 c (chkSeq_prefix hc hm hcm) i h1 h9)
  rw [hlen] at this
  omega

end DirAlias
end FatVerif
