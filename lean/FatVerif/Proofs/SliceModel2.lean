import FatVerif.Proofs.SliceModel1
import FatVerif.Props.C12
/-! WHERE the model writes, part 2: one device write, `FsIoAdapter::write`, `write_all` on the inner stream of a
    `DiskSlice`, `DiskSlice::{read,write,seek}`. All statements assume that the byte range addressed lies inside the
    device (`pos + len ≤ img.size`): the model device accepts a write partially only at its end. -/
namespace FatVerif

/-- a record inside the status byte -/
def StatusRec (fs : FsState) (off : Nat) (bs : List Nat) : Prop := statusOff fs ≤ off ∧ off + bs.length ≤ statusOff fs + 1

theorem statusOff_geom {a b : FsState} (h : SameGeom a b) : statusOff b = statusOff a := by
  have h1 : a.geom.fatType = b.geom.fatType := congrArg FsState.fatType h
  have : a.fatType = b.fatType := h1
  simp [statusOff, this]

theorem StatusRec.geom {a b : FsState} (h : SameGeom a b) {off bs} (hs : StatusRec b off bs) : StatusRec a off bs := by
  unfold StatusRec at *; rw [statusOff_geom h] at hs; exact hs

/-- every outcome of `set_dirty_flag`: geometry kept, records inside the status byte; success ⇒ flags current -/
theorem setDirtyFlag_all (b : Bool) (d : Dev) {r d'} (hr : run (setDirtyFlag b) d = (r, d')) :
    SameGeom d.fs d'.fs ∧ LogAll (StatusRec d.fs) d d' := by
  refine ⟨?_, LogAll.of_within (setDirtyFlag_within b d hr) (fun off bs h1 h2 => ⟨h1, h2⟩)⟩
  rw [setDirtyFlag_unfold, run_getFs_bind] at hr
  split at hr
  · simp only [run] at hr; cases hr; rfl
  · rcases run_bind_cases hr with ⟨_, d1, h1, h2⟩ | ⟨e, h1, _⟩
    · have hs := run_seekStart_spec _ d h1
      rcases run_bind_cases h2 with ⟨u2, d2, h3, h4⟩ | ⟨e, h3, _⟩
      · have hw := writeAll_dev_within _ d1 h3
        rw [run_modifyFs] at h4
        cases h4
        show SameGeom d.fs { d2.fs with curDirty := _, curIoErr := _ }
        rw [hw.1, hs.1]; rfl
      · have hw := writeAll_dev_within _ d1 h3
        rw [hw.1, hs.1]; rfl
    · rw [(run_seekStart_spec _ d h1).1]; rfl

/-! ### `write_all` of a non-empty buffer lying inside the device, on the inner stream of a slice -/

/-- the status record `FsIoAdapter::write` puts out BEFORE its first write on a volume not yet marked dirty -/
def statusExtra (via : Bool) (fs : FsState) : List LogItem :=
  if via = true ∧ fs.curDirty = false then [statusWrite fs true] else []

/-- the mounted state after a successful write through the inner stream -/
def fsAfter (via : Bool) (fs : FsState) : FsState :=
  if via = true ∧ fs.curDirty = false then { fs with curDirty := fs.bpbDirty || true, curIoErr := fs.bpbIoErr } else fs

theorem fsAfter_geom (via : Bool) (fs : FsState) : SameGeom fs (fsAfter via fs) := by
  unfold fsAfter; split <;> rfl

theorem fsAfter_dirty (fs : FsState) : (fsAfter true fs).curDirty = true := by
  unfold fsAfter
  cases h : fs.curDirty <;> simp [h]

theorem statusExtra_after (via : Bool) (fs : FsState) : statusExtra via (fsAfter via fs) = [] := by
  cases via with
  | false => simp [statusExtra]
  | true => unfold statusExtra; rw [fsAfter_dirty]; simp

theorem fsAfter_idem (via : Bool) (fs : FsState) : fsAfter via (fsAfter via fs) = fsAfter via fs := by
  cases via with
  | false => simp [fsAfter]
  | true =>
    have := fsAfter_dirty fs
    generalize fsAfter true fs = g at *
    unfold fsAfter; rw [this]; simp

theorem statusExtra_dirty {fs : FsState} (h : fs.curDirty = true) (via : Bool) : statusExtra via fs = [] := by
  unfold statusExtra; rw [h]; simp

theorem statusExtra_clean {fs : FsState} (h : fs.curDirty = false) : statusExtra true fs = [statusWrite fs true] := by
  unfold statusExtra; rw [h]; simp

theorem fsAfter_of_dirty {fs : FsState} (h : fs.curDirty = true) (via : Bool) : fsAfter via fs = fs := by
  unfold fsAfter; rw [h]; simp

theorem run_devWrite_full (bs : List Nat) (d : Dev) (hin : d.pos + bs.length ≤ d.img.size) {r d1}
    (hr : run (Prog.write bs) d = (r, d1)) :
    d1.fs = d.fs ∧ ((∃ e, r = .error e ∧ d1.log = d.log) ∨
      (r = .ok bs.length ∧ d1.log = .write d.pos bs :: d.log ∧ d1.pos = d.pos + bs.length)) := by
  simp only [Prog.write, run] at hr
  have h := stepOp_write_exact bs d hr
  have hm : min bs.length (d.img.size - d.pos) = bs.length := by omega
  rw [hm, List.take_length] at h
  exact h

/-- every outcome of `markDirtyBeforeWrite`: geometry kept, records inside the status byte -/
theorem markDirtyBeforeWrite_all (d : Dev) {r d'} (hr : run markDirtyBeforeWrite d = (r, d')) :
    SameGeom d.fs d'.fs ∧ LogAll (StatusRec d.fs) d d' := by
  cases hcd : d.fs.curDirty with
  | true =>
    obtain ⟨_, hd⟩ := (markDirtyBeforeWrite_spec d hr).1 hcd
    subst hd
    exact ⟨rfl, LogAll.refl _ _⟩
  | false =>
    refine ⟨?_, LogAll.of_within ((markDirtyBeforeWrite_spec d hr).2 hcd).1 (fun off bs h1 h2 => ⟨h1, h2⟩)⟩
    unfold markDirtyBeforeWrite at hr
    rcases run_bind_cases hr with ⟨fs, d0, h0, hr⟩ | ⟨e, h0, _⟩
    rotate_left
    · simp only [Prog.getFs, run, stepOp] at h0; cases h0
    simp only [Prog.getFs, run, stepOp] at h0
    cases h0
    rw [if_neg (by rw [hcd]; decide)] at hr
    rcases run_bind_cases hr with ⟨pos, d1, h1, hr⟩ | ⟨e, h1, _⟩
    · have s1 := run_seekCur0_spec d h1
      rcases run_bind_cases hr with ⟨u, d2, h2, hr⟩ | ⟨e, h2, _⟩
      · have ha := (setDirtyFlag_all true d1 h2).1
        rcases run_bind_cases hr with ⟨_, d3, h3, hr⟩ | ⟨e, h3, _⟩
        · have hr' : run (Prog.pure ()) d3 = (r, d') := hr
          simp only [run] at hr'; cases hr'
          rw [← s1.1, (run_seekStart_spec _ d2 h3).1]; exact ha
        · rw [← s1.1, (run_seekStart_spec _ d2 h3).1]; exact ha
      · rw [← s1.1]; exact (setDirtyFlag_all true d1 h2).1
    · rw [(run_seekCur0_spec d h1).1]; rfl

/-- success of `markDirtyBeforeWrite`: the state `fsAfter`, the log `statusExtra`, the position kept -/
theorem markDirtyBeforeWrite_ok (d : Dev) {u : Unit} {d'} (hr : run markDirtyBeforeWrite d = (.ok u, d')) :
    d'.fs = fsAfter true d.fs ∧ d'.log = statusExtra true d.fs ++ d.log ∧ d'.pos = d.pos ∧ d'.img.size = d.img.size := by
  have hsz := run_img_size _ _ _ _ hr
  cases hcd : d.fs.curDirty with
  | true =>
    obtain ⟨_, hd⟩ := (markDirtyBeforeWrite_spec d hr).1 hcd
    subst hd
    exact ⟨(fsAfter_of_dirty hcd _).symm, by rw [statusExtra_dirty hcd]; rfl, rfl, rfl⟩
  | false =>
    obtain ⟨h1, h2, h3⟩ := ((markDirtyBeforeWrite_spec d hr).2 hcd).2 _ rfl
    refine ⟨?_, by rw [h2, statusExtra_clean hcd]; rfl, h3, hsz⟩
    rw [h1]; unfold fsAfter; rw [hcd]; simp

/-- one write through the inner stream -/
theorem inner_write_full (s : DiskSlice) (bs : List Nat) (hne : bs ≠ []) (d : Dev)
    (hin : d.pos + bs.length ≤ d.img.size) {r d'} (hr : run (s.inner.write () bs) d = (r, d')) :
    SameGeom d.fs d'.fs ∧
    LogAll (fun off b => (off = d.pos ∧ b = bs) ∨ StatusRec d.fs off b) d d' ∧
    (∀ v, r = .ok v → v.1 = bs.length ∧ d'.fs = fsAfter s.viaFs d.fs ∧
      d'.log = .write d.pos bs :: (statusExtra s.viaFs d.fs ++ d.log)) := by
  have hlen : bs.length > 0 := by
    cases bs with
    | nil => exact absurd rfl hne
    | cons _ _ => simp
  unfold DiskSlice.inner at hr
  cases hv : s.viaFs with
  | false =>
    simp only [hv, Bool.false_eq_true, if_false, devStrm] at hr
    rcases run_bind_cases hr with ⟨m, d1, h1, h2⟩ | ⟨e, h1, he⟩
    · have hw := run_devWrite_full bs d hin h1
      have h2' : run (Prog.pure (m, ())) d1 = (r, d') := h2
      simp only [run] at h2'; cases h2'
      rcases hw with ⟨hfs, ⟨e, he, _⟩ | ⟨hm, hlog, _⟩⟩
      · cases he
      · cases hm
        refine ⟨by rw [hfs]; rfl, LogAll.cons hlog (Or.inl ⟨rfl, rfl⟩), ?_⟩
        intro v hv'; cases hv'
        exact ⟨rfl, by simp [fsAfter, hfs], by simp [statusExtra, hlog]⟩
    · have hw := run_devWrite_full bs d hin h1
      rcases hw with ⟨hfs, ⟨e', _, hlog⟩ | ⟨hm, _, _⟩⟩
      · exact ⟨by rw [hfs]; rfl, LogAll.of_log_eq hlog, fun v hv' => by rw [he] at hv'; cases hv'⟩
      · cases hm
  | true =>
    simp only [hv, if_true] at hr
    rw [adapterStrm_write_unfold, if_pos hlen] at hr
    rcases run_bind_cases hr with ⟨u, d1, h1, h2⟩ | ⟨e, h1, he⟩
    · have ha := markDirtyBeforeWrite_all d h1
      obtain ⟨hfs1, hlog1, hpos1, hsz1⟩ := markDirtyBeforeWrite_ok d h1
      have hst : LogAll (fun off b => (off = d.pos ∧ b = bs) ∨ StatusRec d.fs off b) d d1 :=
        ha.2.mono (fun off b h => Or.inr h)
      rcases run_bind_cases h2 with ⟨m, d2, h3, h4⟩ | ⟨e, h3, he⟩
      · have h4' : run (Prog.pure (m, ())) d2 = (r, d') := h4
        simp only [run] at h4'; cases h4'
        have hw := run_devWrite_full bs d1 (by rw [hpos1, hsz1]; exact hin) h3
        rcases hw with ⟨hfs, ⟨e, he, _⟩ | ⟨hm, hlog, _⟩⟩
        · cases he
        · cases hm
          refine ⟨by rw [hfs]; exact ha.1, hst.trans (LogAll.cons hlog (Or.inl ⟨hpos1, rfl⟩)), ?_⟩
          intro v hv'; cases hv'
          exact ⟨rfl, by rw [hfs, hfs1], by rw [hlog, hlog1, hpos1]⟩
      · have hw := run_devWrite_full bs d1 (by rw [hpos1, hsz1]; exact hin) h3
        rcases hw with ⟨hfs, ⟨e', _, hlog⟩ | ⟨hm, _, _⟩⟩
        · exact ⟨by rw [hfs]; exact ha.1, hst.trans (LogAll.of_log_eq hlog), fun v hv' => by rw [he] at hv'; cases hv'⟩
        · cases hm
    · have ha := markDirtyBeforeWrite_all d h1
      exact ⟨ha.1, ha.2.mono (fun off b h => Or.inr h), fun v hv' => by rw [he] at hv'; cases hv'⟩


/-- `write_all` of a non-empty buffer lying inside the device on the inner stream: ONE device write -/
theorem inner_writeAll_full (s : DiskSlice) (bs : List Nat) (hne : bs ≠ []) (d : Dev)
    (hin : d.pos + bs.length ≤ d.img.size) {r d'} (hr : run (writeAll s.inner () bs) d = (r, d')) :
    SameGeom d.fs d'.fs ∧
    LogAll (fun off b => (off = d.pos ∧ b = bs) ∨ StatusRec d.fs off b) d d' ∧
    (∀ v, r = .ok v → d'.fs = fsAfter s.viaFs d.fs ∧ d'.log = .write d.pos bs :: (statusExtra s.viaFs d.fs ++ d.log)) := by
  have hlen : bs.length ≠ 0 := by
    cases bs with
    | nil => exact absurd rfl hne
    | cons _ _ => simp
  obtain ⟨k, hk⟩ : ∃ k, bs.length = k + 1 := ⟨bs.length - 1, by omega⟩
  unfold writeAll at hr
  rw [hk] at hr
  unfold writeAllLoop at hr
  have hemp : bs.isEmpty = false := by cases bs <;> simp_all
  simp only [hemp, Bool.false_eq_true, if_false] at hr
  rcases run_bind_cases hr with ⟨⟨n, u⟩, d1, h1, h2⟩ | ⟨e, h1, he⟩
  · have hw := inner_write_full s bs hne d hin h1
    obtain ⟨hn, hfs, hlog⟩ := hw.2.2 _ rfl
    dsimp only at hn h2
    rw [if_neg (by omega), hn, List.drop_length] at h2
    unfold writeAllLoop at h2
    have h2' : run (Prog.pure ()) d1 = (r, d') := h2
    simp only [run] at h2'; cases h2'
    exact ⟨hw.1, hw.2.1, fun v _ => ⟨hfs, hlog⟩⟩
  · have hw := inner_write_full s bs hne d hin h1
    exact ⟨hw.1, hw.2.1, fun v hv => by rw [he] at hv; cases hv⟩

/-! ### `DiskSlice` -/

/-- same window, offset inside it -/
structure SliceInv (s0 s : DiskSlice) : Prop where
  beginOff : s.beginOff = s0.beginOff
  size : s.size = s0.size
  mirrors : s.mirrors = s0.mirrors
  viaFs : s.viaFs = s0.viaFs
  le : s.offset ≤ s.size

/-- the byte range of all copies of a slice -/
def SliceRec (s0 : DiskSlice) (off : Nat) (bs : List Nat) : Prop :=
  s0.beginOff ≤ off ∧ off + bs.length ≤ s0.beginOff + s0.mirrors * s0.size

/-- the log records (newest first) of the writes of `bs` at `off + j*size` for `j = i, …, i+k-1` -/
def mirrorLog (off size : Nat) (bs : List Nat) : Nat → Nat → List LogItem
  | 0, _ => []
  | k + 1, i => mirrorLog off size bs k (i + 1) ++ [.write (off + i * size) bs]

theorem mem_mirrorLog {off size : Nat} {bs : List Nat} : ∀ (k i : Nat) (it : LogItem),
    it ∈ mirrorLog off size bs k i ↔ ∃ j, j < k ∧ it = .write (off + (i + j) * size) bs := by
  intro k
  induction k with
  | zero => intro i it; simp [mirrorLog]
  | succ k ih =>
    intro i it
    simp only [mirrorLog, List.mem_append, List.mem_singleton, ih]
    constructor
    · rintro (⟨j, hj, rfl⟩ | rfl)
      · exact ⟨j + 1, by omega, by rw [show i + 1 + j = i + (j + 1) by omega]⟩
      · exact ⟨0, by omega, by simp⟩
    · rintro ⟨j, hj, rfl⟩
      cases j with
      | zero => right; simp
      | succ j => left; exact ⟨j, by omega, by rw [show i + 1 + j = i + (j + 1) by omega]⟩

theorem run_inner_seek (s : DiskSlice) (n : Nat) (d : Dev) {r d1} (hr : run (s.inner.seek () (.start n)) d = (r, d1)) :
    d1.fs = d.fs ∧ d1.log = d.log ∧ (∀ v, r = .ok v → d1.pos = n) := by
  have hr' : run (Prog.bind (Prog.seekStart n) (fun m => Prog.pure (m, ()))) d = (r, d1) := by
    unfold DiskSlice.inner at hr
    split at hr <;> exact hr
  rcases run_bind_cases hr' with ⟨m, d2, h1, h2⟩ | ⟨e, h1, he⟩
  · simp only [run] at h2; cases h2
    have := run_seekStart_spec n d h1
    exact ⟨this.1, this.2.1, fun v _ => this.2.2 _ rfl⟩
  · have := run_seekStart_spec n d h1
    exact ⟨this.1, this.2.1, fun v hv => by rw [he] at hv; cases hv⟩

/-- `writeMirrors`, every outcome: data records are `bs` at one of the mirror offsets, the rest is the status byte -/
theorem writeMirrors_all (s : DiskSlice) (off : Nat) (bs : List Nat) (hne : bs ≠ []) (sz : Nat) :
    ∀ (k i : Nat) (d : Dev) r d', d.img.size = sz → (∀ j, j < k → off + (i + j) * s.size + bs.length ≤ sz) →
      run (s.writeMirrors off bs k i) d = (r, d') →
      SameGeom d.fs d'.fs ∧
      LogAll (fun o b => (∃ j, j < k ∧ o = off + (i + j) * s.size ∧ b = bs) ∨ StatusRec d.fs o b) d d' := by
  intro k
  induction k with
  | zero =>
    intro i d r d' _ _ hr
    unfold DiskSlice.writeMirrors at hr
    have hr' : run (Prog.pure ()) d = (r, d') := hr
    simp only [run] at hr'; cases hr'
    exact ⟨rfl, LogAll.refl _ _⟩
  | succ k ih =>
    intro i d r d' hsz hin hr
    unfold DiskSlice.writeMirrors at hr
    rcases run_bind_cases hr with ⟨_, d1, h1, h2⟩ | ⟨e, h1, _⟩
    · have hs := run_inner_seek s _ d h1
      have hp := hs.2.2 _ rfl
      have hsz1 : d1.img.size = sz := (run_img_size _ _ _ _ h1).trans hsz
      rcases run_bind_cases h2 with ⟨_, d2, h3, h4⟩ | ⟨e, h3, _⟩
      · have hw := inner_writeAll_full s bs hne d1 (by rw [hp, hsz1]; have := hin 0 (by omega); simpa using this) h3
        have hsz2 : d2.img.size = sz := (run_img_size _ _ _ _ h3).trans hsz1
        have hrec := ih (i + 1) d2 _ _ hsz2 (fun j hj => by
          have := hin (j + 1) (by omega); rw [show i + 1 + j = i + (j + 1) by omega]; exact this) h4
        have hg1 : SameGeom d.fs d2.fs := by rw [← hs.1]; exact hw.1
        refine ⟨hg1.trans hrec.1, ((LogAll.of_log_eq hs.2.1).trans (hw.2.1.mono ?_)).trans (hrec.2.mono ?_)⟩
        · rintro o b (⟨ho, hb⟩ | hst)
          · exact Or.inl ⟨0, by omega, by rw [ho, hp]; simp, hb⟩
          · exact Or.inr (by rw [← hs.1]; exact hst)
        · rintro o b (⟨j, hj, ho, hb⟩ | hst)
          · exact Or.inl ⟨j + 1, by omega, by rw [ho, show i + 1 + j = i + (j + 1) by omega], hb⟩
          · exact Or.inr (hst.geom hg1)
      · have hw := inner_writeAll_full s bs hne d1 (by rw [hp, hsz1]; have := hin 0 (by omega); simpa using this) h3
        refine ⟨by rw [← hs.1]; exact hw.1, (LogAll.of_log_eq hs.2.1).trans (hw.2.1.mono ?_)⟩
        rintro o b (⟨ho, hb⟩ | hst)
        · exact Or.inl ⟨0, by omega, by rw [ho, hp]; simp, hb⟩
        · exact Or.inr (by rw [← hs.1]; exact hst)
    · have hs := run_inner_seek s _ d h1
      exact ⟨by rw [hs.1]; rfl, LogAll.of_log_eq hs.2.1⟩

/-- `writeMirrors`, success, when no status record is due any more -/
theorem writeMirrors_ok_quiet (s : DiskSlice) (off : Nat) (bs : List Nat) (hne : bs ≠ []) (sz : Nat) :
    ∀ (k i : Nat) (d : Dev) (u : Unit) d', d.img.size = sz → (∀ j, j < k → off + (i + j) * s.size + bs.length ≤ sz) →
      statusExtra s.viaFs d.fs = [] → fsAfter s.viaFs d.fs = d.fs →
      run (s.writeMirrors off bs k i) d = (.ok u, d') →
      d'.fs = d.fs ∧ d'.log = mirrorLog off s.size bs k i ++ d.log := by
  intro k
  induction k with
  | zero =>
    intro i d u d' _ _ _ _ hr
    unfold DiskSlice.writeMirrors at hr
    have hr' : run (Prog.pure ()) d = (.ok u, d') := hr
    simp only [run] at hr'; cases hr'
    exact ⟨rfl, rfl⟩
  | succ k ih =>
    intro i d u d' hsz hin hst hfa hr
    unfold DiskSlice.writeMirrors at hr
    rcases run_bind_cases hr with ⟨_, d1, h1, h2⟩ | ⟨e, _, he⟩
    · have hs := run_inner_seek s _ d h1
      have hp := hs.2.2 _ rfl
      have hsz1 : d1.img.size = sz := (run_img_size _ _ _ _ h1).trans hsz
      rcases run_bind_cases h2 with ⟨_, d2, h3, h4⟩ | ⟨e, _, he⟩
      · have hw := inner_writeAll_full s bs hne d1 (by rw [hp, hsz1]; have := hin 0 (by omega); simpa using this) h3
        obtain ⟨hfs2, hlog2⟩ := hw.2.2 _ rfl
        rw [hs.1, hst] at hlog2
        rw [hs.1, hfa] at hfs2
        have hsz2 : d2.img.size = sz := (run_img_size _ _ _ _ h3).trans hsz1
        have hrec := ih (i + 1) d2 _ _ hsz2 (fun j hj => by
          have := hin (j + 1) (by omega); rw [show i + 1 + j = i + (j + 1) by omega]; exact this)
          (by rw [hfs2]; exact hst) (by rw [hfs2]; exact hfa) h4
        refine ⟨hrec.1.trans hfs2, ?_⟩
        rw [hrec.2, hlog2, hp, hs.2.1]
        simp [mirrorLog]
      · cases he
    · cases he

/-- `writeMirrors`, success: `bs` at each mirror offset, in order; the one status record `FsIoAdapter` may owe
    PRECEDES the first of them (fix f695ddf) -/
theorem writeMirrors_ok (s : DiskSlice) (off : Nat) (bs : List Nat) (hne : bs ≠ []) (sz : Nat)
    (k i : Nat) (d : Dev) (u : Unit) (d' : Dev) (hsz : d.img.size = sz)
    (hin : ∀ j, j < k + 1 → off + (i + j) * s.size + bs.length ≤ sz)
    (hr : run (s.writeMirrors off bs (k + 1) i) d = (.ok u, d')) :
    d'.fs = fsAfter s.viaFs d.fs ∧
    d'.log = mirrorLog off s.size bs k (i + 1) ++ (.write (off + i * s.size) bs :: (statusExtra s.viaFs d.fs ++ d.log)) := by
  unfold DiskSlice.writeMirrors at hr
  rcases run_bind_cases hr with ⟨_, d1, h1, h2⟩ | ⟨e, _, he⟩
  · have hs := run_inner_seek s _ d h1
    have hp := hs.2.2 _ rfl
    have hsz1 : d1.img.size = sz := (run_img_size _ _ _ _ h1).trans hsz
    rcases run_bind_cases h2 with ⟨_, d2, h3, h4⟩ | ⟨e, _, he⟩
    · have hw := inner_writeAll_full s bs hne d1 (by rw [hp, hsz1]; have := hin 0 (by omega); simpa using this) h3
      obtain ⟨hfs2, hlog2⟩ := hw.2.2 _ rfl
      rw [hs.1] at hlog2 hfs2
      have hsz2 : d2.img.size = sz := (run_img_size _ _ _ _ h3).trans hsz1
      have hrec := writeMirrors_ok_quiet s off bs hne sz k (i + 1) d2 _ _ hsz2 (fun j hj => by
          have := hin (j + 1) (by omega); rw [show i + 1 + j = i + (j + 1) by omega]; exact this)
          (by rw [hfs2]; exact statusExtra_after _ _) (by rw [hfs2]; exact fsAfter_idem _ _) h4
      refine ⟨hrec.1.trans hfs2, ?_⟩
      rw [hrec.2, hlog2, hp, hs.2.1]
    · cases he
  · cases he


theorem mirror_bound {b o z m j w sz : Nat} (hj : j < m) (ho : o + w ≤ z) (hsz : b + m * z ≤ sz) :
    b + o + j * z + w ≤ sz := by
  have : (j + 1) * z ≤ m * z := Nat.mul_le_mul_right z hj
  rw [Nat.add_mul, Nat.one_mul] at this
  omega

theorem Img.read_length (i : Img) (off len : Nat) : (i.read off len).length = len := by
  simp [Img.read]

theorem run_inner_read_len (s : DiskSlice) (n : Nat) (d : Dev) {bs : List Nat} {u : Unit} {d1 : Dev}
    (hr : run (s.inner.read () n) d = (.ok (bs, u), d1)) : bs.length ≤ n := by
  have hr' : run (Prog.bind (Prog.read n) (fun bs => Prog.pure (bs, ()))) d = (.ok (bs, u), d1) := by
    unfold DiskSlice.inner at hr
    split at hr <;> exact hr
  rcases run_bind_cases hr' with ⟨b, d2, h1, h2⟩ | ⟨e, _, he⟩
  · simp only [run] at h2; cases h2
    simp only [Prog.read, run, stepOp, devCall, devCallCore] at h1
    split at h1
    · cases h1
    · cases h1
      rw [Img.read_length]; exact Nat.min_le_left _ _
  · cases he

section slice
variable {fs0 : FsState} {sz : Nat} {C : Nat → List Nat → Prop} {s0 : DiskSlice}

theorem DiskSlice.read_gs {s : DiskSlice} (hs : SliceInv s0 s) (n : Nat) :
    GS fs0 sz C (s.read n) (fun r => SliceInv s0 r.2) := by
  refine ⟨fun d r d' hg hsz hr => ?_⟩
  have hq := (GS.of_quiet (fs0 := fs0) (sz := sz) (C := C) (DiskSlice.read_quiet s n)).out d r d' hg hsz hr
  refine ⟨hq.1, hq.2.1, ?_⟩
  intro v hv; subst hv
  unfold DiskSlice.read at hr
  rcases run_bind_cases hr with ⟨_, d1, _, h2⟩ | ⟨e, _, he⟩
  · rcases run_bind_cases h2 with ⟨⟨bs, u⟩, d2, h3, h4⟩ | ⟨e, _, he⟩
    · have hlen := run_inner_read_len s _ d1 h3
      have h4' : run (Prog.pure (bs, ({ s with offset := s.offset + bs.length } : DiskSlice))) d2 = (.ok v, d') := h4
      simp only [run] at h4'; cases h4'
      have := hs.le
      exact ⟨hs.beginOff, hs.size, hs.mirrors, hs.viaFs, by show s.offset + bs.length ≤ s.size; omega⟩
    · cases he
  · cases he

theorem DiskSlice.seek_gs {s : DiskSlice} (hs : SliceInv s0 s) (p : SeekFrom) :
    GS fs0 sz C (s.seek p) (fun r => SliceInv s0 r.2) := by
  unfold DiskSlice.seek
  dsimp only
  split
  · split
    · exact GS.fail _
    · rename_i t _ h; exact GS.pure ⟨hs.beginOff, hs.size, hs.mirrors, hs.viaFs, by show t ≤ s.size; omega⟩
  · exact GS.fail _

/-- `DiskSlice::write`: data records inside the window of the copies, the rest is the status byte; the offset stays
    inside the slice -/
theorem DiskSlice.write_gs {s : DiskSlice} (hs : SliceInv s0 s) (hdev : s0.beginOff + s0.mirrors * s0.size ≤ sz)
    (hC : ∀ off b, SliceRec s0 off b → C off b) (hCs : ∀ off b, StatusRec fs0 off b → C off b) (bs : List Nat) :
    GS fs0 sz C (s.write bs) (fun r => SliceInv s0 r.2) := by
  refine ⟨fun d r d' hg hsz hr => ?_⟩
  unfold DiskSlice.write at hr
  dsimp only at hr
  split at hr
  · have hr' : run (Prog.pure ((0 : Nat), s)) d = (r, d') := hr
    simp only [run] at hr'; cases hr'
    exact ⟨hg, LogAll.refl _ _, fun v hv => by cases hv; exact hs⟩
  · rename_i hws
    have hle := hs.le
    have hne : bs.take (min bs.length (s.size - s.offset)) ≠ [] := by
      intro h0
      have := congrArg List.length h0
      simp only [List.length_take, List.length_nil] at this
      omega
    have hin : ∀ j, j < s.mirrors →
        s.beginOff + s.offset + (0 + j) * s.size + (bs.take (min bs.length (s.size - s.offset))).length ≤ sz := by
      intro j hj
      rw [Nat.zero_add]
      refine mirror_bound hj ?_ (by rw [hs.beginOff, hs.size, hs.mirrors]; exact hdev)
      simp only [List.length_take]; omega
    have key : ∀ {r1 d1}, run (s.writeMirrors (s.beginOff + s.offset) (bs.take (min bs.length (s.size - s.offset))) s.mirrors 0) d = (r1, d1) →
        SameGeom fs0 d1.fs ∧ LogAll C d d1 := by
      intro r1 d1 h1
      have hw := writeMirrors_all s _ _ hne sz s.mirrors 0 d _ _ hsz hin h1
      refine ⟨hg.trans hw.1, hw.2.mono ?_⟩
      rintro o b (⟨j, hj, ho, hb⟩ | hst)
      · apply hC
        subst hb
        have hb1 := hin j hj
        have : (j + 1) * s.size ≤ s.mirrors * s.size := Nat.mul_le_mul_right _ hj
        rw [Nat.add_mul, Nat.one_mul] at this
        refine ⟨by rw [ho, ← hs.beginOff]; omega, ?_⟩
        rw [ho, ← hs.beginOff, ← hs.mirrors, ← hs.size]
        simp only [List.length_take, Nat.zero_add] at hb1 ⊢
        omega
      · exact hCs _ _ (hst.geom hg)
    rcases run_bind_cases hr with ⟨_, d1, h1, h2⟩ | ⟨e, h1, he⟩
    · have h2' : run (Prog.pure (min bs.length (s.size - s.offset),
          ({ s with offset := s.offset + min bs.length (s.size - s.offset) } : DiskSlice))) d1 = (r, d') := h2
      simp only [run] at h2'; cases h2'
      have k1 := key h1
      exact ⟨k1.1, k1.2, fun v hv => by
        cases hv
        exact ⟨hs.beginOff, hs.size, hs.mirrors, hs.viaFs, by show s.offset + min _ _ ≤ s.size; omega⟩⟩
    · have k1 := key h1
      exact ⟨k1.1, k1.2, fun v hv => by rw [he] at hv; cases hv⟩

end slice

end FatVerif
