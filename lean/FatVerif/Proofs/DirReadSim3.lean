import FatVerif.Proofs.DirReadSim2
/-! Directory reads, part 3: `read_dir_entry`, the listing loop and `Dir::iter` on the fixed root = the pure reader
    `Lfn.readDirEntries` on the slots of the root region of the image. -/
namespace FatVerif.DirSim

variable (s : DiskSlice) (N : Nat) (hN : s.size = 32 * N)

theorem rootSlots_length (img : Img) : (rootSlots img s).length = s.size / 32 := by
  simp [rootSlots]

include hN in
theorem rootSlots_drop_getD (img : Img) (i j : Nat) (hj : j < ((rootSlots img s).drop i).length) :
    ((rootSlots img s).drop i).getD j [] = img.read (s.beginOff + 32 * (i + j)) 32 := by
  have hl : (rootSlots img s).length = N := by rw [rootSlots_length, hN]; omega
  simp only [List.length_drop, hl] at hj
  simp only [List.getD_eq_getElem?_getD, List.getElem?_drop, rootSlots]
  rw [List.getElem?_map, List.getElem?_range (by rw [hN]; omega)]
  rfl

theorem slice_seekCur0 (o : Nat) (ho : o ≤ s.size) :
    (sliceAt s o).seek (.cur 0) = Prog.pure (o, sliceAt s o) := by
  have h2 : ¬ (s.size < o) := by omega
  have h1 : ¬ ((o : Int) < 0) := by omega
  simp only [DiskSlice.seek, sliceAt, Int.add_zero, h1, if_false, Int.toNat_natCast]
  show (if s.size < o then _ else _) = _
  rw [if_neg h2]
  rfl

/-- `seek(SeekFrom::Current(0))` on a root stream: the offset, nothing moves -/
theorem root_seekCur0_evals (o : Nat) (ho : o ≤ s.size) (d : Dev) :
    Evals (DirStream.seek (.root (sliceAt s o)) (.cur 0)) d (o, .root (sliceAt s o)) := by
  simp only [DirStream.seek, slice_seekCur0 s o ho]
  exact Evals.bind (Evals.pure _ d) (fun d1 _ => Evals.pure _ d1)

include hN in
/-- **`read_dir_entry` on the fixed root** -/
theorem root_readDirEntry_sim (sv : Bool) (i : Nat) (hi : i ≤ N) (d : Dev) (h : d.failAt = none)
    (hdev : s.beginOff + s.size ≤ d.img.size) (hfuel : N < dirFuel d.fs) :
    Evals (readDirEntry sv (.root (sliceAt s (32 * i)))) d
      (((nextEntry d.fs.lfnAlloc sv ((rootSlots d.img s).drop i) i i (LongNameBuilder.new d.fs.lfnAlloc)).1).map
          (toDirEntry s.beginOff),
       .root (sliceAt s (32 * (nextEntry d.fs.lfnAlloc sv ((rootSlots d.img s).drop i) i i
          (LongNameBuilder.new d.fs.lfnAlloc)).2))) := by
  have hl : (rootSlots d.img s).length = N := by rw [rootSlots_length, hN]; omega
  unfold readDirEntry
  refine Evals.bind (Evals.getFs d) (fun d1 hs1 => ?_)
  refine Evals.bind (root_seekCur0_evals s (32 * i) (by rw [hN]; omega) d1) (fun d2 hs2 => ?_)
  dsimp only
  have hs := hs1.trans hs2
  have := root_loop_sim d.fs.lfnAlloc sv s N hN ((rootSlots d.img s).drop i) (dirFuel d.fs) i i
    (LongNameBuilder.new d.fs.lfnAlloc) d2 (by rw [hs.failAt]; exact h) (by rw [hs.img]; exact hdev)
    (by rw [List.length_drop, hl]; omega)
    (fun j hj => by rw [hs.img]; exact rootSlots_drop_getD s N hN d.img i j hj)
    (by rw [List.length_drop, hl]; omega)
  exact this

include hN in
/-- **the listing loop on the fixed root** = the pure reader from slot `i` on -/
theorem root_listLoop_sim : ∀ (fuel i : Nat) (acc : List DirEntry) (d : Dev), i ≤ N → N - i < fuel →
    d.failAt = none → s.beginOff + s.size ≤ d.img.size → N < dirFuel d.fs →
    ∃ o, Evals (listLoop fuel (.root (sliceAt s (32 * i))) acc) d
      (acc.reverse ++ (Lfn.readLoop d.fs.lfnAlloc true ((rootSlots d.img s).drop i) i i
          (LongNameBuilder.new d.fs.lfnAlloc)).map (toDirEntry s.beginOff), .root (sliceAt s o)) := by
  intro fuel
  induction fuel with
  | zero => intro i acc d hi hf; omega
  | succ k ih =>
    intro i acc d hi hf h hdev hfuel
    have hl : (rootSlots d.img s).length = N := by rw [rootSlots_length, hN]; omega
    have hsim := root_readDirEntry_sim s N hN true i hi d h hdev hfuel
    have hidx := nextEntry_idx d.fs.lfnAlloc true ((rootSlots d.img s).drop i) i i (LongNameBuilder.new d.fs.lfnAlloc)
    rw [readLoop_eq_next]
    unfold listLoop
    cases hn : (nextEntry d.fs.lfnAlloc true ((rootSlots d.img s).drop i) i i (LongNameBuilder.new d.fs.lfnAlloc)).1 with
    | none =>
      rw [hn] at hsim
      refine ⟨32 * (nextEntry d.fs.lfnAlloc true ((rootSlots d.img s).drop i) i i
        (LongNameBuilder.new d.fs.lfnAlloc)).2, Evals.bind hsim (fun d1 _ => ?_)⟩
      simp only [Option.map, List.map_nil, List.append_nil]
      exact Evals.pure _ d1
    | some e =>
      rw [hn] at hsim
      obtain ⟨he1, he2⟩ := hidx.2.2 e hn
      have hle : e.endIdx ≤ N := by
        rw [he1]; have := hidx.2.1; rw [List.length_drop, hl] at this; omega
      -- the recursive call starts where `read_dir_entry` stopped
      have hdrop : ((rootSlots d.img s).drop i).drop (e.endIdx - i) = (rootSlots d.img s).drop e.endIdx := by
        rw [List.drop_drop]; congr 1; omega
      simp only [Option.map] at hsim
      rw [← he1] at hsim
      obtain ⟨d1, hr1, hs1⟩ := hsim
      obtain ⟨st, d2, hr2, hs2⟩ := ih e.endIdx (toDirEntry s.beginOff e :: acc) d1 hle (by omega)
        (by rw [hs1.failAt]; exact h) (by rw [hs1.img]; exact hdev) (by rw [hs1.fs]; exact hfuel)
      refine ⟨st, d2, ?_, hs1.trans hs2⟩
      show run (Prog.bind _ _) d = _
      simp only [run, hr1]
      rw [hr2, hs1.fs, hs1.img, hdrop]
      simp

/-- scope exit with a destructor body that does nothing (a fixed-root stream has no entry to write back) -/
theorem Evals.finallyDrop_noop {α} {p : Prog α} {c : Option α → Prog Unit} {d : Dev} {a : α} (h : Evals p d a)
    (hc : ∀ dd : Dev, run (c (some a)) dd = (.ok (), dd)) : Evals (Prog.finallyDrop p c) d a := by
  obtain ⟨d1, hr, hs⟩ := h
  refine ⟨{ ({ d1 with dropDepth := d1.dropDepth + 1 } : Dev) with dropDepth := d1.dropDepth + 1 - 1 }, ?_, ?_⟩
  · simp only [run, hr, hc]
  · exact hs.trans ⟨rfl, rfl, rfl, rfl, rfl, by simp, rfl, rfl, rfl, rfl⟩

include hN in
/-- **`Dir::iter().collect()` on the fixed root** (`listDir`): the entries the pure reader finds in the slots of the
    root region of the image, in order; nothing is written -/
theorem root_listDir_sim (d : Dev) (h : d.failAt = none) (hdev : s.beginOff + s.size ≤ d.img.size)
    (hfuel : N < dirFuel d.fs) :
    Evals (listDir (.root (sliceAt s 0))) d
      ((readDirEntries d.fs.lfnAlloc true (rootSlots d.img s)).map (toDirEntry s.beginOff)) := by
  unfold listDir
  refine Evals.bind (Evals.getFs d) (fun d1 hs1 => ?_)
  obtain ⟨st, d2, hr2, hs2⟩ := root_listLoop_sim s N hN (dirFuel d.fs) 0 [] d1 (Nat.zero_le _) (by omega)
    (by rw [hs1.failAt]; exact h) (by rw [hs1.img]; exact hdev) (by rw [hs1.fs]; exact hfuel)
  simp only [Nat.mul_zero, List.reverse_nil, List.nil_append, List.drop_zero] at hr2
  rw [hs1.fs, hs1.img] at hr2
  unfold withStream
  refine Evals.bind (Evals.finallyDrop_noop ⟨d2, hr2, hs2⟩ (fun dd => rfl)) (fun d3 _ => ?_)
  exact Evals.pure _ d3

end FatVerif.DirSim
