import FatVerif.Proofs.FormatValid
import FatVerif.Proofs.FormatPow2
/-! Where `format_boot_sector` + `validate` can panic. -/
namespace FatVerif.Format

/-! ### the heuristic never panics -/

/-- candidates for the unclamped cluster size when `next_power_of_two(total_bytes) = 2^k` -/
def rawVals (k : Nat) : List Nat :=
  [(2 ^ k / 1048576 * 512) % 4294967296, 1024, 2048, 512, 4096]

theorem rawVals_ok : ∀ k, k < 48 →
    (2 ^ k / (64 * 1048576)) % 4294967296 * 1024 < 4294967296 ∧
    (2 ^ k / (2 * 1073741824)) % 4294967296 * 1024 < 4294967296 ∧
    ∀ x ∈ (2 ^ k / (64 * 1048576)) % 4294967296 * 1024 :: (2 ^ k / (2 * 1073741824)) % 4294967296 * 1024 :: rawVals k,
      ∀ b ∈ [512, 1024, 2048, 4096, 8192, 16384, 32768], isPow2 (clampVal x b) = true := by
  decide +kernel

theorem rawBytesPerCluster_ok (tb k : Nat) (ft : FatType) (hk : k < 48) (hnp : nextPow2 tb = 2 ^ k) :
    ∃ x, rawBytesPerCluster tb ft = .ok x ∧
      x ∈ (2 ^ k / (64 * 1048576)) % 4294967296 * 1024 :: (2 ^ k / (2 * 1073741824)) % 4294967296 * 1024 :: rawVals k := by
  obtain ⟨h1, h2, _⟩ := rawVals_ok k hk
  cases ft <;> simp only [rawBytesPerCluster, hnp]
  · exact ⟨_, rfl, by simp [rawVals]⟩
  · split
    · exact ⟨_, rfl, by simp [rawVals]⟩
    · split
      · exact ⟨_, rfl, by simp [rawVals]⟩
      · rw [chkMul32_of_lt h1]; exact ⟨_, rfl, by simp⟩
  · split
    · exact ⟨_, rfl, by simp [rawVals]⟩
    · split
      · exact ⟨_, rfl, by simp [rawVals]⟩
      · rw [chkMul32_of_lt h2]; exact ⟨_, rfl, by simp⟩

theorem determineBytesPerCluster_total (tb bps : Nat) (ft : Option FatType) (htb : tb ≤ 2 ^ 47)
    (hb : bps ∈ [512, 1024, 2048, 4096, 8192, 16384, 32768]) :
    ∃ c, determineBytesPerCluster tb bps ft = .ok c := by
  obtain ⟨k, hk, hnp⟩ := nextPow2_lt tb htb
  obtain ⟨x, hx, hm⟩ := rawBytesPerCluster_ok tb k (ft.getD (estimateFatType tb)) hk hnp
  have hp := (rawVals_ok k hk).2.2 x hm bps hb
  unfold determineBytesPerCluster
  rw [hx, ok_bind]
  unfold clampCluster
  have : ¬ 32768 < bps := by
    simp only [List.mem_cons, List.mem_nil_iff, or_false] at hb; omega
  rw [if_neg this, if_pos hp]
  exact ⟨_, rfl⟩

theorem total_bytes_le (t bps : Nat) (ht : t < 4294967296)
    (hb : bps ∈ [512, 1024, 2048, 4096, 8192, 16384, 32768]) : t * bps ≤ 2 ^ 47 := by
  simp only [List.mem_cons, List.mem_nil_iff, or_false] at hb
  rcases hb with rfl | rfl | rfl | rfl | rfl | rfl | rfl <;> omega

theorem effectiveBpc_total {o : FormatOpts} (hacc : Accepted o) (t : Nat) (ht : t < 4294967296) :
    ∃ c, effectiveBpc o t = .ok c := by
  unfold effectiveBpc
  split
  · exact ⟨_, rfl⟩
  · exact determineBytesPerCluster_total _ _ _ (total_bytes_le t o.bps ht hacc.bps) hacc.bps

/-! ### the BPB getters on the assembled BPB -/

/-- the BPB `format_bpb` assembles from a layout -/
def bpbOf (o : FormatOpts) (t : Nat) (ft : FatType) (spf spc : Nat) : FBpb :=
  mkBpb o t ⟨ft, reservedFor ft, spf, spc⟩ (if ft = .fat32 then 0 else spf)

theorem bpbOf_sectorsPerFat (o : FormatOpts) (t : Nat) (ft : FatType) (spf spc : Nat) :
    (bpbOf o t ft spf spc).sectorsPerFat = spf := by
  cases ft <;> simp [bpbOf, mkBpb, FBpb.sectorsPerFat, FBpb.isFat32] <;> omega

theorem bpbOf_totalSectors (o : FormatOpts) (t : Nat) (ft : FatType) (spf spc : Nat) :
    (bpbOf o t ft spf spc).totalSectors = t := by
  cases ft <;> simp [bpbOf, mkBpb, FBpb.totalSectors] <;> (try split) <;> simp_all <;> omega

theorem bpbOf_rootDirSectors (o : FormatOpts) (t : Nat) (ft : FatType) (spf spc : Nat) (hb : 0 < o.bps) :
    (bpbOf o t ft spf spc).rootDirSectors = determineRootDirSectors o.rootEntries o.bps ft := by
  cases ft <;> simp [bpbOf, mkBpb, FBpb.rootDirSectors, determineRootDirSectors]
  omega

theorem bpbOf_firstDataSector (o : FormatOpts) (t : Nat) (ft : FatType) (spf spc : Nat) (hb : 0 < o.bps)
    (h1 : o.fats * spf < 4294967296)
    (h2 : reservedFor ft + o.fats * spf + determineRootDirSectors o.rootEntries o.bps ft < 4294967296) :
    (bpbOf o t ft spf spc).firstDataSector =
      .ok (reservedFor ft + o.fats * spf + determineRootDirSectors o.rootEntries o.bps ft) := by
  unfold FBpb.firstDataSector
  rw [bpbOf_sectorsPerFat, bpbOf_rootDirSectors _ _ _ _ _ hb]
  have e1 : (bpbOf o t ft spf spc).fats = o.fats := rfl
  have e2 : (bpbOf o t ft spf spc).reserved = reservedFor ft := rfl
  rw [e1, e2, chkMul32_of_lt h1, ok_bind, chkAdd32_of_lt (by omega), ok_bind, chkAdd32_of_lt h2]

theorem bpbOf_totalClusters (o : FormatOpts) (t : Nat) (ft : FatType) (spf spc : Nat) (hb : 0 < o.bps)
    (h1 : o.fats * spf < 4294967296)
    (h2 : reservedFor ft + o.fats * spf + determineRootDirSectors o.rootEntries o.bps ft < t)
    (ht : t < 4294967296) (hs : spc ≠ 0) :
    (bpbOf o t ft spf spc).totalClusters =
      .ok ((t - (reservedFor ft + o.fats * spf + determineRootDirSectors o.rootEntries o.bps ft)) / spc) := by
  unfold FBpb.totalClusters
  rw [bpbOf_firstDataSector o t ft spf spc hb h1 (by omega), ok_bind, bpbOf_totalSectors,
    chkSub_of_le (by omega), ok_bind]
  have e3 : (bpbOf o t ft spf spc).spc = spc := rfl
  rw [e3, chkDiv_of_ne hs]

/-! ### where `validate` can panic -/

theorem validate_simple_err {b : FBpb} {e : Err} :
    (validateBytesPerSector b = .error e → e = .corrupted) ∧
    (validateSectorsPerCluster b = .error e → e = .corrupted) ∧
    (validateReservedSectors b = .error e → e = .corrupted) ∧
    (validateFats b = .error e → e = .corrupted) ∧
    (validateRootEntries b = .error e → e = .corrupted) ∧
    (validateSectorsPerFat b = .error e → e = .corrupted) := by
  refine ⟨?_, ?_, ?_, ?_, ?_, ?_⟩ <;> intro h
  · unfold validateBytesPerSector at h; repeat' split at h
    all_goals cases h <;> rfl
  · unfold validateSectorsPerCluster at h; repeat' split at h
    all_goals cases h <;> rfl
  · unfold validateReservedSectors at h; repeat' split at h
    all_goals cases h <;> rfl
  · unfold validateFats at h; repeat' split at h
    all_goals cases h <;> rfl
  · unfold validateRootEntries at h; repeat' split at h
    all_goals cases h <;> rfl
  · unfold validateSectorsPerFat at h; repeat' split at h
    all_goals cases h <;> rfl

theorem isPow2_zero : isPow2 0 = false := by decide +kernel

/-- `validate` (as repaired: region sum checked in 64 bits first, FAT capacity in 64 bits) never panics,
    on any BPB whatsoever -/
theorem validateBpb_not_panic (b : FBpb) : validateBpb b ≠ .error .panic := by
  intro h
  unfold validateBpb at h
  split at h
  · cases h
  · have hs := @validate_simple_err b .panic
    rcases bind_err_iff.mp h with h | ⟨_, _, h⟩
    · exact absurd (hs.1 h) (by decide)
    rcases bind_err_iff.mp h with h | ⟨_, h2, h⟩
    · exact absurd (hs.2.1 h) (by decide)
    rcases bind_err_iff.mp h with h | ⟨_, _, h⟩
    · exact absurd (hs.2.2.1 h) (by decide)
    rcases bind_err_iff.mp h with h | ⟨_, _, h⟩
    · exact absurd (hs.2.2.2.1 h) (by decide)
    rcases bind_err_iff.mp h with h | ⟨_, _, h⟩
    · exact absurd (hs.2.2.2.2.1 h) (by decide)
    have hspc : b.spc ≠ 0 := by
      unfold validateSectorsPerCluster at h2
      split at h2
      · cases h2
      · rename_i hp
        intro hz; rw [hz, isPow2_zero] at hp; simp at hp
    -- the region sum fits u32, so `first_data_sector` is that sum
    have hfds : ∀ (hg : ¬ 4294967295 < b.reserved + b.fats * b.sectorsPerFat + b.rootDirSectors),
        b.firstDataSector = .ok (b.reserved + b.fats * b.sectorsPerFat + b.rootDirSectors) := by
      intro hg
      unfold FBpb.firstDataSector
      rw [chkMul32_of_lt (by omega), ok_bind, chkAdd32_of_lt (by omega), ok_bind, chkAdd32_of_lt (by omega)]
    rcases bind_err_iff.mp h with h | ⟨_, h6, h⟩
    · unfold validateTotalSectors at h
      repeat' split at h
      all_goals first | cases h | skip
      rename_i hg
      rw [hfds hg, ok_bind] at h
      split at h <;> cases h
    rcases bind_err_iff.mp h with h | ⟨_, _, h⟩
    · exact absurd (hs.2.2.2.2.2 h) (by decide)
    -- validate_total_sectors succeeded: the sum fits and is below the total
    have h6' : ¬ 4294967295 < b.reserved + b.fats * b.sectorsPerFat + b.rootDirSectors ∧
        ¬ b.totalSectors ≤ b.reserved + b.fats * b.sectorsPerFat + b.rootDirSectors := by
      unfold validateTotalSectors at h6
      repeat' split at h6
      all_goals first | cases h6 | skip
      rename_i hg
      rw [hfds hg, ok_bind] at h6
      split at h6
      · cases h6
      · exact ⟨hg, ‹_›⟩
    unfold validateTotalClusters FBpb.totalClusters at h
    rw [hfds h6'.1, ok_bind, chkSub_of_le (by omega), ok_bind, chkDiv_of_ne hspc, ok_bind] at h
    repeat' split at h
    all_goals cases h

/-! ### layouts -/

/-- everything known about a layout returned by `determine_fs_layout` -/
theorem determineFsLayout_ok_facts {o : FormatOpts} {t : Nat} {L : FsLayout}
    (hacc : Accepted o) (ht : t < 4294967296) (h : determineFsLayout o t = .ok L) :
    ∃ c, effectiveBpc o t = .ok c ∧ c / o.bps ∈ [1, 2, 4, 8, 16, 32, 64, 128] ∧
      L.fatType ∈ allowedTypes o.fatType ∧
      L = ⟨L.fatType, reservedFor L.fatType,
        spfOf t o.bps (c / o.bps) L.fatType.bits (reservedFor L.fatType)
          (determineRootDirSectors o.rootEntries o.bps L.fatType) o.fats, c / o.bps⟩ ∧
      ¬ t ≤ reservedFor L.fatType + determineRootDirSectors o.rootEntries o.bps L.fatType + 8 ∧
      LayoutFacts t o.bps (c / o.bps) L.fatType.bits (reservedFor L.fatType)
        (determineRootDirSectors o.rootEntries o.bps L.fatType) o.fats ∧
      L.fatType = FatType.fromClusters (clOf t (c / o.bps) (reservedFor L.fatType)
        (determineRootDirSectors o.rootEntries o.bps L.fatType) o.fats L.spf) ∧
      clOf t (c / o.bps) (reservedFor L.fatType)
        (determineRootDirSectors o.rootEntries o.bps L.fatType) o.fats L.spf ≤ maxClusters L.fatType := by
  obtain ⟨c, hc, _, h255, hspc, hmem, htry⟩ := determineFsLayout_ok h
  obtain ⟨hnsmall, harith, hres, hspf, hfrom, hmax⟩ := tryFsLayout_ok htry
  have hpos : c / o.bps ≠ 0 := harith.2.2.2.2.2
  have hspcmem := (effectiveBpc_facts hacc hc hpos).2 h255
  have hfacts := layout_facts t o.bps (c / o.bps) (determineRootDirSectors o.rootEntries o.bps L.fatType) o.fats
    L.fatType ht (rds_le _ _ _ hacc.root hacc.bps) hacc.bps hspcmem hacc.fats hnsmall
  refine ⟨c, hc, hspcmem, hmem, ?_, hnsmall, hfacts, hfrom, hmax⟩
  obtain ⟨lft, lres, lspf, lspc⟩ := L
  simp only at hspc hres hspf
  rw [hspc, hres, hspf]

theorem checkClusters_not_panic {ft : FatType} {res spf cl : Nat} :
    checkClusters ft res spf cl ≠ .error .panic := by
  unfold checkClusters
  intro h
  repeat' split at h
  all_goals first | cases h | skip
  rename_i h1 h2
  have h1 : ft = FatType.fromClusters cl := by simpa using h1
  unfold FatType.fromClusters at h1
  cases ft <;> simp only [minClusters] at h2 <;> repeat' split at h1
  all_goals first | omega | cases h1

theorem tryFsLayout_not_panic {t bps spc rds fats : Nat} {ft : FatType}
    (h : ¬ t ≤ reservedFor ft + rds + 8 → LayoutArithOk t bps spc ft.bits (reservedFor ft) rds fats) :
    tryFsLayout t bps spc ft rds fats ≠ .error .panic := by
  rw [tryFsLayout_eq]
  split
  · intro hh; cases hh
  · rename_i hns
    rw [if_pos (h hns)]
    exact checkClusters_not_panic

theorem determineFsLayout_not_panic {o : FormatOpts} {t : Nat} (hacc : Accepted o) (ht : t < 4294967296) :
    determineFsLayout o t ≠ .error .panic := by
  intro h
  unfold determineFsLayout at h
  obtain ⟨c, hc⟩ := effectiveBpc_total hacc t ht
  have hb0 : o.bps ≠ 0 := by
    have := hacc.bps
    simp only [List.mem_cons, List.mem_nil_iff, or_false] at this; omega
  rw [hc, ok_bind, chkDiv_of_ne hb0, ok_bind] at h
  split at h
  · cases h
  · rename_i hpos
    split at h
    · cases h
    · rename_i h255
      rcases tryTypes_err h with h | ⟨_, ft, _, h⟩
      · cases h
      · have hspc := (effectiveBpc_facts hacc hc hpos).2 (by omega)
        exact tryFsLayout_not_panic (fun hns => layout_arith_ok t o.bps (c / o.bps) _ o.fats ft ht
          (rds_le _ _ _ hacc.root hacc.bps) hacc.bps hspc hacc.fats hns) h

/-- `format_bpb` on a layout: the final cluster-count computation succeeds -/
theorem layout_bpb_totalClusters {o : FormatOpts} {t : Nat} {L : FsLayout} {s16 : Nat}
    (hacc : Accepted o) (ht : t < 4294967296) (hL : determineFsLayout o t = .ok L) (hs : spf16Of L = .ok s16) :
    mkBpb o t L s16 = bpbOf o t L.fatType L.spf L.spc ∧
    ∃ cl, (mkBpb o t L s16).totalClusters = .ok cl ∧
      (mkBpb o t L s16).firstDataSector = .ok (reservedFor L.fatType + o.fats * L.spf +
        determineRootDirSectors o.rootEntries o.bps L.fatType) := by
  obtain ⟨c, _, hspc, _, hLeq, hns, hfacts, _, _⟩ := determineFsLayout_ok_facts hacc ht hL
  obtain ⟨hspf1, _, hfit, hf32, _⟩ := hfacts
  have hb0 : 0 < o.bps := by
    have := hacc.bps
    simp only [List.mem_cons, List.mem_nil_iff, or_false] at this; omega
  have hspc0 : c / o.bps ≠ 0 := by
    simp only [List.mem_cons, List.mem_nil_iff, or_false] at hspc; omega
  have hs16 : s16 = if L.fatType = .fat32 then 0 else L.spf := by
    rcases spf16Of_ok hs with ⟨h1, h2⟩ | ⟨h1, h2, _⟩
    · simp [h1, h2]
    · simp [h1, h2]
  have hbeq : mkBpb o t L s16 = bpbOf o t L.fatType L.spf L.spc := by
    rw [hs16]; unfold bpbOf
    have hr : L.reserved = reservedFor L.fatType := by rw [hLeq]
    rw [← hr]
  have hspfeq : L.spf = spfOf t o.bps (c / o.bps) L.fatType.bits (reservedFor L.fatType)
      (determineRootDirSectors o.rootEntries o.bps L.fatType) o.fats := by rw [hLeq]
  have hspceq : L.spc = c / o.bps := by rw [hLeq]
  refine ⟨hbeq, ?_⟩
  rw [hbeq]
  rw [← hspfeq] at hfit hf32
  exact ⟨_, bpbOf_totalClusters o t L.fatType L.spf L.spc hb0 hf32 hfit ht (by rw [hspceq]; exact hspc0),
    bpbOf_firstDataSector o t L.fatType L.spf L.spc hb0 hf32 (by omega)⟩

theorem formatBpb_not_panic {o : FormatOpts} {t : Nat} (hacc : Accepted o) (ht : t < 4294967296) :
    formatBpb o t ≠ .error .panic := by
  intro h
  unfold formatBpb at h
  rcases bind_err_iff.mp h with h | ⟨L, hL, h⟩
  · exact determineFsLayout_not_panic hacc ht h
  rcases bind_err_iff.mp h with h | ⟨s16, hs, h⟩
  · unfold spf16Of at h
    repeat' split at h
    all_goals cases h
  · obtain ⟨_, cl, hcl, _⟩ := layout_bpb_totalClusters hacc ht hL hs
    unfold checkBpbType at h
    rw [hcl, ok_bind] at h
    split at h <;> cases h

/-- C06.1: under the builder's constraints, formatting (`format_boot_sector` + strict `validate`) never panics -/
theorem formatChecked_not_panic {o : FormatOpts} {t : Nat} (hacc : Accepted o) (ht : t < 4294967296) :
    formatChecked o t ≠ .error .panic := by
  intro h
  unfold formatChecked at h
  rcases bind_err_iff.mp h with h | ⟨⟨boot, ft⟩, hr, h⟩
  · unfold formatBootSector at h
    rcases bind_err_iff.mp h with h | ⟨_, _, h⟩
    · exact absurd h (formatBpb_not_panic hacc ht)
    · cases h
  · have hv : validateBoot boot = .error .panic := by
      simp only at h
      split at h
      · cases h
      · assumption
      · cases h
    unfold validateBoot at hv
    split at hv
    · cases hv
    · exact validateBpb_not_panic _ hv

end FatVerif.Format
