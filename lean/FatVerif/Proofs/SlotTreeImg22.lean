import FatVerif.Proofs.SlotTreeImg21
/-!
# Slot trees on a device image, part 22: a sub-directory's slot list behind its two dot slots (groundwork)

The slot model of a sub-directory leaves the two dot slots out; on the image they are the first two slots of the
cluster chain.  This file relates the model's slot functions on `slots` with the same functions on
`s1 :: s2 :: slots` (`s1`, `s2` live short slots): `find_free_entries`, `write_entry`, the delete loop and the listing
shift by two (`findFree_cons_live`, `writeEntry_cons_live`, `deleteRange_cons`, `listing_cons_file`).  Part 23 does the
same for `check_for_existence` (the dot names are neutral for the alias generator).

These are the slot-level facts a `create_file` / `remove` / `rename` BELOW the root needs; the composition itself is
not done (see Props/C01img.lean: the write also re-stamps the directory's record in its parent).
-/
namespace FatVerif
namespace SlotTreeImg
open Lfn DirSlots DirAlias SlotTree

/-! ## `find_free_entries` -/

/-- with no free run open, the remembered start of a run is not read -/
theorem findFreeLoop_ff_irrel (num : Nat) : ∀ (slots : List (List Nat)) (ff ff' i : Nat),
    DirSlots.findFreeLoop num slots ff 0 i = DirSlots.findFreeLoop num slots ff' 0 i := by
  intro slots
  induction slots with
  | nil => intro ff ff' i; simp [DirSlots.findFreeLoop]
  | cons s rest ih =>
    intro ff ff' i
    simp only [DirSlots.findFreeLoop, if_true]
    by_cases h1 : isEnd s = true
    · simp [h1]
    · by_cases h2 : isDeleted s = true
      · simp [h1, h2]
      · simp only [h1, h2, Bool.false_eq_true, if_false]
        exact ih ff ff' (i + 1)

theorem findFreeLoop_shift (num k : Nat) : ∀ (slots : List (List Nat)) (ff nf i : Nat),
    DirSlots.findFreeLoop num slots (ff + k) nf (i + k) = DirSlots.findFreeLoop num slots ff nf i + k := by
  intro slots
  induction slots with
  | nil =>
    intro ff nf i
    simp only [DirSlots.findFreeLoop]
    split <;> rfl
  | cons s rest ih =>
    intro ff nf i
    have e1 : (if nf = 0 then i + k else ff + k) = (if nf = 0 then i else ff) + k := by split <;> rfl
    have e2 : i + k + 1 = (i + 1) + k := by omega
    simp only [DirSlots.findFreeLoop, e1, e2, ih]
    by_cases h1 : isEnd s = true
    · simp [h1]
    · by_cases h2 : isDeleted s = true
      · by_cases h3 : nf + 1 = num
        · simp [h1, h2, h3]
        · simp [h1, h2, h3]
      · simp [h1, h2]

/-- a live slot in front moves the position found by one -/
theorem findFree_cons_live (s : List Nat) (slots : List (List Nat)) (num : Nat) (h1 : isEnd s = false)
    (h2 : isDeleted s = false) : DirSlots.findFree (s :: slots) num = DirSlots.findFree slots num + 1 := by
  unfold DirSlots.findFree
  simp only [DirSlots.findFreeLoop, h1, h2, Bool.false_eq_true, if_false]
  rw [findFreeLoop_ff_irrel num slots 0 (0 + 1) (0 + 1)]
  exact findFreeLoop_shift num 1 slots 0 0 0

/-! ## `write_entry`, the delete loop -/

theorem writeAt_cons (s : List Nat) (slots new : List (List Nat)) (p : Nat) :
    DirSlots.writeAt (s :: slots) (p + 1) new = s :: DirSlots.writeAt slots p new := by
  unfold DirSlots.writeAt
  have : p + 1 + new.length = (p + new.length) + 1 := by omega
  rw [this, List.take_succ_cons, List.drop_succ_cons]
  rfl

theorem writeEntry_cons_live (s : List Nat) (slots : List (List Nat)) (units sfn : List Nat) (h1 : isEnd s = false)
    (h2 : isDeleted s = false) :
    DirSlots.writeEntry (s :: slots) units sfn = s :: DirSlots.writeEntry slots units sfn := by
  unfold DirSlots.writeEntry
  rw [findFree_cons_live s slots _ h1 h2, writeAt_cons]

theorem deleteFrom_shift (k : Nat) : ∀ (slots : List (List Nat)) (i b e : Nat),
    DirSlots.deleteFrom slots (i + k) (b + k) (e + k) = DirSlots.deleteFrom slots i b e := by
  intro slots
  induction slots with
  | nil => intro i b e; rfl
  | cons s rest ih =>
    intro i b e
    have e2 : i + k + 1 = (i + 1) + k := by omega
    simp only [DirSlots.deleteFrom, e2, ih, Nat.add_le_add_iff_right, Nat.add_lt_add_iff_right]

theorem deleteRange_cons (s : List Nat) (slots : List (List Nat)) (b e : Nat) :
    DirSlots.deleteRange (s :: slots) (b + 1) (e + 1) = s :: DirSlots.deleteRange slots b e := by
  unfold DirSlots.deleteRange
  simp only [DirSlots.deleteFrom]
  rw [if_neg (by omega)]
  have := deleteFrom_shift 1 slots 0 b e
  rw [this]

/-! ## the listing -/

theorem shiftE_shiftE (j k : Nat) (e : LfnEntry) : shiftE k (shiftE j e) = shiftE (j + k) e := by
  unfold shiftE
  simp only [Nat.add_assoc]

theorem readLoop_shift (alloc sv : Bool) (k : Nat) : ∀ (L : List (List Nat)) (i bi : Nat) (b : LongNameBuilder),
    Lfn.readLoop alloc sv L (i + k) (bi + k) b = (Lfn.readLoop alloc sv L i bi b).map (shiftE k) := by
  intro L
  induction L with
  | nil => intro i bi b; rfl
  | cons s rest ih =>
    intro i bi b
    have e2 : i + k + 1 = (i + 1) + k := by omega
    simp only [Lfn.readLoop, e2]
    split
    · rfl
    · exact ih _ _ _
    · exact ih _ _ _
    · split
      · exact ih _ _ _
      · rw [List.map_cons, ih]; rfl
    · rw [List.map_cons, ih]; rfl

/-- a live short slot in front: its own entry (no long name), then the listing moved by one -/
theorem listing_cons_file (s : List Nat) (slots : List (List Nat)) (hc : slotClass s = .file) :
    listing (s :: slots) =
      ⟨s, (LongNameBuilder.new true).finish true (sfnName s), 0, 1⟩ :: (listing slots).map (shiftE 1) := by
  unfold listing readDirEntries
  simp only [Lfn.readLoop, hc]
  have := readLoop_shift true true 1 slots 0 0 (LongNameBuilder.new true)
  rw [← this]

end SlotTreeImg
end FatVerif
