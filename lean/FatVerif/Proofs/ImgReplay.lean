import FatVerif.Proofs.ImgLemmas
import FatVerif.Proofs.Prog
/-! The device image is the replay of the device log: for every program, `run p d = (r, d')` implies that the bytes of
    `d'.img` are those of `d.img` with the records appended to the log applied in order (`run_img_eq_replay`). This
    turns every statement about the write log into a statement about the image. -/
namespace FatVerif

/-- effect of one record on the bytes -/
def applyRec (g : Nat → Nat) : LogItem → Nat → Nat
  | .write off bs, p => if off ≤ p ∧ p < off + bs.length then bs.getD (p - off) 0 else g p
  | .flush, p => g p

/-- effect of a list of records, newest first -/
def replay (g : Nat → Nat) : List LogItem → Nat → Nat
  | [] => g
  | it :: older => applyRec (replay g older) it

theorem replay_append (g : Nat → Nat) (a b : List LogItem) : replay g (a ++ b) = replay (replay g b) a := by
  induction a with
  | nil => rfl
  | cons it a ih => simp only [List.cons_append, replay, ih]

/-- a device stores bytes: the values of a record taken modulo 256 (what `Img.write` stores) -/
def LogItem.norm : LogItem → LogItem
  | .write off bs => .write off (bs.map (· % 256))
  | .flush => .flush

theorem getD_map_mod (bs : List Nat) (i : Nat) : (bs.map (· % 256)).getD i 0 = bs.getD i 0 % 256 := by
  simp only [List.getD_eq_getElem?_getD, List.getElem?_map]
  cases bs[i]? <;> rfl

/-- the image after is the image before with the appended log records applied (given the page table is well formed,
    which is then preserved) -/
def ImgRel (d d' : Dev) : Prop :=
  d.img.WF → d'.img.WF ∧ ∃ items, d'.log = items ++ d.log ∧
    ∀ q, d'.img.getByte q = replay d.img.getByte (items.map LogItem.norm) q

theorem imgRel_ok : RelOK ImgRel where
  refl := fun d h => ⟨h, [], rfl, fun _ => rfl⟩
  trans := by
    intro a b c h1 h2 ha
    obtain ⟨hb, i1, e1, g1⟩ := h1 ha
    obtain ⟨hc, i2, e2, g2⟩ := h2 hb
    refine ⟨hc, i2 ++ i1, by rw [e2, e1, List.append_assoc], fun q => ?_⟩
    have hfun : b.img.getByte = replay a.img.getByte (i1.map LogItem.norm) := funext g1
    rw [g2 q, hfun, List.map_append, replay_append]
  depth := fun d n h => ⟨h, [], rfl, fun _ => rfl⟩

theorem stepOp_imgRel (o : Op) (d : Dev) (r : Except Err (Resp o)) (d' : Dev) (hr : stepOp o d = (r, d')) :
    ImgRel d d' := by
  have hcnt : ∀ k, (d.count k).img = d.img ∧ (d.count k).log = d.log := by
    intro k; unfold Dev.count; cases k <;> simp
  have dc : ∀ {β} (k : CallKind) (act : Dev → Except Err β × Dev),
      (∀ d0 r d1, act d0 = (r, d1) → ImgRel d0 d1) →
      ∀ {r d'}, devCall k d act = (r, d') → ImgRel d d' := by
    intro β k act hact r d' h
    unfold devCall devCallCore at h
    split at h
    · cases h
      intro hw
      exact ⟨by rw [(hcnt k).1]; exact hw, [], by simp [(hcnt k).2], fun q => by simp [(hcnt k).1, replay]⟩
    · have := hact _ _ _ h
      intro hw
      have h2 := this (by rw [(hcnt k).1]; exact hw)
      rw [(hcnt k).1, (hcnt k).2] at h2
      exact h2
  have same : ∀ {d0 d1 : Dev}, d1.img = d0.img → d1.log = d0.log → ImgRel d0 d1 := by
    intro d0 d1 hi hl hw
    exact ⟨by rw [hi]; exact hw, [], by simp [hl], fun q => by simp [hi, replay]⟩
  cases o with
  | write bs =>
    simp only [stepOp] at hr
    refine dc _ _ ?_ hr
    intro d0 r d1 h
    cases h
    intro hw
    refine ⟨Img.wf_write _ hw _ _, [.write d0.pos (bs.take (min bs.length (d0.img.size - d0.pos)))], rfl, fun q => ?_⟩
    simp only [List.map, LogItem.norm, replay, applyRec, List.length_map, getD_map_mod]
    exact Img.getByte_write _ hw _ _ q
  | read n => simp only [stepOp] at hr; exact dc _ _ (by intro d0 r d1 h; cases h; exact same rfl rfl) hr
  | seek p =>
    simp only [stepOp] at hr
    refine dc _ _ ?_ hr
    intro d0 r d1 h
    cases p with
    | start n => cases h; exact same rfl rfl
    | cur x => simp only at h; split at h <;> cases h <;> exact same rfl rfl
    | fromEnd x => simp only at h; split at h <;> cases h <;> exact same rfl rfl
  | flush =>
    simp only [stepOp] at hr
    refine dc _ _ ?_ hr
    intro d0 r d1 h; cases h
    intro hw
    exact ⟨hw, [.flush], rfl, fun q => rfl⟩
  | now => simp only [stepOp] at hr; cases hr; exact same rfl rfl
  | today => simp only [stepOp] at hr; cases hr; exact same rfl rfl
  | getFs => simp only [stepOp] at hr; cases hr; exact same rfl rfl
  | setFs fs => simp only [stepOp] at hr; cases hr; exact same rfl rfl

/-- **`run_img_eq_replay`**: for every program and every run, on a well-formed image: the image afterwards is the image
    before with the records the run appended to the log — their bytes taken modulo 256 — replayed on it (and is well formed
    again) -/
theorem run_img_eq_replay {α} (p : Prog α) (d : Dev) (r : Except Err α) (d' : Dev) (hr : run p d = (r, d'))
    (hw : d.img.WF) :
    d'.img.WF ∧ ∃ items, d'.log = items ++ d.log ∧
      ∀ q, d'.img.getByte q = replay d.img.getByte (items.map LogItem.norm) q :=
  (steps_of_ops imgRel_ok stepOp_imgRel p).out d r d' hr hw

/-- flush records do not matter for the bytes -/
theorem replay_filter (g : Nat → Nat) (l : List LogItem) : replay g (l.filter LogItem.isWrite) = replay g l := by
  induction l with
  | nil => rfl
  | cons it l ih =>
    cases it with
    | flush => simp only [List.filter_cons, LogItem.isWrite, Bool.false_eq_true, if_false, replay, ih]; rfl
    | write off bs => simp only [List.filter_cons, LogItem.isWrite, if_true, replay, ih]

end FatVerif
