import FatVerif.Model.Time
/-! Lemmas about DOS date/time packing: the `|`/`<<` expressions are plain positional arithmetic on the reachable
    ranges, and encode/decode are mutually inverse up to the documented resolution. -/
namespace FatVerif

/-- `(a << k) | b = (a << k) + b` when `b` fits below bit `k` -/
theorem mul_or_eq_add (a b k : Nat) (h : b < 2 ^ k) : a * 2 ^ k ||| b = a * 2 ^ k + b := by
  rw [← Nat.shiftLeft_eq]; exact (Nat.shiftLeft_add_eq_or_of_lt h a).symm

/-! ### Date -/

theorem Date.new?_eq_some {y m d : Nat} {dt : Date} (h : Date.new? y m d = some dt) :
    Date.inRange y m d ∧ dt = ⟨y, m, d⟩ := by
  unfold Date.new? at h
  split at h
  · exact ⟨by assumption, by cases h; rfl⟩
  · cases h

theorem Date.new?_eq_none {y m d : Nat} : Date.new? y m d = none ↔ ¬ Date.inRange y m d := by
  unfold Date.new?; split <;> simp [*]

/-- on every date `new`/`decode` can produce, the packed value is the positional sum -/
theorem Date.encode_eq (d : Date) (hy : 1980 ≤ d.year) (hy2 : d.year ≤ 2107) (hm : d.month < 16)
    (hd : d.day < 32) : d.encode = (d.year - 1980) * 512 + d.month * 32 + d.day := by
  unfold Date.encode
  have h1 : (d.year - 1980) * 512 % 65536 = (d.year - 1980) * 2 ^ 9 := by omega
  have h2 : d.month * 32 % 65536 = d.month * 32 := by omega
  rw [h1, h2, mul_or_eq_add _ _ 9 (by omega)]
  have h3 : (d.year - 1980) * 2 ^ 9 + d.month * 32 = ((d.year - 1980) * 16 + d.month) * 2 ^ 5 := by omega
  rw [h3, mul_or_eq_add _ _ 5 (by omega)]

/-- the result of `encode` is a u16 whenever the day is (always, for u16 fields) -/
theorem Date.encode_lt (d : Date) (hd : d.day < 65536) : d.encode < 65536 := by
  unfold Date.encode
  exact Nat.or_lt_two_pow (n := 16) (Nat.or_lt_two_pow (n := 16) (Nat.mod_lt _ (by decide))
    (Nat.mod_lt _ (by decide))) hd

theorem Date.decode_encode (d : Date) (hy : 1980 ≤ d.year) (hy2 : d.year ≤ 2107) (hm : d.month < 16)
    (hd : d.day < 32) : Date.decode d.encode = d := by
  rw [Date.encode_eq d hy hy2 hm hd]
  cases d with
  | mk y m dd =>
    simp only [Date.decode, Date.mk.injEq] at *
    omega

theorem Date.decode_year_ge (raw : Nat) : 1980 ≤ (Date.decode raw).year := by
  simp only [Date.decode]; omega

theorem Date.decode_range (raw : Nat) (h : raw < 65536) :
    (Date.decode raw).year ≤ 2107 ∧ (Date.decode raw).month < 16 ∧ (Date.decode raw).day < 32 := by
  simp only [Date.decode]; omega

/-- every raw u16 is reproduced: `decode` is injective on u16, `encode` is its inverse -/
theorem Date.encode_decode (raw : Nat) (h : raw < 65536) : (Date.decode raw).encode = raw := by
  have r := Date.decode_range raw h
  rw [Date.encode_eq _ (Date.decode_year_ge raw) r.1 r.2.1 r.2.2]
  simp only [Date.decode]; omega

/-! ### Time -/

theorem Time.new?_eq_some {h mi s ms : Nat} {t : Time} (hh : Time.new? h mi s ms = some t) :
    Time.inRange h mi s ms ∧ t = ⟨h, mi, s, ms⟩ := by
  unfold Time.new? at hh
  split at hh
  · exact ⟨by assumption, by cases hh; rfl⟩
  · cases hh

theorem Time.new?_eq_none {h mi s ms : Nat} : Time.new? h mi s ms = none ↔ ¬ Time.inRange h mi s ms := by
  unfold Time.new?; split <;> simp [*]

/-- positional form of the packed time on the fields' bit widths (covers `new` and `decode` values with sec ≤ 63) -/
theorem Time.encodeLo_eq (t : Time) (hh : t.hour < 32) (hm : t.min < 64) (hs : t.sec < 64) :
    t.encodeLo = t.hour * 2048 + t.min * 32 + t.sec / 2 := by
  unfold Time.encodeLo
  have h1 : t.hour * 2048 % 65536 = t.hour * 2 ^ 11 := by omega
  have h2 : t.min * 32 % 65536 = t.min * 32 := by omega
  rw [h1, h2, mul_or_eq_add _ _ 11 (by omega)]
  have h3 : t.hour * 2 ^ 11 + t.min * 32 = (t.hour * 64 + t.min) * 2 ^ 5 := by omega
  rw [h3, mul_or_eq_add _ _ 5 (by omega)]

theorem Time.encodeHi_eq (t : Time) (hms : t.millis < 1560) : t.encodeHi = t.millis / 10 + t.sec % 2 * 100 := by
  unfold Time.encodeHi; omega

theorem Time.encodeLo_lt (t : Time) (hs : t.sec < 131072) : t.encodeLo < 65536 := by
  unfold Time.encodeLo
  exact Nat.or_lt_two_pow (n := 16) (Nat.or_lt_two_pow (n := 16) (Nat.mod_lt _ (by decide))
    (Nat.mod_lt _ (by decide))) (by omega)

theorem Time.encodeHi_lt (t : Time) : t.encodeHi < 256 := by
  unfold Time.encodeHi; omega

/-- creation stamp: everything but the last digit of the milliseconds survives -/
theorem Time.decode_encode (t : Time) (h : Time.inRange t.hour t.min t.sec t.millis) :
    Time.decode t.encodeLo t.encodeHi = t.round10 := by
  unfold Time.inRange at h
  rw [Time.encodeLo_eq t (by omega) (by omega) (by omega), Time.encodeHi_eq t (by omega)]
  cases t with
  | mk hh mi s ms =>
    simp only [Time.decode, Time.round10, Time.mk.injEq] at *
    omega

/-- modification stamp (hi-res byte dropped, decoded with 0): 2 s resolution -/
theorem Time.decode_encode_mod (t : Time) (h : Time.inRange t.hour t.min t.sec t.millis) :
    Time.decode t.encodeLo 0 = t.round2s := by
  unfold Time.inRange at h
  rw [Time.encodeLo_eq t (by omega) (by omega) (by omega)]
  cases t with
  | mk hh mi s ms =>
    simp only [Time.decode, Time.round2s, Time.mk.injEq] at *
    and_intros <;> first | omega | trivial

/-- every stored (u16, hi-res < 200) pair is reproduced by `encode ∘ decode` -/
theorem Time.encode_decode (raw hi : Nat) (h : raw < 65536) (hhi : hi < 200) :
    (Time.decode raw hi).encode = (raw, hi) := by
  have e1 := Time.encodeLo_eq (Time.decode raw hi) (by simp only [Time.decode]; omega)
    (by simp only [Time.decode]; omega) (by simp only [Time.decode]; omega)
  have e2 := Time.encodeHi_eq (Time.decode raw hi) (by simp only [Time.decode]; omega)
  rw [Time.encode, e1, e2]
  simp only [Time.decode, Prod.mk.injEq]
  omega

/-- the stored modification time (hi-res byte 0) is reproduced -/
theorem Time.encodeLo_decode_zero (raw : Nat) (h : raw < 65536) : (Time.decode raw 0).encodeLo = raw := by
  have := Time.encode_decode raw 0 h (by omega)
  simp only [Time.encode, Prod.mk.injEq] at this
  exact this.1

/-! ### DateTime -/

theorem DateTime.new?_eq_some {y m d h mi s ms : Nat} {dt : DateTime}
    (hh : DateTime.new? y m d h mi s ms = some dt) :
    Date.inRange y m d ∧ Time.inRange h mi s ms ∧ dt = ⟨⟨y, m, d⟩, ⟨h, mi, s, ms⟩⟩ := by
  unfold DateTime.new? at hh
  split at hh
  · rename_i d' t' hd ht
    obtain ⟨r1, rfl⟩ := Date.new?_eq_some hd
    obtain ⟨r2, rfl⟩ := Time.new?_eq_some ht
    cases hh
    exact ⟨r1, r2, rfl⟩
  · cases hh

end FatVerif
