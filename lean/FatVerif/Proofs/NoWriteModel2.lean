import FatVerif.Proofs.NoWriteModel1
/-! C13, part 2: read-only judgements (`RO`) that track the cleanliness of handles: with `update_accessed_date` off,
    reading and seeking never touch a handle's directory-entry editor, so the destructors of the clones made by the
    lookup/iteration code find nothing to write back. -/
namespace FatVerif

/-- the handle's directory-entry editor has nothing to write back -/
def CleanFile (f : FileH) : Prop := ∀ e, f.entry = some e → e.dirty = false

def CleanStream : DirStream → Prop
  | .file f => CleanFile f
  | .root _ => True

/-- the mounted state has nothing to write back at unmount: status flags as read at mount, FS-info not dirty -/
def CleanFs (fs : FsState) : Prop :=
  fs.curDirty = fs.bpbDirty ∧ fs.curIoErr = fs.bpbIoErr ∧ fs.fsInfo.dirty = false

theorem cleanFile_of_entry_eq {f g : FileH} (h : g.entry = f.entry) (hf : CleanFile f) : CleanFile g := by
  intro e he; exact hf e (h ▸ he)

syntax "ro_step" ("[" Lean.Parser.Tactic.SolveByElim.arg,* "]")? : tactic
macro_rules
  | `(tactic| ro_step) => `(tactic| ro_step [])
  | `(tactic| ro_step [$ts,*]) => `(tactic| first
    | with_reducible_and_instances exact RO.fail _
    | focus ((with_reducible_and_instances refine RO.pure ?_);
             (first | with_reducible rfl | trivial | assumption | (simp_all; done)))
    | intro _
    | apply_assumption (transparency := .reducible) (exfalso := false) (symm := false) only [*, $ts,*]
    | (with_reducible_and_instances apply RO.bind RO.getFs
       intro fs hfs; subst hfs)
    | (with_reducible_and_instances apply RO.bind
       case hp => first
         | apply_assumption (transparency := .reducible) (exfalso := false) (symm := false) only [*, $ts,*]
         | exact RO.of_quiet (by quiet [$ts,*]))
    | exact RO.of_quiet (by quiet [$ts,*])
    | dsimp only
    | split
    | focus (exfalso; simp_all; done))

syntax "ro" ("[" Lean.Parser.Tactic.SolveByElim.arg,* "]")? : tactic
macro_rules
  | `(tactic| ro) => `(tactic| repeat ro_step [])
  | `(tactic| ro [$ts,*]) => `(tactic| repeat ro_step [$ts,*])

/-! ### `File` -/

namespace FileH

/-- with `update_accessed_date` off, `read` leaves the editor alone -/
theorem read_ro {fs0 : FsState} (hacc : fs0.accDate = false) (f : FileH) (n : Nat) :
    RO fs0 (f.read n) (fun r => r.2.entry = f.entry) := by
  unfold read
  ro [boundaryCluster_quiet, offsetFromClusterP_quiet]

theorem seek_ro {fs0 : FsState} (f : FileH) (p : SeekFrom) : RO fs0 (f.seek p) (fun r => r.2.entry = f.entry) := by
  unfold seek
  ro [seekWalk_quiet]

end FileH

/-! ### flushing / dropping a clean handle -/

theorem FileH.flushDirEntry_clean_ro {fs0 : FsState} {f : FileH} (hf : CleanFile f) :
    RO fs0 f.flushDirEntry (fun f' => f' = f) := by
  unfold FileH.flushDirEntry
  split
  · rename_i e he
    have := hf e he
    simp only [this]
    exact RO.pure rfl
  · exact RO.pure rfl

/-- `File::flush` on a clean handle: only the device flush -/
theorem FileH.flush_clean_ro {fs0 : FsState} {f : FileH} (hf : CleanFile f) : RO fs0 f.flush (fun f' => f' = f) := by
  unfold FileH.flush
  refine RO.bind (FileH.flushDirEntry_clean_ro hf) (fun f' hf' => ?_)
  subst hf'
  exact RO.bind (RO.of_quiet QuietOps.progFlush) (fun _ _ => RO.pure rfl)

theorem inDrop_ro {fs0 : FsState} {c : Prog Unit} (hc : RO fs0 c (fun _ => True)) :
    RO fs0 (Prog.inDrop c) (fun _ => True) :=
  RO.finallyDrop (RO.pure trivial) (fun _ _ => hc) hc

theorem FileH.dropBody_clean_ro {fs0 : FsState} {f : FileH} (hf : CleanFile f) :
    RO fs0 (do let _ ← f.flush; pure ()) (fun _ => True) :=
  RO.bind (FileH.flush_clean_ro hf) (fun _ _ => RO.pure trivial)

/-- `impl Drop for File` on a clean handle -/
theorem FileH.drop_clean_ro {fs0 : FsState} {f : FileH} (hf : CleanFile f) : RO fs0 f.drop (fun _ => True) :=
  inDrop_ro (FileH.dropBody_clean_ro hf)

/-! ### `DirStream` -/

namespace DirStream

theorem read_ro {fs0 : FsState} (hacc : fs0.accDate = false) {st : DirStream} (hst : CleanStream st) (n : Nat) :
    RO fs0 (st.read n) (fun r => CleanStream r.2) := by
  cases st with
  | file f =>
    simp only [read]
    refine RO.bind (FileH.read_ro hacc f n) (fun b hb => ?_)
    exact RO.pure (cleanFile_of_entry_eq hb hst)
  | root s =>
    simp only [read]
    refine RO.bind (RO.of_quiet (DiskSlice.read_quiet _ _)) (fun _ _ => ?_)
    exact RO.pure trivial

theorem seek_ro {fs0 : FsState} {st : DirStream} (hst : CleanStream st) (p : SeekFrom) :
    RO fs0 (st.seek p) (fun r => CleanStream r.2) := by
  cases st with
  | file f =>
    simp only [seek]
    refine RO.bind (FileH.seek_ro f p) (fun b hb => ?_)
    exact RO.pure (cleanFile_of_entry_eq hb hst)
  | root s =>
    simp only [seek]
    refine RO.bind (RO.of_quiet (DiskSlice.seek_quiet _ _)) (fun _ _ => ?_)
    exact RO.pure trivial

theorem absPos_quiet (fs) (st : DirStream) : QuietOps (st.absPos fs) := by
  unfold absPos; quiet [FileH.absPos_quiet]

theorem dropBody_clean_ro {fs0 : FsState} {st : DirStream} (hst : CleanStream st) :
    RO fs0 st.dropBody (fun _ => True) := by
  unfold dropBody
  split
  · exact FileH.dropBody_clean_ro hst
  · exact RO.pure trivial

/-- dropping a clean directory handle -/
theorem drop_clean_ro {fs0 : FsState} {st : DirStream} (hst : CleanStream st) : RO fs0 st.drop (fun _ => True) :=
  inDrop_ro (dropBody_clean_ro hst)

end DirStream

/-- run on a clone: if the body keeps the stream clean, the destructor of the clone writes nothing -/
theorem withStream_ro {α} {fs0 : FsState} {st0 : DirStream} (h0 : CleanStream st0) {body : Prog (α × DirStream)}
    (hb : RO fs0 body (fun r => CleanStream r.2)) : RO fs0 (withStream st0 body) (fun _ => True) := by
  unfold withStream
  refine RO.bind (RO.finallyDrop hb ?_ ?_) (fun _ _ => ?_)
  · rintro ⟨a, st⟩ hst; exact DirStream.dropBody_clean_ro hst
  · exact DirStream.dropBody_clean_ro h0
  · split; exact RO.pure trivial

theorem thenDrop_ro {α} {fs0 : FsState} {st : DirStream} (hst : CleanStream st) {body : Prog α} {Post : α → Prop}
    (hb : RO fs0 body Post) : RO fs0 (thenDrop st body) Post := by
  unfold thenDrop
  exact RO.finallyDrop hb (fun _ _ => DirStream.dropBody_clean_ro hst) (DirStream.dropBody_clean_ro hst)

/-! ### `read_exact` and friends on a stream whose `read`/`seek` keep an invariant of the stream state -/

structure StrmRO {σ} (fs0 : FsState) (S : Strm σ) (C : σ → Prop) : Prop where
  read : ∀ s n, C s → RO fs0 (S.read s n) (fun r => C r.2)
  seek : ∀ s p, C s → RO fs0 (S.seek s p) (fun r => C r.2)

theorem DirStream.strm_ro {fs0 : FsState} (hacc : fs0.accDate = false) : StrmRO fs0 DirStream.strm CleanStream :=
  ⟨fun _ n hs => DirStream.read_ro hacc hs n, fun _ p hs => DirStream.seek_ro hs p⟩

section generic
variable {σ : Type} {fs0 : FsState} {S : Strm σ} {C : σ → Prop} (hS : StrmRO fs0 S C)
include hS

theorem readExactLoop_ro : ∀ fuel s n acc, C s → RO fs0 (readExactLoop S fuel s n acc) (fun r => C r.2) := by
  intro fuel
  induction fuel with
  | zero => intros; unfold readExactLoop; exact RO.fail _
  | succ k ih =>
    intro s n acc hs
    unfold readExactLoop
    split
    · exact RO.pure hs
    · refine RO.bind (hS.read s n hs) ?_
      rintro ⟨got, s'⟩ hs'
      dsimp only
      split
      · exact RO.fail _
      · exact ih _ _ _ hs'

theorem readExact_ro (s n) (hs : C s) : RO fs0 (readExact S s n) (fun r => C r.2) :=
  readExactLoop_ro hS _ _ _ _ hs

theorem readU8_ro (s) (hs : C s) : RO fs0 (readU8 S s) (fun r => C r.2) := by
  unfold readU8
  refine RO.bind (readExact_ro hS s 1 hs) ?_
  rintro ⟨bs, s'⟩ hs'
  exact RO.pure hs'

theorem readChunks_ro : ∀ ns s acc, C s → RO fs0 (readChunks S s ns acc) (fun r => C r.2) := by
  intro ns
  induction ns with
  | nil => intro s acc hs; unfold readChunks; exact RO.pure hs
  | cons n rest ih =>
    intro s acc hs
    unfold readChunks
    refine RO.bind (readExact_ro hS s n hs) ?_
    rintro ⟨bs, s'⟩ hs'
    exact ih _ _ hs'

end generic

/-! ### directory iteration -/

section dir
variable {fs0 : FsState} (hacc : fs0.accDate = false)
include hacc

theorem readSlot_ro {st : DirStream} (hst : CleanStream st) : RO fs0 (readSlot st) (fun r => CleanStream r.2) := by
  have hS := DirStream.strm_ro hacc
  unfold readSlot
  refine RO.bind (Q := fun r => ∀ p, r = some p → CleanStream p.2) ?_ ?_
  · refine RO.tryCatch ?_ ?_
    · refine RO.bind (readExact_ro hS st 11 hst) ?_
      rintro ⟨bs, st'⟩ hst'
      refine RO.pure ?_
      intro p hp; cases hp; exact hst'
    · intro e
      split
      · refine RO.pure ?_
        intro p hp; cases hp
      · exact RO.fail _
  · intro r hr
    split
    · exact RO.pure hst
    · rename_i name st'
      have hst' : CleanStream st' := hr _ rfl
      refine RO.bind (readU8_ro hS st' hst') ?_
      rintro ⟨attrs, st2⟩ hst2
      refine RO.bind (readChunks_ro hS _ st2 [] hst2) ?_
      rintro ⟨tail, st3⟩ hst3
      exact RO.pure hst3

theorem readDirEntryLoop_ro (alloc skipVolume : Bool) :
    ∀ fuel st offset beginOff b, CleanStream st →
      RO fs0 (readDirEntryLoop alloc skipVolume fuel st offset beginOff b) (fun r => CleanStream r.2) := by
  intro fuel
  induction fuel with
  | zero => intros; unfold readDirEntryLoop; exact RO.fail _
  | succ k ih =>
    intro st offset beginOff b hst
    unfold readDirEntryLoop
    refine RO.bind (readSlot_ro hacc hst) ?_
    rintro ⟨raw, st'⟩ hst'
    ro [DirStream.absPos_quiet]

theorem readDirEntry_ro (skipVolume : Bool) {st : DirStream} (hst : CleanStream st) :
    RO fs0 (readDirEntry skipVolume st) (fun r => CleanStream r.2) := by
  unfold readDirEntry
  refine RO.bind RO.getFs (fun fs _ => ?_)
  refine RO.bind (DirStream.seek_ro hst _) ?_
  rintro ⟨offset, st'⟩ hst'
  exact readDirEntryLoop_ro hacc _ _ _ _ _ _ _ hst'

theorem listLoop_ro : ∀ fuel st acc, CleanStream st → RO fs0 (listLoop fuel st acc) (fun r => CleanStream r.2) := by
  intro fuel
  induction fuel with
  | zero => intros; unfold listLoop; exact RO.fail _
  | succ k ih =>
    intro st acc hst
    unfold listLoop
    refine RO.bind (readDirEntry_ro hacc true hst) ?_
    rintro ⟨r, st'⟩ hst'
    dsimp only
    split
    · exact RO.pure hst'
    · exact ih _ _ hst'

/-- a full directory listing writes nothing -/
theorem listDir_ro {d : DirStream} (hd : CleanStream d) : RO fs0 (listDir d) (fun _ => True) := by
  unfold listDir
  exact RO.bind RO.getFs (fun fs _ => withStream_ro hd (listLoop_ro hacc _ _ _ hd))

theorem findEntryLoop_ro (env name isDir) :
    ∀ fuel st gen, CleanStream st → RO fs0 (findEntryLoop env name isDir fuel st gen) (fun r => CleanStream r.2) := by
  intro fuel
  induction fuel with
  | zero => intros; unfold findEntryLoop; exact RO.fail _
  | succ k ih =>
    intro st gen hst
    unfold findEntryLoop
    refine RO.bind (readDirEntry_ro hacc true hst) ?_
    rintro ⟨r, st'⟩ hst'
    dsimp only
    split
    · exact RO.pure hst'
    · split
      · split
        · exact RO.pure hst'
        · exact RO.pure hst'
      · exact ih _ _ hst'

theorem findEntryG_ro (env) {d : DirStream} (hd : CleanStream d) (name isDir gen) :
    RO fs0 (findEntryG env d name isDir gen) (fun _ => True) := by
  unfold findEntryG
  exact RO.bind RO.getFs (fun fs _ => withStream_ro hd (findEntryLoop_ro hacc _ _ _ _ _ _ hd))

theorem findEntry_ro (env) {d : DirStream} (hd : CleanStream d) (name isDir) :
    RO fs0 (findEntry env d name isDir) (fun _ => True) := by
  unfold findEntry
  refine RO.bind (findEntryG_ro hacc env hd name isDir none) ?_
  rintro ⟨r, g⟩ _
  dsimp only
  split
  · exact RO.pure trivial
  · exact RO.fail _

theorem findVolumeLoop_ro : ∀ fuel st, CleanStream st → RO fs0 (findVolumeLoop fuel st) (fun r => CleanStream r.2) := by
  intro fuel
  induction fuel with
  | zero => intros; unfold findVolumeLoop; exact RO.fail _
  | succ k ih =>
    intro st hst
    unfold findVolumeLoop
    refine RO.bind (readDirEntry_ro hacc false hst) ?_
    rintro ⟨r, st'⟩ hst'
    dsimp only
    split
    · exact RO.pure hst'
    · split
      · exact RO.pure hst'
      · exact ih _ hst'

theorem findVolumeEntry_ro {d : DirStream} (hd : CleanStream d) : RO fs0 (findVolumeEntry d) (fun _ => True) := by
  unfold findVolumeEntry
  exact RO.bind RO.getFs (fun fs _ => withStream_ro hd (findVolumeLoop_ro hacc _ _ hd))

end dir

/-! ### freshly made handles are clean -/

theorem cleanFile_new (first : Option Nat) (data : DirFileEntryData) (pos : Nat) :
    CleanFile (FileH.new first (some (DirEntryEditor.new data pos))) := by
  intro e he
  simp only [FileH.new, DirEntryEditor.new, Option.some.injEq] at he
  subst he; rfl

theorem cleanFile_new_none (first : Option Nat) : CleanFile (FileH.new first none) := by
  intro e he; simp [FileH.new] at he

theorem cleanStream_root (fs : FsState) : CleanStream (rootDirStream fs) := by
  unfold rootDirStream
  split
  · exact cleanFile_new_none _
  · trivial

theorem DirEntry.toDir_ro {fs0 : FsState} (fs) (e : DirEntry) : RO fs0 (e.toDir fs) CleanStream := by
  unfold DirEntry.toDir
  split
  · exact RO.fail _
  · split
    · exact RO.pure (cleanFile_new _ _ _)
    · exact RO.pure (cleanStream_root _)

theorem DirEntry.toFile_ro {fs0 : FsState} (fs) (e : DirEntry) : RO fs0 (e.toFile fs) CleanFile := by
  unfold DirEntry.toFile
  split
  · exact RO.fail _
  · exact RO.pure (cleanFile_new _ _ _)

/-! ### `open_dir`, `open_file`, label lookup -/

section dir
variable {fs0 : FsState} (hacc : fs0.accDate = false)
include hacc

theorem openDir_ro (env) : ∀ fuel d path, CleanStream d → RO fs0 (openDir env fuel d path) CleanStream := by
  intro fuel
  induction fuel with
  | zero => intros; unfold openDir; exact RO.fail _
  | succ k ih =>
    intro d path hd
    unfold openDir
    refine RO.bind RO.getFs (fun fs _ => ?_)
    split
    refine RO.bind (findEntry_ro hacc env hd _ _) (fun e _ => ?_)
    refine RO.bind (DirEntry.toDir_ro _ _) (fun sub hsub => ?_)
    split
    · exact thenDrop_ro hsub (ih _ _ hsub)
    · exact RO.pure hsub

theorem openFile_ro (env) : ∀ fuel d path, CleanStream d → RO fs0 (openFile env fuel d path) CleanFile := by
  intro fuel
  induction fuel with
  | zero => intros; unfold openFile; exact RO.fail _
  | succ k ih =>
    intro d path hd
    unfold openFile
    refine RO.bind RO.getFs (fun fs _ => ?_)
    split
    split
    · refine RO.bind (findEntry_ro hacc env hd _ _) (fun e _ => ?_)
      refine RO.bind (DirEntry.toDir_ro _ _) (fun sub hsub => ?_)
      exact thenDrop_ro hsub (ih _ _ hsub)
    · refine RO.bind (findEntry_ro hacc env hd _ _) (fun e _ => ?_)
      exact DirEntry.toFile_ro _ _

theorem readVolumeLabelFromRootDir_ro : RO fs0 readVolumeLabelFromRootDir (fun _ => True) := by
  unfold readVolumeLabelFromRootDir
  refine RO.bind RO.getFs (fun fs _ => ?_)
  dsimp only
  refine RO.bind (thenDrop_ro (cleanStream_root fs) (findVolumeEntry_ro hacc (cleanStream_root fs))) (fun _ _ => ?_)
  exact RO.pure trivial

end dir

end FatVerif
