import FatVerif.Proofs.FsInfoImg3
import FatVerif.Proofs.FatImgZero4
/-! C05 at image level, part 4: sessions of the FsState-level operations alloc / free / truncate / stats — the
    bookkeeping invariant along them (composition of agent-cursor's forward lemmas of Proofs/FileSimFatAlloc and
    Proofs/FileSimFatFree with `stats_img`). -/
namespace FatVerif.FsInfoImg
open FatVerif FatVerif.Fat FatVerif.FileSim

/-- the standing facts of a session on a mounted volume: fault-free device, well-formed image, layout, and the FS-info
    bookkeeping consistent with the FAT of the image -/
structure Sess (d : Dev) : Prop where
  nofault : d.failAt = none
  wf : d.img.WF
  geo : Geo d.fs d.img.size
  info : InfoOk2 d.fs d.img

theorem Sess.fatDev {d : Dev} (h : Sess d) (hcd : d.fs.curDirty = true) : FileSim.FatDev d.fs d :=
  ⟨h.nofault, hcd, h.wf, h.geo⟩

theorem mapFree_dirty (i : FsInfoSt) (f : Nat → Nat) (h : i.dirty = true) : (i.mapFree f).dirty = true := by
  unfold FsInfoSt.mapFree; split
  · rfl
  · exact h

/-- the hint and the dirty latch after a successful `FileSystem::alloc_cluster` -/
theorem allocClusterFs_next {prev : Option Nat} {d : Dev} {c : Nat} {d' : Dev}
    (hr : run (allocClusterFs prev false) d = (.ok c, d')) :
    d'.fs.fsInfo.next = some (if c + 1 < d'.fs.totalClusters + 2 then c + 1 else 2) ∧ d'.fs.fsInfo.dirty = true := by
  unfold allocClusterFs at hr
  rcases run_bind_cases hr with ⟨fs, d0, h0, h1⟩ | ⟨e, _, he⟩
  rotate_left
  · cases he
  obtain ⟨rfl, rfl⟩ := run_getFs_inv h0
  rcases run_bind_cases h1 with ⟨⟨c0, sl⟩, d1, h2, h3⟩ | ⟨e, _, he⟩
  rotate_left
  · cases he
  dsimp only at h3
  simp only [Bool.false_eq_true, if_false] at h3
  rcases run_bind_cases h3 with ⟨fs2, d2, h6, h7⟩ | ⟨e, _, he⟩
  rotate_left
  · cases he
  obtain ⟨rfl, rfl⟩ := run_getFs_inv h6
  have key : ∀ (i0 : FsInfoSt), i0.next = some (if c0 + 1 < d2.fs.totalClusters + 2 then c0 + 1 else 2) →
      i0.dirty = true →
      run (do
        Prog.setFs { d2.fs with fsInfo := i0.mapFree (· - 1) }
        (pure c0 : Prog Nat)) d2 = (.ok c, d') →
      d'.fs.fsInfo.next = some (if c + 1 < d'.fs.totalClusters + 2 then c + 1 else 2) ∧ d'.fs.fsInfo.dirty = true := by
    intro i0 hn hdi hrun
    rcases run_bind_cases hrun with ⟨u2, d4, h8, h9⟩ | ⟨e, _, he⟩
    · simp only [Prog.setFs, run, stepOp] at h8
      cases h8
      have h9' : run (Prog.pure c0) _ = (.ok c, d') := h9
      simp only [run] at h9'; cases h9'
      exact ⟨by show (FsInfoSt.mapFree _ _).next = _; rw [mapFree_next]; exact hn,
        by show (FsInfoSt.mapFree _ _).dirty = true; exact mapFree_dirty _ _ hdi⟩
    · cases he
  cases hfree : d2.fs.fsInfo.free with
  | none => rw [hfree] at h7; exact key _ rfl rfl h7
  | some m =>
    rw [hfree] at h7
    cases m with
    | zero => simp only [run] at h7; cases h7
    | succ k => exact key _ rfl rfl h7

/-! ### one step -/

/-- **alloc** (`zero` either way, volume marked dirty or not) keeps the session facts; the volume is marked dirty
    afterwards; the hint afterwards names a valid cluster; with `zero = true` the new cluster's bytes are all zero;
    every byte from 0x42 on outside the FAT region and outside the zeroed cluster is unchanged -/
theorem sess_alloc {d : Dev} (hs : Sess d) (prev : Option Nat) (zero : Bool)
    (hp : ∀ p, prev = some p → 2 ≤ p ∧ p < d.fs.totalClusters + 2 ∧ tabView d.fs d.img p ≠ .free)
    {c : Nat} {d' : Dev} (hr : run (allocClusterFs prev zero) d = (.ok c, d')) :
    Sess d' ∧ d'.fs.curDirty = true ∧ FsGeomEq d.fs d'.fs ∧ d'.fs.fsInfo.dirty = true ∧
    allocFindV (tabView d.fs d.img) d.fs.fsInfo.next d.fs.totalClusters = some c ∧
    tabView d'.fs d'.img = allocLinkV (tabView d.fs d.img) prev c ∧
    d'.fs.fsInfo.next = some (hintAfter d.fs.totalClusters c) ∧
    2 ≤ hintAfter d.fs.totalClusters c ∧ hintAfter d.fs.totalClusters c ≤ d.fs.totalClusters + 1 ∧
    (zero = true → ∀ q, clusterOff d.fs c ≤ q → q < clusterOff d.fs c + d.fs.clusterSize → d'.img.getByte q = 0) ∧
    (∀ q, 0x42 ≤ q → OutsideFat d.fs q →
      (zero = true → ¬ (clusterOff d.fs c ≤ q ∧ q < clusterOff d.fs c + d.fs.clusterSize)) →
      d'.img.getByte q = d.img.getByte q) := by
  rcases run_allocClusterFs_any prev zero d hs.nofault hs.wf hs.geo hs.info.ok hp with
    ⟨_, dx, hx, _⟩ | ⟨c0, d0, hfind, h0, hst, hfs, htv, hinfo', hz, hfr⟩
  · rw [hr] at hx; cases hx
  · rw [hr] at h0
    cases h0
    obtain ⟨hc2, hct, _⟩ := allocFindV_some _ _ _ _ hs.info.ok.hint hfind
    have hnext : d'.fs.fsInfo.next = some (hintAfter d.fs.totalClusters c) := by
      rw [hfs]; show (FsInfoSt.mapFree _ _).next = _; rw [mapFree_next]
    have hdirty : d'.fs.fsInfo.dirty = true := by
      rw [hfs]; show (FsInfoSt.mapFree _ _).dirty = true; exact mapFree_dirty _ _ rfl
    have hcd' : d'.fs.curDirty = true := by
      rw [hfs]; show (markedFs d.fs).curDirty = true; exact markedFs_curDirty _
    have hbound : 2 ≤ hintAfter d.fs.totalClusters c ∧ hintAfter d.fs.totalClusters c ≤ d.fs.totalClusters + 1 := by
      unfold hintAfter; split <;> omega
    refine ⟨⟨by rw [hst.failAt]; exact hs.nofault, hst.wf hs.wf, by rw [hst.size]; exact hs.geo.frame hst.geom,
      ⟨hinfo', ?_⟩⟩, hcd', hst.geom, hdirty, hfind, htv, hnext, hbound.1, hbound.2, hz, hfr⟩
    intro n hn
    rw [hnext] at hn
    have := Option.some.inj hn
    rw [hst.geom.totalClusters]
    omega

/-- **free** of a chain of allocated clusters (volume marked dirty or not) keeps the session facts -/
theorem sess_free {d : Dev} (hs : Sess d) (n : Nat) (cs : List Nat)
    (hch : Chain (tabView d.fs d.img) n cs) (hnd : cs.Nodup)
    (hin : ∀ x ∈ cs, 2 ≤ x ∧ x < d.fs.totalClusters + 2 ∧ tabView d.fs d.img x ≠ .free)
    {d' : Dev} (hr : run (freeClusterChain n) d = (.ok (), d')) :
    Sess d' ∧ d'.fs.curDirty = true ∧ FsGeomEq d.fs d'.fs ∧ d'.fs.fsInfo.next = d.fs.fsInfo.next ∧
    tabView d'.fs d'.img = freedView (tabView d.fs d.img) cs ∧
    (∀ q, 0x42 ≤ q → OutsideFat d.fs q → d'.img.getByte q = d.img.getByte q) := by
  obtain ⟨d0, h0, hst, hfs, htv, hinfo', hfr⟩ :=
    run_freeClusterChain_any n cs d hs.nofault hs.wf hs.geo hs.info.ok hch hnd hin
  rw [hr] at h0
  cases h0
  have hnext : d'.fs.fsInfo.next = d.fs.fsInfo.next := by
    rw [hfs]; show (FsInfoSt.mapFree _ _).next = _; rw [mapFree_next]
  have hcd' : d'.fs.curDirty = true := by
    rw [hfs]; show (markedFs d.fs).curDirty = true; exact markedFs_curDirty _
  refine ⟨⟨by rw [hst.failAt]; exact hs.nofault, hst.wf hs.wf, by rw [hst.size]; exact hs.geo.frame hst.geom,
    ⟨hinfo', ?_⟩⟩, hcd', hst.geom, hnext, htv, hfr⟩
  intro x hx
  rw [hnext] at hx
  rw [hst.geom.totalClusters]
  exact hs.info.hintLe x hx

/-- **truncate** at an allocated cluster (volume marked dirty or not) keeps the session facts -/
theorem sess_truncate {d : Dev} (hs : Sess d) (cur : Nat) (t : List Nat)
    (hch : Chain (tabView d.fs d.img) cur (cur :: t)) (hnd : (cur :: t).Nodup)
    (hin : ∀ x ∈ cur :: t, 2 ≤ x ∧ x < d.fs.totalClusters + 2 ∧ tabView d.fs d.img x ≠ .free)
    {d' : Dev} (hr : run (truncateClusterChain cur) d = (.ok (), d')) :
    Sess d' ∧ d'.fs.curDirty = true ∧ FsGeomEq d.fs d'.fs ∧ d'.fs.fsInfo.next = d.fs.fsInfo.next ∧
    tabView d'.fs d'.img = freedView (updV (tabView d.fs d.img) cur .eoc) t ∧
    (∀ q, 0x42 ≤ q → OutsideFat d.fs q → d'.img.getByte q = d.img.getByte q) := by
  obtain ⟨d0, h0, hst, hfs, htv, hinfo', hfr⟩ :=
    run_truncateClusterChain_any cur t d hs.nofault hs.wf hs.geo hs.info.ok hch hnd hin
  rw [hr] at h0
  cases h0
  have hnext : d'.fs.fsInfo.next = d.fs.fsInfo.next := by
    rw [hfs]; show (FsInfoSt.mapFree _ _).next = _; rw [mapFree_next]
  have hcd' : d'.fs.curDirty = true := by
    rw [hfs]; show (markedFs d.fs).curDirty = true; exact markedFs_curDirty _
  refine ⟨⟨by rw [hst.failAt]; exact hs.nofault, hst.wf hs.wf, by rw [hst.size]; exact hs.geo.frame hst.geom,
    ⟨hinfo', ?_⟩⟩, hcd', hst.geom, hnext, htv, hfr⟩
  intro x hx
  rw [hnext] at hx
  rw [hst.geom.totalClusters]
  exact hs.info.hintLe x hx

/-- **stats** keeps the session facts, answers the image's free-entry count and leaves it cached -/
theorem sess_stats {d : Dev} (hs : Sess d) {a b n : Nat} {d' : Dev} (hr : run stats d = (.ok (a, b, n), d')) :
    Sess d' ∧ n = countFreeV (tabView d.fs d.img) d.fs.totalClusters ∧ d'.img = d.img ∧
    FsGeomEq d.fs d'.fs ∧ d'.fs.curDirty = d.fs.curDirty ∧ d'.fs.fsInfo.free = some n ∧
    d'.fs.fsInfo.next = d.fs.fsInfo.next := by
  obtain ⟨_, _, hn, himg, hfs, hfree, hnext, _, _, hfa⟩ := stats_img d hs.wf hs.geo hs.info.ok hr
  have hgeo : FsGeomEq d.fs d'.fs := by unfold FsGeomEq; rw [hfs]
  have hcd : d'.fs.curDirty = d.fs.curDirty := by rw [hfs]
  refine ⟨⟨hfa hs.nofault, by rw [himg]; exact hs.wf, by rw [himg]; exact hs.geo.frame hgeo, ⟨⟨?_, ?_⟩, ?_⟩⟩,
    hn, himg, hgeo, hcd, hfree, hnext⟩
  · intro x hx; rw [hnext] at hx; exact hs.info.ok.hint x hx
  · intro x hx
    rw [hfree] at hx
    cases hx
    rw [himg, hgeo.tabView, hgeo.totalClusters]; exact hn
  · intro x hx; rw [hnext] at hx; rw [hgeo.totalClusters]; exact hs.info.hintLe x hx

end FatVerif.FsInfoImg
