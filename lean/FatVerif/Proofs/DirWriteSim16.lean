import FatVerif.Proofs.DirWriteSim15
import FatVerif.Proofs.FatImgZero4
/-! Directory WRITES, part 16: `remove(name)` of a FILE in the fixed root directory as a whole operation:
    `find_entry` (read simulation) → `free_cluster_chain` (agent-fat's forward evaluation, Proofs/FatImgZero4.lean) →
    `deleteEntry` (write simulation). -/
namespace FatVerif.DirSim
open FatVerif.FileSim FatVerif.Fat DirEntryData DirAlias

section root
variable (s : DiskSlice) (N : Nat) (hN : s.size = 32 * N) (hv : s.viaFs = true) (hm : s.mirrors = 1)

include hN hv hm in
/-- **`remove(name)` of a file in the fixed root**, single-component path: the entry the scan finds is a file; its
    cluster chain `cs` (empty if it has no first cluster) is freed in the FAT, then its slots are marked deleted -/
theorem root_remove_file (hB : 0x42 ≤ s.beginOff) (env : Env) (path name : String)
    (hsp : Names.splitPath path = (name, none)) (hdot : (name = "." || name = "..") = false) (d : Dev)
    (hfa : d.failAt = none) (hdev : s.beginOff + s.size ≤ d.img.size) (hwf : d.img.WF) (hfuel : N < dirFuel d.fs)
    (hgeo : Geo d.fs d.img.size) (hinfo : InfoOk d.fs d.img)
    (hout : (fatSliceOf d.fs).beginOff + (fatSliceOf d.fs).mirrors * (fatSliceOf d.fs).size ≤ s.beginOff)
    (le : LfnEntry)
    (hl : lookupL env.upper name.toList none (readDirEntries d.fs.lfnAlloc true (rootSlots d.img s)) = .ok le)
    (hfile : Lfn.isDir le.sfn = false) (cs : List Nat)
    (hcs : match (toDirEntry s.beginOff le).firstCluster d.fs with
      | some n => Chain (tabView d.fs d.img) n cs ∧ cs.Nodup ∧
          ∀ x ∈ cs, 2 ≤ x ∧ x < d.fs.totalClusters + 2 ∧ tabView d.fs d.img x ≠ .free
      | none => cs = []) (fuel : Nat) :
    ∃ d', run (remove env (fuel + 1) (.root (sliceAt s 0)) path) d = (.ok (), d') ∧
      VolStep d d' ∧ d'.fs.curDirty = true ∧
      rootSlots d'.img s = DirSlots.deleteRange (rootSlots d.img s) le.beginIdx le.endIdx ∧
      tabView d'.fs d'.img = freedView (tabView d.fs d.img) cs ∧
      (∀ q, 0x42 ≤ q → OutsideFat d.fs q → ¬ (s.beginOff ≤ q ∧ q < s.beginOff + s.size) →
        d'.img.getByte q = d.img.getByte q) := by
  have D := root_dirSrc s N hN d hfa hdev
  have g0 : Names.Gen := default
  obtain ⟨hmem, _, _⟩ := lookupL_ok _ _ _ _ _ hl
  have hb := readLoop_bounds d.fs.lfnAlloc true (rootSlots d.img s) 0 0 _ (Nat.le_refl _) le hmem
  have hlenL : (rootSlots d.img s).length = N := by rw [rootSlots_length, hN]; omega
  rw [hlenL, Nat.zero_add] at hb
  -- 1. find_entry
  have hfe := D.findEntry_ok hfuel env name none g0 (e := le)
    (by rw [scan_fst, srcSlots_eq_rootSlots s N hN]; exact hl) d (SameVol.refl d)
  rw [toDirEntryS_root s.beginOff le (by omega)] at hfe
  obtain ⟨d1, h1, hs1⟩ := hfe
  have hfa1 : d1.failAt = none := by rw [hs1.failAt]; exact hfa
  have hisdir : (toDirEntry s.beginOff le).isDir = false := by
    rw [toDirEntry_isDir s.beginOff le (rootEntries_slotOK _ _ _ _ le hmem)]; exact hfile
  -- 2. free_cluster_chain
  have hfree : ∃ d2, (∀ k : Prog Unit, run (match (toDirEntry s.beginOff le).firstCluster d.fs with
        | some n => do freeClusterChain n; k
        | none => k) d1 = run k d2) ∧ DevStep d1 d2 ∧
      tabView d2.fs d2.img = freedView (tabView d.fs d.img) cs ∧
      (∀ q, 0x42 ≤ q → OutsideFat d.fs q → d2.img.getByte q = d.img.getByte q) := by
    cases hfc : (toDirEntry s.beginOff le).firstCluster d.fs with
    | none =>
      rw [hfc] at hcs
      subst hcs
      exact ⟨d1, fun k => rfl, DevStep.refl d1, by rw [hs1.fs, hs1.img, freedView_nil], fun q _ _ => by rw [hs1.img]⟩
    | some n =>
      rw [hfc] at hcs
      obtain ⟨hch, hnd, hin⟩ := hcs
      obtain ⟨d2, h2, hst2, _, htv2, _, hfr2⟩ := run_freeClusterChain_any n cs d1 hfa1 (by rw [hs1.img]; exact hwf)
        (by rw [hs1.fs, hs1.img]; exact hgeo) (by rw [hs1.fs, hs1.img]; exact hinfo)
        (by rw [hs1.fs, hs1.img]; exact hch) hnd (by rw [hs1.fs, hs1.img]; exact hin)
      refine ⟨d2, fun k => run_bind_ok h2, hst2, by rw [htv2, hs1.fs, hs1.img], fun q hq ho => ?_⟩
      rw [hfr2 q hq (by rw [hs1.fs]; exact ho), hs1.img]
  obtain ⟨d2, h2, hst2, htv2, hfr2⟩ := hfree
  have hfa2 : d2.failAt = none := by rw [hst2.failAt]; exact hfa1
  have hdev2 : s.beginOff + s.size ≤ d2.img.size := by rw [hst2.size, hs1.img]; exact hdev
  have hwf2 : d2.img.WF := hst2.wf (by rw [hs1.img]; exact hwf)
  have hslots2 : rootSlots d2.img s = rootSlots d.img s := by
    unfold rootSlots
    apply List.map_congr_left
    intro j hj
    have hj' : j < s.size / 32 := List.mem_range.mp hj
    unfold Img.read
    apply List.map_congr_left
    intro x hx
    have hx' : x < 32 := List.mem_range.mp hx
    exact hfr2 _ (by omega) (Or.inr (by omega))
  -- 3. deleteEntry
  obtain ⟨k, hk⟩ : ∃ k, le.endIdx = le.beginIdx + k := ⟨le.endIdx - le.beginIdx, by omega⟩
  obtain ⟨d3, h3, hs3, hd3, _, hsl3, hfr3⟩ := root_deleteEntry s N hN hv hm hB (toDirEntry s.beginOff le) le.beginIdx k rfl
    (by simp only [toDirEntry]; rw [hk]) (by omega) d2 hfa2 hdev2 hwf2
  have hgeo12 : FsGeomEq d.fs d2.fs := by rw [← hs1.fs]; exact hst2.geom
  have hfat3 : FatAgree d2.fs d2.img d3.img := by
    intro q hq1 hq2
    have e1 := hgeo12.fatSlice
    rw [e1] at hq1 hq2
    have h42 := hgeo.status_lt
    have : (fatSliceOf d.fs).size ≤ (fatSliceOf d.fs).mirrors * (fatSliceOf d.fs).size :=
      Nat.le_mul_of_pos_left _ hgeo.mirrors_pos
    exact hfr3 q (by omega) (by omega)
  have hgeo2 : Geo d2.fs d2.img.size := by rw [hst2.size, hs1.img]; exact hgeo.frame hgeo12
  refine ⟨d3, ?_, ((VolStep.of_sameVol hs1).trans (VolStep.of_devStep hst2)).trans (VolStep.of_devStep hs3),
    hd3 (by omega), by rw [hsl3, hslots2, hk], ?_, fun q hq ho hn => ?_⟩
  · unfold remove
    rw [run_bind_ok (run_getFs d), hsp]
    simp only [hdot, Bool.false_eq_true, if_false]
    rw [run_bind_ok h1]
    simp only [hisdir, Bool.false_eq_true, if_false]
    rw [run_bind_ok (rfl : run (pure false : Prog Bool) d1 = (.ok false, d1))]
    simp only [Bool.false_eq_true, if_false]
    exact (h2 (deleteEntry (.root (sliceAt s 0)) (toDirEntry s.beginOff le))).trans h3
  · rw [hs3.geom.tabView, tabView_congr hgeo2 hfat3, htv2]
  · rw [hfr3 q hq hn, hfr2 q hq ho]

end root

end FatVerif.DirSim
