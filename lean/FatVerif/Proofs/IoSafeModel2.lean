import FatVerif.Proofs.IoSafeModel1
import FatVerif.Model.File
/-! C09, structural descent, part 2: `File.lean`; and the destructor bodies never panic or hang (`NonFatal`). -/
namespace FatVerif

/-! ### destructor bodies: `write_all` on the raw device cannot exhaust its fuel -/

theorem writeAllLoop_nonFatal {σ} (S : Strm σ) (hw : ∀ s bs, NonFatal (S.write s bs)) (hwz : S.wzErr.isFatal = false) :
    ∀ fuel s bs, bs.length < fuel → NonFatal (writeAllLoop S fuel s bs) := by
  intro fuel
  induction fuel with
  | zero => intro s bs h; omega
  | succ k ih =>
    intro s bs h
    unfold writeAllLoop
    split
    · exact NonFatal.pure _
    · rename_i hne
      refine NonFatal.bind (hw _ _) ?_
      rintro ⟨n, s'⟩
      dsimp only
      split
      · exact NonFatal.fail _ hwz
      · rename_i hn
        apply ih
        have : bs.length ≠ 0 := by
          intro h0; apply hne; simp [List.length_eq_zero_iff.mp h0]
        rw [List.length_drop]; omega

theorem devStrm_write_nonFatal (s : Unit) (bs : List Nat) : NonFatal (devStrm.write s bs) :=
  NonFatal.bind (NonFatal.op _) (fun _ => NonFatal.pure _)

theorem writeAll_dev_nonFatal (s : Unit) (bs : List Nat) : NonFatal (writeAll devStrm s bs) :=
  writeAllLoop_nonFatal devStrm devStrm_write_nonFatal rfl _ _ _ (Nat.lt_succ_self _)

theorem writeChunks_dev_nonFatal : ∀ (cs : List (List Nat)) (s : Unit), NonFatal (writeChunks devStrm s cs) := by
  intro cs
  induction cs with
  | nil => intro s; unfold writeChunks; exact NonFatal.pure _
  | cons c rest ih =>
    intro s; unfold writeChunks
    exact NonFatal.bind (writeAll_dev_nonFatal _ _) (fun _ => ih _)

theorem setDirtyFlag_nonFatal (b : Bool) : NonFatal (setDirtyFlag b) := by
  unfold setDirtyFlag
  refine NonFatal.bind (NonFatal.op _) (fun fs => ?_)
  dsimp only
  split
  · exact NonFatal.pure _
  · refine NonFatal.bind (NonFatal.op _) (fun _ => NonFatal.bind (writeAll_dev_nonFatal _ _) (fun _ => ?_))
    exact NonFatal.bind (NonFatal.op _) (fun _ => NonFatal.op _)

theorem FileH.flushDirEntry_nonFatal (f : FileH) : NonFatal f.flushDirEntry := by
  unfold FileH.flushDirEntry
  split
  · split
    · exact NonFatal.bind (NonFatal.op _) (fun _ => NonFatal.bind (writeChunks_dev_nonFatal _ _) (fun _ => NonFatal.pure _))
    · exact NonFatal.pure _
  · exact NonFatal.pure _

theorem FileH.flush_nonFatal (f : FileH) : NonFatal f.flush := by
  unfold FileH.flush
  exact NonFatal.bind (FileH.flushDirEntry_nonFatal f) (fun _ => NonFatal.bind (NonFatal.op _) (fun _ => NonFatal.pure _))

theorem FileH.dropBody_nonFatal (f : FileH) : NonFatal (do let _ ← f.flush; pure ()) :=
  NonFatal.bind (FileH.flush_nonFatal f) (fun _ => NonFatal.pure _)

theorem inDrop_ioSafe {c : Prog Unit} (hc : NonFatal c) : IoSafe (Prog.inDrop c) :=
  IoSafe.finallyDrop _ _ (IoSafe.pure _) (fun _ => hc)

/-! ### `File.lean` -/

theorem offsetFromClusterP_ioSafe (fs c) : IoSafe (offsetFromClusterP fs c) := by
  unfold offsetFromClusterP; iosafe

theorem nextCluster_ioSafe (c) : IoSafe (nextCluster c) := by
  unfold nextCluster; iosafe [Table.CIter.next_ioSafe, DiskSlice.strm_safe]

theorem truncateClusterChain_ioSafe (c) : IoSafe (truncateClusterChain c) := by
  unfold truncateClusterChain; iosafe [Table.CIter.truncate_ioSafe, DiskSlice.strm_safe]

theorem freeClusterChain_ioSafe (c) : IoSafe (freeClusterChain c) := by
  unfold freeClusterChain; iosafe [Table.CIter.free_ioSafe, DiskSlice.strm_safe]

theorem allocClusterFs_ioSafe (prev zero) : IoSafe (allocClusterFs prev zero) := by
  unfold allocClusterFs
  iosafe [Table.allocCluster_ioSafe, DiskSlice.strm_safe, offsetFromClusterP_ioSafe, writeZeros_ioSafe, devStrm_safe]

namespace FileH

theorem flushDirEntry_ioSafe (f : FileH) : IoSafe f.flushDirEntry := by
  unfold flushDirEntry; iosafe [writeChunks_ioSafe, devStrm_safe]

theorem flush_ioSafe (f : FileH) : IoSafe f.flush := by
  unfold flush; iosafe [flushDirEntry_ioSafe]

theorem drop_ioSafe (f : FileH) : IoSafe f.drop := inDrop_ioSafe (FileH.dropBody_nonFatal f)

theorem absPos_ioSafe (fs) (f : FileH) : IoSafe (f.absPos fs) := by
  unfold absPos; iosafe [offsetFromClusterP_ioSafe]

theorem boundaryCluster_ioSafe (f : FileH) : IoSafe f.boundaryCluster := by
  unfold boundaryCluster; iosafe [nextCluster_ioSafe]

theorem read_ioSafe (f : FileH) (n : Nat) : IoSafe (f.read n) := by
  unfold read; iosafe [boundaryCluster_ioSafe, offsetFromClusterP_ioSafe]

theorem updateAfterWrite_ioSafe (f : FileH) : IoSafe f.updateAfterWrite := by
  unfold updateAfterWrite; iosafe

theorem write_ioSafe (f : FileH) (buf : List Nat) : IoSafe (f.write buf) := by
  unfold write
  iosafe [setDirtyFlag_ioSafe, boundaryCluster_ioSafe, allocClusterFs_ioSafe, offsetFromClusterP_ioSafe,
    updateAfterWrite_ioSafe]

theorem seekWalk_ioSafe (fs) : ∀ k it cluster i toSkip newOff, IoSafe (seekWalk fs k it cluster i toSkip newOff) := by
  intro k
  induction k with
  | zero => intros; unfold seekWalk; iosafe
  | succ k ih => intros; unfold seekWalk; iosafe [Table.CIter.next_ioSafe, DiskSlice.strm_safe]

theorem seek_ioSafe (f : FileH) (p : SeekFrom) : IoSafe (f.seek p) := by
  unfold seek; iosafe [seekWalk_ioSafe]

theorem truncate_ioSafe (f : FileH) : IoSafe f.truncate := by
  unfold truncate; iosafe [setDirtyFlag_ioSafe, truncateClusterChain_ioSafe, freeClusterChain_ioSafe]

theorem extentsLoop_ioSafe (fs) : ∀ k it left acc, IoSafe (extentsLoop fs k it left acc) := by
  intro k
  induction k with
  | zero => intros; unfold extentsLoop; iosafe
  | succ k ih =>
    intros; unfold extentsLoop
    iosafe [Table.CIter.next_ioSafe, DiskSlice.strm_safe, offsetFromClusterP_ioSafe]

theorem extents_ioSafe (f : FileH) : IoSafe f.extents := by
  unfold extents; iosafe [extentsLoop_ioSafe, offsetFromClusterP_ioSafe]

theorem strm_safe : StrmSafe FileH.strm := ⟨read_ioSafe, write_ioSafe, seek_ioSafe⟩

end FileH

end FatVerif
