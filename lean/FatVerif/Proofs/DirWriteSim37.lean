import FatVerif.Proofs.DirWriteSim36
/-! Directory WRITES, part 37: `create_file(name)` as a whole operation through any writable directory (`WView`),
    inside the allocated slots (the generic `WFam.createFile` through the view). -/
namespace FatVerif.DirSim
open FatVerif.FileSim FatVerif.Fat DirEntryData DirAlias

namespace WView
variable {d : Dev} {st : DirStream}

/-- **`create_file(name)` through a writable directory** (single-component path, free name, the entry fits) -/
theorem createFile_sim (V : WView d st) (env : Env) (path name : String) (hsp : Names.splitPath path = (name, none))
    (hdot : (name = "." || name = "..") = false) (hval : Names.validateLongName name = .ok ())
    (ha : d.fs.lfnAlloc = true) (a : List Nat)
    (hchk : DirAlias.checkForExistenceL env.upper (V.slots d.img) name (some false) 70000 = .ok (.alias a))
    (hfit : DirSlots.findFree (V.slots d.img) (Lfn.numParts (Names.encodeUtf16 name.toList).length + 1) +
      (Lfn.numParts (Names.encodeUtf16 name.toList).length + 1) ≤ V.N) (fuel : Nat) :
    ∃ (d' : Dev) (e : DirEntry), run (FatVerif.createFile env (fuel + 1) st path) d =
        (.ok (FileH.new (e.firstCluster d.fs) (some e.editor)), d') ∧
      e.data = sfnAt d.fs d.clock a 0 none ∧ e.lfn = Names.encodeUtf16 name.toList ∧
      VolStep d d' ∧ d'.fs.curDirty = true ∧ V.Inv d' ∧
      V.slots d'.img = DirSlots.writeEntry (V.slots d.img) (Names.encodeUtf16 name.toList)
        (sfnAt d.fs d.clock a 0 none).serialize ∧
      FrameOutE V.N V.src V.Extra d d' ∧ MidImg V.N V.src V.DropPost d d' := by
  obtain ⟨d', e, hr, he1, he2, hs, hd, hinv, hsl, hfr, hmid⟩ := V.w.createFile V.io V.geo V.wg V.ops env path name hsp hdot
    hval d V.here ha a hchk hfit fuel
  exact ⟨d', e, (congrArg (fun s => run (FatVerif.createFile env (fuel + 1) s path) d) V.start).trans hr, he1, he2, hs, hd,
    hinv, hsl, hfr, hmid⟩

end WView

end FatVerif.DirSim
