import FatVerif.Proofs.MountRun2
import FatVerif.Proofs.BpbOffsets
/-! `mount_run`: the mount PROGRAM (`FatVerif.mount`, interpreted by `run` on a fault-free device positioned at 0 with at
least 512 bytes) computes the pure `mountGeometry` of the first 512 bytes and of the 512 bytes at the FS-info
location, installs the corresponding mounted state, and changes neither the image nor the write log. -/
namespace FatVerif

/-- the mounted state `FileSystem::new` builds from the pure mount result -/
def mountedFs (strict accDate lfnAlloc unicode : Bool) (m : Mounted) : FsState :=
  { fatType := m.geo.fatType, bps := m.geo.bytesPerSector, spc := m.bpb.sectorsPerCluster,
    reserved := m.geo.reservedSectors, fats := m.geo.fats, spf := m.geo.sectorsPerFat,
    rootEntries := m.bpb.rootEntries, rootDirSectors := m.geo.rootDirSectors,
    firstDataSector := m.geo.firstDataSector, totalClusters := m.geo.totalClusters,
    totalSectors := m.geo.totalSectors, rootCluster := m.geo.rootDirFirstCluster,
    fsInfoSector := m.geo.fsInfoSector, mirroring := m.geo.mirroring, activeFat := m.geo.activeFat,
    bpbDirty := m.geo.statusDirty, bpbIoErr := m.geo.statusIoError, statusRaw := m.bpb.reserved1,
    volumeId := m.bpb.volumeId, volumeLabel := m.bpb.volumeLabel,
    fsInfo := m.fsInfo.toSt, curDirty := m.geo.statusDirty, curIoErr := m.geo.statusIoError,
    strict := strict, accDate := accDate, lfnAlloc := lfnAlloc, unicode := unicode }

/-- byte offset of the FS-info sector named by boot sector `bs` (`fs_info_sector * bytes_per_sector`; 0 on FAT12/16) -/
def fsInfoOffset (bs : List Nat) : Nat :=
  (BootSector.deserialize bs).bpb.fsInfoSector * (BootSector.deserialize bs).bpb.bytesPerSector

/-- what a fault-free mount leaves behind, besides its result -/
structure MountFrame (d d' : Dev) : Prop where
  img : d'.img = d.img
  log : d'.log = d.log
  failAt : d'.failAt = none
  fault : d'.fault = d.fault
  dropDepth : d'.dropDepth = d.dropDepth
  writes : d'.writes = d.writes
  flushes : d'.flushes = d.flushes

theorem MountFrame.of_sameStore {d d' : Dev} (h : SameStore d d') (hf : d.failAt = none) : MountFrame d d' :=
  ⟨h.img, h.log, by rw [h.failAt, hf], h.fault, h.dropDepth, h.writes, h.flushes⟩

theorem mount_run (strict accDate lfnAlloc unicode : Bool) (d : Dev) (hpos : d.pos = 0) (hf : d.failAt = none)
    (hsz : 512 ≤ d.img.size)
    (hfi : ∀ g, probe (d.img.read 0 512) strict = .ok g → g.fatType = .fat32 →
      fsInfoOffset (d.img.read 0 512) + 512 ≤ d.img.size) :
    ∃ d', run (mount strict accDate lfnAlloc unicode) d =
        ((mountGeometry (d.img.read 0 512) (d.img.read (fsInfoOffset (d.img.read 0 512)) 512) strict).map
          (mountedFs strict accDate lfnAlloc unicode), d') ∧
      MountFrame d d' ∧
      (∀ m, mountGeometry (d.img.read 0 512) (d.img.read (fsInfoOffset (d.img.read 0 512)) 512) strict = .ok m →
        d'.fs = mountedFs strict accDate lfnAlloc unicode m) ∧
      (∀ e, mountGeometry (d.img.read 0 512) (d.img.read (fsInfoOffset (d.img.read 0 512)) 512) strict = .error e →
        d'.fs = d.fs) := by
  unfold mount
  rw [run_bind_ok (run_seekCur0 d hf), hpos]
  simp only [ne_eq, not_true_eq_false, if_false]
  have s1 := sameStore_didSeek d 0
  have f1 : (d.didSeek 0).failAt = none := by rw [s1.failAt, hf]
  obtain ⟨d2, hbs, s2, p2, r2, k2⟩ := run_readBootSector (d.didSeek 0) f1 (by rw [didSeek_pos, didSeek_img]; omega)
  rw [didSeek_pos, didSeek_img] at hbs
  rw [run_bind_ok hbs]
  have s02 := s1.trans s2
  have f2 : d2.failAt = none := by rw [s02.failAt, hf]
  generalize hbsdef : d.img.read 0 512 = bs at *
  unfold mountGeometry probe probeBoot
  -- validation
  cases hv : (BootSector.deserialize bs).validate strict with
  | error e =>
    rw [run_bind_error (d1 := d2) (by rw [run_liftE])]
    refine ⟨d2, rfl, MountFrame.of_sameStore s02 hf, ?_, fun _ _ => s02.fs⟩
    intro m hm; simp at hm
  | ok u =>
  rw [run_bind_ok (d1 := d2) (b := u) (by rw [run_liftE])]
  cases hg : (BootSector.deserialize bs).bpb.geometry with
  | error e =>
    rw [run_bind_error (d1 := d2) (by rw [run_liftE])]
    refine ⟨d2, rfl, MountFrame.of_sameStore s02 hf, ?_, fun _ _ => s02.fs⟩
    intro m hm; simp at hm
  | ok g =>
  rw [run_bind_ok (d1 := d2) (b := g) (by rw [run_liftE])]
  simp only [ebind_ok]
  have hprobe : probe bs strict = .ok g := by
    unfold probe probeBoot; rw [hv, ebind_ok, hg]
  -- reading the FS-info sector
  have hinfo : ∃ d3, run (if g.fatType = FatType.fat32 then do
          let off ← liftE ((BootSector.deserialize bs).bpb.bytesFromSectors (BootSector.deserialize bs).bpb.fsInfoSector)
          let _ ← Prog.seekStart off
          readFsInfoSector
        else pure ({} : FsInfoSt)) d2 =
        ((readFsInfo (BootSector.deserialize bs).bpb g bs (d.img.read (fsInfoOffset bs) 512)).map FsInfo.toSt, d3) ∧
        SameStore d2 d3 := by
    unfold readFsInfo
    by_cases h32 : g.fatType = FatType.fat32
    · rw [if_pos h32, if_pos h32]
      have hoff := hfi g hprobe h32
      unfold Bpb.bytesFromSectors u64Mul
      by_cases hm : (BootSector.deserialize bs).bpb.fsInfoSector * (BootSector.deserialize bs).bpb.bytesPerSector
          < 18446744073709551616
      · rw [if_pos hm]
        rw [run_bind_ok (d1 := d2) (by rw [run_liftE]), run_bind_ok (run_seekStart _ d2 f2)]
        have s3 := sameStore_didSeek d2 (fsInfoOffset bs)
        have f3 : (d2.didSeek (fsInfoOffset bs)).failAt = none := by rw [s3.failAt, f2]
        obtain ⟨d4, h4, s4, _⟩ := run_readFsInfoSector (d2.didSeek (fsInfoOffset bs)) f3
          (by rw [didSeek_pos, didSeek_img, s02.img]; exact hoff)
        rw [didSeek_pos, didSeek_img, s02.img] at h4
        refine ⟨d4, ?_, s3.trans s4⟩
        show run readFsInfoSector (d2.didSeek (fsInfoOffset bs)) = _
        rw [h4, ebind_ok]
        by_cases h0 : (BootSector.deserialize bs).bpb.fsInfoSector * (BootSector.deserialize bs).bpb.bytesPerSector = 0
        · rw [if_pos h0]
          have : fsInfoOffset bs = 0 := h0
          rw [this, hbsdef]
        · rw [if_neg h0]
      · rw [if_neg hm]
        exact ⟨d2, by rw [run_bind_error (d1 := d2) (by rw [run_liftE])]; rfl, SameStore.refl d2⟩
    · rw [if_neg h32, if_neg h32]
      exact ⟨d2, rfl, SameStore.refl d2⟩
  obtain ⟨d3, h3, s3⟩ := hinfo
  have s03 := s02.trans s3
  cases hr : readFsInfo (BootSector.deserialize bs).bpb g bs (d.img.read (fsInfoOffset bs) 512) with
  | error e =>
    rw [hr] at h3
    rw [run_bind_error h3]
    refine ⟨d3, rfl, MountFrame.of_sameStore s03 hf, ?_, fun _ _ => s03.fs⟩
    intro m hm; cases hm
  | ok f =>
  rw [hr] at h3
  rw [run_bind_ok h3]
  simp only [ebind_ok, Except.map]
  unfold FsInfo.validateAndFix u32Add
  by_cases hlt : g.totalClusters + 2 < 4294967296
  · rw [if_pos hlt]
    rw [run_bind_ok (d1 := d3) (by rw [run_liftE])]
    simp only [ebind_ok, epure_eq]
    refine ⟨{ d3 with fs := (mountedFs strict accDate lfnAlloc unicode
        (Mounted.mk (BootSector.deserialize bs).bpb g
          { forgetIfDirty g.statusDirty f with
            freeClusterCount := FsInfo.fixFree g.totalClusters (forgetIfDirty g.statusDirty f).freeClusterCount
            nextFreeCluster := FsInfo.fixNext (g.totalClusters + 2) (forgetIfDirty g.statusDirty f).nextFreeCluster })) },
      ?_, ⟨s03.img, s03.log, by show d3.failAt = none; rw [s03.failAt, hf], s03.fault, s03.dropDepth, s03.writes,
        s03.flushes⟩, ?_, ?_⟩
    · simp only [mountedFs]
      cases hd : g.statusDirty <;> rfl
    · intro m hm; cases hm; rfl
    · intro e he; cases he
  · rw [if_neg hlt]
    rw [run_bind_error (d1 := d3) (by rw [run_liftE])]
    refine ⟨d3, rfl, MountFrame.of_sameStore s03 hf, ?_, fun _ _ => s03.fs⟩
    intro m hm; cases hm

/-- every failure of the pure mount is `CorruptedFileSystem` -/
theorem mountGeometry_error {bs fi : List Nat} (hb : IsSector bs) {strict : Bool} {e : Err}
    (h : mountGeometry bs fi strict = .error e) : e = .corrupted := by
  unfold mountGeometry at h
  rw [ebind_eq_error] at h
  rcases h with h | ⟨g, hg, h⟩
  · exact probe_error hb h
  obtain ⟨hv, rfl⟩ := probe_ok hb hg
  have hr := Bpb.deserialize_inRange hb
  rw [ebind_eq_error] at h
  rcases h with h | ⟨f, _, h⟩
  · unfold readFsInfo at h
    split at h
    · rw [show (BootSector.deserialize bs).bpb = Bpb.deserialize bs from rfl,
        bytesFromSectors_total hr (by have := hr.fsInfo; omega), ebind_ok] at h
      unfold FsInfo.deserialize at h
      repeat' split at h
      all_goals cases h
      all_goals rfl
    · cases h
  · rw [ebind_eq_error] at h
    rcases h with h | ⟨_, _, h⟩
    · have := hv.limit
      unfold FsInfo.validateAndFix at h
      change (u32Add (Bpb.deserialize bs).tcNat 2 >>= _) = _ at h
      rw [u32Add_of_lt (by omega), ebind_ok] at h
      cases h
    · cases h

/-- the mount program never ends in a panic or a hang on a fault-free device positioned at 0 that holds at least a
    boot sector — wherever its FS-info sector points, inside the device or not -/
theorem mount_run_nonfatal (strict accDate lfnAlloc unicode : Bool) (d : Dev) (hpos : d.pos = 0)
    (hf : d.failAt = none) (hsz : 512 ≤ d.img.size) {e : Err} {d' : Dev}
    (hrun : run (mount strict accDate lfnAlloc unicode) d = (.error e, d')) : e.isFatal = false := by
  by_cases hfi : ∀ g, probe (d.img.read 0 512) strict = .ok g → g.fatType = .fat32 →
      fsInfoOffset (d.img.read 0 512) + 512 ≤ d.img.size
  · obtain ⟨d1, h1, _⟩ := mount_run strict accDate lfnAlloc unicode d hpos hf hsz hfi
    rw [h1] at hrun
    cases hm : mountGeometry (d.img.read 0 512) (d.img.read (fsInfoOffset (d.img.read 0 512)) 512) strict with
    | ok m => rw [hm] at hrun; cases hrun
    | error e1 =>
      rw [hm] at hrun
      cases hrun
      rw [mountGeometry_error (isSector_read _ _) hm]; rfl
  · -- the FS-info sector of an accepted FAT32 volume lies (partly) beyond the device
    have hfi' : ∃ g, probe (d.img.read 0 512) strict = .ok g ∧ g.fatType = .fat32 := by
      apply Classical.byContradiction
      intro hn
      exact hfi (fun g hg h32 => absurd ⟨g, hg, h32⟩ hn)
    obtain ⟨g, hprobe, h32⟩ := hfi'
    have hb := isSector_read d.img 0
    obtain ⟨hvalid, hgeo⟩ := probe_ok hb hprobe
    have hr := Bpb.deserialize_inRange hb
    unfold mount at hrun
    rw [run_bind_ok (run_seekCur0 d hf), hpos] at hrun
    simp only [ne_eq, not_true_eq_false, if_false] at hrun
    have s1 := sameStore_didSeek d 0
    have f1 : (d.didSeek 0).failAt = none := by rw [s1.failAt, hf]
    obtain ⟨d2, hbs, s2, _⟩ := run_readBootSector (d.didSeek 0) f1 (by rw [didSeek_pos, didSeek_img]; omega)
    rw [didSeek_pos, didSeek_img] at hbs
    rw [run_bind_ok hbs] at hrun
    have f2 : d2.failAt = none := by rw [(s1.trans s2).failAt, hf]
    generalize d.img.read 0 512 = bs at *
    have hpv : (BootSector.deserialize bs).validate strict = .ok () ∧
        (BootSector.deserialize bs).bpb.geometry = .ok g := by
      unfold probe probeBoot at hprobe
      rw [ebind_eq_ok] at hprobe
      obtain ⟨_, h1, h2⟩ := hprobe
      exact ⟨h1, h2⟩
    rw [run_bind_ok (d1 := d2) (b := ()) (by rw [run_liftE, hpv.1]),
      run_bind_ok (d1 := d2) (b := g) (by rw [run_liftE, hpv.2])] at hrun
    simp only [if_pos h32] at hrun
    rw [show (BootSector.deserialize bs).bpb = Bpb.deserialize bs from rfl] at hrun
    rcases run_bind_cases hrun with ⟨info, d3, h3, hrest⟩ | ⟨e1, h3, he⟩
    · -- the FS-info sector was read after all: the rest cannot fail
      have hlim := hvalid.limit
      have htc : g.totalClusters = (Bpb.deserialize bs).tcNat := by rw [hgeo]; rfl
      rw [run_bind_ok (d1 := d3) (b := g.totalClusters + 2)
        (by rw [run_liftE, u32Add_of_lt (by rw [htc]; omega)])] at hrest
      rcases run_bind_cases hrest with ⟨_, _, _, h5⟩ | ⟨_, h4, _⟩
      · cases h5
      · cases h4
    · cases he
      rw [bytesFromSectors_total hr (by have := hr.fsInfo; omega)] at h3
      rw [run_bind_ok (d1 := d2) (by rw [run_liftE])] at h3
      rcases run_bind_cases h3 with ⟨_, d4, _, h5⟩ | ⟨e2, h4, he2⟩
      · exact readFsInfoSector_nonFatal.out _ _ _ h5
      · cases he2; exact (NonFatal.op (.seek (.start _))).out _ _ _ h4

/-- a successful run of the mount program (FS-info sector inside the device or not): the boot sector was accepted by
    `probe`, the returned and installed state is `mountedFs` of the boot sector's BPB and geometry -/
theorem mount_run_ok (strict accDate lfnAlloc unicode : Bool) (d : Dev) (hpos : d.pos = 0)
    (hf : d.failAt = none) (hsz : 512 ≤ d.img.size) {fs : FsState} {d' : Dev}
    (hrun : run (mount strict accDate lfnAlloc unicode) d = (.ok fs, d')) :
    ∃ g fi, probe (d.img.read 0 512) strict = .ok g ∧
      fs = mountedFs strict accDate lfnAlloc unicode ⟨(BootSector.deserialize (d.img.read 0 512)).bpb, g, fi⟩ ∧
      d'.fs = fs := by
  unfold mount at hrun
  rw [run_bind_ok (run_seekCur0 d hf), hpos] at hrun
  simp only [ne_eq, not_true_eq_false, if_false] at hrun
  have s1 := sameStore_didSeek d 0
  have f1 : (d.didSeek 0).failAt = none := by rw [s1.failAt, hf]
  obtain ⟨d2, hbs, s2, _⟩ := run_readBootSector (d.didSeek 0) f1 (by rw [didSeek_pos, didSeek_img]; omega)
  rw [didSeek_pos, didSeek_img] at hbs
  rw [run_bind_ok hbs] at hrun
  generalize d.img.read 0 512 = bs at *
  cases hv : (BootSector.deserialize bs).validate strict with
  | error e => rw [run_bind_error (d1 := d2) (by rw [run_liftE, hv])] at hrun; cases hrun
  | ok u =>
  rw [run_bind_ok (d1 := d2) (b := u) (by rw [run_liftE, hv])] at hrun
  cases hg : (BootSector.deserialize bs).bpb.geometry with
  | error e => rw [run_bind_error (d1 := d2) (by rw [run_liftE, hg])] at hrun; cases hrun
  | ok g =>
  rw [run_bind_ok (d1 := d2) (b := g) (by rw [run_liftE, hg])] at hrun
  have hprobe : probe bs strict = .ok g := by
    unfold probe probeBoot; rw [hv, ebind_ok, hg]
  rcases run_bind_cases hrun with ⟨info, d3, _, hrest⟩ | ⟨_, _, he⟩
  · rcases run_bind_cases hrest with ⟨mx, d4, h4, h5⟩ | ⟨_, _, he⟩
    · rw [run_liftE] at h4
      rcases run_bind_cases h5 with ⟨_, d5, h6, h7⟩ | ⟨_, _, he⟩
      · cases h7
        cases h6
        exact ⟨g, ⟨FsInfo.fixFree g.totalClusters
            (if g.statusDirty = true then { info with free := none } else info).free,
          FsInfo.fixNext mx (if g.statusDirty = true then { info with free := none } else info).next,
          (if g.statusDirty = true then { info with free := none } else info).dirty⟩, hprobe, rfl, rfl⟩
      · cases he
    · cases he
  · cases he

end FatVerif
