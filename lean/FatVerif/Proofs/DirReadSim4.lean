import FatVerif.Proofs.DirReadSim3
import FatVerif.Model.DirAlias
/-! Directory reads, part 4: `find_entry` on the fixed root = the pure scan over the listed entries. -/
namespace FatVerif.DirSim

/-- the `for r in self.iter()` loop of `find_entry` on the list of entries the iterator yields -/
def scanD (env : Env) (name : String) (isDir : Option Bool) :
    List DirEntry → Option Names.Gen → Lookup × Option Names.Gen
  | [], gen => (.error .notFound, gen)
  | e :: es, gen =>
    if e.eqName env name then
      if isDir.isSome && some e.isDir != isDir then (.error .invalidInput, gen) else (.ok e, gen)
    else scanD env name isDir es (gen.map fun g => Names.addExisting g e.data.name)

variable (s : DiskSlice) (N : Nat) (hN : s.size = 32 * N)

include hN in
theorem root_findEntryLoop_sim (env : Env) (name : String) (isDir : Option Bool) :
    ∀ (fuel i : Nat) (gen : Option Names.Gen) (d : Dev), i ≤ N → N - i < fuel →
    d.failAt = none → s.beginOff + s.size ≤ d.img.size → N < dirFuel d.fs →
    ∃ o, Evals (findEntryLoop env name isDir fuel (.root (sliceAt s (32 * i))) gen) d
      (scanD env name isDir ((Lfn.readLoop d.fs.lfnAlloc true ((rootSlots d.img s).drop i) i i
          (LongNameBuilder.new d.fs.lfnAlloc)).map (toDirEntry s.beginOff)) gen, .root (sliceAt s o)) := by
  intro fuel
  induction fuel with
  | zero => intro i gen d hi hf; omega
  | succ k ih =>
    intro i gen d hi hf h hdev hfuel
    have hl : (rootSlots d.img s).length = N := by rw [rootSlots_length, hN]; omega
    have hsim := root_readDirEntry_sim s N hN true i hi d h hdev hfuel
    have hidx := nextEntry_idx d.fs.lfnAlloc true ((rootSlots d.img s).drop i) i i (LongNameBuilder.new d.fs.lfnAlloc)
    rw [readLoop_eq_next]
    unfold findEntryLoop
    cases hn : (nextEntry d.fs.lfnAlloc true ((rootSlots d.img s).drop i) i i (LongNameBuilder.new d.fs.lfnAlloc)).1 with
    | none =>
      rw [hn] at hsim
      refine ⟨32 * (nextEntry d.fs.lfnAlloc true ((rootSlots d.img s).drop i) i i
        (LongNameBuilder.new d.fs.lfnAlloc)).2, Evals.bind hsim (fun d1 _ => ?_)⟩
      simp only [Option.map, List.map_nil, scanD]
      exact Evals.pure _ d1
    | some e =>
      rw [hn] at hsim
      obtain ⟨he1, he2⟩ := hidx.2.2 e hn
      have hle : e.endIdx ≤ N := by
        rw [he1]; have := hidx.2.1; rw [List.length_drop, hl] at this; omega
      have hdrop : ((rootSlots d.img s).drop i).drop (e.endIdx - i) = (rootSlots d.img s).drop e.endIdx := by
        rw [List.drop_drop]; congr 1; omega
      simp only [Option.map] at hsim
      rw [← he1] at hsim
      simp only [List.map_cons, scanD]
      by_cases hm : (toDirEntry s.beginOff e).eqName env name = true
      · simp only [hm, if_true]
        refine ⟨32 * e.endIdx, Evals.bind hsim (fun d1 _ => ?_)⟩
        simp only [hm, if_true]
        split <;> exact Evals.pure _ d1
      · simp only [hm, Bool.false_eq_true, if_false]
        obtain ⟨d1, hr1, hs1⟩ := hsim
        obtain ⟨o, d2, hr2, hs2⟩ := ih e.endIdx (gen.map fun g => Names.addExisting g (toDirEntry s.beginOff e).data.name)
          d1 hle (by omega) (by rw [hs1.failAt]; exact h) (by rw [hs1.img]; exact hdev) (by rw [hs1.fs]; exact hfuel)
        refine ⟨o, d2, ?_, hs1.trans hs2⟩
        show run (Prog.bind _ _) d = _
        simp only [run, hr1, hm, Bool.false_eq_true, if_false]
        rw [hr2, hs1.fs, hs1.img, hdrop]

include hN in
/-- **`find_entry(name, is_dir, gen)` on the fixed root** (`findEntryG`): the scan over the entries the pure reader
    finds in the root region of the image -/
theorem root_findEntryG_sim (env : Env) (name : String) (isDir : Option Bool) (gen : Option Names.Gen) (d : Dev)
    (h : d.failAt = none) (hdev : s.beginOff + s.size ≤ d.img.size) (hfuel : N < dirFuel d.fs) :
    Evals (findEntryG env (.root (sliceAt s 0)) name isDir gen) d
      (scanD env name isDir ((readDirEntries d.fs.lfnAlloc true (rootSlots d.img s)).map (toDirEntry s.beginOff)) gen) := by
  unfold findEntryG
  refine Evals.bind (Evals.getFs d) (fun d1 hs1 => ?_)
  obtain ⟨o, d2, hr2, hs2⟩ := root_findEntryLoop_sim s N hN env name isDir (dirFuel d.fs) 0 gen d1 (Nat.zero_le _)
    (by omega) (by rw [hs1.failAt]; exact h) (by rw [hs1.img]; exact hdev) (by rw [hs1.fs]; exact hfuel)
  simp only [Nat.mul_zero, List.drop_zero] at hr2
  rw [hs1.fs, hs1.img] at hr2
  unfold withStream
  refine Evals.bind (Evals.finallyDrop_noop ⟨d2, hr2, hs2⟩ (fun dd => rfl)) (fun d3 _ => ?_)
  exact Evals.pure _ d3

/-! ### `scanD` on the library's entries = `DirAlias.scan` on the pure reader's entries -/

/-- a slot as read from an image: at least 11 bytes, attribute byte a byte -/
def SlotOK (sl : List Nat) : Prop := 11 ≤ sl.length ∧ sl.getD 11 0 < 256

theorem attrs_dir_table : ∀ b, b < 256 → attrContains (attrsTruncate b) ATTR_DIRECTORY = (b % 64 / 16 % 2 == 1) := by
  decide +kernel

theorem toDirEntry_name (B : Nat) (e : LfnEntry) (h : SlotOK e.sfn) : (toDirEntry B e).data.name = Lfn.sfnName e.sfn := by
  simp only [toDirEntry, DirEntryData.deserializeFile, take11_sfnName _ h.1]

theorem toDirEntry_eqName (env : Env) (B : Nat) (e : LfnEntry) (h : SlotOK e.sfn) (name : String) :
    (toDirEntry B e).eqName env name = DirSlots.matchesName env.upper e name.toList := by
  simp only [DirEntry.eqName, DirSlots.matchesName, toDirEntry_name B e h]
  rfl

theorem toDirEntry_isDir (B : Nat) (e : LfnEntry) (h : SlotOK e.sfn) : (toDirEntry B e).isDir = Lfn.isDir e.sfn := by
  simp only [DirEntry.isDir, DirFileEntryData.isDir, toDirEntry, DirEntryData.deserializeFile, DirEntryData.u8At,
    attrs_dir_table _ h.2, Lfn.isDir, Lfn.attrs, Lfn.byte]

/-- with a generator: lookup result and generator coincide with `DirAlias.scan` -/
theorem scanD_eq_scan (env : Env) (B : Nat) (name : String) (isDir : Option Bool) :
    ∀ (es : List LfnEntry) (g : Names.Gen), (∀ e ∈ es, SlotOK e.sfn) →
      scanD env name isDir (es.map (toDirEntry B)) (some g) =
        (((DirAlias.scan env.upper name.toList isDir es g).1).map (toDirEntry B),
         some (DirAlias.scan env.upper name.toList isDir es g).2) := by
  intro es
  induction es with
  | nil => intro g _; rfl
  | cons e es ih =>
    intro g hok
    have he := hok e (List.mem_cons_self ..)
    simp only [List.map_cons, scanD, DirAlias.scan, toDirEntry_eqName env B e he, toDirEntry_isDir B e he,
      toDirEntry_name B e he, Option.map]
    split
    · split <;> rfl
    · exact ih _ (fun e' he' => hok e' (List.mem_cons_of_mem _ he'))

/-- without a generator: the lookup result is that of `DirAlias.scan` with any generator -/
theorem scanD_none_eq_scan (env : Env) (B : Nat) (name : String) (isDir : Option Bool) :
    ∀ (es : List LfnEntry) (g : Names.Gen), (∀ e ∈ es, SlotOK e.sfn) →
      scanD env name isDir (es.map (toDirEntry B)) none =
        (((DirAlias.scan env.upper name.toList isDir es g).1).map (toDirEntry B), none) := by
  intro es
  induction es with
  | nil => intro g _; rfl
  | cons e es ih =>
    intro g hok
    have he := hok e (List.mem_cons_self ..)
    simp only [List.map_cons, scanD, DirAlias.scan, toDirEntry_eqName env B e he, toDirEntry_isDir B e he, Option.map]
    split
    · split <;> rfl
    · exact ih _ (fun e' he' => hok e' (List.mem_cons_of_mem _ he'))

theorem readLoop_sfn_mem (alloc sv : Bool) : ∀ (L : List (List Nat)) (i bi : Nat) (b : LongNameBuilder) (e : LfnEntry),
    e ∈ Lfn.readLoop alloc sv L i bi b → e.sfn ∈ L := by
  intro L
  induction L with
  | nil => intro i bi b e h; simp [Lfn.readLoop] at h
  | cons sl rest ih =>
    intro i bi b e h
    unfold Lfn.readLoop at h
    cases hc : slotClass sl with
    | endMark => rw [hc] at h; simp at h
    | deleted => rw [hc] at h; exact List.mem_cons_of_mem _ (ih _ _ _ _ h)
    | lfn => rw [hc] at h; exact List.mem_cons_of_mem _ (ih _ _ _ _ h)
    | volume =>
      rw [hc] at h
      dsimp only at h
      split at h
      · exact List.mem_cons_of_mem _ (ih _ _ _ _ h)
      · rcases List.mem_cons.mp h with rfl | h
        · exact List.mem_cons_self ..
        · exact List.mem_cons_of_mem _ (ih _ _ _ _ h)
    | file =>
      rw [hc] at h
      rcases List.mem_cons.mp h with rfl | h
      · exact List.mem_cons_self ..
      · exact List.mem_cons_of_mem _ (ih _ _ _ _ h)

/-- every entry the pure reader finds in the root region of an image comes from a slot read from that image -/
theorem rootEntries_slotOK (alloc sv : Bool) (img : Img) (s : DiskSlice) (e : LfnEntry)
    (h : e ∈ readDirEntries alloc sv (rootSlots img s)) : SlotOK e.sfn := by
  have hm := readLoop_sfn_mem alloc sv _ _ _ _ e h
  simp only [rootSlots, List.mem_map] at hm
  obtain ⟨j, _, hj⟩ := hm
  rw [← hj]
  exact ⟨by rw [Img.read_length]; omega, by rw [Img.read_getD _ _ _ _ (by omega)]; exact Img.getByte_lt _ _⟩

end FatVerif.DirSim
