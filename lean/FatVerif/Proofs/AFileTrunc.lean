import FatVerif.Proofs.AFileInv
import FatVerif.Proofs.AFileByteFile
import FatVerif.Proofs.AFileRead
/-! `File::truncate`, `flush`, reopen. -/
namespace FatVerif.Cursor

theorem nodup_take_drop {l : List Nat} (n : Nat) (h : l.Nodup) :
    (l.take n).Nodup ∧ ∀ a ∈ l.take n, a ∉ l.drop n := by
  have h' : (l.take n ++ l.drop n).Nodup := by rw [List.take_append_drop]; exact h
  have := List.nodup_append.mp h'
  exact ⟨this.1, fun a ha hb => this.2.2 a ha a hb rfl⟩

theorem head?_take_succ (l : List Nat) (n : Nat) : (l.take (n + 1)).head? = l.head? := by
  cases l <;> simp

section
variable {σ : Type} {isFree : σ → Nat → Prop} {A : Allocator σ} {f : AFile} {s : σ}

theorem truncate_some {c : Nat} (hcur : f.current = some c) (ho : f.offset ≠ 0) :
    f.truncate A s = (.ok (), { f.truncEntry with chain := cutAfter c f.chain },
      A.release (freedAfter c f.chain) s) := by
  simp [AFile.truncate, hcur, ho]

theorem truncate_none_some {c0 : Nat} (hcur : f.current = none) (ho : f.offset = 0)
    (hf : f.firstCluster = some c0) :
    f.truncate A s = (.ok (), { f.truncEntry with chain := [], firstCluster := none },
      A.release f.chain s) := by
  simp [AFile.truncate, hcur, ho, hf]

theorem truncate_none_none (hcur : f.current = none) (ho : f.offset = 0) (hf : f.firstCluster = none) :
    f.truncate A s = (.ok (), f.truncEntry, s) := by
  simp [AFile.truncate, hcur, ho, hf]

/-- refinement of `truncate`: succeeds, keeps exactly `take pos`, keeps the invariant -/
theorem AFileInv.truncate_refines (h : AFileInv isFree f s) (hA : AllocLaws A isFree) :
    (f.truncate A s).1 = .ok () ∧ AFileInv isFree (f.truncate A s).2.1 (f.truncate A s).2.2 ∧
    (f.truncate A s).2.1.abs = f.abs.truncate ∧ (f.truncate A s).2.1.cs = f.cs := by
  have hcs := h.cs_pos
  have hoff := h.off_le
  have hsz := h.size_le
  cases hcur : f.current with
  | some c =>
    have ho : f.offset ≠ 0 := by
      intro e; have := h.cur; rw [hcur] at this; simp [e] at this
    have hci : f.chain[(f.offset - 1) / f.cs]? = some c := by
      have := h.cur; rw [hcur] at this; simp only [ho, if_false] at this; exact this.symm
    have hidx : (f.offset - 1) / f.cs < f.chain.length := h.index_lt (by omega)
    obtain ⟨hcut, hfreed⟩ := cutAfter_of_getElem? f.chain _ c h.nodup hci
    obtain ⟨hnd, hdisj⟩ := nodup_take_drop ((f.offset - 1) / f.cs + 1) h.nodup
    have hdm := divmod_spec f.cs (f.offset - 1) hcs
    have hsm : ((f.offset - 1) / f.cs + 1) * f.cs = (f.offset - 1) / f.cs * f.cs + f.cs := Nat.succ_mul _ _
    rw [truncate_some hcur ho, hcut, hfreed]
    refine ⟨rfl, ⟨hcs, hnd, ?_, ?_, ?_, ?_, ?_, ?_⟩, ?_, rfl⟩
    · show f.firstCluster = _
      rw [head?_take_succ]; exact h.first
    · show f.offset ≤ (f.chain.take ((f.offset - 1) / f.cs + 1)).length * f.cs
      rw [List.length_take, Nat.min_eq_left (by omega)]
      omega
    · exact Nat.le_refl _
    · show f.offset ≤ u32Max
      omega
    · show f.current = if f.offset = 0 then none
        else (f.chain.take ((f.offset - 1) / f.cs + 1))[(f.offset - 1) / f.cs]?
      rw [if_neg ho, hcur, ← hci]; simp
    · intro d hd hfree
      rcases hA.release_sub hfree with h1 | h1
      · exact h.live d (List.mem_of_mem_take hd) h1
      · exact hdisj d hd h1
    · -- content
      simp only [AFile.abs, ByteFile.truncate, AFile.truncEntry]
      congr 1
      unfold AFile.content
      simp only
      rw [take_map_range _ _ _ hoff]
      apply List.map_congr_left
      intro p hp
      have hp' : p < f.offset := List.mem_range.mp hp
      have hpi : p / f.cs < (f.offset - 1) / f.cs + 1 := by
        apply div_lt_of_lt_mul'; omega
      unfold AFile.byteAt
      simp only [List.getD_eq_getElem?_getD, List.getElem?_take, hpi, if_true]
  | none =>
    have ho : f.offset = 0 := by
      by_cases e : f.offset = 0
      · exact e
      · have hidx : (f.offset - 1) / f.cs < f.chain.length := h.index_lt (by omega)
        have := h.cur; rw [hcur] at this; simp only [e, if_false] at this
        rw [List.getElem?_eq_getElem hidx] at this
        simp at this
    cases hf : f.firstCluster with
    | some c0 =>
      rw [truncate_none_some hcur ho hf]
      refine ⟨rfl, ⟨hcs, List.nodup_nil, rfl, ?_, ?_, ?_, ?_, ?_⟩, ?_, rfl⟩
      · show f.offset ≤ 0 * f.cs
        omega
      · show f.offset ≤ f.offset
        exact Nat.le_refl _
      · show f.offset ≤ u32Max
        omega
      · show f.current = if f.offset = 0 then none else _
        rw [if_pos ho]; exact hcur
      · intro c hc; cases hc
      · simp [AFile.abs, ByteFile.truncate, AFile.truncEntry, AFile.content, ho]
    | none =>
      have hnil : f.chain = [] := by
        have hfi := h.first; rw [hf] at hfi
        cases hc : f.chain with
        | nil => rfl
        | cons a l => rw [hc] at hfi; simp at hfi
      rw [truncate_none_none hcur ho hf]
      refine ⟨rfl, ⟨hcs, h.nodup, ?_, ?_, ?_, ?_, ?_, h.live⟩, ?_, rfl⟩
      · show f.firstCluster = f.chain.head?
        exact h.first
      · show f.offset ≤ f.chain.length * f.cs
        omega
      · show f.offset ≤ f.offset
        exact Nat.le_refl _
      · show f.offset ≤ u32Max
        omega
      · show f.current = if f.offset = 0 then none else _
        rw [if_pos ho]; exact hcur
      · simp [AFile.abs, ByteFile.truncate, AFile.truncEntry, AFile.content, ho]

/-- `flush` clears the editor's dirty flag and changes nothing else -/
theorem AFileInv.flush_refines (h : AFileInv isFree f s) :
    f.flush.1 = .ok () ∧ AFileInv isFree f.flush.2 s ∧ f.flush.2.abs = f.abs ∧ f.flush.2.dirty = false ∧
    f.flush.2.cs = f.cs :=
  ⟨rfl, ⟨h.cs_pos, h.nodup, h.first, h.cover, h.off_le, h.size_le, h.cur, h.live⟩, rfl, rfl, rfl⟩

/-- a reopened handle: same content, cursor at 0 -/
theorem AFileInv.reopen_inv (h : AFileInv isFree f s) :
    AFileInv isFree f.reopen s ∧ f.reopen.abs = { f.abs with pos := 0 } ∧ f.reopen.cs = f.cs :=
  ⟨⟨h.cs_pos, h.nodup, h.first, h.cover, Nat.zero_le _, h.size_le, by simp [AFile.reopen], h.live⟩, rfl, rfl⟩

end
end FatVerif.Cursor
