import FatVerif.Proofs.SliceModel1
import FatVerif.Model.Fs
/-! Frame fact: no program of the model other than `mount` changes the immutable part of the mounted state
    (`SameGeom`: everything except the FS-info cache and the current status flags — in particular `statusRaw`,
    `bpbDirty`, `bpbIoErr`, `fatType`). Structural descent, one `…_geo` lemma per model function (the statements mirror
    the `…_ioSafe` lemmas of Proofs/IoSafeModel1–4.lean); no hypothesis on device, handles or geometry. -/
namespace FatVerif

def GeoRel (d d' : Dev) : Prop := SameGeom d.fs d'.fs

theorem geoRel_ok : RelOK GeoRel where
  refl := fun _ => SameGeom.refl _
  trans := fun _ _ _ h1 h2 => SameGeom.trans h1 h2
  depth := fun _ _ => SameGeom.refl _

/-- every run of `p` keeps the geometry of the mounted state -/
def Geo {α} (p : Prog α) : Prop := Steps GeoRel p

theorem Geo.pure {α} (a : α) : Geo (Prog.pure a) := Steps.pure geoRel_ok a
theorem Geo.fail {α} (e : Err) : Geo (Prog.fail (α := α) e) := Steps.fail geoRel_ok e
theorem Geo.bind {α β} (p : Prog β) (k : β → Prog α) (hp : Geo p) (hk : ∀ b, Geo (k b)) : Geo (Prog.bind p k) :=
  Steps.bind geoRel_ok hp hk
theorem Geo.tryCatch {α} (p : Prog α) (h : Err → Prog α) (hp : Geo p) (hh : ∀ e, Geo (h e)) :
    Geo (Prog.tryCatch p h) := Steps.tryCatch geoRel_ok hp hh
theorem Geo.finallyDrop {α} (p : Prog α) (c : Option α → Prog Unit) (hp : Geo p) (hc : ∀ o, Geo (c o)) :
    Geo (Prog.finallyDrop p c) := Steps.finallyDrop geoRel_ok hp hc

theorem Geo.of_fs_eq {α} {p : Prog α} (h : ∀ d r d', run p d = (r, d') → d'.fs = d.fs) : Geo p :=
  ⟨fun d r d' hr => by show SameGeom d.fs d'.fs; rw [h d r d' hr]; exact SameGeom.refl _⟩

theorem Geo.of_quiet {α} {p : Prog α} (hp : QuietOps p) : Geo p := Geo.of_fs_eq (fun d _ _ hr => quietOps_fs hp d hr)

theorem Geo.progRead (n : Nat) : Geo (Prog.read n) := Geo.of_quiet (QuietOps.op _ rfl)
theorem Geo.progSeek (p : SeekFrom) : Geo (Prog.seek p) := Geo.of_quiet (QuietOps.op _ rfl)
theorem Geo.progSeekStart (n : Nat) : Geo (Prog.seekStart n) := Geo.of_quiet (QuietOps.op _ rfl)
theorem Geo.progFlush : Geo Prog.flush := Geo.of_quiet (QuietOps.op _ rfl)
theorem Geo.progNow : Geo Prog.now := Geo.of_quiet (QuietOps.op _ rfl)
theorem Geo.progToday : Geo Prog.today := Geo.of_quiet (QuietOps.op _ rfl)
theorem Geo.progGetFs : Geo Prog.getFs := Geo.of_quiet (QuietOps.op _ rfl)
theorem Geo.progWrite (bs : List Nat) : Geo (Prog.write bs) :=
  Geo.of_fs_eq (fun d r d' hr => by
    simp only [Prog.write, run] at hr
    exact (stepOp_write_spec bs d hr).1)

/-- `modifyFs` with an update of the interior-mutable part only -/
theorem Geo.progModifyFs (f : FsState → FsState) (hf : ∀ fs, SameGeom fs (f fs)) : Geo (Prog.modifyFs f) :=
  ⟨fun d r d' hr => by rw [run_modifyFs] at hr; cases hr; exact hf _⟩

/-- reading the mounted state and storing an update of its interior-mutable part -/
theorem Geo.getFs_then {α} (k : FsState → Prog α)
    (hk : ∀ fs (d : Dev) r d', d.fs = fs → run (k fs) d = (r, d') → SameGeom d.fs d'.fs) :
    Geo (Prog.bind Prog.getFs k) :=
  ⟨fun d r d' hr => by rw [run_getFs_bind] at hr; exact hk d.fs d r d' rfl hr⟩

/-- a stream whose methods keep the geometry -/
structure StrmGeo {σ} (S : Strm σ) : Prop where
  read : ∀ s n, Geo (S.read s n)
  write : ∀ s bs, Geo (S.write s bs)
  seek : ∀ s p, Geo (S.seek s p)

syntax "geo_step" ("[" Lean.Parser.Tactic.SolveByElim.arg,* "]")? : tactic
macro_rules
  | `(tactic| geo_step) => `(tactic| geo_step [])
  | `(tactic| geo_step [$ts,*]) => `(tactic| first
    | with_reducible_and_instances exact Geo.pure _
    | with_reducible_and_instances exact Geo.fail _
    | with_reducible exact Geo.progRead _
    | with_reducible exact Geo.progWrite _
    | with_reducible exact Geo.progSeek _
    | with_reducible exact Geo.progSeekStart _
    | with_reducible exact Geo.progFlush
    | with_reducible exact Geo.progNow
    | with_reducible exact Geo.progToday
    | with_reducible exact Geo.progGetFs
    | focus ((with_reducible refine Geo.progModifyFs _ ?_); intro _; exact rfl)
    | intro _
    | with_reducible exact (‹StrmGeo _›).read _ _
    | with_reducible exact (‹StrmGeo _›).write _ _
    | with_reducible exact (‹StrmGeo _›).seek _ _
    | apply_assumption (transparency := .reducible) (exfalso := false) (symm := false) only [*, $ts,*]
    | with_reducible_and_instances apply Geo.bind
    | with_reducible_and_instances apply Geo.tryCatch
    | with_reducible_and_instances apply Geo.finallyDrop
    | dsimp only
    | split)

syntax "geo" ("[" Lean.Parser.Tactic.SolveByElim.arg,* "]")? : tactic
macro_rules
  | `(tactic| geo) => `(tactic| repeat geo_step [])
  | `(tactic| geo [$ts,*]) => `(tactic| repeat geo_step [$ts,*])

/-! ### `Io.lean` -/

theorem devStrm_geoS : StrmGeo devStrm := by
  refine ⟨?_, ?_, ?_⟩ <;> intros <;> simp only [devStrm] <;> geo

section generic
variable {σ : Type} (S : Strm σ) (hS : StrmGeo S)
include hS

theorem readExactLoop_geo : ∀ fuel s n acc, Geo (readExactLoop S fuel s n acc) := by
  intro fuel
  induction fuel with
  | zero => intros; unfold readExactLoop; geo
  | succ k ih => intros; unfold readExactLoop; geo

theorem readExact_geo (s n) : Geo (readExact S s n) := readExactLoop_geo S hS _ _ _ _

theorem writeAllLoop_geo : ∀ fuel s bs, Geo (writeAllLoop S fuel s bs) := by
  intro fuel
  induction fuel with
  | zero => intros; unfold writeAllLoop; geo
  | succ k ih => intros; unfold writeAllLoop; geo

theorem writeAll_geo (s bs) : Geo (writeAll S s bs) := writeAllLoop_geo S hS _ _ _

theorem readU8_geo (s) : Geo (readU8 S s) := by unfold readU8; geo [readExact_geo]
theorem readU16_geo (s) : Geo (readU16 S s) := by unfold readU16; geo [readExact_geo]
theorem readU32_geo (s) : Geo (readU32 S s) := by unfold readU32; geo [readExact_geo]
theorem writeU8_geo (s v) : Geo (writeU8 S s v) := writeAll_geo S hS _ _
theorem writeU16_geo (s v) : Geo (writeU16 S s v) := writeAll_geo S hS _ _
theorem writeU32_geo (s v) : Geo (writeU32 S s v) := writeAll_geo S hS _ _

theorem readChunks_geo : ∀ ns s acc, Geo (readChunks S s ns acc) := by
  intro ns
  induction ns with
  | nil => intros; unfold readChunks; geo
  | cons n rest ih => intros; unfold readChunks; geo [readExact_geo]

theorem writeChunks_geo : ∀ cs s, Geo (writeChunks S s cs) := by
  intro cs
  induction cs with
  | nil => intros; unfold writeChunks; geo
  | cons c rest ih => intros; unfold writeChunks; geo [writeAll_geo]

theorem writeZerosLoop_geo : ∀ fuel s len, Geo (writeZerosLoop S fuel s len) := by
  intro fuel
  induction fuel with
  | zero => intros; unfold writeZerosLoop; geo
  | succ k ih => intros; unfold writeZerosLoop; geo [writeAll_geo]

theorem writeZeros_geo (s len) : Geo (writeZeros S s len) := writeZerosLoop_geo S hS _ _ _

end generic

/-! ### `Slice.lean` -/

theorem setDirtyFlag_geo (b : Bool) : Geo (setDirtyFlag b) := by
  unfold setDirtyFlag; geo [writeU8_geo, devStrm_geoS]

theorem markDirtyBeforeWrite_geo : Geo markDirtyBeforeWrite := by
  unfold markDirtyBeforeWrite; geo [setDirtyFlag_geo]

theorem adapterStrm_geoS : StrmGeo adapterStrm := by
  refine ⟨?_, ?_, ?_⟩ <;> intros <;> simp only [adapterStrm] <;> geo [setDirtyFlag_geo, markDirtyBeforeWrite_geo]

theorem DiskSlice.inner_geoS (s : DiskSlice) : StrmGeo s.inner := by
  unfold DiskSlice.inner; split
  · exact adapterStrm_geoS
  · exact devStrm_geoS

theorem DiskSlice.read_geo (s : DiskSlice) (n : Nat) : Geo (s.read n) := by
  have := s.inner_geoS
  unfold DiskSlice.read; geo

theorem DiskSlice.writeMirrors_geo (s : DiskSlice) (off : Nat) (bs : List Nat) :
    ∀ k i, Geo (s.writeMirrors off bs k i) := by
  have := s.inner_geoS
  intro k
  induction k with
  | zero => intros; unfold DiskSlice.writeMirrors; geo
  | succ k ih => intros; unfold DiskSlice.writeMirrors; geo [writeAll_geo]

theorem DiskSlice.write_geo (s : DiskSlice) (bs : List Nat) : Geo (s.write bs) := by
  unfold DiskSlice.write; geo [DiskSlice.writeMirrors_geo]

theorem DiskSlice.seek_geo (s : DiskSlice) (p : SeekFrom) : Geo (s.seek p) := by
  unfold DiskSlice.seek; geo

theorem DiskSlice.flush_geo (s : DiskSlice) : Geo s.flush := Geo.progFlush

theorem DiskSlice.strm_geoS : StrmGeo DiskSlice.strm :=
  ⟨DiskSlice.read_geo, DiskSlice.write_geo, DiskSlice.seek_geo⟩

/-! ### `Table.lean` -/

namespace Table
section generic
variable {σ : Type} (S : Strm σ) (hS : StrmGeo S)
include hS

theorem getRaw_geo (ft s c) : Geo (getRaw S ft s c) := by
  unfold getRaw; geo [readU16_geo, readU32_geo]

theorem get_geo (ft s c) : Geo (get S ft s c) := by
  unfold get; geo [getRaw_geo]

theorem set_geo (ft s c v) : Geo (set S ft s c v) := by
  unfold set; geo [getRaw_geo, readU16_geo, writeU16_geo, writeU32_geo]

theorem findFree12Loop_geo : ∀ fuel s c endC packed, Geo (findFree12Loop S fuel s c endC packed) := by
  intro fuel
  induction fuel with
  | zero => intros; unfold findFree12Loop; geo
  | succ k ih => intros; unfold findFree12Loop; geo [readU16_geo, readU8_geo]

theorem findFreeLoop_geo (ft) : ∀ fuel s c endC, Geo (findFreeLoop S ft fuel s c endC) := by
  intro fuel
  induction fuel with
  | zero => intros; unfold findFreeLoop; geo
  | succ k ih => intros; unfold findFreeLoop; geo [readU16_geo, readU32_geo]

theorem findFree_geo (ft s start endC) : Geo (findFree S ft s start endC) := by
  unfold findFree; geo [readU16_geo, findFree12Loop_geo, findFreeLoop_geo]

theorem countFree12Loop_geo : ∀ fuel s c endC prev count, Geo (countFree12Loop S fuel s c endC prev count) := by
  intro fuel
  induction fuel with
  | zero => intros; unfold countFree12Loop; geo
  | succ k ih => intros; unfold countFree12Loop; geo [readU16_geo, readU8_geo]

theorem countFreeLoop_geo (ft) : ∀ fuel s c endC count, Geo (countFreeLoop S ft fuel s c endC count) := by
  intro fuel
  induction fuel with
  | zero => intros; unfold countFreeLoop; geo
  | succ k ih => intros; unfold countFreeLoop; geo [readU16_geo, readU32_geo]

theorem countFree_geo (ft s total) : Geo (countFree S ft s total) := by
  unfold countFree; geo [countFree12Loop_geo, countFreeLoop_geo]

/-- the one handler of `table.rs`: retry on `NotEnoughSpace` only, every other error is re-raised unchanged -/
theorem allocCluster_geo (ft s prev hint total) : Geo (allocCluster S ft s prev hint total) := by
  unfold allocCluster
  with_reducible_and_instances apply Geo.bind
  · apply Geo.tryCatch
    · exact findFree_geo S hS _ _ _ _
    · intro e; geo [findFree_geo]
  · geo [set_geo]

theorem CIter.next_geo (ft) (it : CIter σ) : Geo (CIter.next S ft it) := by
  unfold CIter.next; geo [get_geo]

theorem CIter.freeLoop_geo (ft) : ∀ fuel (it : CIter σ) num, Geo (CIter.freeLoop S ft fuel it num) := by
  intro fuel
  induction fuel with
  | zero => intros; unfold CIter.freeLoop; geo
  | succ k ih => intros; unfold CIter.freeLoop; geo [CIter.next_geo, set_geo]

theorem CIter.free_geo (ft fuel) (it : CIter σ) : Geo (CIter.free S ft fuel it) :=
  CIter.freeLoop_geo S hS _ _ _ _

theorem CIter.truncate_geo (ft fuel) (it : CIter σ) : Geo (CIter.truncate S ft fuel it) := by
  unfold CIter.truncate; geo [CIter.next_geo, set_geo, CIter.free_geo]

theorem readFatFlags_geo (ft s) : Geo (readFatFlags S ft s) := by
  unfold readFatFlags; geo [getRaw_geo]

theorem setRange_geo (ft v) : ∀ k s c, Geo (setRange S ft v k s c) := by
  intro k
  induction k with
  | zero => intros; unfold setRange; geo
  | succ k ih => intros; unfold setRange; geo [set_geo]

theorem formatFat_geo (ft s media bytesPerFat total) : Geo (formatFat S ft s media bytesPerFat total) := by
  unfold formatFat; geo [writeU8_geo, writeU16_geo, writeU32_geo, setRange_geo]

end generic
end Table


theorem inDrop_geo {c : Prog Unit} (hc : Geo c) : Geo (Prog.inDrop c) :=
  Geo.finallyDrop _ _ (Geo.pure _) (fun _ => hc)

/-! ### `File.lean` -/

theorem offsetFromClusterP_geo (fs c) : Geo (offsetFromClusterP fs c) := by
  unfold offsetFromClusterP; geo

theorem nextCluster_geo (c) : Geo (nextCluster c) := by
  unfold nextCluster; geo [Table.CIter.next_geo, DiskSlice.strm_geoS]

theorem truncateClusterChain_geo (c) : Geo (truncateClusterChain c) := by
  unfold truncateClusterChain; geo [Table.CIter.truncate_geo, DiskSlice.strm_geoS]

theorem freeClusterChain_geo (c) : Geo (freeClusterChain c) := by
  unfold freeClusterChain; geo [Table.CIter.free_geo, DiskSlice.strm_geoS]

theorem allocClusterFs_geo (prev zero) : Geo (allocClusterFs prev zero) := by
  unfold allocClusterFs
  refine Geo.bind _ _ Geo.progGetFs (fun fs => ?_)
  refine Geo.bind _ _ (Table.allocCluster_geo _ DiskSlice.strm_geoS _ _ _ _ _) ?_
  rintro ⟨c, sl⟩
  dsimp only
  have hrest : Geo (do
      let fs ← Prog.getFs
      match fs.fsInfo.free with
      | some 0 => Prog.fail Err.panic
      | _ =>
        let nextFree := if c + 1 < fs.totalClusters + 2 then c + 1 else 2
        Prog.setFs { fs with fsInfo := ({ fs.fsInfo with next := some nextFree, dirty := true }).mapFree (· - 1) }
        pure c) := by
    refine Geo.getFs_then _ (fun fs2 d r d' hfs hr => ?_)
    split at hr
    · simp only [run] at hr; cases hr; exact SameGeom.refl _
    · simp only [Prog.setFs, bind, pure, run, stepOp] at hr
      cases hr
      rw [hfs]; exact rfl
  split
  · refine Geo.bind _ _ (offsetFromClusterP_geo _ _) (fun off => ?_)
    refine Geo.bind _ _ (Geo.progSeekStart _) (fun _ => ?_)
    exact Geo.bind _ _ (writeZeros_geo _ devStrm_geoS _ _) (fun _ => hrest)
  · exact hrest

theorem FileH.dropBody_geo (f : FileH) : Geo (do let _ ← f.flush; pure ()) := by
  have hfl : Geo f.flush := by
    unfold FileH.flush FileH.flushDirEntry; geo [writeChunks_geo, devStrm_geoS]
  exact Geo.bind _ _ hfl (fun _ => Geo.pure _)

namespace FileH

theorem flushDirEntry_geo (f : FileH) : Geo f.flushDirEntry := by
  unfold flushDirEntry; geo [writeChunks_geo, devStrm_geoS]

theorem flush_geo (f : FileH) : Geo f.flush := by
  unfold flush; geo [flushDirEntry_geo]

theorem drop_geo (f : FileH) : Geo f.drop := inDrop_geo (FileH.dropBody_geo f)

theorem absPos_geo (fs) (f : FileH) : Geo (f.absPos fs) := by
  unfold absPos; geo [offsetFromClusterP_geo]

theorem boundaryCluster_geo (f : FileH) : Geo f.boundaryCluster := by
  unfold boundaryCluster; geo [nextCluster_geo]

theorem read_geo (f : FileH) (n : Nat) : Geo (f.read n) := by
  unfold read; geo [boundaryCluster_geo, offsetFromClusterP_geo]

theorem updateAfterWrite_geo (f : FileH) : Geo f.updateAfterWrite := by
  unfold updateAfterWrite; geo

theorem write_geo (f : FileH) (buf : List Nat) : Geo (f.write buf) := by
  unfold write
  geo [setDirtyFlag_geo, boundaryCluster_geo, allocClusterFs_geo, offsetFromClusterP_geo,
    updateAfterWrite_geo]

theorem seekWalk_geo (fs) : ∀ k it cluster i toSkip newOff, Geo (seekWalk fs k it cluster i toSkip newOff) := by
  intro k
  induction k with
  | zero => intros; unfold seekWalk; geo
  | succ k ih => intros; unfold seekWalk; geo [Table.CIter.next_geo, DiskSlice.strm_geoS]

theorem seek_geo (f : FileH) (p : SeekFrom) : Geo (f.seek p) := by
  unfold seek; geo [seekWalk_geo]

theorem truncate_geo (f : FileH) : Geo f.truncate := by
  unfold truncate; geo [truncateClusterChain_geo, freeClusterChain_geo, setDirtyFlag_geo]

theorem extentsLoop_geo (fs) : ∀ k it left acc, Geo (extentsLoop fs k it left acc) := by
  intro k
  induction k with
  | zero => intros; unfold extentsLoop; geo
  | succ k ih =>
    intros; unfold extentsLoop
    geo [Table.CIter.next_geo, DiskSlice.strm_geoS, offsetFromClusterP_geo]

theorem extents_geo (f : FileH) : Geo f.extents := by
  unfold extents; geo [extentsLoop_geo, offsetFromClusterP_geo]

theorem strm_geoS : StrmGeo FileH.strm := ⟨read_geo, write_geo, seek_geo⟩

end FileH


namespace DirStream

theorem read_geo (st : DirStream) (n : Nat) : Geo (st.read n) := by
  unfold read; geo [FileH.read_geo, DiskSlice.read_geo]

theorem write_geo (st : DirStream) (bs : List Nat) : Geo (st.write bs) := by
  unfold write; geo [FileH.write_geo, DiskSlice.write_geo]

theorem seek_geo (st : DirStream) (p : SeekFrom) : Geo (st.seek p) := by
  unfold seek; geo [FileH.seek_geo, DiskSlice.seek_geo]

theorem strm_geoS : StrmGeo DirStream.strm := ⟨read_geo, write_geo, seek_geo⟩

theorem absPos_geo (fs) (st : DirStream) : Geo (st.absPos fs) := by
  unfold absPos; geo [FileH.absPos_geo]

theorem dropBody_geo (st : DirStream) : Geo st.dropBody := by
  unfold dropBody; split
  · exact FileH.dropBody_geo _
  · exact Geo.pure _

theorem drop_geo (st : DirStream) : Geo st.drop := inDrop_geo st.dropBody_geo

end DirStream

theorem liftE_geo {α} (r : Except Err α) : Geo (liftE r) := by
  unfold liftE; geo

theorem withStream_geo {α} (st0 : DirStream) {body : Prog (α × DirStream)} (hb : Geo body) :
    Geo (withStream st0 body) := by
  unfold withStream; geo [DirStream.dropBody_geo]

theorem thenDrop_geo {α} (st : DirStream) {body : Prog α} (hb : Geo body) : Geo (thenDrop st body) := by
  unfold thenDrop; geo [DirStream.dropBody_geo]

theorem DirEntry.toFile_geo (fs) (e : DirEntry) : Geo (e.toFile fs) := by
  unfold DirEntry.toFile; geo

theorem DirEntry.toDir_geo (fs) (e : DirEntry) : Geo (e.toDir fs) := by
  unfold DirEntry.toDir; geo

/-- `DirEntryData::deserialize` catches `UnexpectedEof` only -/
theorem readSlot_geo (st : DirStream) : Geo (readSlot st) := by
  unfold readSlot
  geo [readExact_geo, readU8_geo, readChunks_geo, DirStream.strm_geoS]

theorem writeSlot_geo (st : DirStream) (e : DirEntryData) : Geo (writeSlot st e) := by
  unfold writeSlot; geo [writeChunks_geo, DirStream.strm_geoS]

theorem readDirEntryLoop_geo (alloc skipVolume : Bool) :
    ∀ fuel st offset beginOff b, Geo (readDirEntryLoop alloc skipVolume fuel st offset beginOff b) := by
  intro fuel
  induction fuel with
  | zero => intros; unfold readDirEntryLoop; geo
  | succ k ih => intros; unfold readDirEntryLoop; geo [readSlot_geo, DirStream.absPos_geo]

theorem readDirEntry_geo (skipVolume : Bool) (st : DirStream) : Geo (readDirEntry skipVolume st) := by
  unfold readDirEntry; geo [DirStream.seek_geo, readDirEntryLoop_geo]

theorem findEntryLoop_geo (env name isDir) : ∀ fuel st gen, Geo (findEntryLoop env name isDir fuel st gen) := by
  intro fuel
  induction fuel with
  | zero => intros; unfold findEntryLoop; geo
  | succ k ih => intros; unfold findEntryLoop; geo [readDirEntry_geo]

theorem findEntryG_geo (env d name isDir gen) : Geo (findEntryG env d name isDir gen) := by
  unfold findEntryG; geo [withStream_geo, findEntryLoop_geo]

theorem findEntry_geo (env d name isDir) : Geo (findEntry env d name isDir) := by
  unfold findEntry; geo [findEntryG_geo]

theorem checkForExistenceLoop_geo (env d name isDir) :
    ∀ fuel gen, Geo (checkForExistenceLoop env d name isDir fuel gen) := by
  intro fuel
  induction fuel with
  | zero => intros; unfold checkForExistenceLoop; geo
  | succ k ih => intros; unfold checkForExistenceLoop; geo [findEntryG_geo]

theorem checkForExistence_geo (env d name isDir) : Geo (checkForExistence env d name isDir) := by
  unfold checkForExistence; geo [checkForExistenceLoop_geo]

theorem findFreeLoop_geo (num) : ∀ fuel st firstFree numFree i, Geo (findFreeLoop num fuel st firstFree numFree i) := by
  intro fuel
  induction fuel with
  | zero => intros; unfold findFreeLoop; geo
  | succ k ih => intros; unfold findFreeLoop; geo [readSlot_geo, DirStream.seek_geo]

theorem findFreeEntries_geo (d num) : Geo (findFreeEntries d num) := by
  unfold findFreeEntries; geo [findFreeLoop_geo, DirStream.dropBody_geo]

theorem createSfnEntry_geo (sn attrs first) : Geo (createSfnEntry sn attrs first) := by
  unfold createSfnEntry; geo

theorem freeWrittenLoop_geo : ∀ k st pos endPos, Geo (freeWrittenLoop k st pos endPos) := by
  intro k
  induction k with
  | zero => intros; unfold freeWrittenLoop; geo
  | succ k ih => intros; unfold freeWrittenLoop; geo [DirStream.seek_geo, writeAll_geo, DirStream.strm_geoS]

theorem freeWrittenEntries_geo (st startPos) : Geo (freeWrittenEntries st startPos) := by
  unfold freeWrittenEntries; geo [DirStream.seek_geo, freeWrittenLoop_geo]

theorem writeSlotsKeep_geo : ∀ slots st, Geo (writeSlotsKeep slots st) := by
  intro slots
  induction slots with
  | nil => intros; unfold writeSlotsKeep; geo
  | cons e rest ih => intros; unfold writeSlotsKeep Prog.attempt; geo [writeSlot_geo]

theorem writeEntry_geo (d : DirStream) (name : String) (raw : DirFileEntryData) : Geo (writeEntry d name raw) := by
  unfold writeEntry
  geo [findFreeEntries_geo, DirStream.seek_geo, DirStream.dropBody_geo, writeSlotsKeep_geo, thenDrop_geo,
    freeWrittenEntries_geo, DirStream.absPos_geo]

theorem deleteSlots_geo : ∀ k st, Geo (deleteSlots k st) := by
  intro k
  induction k with
  | zero => intros; unfold deleteSlots; geo
  | succ k ih => intros; unfold deleteSlots; geo [readSlot_geo, DirStream.seek_geo, writeSlot_geo]

theorem deleteEntry_geo (d e) : Geo (deleteEntry d e) := by
  unfold deleteEntry; geo [withStream_geo, DirStream.seek_geo, deleteSlots_geo]

/-! ### public operations -/

theorem openDir_geo (env) : ∀ fuel d path, Geo (openDir env fuel d path) := by
  intro fuel
  induction fuel with
  | zero => intros; unfold openDir; geo
  | succ k ih =>
    intros; unfold openDir
    geo [findEntry_geo, DirEntry.toDir_geo, thenDrop_geo]

theorem openFile_geo (env) : ∀ fuel d path, Geo (openFile env fuel d path) := by
  intro fuel
  induction fuel with
  | zero => intros; unfold openFile; geo
  | succ k ih =>
    intros; unfold openFile
    geo [findEntry_geo, DirEntry.toDir_geo, DirEntry.toFile_geo, thenDrop_geo]

theorem createFile_geo (env) : ∀ fuel d path, Geo (createFile env fuel d path) := by
  intro fuel
  induction fuel with
  | zero => intros; unfold createFile; geo
  | succ k ih =>
    intros; unfold createFile
    geo [findEntry_geo, DirEntry.toDir_geo, DirEntry.toFile_geo, thenDrop_geo, checkForExistence_geo,
      createSfnEntry_geo, writeEntry_geo]

theorem createDir_geo (env) : ∀ fuel d path, Geo (createDir env fuel d path) := by
  intro fuel
  induction fuel with
  | zero => intros; unfold createDir; geo
  | succ k ih =>
    intros; unfold createDir Prog.attempt
    geo [findEntry_geo, DirEntry.toDir_geo, thenDrop_geo, checkForExistence_geo, liftE_geo, allocClusterFs_geo,
      createSfnEntry_geo, writeEntry_geo, freeClusterChain_geo, DirStream.dropBody_geo]

theorem isEmptyLoop_geo : ∀ fuel st, Geo (isEmptyLoop fuel st) := by
  intro fuel
  induction fuel with
  | zero => intros; unfold isEmptyLoop; geo
  | succ k ih => intros; unfold isEmptyLoop; geo [readDirEntry_geo]

theorem isEmpty_geo (d) : Geo (isEmpty d) := by
  unfold isEmpty; geo [withStream_geo, isEmptyLoop_geo]

theorem remove_geo (env) : ∀ fuel d path, Geo (remove env fuel d path) := by
  intro fuel
  induction fuel with
  | zero => intros; unfold remove; geo
  | succ k ih =>
    intros; unfold remove
    geo [findEntry_geo, DirEntry.toDir_geo, thenDrop_geo, isEmpty_geo, freeClusterChain_geo,
      deleteEntry_geo]

theorem ancestorWalk_geo (env target) : ∀ fuel anc depth, Geo (ancestorWalk env target fuel anc depth) := by
  intro fuel
  induction fuel with
  | zero => intros; unfold ancestorWalk; geo [thenDrop_geo]
  | succ k ih =>
    intros; unfold ancestorWalk
    geo [thenDrop_geo, DirStream.drop_geo, openDir_geo, DirStream.dropBody_geo]

theorem ancestorWalkTop_geo (env target dst) : Geo (ancestorWalkTop env target dst) := by
  unfold ancestorWalkTop; geo [ancestorWalk_geo]

theorem renameInternal_geo (env d srcName dst dstName) : Geo (renameInternal env d srcName dst dstName) := by
  unfold renameInternal
  geo [findEntry_geo, liftE_geo, ancestorWalkTop_geo, checkForExistence_geo, deleteEntry_geo,
    DirEntry.toDir_geo, thenDrop_geo, writeChunks_geo, devStrm_geoS, writeEntry_geo]

theorem rename_geo (env) : ∀ fuel d srcPath dst dstPath, Geo (rename env fuel d srcPath dst dstPath) := by
  intro fuel
  induction fuel with
  | zero => intros; unfold rename; geo
  | succ k ih =>
    intros; unfold rename
    geo [findEntry_geo, DirEntry.toDir_geo, thenDrop_geo, renameInternal_geo]

theorem listLoop_geo : ∀ fuel st acc, Geo (listLoop fuel st acc) := by
  intro fuel
  induction fuel with
  | zero => intros; unfold listLoop; geo
  | succ k ih => intros; unfold listLoop; geo [readDirEntry_geo]

theorem listDir_geo (d) : Geo (listDir d) := by
  unfold listDir; geo [withStream_geo, listLoop_geo]

theorem findVolumeLoop_geo : ∀ fuel st, Geo (findVolumeLoop fuel st) := by
  intro fuel
  induction fuel with
  | zero => intros; unfold findVolumeLoop; geo
  | succ k ih => intros; unfold findVolumeLoop; geo [readDirEntry_geo]

theorem findVolumeEntry_geo (d) : Geo (findVolumeEntry d) := by
  unfold findVolumeEntry; geo [withStream_geo, findVolumeLoop_geo]


theorem readBootSector_geo : Geo readBootSector := by
  unfold readBootSector; geo [readChunks_geo, devStrm_geoS]

theorem readFsInfoSector_geo : Geo readFsInfoSector := by
  unfold readFsInfoSector; geo [readU32_geo, readExact_geo, devStrm_geoS]

theorem flushFsInfo_geo : Geo flushFsInfo := by
  unfold flushFsInfo; geo [writeChunks_geo, devStrm_geoS]

theorem unmountInternal_geo : Geo unmountInternal := by
  unfold unmountInternal; geo [flushFsInfo_geo, setDirtyFlag_geo]

theorem dropFs_geo : Geo dropFs := inDrop_geo unmountInternal_geo

theorem unmount_geo : Geo unmount :=
  Geo.finallyDrop _ _ unmountInternal_geo (fun _ => unmountInternal_geo)

theorem stats_geo : Geo stats := by
  unfold stats; geo [Table.countFree_geo, DiskSlice.strm_geoS]

theorem readStatusFlags_geo : Geo readStatusFlags := by
  unfold readStatusFlags; geo [Table.readFatFlags_geo, DiskSlice.strm_geoS]

theorem readVolumeLabelFromRootDir_geo : Geo readVolumeLabelFromRootDir := by
  unfold readVolumeLabelFromRootDir; geo [thenDrop_geo, findVolumeEntry_geo]

theorem writeZerosUntilEndOfSector_geo (bps) : Geo (writeZerosUntilEndOfSector bps) := by
  unfold writeZerosUntilEndOfSector; geo [writeZeros_geo, devStrm_geoS]

theorem writeBootSector_geo (boot) : Geo (writeBootSector boot) := by
  unfold writeBootSector; geo [writeChunks_geo, devStrm_geoS]

theorem formatVolume_geo (o) : Geo (formatVolume o) := by
  unfold formatVolume
  geo [liftE_geo, writeBootSector_geo, writeZerosUntilEndOfSector_geo, writeZeros_geo, devStrm_geoS,
    Table.formatFat_geo, Table.allocCluster_geo, DiskSlice.strm_geoS, writeChunks_geo]


end FatVerif
