import FatVerif.Proofs.SlotTreeImg7
/-!
# Slot trees on a device image, part 8: `remove` of a FILE whose parent is the fixed root

* `ImgTreeW.of_freed`: the bundle survives the release of a cluster chain that shares no cluster with any directory
  of the tree (`FreedApart`): the FAT changes (`freedView`), every directory chain is still a chain
  (`ChainCore.of_freed`), all slot bytes lie outside the FAT copies and are kept.
* `remove_file_strong`: agent-effects' `WView.remove_file_sim` with the intermediate devices exported (after the
  lookup; after the release: `FreedStep`) — needed to carry the OTHER directories across the release.
* `removeFile_root_final` / `remove_file_root_img`: the call as a tree step, `ImgTreeW` re-established.
-/
namespace FatVerif
namespace SlotTreeImg
open Lfn DirSlots DirAlias SlotTree DirSim FatVerif.FileSim FatVerif.Fat

/-! ## across the release of a chain -/

/-- the freed clusters are on no directory chain of the tree -/
def FreedApart (d : Dev) (up : Char → List Char) (t : Node) (cl : List String → Option Nat) (cs : List Nat) : Prop :=
  ∀ cur s c, cur ≠ [] → getAtS up t cur = some (.dir s c) → ∀ c0 chain, cl cur = some c0 →
    Chain (tabView d.fs d.img) c0 chain → ∀ x ∈ chain, x ∉ cs

theorem SubImg.of_freed {d1 d2 : Dev} {cl : List String → Option Nat} {cur : List String}
    {slots : List (List Nat)} {ch : List (LfnEntry × Node)} {cs : List Nat} (hf : FreedStep d1 d2 cs)
    (S : SubImg d1 cl cur slots ch)
    (hapart : ∀ c0 chain, cl cur = some c0 → Chain (tabView d1.fs d1.img) c0 chain → ∀ x ∈ chain, x ∉ cs) :
    SubImg d2 cl cur slots ch := by
  obtain ⟨c0, chain, e1, e2, hcl, hC, hlist, hdots, hchild⟩ := S
  have hs : VolStep d1 d2 := VolStep.of_devStep hf.step
  have C2 := hC.dir.core.of_freed hf (hapart c0 chain hcl hC.dir.link)
  have hC' : ChainReadable d2 c0 none chain :=
    ⟨⟨C2.failAt, C2.geo, C2.first, C2.link, C2.inTab, C2.nosize, C2.noacc, hC.dir.clean, C2.cs32, C2.u32⟩, by
      rw [hs.geom.clusterSize, dirFuel_geomEq hs.geom]; exact hC.fuel⟩
  have hsl : srcSlots d2.img (chainSrc d1.fs chain) (chain.length * (d1.fs.clusterSize / 32)) =
      srcSlots d1.img (chainSrc d1.fs chain) (chain.length * (d1.fs.clusterSize / 32)) :=
    srcSlots_congr (fun i hi x hx => by
      obtain ⟨b1, b2⟩ := hC.dir.slot_behind i hi
      refine hf.frame _ (by omega) (Or.inr ?_)
      have := hC.dir.geo.fat_data
      omega)
  have hcs := chainSlots_of_step hC hC' hs hsl
  have hsrc := chainSrc_of_volStep hs chain
  refine ⟨c0, chain, e1, e2, hcl, hC', by rw [hcs]; exact hlist, ?_, ?_⟩
  · rw [hsrc]
    exact ⟨hdots.units1, hdots.raw1, hdots.dir1, by rw [firstCluster_geom hs.geom]; exact hdots.own,
      hdots.units2, hdots.raw2, hdots.dir2, by rw [firstCluster_geom hs.geom]; exact hdots.parent⟩
  · intro x hx hd
    rw [hsrc, firstCluster_geom hs.geom]
    exact hchild x hx hd

theorem ImgTreeW.of_freed {d1 d2 : Dev} {up : Char → List Char} {t : Node} {cl : List String → Option Nat}
    {cs : List Nat} (W : ImgTreeW d1 up t cl) (hf : FreedStep d1 d2 cs) (hapart : FreedApart d1 up t cl cs) :
    ImgTreeW d2 up t cl := by
  have hs : VolStep d1 d2 := VolStep.of_devStep hf.step
  refine ⟨W.lay.of_volStep hs, W.rootNone, ?_, fun cur s c hne hg =>
    (W.subs cur s c hne hg).of_freed hf (fun c0 chain hcl hC => hapart cur s c hne hg c0 chain hcl hC)⟩
  intro s c ht
  obtain ⟨N, tail, hR, hsl, htl, hchild⟩ := W.rootImg s c ht
  have hR' := hR.of_volStep hs
  refine ⟨N, tail, hR', ?_, htl, ?_⟩
  · rw [← srcSlots_root hR', ← hsl, ← srcSlots_root hR, rootSliceOf_geomEq hs.geom]
    refine srcSlots_congr (fun i hi x hx => ?_)
    refine hf.frame _ (by have := W.lay.hB; omega) (Or.inr ?_)
    have := W.lay.fatAllRoot
    omega
  · intro x hx hd
    unfold rootSrc
    rw [rootSliceOf_geomEq hs.geom, firstCluster_geom hs.geom]
    exact hchild x hx hd

/-! ## `remove(name)` of a file, with the intermediate devices -/

theorem remove_file_strong {d : Dev} {st : DirStream} (V : WView d st) (env : Env) (path name : String)
    (hsp : Names.splitPath path = (name, none)) (hdot : (name = "." || name = "..") = false)
    (hgeo : Geo d.fs d.img.size) (hinfo : InfoOk d.fs d.img) (le : LfnEntry)
    (hl : lookupL env.upper name.toList none (readDirEntries d.fs.lfnAlloc true (V.slots d.img)) = .ok le)
    (hfile : Lfn.isDir le.sfn = false) (cs : List Nat)
    (hcs : match (toDirEntryS V.src le).firstCluster d.fs with
      | some n => Chain (tabView d.fs d.img) n cs ∧ cs.Nodup ∧
          ∀ x ∈ cs, 2 ≤ x ∧ x < d.fs.totalClusters + 2 ∧ tabView d.fs d.img x ≠ .free
      | none => cs = [])
    (hkeep : ∀ d1 d2, SameVol d d1 → d1.clock = d.clock → FreedStep d1 d2 cs → V.Inv d2)
    (hslots : ∀ i, i < V.N → V.src (32 * i) + 32 ≤ (fatSliceOf d.fs).beginOff ∨
      (fatSliceOf d.fs).beginOff + (fatSliceOf d.fs).mirrors * (fatSliceOf d.fs).size ≤ V.src (32 * i)) (fuel : Nat) :
    ∃ d1 d2 d3, run (FatVerif.remove env (fuel + 1) st path) d = (.ok (), d3) ∧
      SameVol d d1 ∧ FreedStep d1 d2 cs ∧ VolStep d2 d3 ∧ V.Inv d3 ∧
      V.slots d2.img = V.slots d.img ∧
      V.slots d3.img = DirSlots.deleteRange (V.slots d.img) le.beginIdx le.endIdx ∧
      FrameOutE V.N V.src V.Extra d2 d3 := by
  obtain ⟨hmem, _, _⟩ := lookupL_ok _ _ _ _ _ hl
  have hfe := V.toDirView.findEntry_sim env name none d (SameVol.refl d)
  have hlook : V.toDirView.lookup env name none = .ok (toDirEntryS V.src le) := by
    unfold DirView.lookup DirView.lfnEntries
    show (lookupL env.upper name.toList none (readDirEntries d.fs.lfnAlloc true (srcSlots d.img V.src V.N))).map _ = _
    have : srcSlots d.img V.src V.N = V.slots d.img := rfl
    rw [this, hl]; rfl
  rw [hlook] at hfe
  obtain ⟨d1, h1, hs1⟩ := hfe
  have hisdir : (toDirEntryS V.src le).isDir = false := by
    rw [toDirEntryS_isDir V.src le (srcEntries_slotOK _ _ _ _ _ le hmem)]; exact hfile
  obtain ⟨d2, h2, hf2⟩ := run_free_step ((toDirEntryS V.src le).firstCluster d.fs) cs d1
    (by rw [hs1.failAt]; exact V.io.noFault d V.here) (by rw [hs1.img]; exact V.io.wf d V.here)
    (by rw [hs1.fs, hs1.img]; exact hgeo) (by rw [hs1.fs, hs1.img]; exact hinfo) (by rw [hs1.fs, hs1.img]; exact hcs)
  have hinv2 := hkeep d1 d2 hs1 (run_clock _ _ _ _ h1) hf2
  have hslots2 : V.slots d2.img = V.slots d.img := by
    unfold WView.slots
    refine srcSlots_congr (fun i hi x hx => ?_)
    have hb := V.geo.behind i hi
    have ho := hslots i hi
    rw [hf2.frame _ (by omega) (by
      rw [hs1.fs]
      unfold OutsideFat
      rcases ho with ho | ho
      · left; omega
      · right; omega), hs1.img]
  have hmem2 : le ∈ readDirEntries d2.fs.lfnAlloc true ((V.step hinv2).slots d2.img) := by
    have : (V.step hinv2).slots d2.img = V.slots d2.img := rfl
    rw [this, hslots2]
    have hla : d2.fs.lfnAlloc = d.fs.lfnAlloc := by
      have := hf2.step.geom
      rw [← hs1.fs]
      unfold FsGeomEq at this
      rw [this]
    rw [hla]; exact hmem
  obtain ⟨d3, h3, hs3, _, hinv3, hsl3, hfr3, _⟩ := (V.step hinv2).deleteEntry_sim le hmem2
  refine ⟨d1, d2, d3, ?_, hs1, hf2, hs3, hinv3, hslots2, ?_, hfr3⟩
  · unfold FatVerif.remove
    rw [run_bind_ok (run_getFs d), hsp]
    simp only [hdot, Bool.false_eq_true, if_false]
    rw [run_bind_ok h1]
    simp only [id, hisdir, Bool.false_eq_true, if_false]
    rw [run_bind_ok (rfl : run (pure false : Prog Bool) d1 = (.ok false, d1))]
    simp only [Bool.false_eq_true, if_false]
    exact (h2 (FatVerif.deleteEntry st (toDirEntryS V.src le))).trans h3
  · have : (V.step hinv2).slots d3.img = V.slots d3.img := rfl
    rw [← this, hsl3]
    have : (V.step hinv2).slots d2.img = V.slots d2.img := rfl
    rw [this, hslots2]

theorem FreedApart.of_sameVol {d d1 : Dev} {up : Char → List Char} {t : Node} {cl : List String → Option Nat}
    {cs : List Nat} (h : FreedApart d up t cl cs) (hv : SameVol d d1) : FreedApart d1 up t cl cs := by
  intro cur s c hne hg c0 chain hcl hch
  rw [hv.fs, hv.img] at hch
  exact h cur s c hne hg c0 chain hcl hch

/-! ## the slot tree's verdict at the last directory -/

/-- what `removeS` does once the walk has reached the directory at `p` -/
def rmFinal (up : Char → List Char) (t : Node) (p : List String) (name : String) : Res :=
  match getAtS up t p with
  | some (.dir slots ch) =>
    if isDotName name then fail t .invalidInput
    else match lookupS up slots ch name with
      | none => fail t .notFound
      | some x =>
        if Lfn.isDir x.1.sfn && !nodeEmpty x.2 then fail t .dirNotEmpty
        else done (updS up (delEntry x.1) p t)
  | _ => fail t .notFound

theorem removeS_eq (up : Char → List Char) (t : Node) (cwd : List String) (path : String) :
    removeS up t cwd path =
      match walkDirsS up t cwd (pathParts path).1 with
      | .error e => fail t e
      | .ok p => rmFinal up t p (pathParts path).2 := by
  unfold removeS rmFinal
  cases walkDirsS up t cwd (pathParts path).1 with
  | error e => rfl
  | ok p =>
    simp only
    cases getAtS up t p with
    | none => rfl
    | some n => cases n <;> rfl

theorem remove_unfold_step (env : Env) (f : Nat) (st : DirStream) (chars a r : List Char)
    (h : Names.splitPathL chars = (a, some r)) :
    FatVerif.remove env (f + 1) st (String.ofList chars) =
      Prog.bind Prog.getFs fun fs =>
        Prog.bind (findEntry env st (String.ofList a) (some true)) fun e =>
          Prog.bind (e.toDir fs) fun sub => thenDrop sub (FatVerif.remove env f sub (String.ofList r)) := by
  conv => lhs; unfold FatVerif.remove
  rw [splitPath_ofList, h]
  rfl

theorem remove_dot_fails (env : Env) (f : Nat) (st : DirStream) (path name : String)
    (hsp : Names.splitPath path = (name, none)) (hdot : isDotName name = true) (d1 : Dev) :
    FailsV (FatVerif.remove env (f + 1) st path) d1 .invalidInput := by
  unfold FatVerif.remove
  refine FailsV.bind_right (Reads.getFs d1) (fun d2 _ => ?_)
  rw [hsp]
  simp only [isDotName_eq, hdot, if_true]
  exact ⟨d2, rfl, SameVol.refl d2⟩

/-- the lookup without kind filter, in terms of the first entry answering to the name -/
theorem lookupL_none_find (up : Char → List Char) (q : List Char) :
    ∀ (l : List LfnEntry), lookupL up q none l =
      match l.find? (fun e => matchesName up e q) with
      | none => .error .notFound
      | some e => .ok e
  | [] => rfl
  | x :: l => by
    simp only [lookupL, List.find?_cons]
    cases hm : matchesName up x q with
    | true => simp
    | false =>
      simp only [Bool.false_eq_true, if_false]
      exact lookupL_none_find up q l

/-- what the removal of the file needs besides the tree: the volume facts of the release step, the chain of the file
    (none for a file without a cluster), apart from every directory chain -/
def RemoveRes (d : Dev) (up : Char → List Char) (t : Node) (cl : List String → Option Nat)
    (slots : List (List Nat)) (ch : List (LfnEntry × Node)) (name : String) : Prop :=
  Geo d.fs d.img.size ∧ InfoOk d.fs d.img ∧
  ∀ x, lookupS up slots ch name = some x → x.2.isDir = false ∧
    ∃ cs, (match (toDirEntryS (rootSrc d.fs) x.1).firstCluster d.fs with
        | some n => Chain (tabView d.fs d.img) n cs ∧ cs.Nodup ∧
            ∀ y ∈ cs, 2 ≤ y ∧ y < d.fs.totalClusters + 2 ∧ tabView d.fs d.img y ≠ .free
        | none => cs = []) ∧ FreedApart d up t cl cs

section final
variable {d : Dev} {up : Char → List Char} {cl : List String → Option Nat} {slots : List (List Nat)}
  {ch : List (LfnEntry × Node)}

/-- **the last component of `remove` (of a file) in the root directory** -/
theorem removeFile_root_final (W : ImgTreeW d up (.dir slots ch) cl) (hwf : TreeWf up (.dir slots ch)) (env : Env)
    (henv : env.upper = up) (f : Nat) (chars a : List Char) (hsp : Names.splitPathL chars = (a, none))
    (hres : RemoveRes d up (.dir slots ch) cl slots ch (String.ofList a)) (d4 : Dev) (hv : SameVol d d4)
    (_hc : d4.clock = d.clock) :
    MOut (fun (_ : Unit) d' => VolStep d d' ∧ ImgTreeW d' up (rmFinal up (.dir slots ch) [] (String.ofList a)).tree cl)
      (FatVerif.remove env (f + 1) (rootAt d.fs 0) (String.ofList chars)) d4
      (outErr (rmFinal up (.dir slots ch) [] (String.ofList a))) := by
  have hspS : Names.splitPath (String.ofList chars) = (String.ofList a, none) := by
    rw [splitPath_ofList, hsp]; rfl
  obtain ⟨hgeo, hinfo, hfound⟩ := hres
  have W4 := W.of_sameVol hv
  obtain ⟨N, tail, hR, hsl, htl, _⟩ := W4.rootImg slots ch rfl
  have hd : DirOk up slots ch := ((all_dir _ slots ch).1 hwf).1
  have hst : rootAt d.fs 0 = rootAt d4.fs 0 := by rw [hv.fs]
  rw [hst]
  have halloc := W4.lay.alloc
  -- the lookup on the image is the lookup in the node's slots
  have hlk : lookupL up (String.ofList a).toList none
      (readDirEntries d4.fs.lfnAlloc true (srcSlots d4.img (fun o => (rootSliceOf d4.fs).beginOff + o) N)) =
      match DirSlots.findEntry up slots (String.ofList a).toList with
      | none => .error .notFound
      | some e => .ok e := by
    rw [halloc, srcSlots_root hR, hsl]
    show lookupL up _ none (listing (slots ++ tail)) = _
    rw [listing_append_ends slots tail htl, lookupL_none_find]
    rfl
  unfold rmFinal
  simp only [getAtS]
  cases hdn : isDotName (String.ofList a) with
  | true =>
    simp only [if_true]
    exact remove_dot_fails env f _ _ _ hspS hdn d4
  | false =>
    simp only [Bool.false_eq_true, if_false]
    cases hx : lookupS up slots ch (String.ofList a) with
    | none =>
      have hf := lookupS_none hd hx
      rw [hf] at hlk
      refine (DirView.ofRoot hR).remove_fails_sim env _ _ hspS (by rw [isDotName_eq]; exact hdn) .notFound ?_ f d4
        (SameVol.refl d4)
      unfold DirView.lookup DirView.lfnEntries
      show (lookupL env.upper _ none (readDirEntries d4.fs.lfnAlloc true
        (srcSlots d4.img (fun o => (rootSliceOf d4.fs).beginOff + o) N))).map _ = _
      rw [henv, hlk]; rfl
    | some x =>
      obtain ⟨hfx, hxm, hxl, _⟩ := lookupS_some hd hx
      rw [hfx] at hlk
      obtain ⟨hfile, cs, hcs, hapart⟩ := hfound x hx
      have hsfn : Lfn.isDir x.1.sfn = false := by rw [hd.kind x hxm]; exact hfile
      simp only [hsfn, Bool.false_and, Bool.false_eq_true, if_false, outErr, done]
      let V : WView d4 (.root (sliceAt (rootSliceOf d4.fs) 0)) :=
        WView.ofRoot (rootSliceOf d4.fs) N hR.slots rfl rfl W4.lay.hB d4 hR.noFault hR.inside W4.lay.wf hR.fuel
      have hVs : V.slots d4.img = slots ++ tail := by
        show srcSlots d4.img (fun o => (rootSliceOf d4.fs).beginOff + o) N = _
        rw [srcSlots_root hR, hsl]
      obtain ⟨d1, d2, d3, hrun, hs1, hf2, hs3, _, _, hsl3, hfr3⟩ := remove_file_strong V env (String.ofList chars)
        (String.ofList a) hspS (by rw [isDotName_eq]; exact hdn) (by rw [hv.fs, hv.img]; exact hgeo)
        (by rw [hv.fs, hv.img]; exact hinfo) x.1 (by rw [henv]; exact hlk) hsfn cs
        (by
          show match (toDirEntryS (fun o => (rootSliceOf d4.fs).beginOff + o) x.1).firstCluster d4.fs with
            | some n => _ | none => _
          rw [hv.fs, hv.img]; exact hcs)
        (fun da db hva _ hfab => RootInv.of_freed V.here hva hfab)
        (fun i hi => Or.inr (by
          show _ ≤ (rootSliceOf d4.fs).beginOff + 32 * i
          have := W4.lay.fatAllRoot; omega)) f
      refine ⟨(), d3, hrun, ((VolStep.of_sameVol (hv.trans hs1)).trans (VolStep.of_devStep hf2.step)).trans hs3, ?_⟩
      -- carry the bundle: same volume, release, then the root write
      have W1 := W4.of_sameVol hs1
      have W2 := W1.of_freed hf2 ((hapart.of_sameVol hv).of_sameVol hs1)
      have hs12 : VolStep d4 d2 := (VolStep.of_sameVol hs1).trans (VolStep.of_devStep hf2.step)
      have hR2 : RootReadable d2 N := hR.of_volStep hs12
      have hg2 : rootSliceOf d2.fs = rootSliceOf d4.fs := rootSliceOf_geomEq hs12.geom
      have hbounds := readLoop_bounds true true slots 0 0 _ (Nat.le_refl _) x.1 hxl
      have hroot' : rootDirSlots d3.fs d3.img =
          DirSlots.deleteRange slots x.1.beginIdx x.1.endIdx ++ tail := by
        rw [← deleteRange_append slots tail _ _ (by omega), ← hVs, ← hsl3]
        show _ = srcSlots d3.img (fun o => (rootSliceOf d4.fs).beginOff + o) N
        rw [← hg2, ← rootSliceOf_geomEq hs3.geom]
        exact (srcSlots_root (hR2.of_volStep hs3)).symm
      have hd' := delEntry_dirOk hd x.1 hxl
      show ImgTreeW d3 up (updS up (delEntry x.1) [] (.dir slots ch)) cl
      have htree : updS up (delEntry x.1) [] (.dir slots ch) =
          .dir (DirSlots.deleteRange slots x.1.beginIdx x.1.endIdx) (ch.filter fun y => !(y.1 == x.1)) := rfl
      rw [htree]
      have hfrG : FrameOutG N (rootSrc d2.fs) d2 d3 := by
        unfold rootSrc; rw [hg2]; exact hfr3.toG
      refine imgTreeW_root_step W2 hR2 hs3 hfrG tail hroot' htl ?_ ?_
      · intro y hy _
        exact (List.mem_filter.1 hy).1
      · intro q y hy hdy
        obtain ⟨_, hym, _, hyq⟩ := lookupS_some hd' hy
        have hmem : y ∈ ch := (List.mem_filter.1 hym).1
        unfold lookupS
        rw [DirSlots.findEntry_unique up _ hd.wf _ _ (hd.mem_listing hmem) hyq]
        exact hd.find_key hmem

end final

end SlotTreeImg
end FatVerif
