import FatVerif.Proofs.DirWriteSim42
/-! Directory WRITES, part 43: `write_entry` across one growth of a SUB-DIRECTORY, with the decoded FAT afterwards
    (`sub_writeEntry_grow` of part 22 plus `tabView d' = allocLinkV … (some last) c`). -/
namespace FatVerif.DirSim
open FatVerif.FileSim FatVerif.Fat DirEntryData

section grow
variable {fs0 : FsState} {ed0 : DirEntryEditor} {c0 : Nat} {chain : List Nat} {t0 : Nat}

theorem TvIs.of_drop {tv : Nat → FatValue} {d d1 : Dev} (hp : TvIs tv d) (h : SubInv fs0 ed0 c0 chain t0 d)
    (hfs : d1.fs = d.fs) (hb : ∀ q, 0x42 ≤ q → ¬ subExtra ed0 q → d1.img.getByte q = d.img.getByte q) : TvIs tv d1 := by
  have hgeo := h.dir.geo
  have hfat : FatAgree d.fs d.img d1.img := by
    intro q h1 h2
    have := hgeo.status_lt
    refine hb q (by omega) ?_
    unfold subExtra
    have := h.epos
    have e1 := h.geom.fatSlice
    rw [e1] at h1 h2
    have : (fatSliceOf fs0).size ≤ (fatSliceOf fs0).mirrors * (fatSliceOf fs0).size := by
      have := hgeo.mirrors_pos
      rw [e1] at this
      exact Nat.le_mul_of_pos_left _ this
    omega
  unfold TvIs at *
  rw [hfs, tabView_congr hgeo hfat]; exact hp

/-- the growth slot of a sub-directory, for a handle `f` of it (the initial one, or the stamped one) -/
theorem sub_growSlot_tv (f : FileH) (hcore : ∀ d, SubInv fs0 ed0 c0 chain t0 d → ChainCore d f c0 chain)
    (hst : stamped f t0 = subW ed0 c0 t0) (hisdir : f.isDir = true) (c last : Nat) (tv0 : Nat → FatValue)
    (nx0 : Option Nat) (hlast : chain.getLast? = some last) (hlv : tv0 last ≠ .free)
    (hfind : allocFindV tv0 nx0 fs0.totalClusters = some c)
    (hu32 : (chain.length + 1) * fs0.clusterSize < 4294967296)
    (hfuel' : (chain.length + 1) * (fs0.clusterSize / 32) < dirFuel fs0) :
    GrowSlot (fun d => SubInv fs0 ed0 c0 chain t0 d ∧ AllocOk tv0 nx0 d)
      (fun d => SubInv fs0 ed0 c0 (chain ++ [c]) t0 d ∧ TvIs (allocLinkV tv0 (some last) c) d)
      (chainS f chain fs0.clusterSize) (chainS (subW ed0 c0 t0) (chain ++ [c]) fs0.clusterSize)
      (chain.length * (fs0.clusterSize / 32)) (fs0.clusterSize / 32) (chainSrc fs0 chain) (chainSrc fs0 (chain ++ [c]))
      (OutsideFat fs0) := by
  intro d hinv e hl hb
  obtain ⟨h, ha⟩ := hinv
  have hcs : d.fs.clusterSize = fs0.clusterSize := h.geom.clusterSize
  have hcspos : 0 < fs0.clusterSize := by rw [← hcs]; exact h.dir.geo.cs_pos
  have h32 : fs0.clusterSize % 32 = 0 := by rw [← hcs]; exact h.dir.cs32
  have hK : 32 * (fs0.clusterSize / 32) = fs0.clusterSize := by
    have := Nat.div_add_mod fs0.clusterSize 32; omega
  have hT : 32 * (chain.length * (fs0.clusterSize / 32)) = chain.length * fs0.clusterSize := by
    rw [Nat.mul_left_comm, hK]
  have hNK : (chain.length + 1) * (fs0.clusterSize / 32) = chain.length * (fs0.clusterSize / 32) + fs0.clusterSize / 32 := by
    rw [Nat.add_mul, Nat.one_mul]
  have WG' : WFam (SubInv fs0 ed0 c0 (chain ++ [c]) t0) (chainS (subW ed0 c0 t0) (chain ++ [c]) fs0.clusterSize)
      (chainS (subW ed0 c0 t0) (chain ++ [c]) fs0.clusterSize) ((chain.length + 1) * (fs0.clusterSize / 32))
      (chainSrc fs0 (chain ++ [c])) (chainRoom fs0 (chain ++ [c])) := by
    have := sub_wfam (fs0 := fs0) (ed0 := ed0) (c0 := c0) (chain := chain ++ [c]) (t0 := t0) (subW ed0 c0 t0)
      (fun _ h => h.coreW) stamped_subW
    rwa [List.length_append, List.length_singleton] at this
  obtain ⟨d', hr, hs, hd, hinv', hinfo', hsl, htv, hfr⟩ := grow_slot f (subW ed0 c0 t0) c last
    (SubInv fs0 ed0 c0 (chain ++ [c]) t0) WG' d (hcore d h) h.wf h.geom (by rw [h.clock]; exact hst) ha.info hisdir hlast
    (by rw [ha.tv]; exact hlv) (by rw [ha.tv, ha.next, h.geom.totalClusters]; exact hfind) (by rw [hcs]; exact hu32)
    (fun d1 hs1 hwf1 hC1 => by
      have hC0 : ChainCore d1 (FileH.new (some c0) (some ed0)) c0 (chain ++ [c]) := by
        refine ⟨hC1.failAt, hC1.geo, rfl, hC1.link, hC1.inTab, h.dir.nosize, ?_, hC1.cs32, hC1.u32⟩
        rcases h.dir.noacc with h1 | h1
        · left; rw [hs1.geom.accDate]; exact h1
        · cases h1
      exact ⟨⟨hC0.failAt, hC0.geo, hC0.first, hC0.link, hC0.inTab, hC0.nosize, hC0.noacc, h.dir.clean, hC0.cs32, hC0.u32⟩,
        hwf1, h.geom.trans hs1.geom, by rw [List.length_append, List.length_singleton]; exact hfuel',
        hs1.clock.trans h.clock, h.nameLen, h.epos, by rw [hs1.size]; exact h.einside⟩)
    (fun d1 h1 => ⟨h1.dir.geo, h1.wf, h1.geom⟩) e hl hb
  rw [← hT] at hr
  refine ⟨d', hr, hs, hd, ⟨hinv', by unfold TvIs; rw [htv, ha.tv]⟩, ?_, ?_⟩
  · rw [← hNK]; exact hsl
  · intro q hq ho hn
    refine hfr q hq (by unfold OutsideFat at ho ⊢; rw [h.geom.fatSlice]; exact ho) ?_
    rintro ⟨h1, h2⟩
    rw [h.geom.clusterOff] at h1 h2
    rw [hcs] at h2
    have hget : (chain ++ [c]).getD chain.length 0 = c := by
      rw [List.getD_eq_getElem?_getD, List.getElem?_append_right (Nat.le_refl _), Nat.sub_self]; rfl
    obtain ⟨i, hi, hi1, hi2⟩ := cluster_in_slots fs0 (chain ++ [c]) hcspos h32 chain.length
      (by rw [List.length_append, List.length_singleton]; omega) q (by rw [hget]; exact h1) (by rw [hget]; exact h2)
    rw [List.length_append, List.length_singleton, hNK] at hi
    exact hn i hi ⟨hi1, hi2⟩


/-- **`write_entry` in a sub-directory across one growth** -/
theorem sub_writeEntry_grow_tv (hdirattr : ed0.data.isDir = true) (c last : Nat) (name : String) (raw : DirFileEntryData)
    (hval : Names.validateLongName name = .ok ()) (hdot : (name = "." || name = "..") = false) (hraw : raw.WF)
    (hlfn : attrsIsLfn raw.attrs = false) (d : Dev) (h : SubInv fs0 ed0 c0 chain t0 d) (hinfo : InfoOk d.fs d.img)
    (hlast : chain.getLast? = some last) (hlv : tabView d.fs d.img last ≠ .free)
    (hfind : allocFindV (tabView d.fs d.img) d.fs.fsInfo.next d.fs.totalClusters = some c)
    (hu32 : (chain.length + 1) * fs0.clusterSize < 4294967296)
    (hfuel' : (chain.length + 1) * (fs0.clusterSize / 32) < dirFuel fs0)
    (heout : ∀ i, i < chain.length * (fs0.clusterSize / 32) →
      chainSrc fs0 chain (32 * i) + 32 ≤ ed0.pos ∨ ed0.pos + 32 ≤ chainSrc fs0 chain (32 * i))
    (heout' : ∀ i, i < (chain ++ [c]).length * (fs0.clusterSize / 32) →
      chainSrc fs0 (chain ++ [c]) (32 * i) + 32 ≤ ed0.pos ∨ ed0.pos + 32 ≤ chainSrc fs0 (chain ++ [c]) (32 * i))
    (hgrow : chain.length * (fs0.clusterSize / 32) <
      DirSlots.findFree (srcSlots d.img (chainSrc fs0 chain) (chain.length * (fs0.clusterSize / 32)))
        (Lfn.numParts (Names.encodeUtf16 name.toList).length + 1) + (Lfn.numParts (Names.encodeUtf16 name.toList).length + 1))
    (hfit : DirSlots.findFree (srcSlots d.img (chainSrc fs0 chain) (chain.length * (fs0.clusterSize / 32)))
        (Lfn.numParts (Names.encodeUtf16 name.toList).length + 1) + (Lfn.numParts (Names.encodeUtf16 name.toList).length + 1) ≤
      chain.length * (fs0.clusterSize / 32) + fs0.clusterSize / 32) :
    ∃ (d' : Dev) (e : DirEntry),
      run (FatVerif.writeEntry (chainS (FileH.new (some c0) (some ed0)) chain fs0.clusterSize 0) name raw) d = (.ok e, d') ∧
      e = toDirEntryS (chainSrc fs0 (chain ++ [c])) ⟨raw.serialize, Names.encodeUtf16 name.toList,
        DirSlots.findFree (srcSlots d.img (chainSrc fs0 chain) (chain.length * (fs0.clusterSize / 32)))
          (Lfn.numParts (Names.encodeUtf16 name.toList).length + 1),
        DirSlots.findFree (srcSlots d.img (chainSrc fs0 chain) (chain.length * (fs0.clusterSize / 32)))
          (Lfn.numParts (Names.encodeUtf16 name.toList).length + 1) + (Lfn.numParts (Names.encodeUtf16 name.toList).length + 1)⟩ ∧
      VolStep d d' ∧ d'.fs.curDirty = true ∧ SubInv fs0 ed0 c0 (chain ++ [c]) t0 d' ∧
      srcSlots d'.img (chainSrc fs0 (chain ++ [c])) (chain.length * (fs0.clusterSize / 32) + fs0.clusterSize / 32) =
        DirSlots.writeEntry (srcSlots d.img (chainSrc fs0 chain) (chain.length * (fs0.clusterSize / 32)))
          (Names.encodeUtf16 name.toList) raw.serialize ++
        List.replicate (chain.length * (fs0.clusterSize / 32) + fs0.clusterSize / 32 -
          (DirSlots.findFree (srcSlots d.img (chainSrc fs0 chain) (chain.length * (fs0.clusterSize / 32)))
            (Lfn.numParts (Names.encodeUtf16 name.toList).length + 1) +
            (Lfn.numParts (Names.encodeUtf16 name.toList).length + 1))) DirSlots.zeroSlot ∧
      (∀ q, 0x42 ≤ q → OutsideFat fs0 q →
        (∀ i, i < chain.length * (fs0.clusterSize / 32) + fs0.clusterSize / 32 →
          ¬ (chainSrc fs0 (chain ++ [c]) (32 * i) ≤ q ∧ q < chainSrc fs0 (chain ++ [c]) (32 * i) + 32)) →
        ¬ subExtra ed0 q → d'.img.getByte q = d.img.getByte q) ∧
      tabView d'.fs d'.img = allocLinkV (tabView d.fs d.img) (some last) c := by
  have hcs : d.fs.clusterSize = fs0.clusterSize := h.geom.clusterSize
  have hcspos : 0 < fs0.clusterSize := by rw [← hcs]; exact h.dir.geo.cs_pos
  have h32 : fs0.clusterSize % 32 = 0 := by rw [← hcs]; exact h.dir.cs32
  have hK : 32 * (fs0.clusterSize / 32) = fs0.clusterSize := by
    have := Nat.div_add_mod fs0.clusterSize 32; omega
  have hKpos : 0 < fs0.clusterSize / 32 := by
    rcases Nat.eq_zero_or_pos (fs0.clusterSize / 32) with h0 | h0
    · rw [h0] at hK; omega
    · exact h0
  have hNK : (chain ++ [c]).length * (fs0.clusterSize / 32) = chain.length * (fs0.clusterSize / 32) + fs0.clusterSize / 32 := by
    rw [List.length_append, List.length_singleton, Nat.add_mul, Nat.one_mul]
  have hgeo0 : Geo fs0 d.img.size := by
    have := h.dir.geo
    have hg := h.geom
    unfold FsGeomEq at hg
    rw [hg] at this
    exact ⟨this.bps_pos, this.spc_pos, this.status_lt, this.ents, this.mirrors_pos, this.fat_data, this.data_dev,
      this.u32a, this.u32b, this.fat_u32, this.small⟩
  obtain ⟨hc2, hct, hcf⟩ := allocFindV_some _ _ _ _ hinfo.hint hfind
  have hcnotin : c ∉ chain := by
    intro hmem
    obtain ⟨i, hi, hie⟩ := List.mem_iff_getElem.mp hmem
    by_cases hil : i + 1 < chain.length
    · have hn := chain_nextV_getElem? h.dir.link i c (by rw [List.getElem?_eq_getElem hi, hie])
      rw [List.getElem?_eq_getElem hil] at hn
      unfold nextV at hn
      rw [hcf] at hn
      cases hn
    · have hil' : i = chain.length - 1 := by omega
      have : chain.getLast? = some c := by
        rw [List.getLast?_eq_getElem?, ← hil', List.getElem?_eq_getElem hi, hie]
      rw [this] at hlast
      cases hlast
      exact hlv hcf
  have hg : SlotGeo (chain.length * (fs0.clusterSize / 32)) (chainSrc fs0 chain) :=
    slotGeo_of hgeo0 h32 (fun x hx => (h.dir.inTab x hx).1) (chain_nodup' h.dir.link)
  have hg' : SlotGeo (chain.length * (fs0.clusterSize / 32) + fs0.clusterSize / 32) (chainSrc fs0 (chain ++ [c])) := by
    rw [← hNK]
    refine slotGeo_of hgeo0 h32 (fun x hx => ?_) ?_
    · rcases List.mem_append.mp hx with hx | hx
      · exact (h.dir.inTab x hx).1
      · simp only [List.mem_singleton] at hx; subst hx; exact hc2
    · rw [List.nodup_append]
      exact ⟨chain_nodup' h.dir.link, by simp, fun a ha b hb hab => by
        simp only [List.mem_singleton] at hb; subst hb; subst hab; exact hcnotin ha⟩
  have hPw : ∀ (d1 d2 : Dev) (o : Nat) (bs : List Nat), SubInv fs0 ed0 c0 chain t0 d1 →
      AllocOk (tabView d.fs d.img) d.fs.fsInfo.next d1 → WritesTo d1 d2 (chainSrc fs0 chain o) bs →
      SubInv fs0 ed0 c0 chain t0 d2 → o + bs.length ≤ 32 * (chain.length * (fs0.clusterSize / 32)) →
      AllocOk (tabView d.fs d.img) d.fs.fsInfo.next d2 := fun d1 d2 o bs hi ha hw _ _ =>
    ha.of_writesTo hw hi.wf hi.dir.geo (by rw [← chainSrc_geom hi.geom]; exact chainSrc_ge _ _ _)
  have W := (sub_wfam (fs0 := fs0) (ed0 := ed0) (c0 := c0) (chain := chain) (t0 := t0) (FileH.new (some c0) (some ed0))
    (fun _ h => h.dir.core) stamped_sub0).strengthen (AllocOk (tabView d.fs d.img) d.fs.fsInfo.next) hPw
  have WG := (sub_wfam (fs0 := fs0) (ed0 := ed0) (c0 := c0) (chain := chain) (t0 := t0) (subW ed0 c0 t0)
    (fun _ h => h.coreW) stamped_subW).strengthen (AllocOk (tabView d.fs d.img) d.fs.fsInfo.next) hPw
  have IO := (subInv_ok (fs0 := fs0) (ed0 := ed0) (c0 := c0) (chain := chain) (t0 := t0)).strengthen
    (AllocOk (tabView d.fs d.img) d.fs.fsInfo.next) (fun _ _ ha hv => ha.of_sameVol hv)
  have O := (sub_wops (fs0 := fs0) (ed0 := ed0) (c0 := c0) (chain := chain) (t0 := t0) heout).strengthen
    (AllocOk (tabView d.fs d.img) d.fs.fsInfo.next) (fun d1 hi ha o d2 _ hr => by
      obtain ⟨d2', hr', _, _, _, hb', _, hfs'⟩ := sub_drop hi o
      rw [hr] at hr'
      cases hr'
      exact ha.of_drop hi hfs' hb')
  have WG' : WFam (SubInv fs0 ed0 c0 (chain ++ [c]) t0) (chainS (subW ed0 c0 t0) (chain ++ [c]) fs0.clusterSize)
      (chainS (subW ed0 c0 t0) (chain ++ [c]) fs0.clusterSize) (chain.length * (fs0.clusterSize / 32) + fs0.clusterSize / 32)
      (chainSrc fs0 (chain ++ [c])) (chainRoom fs0 (chain ++ [c])) := by
    have := sub_wfam (fs0 := fs0) (ed0 := ed0) (c0 := c0) (chain := chain ++ [c]) (t0 := t0) (subW ed0 c0 t0)
      (fun _ h => h.coreW) stamped_subW
    rwa [hNK] at this
  have O' : WOps (SubInv fs0 ed0 c0 (chain ++ [c]) t0) (chainS (FileH.new (some c0) (some ed0)) (chain ++ [c]) fs0.clusterSize)
      (chainS (subW ed0 c0 t0) (chain ++ [c]) fs0.clusterSize) (chain.length * (fs0.clusterSize / 32) + fs0.clusterSize / 32)
      (chainSrc fs0 (chain ++ [c])) (chainRoom fs0 (chain ++ [c])) (subExtra ed0) (subDropPost ed0 t0) := by
    have := sub_wops (fs0 := fs0) (ed0 := ed0) (c0 := c0) (chain := chain ++ [c]) (t0 := t0) heout'
    rwa [hNK] at this
  have hsub : ∀ i, i < chain.length * (fs0.clusterSize / 32) →
      chainSrc fs0 (chain ++ [c]) (32 * i) = chainSrc fs0 chain (32 * i) := by
    intro i hi
    apply chainSrc_append_old
    apply div_lt_of_lt_mul hcspos
    have : 32 * (chain.length * (fs0.clusterSize / 32)) = chain.length * fs0.clusterSize := by
      rw [Nat.mul_left_comm, hK]
    omega
  have IO' := (subInv_ok (fs0 := fs0) (ed0 := ed0) (c0 := c0) (chain := chain ++ [c]) (t0 := t0)).strengthen
    (TvIs (allocLinkV (tabView d.fs d.img) (some last) c)) (fun _ _ hp hv => hp.of_sameVol hv)
  have WG'' := WG'.strengthen (TvIs (allocLinkV (tabView d.fs d.img) (some last) c)) (fun d1 d2 o bs hi hp hw _ _ =>
      hp.of_writesTo hw hi.wf hi.dir.geo (by rw [← chainSrc_geom hi.geom]; exact chainSrc_ge _ _ _))
  have O'' := O'.strengthen (TvIs (allocLinkV (tabView d.fs d.img) (some last) c)) (fun d1 hi hp o d2 _ hr => by
      obtain ⟨d2', hr', _, _, _, hb', _, hfs'⟩ := sub_drop hi o
      rw [hr] at hr'
      cases hr'
      exact hp.of_drop hi hfs' hb')
  have hdir0 : (FileH.new (some c0) (some ed0)).isDir = true := hdirattr
  have hdirW : (subW ed0 c0 t0).isDir = true := by
    show (ed0.setModified (clockDateTime t0)).data.isDir = true
    rw [isDir_setModified_ed]; exact hdirattr
  have hgsF := sub_growSlot_tv (fs0 := fs0) (ed0 := ed0) (c0 := c0) (chain := chain) (t0 := t0) (FileH.new (some c0) (some ed0))
    (fun _ h => h.dir.core) stamped_sub0 hdir0 c last (tabView d.fs d.img) d.fs.fsInfo.next hlast hlv
    (by rw [← h.geom.totalClusters]; exact hfind) hu32 hfuel'
  have hgsG := sub_growSlot_tv (fs0 := fs0) (ed0 := ed0) (c0 := c0) (chain := chain) (t0 := t0) (subW ed0 c0 t0)
    (fun _ h => h.coreW) stamped_subW hdirW c last (tabView d.fs d.img) d.fs.fsInfo.next hlast hlv
    (by rw [← h.geom.totalClusters]; exact hfind) hu32 hfuel'
  obtain ⟨d', hr, hs, hd, ⟨hinv', htv'⟩, hsl, hfr⟩ := writeEntry_grow IO IO' hg hg' W WG WG'' hKpos hsub hgsF hgsG O O'' name raw
    hval hdot hraw d ⟨h, hinfo, rfl, rfl⟩ hgrow hfit
  exact ⟨d', _, hr, writeEntry_result _ raw hraw hlfn _ _ _ (by omega), hs, hd, hinv', hsl, hfr, htv'⟩

end grow

end FatVerif.DirSim
