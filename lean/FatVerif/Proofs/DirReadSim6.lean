import FatVerif.Proofs.DirReadSim5
/-! Directory reads, part 6 (generic): `read_dir_entry`, the listing loop, `Dir::iter`, `find_entry` on any directory
    stream described by a `DirSrc` = the pure reader / the pure scan on the slots of the image. -/
namespace FatVerif.DirSim
open DirEntryData

/-- a directory of `N` slots: a byte source of `32 * N` bytes whose streams answer `seek(Current(0))`, `abs_pos` and
    can be dropped -/
structure DirSrc (d : Dev) (S : Nat → DirStream) (N : Nat) (src room : Nat → Nat) : Prop
    extends ByteSrc d S (32 * N) src room where
  seekCur : ∀ d1, SameVol d d1 → ∀ o, o ≤ 32 * N → Reads ((S o).seek (.cur 0)) d1 (o, S o)
  /-- `abs_pos` after a slot: the device offset just behind it -/
  absPos : ∀ d1, SameVol d d1 → ∀ o, o % 32 = 0 → 0 < o → o ≤ 32 * N →
    Reads ((S o).absPos d.fs) d1 (some (src (o - 32) + 32))
  drop : ∀ d1, SameVol d d1 → ∀ o, o ≤ 32 * N → Reads (S o).dropBody d1 ()

/-- the 32-byte records of the directory in the image -/
def srcSlots (img : Img) (src : Nat → Nat) (N : Nat) : List (List Nat) :=
  (List.range N).map fun j => img.read (src (32 * j)) 32

theorem srcSlots_length (img : Img) (src : Nat → Nat) (N : Nat) : (srcSlots img src N).length = N := by
  simp [srcSlots]

theorem srcSlots_drop_getD (img : Img) (src : Nat → Nat) (N i j : Nat) (hj : j < ((srcSlots img src N).drop i).length) :
    ((srcSlots img src N).drop i).getD j [] = img.read (src (32 * (i + j))) 32 := by
  simp only [List.length_drop, srcSlots_length] at hj
  simp only [List.getD_eq_getElem?_getD, List.getElem?_drop, srcSlots]
  rw [List.getElem?_map, List.getElem?_range (by omega)]
  rfl

/-- the `DirEntry` the library builds from a short slot and the long name collected before it, for a directory whose
    stream byte `o` lies at byte `src o` of the device -/
def toDirEntryS (src : Nat → Nat) (e : LfnEntry) : DirEntry :=
  { data := deserializeFile e.sfn (attrsTruncate (u8At e.sfn 11)), lfn := e.units,
    entryPos := src (32 * e.endIdx - 32), rangeBegin := 32 * e.beginIdx, rangeEnd := 32 * e.endIdx }

/-- for the fixed root (`src o = B + o`) this is `toDirEntry B` -/
theorem toDirEntryS_root (B : Nat) (e : LfnEntry) (h : 0 < e.endIdx) :
    toDirEntryS (fun o => B + o) e = toDirEntry B e := by
  simp only [toDirEntryS, toDirEntry]
  congr 1
  have : 32 ≤ 32 * e.endIdx := by omega
  omega

section generic
variable {d : Dev} {S : Nat → DirStream} {N : Nat} {src room : Nat → Nat}

theorem DirSrc.loop_sim (D : DirSrc d S N src room) (alloc sv : Bool) :
    ∀ (L : List (List Nat)) (fuel i bi : Nat) (b : LongNameBuilder) (d1 : Dev),
      SameVol d d1 → i + L.length = N →
      (∀ j, j < L.length → L.getD j [] = d.img.read (src (32 * (i + j))) 32) → L.length < fuel →
      Reads (readDirEntryLoop alloc sv fuel (S (32 * i)) (32 * i) (32 * bi) b) d1
        (((nextEntry alloc sv L i bi b).1).map (toDirEntryS src), S (32 * (nextEntry alloc sv L i bi b).2)) := by
  intro L
  induction L with
  | nil =>
    intro fuel i bi b d1 hv hi _ hf
    obtain ⟨k, rfl⟩ : ∃ k, fuel = k + 1 := ⟨fuel - 1, by simp at hf; omega⟩
    have hend : i = N := by simpa using hi
    subst hend
    unfold readDirEntryLoop
    refine Reads.bind (D.toByteSrc.readSlot_end d1 hv) (fun d2 _ => ?_)
    dsimp only
    rw [deser_isEnd, zero_isEnd, if_pos rfl]
    simp only [nextEntry, Option.map]
    exact Reads.pure _ d2
  | cons sl rest ih =>
    intro fuel i bi b d1 hv hi hL hf
    obtain ⟨k, rfl⟩ : ∃ k, fuel = k + 1 := ⟨fuel - 1, by simp at hf; omega⟩
    have hsl : sl = d.img.read (src (32 * i)) 32 := by
      have := hL 0 (by simp)
      simpa using this
    have hroom : 32 * i + 32 ≤ 32 * N := by simp at hi; omega
    have hlt : sl.getD 11 0 < 256 := by
      rw [hsl, Img.read_getD _ _ _ _ (by omega)]; exact Img.getByte_lt _ _
    have hlen : 11 ≤ sl.length := by rw [hsl, Img.read_length]; omega
    have hoff : 32 * i + 32 = 32 * (i + 1) := by omega
    unfold readDirEntryLoop
    refine Reads.bind (D.toByteSrc.readSlot d1 hv (32 * i) (by omega) hroom) (fun d2 hs2 => ?_)
    rw [← hsl, hoff]
    dsimp only
    have hv2 := hv.trans hs2
    have hrec := fun bi' b' => ih k (i + 1) bi' b' d2 hv2 (by simp at hi ⊢; omega)
      (fun j hj => by
        have := hL (j + 1) (by simp; omega)
        simpa [Nat.add_assoc, Nat.add_comm 1 j] using this)
      (by simp at hf; omega)
    have hfound : Reads (Prog.bind Prog.getFs fun fs => Prog.bind ((S (32 * (i + 1))).absPos fs) fun endAbs =>
          match endAbs with
          | none => Prog.fail .panic
          | some endAbs =>
            if endAbs < 32 then Prog.fail .panic
            else Prog.pure (some { data := deserializeFile sl (attrsTruncate (u8At sl 11)),
                                   lfn := b.finish alloc (deserializeFile sl (attrsTruncate (u8At sl 11))).name,
                                   entryPos := endAbs - 32, rangeBegin := 32 * bi, rangeEnd := 32 * (i + 1) },
                             S (32 * (i + 1)))) d2
        (some (toDirEntryS src ⟨sl, b.finish alloc (Lfn.sfnName sl), bi, i + 1⟩), S (32 * (i + 1))) := by
      refine Reads.bind (Reads.getFs d2) (fun d3 hs3 => ?_)
      rw [hv2.fs]
      refine Reads.bind (D.absPos d3 (hv2.trans hs3) (32 * (i + 1)) (by omega) (by omega) (by omega)) (fun d4 _ => ?_)
      dsimp only
      rw [if_neg (by omega)]
      simp only [toDirEntryS, deserializeFile, take11_sfnName sl hlen, Nat.add_sub_cancel]
      exact Reads.pure _ d4
    rw [deser_isEnd, deser_isDeleted]
    unfold nextEntry slotClass
    by_cases hE : Lfn.isEnd sl = true
    · simp only [hE, if_true, Option.map]
      exact Reads.pure _ d2
    · simp only [hE, Bool.false_eq_true, if_false]
      by_cases hD : Lfn.isDeleted sl = true
      · simp only [hD, Bool.true_or, if_true]
        exact hrec (i + 1) (b.clear alloc)
      · simp only [hD, Bool.false_or, Bool.false_eq_true, if_false]
        unfold deserialize
        rw [deser_lfn sl hlt]
        by_cases hLf : Lfn.isLfn sl = true
        · simp only [hLf, if_true, Bool.false_eq_true, if_false]
          exact hrec bi (b.process alloc sl)
        · simp only [hLf, Bool.false_eq_true, if_false]
          rw [deser_volume sl hlt]
          by_cases hV : Lfn.isVolume sl = true
          · simp only [hV, Bool.and_true, if_true]
            cases sv with
            | true => simp only [if_true]; exact hrec (i + 1) (b.clear alloc)
            | false =>
              simp only [Bool.false_eq_true, if_false, Option.map]
              exact hfound
          · simp only [hV, Bool.and_false, Bool.false_eq_true, if_false, Option.map]
            exact hfound

/-- **`read_dir_entry`, generic**: one `DirIter::next` from slot `i` = one `nextEntry` of the pure reader on the
    remaining slots of the image -/
theorem DirSrc.readDirEntry_sim (D : DirSrc d S N src room) (sv : Bool) (i : Nat) (hi : i ≤ N) (d1 : Dev)
    (hv : SameVol d d1) (hfuel : N < dirFuel d.fs) :
    Reads (readDirEntry sv (S (32 * i))) d1
      (((nextEntry d.fs.lfnAlloc sv ((srcSlots d.img src N).drop i) i i (LongNameBuilder.new d.fs.lfnAlloc)).1).map
          (toDirEntryS src),
       S (32 * (nextEntry d.fs.lfnAlloc sv ((srcSlots d.img src N).drop i) i i
          (LongNameBuilder.new d.fs.lfnAlloc)).2)) := by
  unfold readDirEntry
  refine Reads.bind (Reads.getFs d1) (fun d2 hs2 => ?_)
  rw [hv.fs]
  refine Reads.bind (D.seekCur d2 (hv.trans hs2) (32 * i) (by omega)) (fun d3 hs3 => ?_)
  dsimp only
  exact D.loop_sim d.fs.lfnAlloc sv ((srcSlots d.img src N).drop i) (dirFuel d.fs) i i
    (LongNameBuilder.new d.fs.lfnAlloc) d3 ((hv.trans hs2).trans hs3)
    (by rw [List.length_drop, srcSlots_length]; omega)
    (fun j hj => srcSlots_drop_getD d.img src N i j hj)
    (by rw [List.length_drop, srcSlots_length]; omega)

/-- **the listing loop, generic** = the pure reader from slot `i` on -/
theorem DirSrc.listLoop_sim (D : DirSrc d S N src room) (hfuel : N < dirFuel d.fs) :
    ∀ (fuel i : Nat) (acc : List DirEntry) (d1 : Dev), i ≤ N → N - i < fuel → SameVol d d1 →
    ∃ o, o ≤ 32 * N ∧ Reads (listLoop fuel (S (32 * i)) acc) d1
      (acc.reverse ++ (Lfn.readLoop d.fs.lfnAlloc true ((srcSlots d.img src N).drop i) i i
          (LongNameBuilder.new d.fs.lfnAlloc)).map (toDirEntryS src), S o) := by
  intro fuel
  induction fuel with
  | zero => intro i acc d1 hi hf; omega
  | succ k ih =>
    intro i acc d1 hi hf hv
    have hsim := D.readDirEntry_sim true i hi d1 hv hfuel
    have hidx := nextEntry_idx d.fs.lfnAlloc true ((srcSlots d.img src N).drop i) i i (LongNameBuilder.new d.fs.lfnAlloc)
    have hlenD : ((srcSlots d.img src N).drop i).length = N - i := by rw [List.length_drop, srcSlots_length]
    rw [readLoop_eq_next]
    unfold listLoop
    cases hn : (nextEntry d.fs.lfnAlloc true ((srcSlots d.img src N).drop i) i i (LongNameBuilder.new d.fs.lfnAlloc)).1 with
    | none =>
      rw [hn] at hsim
      refine ⟨32 * (nextEntry d.fs.lfnAlloc true ((srcSlots d.img src N).drop i) i i
        (LongNameBuilder.new d.fs.lfnAlloc)).2, by have := hidx.2.1; rw [hlenD] at this; omega,
        Reads.bind hsim (fun d2 _ => ?_)⟩
      simp only [Option.map, List.map_nil, List.append_nil]
      exact Reads.pure _ d2
    | some e =>
      rw [hn] at hsim
      obtain ⟨he1, he2⟩ := hidx.2.2 e hn
      have hle : e.endIdx ≤ N := by
        rw [he1]; have := hidx.2.1; rw [hlenD] at this; omega
      have hdrop : ((srcSlots d.img src N).drop i).drop (e.endIdx - i) = (srcSlots d.img src N).drop e.endIdx := by
        rw [List.drop_drop]; congr 1; omega
      simp only [Option.map] at hsim
      rw [← he1] at hsim
      obtain ⟨d2, hr2, hs2⟩ := hsim
      obtain ⟨o, ho, d3, hr3, hs3⟩ := ih e.endIdx (toDirEntryS src e :: acc) d2 hle (by omega) (hv.trans hs2)
      refine ⟨o, ho, d3, ?_, hs2.trans hs3⟩
      show run (Prog.bind _ _) d1 = _
      simp only [run, hr2]
      rw [hr3, hdrop]
      simp

/-- **`Dir::iter().collect()`, generic** (`listDir`): the entries the pure reader finds in the slots of the image, in
    order; the volume is kept -/
theorem DirSrc.listDir_sim (D : DirSrc d S N src room) (hfuel : N < dirFuel d.fs) (d1 : Dev) (hv : SameVol d d1) :
    Reads (listDir (S 0)) d1
      ((readDirEntries d.fs.lfnAlloc true (srcSlots d.img src N)).map (toDirEntryS src)) := by
  unfold listDir
  refine Reads.bind (Reads.getFs d1) (fun d2 hs2 => ?_)
  rw [hv.fs]
  obtain ⟨o, ho, hr⟩ := D.listLoop_sim hfuel (dirFuel d.fs) 0 [] d2 (Nat.zero_le _) (by omega) (hv.trans hs2)
  simp only [Nat.mul_zero, List.reverse_nil, List.nil_append, List.drop_zero] at hr
  unfold withStream
  refine Reads.bind (Reads.finallyDrop hr (fun d3 hs3 => D.drop d3 ((hv.trans hs2).trans hs3) o ho))
    (fun d3 _ => ?_)
  exact Reads.pure _ d3

theorem DirSrc.findEntryLoop_sim (D : DirSrc d S N src room) (hfuel : N < dirFuel d.fs) (env : Env) (name : String)
    (isDir : Option Bool) :
    ∀ (fuel i : Nat) (gen : Option Names.Gen) (d1 : Dev), i ≤ N → N - i < fuel → SameVol d d1 →
    ∃ o, o ≤ 32 * N ∧ Reads (findEntryLoop env name isDir fuel (S (32 * i)) gen) d1
      (scanD env name isDir ((Lfn.readLoop d.fs.lfnAlloc true ((srcSlots d.img src N).drop i) i i
          (LongNameBuilder.new d.fs.lfnAlloc)).map (toDirEntryS src)) gen, S o) := by
  intro fuel
  induction fuel with
  | zero => intro i gen d1 hi hf; omega
  | succ k ih =>
    intro i gen d1 hi hf hv
    have hsim := D.readDirEntry_sim true i hi d1 hv hfuel
    have hidx := nextEntry_idx d.fs.lfnAlloc true ((srcSlots d.img src N).drop i) i i (LongNameBuilder.new d.fs.lfnAlloc)
    have hlenD : ((srcSlots d.img src N).drop i).length = N - i := by rw [List.length_drop, srcSlots_length]
    rw [readLoop_eq_next]
    unfold findEntryLoop
    cases hn : (nextEntry d.fs.lfnAlloc true ((srcSlots d.img src N).drop i) i i (LongNameBuilder.new d.fs.lfnAlloc)).1 with
    | none =>
      rw [hn] at hsim
      refine ⟨32 * (nextEntry d.fs.lfnAlloc true ((srcSlots d.img src N).drop i) i i
        (LongNameBuilder.new d.fs.lfnAlloc)).2, by have := hidx.2.1; rw [hlenD] at this; omega,
        Reads.bind hsim (fun d2 _ => ?_)⟩
      simp only [Option.map, List.map_nil, scanD]
      exact Reads.pure _ d2
    | some e =>
      rw [hn] at hsim
      obtain ⟨he1, he2⟩ := hidx.2.2 e hn
      have hle : e.endIdx ≤ N := by
        rw [he1]; have := hidx.2.1; rw [hlenD] at this; omega
      have hdrop : ((srcSlots d.img src N).drop i).drop (e.endIdx - i) = (srcSlots d.img src N).drop e.endIdx := by
        rw [List.drop_drop]; congr 1; omega
      simp only [Option.map] at hsim
      rw [← he1] at hsim
      simp only [List.map_cons, scanD]
      by_cases hm : (toDirEntryS src e).eqName env name = true
      · simp only [hm, if_true]
        refine ⟨32 * e.endIdx, by omega, Reads.bind hsim (fun d2 _ => ?_)⟩
        simp only [hm, if_true]
        split <;> exact Reads.pure _ d2
      · simp only [hm, Bool.false_eq_true, if_false]
        obtain ⟨d2, hr2, hs2⟩ := hsim
        obtain ⟨o, ho, d3, hr3, hs3⟩ := ih e.endIdx (gen.map fun g => Names.addExisting g (toDirEntryS src e).data.name)
          d2 hle (by omega) (hv.trans hs2)
        refine ⟨o, ho, d3, ?_, hs2.trans hs3⟩
        show run (Prog.bind _ _) d1 = _
        simp only [run, hr2, hm, Bool.false_eq_true, if_false]
        rw [hr3, hdrop]

/-- **`find_entry(name, is_dir, gen)`, generic** (`findEntryG`): the scan over the entries the pure reader finds in
    the slots of the image -/
theorem DirSrc.findEntryG_sim (D : DirSrc d S N src room) (hfuel : N < dirFuel d.fs) (env : Env) (name : String)
    (isDir : Option Bool) (gen : Option Names.Gen) (d1 : Dev) (hv : SameVol d d1) :
    Reads (findEntryG env (S 0) name isDir gen) d1
      (scanD env name isDir ((readDirEntries d.fs.lfnAlloc true (srcSlots d.img src N)).map (toDirEntryS src)) gen) := by
  unfold findEntryG
  refine Reads.bind (Reads.getFs d1) (fun d2 hs2 => ?_)
  rw [hv.fs]
  obtain ⟨o, ho, hr⟩ := D.findEntryLoop_sim hfuel env name isDir (dirFuel d.fs) 0 gen d2 (Nat.zero_le _)
    (by omega) (hv.trans hs2)
  simp only [Nat.mul_zero, List.drop_zero] at hr
  unfold withStream
  refine Reads.bind (Reads.finallyDrop hr (fun d3 hs3 => D.drop d3 ((hv.trans hs2).trans hs3) o ho))
    (fun d3 _ => ?_)
  exact Reads.pure _ d3

end generic

end FatVerif.DirSim
