import FatVerif.Proofs.FormatOk
/-! Default options (`FormatVolumeOptions::new()`, 512-byte sectors): formatting succeeds iff `total_sectors ≥ 42`. -/
namespace FatVerif.Format

theorem nextPow2_le_of_le (n m : Nat) (hm : m ≤ 64) (h : n ≤ 2 ^ m) : nextPow2 n ≤ 2 ^ m := by
  obtain ⟨k, _, h3, _, h5⟩ := nextPow2_spec n (Nat.le_trans h (Nat.pow_le_pow_right (by omega) hm))
  rw [h3]
  apply Nat.pow_le_pow_right (by omega)
  rcases h5 with h5 | h5
  · omega
  · apply Nat.le_of_not_lt; intro hlt
    have := Nat.pow_le_pow_right (show 0 < 2 by omega) (show m ≤ k - 1 by omega)
    omega

/-- the heuristic cluster size (in sectors) for default options -/
def defaultSpc (t : Nat) : Nat :=
  if t ≤ 2048 then 1 else if t ≤ 4096 then 2 else if t ≤ 8192 then 4 else if t < 8400 then 8
  else if t ≤ 32768 then 2 else if t ≤ 262144 then 4 else if t ≤ 524288 then 8 else if t < 1048576 then 16
  else if t ≤ 16777216 then 8 else if t ≤ 33554432 then 16 else if t ≤ 67108864 then 32 else 64

theorem default_bpc_eq (t : Nat) :
    effectiveBpc defaultOpts t =
      (rawBytesPerCluster (t * 512) (estimateFatType (t * 512)) >>= fun x => clampCluster x 512) := rfl

theorem default_bpc_fat12 (t : Nat) (h : t < 8400) :
    effectiveBpc defaultOpts t = clampCluster ((nextPow2 (t * 512) / 1048576 * 512) % 4294967296) 512 := by
  have e : estimateFatType (t * 512) = .fat12 := by unfold estimateFatType; rw [if_pos (by omega)]
  rw [default_bpc_eq, e]; rfl

theorem clamp_small (x : Nat) (h : x ≤ 1) : clampCluster ((x * 512) % 4294967296) 512 = .ok 512 := by
  have : x = 0 ∨ x = 1 := by omega
  rcases this with rfl | rfl <;> rfl

theorem default_bpc_1 (t : Nat) (h : t ≤ 2048) : effectiveBpc defaultOpts t = .ok 512 := by
  rw [default_bpc_fat12 t (by omega)]
  have := nextPow2_le_of_le (t * 512) 20 (by omega) (by omega)
  exact clamp_small _ (by omega)

theorem default_bpc_2 (t : Nat) (h1 : 2048 < t) (h2 : t ≤ 4096) : effectiveBpc defaultOpts t = .ok 1024 := by
  rw [default_bpc_fat12 t (by omega), nextPow2_eq (t * 512) 20 (by omega) (by omega) (by omega)]; rfl

theorem default_bpc_3 (t : Nat) (h1 : 4096 < t) (h2 : t ≤ 8192) : effectiveBpc defaultOpts t = .ok 2048 := by
  rw [default_bpc_fat12 t (by omega), nextPow2_eq (t * 512) 21 (by omega) (by omega) (by omega)]; rfl

theorem default_bpc_4 (t : Nat) (h1 : 8192 < t) (h2 : t < 8400) : effectiveBpc defaultOpts t = .ok 4096 := by
  rw [default_bpc_fat12 t (by omega), nextPow2_eq (t * 512) 22 (by omega) (by omega) (by omega)]; rfl

theorem default_fat16 (t : Nat) (h1 : 8400 ≤ t) (h2 : t < 1048576) : estimateFatType (t * 512) = .fat16 := by
  unfold estimateFatType; rw [if_neg (by omega), if_pos (by omega)]

theorem default_bpc_5 (t : Nat) (h1 : 8400 ≤ t) (h2 : t ≤ 32768) : effectiveBpc defaultOpts t = .ok 1024 := by
  rw [default_bpc_eq, default_fat16 t h1 (by omega)]
  simp only [rawBytesPerCluster]
  rw [if_pos (by omega), ok_bind]; rfl

theorem default_bpc_6 (t : Nat) (h1 : 32768 < t) (h2 : t ≤ 262144) : effectiveBpc defaultOpts t = .ok 2048 := by
  rw [default_bpc_eq, default_fat16 t (by omega) (by omega)]
  simp only [rawBytesPerCluster]
  rw [if_neg (by omega), if_pos (by omega), ok_bind]; rfl

theorem default_bpc_fat16_big (t : Nat) (h1 : 262144 < t) (h2 : t < 1048576) :
    effectiveBpc defaultOpts t =
      (chkMul32 ((nextPow2 (t * 512) / (64 * 1048576)) % 4294967296) 1024 >>= fun x => clampCluster x 512) := by
  rw [default_bpc_eq, default_fat16 t (by omega) (by omega)]
  simp only [rawBytesPerCluster]
  rw [if_neg (by omega), if_neg (by omega)]

theorem default_bpc_7 (t : Nat) (h1 : 262144 < t) (h2 : t ≤ 524288) : effectiveBpc defaultOpts t = .ok 4096 := by
  rw [default_bpc_fat16_big t h1 (by omega), nextPow2_eq (t * 512) 27 (by omega) (by omega) (by omega)]; rfl

theorem default_bpc_8 (t : Nat) (h1 : 524288 < t) (h2 : t < 1048576) : effectiveBpc defaultOpts t = .ok 8192 := by
  rw [default_bpc_fat16_big t (by omega) h2, nextPow2_eq (t * 512) 28 (by omega) (by omega) (by omega)]; rfl

theorem default_fat32 (t : Nat) (h1 : 1048576 ≤ t) : estimateFatType (t * 512) = .fat32 := by
  unfold estimateFatType; rw [if_neg (by omega), if_neg (by omega)]

theorem default_bpc_9 (t : Nat) (h1 : 1048576 ≤ t) (h2 : t ≤ 16777216) : effectiveBpc defaultOpts t = .ok 4096 := by
  rw [default_bpc_eq, default_fat32 t h1]
  simp only [rawBytesPerCluster]
  rw [if_neg (by omega), if_pos (by omega), ok_bind]; rfl

theorem default_bpc_fat32_big (t : Nat) (h1 : 16777216 < t) :
    effectiveBpc defaultOpts t =
      (chkMul32 ((nextPow2 (t * 512) / (2 * 1073741824)) % 4294967296) 1024 >>= fun x => clampCluster x 512) := by
  rw [default_bpc_eq, default_fat32 t (by omega)]
  simp only [rawBytesPerCluster]
  rw [if_neg (by omega), if_neg (by omega)]

theorem default_bpc_big (t k : Nat) (hk : k < 64) (h0 : 16777216 < t) (h1 : 2 ^ k < t * 512) (h2 : t * 512 ≤ 2 ^ (k + 1))
    (r : Nat)
    (hr : (chkMul32 ((2 ^ (k + 1) / (2 * 1073741824)) % 4294967296) 1024 >>= fun x => clampCluster x 512) = .ok r) :
    effectiveBpc defaultOpts t = .ok r := by
  rw [default_bpc_fat32_big t h0, nextPow2_eq (t * 512) k hk h1 h2]; exact hr

theorem default_effectiveBpc (t : Nat) (ht : t < 4294967296) :
    effectiveBpc defaultOpts t = .ok (512 * defaultSpc t) := by
  unfold defaultSpc
  repeat' split
  · exact default_bpc_1 t (by omega)
  · exact default_bpc_2 t (by omega) (by omega)
  · exact default_bpc_3 t (by omega) (by omega)
  · exact default_bpc_4 t (by omega) (by omega)
  · exact default_bpc_5 t (by omega) (by omega)
  · exact default_bpc_6 t (by omega) (by omega)
  · exact default_bpc_7 t (by omega) (by omega)
  · exact default_bpc_8 t (by omega) (by omega)
  · exact default_bpc_9 t (by omega) (by omega)
  · exact default_bpc_big t 33 (by omega) (by omega) (by omega) (by omega) _ rfl
  · exact default_bpc_big t 34 (by omega) (by omega) (by omega) (by omega) _ rfl
  · -- t > 2^26: all clamp to 32 KiB
    by_cases c1 : t ≤ 134217728
    · exact default_bpc_big t 35 (by omega) (by omega) (by omega) (by omega) _ rfl
    by_cases c2 : t ≤ 268435456
    · exact default_bpc_big t 36 (by omega) (by omega) (by omega) (by omega) _ rfl
    by_cases c3 : t ≤ 536870912
    · exact default_bpc_big t 37 (by omega) (by omega) (by omega) (by omega) _ rfl
    by_cases c4 : t ≤ 1073741824
    · exact default_bpc_big t 38 (by omega) (by omega) (by omega) (by omega) _ rfl
    by_cases c5 : t ≤ 2147483648
    · exact default_bpc_big t 39 (by omega) (by omega) (by omega) (by omega) _ rfl
    · exact default_bpc_big t 40 (by omega) (by omega) (by omega) (by omega) _ rfl

/-! ### some FAT width always fits -/

theorem fromClusters_of_range {ft : FatType} {cl : Nat} (h1 : minClusters ft ≤ cl) (h2 : cl ≤ maxClusters ft) :
    FatType.fromClusters cl = ft := by
  unfold FatType.fromClusters
  cases ft <;> simp only [minClusters, maxClusters] at h1 h2
  · rw [if_pos (by omega)]
  · rw [if_neg (by omega), if_pos (by omega)]
  · rw [if_neg (by omega), if_neg (by omega)]

theorem tryFsLayout_ok_of {t bps spc rds fats : Nat} {ft : FatType}
    (hns : ¬ t ≤ reservedFor ft + rds + 8) (ha : LayoutArithOk t bps spc ft.bits (reservedFor ft) rds fats)
    (h1 : minClusters ft ≤ clOf t spc (reservedFor ft) rds fats (spfOf t bps spc ft.bits (reservedFor ft) rds fats))
    (h2 : clOf t spc (reservedFor ft) rds fats (spfOf t bps spc ft.bits (reservedFor ft) rds fats) ≤ maxClusters ft) :
    tryFsLayout t bps spc ft rds fats = .ok (reservedFor ft, spfOf t bps spc ft.bits (reservedFor ft) rds fats) := by
  rw [tryFsLayout_eq, if_neg hns, if_pos ha]
  unfold checkClusters
  rw [if_neg (by rw [fromClusters_of_range h1 h2]; simp), if_neg (by omega), if_neg (by omega)]

theorem tryTypes_isOk {t bps spc root fats : Nat} {l : List FatType}
    (hex : ∃ ft ∈ l, ∃ r, tryFsLayout t bps spc ft (determineRootDirSectors root bps ft) fats = .ok r)
    (hnp : ∀ ft ∈ l, tryFsLayout t bps spc ft (determineRootDirSectors root bps ft) fats ≠ .error .panic) :
    ∃ L, tryTypes t bps spc root fats l = .ok L := by
  induction l with
  | nil => obtain ⟨_, hm, _⟩ := hex; cases hm
  | cons ft rest ih =>
    unfold tryTypes
    split
    · exact ⟨_, rfl⟩
    · rename_i heq
      exact absurd heq (hnp ft List.mem_cons_self)
    · rename_i e hne1 hne2
      apply ih
      · obtain ⟨ft', hm, r, hr⟩ := hex
        rcases List.mem_cons.mp hm with rfl | hm
        · rw [hr] at hne2; cases hne2
        · exact ⟨ft', hm, r, hr⟩
      · intro ft' hm; exact hnp ft' (List.mem_cons_of_mem _ hm)

/-- for default options: one of the three widths is consistent with its own cluster count -/
def DefaultWinner (t spc : Nat) : Prop :=
  (¬ t ≤ 16 ∧ 65525 ≤ clOf t spc 8 0 2 (spfOf t 512 spc 32 8 0 2) ∧
    clOf t spc 8 0 2 (spfOf t 512 spc 32 8 0 2) ≤ 268435444) ∨
  (¬ t ≤ 41 ∧ 4085 ≤ clOf t spc 1 32 2 (spfOf t 512 spc 16 1 32 2) ∧
    clOf t spc 1 32 2 (spfOf t 512 spc 16 1 32 2) ≤ 65524) ∨
  (¬ t ≤ 41 ∧ clOf t spc 1 32 2 (spfOf t 512 spc 12 1 32 2) ≤ 4084)

set_option maxHeartbeats 4000000 in
theorem default_winner (t : Nat) (h42 : 42 ≤ t) (ht : t < 4294967296) :
    DefaultWinner t (defaultSpc t) ∧ spfOf t 512 (defaultSpc t) 32 8 0 2 * 512 * 8 < 4294967296 := by
  unfold defaultSpc
  repeat' split
  -- FAT12 ranges
  iterate 4 (
    refine ⟨Or.inr (Or.inr ?_), ?_⟩ <;> (simp only [clOf, spfOf, t2Of]; omega))
  -- FAT16 ranges
  iterate 4 (
    refine ⟨Or.inr (Or.inl ?_), ?_⟩ <;> (simp only [clOf, spfOf, t2Of]; omega))
  -- FAT32 ranges
  iterate 4 (
    refine ⟨Or.inl ?_, ?_⟩ <;> (simp only [clOf, spfOf, t2Of]; omega))

set_option maxHeartbeats 4000000 in
/-- FAT12/16 with at most 65524 clusters: the FAT fits the 16-bit field -/
theorem default_spf16 (t spc : Nat) (ht : t < 4294967296) (hs : spc ∈ [1, 2, 4, 8, 16, 32, 64, 128])
    (hns : ¬ t ≤ 41) :
    (clOf t spc 1 32 2 (spfOf t 512 spc 16 1 32 2) ≤ 65524 → spfOf t 512 spc 16 1 32 2 ≤ 65535) ∧
    (clOf t spc 1 32 2 (spfOf t 512 spc 12 1 32 2) ≤ 65524 → spfOf t 512 spc 12 1 32 2 ≤ 65535) := by
  simp only [List.mem_cons, List.mem_nil_iff, or_false] at hs
  rcases hs with rfl | rfl | rfl | rfl | rfl | rfl | rfl | rfl <;>
    (simp only [clOf, spfOf, t2Of]; constructor <;> (rw [Nat.mod_eq_of_lt] <;> omega))

theorem defaultSpc_mem (t : Nat) : defaultSpc t ∈ [1, 2, 4, 8, 16, 32, 64, 128] := by
  unfold defaultSpc
  repeat' split
  all_goals simp

theorem accepted_default : Accepted defaultOpts :=
  ⟨by simp [defaultOpts], by intro c h; simp [defaultOpts] at h, Or.inr rfl, by simp [defaultOpts]⟩

/-- C06.4, first half: default options succeed for every size from 42 sectors up -/
theorem default_ok (t : Nat) (h42 : 42 ≤ t) (ht : t < 4294967296) : ∃ r, formatChecked defaultOpts t = .ok r := by
  have hacc := accepted_default
  have hc := default_effectiveBpc t ht
  have hspc := defaultSpc_mem t
  obtain ⟨hW, hO⟩ := default_winner t h42 ht
  have hdiv : 512 * defaultSpc t / 512 = defaultSpc t := Nat.mul_div_cancel_left _ (by omega)
  have h255 : ¬ 255 < defaultSpc t := by
    simp only [List.mem_cons, List.mem_nil_iff, or_false] at hspc; omega
  have e1 : defaultOpts.bps = 512 := rfl
  have e2 : defaultOpts.rootEntries = 512 := rfl
  have e3 : defaultOpts.fats = 2 := rfl
  have e4 : defaultOpts.fatType = none := rfl
  have hr32 : determineRootDirSectors 512 512 .fat32 = 0 := rfl
  have hr16 : determineRootDirSectors 512 512 .fat16 = 32 := rfl
  have hr12 : determineRootDirSectors 512 512 .fat12 = 32 := rfl
  have harith : ∀ ft, ¬ t ≤ reservedFor ft + determineRootDirSectors 512 512 ft + 8 →
      LayoutArithOk t 512 (defaultSpc t) ft.bits (reservedFor ft) (determineRootDirSectors 512 512 ft) 2 :=
    fun ft hns => layout_arith_ok t 512 (defaultSpc t) _ 2 ft ht (rds_le _ _ _ (by omega) (by simp)) (by simp) hspc
      (Or.inr rfl) hns
  -- a layout exists
  have hL : ∃ L, determineFsLayout defaultOpts t = .ok L := by
    unfold determineFsLayout
    have hne0 : ¬ defaultSpc t = 0 := by
      simp only [List.mem_cons, List.mem_nil_iff, or_false] at hspc; omega
    rw [hc, ok_bind, e1, chkDiv_of_ne (by omega), ok_bind, hdiv, if_neg hne0, if_neg h255, e2, e3, e4]
    apply tryTypes_isOk
    · rcases hW with ⟨h1, h2, h3⟩ | ⟨h1, h2, h3⟩ | ⟨h1, h3⟩
      · refine ⟨.fat32, by simp [allowedTypes], _, tryFsLayout_ok_of (by rw [hr32]; exact h1) (harith _ (by rw [hr32]; exact h1)) ?_ ?_⟩
        · rw [hr32]; exact h2
        · rw [hr32]; exact h3
      · refine ⟨.fat16, by simp [allowedTypes], _, tryFsLayout_ok_of (by rw [hr16]; exact h1) (harith _ (by rw [hr16]; exact h1)) ?_ ?_⟩
        · rw [hr16]; exact h2
        · rw [hr16]; exact h3
      · refine ⟨.fat12, by simp [allowedTypes], _, tryFsLayout_ok_of (by rw [hr12]; exact h1) (harith _ (by rw [hr12]; exact h1)) ?_ ?_⟩
        · rw [hr12]; exact Nat.zero_le _
        · rw [hr12]; exact h3
    · intro ft _
      exact tryFsLayout_not_panic (harith ft)
  obtain ⟨L, hL⟩ := hL
  obtain ⟨c, hc', _, _, hLeq, hns, _, hfrom, hmax⟩ := determineFsLayout_ok_facts hacc ht hL
  rw [hc] at hc'; cases hc'
  simp only [e1, e2, e3, hdiv] at hLeq hns hfrom hmax
  have hspfeq : L.spf = spfOf t 512 (defaultSpc t) L.fatType.bits (reservedFor L.fatType)
      (determineRootDirSectors 512 512 L.fatType) 2 := by rw [hLeq]
  have h16 : L.fatType ≠ .fat32 → L.spf ≤ 65535 := by
    intro hne
    have hns41 : ¬ t ≤ 41 := by omega
    obtain ⟨a16, a12⟩ := default_spf16 t (defaultSpc t) ht hspc hns41
    rw [hspfeq] at hmax ⊢
    cases hft : L.fatType
    · rw [hft] at hmax
      have hmax' : clOf t (defaultSpc t) 1 32 2 (spfOf t 512 (defaultSpc t) 12 1 32 2) ≤ 4084 := hmax
      exact a12 (by omega)
    · rw [hft] at hmax
      have hmax' : clOf t (defaultSpc t) 1 32 2 (spfOf t 512 (defaultSpc t) 16 1 32 2) ≤ 65524 := hmax
      exact a16 (by omega)
    · exact absurd hft hne
  exact ⟨_, formatChecked_of_layout hacc ht (by rw [e1]; simp) hL (fun _ => by rw [e2]; omega) h16⟩

end FatVerif.Format
