import FatVerif.Proofs.FatSetLaws
import FatVerif.Proofs.FatViewLemmas
import FatVerif.Model.FatAlgo
/-! Simulation: the byte-level algorithms of `FatAlgo` compute the view-level functions of `FatView`
    on tables whose scanned entries lie inside the bytes. -/
namespace FatVerif.Fat

/-- entry `c` is inside the bytes and (FAT32) `c` is not one of the special cluster numbers -/
def Plain (ft : FatType) (f : Array Nat) (c : Nat) : Prop := InRange ft f c ∧ (ft = .fat32 → ¬ special32 c)

/-- first value that is not a data link: 0x?FF7 -/
def badMark : FatType → Nat
  | .fat12 => 0xFF7
  | .fat16 => 0xFFF7
  | .fat32 => 0x0FFFFFF7

/-- a sane table for `total` clusters: byte-valued, entries `[0,total+2)` inside the bytes, and cluster numbers
    stay below the BAD mark (FAT12/16: implied by `FatType::from_clusters`; FAT32: the specification's limit) -/
structure TableOk (ft : FatType) (f : Array Nat) (total : Nat) : Prop where
  wf : WfBytes f
  covers : ∀ c, c < total + 2 → InRange ft f c
  small : total + 2 ≤ badMark ft

theorem TableOk.plain {ft : FatType} {f : Array Nat} {total : Nat} (h : TableOk ft f total) {c : Nat}
    (hc : c < total + 2) : Plain ft f c := by
  refine ⟨h.covers c hc, ?_⟩
  intro hft; subst hft
  have := h.small
  simp only [badMark] at this
  unfold special32; omega

theorem Plain.of_size {ft : FatType} {f f' : Array Nat} {c : Nat} (h : Plain ft f c) (hs : f'.size = f.size) :
    Plain ft f' c := by
  obtain ⟨⟨a, b⟩, c'⟩ := h
  exact ⟨⟨by rw [hs]; exact a, b⟩, c'⟩

/-! ### `view c = free` in terms of the bytes the scans look at -/

theorem view12_free_iff {f : Array Nat} {c : Nat} (h : InRange .fat12 f c) :
    view .fat12 f c = .free ↔ val12 c (rd16 f (c + c / 2)) = 0 := by
  simp only [InRange, off, width] at h
  simp only [view, get, getRaw, getRaw12]
  rw [if_neg (by omega), if_neg (by omega)]
  simp only [classify, classify12]
  constructor
  · intro hv
    split at hv
    · assumption
    · split at hv
      · cases hv
      · split at hv <;> cases hv
  · intro hv; rw [if_pos hv]

theorem view16_free_iff {f : Array Nat} {c : Nat} (h : InRange .fat16 f c) :
    view .fat16 f c = .free ↔ rd16 f (c * 2) = 0 := by
  simp only [InRange, off, width] at h
  simp only [view, get, getRaw, getRaw16]
  rw [if_neg (by omega), if_neg (by omega)]
  simp only [classify, classify16]
  constructor
  · intro hv
    split at hv
    · assumption
    · split at hv
      · cases hv
      · split at hv <;> cases hv
  · intro hv; rw [if_pos hv]

theorem view32_free_iff {f : Array Nat} {c : Nat} (h : Plain .fat32 f c) :
    view .fat32 f c = .free ↔ rd32 f (c * 4) % 268435456 = 0 := by
  obtain ⟨h, hs⟩ := h
  have hs := hs rfl
  simp only [InRange, off, width] at h
  simp only [view, get, getRaw, getRaw32]
  rw [if_neg (by omega), if_neg (by omega)]
  simp only [classify, classify32]
  constructor
  · intro hv
    split at hv
    · assumption
    · split at hv
      · cases hv
      · split at hv
        · cases hv
        · cases hv
  · intro hv; rw [if_pos hv, if_neg hs]

/-! ### find_free -/

/-- result of a scan expressed through the view-level scan -/
def scanRes : Option Nat → Except Err Nat
  | some c => .ok c
  | none => .error .noSpace

theorem findFreeLoop16_sim (f : Array Nat) : ∀ n c, (∀ i, c ≤ i → i < c + n → InRange .fat16 f i) →
    findFreeLoop16 f n c = scanRes (findFreeV (view .fat16 f) c n) := by
  intro n
  induction n with
  | zero => intro c _; rfl
  | succ n ih =>
    intro c h
    have hc := h c (Nat.le_refl _) (by omega)
    have hc' := hc
    simp only [InRange, off, width] at hc'
    simp only [findFreeLoop16, findFreeV]
    rw [if_neg (by omega)]
    by_cases hz : rd16 f (c * 2) = 0
    · rw [if_pos hz, if_pos ((view16_free_iff hc).mpr hz)]; rfl
    · rw [if_neg hz, if_neg (fun hv => hz ((view16_free_iff hc).mp hv))]
      exact ih (c + 1) (fun i h1 h2 => h i (by omega) (by omega))

theorem findFreeLoop32_sim (f : Array Nat) : ∀ n c, (∀ i, c ≤ i → i < c + n → Plain .fat32 f i) →
    findFreeLoop32 f n c = scanRes (findFreeV (view .fat32 f) c n) := by
  intro n
  induction n with
  | zero => intro c _; rfl
  | succ n ih =>
    intro c h
    have hc := h c (Nat.le_refl _) (by omega)
    have hc' := hc.1
    simp only [InRange, off, width] at hc'
    simp only [findFreeLoop32, findFreeV]
    rw [if_neg (by omega)]
    by_cases hz : rd32 f (c * 4) % 268435456 = 0
    · rw [if_pos hz, if_pos ((view32_free_iff hc).mpr hz)]; rfl
    · rw [if_neg hz, if_neg (fun hv => hz ((view32_free_iff hc).mp hv))]
      exact ih (c + 1) (fun i h1 h2 => h i (by omega) (by omega))

/-- FAT12 streaming scan: with the loop invariant `packed = word at off c`, `pos = off c + 2`, enough fuel and a
    non-empty range `c < e` inside the bytes, the stream decoder computes the view-level scan of `[c, e)`. -/
theorem findFreeLoop12_sim (f : Array Nat) (hf : WfBytes f) (e : Nat) : ∀ n c k, c + n = e → 0 < n → n ≤ k →
    (∀ i, c ≤ i → i < e → InRange .fat12 f i) →
    findFreeLoop12 f e k c (rd16 f (c + c / 2)) (c + c / 2 + 2) = scanRes (findFreeV (view .fat12 f) c n) := by
  intro n
  induction n with
  | zero => intro c k _ h; omega
  | succ n ih =>
    intro c k hce _ hk h
    obtain ⟨k, rfl⟩ : ∃ k', k = k' + 1 := ⟨k - 1, by omega⟩
    have hc := h c (Nat.le_refl _) (by omega)
    simp only [findFreeLoop12, findFreeV]
    by_cases hz : val12 c (rd16 f (c + c / 2)) = 0
    · rw [if_pos hz, if_pos ((view12_free_iff hc).mpr hz)]; rfl
    · rw [if_neg hz, if_neg (fun hv => hz ((view12_free_iff hc).mp hv))]
      by_cases hend : c + 1 = e
      · rw [if_pos hend]
        have : n = 0 := by omega
        subst this; rfl
      · rw [if_neg hend]
        have hn : 0 < n := by omega
        have hc1 := h (c + 1) (by omega) (by omega)
        simp only [InRange, off, width] at hc1
        have ih' := ih (c + 1) k (by omega) hn (by omega) (fun i h1 h2 => h i (by omega) h2)
        by_cases hp : (c + 1) % 2 = 0
        · rw [if_pos hp, if_neg (by omega)]
          have e1 : c + c / 2 + 2 = c + 1 + (c + 1) / 2 := by omega
          rw [e1]; exact ih'
        · rw [if_neg hp, if_neg (by omega)]
          have e1 : c + c / 2 + 2 + 1 = c + 1 + (c + 1) / 2 + 2 := by omega
          have e2 : rd16 f (c + c / 2) / 256 + 256 * rd f (c + c / 2 + 2) = rd16 f (c + 1 + (c + 1) / 2) := by
            have b0 := hf (c + c / 2)
            have e3 : c + 1 + (c + 1) / 2 = c + c / 2 + 1 := by omega
            rw [e3]; unfold rd16
            have e4 : c + c / 2 + 1 + 1 = c + c / 2 + 2 := by omega
            rw [e4]; omega
          rw [e1, e2]; exact ih'

/-- `find_free_cluster` on a non-empty range `[s, e)` inside a sane table = the view-level scan -/
theorem findFree_sim {ft : FatType} {f : Array Nat} {total : Nat} (ht : TableOk ft f total) {s e : Nat}
    (hse : s < e) (he : e ≤ total + 2) :
    findFree ft f s e = scanRes (findFreeV (view ft f) s (e - s)) := by
  have hs := ht.covers s (by omega)
  cases ft
  · simp only [InRange, off, width] at hs
    simp only [findFree, findFree12]
    rw [if_neg (by omega), if_neg (by omega), if_neg (by omega)]
    have hlast := ht.covers (e - 1) (by omega)
    simp only [InRange, off, width] at hlast
    exact findFreeLoop12_sim f ht.wf e (e - s) s (f.size + 2) (by omega) (by omega) (by omega)
      (fun i h1 h2 => ht.covers i (by omega))
  · simp only [InRange, off, width] at hs
    simp only [findFree, findFree16]
    rw [if_neg (by omega)]
    exact findFreeLoop16_sim f (e - s) s (fun i h1 h2 => ht.covers i (by omega))
  · simp only [InRange, off, width] at hs
    simp only [findFree, findFree32]
    rw [if_neg (by omega)]
    exact findFreeLoop32_sim f (e - s) s (fun i h1 h2 => ht.plain (by omega))

/-- FAT12 on an empty range: NotEnoughSpace before anything is computed or read (F21 repair) -/
theorem findFree_empty12 (f : Array Nat) (s e : Nat) (h : e ≤ s) : findFree .fat12 f s e = .error .noSpace := by
  simp only [findFree, findFree12]
  rw [if_pos h]

/-- FAT16/32 also for an empty range (`while cluster < end`): NotEnoughSpace without reading -/
theorem findFree_empty16 (f : Array Nat) (s e : Nat) (h : e ≤ s) (hs : s * 2 < u32Lim) :
    findFree .fat16 f s e = .error .noSpace := by
  simp only [findFree, findFree16]
  rw [if_neg (by omega), show e - s = 0 by omega]; rfl

theorem findFree_empty32 (f : Array Nat) (s e : Nat) (h : e ≤ s) (hs : s * 4 < u32Lim) :
    findFree .fat32 f s e = .error .noSpace := by
  simp only [findFree, findFree32]
  rw [if_neg (by omega), show e - s = 0 by omega]; rfl

/-- `find_free_cluster` on ANY range `[s, e)` with `s ≤ e ≤ total+2` of a sane table = the view-level scan
    (the empty range gives NotEnoughSpace for all three widths) -/
theorem findFree_sim_le {ft : FatType} {f : Array Nat} {total : Nat} (ht : TableOk ft f total) {s e : Nat}
    (hse : s ≤ e) (he : e ≤ total + 2) :
    findFree ft f s e = scanRes (findFreeV (view ft f) s (e - s)) := by
  by_cases hlt : s < e
  · exact findFree_sim ht hlt he
  · have hes : e ≤ s := by omega
    have hsm := ht.small
    rw [show e - s = 0 by omega]
    simp only [findFreeV, scanRes]
    cases ft
    · exact findFree_empty12 f s e hes
    · exact findFree_empty16 f s e hes (by simp only [badMark, u32Lim] at *; omega)
    · exact findFree_empty32 f s e hes (by simp only [badMark, u32Lim] at *; omega)


/-! ### count_free -/

/-- number of free entries in `[c, c+n)`, counted from the front like the loops do -/
def cntFrom (g : Nat → FatValue) : Nat → Nat → Nat
  | _, 0 => 0
  | c, n + 1 => (if g c = .free then 1 else 0) + cntFrom g (c + 1) n

theorem cntFrom_snoc (g : Nat → FatValue) : ∀ n c,
    cntFrom g c (n + 1) = cntFrom g c n + (if g (c + n) = .free then 1 else 0) := by
  intro n
  induction n with
  | zero => intro c; simp [cntFrom]
  | succ n ih =>
    intro c
    rw [cntFrom, ih (c + 1)]
    simp only [cntFrom]
    have : c + 1 + n = c + (n + 1) := by omega
    rw [this]; omega

theorem cntFrom_eq_countFreeV (g : Nat → FatValue) : ∀ total, cntFrom g 2 total = countFreeV g total := by
  intro total
  induction total with
  | zero => rfl
  | succ n ih =>
    rw [cntFrom_snoc, countFreeV_succ, ih]
    have : 2 + n = n + 2 := by omega
    rw [this]

theorem countFreeLoop16_sim (f : Array Nat) : ∀ n c cnt, (∀ i, c ≤ i → i < c + n → InRange .fat16 f i) →
    countFreeLoop16 f n c cnt = .ok (cnt + cntFrom (view .fat16 f) c n) := by
  intro n
  induction n with
  | zero => intro c cnt _; rfl
  | succ n ih =>
    intro c cnt h
    have hc := h c (Nat.le_refl _) (by omega)
    have hc' := hc
    simp only [InRange, off, width] at hc'
    simp only [countFreeLoop16, cntFrom]
    rw [if_neg (by omega), ih (c + 1) _ (fun i h1 h2 => h i (by omega) (by omega))]
    by_cases hz : rd16 f (c * 2) = 0
    · rw [if_pos hz, if_pos ((view16_free_iff hc).mpr hz)]; congr 1; omega
    · rw [if_neg hz, if_neg (fun hv => hz ((view16_free_iff hc).mp hv))]; congr 1; omega

theorem countFreeLoop32_sim (f : Array Nat) : ∀ n c cnt, (∀ i, c ≤ i → i < c + n → Plain .fat32 f i) →
    countFreeLoop32 f n c cnt = .ok (cnt + cntFrom (view .fat32 f) c n) := by
  intro n
  induction n with
  | zero => intro c cnt _; rfl
  | succ n ih =>
    intro c cnt h
    have hc := h c (Nat.le_refl _) (by omega)
    have hc' := hc.1
    simp only [InRange, off, width] at hc'
    simp only [countFreeLoop32, cntFrom]
    rw [if_neg (by omega), ih (c + 1) _ (fun i h1 h2 => h i (by omega) (by omega))]
    by_cases hz : rd32 f (c * 4) % 268435456 = 0
    · rw [if_pos hz, if_pos ((view32_free_iff hc).mpr hz)]; congr 1; omega
    · rw [if_neg hz, if_neg (fun hv => hz ((view32_free_iff hc).mp hv))]; congr 1; omega

/-- FAT12 streaming counter. Invariant: the stream is at `off c` for even `c`, one byte further for odd `c`
    (the shared byte was consumed with the previous entry), and then `prev` is the previous entry's word. -/
theorem countFreeLoop12_sim (f : Array Nat) (hf : WfBytes f) : ∀ n c prev cnt,
    (∀ i, c ≤ i → i < c + n → InRange .fat12 f i) →
    (c % 2 = 1 → prev = rd16 f (c - 1 + (c - 1) / 2)) →
    countFreeLoop12 f n c (c + c / 2 + c % 2) prev cnt = .ok (cnt + cntFrom (view .fat12 f) c n) := by
  intro n
  induction n with
  | zero => intro c prev cnt _ _; rfl
  | succ n ih =>
    intro c prev cnt h hprev
    have hc := h c (Nat.le_refl _) (by omega)
    have hc' := hc
    simp only [InRange, off, width] at hc'
    simp only [countFreeLoop12, cntFrom]
    have hv := view12_free_iff hc
    unfold val12 at hv
    by_cases hp : c % 2 = 0
    · rw [if_pos hp, if_neg (by omega)]
      rw [if_pos hp] at hv
      have epos : c + c / 2 + c % 2 = c + c / 2 := by omega
      have enext : c + c / 2 + c % 2 + 2 = c + 1 + (c + 1) / 2 + (c + 1) % 2 := by omega
      rw [enext, ih (c + 1) _ _ (fun i h1 h2 => h i (by omega) (by omega))
        (by intro _; rw [epos]; congr 1 <;> omega)]
      rw [epos]
      by_cases hz : rd16 f (c + c / 2) % 4096 = 0
      · rw [if_pos hz, if_pos (hv.mpr hz)]; congr 1; omega
      · rw [if_neg hz, if_neg (fun x => hz (hv.mp x))]; congr 1; omega
    · rw [if_neg hp, if_neg (by omega)]
      rw [if_neg hp] at hv
      have hprev' := hprev (by omega)
      have enext : c + c / 2 + c % 2 + 1 = c + 1 + (c + 1) / 2 + (c + 1) % 2 := by omega
      rw [enext, ih (c + 1) _ _ (fun i h1 h2 => h i (by omega) (by omega)) (by intro _; omega)]
      have epos : c + c / 2 + c % 2 = c + c / 2 + 1 := by omega
      rw [epos]
      have ezero : (rd f (c + c / 2 + 1) * 256 + prev / 4096 = 0) ↔ (rd16 f (c + c / 2) / 16 = 0) := by
        rw [hprev']
        unfold rd16
        have e1 : c - 1 + (c - 1) / 2 + 1 = c + c / 2 := by omega
        rw [e1]
        have b0 := hf (c - 1 + (c - 1) / 2)
        have b1 := hf (c + c / 2)
        have b2 := hf (c + c / 2 + 1)
        omega
      by_cases hz : rd16 f (c + c / 2) / 16 = 0
      · rw [if_pos (ezero.mpr hz), if_pos (hv.mpr hz)]; congr 1; omega
      · rw [if_neg (fun x => hz (ezero.mp x)), if_neg (fun x => hz (hv.mp x))]; congr 1; omega

/-- `count_free_clusters` on a sane table = the number of free entries of the view in `[2, total+2)` -/
theorem countFree_sim {ft : FatType} {f : Array Nat} {total : Nat} (ht : TableOk ft f total) :
    countFree ft f total = .ok (countFreeV (view ft f) total) := by
  have hsmall := ht.small
  unfold countFree
  rw [if_neg (by cases ft <;> simp only [badMark, u32Lim] at * <;> omega)]
  rw [← cntFrom_eq_countFreeV]
  cases ft
  · simp only
    have := countFreeLoop12_sim f ht.wf total 2 0 0 (fun i h1 h2 => ht.covers i (by omega)) (by omega)
    simpa using this
  · simp only
    have := countFreeLoop16_sim f total 2 0 (fun i h1 h2 => ht.covers i (by omega))
    simpa using this
  · simp only
    have := countFreeLoop32_sim f total 2 0 (fun i h1 h2 => ht.plain (by omega))
    simpa using this


/-! ### alloc_cluster -/

theorem allocStart_eq (hint : Option Nat) (total : Nat) : allocStart hint (total + 2) = allocStartV hint total := rfl

theorem allocFind_sim {ft : FatType} {f : Array Nat} {total : Nat} (ht : TableOk ft f total) (hint : Option Nat) :
    allocFind ft f (allocStart hint (total + 2)) (total + 2) = scanRes (allocFindV (view ft f) hint total) := by
  have hstart := allocStartV_le hint total
  rw [allocStart_eq]
  unfold allocFind allocFindV
  generalize allocStartV hint total = start at *
  rw [findFree_sim_le ht hstart (Nat.le_refl _)]
  cases h1 : findFreeV (view ft f) start (total + 2 - start) with
  | some c => rfl
  | none =>
    by_cases h2 : start > 2
    · simp only [scanRes, h2, and_self, if_true]
      exact findFree_sim ht h2 (by omega)
    · simp only [scanRes, h2, and_false, if_false]

theorem tableOk_set {ft : FatType} {f f' : Array Nat} {total c : Nat} {v : FatValue} (ht : TableOk ft f total)
    (h : set ft f c v = .ok f') : TableOk ft f' total := by
  refine ⟨set_wf ht.wf h, ?_, ht.small⟩
  intro i hi
  have := ht.covers i hi
  unfold InRange at *
  rw [set_size h]; exact this

theorem representable_data {ft : FatType} {c : Nat} (h1 : 0 < c) (h2 : c < badMark ft) :
    Representable ft (.data c) := by
  cases ft <;> simp only [Representable, badMark] at * <;> omega

theorem fits_eoc (ft : FatType) : FitsWidth ft .eoc := by
  cases ft <;> simp [FitsWidth, rawOfValue, valLimit]

theorem fits_free (ft : FatType) : FitsWidth ft .free := by
  cases ft <;> simp [FitsWidth, rawOfValue, valLimit]

theorem allocLink_sim {ft : FatType} {f : Array Nat} {total c : Nat} (ht : TableOk ft f total) (prev : Option Nat)
    (hc1 : 2 ≤ c) (hc2 : c < total + 2) (hp : ∀ p, prev = some p → p < total + 2) :
    ∃ f', allocLink ft f prev c = ⟨.ok c, f'⟩ ∧ view ft f' = allocLinkV (view ft f) prev c ∧
      TableOk ft f' total ∧ f'.size = f.size ∧
      (∀ i, i ≠ c → prev ≠ some i → getRaw ft f' i = getRaw ft f i) := by
  have hpc := ht.plain hc2
  obtain ⟨f1, h1⟩ := set_ok_of_inRange (v := .eoc) hpc.1 (by intro _ h; cases h)
  have hv1 := view_set ht.wf (v := .eoc) (by cases ft <;> trivial) hpc.2 h1
  have ht1 := tableOk_set ht h1
  unfold allocLink allocLinkV
  rw [h1]; simp only
  cases prev with
  | none => exact ⟨f1, rfl, hv1, ht1, set_size h1, fun i hi _ => getRaw_set_other ht.wf (fits_eoc ft) h1 hi⟩
  | some p =>
    have hpp := ht1.plain (hp p rfl)
    obtain ⟨f2, h2⟩ := set_ok_of_inRange (v := .data c) hpp.1 (by intro _ h; cases h)
    have hsm := ht.small
    have hrep : Representable ft (.data c) := representable_data (ft := ft) (by omega) (by omega)
    have hv2 := view_set ht1.wf hrep hpp.2 h2
    simp only [allocLinkPrev]
    rw [h2]; simp only
    refine ⟨f2, rfl, ?_, tableOk_set ht1 h2, ?_, ?_⟩
    · rw [hv2, hv1]
    · rw [set_size h2, set_size h1]
    · intro i hi hip
      have hip' : i ≠ p := by intro e; subst e; exact hip rfl
      rw [getRaw_set_other ht1.wf (representable_fits hrep) h2 hip', getRaw_set_other ht.wf (fits_eoc ft) h1 hi]

/-- `alloc_cluster` succeeds exactly as the view-level allocator does -/
theorem allocCluster_ok {ft : FatType} {f : Array Nat} {total c : Nat} (ht : TableOk ft f total)
    (prev hint : Option Nat)
    (hh : ∀ n, hint = some n → 2 ≤ n) (hp : ∀ p, prev = some p → p < total + 2)
    (h : allocFindV (view ft f) hint total = some c) :
    ∃ f', allocCluster f ft prev hint total = ⟨.ok c, f'⟩ ∧ view ft f' = allocLinkV (view ft f) prev c ∧
      TableOk ft f' total ∧ f'.size = f.size ∧
      (∀ i, i ≠ c → prev ≠ some i → getRaw ft f' i = getRaw ft f i) := by
  obtain ⟨hc1, hc2, _⟩ := allocFindV_some _ _ _ _ hh h
  obtain ⟨f', h1, h2, h3, h4, h5⟩ := allocLink_sim ht prev hc1 hc2 hp
  refine ⟨f', ?_, h2, h3, h4, h5⟩
  have hsmall := ht.small
  unfold allocCluster
  rw [if_neg (by cases ft <;> simp only [badMark, u32Lim] at * <;> omega)]
  rw [allocFind_sim ht hint, h]
  simp only [scanRes]; exact h1

theorem allocCluster_noSpace {ft : FatType} {f : Array Nat} {total : Nat} (ht : TableOk ft f total)
    (prev hint : Option Nat)
    (h : allocFindV (view ft f) hint total = none) :
    allocCluster f ft prev hint total = ⟨.error .noSpace, f⟩ := by
  have hsmall := ht.small
  unfold allocCluster
  rw [if_neg (by cases ft <;> simp only [badMark, u32Lim] at * <;> omega)]
  rw [allocFind_sim ht hint, h]
  rfl

/-! ### ClusterIterator -/

theorem chainNext_view {ft : FatType} {f : Array Nat} {c : Nat} (h : InRange ft f c) :
    chainNext ft f c = .ok (nextV (view ft f) c) := by
  obtain ⟨v, hv⟩ := get_ok_of_inRange h
  unfold chainNext nextV view
  rw [hv]
  cases v <;> rfl

theorem view_eq_of_getRaw_eq {ft : FatType} {f f' : Array Nat} {i : Nat} (h : getRaw ft f' i = getRaw ft f i) :
    view ft f' i = view ft f i := by
  unfold view get; rw [h]

theorem freeLoop_none (ft : FatType) (k : Nat) (f : Array Nat) (e : Bool) (cnt : Nat) :
    freeLoop ft k f ⟨none, e⟩ cnt = ⟨.ok cnt, f⟩ := by
  cases k <;> rfl

theorem iterAdvance_view {ft : FatType} {f : Array Nat} {c : Nat} (h : InRange ft f c) :
    iterAdvance ft f (iterNew c) = ⟨nextV (view ft f) c, false⟩ := by
  simp [iterAdvance, iterNew, chainNext_view h]

theorem iterItem_view {ft : FatType} {f : Array Nat} {c : Nat} (h : InRange ft f c) :
    iterItem ft f (iterNew c) = (nextV (view ft f) c).map .ok := by
  simp only [iterItem, iterNew, chainNext_view h]
  cases nextV (view ft f) c <;> rfl

/-- one iteration of the `free` loop on a readable, writable entry -/
theorem freeLoop_step {ft : FatType} {f f1 : Array Nat} {c : Nat} (k cnt : Nat) (h : InRange ft f c)
    (h1 : set ft f c .free = .ok f1) :
    freeLoop ft (k + 1) f (iterNew c) cnt = freeLoop ft k f1 ⟨nextV (view ft f) c, false⟩ (cnt + 1) := by
  have hit := iterItem_view h
  have hadv := iterAdvance_view h
  simp only [iterNew] at hit hadv ⊢
  simp only [freeLoop, hit, hadv, h1]
  cases nextV (view ft f) c <;> rfl

theorem truncateChain_step {ft : FatType} {f f1 : Array Nat} {c : Nat} (fuel : Nat) (h : InRange ft f c)
    (h1 : set ft f c .eoc = .ok f1) :
    truncateChain ft f c fuel = freeLoop ft fuel f1 ⟨nextV (view ft f) c, false⟩ 0 := by
  simp only [truncateChain, iterItem_view h, iterAdvance_view h, h1]
  cases nextV (view ft f) c <;> rfl

/-- `ClusterIterator::free` on an acyclic chain inside the table: returns the chain length, frees its members, and
    leaves every other entry's raw value (incl. FAT32 reserved bits) untouched -/
theorem freeLoop_sim {ft : FatType} : ∀ (cs : List Nat) (f : Array Nat) (c : Nat), Chain (view ft f) c cs →
    cs.Nodup → (∀ i, i ∈ cs → Plain ft f i) → WfBytes f → ∀ fuel cnt, cs.length ≤ fuel →
    ∃ f', freeLoop ft fuel f (iterNew c) cnt = ⟨.ok (cnt + cs.length), f'⟩ ∧ f'.size = f.size ∧ WfBytes f' ∧
      (∀ i, i ∈ cs → view ft f' i = .free) ∧ (∀ i, i ∉ cs → getRaw ft f' i = getRaw ft f i) := by
  intro cs
  induction cs with
  | nil => intro f c h; cases h
  | cons x xs ih =>
    intro f c h hnd hpl hf fuel cnt hfuel
    obtain ⟨fuel, rfl⟩ : ∃ k, fuel = k + 1 := ⟨fuel - 1, by simp at hfuel; omega⟩
    have hcx : c = x := by obtain ⟨t, ht⟩ := chain_head h; cases ht; rfl
    subst hcx
    have hpc := hpl c (by simp)
    obtain ⟨f1, h1⟩ := set_ok_of_inRange (v := .free) hpc.1 (fun hft _ => hpc.2 hft)
    have hv1 := view_set hf (v := .free) (by cases ft <;> trivial) hpc.2 h1
    have hfits : FitsWidth ft .free := fits_free ft
    rw [freeLoop_step fuel cnt hpc.1 h1]
    cases h with
    | last _ hl =>
      refine ⟨f1, ?_, set_size h1, set_wf hf h1, ?_, ?_⟩
      · rw [nextV_last hl, freeLoop_none]; rfl
      · intro i hi; simp at hi; subst hi; rw [hv1]; simp
      · intro i hi; simp at hi; exact getRaw_set_other hf hfits h1 hi
    | cons _ n _ hd hc =>
      have hnd' : xs.Nodup := (List.nodup_cons.mp hnd).2
      have hcn : c ∉ xs := (List.nodup_cons.mp hnd).1
      have hc' : Chain (view ft f1) n xs := by rw [hv1]; exact chain_updV_other _ c .free n xs hc hcn
      have hpl' : ∀ i, i ∈ xs → Plain ft f1 i :=
        fun i hi => (hpl i (List.mem_cons_of_mem _ hi)).of_size (set_size h1)
      obtain ⟨f', e1, e2, e3, e4, e5⟩ := ih f1 n hc' hnd' hpl' (set_wf hf h1) fuel (cnt + 1)
        (by simp at hfuel; omega)
      refine ⟨f', ?_, by rw [e2, set_size h1], e3, ?_, ?_⟩
      · rw [nextV_data hd]
        simp only [iterNew] at e1
        rw [e1, List.length_cons]; congr 2; omega
      · intro i hi
        rcases List.mem_cons.mp hi with rfl | hi
        · rw [view_eq_of_getRaw_eq (e5 _ hcn), hv1]; simp
        · exact e4 i hi
      · intro i hi
        have hic : i ≠ c := by intro h; subst h; simp at hi
        have hix : i ∉ xs := by intro h; exact hi (List.mem_cons_of_mem _ h)
        rw [e5 i hix]; exact getRaw_set_other hf hfits h1 hic

theorem freeChain_sim {ft : FatType} {f : Array Nat} {c : Nat} {cs : List Nat} (hf : WfBytes f)
    (h : Chain (view ft f) c cs) (hnd : cs.Nodup) (hpl : ∀ i, i ∈ cs → Plain ft f i) (fuel : Nat)
    (hfuel : cs.length ≤ fuel) :
    ∃ f', freeChain ft f c fuel = ⟨.ok cs.length, f'⟩ ∧ f'.size = f.size ∧ WfBytes f' ∧
      (∀ i, i ∈ cs → view ft f' i = .free) ∧ (∀ i, i ∉ cs → getRaw ft f' i = getRaw ft f i) := by
  have := freeLoop_sim cs f c h hnd hpl hf fuel 0 hfuel
  simpa [freeChain] using this

/-- `ClusterIterator::truncate` at the head `c` of the (remaining) chain `c :: t` -/
theorem truncateChain_sim {ft : FatType} {f : Array Nat} {c : Nat} {t : List Nat} (hf : WfBytes f)
    (h : Chain (view ft f) c (c :: t)) (hnd : (c :: t).Nodup) (hpl : ∀ i, i ∈ c :: t → Plain ft f i) (fuel : Nat)
    (hfuel : t.length ≤ fuel) :
    ∃ f', truncateChain ft f c fuel = ⟨.ok t.length, f'⟩ ∧ f'.size = f.size ∧ WfBytes f' ∧
      view ft f' c = .eoc ∧ (∀ i, i ∈ t → view ft f' i = .free) ∧
      (∀ i, i ≠ c → i ∉ t → getRaw ft f' i = getRaw ft f i) := by
  have hct : c ∉ t := (List.nodup_cons.mp hnd).1
  have hndt : t.Nodup := (List.nodup_cons.mp hnd).2
  have hpc := hpl c (by simp)
  obtain ⟨f1, h1⟩ := set_ok_of_inRange (v := .eoc) hpc.1 (by intro _ h; cases h)
  have hv1 := view_set hf (v := .eoc) (by cases ft <;> trivial) hpc.2 h1
  have hfits : FitsWidth ft .eoc := fits_eoc ft
  rw [truncateChain_step fuel hpc.1 h1]
  cases h with
  | last _ hl =>
    refine ⟨f1, ?_, set_size h1, set_wf hf h1, ?_, ?_, ?_⟩
    · rw [nextV_last hl, freeLoop_none]; rfl
    · rw [hv1]; simp
    · intro i hi; simp at hi
    · intro i hi _; exact getRaw_set_other hf hfits h1 hi
  | cons _ n _ hd hc =>
    have hc' : Chain (view ft f1) n t := by rw [hv1]; exact chain_updV_other _ c .eoc n t hc hct
    have hpl' : ∀ i, i ∈ t → Plain ft f1 i :=
      fun i hi => (hpl i (List.mem_cons_of_mem _ hi)).of_size (set_size h1)
    obtain ⟨f', e1, e2, e3, e4, e5⟩ := freeLoop_sim t f1 n hc' hndt hpl' (set_wf hf h1) fuel 0 hfuel
    refine ⟨f', ?_, by rw [e2, set_size h1], e3, ?_, e4, ?_⟩
    · rw [nextV_data hd]
      simp only [iterNew] at e1
      rw [e1]; simp
    · rw [view_eq_of_getRaw_eq (e5 _ hct), hv1]; simp
    · intro i hi hit; rw [e5 i hit]; exact getRaw_set_other hf hfits h1 hi

end FatVerif.Fat
