import FatVerif.Proofs.DirWriteSim31
/-! Directory WRITES, part 32: the ancestor walk of `rename_internal` (a directory must not be moved into its own
    subtree): climbing from the destination directory through the `..` entries to the root, on the image. -/
namespace FatVerif.DirSim
open FatVerif.FileSim FatVerif.Fat DirEntryData DirAlias

/-- the climb from the directory `anc` (at depth `depth`) to a root in `n` steps: every directory on the way is readable
    (`DirView`), is not the directory `target`, and (unless it is a root) lists a directory `..`, whose stream is the
    next one; the depth stays within the number of clusters -/
inductive Climbs (d : Dev) (env : Env) (target : Option Nat) : DirStream → Nat → Nat → Prop
  | top {anc : DirStream} {depth : Nat} (V : DirView d anc) (hne : (anc.firstCluster == target) = false)
      (hroot : anc.isRootDir = true) : Climbs d env target anc depth 0
  | up {anc : DirStream} {depth n : Nat} {e : DirEntry} (V : DirView d anc)
      (hne : (anc.firstCluster == target) = false) (hnr : anc.isRootDir = false)
      (hdepth : depth + 1 ≤ d.fs.totalClusters) (hl : V.lookup env ".." (some true) = .ok e)
      (hr : Climbs d env target (DirEntry.dirStream d.fs e) (depth + 1) n) : Climbs d env target anc depth (n + 1)

theorem Reads.drop {st : DirStream} {d : Dev} (h : ∀ d1, SameVol d d1 → Reads st.dropBody d1 ()) : Reads st.drop d () :=
  Reads.finallyDrop (Reads.pure () d) h

theorem splitPath_dotdot : Names.splitPath ".." = ("..", none) := by decide +kernel

/-- **the ancestor walk** succeeds along a climb, keeping the volume -/
theorem ancestorWalk_sim {d : Dev} {env : Env} {target : Option Nat} : ∀ {anc : DirStream} {depth n : Nat},
    Climbs d env target anc depth n → ∀ fuel, n < fuel → ∀ d1, SameVol d d1 →
    Reads (ancestorWalk env target fuel anc depth) d1 () := by
  intro anc depth n h
  induction h with
  | @top anc depth V hne hroot =>
    intro fuel hf d1 hv
    obtain ⟨k, rfl⟩ : ∃ k, fuel = k + 1 := ⟨fuel - 1, by omega⟩
    unfold ancestorWalk
    refine Reads.bind (Reads.getFs d1) (fun d2 hs2 => ?_)
    simp only [hne, hroot, Bool.false_eq_true, if_false, if_true]
    exact Reads.drop (fun d3 hs3 => V.drop_sim d3 ((hv.trans hs2).trans hs3))
  | @up anc depth n e V hne hnr hdepth hl hr ih =>
    intro fuel hf d1 hv
    obtain ⟨k, rfl⟩ : ∃ k, fuel = k + 1 := ⟨fuel - 1, by omega⟩
    unfold ancestorWalk
    refine Reads.bind (Reads.getFs d1) (fun d2 hs2 => ?_)
    rw [hv.fs]
    have hd : ¬ (depth + 1 > d.fs.totalClusters) := by omega
    simp only [hne, hnr, hd, Bool.false_eq_true, if_false]
    have hv2 := hv.trans hs2
    have hopen : Reads (openDir env 4 anc "..") d2 (DirEntry.dirStream d.fs e) :=
      openDir_sim (ResolvesTo.last (fuel := 3) splitPath_dotdot V hl) d2 hv2
    refine Reads.bind (Reads.finallyDrop hopen (fun d3 _ => Reads.pure () d3)) (fun d3 hs3 => ?_)
    refine Reads.bind (Reads.drop (fun d4 hs4 => V.drop_sim d4 ((hv2.trans hs3).trans hs4))) (fun d4 hs4 => ?_)
    exact ih k (by omega) d4 ((hv2.trans hs3).trans hs4)

/-- `ancestorWalkTop` along a climb of fewer than `total_clusters + 3` steps -/
theorem ancestorWalkTop_sim {d : Dev} {env : Env} {target : Option Nat} {dst : DirStream} {n : Nat}
    (h : Climbs d env target dst 0 n) (hn : n < d.fs.totalClusters + 3) (d1 : Dev) (hv : SameVol d d1) :
    Reads (ancestorWalkTop env target dst) d1 () := by
  unfold ancestorWalkTop
  refine Reads.bind (Reads.getFs d1) (fun d2 hs2 => ?_)
  rw [hv.fs]
  exact ancestorWalk_sim h _ hn d2 (hv.trans hs2)

end FatVerif.DirSim
