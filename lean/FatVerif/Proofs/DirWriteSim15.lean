import FatVerif.Proofs.DirWriteSim14
/-! Directory WRITES, part 15: SUB-DIRECTORIES (cluster-chain directories WITH a directory entry). Writing through the
    handle stamps its entry (`update_dir_entry_after_write`: modification date/time from the clock); the destructor of
    the clone then writes the directory's own 32-byte record back to its slot in the parent (raw storage). -/
namespace FatVerif.DirSim
open FatVerif.FileSim FatVerif.Fat DirEntryData

/-! ### raw `writeChunks` on the device -/

theorem dev_writeAll (c : List Nat) (hne : c ≠ []) (d : Dev) (hfa : d.failAt = none)
    (hfit : d.pos + c.length ≤ d.img.size) :
    run (writeAll devStrm () c) d = (.ok (), didWrite d c) := by
  have hlen : c.length ≠ 0 := by
    cases c with
    | nil => exact absurd rfl hne
    | cons _ _ => simp
  have hemp : c.isEmpty = false := by cases c <;> simp_all
  have hmin : min c.length (d.img.size - d.pos) = c.length := by omega
  have hw : run (devStrm.write () c) d = (.ok (c.length, ()), didWrite d c) := by
    show run (Prog.write c >>= fun n => (pure (n, ()) : Prog (Nat × Unit))) d = _
    rw [run_bind_ok (run_write _ d hfa), hmin]
    rfl
  unfold writeAll
  obtain ⟨k, hk⟩ : ∃ k, c.length = k + 1 := ⟨c.length - 1, by omega⟩
  rw [hk]
  unfold writeAllLoop
  simp only [hemp, Bool.false_eq_true, if_false]
  rw [run_bind_ok hw]
  simp only [hlen, if_false, List.drop_length]
  unfold writeAllLoop
  cases k <;> rfl

/-- raw chunks written one after the other from the device position on -/
theorem dev_writeChunks : ∀ (cs : List (List Nat)) (d : Dev), (∀ c ∈ cs, c ≠ []) → d.failAt = none →
    d.pos + cs.flatten.length ≤ d.img.size →
    ∃ d', run (writeChunks devStrm () cs) d = (.ok (), d') ∧ DevStep d d' ∧ d'.fs = d.fs ∧
      (d.img.WF → ∀ q, d'.img.getByte q = putBytes d.img.getByte d.pos cs.flatten q) := by
  intro cs
  induction cs with
  | nil =>
    intro d _ _ _
    exact ⟨d, rfl, DevStep.refl d, rfl, fun _ q => by rw [List.flatten_nil, putBytes_nil]⟩
  | cons c rest ih =>
    intro d hne hfa hfit
    simp only [List.flatten_cons, List.length_append] at hfit
    have hc := hne c (List.mem_cons_self ..)
    have h1 := dev_writeAll c hc d hfa (by omega)
    have hmin : min c.length (d.img.size - d.pos) = c.length := by omega
    have hpos1 : (didWrite d c).pos = d.pos + c.length := by
      show d.pos + min c.length (d.img.size - d.pos) = _; rw [hmin]
    have himg1 : (didWrite d c).img = d.img.write d.pos c := didWrite_img d c (by omega)
    obtain ⟨d2, h2, hs2, hfs2, hb2⟩ := ih (didWrite d c) (fun c' hc' => hne c' (List.mem_cons_of_mem _ hc')) hfa
      (by rw [hpos1, didWrite_img_size]; omega)
    have hs1 : DevStep d (didWrite d c) :=
      ⟨rfl, didWrite_img_size _ _, fun hw => by rw [himg1]; exact Img.wf_write _ hw _ _, FsGeomEq.refl _, rfl⟩
    refine ⟨d2, ?_, hs1.trans hs2, hfs2, fun hw q => ?_⟩
    · unfold writeChunks
      rw [run_bind_ok h1, h2]
    · rw [hb2 (hs1.wf hw) q, hpos1, List.flatten_cons, ← putBytes_append]
      unfold putBytes
      split
      · rfl
      · rw [himg1, Img.getByte_write _ hw]


/-! ### the stamped entry -/

theorem data_setModified_idem (e : DirFileEntryData) (dt : DateTime) : (e.setModified dt).setModified dt = e.setModified dt :=
  rfl

theorem ed_setModified_idem (ed : DirEntryEditor) (dt : DateTime) :
    (ed.setModified dt).setModified dt = ed.setModified dt := by
  unfold DirEntryEditor.setModified
  by_cases h : dt ≠ ed.data.modified
  · rw [if_pos h]
    simp only
    split
    · rw [data_setModified_idem]
    · rfl
  · rw [if_neg h, if_neg h]

theorem ed_setModified_pos (ed : DirEntryEditor) (dt : DateTime) : (ed.setModified dt).pos = ed.pos := by
  unfold DirEntryEditor.setModified; split <;> rfl

/-- what the stamp changes in the record: the modification date and time, nothing else -/
theorem ed_setModified_data (ed : DirEntryEditor) (dt : DateTime) :
    (ed.setModified dt).data = ed.data ∨ (ed.setModified dt).data = ed.data.setModified dt := by
  unfold DirEntryEditor.setModified; split
  · exact Or.inr rfl
  · exact Or.inl rfl

/-! ### the invariant and the two families -/

/-- the invariant threaded through the writes on the sub-directory of first cluster `c0` whose handle carries the
    (clean) editor `ed0` of its own entry; `t0` = the clock of the device -/
structure SubInv (fs0 : FsState) (ed0 : DirEntryEditor) (c0 : Nat) (chain : List Nat) (t0 : Nat) (d : Dev) : Prop where
  dir : ChainDir d (FileH.new (some c0) (some ed0)) c0 chain
  wf : d.img.WF
  geom : FsGeomEq fs0 d.fs
  fuel : chain.length * (fs0.clusterSize / 32) < dirFuel fs0
  clock : d.clock = t0
  /-- the directory's own entry: a 32-byte record behind the FAT copies, inside the device -/
  nameLen : ed0.data.name.length = 11
  epos : (fatSliceOf fs0).beginOff + (fatSliceOf fs0).mirrors * (fatSliceOf fs0).size ≤ ed0.pos
  einside : ed0.pos + 32 ≤ d.img.size

section sub
variable {fs0 : FsState} {ed0 : DirEntryEditor} {c0 : Nat} {chain : List Nat} {t0 : Nat}

/-- the handle after the first write: the editor stamped with the clock -/
def subW (ed0 : DirEntryEditor) (c0 t0 : Nat) : FileH := FileH.new (some c0) (some (ed0.setModified (clockDateTime t0)))

theorem stamped_sub0 : stamped (FileH.new (some c0) (some ed0)) t0 = subW ed0 c0 t0 := rfl

theorem stamped_subW : stamped (subW ed0 c0 t0) t0 = subW ed0 c0 t0 := by
  unfold stamped subW FileH.new
  simp only [Option.map, ed_setModified_idem]

theorem SubInv.coreW {d : Dev} (h : SubInv fs0 ed0 c0 chain t0 d) : ChainCore d (subW ed0 c0 t0) c0 chain := by
  have C := h.dir.core
  refine ⟨C.failAt, C.geo, rfl, C.link, C.inTab, ?_, ?_, C.cs32, C.u32⟩
  · have := C.nosize
    unfold FileH.size? FileH.new at this
    simp only at this
    unfold subW FileH.size? FileH.new
    simp only
    rw [size?_setModified_ed]; exact this
  · rcases C.noacc with h1 | h1
    · exact Or.inl h1
    · cases h1

theorem subInv_ok : InvOK (SubInv fs0 ed0 c0 chain t0) where
  noFault := fun _ h => h.dir.failAt
  wf := fun _ h => h.wf
  vol := fun d d1 h hv hc => ⟨h.dir.of_sameVol hv, by rw [hv.img]; exact h.wf, by rw [hv.fs]; exact h.geom, h.fuel,
    hc.trans h.clock, h.nameLen, h.epos, by rw [hv.img]; exact h.einside⟩

/-- the invariant survives a write that keeps the geometry and the first FAT copy -/
theorem SubInv.of_write {d d' : Dev} (h : SubInv fs0 ed0 c0 chain t0 d) (hs : DevStep d d')
    (hC : ChainCore d' (FileH.new (some c0) (some ed0)) c0 chain) (hwf : d'.img.WF) : SubInv fs0 ed0 c0 chain t0 d' :=
  ⟨⟨hC.failAt, hC.geo, hC.first, hC.link, hC.inTab, hC.nosize, hC.noacc, h.dir.clean, hC.cs32, hC.u32⟩, hwf,
   h.geom.trans hs.geom, h.fuel, hs.clock.trans h.clock, h.nameLen, h.epos, by rw [hs.size]; exact h.einside⟩


/-- the write family of a handle `f` of the sub-directory whose stamp at the device clock is the stamped handle -/
theorem sub_wfam (f : FileH) (hcore : ∀ d, SubInv fs0 ed0 c0 chain t0 d → ChainCore d f c0 chain)
    (hst : stamped f t0 = subW ed0 c0 t0) :
    WFam (SubInv fs0 ed0 c0 chain t0) (chainS f chain fs0.clusterSize) (chainS (subW ed0 c0 t0) chain fs0.clusterSize)
      (chain.length * (fs0.clusterSize / 32)) (chainSrc fs0 chain) (chainRoom fs0 chain) := by
  have hT : ∀ d, SubInv fs0 ed0 c0 chain t0 d →
      32 * (chain.length * (fs0.clusterSize / 32)) = chain.length * fs0.clusterSize := by
    intro d h
    have hcs : d.fs.clusterSize = fs0.clusterSize := h.geom.clusterSize
    have := Nat.div_add_mod fs0.clusterSize 32
    have h32 := h.dir.cs32
    rw [hcs] at h32
    rw [h32, Nat.add_zero] at this
    rw [Nat.mul_left_comm, this]
  refine ⟨fun d h => ?_, fun d h o bs hne hroom hfit => ?_, fun d h o ho32 hfit => ?_⟩
  · have := (hcore d h).byteSrc (T := 32 * (chain.length * (fs0.clusterSize / 32)))
      (by rw [hT d h, h.geom.clusterSize])
    rw [h.geom.clusterSize, chainSrc_geom h.geom, chainRoom_geom h.geom] at this
    exact this
  · have hcs : d.fs.clusterSize = fs0.clusterSize := h.geom.clusterSize
    obtain ⟨d', h1, hw, hC, hwf⟩ := (hcore d h).file_write h.wf o bs hne
      (by rw [chainRoom_geom h.geom]; exact hroom) (by rw [hcs, ← hT d h]; exact hfit)
    rw [hcs, h.clock, hst] at h1
    rw [chainSrc_geom h.geom] at hw
    have hC0 : ChainCore d' (FileH.new (some c0) (some ed0)) c0 chain := by
      refine ⟨hC.failAt, hC.geo, rfl, hC.link, hC.inTab, h.dir.nosize, ?_, hC.cs32, hC.u32⟩
      rcases h.dir.noacc with h1 | h1
      · left; rw [hw.step.geom.accDate]; exact h1
      · cases h1
    refine ⟨d', ?_, hw, h.of_write hw.step hC0 hwf⟩
    simp only [chainS, DirStream.write]
    rw [run_bind_ok h1]
    rfl
  · have hcs : d.fs.clusterSize = fs0.clusterSize := h.geom.clusterSize
    obtain ⟨d1, h1, hs1⟩ := (hcore d h).seekBack o (by rw [hcs, ← hT d h]; exact hfit)
    rw [hcs] at h1
    refine ⟨d1, ?_, hs1.toVol⟩
    simp only [chainS, DirStream.seek]
    rw [run_bind_ok h1]
    rfl

/-- the bytes of the directory's own entry in its parent -/
def subExtra (ed0 : DirEntryEditor) (q : Nat) : Prop := ed0.pos ≤ q ∧ q < ed0.pos + 32

/-- what the destructor of a stamped clone does to the image: nothing outside the 32 bytes of the directory's own entry;
    if the stamp changed the record, those bytes become the serialised stamped record, otherwise they stay too -/
def subDropPost (ed0 : DirEntryEditor) (t0 : Nat) (im im' : Img) : Prop :=
  (∀ q, ¬ subExtra ed0 q → im'.getByte q = im.getByte q) ∧
  ((ed0.setModified (clockDateTime t0)).dirty = true → ∀ q, subExtra ed0 q →
    im'.getByte q = (ed0.setModified (clockDateTime t0)).data.serialize.getD (q - ed0.pos) 0 % 256) ∧
  ((ed0.setModified (clockDateTime t0)).dirty = false → ∀ q, im'.getByte q = im.getByte q)

/-- **the destructor of a clone of a stamped sub-directory handle**: if the stamp changed the record, its 32 bytes are
    written to the slot of the directory's entry (raw storage), then the storage is flushed; nothing else changes -/
theorem sub_drop {d : Dev} (h : SubInv fs0 ed0 c0 chain t0 d) (o : Nat) :
    ∃ d1, run (chainS (subW ed0 c0 t0) chain fs0.clusterSize o).dropBody d = (.ok (), d1) ∧ VolStep d d1 ∧
      SubInv fs0 ed0 c0 chain t0 d1 ∧ (d.fs.curDirty = true → d1.fs.curDirty = true) ∧
      (∀ q, 0x42 ≤ q → ¬ subExtra ed0 q → d1.img.getByte q = d.img.getByte q) ∧ subDropPost ed0 t0 d.img d1.img ∧
      d1.fs = d.fs := by
  have hfa := h.dir.failAt
  generalize hedW : ed0.setModified (clockDateTime t0) = edW
  have hpos : edW.pos = ed0.pos := by rw [← hedW]; exact ed_setModified_pos _ _
  have hent : (dirFile (subW ed0 c0 t0) chain fs0.clusterSize o).entry = some edW := by
    show some (ed0.setModified (clockDateTime t0)) = _; rw [hedW]
  by_cases hdirty : edW.dirty = true
  · -- the record is written back
    have hser : edW.data.serialize.length = 32 := by
      apply DirFileEntryData.serialize_length
      rw [← hedW]
      rcases ed_setModified_data ed0 (clockDateTime t0) with h1 | h1
      · rw [h1]; exact h.nameLen
      · rw [h1]; exact h.nameLen
    have hfl := chunksOf_flatten FileH.entryChunkSizes edW.data.serialize (by rw [entryChunks_sum, hser])
    have hd0 : (d.didSeek edW.pos).pos + (chunksOf edW.data.serialize FileH.entryChunkSizes).flatten.length ≤
        (d.didSeek edW.pos).img.size := by
      rw [hfl, hser, hpos]; exact h.einside
    obtain ⟨d2, h2, hs2, hfs2, hb2⟩ := dev_writeChunks (chunksOf edW.data.serialize FileH.entryChunkSizes)
      (d.didSeek edW.pos) (chunksOf_ne_nil _ _ (by decide) (by rw [entryChunks_sum, hser]; exact Nat.le_refl _)) hfa hd0
    rw [hfl] at hb2
    obtain ⟨d3, h3, hs3⟩ := run_flush_ok d2 (by rw [hs2.failAt]; exact hfa)
    have hstep : DevStep d d2 := (DevStep.of_sameStore (sameStore_didSeek d edW.pos)).trans hs2
    have hbytes : ∀ q, d3.img.getByte q = putBytes d.img.getByte ed0.pos edW.data.serialize q := by
      intro q
      rw [hs3.img, hb2 h.wf q]
      show putBytes d.img.getByte edW.pos _ q = _
      rw [hpos]
    have hout : ∀ q, ¬ subExtra ed0 q → d3.img.getByte q = d.img.getByte q := by
      intro q hq
      rw [hbytes q]
      unfold putBytes
      rw [if_neg (by rw [hser]; exact hq)]
    have hgeo := h.dir.geo
    have hfat : FatAgree d.fs d.img d3.img := by
      intro q h1 h2
      apply hout
      unfold subExtra
      have := h.epos
      have e1 := h.geom.fatSlice
      rw [e1] at h1 h2
      have : (fatSliceOf fs0).size ≤ (fatSliceOf fs0).mirrors * (fatSliceOf fs0).size := by
        have := hgeo.mirrors_pos
        rw [e1] at this
        exact Nat.le_mul_of_pos_left _ this
      omega
    have hvs : VolStep d d3 := (VolStep.of_devStep hstep).trans (VolStep.of_sameVol hs3)
    have hclk : d3.clock = d.clock := by
      rw [run_clock _ _ _ _ h3]; exact hstep.clock
    have hpost : subDropPost ed0 t0 d.img d3.img := by
      unfold subDropPost
      rw [hedW]
      refine ⟨hout, fun _ q hq => ?_, fun hd => absurd hdirty (by rw [hd]; decide)⟩
      rw [hbytes q]
      unfold putBytes
      unfold subExtra at hq
      rw [if_pos (by rw [hser]; exact hq)]
    refine ⟨d3, ?_, hvs, ?_, fun hk => by rw [hs3.fs, hfs2]; exact hk, fun q _ hq => hout q hq, hpost,
      by rw [hs3.fs, hfs2]; rfl⟩
    · have hfd : run (FileH.flushDirEntry (dirFile (subW ed0 c0 t0) chain fs0.clusterSize o)) d =
          (.ok { dirFile (subW ed0 c0 t0) chain fs0.clusterSize o with entry := some { edW with dirty := false } }, d2) := by
        unfold FileH.flushDirEntry
        rw [hent]
        simp only [hdirty, if_true]
        rw [run_bind_ok (run_seekStart edW.pos d hfa), run_bind_ok h2]
        rfl
      have hfl' : run (FileH.flush (dirFile (subW ed0 c0 t0) chain fs0.clusterSize o)) d =
          (.ok { dirFile (subW ed0 c0 t0) chain fs0.clusterSize o with entry := some { edW with dirty := false } }, d3) := by
        unfold FileH.flush
        rw [run_bind_ok hfd, run_bind_ok h3]
        rfl
      show run (do let _ ← FileH.flush (dirFile (subW ed0 c0 t0) chain fs0.clusterSize o); pure ()) d = _
      rw [run_bind_ok hfl']
      rfl
    · exact ⟨h.dir.of_agree hvs.failAt hvs.size hvs.geom hfat, hvs.wf h.wf, h.geom.trans hvs.geom, h.fuel,
        hclk.trans h.clock, h.nameLen, h.epos, by rw [hvs.size]; exact h.einside⟩
  · -- nothing to write back
    obtain ⟨d3, h3, hs3⟩ := run_flush_ok d hfa
    refine ⟨d3, ?_, VolStep.of_sameVol hs3, subInv_ok.vol d d3 h hs3 (run_clock _ _ _ _ h3),
      fun hk => by rw [hs3.fs]; exact hk, fun q _ _ => by rw [hs3.img],
      by unfold subDropPost; rw [hedW]; exact ⟨fun q _ => by rw [hs3.img], fun hd => absurd hd hdirty, fun _ q => by rw [hs3.img]⟩,
      hs3.fs⟩
    have hfd : run (FileH.flushDirEntry (dirFile (subW ed0 c0 t0) chain fs0.clusterSize o)) d =
        (.ok (dirFile (subW ed0 c0 t0) chain fs0.clusterSize o), d) := by
      unfold FileH.flushDirEntry
      rw [hent]
      simp only [hdirty, Bool.false_eq_true, if_false]
      rfl
    have hfl' : run (FileH.flush (dirFile (subW ed0 c0 t0) chain fs0.clusterSize o)) d =
        (.ok (dirFile (subW ed0 c0 t0) chain fs0.clusterSize o), d3) := by
      unfold FileH.flush
      rw [run_bind_ok hfd, run_bind_ok h3]
      rfl
    show run (do let _ ← FileH.flush (dirFile (subW ed0 c0 t0) chain fs0.clusterSize o); pure ()) d = _
    rw [run_bind_ok hfl']
    rfl


theorem sub_core0 {d : Dev} (h : SubInv fs0 ed0 c0 chain t0 d) :
    ChainCore d (FileH.new (some c0) (some ed0)) c0 chain := h.dir.core

/-- the stream operations of the sub-directory; `heout`: its own entry lies apart from its slots -/
theorem sub_wops (heout : ∀ i, i < chain.length * (fs0.clusterSize / 32) →
      chainSrc fs0 chain (32 * i) + 32 ≤ ed0.pos ∨ ed0.pos + 32 ≤ chainSrc fs0 chain (32 * i)) :
    WOps (SubInv fs0 ed0 c0 chain t0) (chainS (FileH.new (some c0) (some ed0)) chain fs0.clusterSize)
      (chainS (subW ed0 c0 t0) chain fs0.clusterSize) (chain.length * (fs0.clusterSize / 32)) (chainSrc fs0 chain)
      (chainRoom fs0 chain) (subExtra ed0) (subDropPost ed0 t0) := by
  have hT : ∀ d, SubInv fs0 ed0 c0 chain t0 d →
      32 * (chain.length * (fs0.clusterSize / 32)) = chain.length * d.fs.clusterSize := by
    intro d h
    have hcs : d.fs.clusterSize = fs0.clusterSize := h.geom.clusterSize
    have := Nat.div_add_mod fs0.clusterSize 32
    have h32 := h.dir.cs32
    rw [hcs] at h32
    rw [h32, Nat.add_zero] at this
    rw [hcs, Nat.mul_left_comm, this]
  have hD : ∀ d, SubInv fs0 ed0 c0 chain t0 d → DirSrc d (chainS (FileH.new (some c0) (some ed0)) chain fs0.clusterSize)
      (chain.length * (fs0.clusterSize / 32)) (chainSrc fs0 chain) (chainRoom fs0 chain) := by
    intro d h
    have := h.dir.dirSrc
    rw [h.geom.clusterSize, chainSrc_geom h.geom, chainRoom_geom h.geom] at this
    exact this
  refine ⟨hD, fun d h => by rw [dirFuel_geom h.geom]; exact h.fuel, fun d h d0 hv0 o t ho ht => ?_,
    fun d h o ho => (hD d h).seekCur d (SameVol.refl d) o ho, fun d h o ho => ?_,
    fun d h fs' hg o ho32 hpos ho => ?_, fun d h o _ => ?_, fun i hi x hx hq => ?_⟩
  · have C0 := (h.dir.of_sameVol hv0).core
    have hcs : d0.fs.clusterSize = fs0.clusterSize := by rw [hv0.fs]; exact h.geom.clusterSize
    have hT0 : 32 * (chain.length * (fs0.clusterSize / 32)) = chain.length * d0.fs.clusterSize := by
      rw [hv0.fs]; exact hT d h
    obtain ⟨d1, h1, hs1⟩ := C0.seekStart o t (by rw [← hT0]; exact ho) (by rw [← hT0]; exact ht)
    rw [hcs] at h1
    refine ⟨d1, ?_, hs1.toVol⟩
    simp only [chainS, DirStream.seek]
    rw [run_bind_ok h1]
    rfl
  · have := dirFile_seekCur0 h.coreW o (by rw [← hT d h]; exact ho) d
    rw [h.geom.clusterSize] at this
    simp only [chainS, DirStream.seek]
    exact Reads.bind this (fun d2 _ => Reads.pure _ d2)
  · have := (hD d h).absPos d (SameVol.refl d) o ho32 hpos ho
    rw [absPos_geom hg] at this
    exact this
  · obtain ⟨d1, h1, hs1, hinv1, hk1, hb1, hb2, _⟩ := sub_drop h o
    exact ⟨d1, h1, hs1, hinv1, hk1, hb1, hb2⟩
  · unfold subExtra at hq
    have := heout i hi
    omega


end sub

/-- **a sub-directory as a `WView`**: first cluster `c0`, the handle carries the (clean) editor `ed0` of the directory's
    own entry, which lies at `ed0.pos` behind the FAT copies, inside the device and apart from the directory's slots;
    `update_accessed_date` off (part of `ChainDir`) -/
def WView.ofSub (d : Dev) (c0 : Nat) (ed0 : DirEntryEditor) (chain : List Nat)
    (C : ChainDir d (FileH.new (some c0) (some ed0)) c0 chain) (hwf : d.img.WF)
    (hfuel : chain.length * (d.fs.clusterSize / 32) < dirFuel d.fs) (hname : ed0.data.name.length = 11)
    (hepos : (fatSliceOf d.fs).beginOff + (fatSliceOf d.fs).mirrors * (fatSliceOf d.fs).size ≤ ed0.pos)
    (hein : ed0.pos + 32 ≤ d.img.size)
    (heout : ∀ i, i < chain.length * (d.fs.clusterSize / 32) →
      chainSrc d.fs chain (32 * i) + 32 ≤ ed0.pos ∨ ed0.pos + 32 ≤ chainSrc d.fs chain (32 * i)) :
    WView d (.file (FileH.new (some c0) (some ed0))) where
  Inv := SubInv d.fs ed0 c0 chain d.clock
  F := chainS (FileH.new (some c0) (some ed0)) chain d.fs.clusterSize
  G := chainS (subW ed0 c0 d.clock) chain d.fs.clusterSize
  N := chain.length * (d.fs.clusterSize / 32)
  src := chainSrc d.fs chain
  room := chainRoom d.fs chain
  Extra := subExtra ed0
  DropPost := subDropPost ed0 d.clock
  start := rfl
  io := subInv_ok
  geo := C.slotGeo
  w := sub_wfam _ (fun _ h => h.dir.core) stamped_sub0
  wg := sub_wfam _ (fun _ h => h.coreW) stamped_subW
  ops := sub_wops heout
  here := ⟨C, hwf, FsGeomEq.refl _, hfuel, rfl, hname, hepos, hein⟩

/-! ### frame helpers with the extra region -/

theorem srcSlots_frameE {N : Nat} {src : Nat → Nat} {Extra : Nat → Prop} {d d' : Dev} (hf : FrameOutE N src Extra d d')
    (src2 : Nat → Nat) (N2 : Nat)
    (hcont : ∀ i, i < N2 → ∀ x, x < 32 → 0x42 ≤ src2 (32 * i) + x ∧ ¬ Extra (src2 (32 * i) + x) ∧
      ∀ j, j < N → ¬ (src (32 * j) ≤ src2 (32 * i) + x ∧ src2 (32 * i) + x < src (32 * j) + 32)) :
    srcSlots d'.img src2 N2 = srcSlots d.img src2 N2 :=
  srcSlots_congr (fun i hi x hx => by
    obtain ⟨h1, h2, h3⟩ := hcont i hi x hx
    exact hf _ h1 h3 h2)

theorem fatAgree_of_frameE {N : Nat} {src : Nat → Nat} {Extra : Nat → Prop} {d d' : Dev} (hf : FrameOutE N src Extra d d')
    (fs : FsState) (h42 : 0x42 ≤ (fatSliceOf fs).beginOff)
    (hbehind : ∀ j, j < N → (fatSliceOf fs).beginOff + (fatSliceOf fs).size ≤ src (32 * j))
    (hextra : ∀ q, Extra q → (fatSliceOf fs).beginOff + (fatSliceOf fs).size ≤ q) :
    FatAgree fs d.img d'.img := by
  intro q h1 h2
  exact hf q (by omega) (fun j hj => by have := hbehind j hj; omega) (fun he => by have := hextra q he; omega)

/-- the stamped record differs from the handle's record in the modification time and date only: bytes 22–25 -/
theorem stamped_record (ed0 : DirEntryEditor) (t0 : Nat) (h : ed0.data.name.length = 11) :
    (ed0.setModified (clockDateTime t0)).data.serialize = ed0.data.serialize ∨
    (ed0.setModified (clockDateTime t0)).data.serialize =
      ed0.data.serialize.take 22 ++ (bytesLe16 (clockDateTime t0).time.encodeLo ++ bytesLe16 (clockDateTime t0).date.encode) ++
        ed0.data.serialize.drop 26 := by
  rcases ed_setModified_data ed0 (clockDateTime t0) with h1 | h1
  · left; rw [h1]
  · right; rw [h1]; exact DirFileEntryData.serialize_setModified _ _ h

end FatVerif.DirSim
