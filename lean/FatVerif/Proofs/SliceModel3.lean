import FatVerif.Proofs.SliceModel2
/-! WHERE the model writes, part 3: `io.rs` helpers and `table.rs` over a stream whose three methods append only
    records of class `C` and keep an invariant `Inv` of the stream state (for a `DiskSlice`: same window, offset inside). -/
namespace FatVerif

structure StrmGS {σ} (fs0 : FsState) (sz : Nat) (C : Nat → List Nat → Prop) (S : Strm σ) (Inv : σ → Prop) : Prop where
  read : ∀ s n, Inv s → GS fs0 sz C (S.read s n) (fun r => Inv r.2)
  write : ∀ s bs, Inv s → GS fs0 sz C (S.write s bs) (fun r => Inv r.2)
  seek : ∀ s p, Inv s → GS fs0 sz C (S.seek s p) (fun r => Inv r.2)

theorem DiskSlice.strm_gs {fs0 : FsState} {sz : Nat} {C : Nat → List Nat → Prop} (s0 : DiskSlice)
    (hdev : s0.beginOff + s0.mirrors * s0.size ≤ sz)
    (hC : ∀ off b, SliceRec s0 off b → C off b) (hCs : ∀ off b, StatusRec fs0 off b → C off b) :
    StrmGS fs0 sz C DiskSlice.strm (SliceInv s0) :=
  ⟨fun _ n hs => DiskSlice.read_gs hs n, fun _ bs hs => DiskSlice.write_gs hs hdev hC hCs bs,
   fun _ p hs => DiskSlice.seek_gs hs p⟩

section generic
variable {σ : Type} {fs0 : FsState} {sz : Nat} {C : Nat → List Nat → Prop} {S : Strm σ} {Inv : σ → Prop}
  (hS : StrmGS fs0 sz C S Inv)
include hS

theorem readExactLoop_gs : ∀ fuel s n acc, Inv s → GS fs0 sz C (readExactLoop S fuel s n acc) (fun r => Inv r.2) := by
  intro fuel
  induction fuel with
  | zero => intros; unfold readExactLoop; exact GS.fail _
  | succ k ih => intro s n acc hs; unfold readExactLoop; gs [hS.read]

theorem readExact_gs (s n) (hs : Inv s) : GS fs0 sz C (readExact S s n) (fun r => Inv r.2) :=
  readExactLoop_gs hS _ _ _ _ hs

theorem writeAllLoop_gs : ∀ fuel s bs, Inv s → GS fs0 sz C (writeAllLoop S fuel s bs) Inv := by
  intro fuel
  induction fuel with
  | zero => intros; unfold writeAllLoop; exact GS.fail _
  | succ k ih => intro s bs hs; unfold writeAllLoop; gs [hS.write]

theorem writeAll_gs (s bs) (hs : Inv s) : GS fs0 sz C (writeAll S s bs) Inv := writeAllLoop_gs hS _ _ _ hs

theorem readU8_gs (s) (hs : Inv s) : GS fs0 sz C (readU8 S s) (fun r => Inv r.2) := by
  unfold readU8; gs [readExact_gs hS]
theorem readU16_gs (s) (hs : Inv s) : GS fs0 sz C (readU16 S s) (fun r => Inv r.2) := by
  unfold readU16; gs [readExact_gs hS]
theorem readU32_gs (s) (hs : Inv s) : GS fs0 sz C (readU32 S s) (fun r => Inv r.2) := by
  unfold readU32; gs [readExact_gs hS]
theorem writeU8_gs (s v) (hs : Inv s) : GS fs0 sz C (writeU8 S s v) Inv := writeAll_gs hS _ _ hs
theorem writeU16_gs (s v) (hs : Inv s) : GS fs0 sz C (writeU16 S s v) Inv := writeAll_gs hS _ _ hs
theorem writeU32_gs (s v) (hs : Inv s) : GS fs0 sz C (writeU32 S s v) Inv := writeAll_gs hS _ _ hs

theorem readChunks_gs : ∀ ns s acc, Inv s → GS fs0 sz C (readChunks S s ns acc) (fun r => Inv r.2) := by
  intro ns
  induction ns with
  | nil => intro s acc hs; unfold readChunks; exact GS.pure hs
  | cons n rest ih => intro s acc hs; unfold readChunks; gs [readExact_gs hS]

theorem writeChunks_gs : ∀ cs s, Inv s → GS fs0 sz C (writeChunks S s cs) Inv := by
  intro cs
  induction cs with
  | nil => intro s hs; unfold writeChunks; exact GS.pure hs
  | cons c rest ih => intro s hs; unfold writeChunks; gs [writeAll_gs hS]

end generic

/-! ### `table.rs` -/

namespace Table
section generic
variable {σ : Type} {fs0 : FsState} {sz : Nat} {C : Nat → List Nat → Prop} {S : Strm σ} {Inv : σ → Prop}
  (hS : StrmGS fs0 sz C S Inv)
include hS

theorem getRaw_gs (ft s c) (hs : Inv s) : GS fs0 sz C (getRaw S ft s c) (fun r => Inv r.2) := by
  unfold getRaw; gs [hS.seek, readU16_gs hS, readU32_gs hS]

theorem get_gs (ft s c) (hs : Inv s) : GS fs0 sz C (get S ft s c) (fun r => Inv r.2) := by
  unfold get; gs [getRaw_gs hS]

theorem set_gs (ft s c v) (hs : Inv s) : GS fs0 sz C (set S ft s c v) Inv := by
  unfold set; gs [hS.seek, getRaw_gs hS, readU16_gs hS, writeU16_gs hS, writeU32_gs hS]

theorem findFree12Loop_gs : ∀ fuel s c endC packed, Inv s →
    GS fs0 sz C (findFree12Loop S fuel s c endC packed) (fun r => Inv r.2) := by
  intro fuel
  induction fuel with
  | zero => intros; unfold findFree12Loop; exact GS.fail _
  | succ k ih => intro s c endC packed hs; unfold findFree12Loop; gs [readU16_gs hS, readU8_gs hS]

theorem findFreeLoop_gs (ft) : ∀ fuel s c endC, Inv s →
    GS fs0 sz C (findFreeLoop S ft fuel s c endC) (fun r => Inv r.2) := by
  intro fuel
  induction fuel with
  | zero => intros; unfold findFreeLoop; exact GS.fail _
  | succ k ih =>
    intro s c endC hs; unfold findFreeLoop
    split
    · refine GS.bind (Q := fun r => Inv r.2) ?_ ?_
      · gs [readU16_gs hS, readU32_gs hS]
      · gs
    · exact GS.fail _

theorem findFree_gs (ft s start endC) (hs : Inv s) : GS fs0 sz C (findFree S ft s start endC) (fun r => Inv r.2) := by
  unfold findFree; gs [hS.seek, readU16_gs hS, findFree12Loop_gs hS, findFreeLoop_gs hS]

theorem allocCluster_gs (ft s prev hint total) (hs : Inv s) :
    GS fs0 sz C (allocCluster S ft s prev hint total) (fun r => Inv r.2) := by
  unfold allocCluster
  dsimp only
  refine GS.bind (Q := fun r => Inv r.2) ?_ ?_
  · refine GS.tryCatch (findFree_gs hS _ _ _ _ hs) (fun e => ?_)
    gs [findFree_gs hS]
  · rintro ⟨newC, s1⟩ hs1
    dsimp only
    refine GS.bind (set_gs hS _ _ _ _ hs1) (fun s2 hs2 => ?_)
    refine GS.bind (Q := Inv) ?_ (fun s3 hs3 => GS.pure hs3)
    split
    · exact set_gs hS _ _ _ _ hs2
    · exact GS.pure hs2

theorem CIter.next_gs (ft) (it : CIter σ) (hs : Inv it.fat) :
    GS fs0 sz C (CIter.next S ft it) (fun r => Inv r.2.fat) := by
  unfold CIter.next; gs [get_gs hS]

theorem CIter.freeLoop_gs (ft) : ∀ fuel (it : CIter σ) num, Inv it.fat →
    GS fs0 sz C (CIter.freeLoop S ft fuel it num) (fun r => Inv r.2.fat) := by
  intro fuel
  induction fuel with
  | zero => intros; unfold CIter.freeLoop; exact GS.fail _
  | succ k ih => intro it num hs; unfold CIter.freeLoop; gs [CIter.next_gs hS, set_gs hS]

theorem CIter.free_gs (ft fuel) (it : CIter σ) (hs : Inv it.fat) :
    GS fs0 sz C (CIter.free S ft fuel it) (fun r => Inv r.2.fat) := CIter.freeLoop_gs hS _ _ _ _ hs

theorem CIter.truncate_gs (ft fuel) (it : CIter σ) (hs : Inv it.fat) :
    GS fs0 sz C (CIter.truncate S ft fuel it) (fun r => Inv r.2.fat) := by
  unfold CIter.truncate; gs [CIter.next_gs hS, set_gs hS, CIter.free_gs hS]

theorem setRange_gs (ft v) : ∀ k s c, Inv s → GS fs0 sz C (setRange S ft v k s c) Inv := by
  intro k
  induction k with
  | zero => intro s c hs; unfold setRange; exact GS.pure hs
  | succ k ih => intro s c hs; unfold setRange; gs [set_gs hS]

theorem formatFat_gs (ft s media bytesPerFat total) (hs : Inv s) :
    GS fs0 sz C (formatFat S ft s media bytesPerFat total) Inv := by
  unfold formatFat
  refine GS.bind (Q := Inv) ?_ ?_
  · gs [writeU8_gs hS, writeU16_gs hS, writeU32_gs hS]
  · gs [setRange_gs hS]

end generic
end Table

end FatVerif
