import FatVerif.Proofs.LfnSpec
/-! Shape of the slots `LfnEntriesGenerator` produces, and the generator ∘ reader round trip. -/
namespace FatVerif
namespace Lfn
open LongNameBuilder

/-- `name.chunks(13)` element `j` -/
def chunk (u : List Nat) (j : Nat) : List Nat := (u.drop (13 * j)).take 13

theorem part_def (u : List Nat) (j : Nat) :
    part u j = if (chunk u j).length < 13 then chunk u j ++ 0 :: List.replicate (12 - (chunk u j).length) 0xFFFF
               else chunk u j := rfl

theorem chunk_length (u : List Nat) (j : Nat) : (chunk u j).length = min 13 (u.length - 13 * j) := by
  simp [chunk]

@[simp] theorem part_length (u : List Nat) (j : Nat) : (part u j).length = 13 := by
  rw [part_def]
  have := chunk_length u j
  split
  · simp; omega
  · omega

theorem part_lt (u : List Nat) (h : ∀ x ∈ u, x < 65536) (j : Nat) : ∀ x ∈ part u j, x < 65536 := by
  intro x hx
  have hc : ∀ y ∈ chunk u j, y < 65536 := fun y hy => h y (List.mem_of_mem_drop (List.mem_of_mem_take hy))
  rw [part_def] at hx
  split at hx
  · rcases List.mem_append.1 hx with h1 | h1
    · exact hc x h1
    · rcases List.mem_cons.1 h1 with h2 | h2
      · omega
      · rw [List.mem_replicate] at h2; omega
  · exact hc x hx

theorem flatMap_chunk (u : List Nat) : ∀ k, (List.range k).flatMap (chunk u) = u.take (13 * k) := by
  intro k
  induction k with
  | zero => simp
  | succ k ih =>
    rw [List.range_succ, List.flatMap_append, ih]
    simp only [List.flatMap_cons, List.flatMap_nil, List.append_nil, chunk]
    rw [show 13 * (k + 1) = 13 * k + 13 by omega, List.take_add]

theorem flatMap_congr' (f g : Nat → List Nat) : ∀ l : List Nat, (∀ j ∈ l, f j = g j) → l.flatMap f = l.flatMap g := by
  intro l
  induction l with
  | nil => intro _; rfl
  | cons a l ih =>
    intro h
    simp only [List.flatMap_cons]
    rw [h a (by simp), ih (fun j hj => h j (by simp [hj]))]

/-- the padding after the name in the last slot: nothing if the name fills it, else one 0 then 0xFFFF -/
def padTail (len : Nat) : List Nat :=
  if 13 * numParts len = len then [] else 0 :: List.replicate (13 * numParts len - len - 1) 0xFFFF

/-- cutting the padded units at the first NUL gives back a name that has no NUL unit -/
theorem cutAtNul_padded (u : List Nat) (h : ∀ x ∈ u, x ≠ 0) : cutAtNul (u ++ padTail u.length) = u := by
  unfold padTail
  split
  · rw [List.append_nil]; exact cutAtNul_of_nonzero u h
  · exact cutAtNul_append_nul u _ h

/-- all `13·n` units of the generated slots, in name order, are the name followed by the padding -/
theorem flatMap_part (u : List Nat) (h1 : 1 ≤ u.length) :
    (List.range (numParts u.length)).flatMap (part u) = u ++ padTail u.length := by
  have hn : 13 * (numParts u.length - 1) < u.length ∧ u.length ≤ 13 * numParts u.length := by
    unfold numParts; omega
  generalize hnn : numParts u.length = n at hn
  obtain ⟨m, rfl⟩ : ∃ m, n = m + 1 := ⟨n - 1, by omega⟩
  simp only [Nat.add_sub_cancel] at hn
  rw [List.range_succ, List.flatMap_append]
  have hfull : (List.range m).flatMap (part u) = (List.range m).flatMap (chunk u) := by
    apply flatMap_congr'
    intro j hj
    rw [List.mem_range] at hj
    rw [part_def]
    have := chunk_length u j
    rw [if_neg (by omega)]
  rw [hfull, flatMap_chunk]
  simp only [List.flatMap_cons, List.flatMap_nil, List.append_nil]
  have hlast : chunk u m = u.drop (13 * m) := by
    unfold chunk
    exact List.take_of_length_le (by simp; omega)
  rw [part_def, hlast]
  unfold padTail
  rw [hnn]
  have hdl : (u.drop (13 * m)).length = u.length - 13 * m := by simp
  split
  · rename_i hlt
    rw [if_neg (by omega), ← List.append_assoc, List.take_append_drop]
    congr 3
    omega
  · rw [if_pos (by omega), List.take_append_drop, List.append_nil]

/-! ### the generated slots as a run -/

theorem orderByte_mid (k n : Nat) (hk : k ≠ n) (h : k < 256) : orderByte k n = k := by
  simp [orderByte, hk]; omega

theorem orderByte_first (n : Nat) (h : n < 64) : orderByte n n = n + 64 := by
  simp only [orderByte, if_true, orLast]
  rw [if_neg (by omega)]; omega

theorem genFrom_length (u : List Nat) (c n : Nat) : ∀ k, (genFrom u c n k).length = k := by
  intro k; induction k with
  | zero => rfl
  | succ k ih => simp [genFrom, ih]

theorem genFrom_tail (u : List Nat) (c n : Nat) (hu : ∀ x ∈ u, x < 65536) (hn : n ≤ 20) :
    ∀ k, k < n → TailOk c (genFrom u c n k) k ∧
      tailUnits (genFrom u c n k) = (List.range k).flatMap (part u) ∧
      ∀ s ∈ genFrom u c n k, slotClass s = .lfn := by
  intro k
  induction k with
  | zero => intro _; simp [genFrom, TailOk, tailUnits]
  | succ k ih =>
    intro hk
    obtain ⟨i1, i2, i3⟩ := ih (by omega)
    have ho : orderByte (k + 1) n = k + 1 := orderByte_mid _ _ (by omega) (by omega)
    simp only [genFrom, ho]
    refine ⟨⟨by omega, by simp; omega, by simp; omega, by simp, by simpa using i1⟩, ?_, ?_⟩
    · simp only [tailUnits, i2, units_slotBytes _ _ _ (part_length u k) (part_lt u hu k)]
      rw [List.range_succ, List.flatMap_append]; simp
    · intro s hs
      rcases List.mem_cons.1 hs with rfl | hs
      · exact slotClass_slotBytes _ _ _ (by omega) (by omega)
      · exact i3 s hs

/-- C03.4 core: the generated slots are a complete run whose units are the name followed by the padding -/
theorem generate_complete (u : List Nat) (c : Nat) (h1 : 1 ≤ u.length) (h260 : u.length ≤ 260)
    (hu : ∀ x ∈ u, x < 65536) :
    CompleteRun c (lfnGenerate u c) ∧ runUnits (lfnGenerate u c) = u ++ padTail u.length ∧
      (∀ s ∈ lfnGenerate u c, slotClass s = .lfn) ∧ (lfnGenerate u c).length = numParts u.length := by
  have hn : 1 ≤ numParts u.length ∧ numParts u.length ≤ 20 := by unfold numParts; omega
  have hfm := flatMap_part u h1
  unfold lfnGenerate
  generalize numParts u.length = n at hn hfm
  obtain ⟨m, rfl⟩ : ∃ m, n = m + 1 := ⟨n - 1, by omega⟩
  obtain ⟨t1, t2, t3⟩ := genFrom_tail u c (m + 1) hu hn.2 m (by omega)
  have ho := orderByte_first (m + 1) (by omega)
  have hlen := genFrom_length u c (m + 1) m
  simp only [genFrom, ho]
  refine ⟨⟨_, _, rfl, by simp [hlen]; omega, by omega, by simp; omega, by simp, by rw [hlen]; exact t1⟩, ?_, ?_,
    by simp [hlen]⟩
  · simp only [runUnits, tailUnits, t2, units_slotBytes _ _ _ (part_length u m) (part_lt u hu m)]
    rw [← hfm, List.range_succ, List.flatMap_append]; simp
  · intro s hs
    rcases List.mem_cons.1 hs with rfl | hs
    · exact slotClass_slotBytes _ _ _ (by omega) (by omega)
    · exact t3 s hs

/-! ### reading a block of long-name slots -/

theorem readLoop_lfn_block (alloc sv : Bool) : ∀ (R rest : List (List Nat)) (idx bg : Nat) (b : LongNameBuilder),
    (∀ s ∈ R, slotClass s = .lfn) →
    readLoop alloc sv (R ++ rest) idx bg b = readLoop alloc sv rest (idx + R.length) bg (R.foldl (process alloc) b) := by
  intro R
  induction R with
  | nil => intros; rfl
  | cons s R ih =>
    intro rest idx bg b h
    have hs := h s (by simp)
    simp only [List.cons_append, List.foldl_cons, List.length_cons]
    rw [readLoop, hs]
    simp only
    rw [ih rest (idx + 1) bg _ (fun x hx => h x (by simp [hx]))]
    congr 1; omega

/-- a complete run directly before a short entry whose checksum it carries is handed out (both variants):
    the entry's long name is the run's units before the first `0x0000` — unless more than 255 units remain,
    then the entry has no long name -/
theorem read_complete_run (alloc sv : Bool) (R : List (List Nat)) (sfn : List Nat)
    (hR : CompleteRun (lfnChecksum (sfnName sfn)) R) (hl : ∀ s ∈ R, slotClass s = .lfn)
    (hsfn : slotClass sfn = .file) :
    readDirEntries alloc sv (R ++ [sfn]) = [⟨sfn, capName (cutAtNul (runUnits R)), 0, R.length + 1⟩] := by
  unfold readDirEntries
  rw [readLoop_lfn_block alloc sv R [sfn] 0 0 _ hl]
  rw [readLoop, hsfn]
  simp only [readLoop, Nat.zero_add]
  have := run_spec alloc (sfnName sfn) (new alloc) (Dead_new alloc) R.reverse 1 [] (by simp [TailOk]) (Nat.le_refl 1)
  simp only [List.foldl_nil, tailUnits, runB, List.foldr_reverse] at this
  have hc := specRun_complete _ R [] hR
  simp only [List.append_nil] at hc
  rw [hc] at this
  rw [this, outName]

end Lfn
end FatVerif
