import FatVerif.Proofs.DirWriteSim6
/-! Directory WRITES, part 7 (generic): the slot-deleting loop and `writeSlotsKeep` on a write family. -/
namespace FatVerif.DirSim
open FatVerif.FileSim DirEntryData

section generic
variable {Inv : Dev → Prop} {F G : Nat → DirStream} {N : Nat} {src room : Nat → Nat}

/-- one iteration of the slot-deleting loop: read slot `i`, mark it deleted, seek back, write it -/
theorem WFam.deleteStep (IO : InvOK Inv) (hg : SlotGeo N src) (W : WFam Inv F G N src room)
    (WG : WFam Inv G G N src room) (i : Nat) (hi : i < N) (d : Dev) (hinv : Inv d) :
    ∃ d1 d2 d',
      run (readSlot (F (32 * i))) d = (.ok (d.img.read (src (32 * i)) 32, F (32 * i + 32)), d1) ∧
      run ((F (32 * i + 32)).seek (.cur (-32))) d1 = (.ok (32 * i, F (32 * i)), d2) ∧
      run (FatVerif.writeSlot (F (32 * i)) (deserialize (d.img.read (src (32 * i)) 32)).setDeleted) d2 =
        (.ok (G (32 * (i + 1))), d') ∧
      VolStep d d' ∧ d'.fs.curDirty = true ∧ Inv d' ∧
      srcSlots d'.img src N = (srcSlots d.img src N).set i (DirSlots.markDeleted ((srcSlots d.img src N).getD i [])) ∧
      FrameOutG N src d d' := by
  have hroom : 32 * i + 32 ≤ 32 * N := by omega
  obtain ⟨d1, h1, hs1⟩ := (W.rd d hinv).readSlot d (SameVol.refl d) (32 * i) (by omega) hroom
  have hinv1 := IO.vol d d1 hinv hs1 (run_clock _ _ _ _ h1)
  obtain ⟨d2, h2, hs2⟩ := W.seekBack d1 hinv1 (32 * i) (by omega) hroom
  have hinv2 := IO.vol d1 d2 hinv1 hs2 (run_clock _ _ _ _ h2)
  have hraw_len : (d.img.read (src (32 * i)) 32).length = 32 := Img.read_length _ _ _
  have hraw_lt : ∀ b ∈ d.img.read (src (32 * i)) 32, b < 256 := Img.read_lt _ _ _
  have hser := serialize_setDeleted _ hraw_len hraw_lt
  obtain ⟨d3, h3, hw3, hinv3⟩ := W.writeSlot WG (32 * i) (by omega)
    (deserialize (d.img.read (src (32 * i)) 32)).setDeleted (by rw [hser, markDeleted_length]; exact hraw_len) d2 hinv2 hroom
  rw [hser] at hw3
  have hv12 := hs1.trans hs2
  have hwf := IO.wf d hinv
  have hwf2 : d2.img.WF := IO.wf d2 hinv2
  obtain ⟨hsl, hfr⟩ := srcSlots_put hg hw3 hwf2 hi (by rw [markDeleted_length]; exact hraw_len)
    (markDeleted_lt _ hraw_lt)
  have hne : DirSlots.markDeleted (d.img.read (src (32 * i)) 32) ≠ [] := by
    intro h0
    have := congrArg List.length h0
    rw [markDeleted_length, hraw_len] at this
    cases this
  have hget : (srcSlots d.img src N).getD i [] = d.img.read (src (32 * i)) 32 := by
    have := srcSlots_drop_getD d.img src N 0 i (by rw [List.drop_zero, srcSlots_length]; exact hi)
    simpa using this
  rw [show 32 * i + 32 = 32 * (i + 1) by omega] at h3
  refine ⟨d1, d2, d3, h1, h2, h3, (VolStep.of_sameVol hv12).trans (VolStep.of_devStep hw3.step), hw3.dirty hne, hinv3,
    ?_, ?_⟩
  · rw [hsl, hv12.img, hget]
  · intro q hq hn
    rw [hfr q hq hn, hv12.img]


/-- the slot-deleting loop, closed family -/
theorem WFam.deleteSlots_closed (IO : InvOK Inv) (hg : SlotGeo N src) (WG : WFam Inv G G N src room) :
    ∀ (k i : Nat) (d : Dev), Inv d → i + k ≤ N →
    ∃ d', run (deleteSlots k (G (32 * i))) d = (.ok (G (32 * (i + k))), d') ∧
      VolStep d d' ∧ (0 < k → d'.fs.curDirty = true) ∧ (d.fs.curDirty = true → d'.fs.curDirty = true) ∧ Inv d' ∧
      srcSlots d'.img src N = delK (srcSlots d.img src N) i k ∧ FrameOutG N src d d' := by
  intro k
  induction k with
  | zero =>
    intro i d hinv _
    exact ⟨d, rfl, VolStep.of_sameVol (SameVol.refl d), fun h => absurd h (by omega), id, hinv, rfl, FrameOutG.refl d⟩
  | succ k ih =>
    intro i d hinv hle
    obtain ⟨d1, d2, d3, h1, h2, h3, hs3, hd3, hinv3, hsl3, hfr3⟩ := WG.deleteStep IO hg WG i (by omega) d hinv
    obtain ⟨d4, h4, hs4, _, hk4, hinv4, hsl4, hfr4⟩ := ih (i + 1) d3 hinv3 (by omega)
    refine ⟨d4, ?_, hs3.trans hs4, fun _ => hk4 hd3, fun _ => hk4 hd3, hinv4, ?_, hfr3.trans hfr4⟩
    · unfold deleteSlots
      rw [run_bind_ok h1]
      simp only
      rw [run_bind_ok h2]
      simp only
      rw [run_bind_ok h3, h4, show i + 1 + k = i + (k + 1) by omega]
    · rw [hsl4, hsl3]; rfl


/-- **the slot-deleting loop, generic**: the first iteration leaves `F` -/
theorem WFam.deleteSlots (IO : InvOK Inv) (hg : SlotGeo N src) (W : WFam Inv F G N src room)
    (WG : WFam Inv G G N src room) (k i : Nat) (hk : 0 < k) (d : Dev) (hinv : Inv d) (hle : i + k ≤ N) :
    ∃ d', run (FatVerif.deleteSlots k (F (32 * i))) d = (.ok (G (32 * (i + k))), d') ∧
      VolStep d d' ∧ d'.fs.curDirty = true ∧ Inv d' ∧
      srcSlots d'.img src N = delK (srcSlots d.img src N) i k ∧ FrameOutG N src d d' := by
  obtain ⟨k', rfl⟩ : ∃ k', k = k' + 1 := ⟨k - 1, by omega⟩
  obtain ⟨d1, d2, d3, h1, h2, h3, hs3, hd3, hinv3, hsl3, hfr3⟩ := W.deleteStep IO hg WG i (by omega) d hinv
  obtain ⟨d4, h4, hs4, _, hk4, hinv4, hsl4, hfr4⟩ := WG.deleteSlots_closed IO hg k' (i + 1) d3 hinv3 (by omega)
  refine ⟨d4, ?_, hs3.trans hs4, hk4 hd3, hinv4, ?_, hfr3.trans hfr4⟩
  · unfold FatVerif.deleteSlots
    rw [run_bind_ok h1]
    simp only
    rw [run_bind_ok h2]
    simp only
    rw [run_bind_ok h3, h4, show i + 1 + k' = i + (k' + 1) by omega]
  · rw [hsl4, hsl3]; rfl

/-- `writeSlotsKeep`, closed family -/
theorem WFam.writeSlotsKeep_closed (IO : InvOK Inv) (hg : SlotGeo N src) (WG : WFam Inv G G N src room) :
    ∀ (es : List DirEntryData) (p : Nat) (d : Dev), Inv d →
    (∀ e ∈ es, e.serialize.length = 32 ∧ ∀ b ∈ e.serialize, b < 256) → p + es.length ≤ N →
    ∃ d', run (writeSlotsKeep es (G (32 * p))) d = (.ok (none, G (32 * (p + es.length))), d') ∧
      VolStep d d' ∧ (es ≠ [] → d'.fs.curDirty = true) ∧ (d.fs.curDirty = true → d'.fs.curDirty = true) ∧ Inv d' ∧
      srcSlots d'.img src N = putK (srcSlots d.img src N) p (es.map DirEntryData.serialize) ∧ FrameOutG N src d d' := by
  intro es
  induction es with
  | nil =>
    intro p d hinv _ _
    exact ⟨d, rfl, VolStep.of_sameVol (SameVol.refl d), fun h => absurd rfl h, id, hinv, rfl, FrameOutG.refl d⟩
  | cons e rest ih =>
    intro p d hinv hes hle
    simp only [List.length_cons] at hle
    obtain ⟨hl, hlt⟩ := hes e (List.mem_cons_self ..)
    obtain ⟨d1, h1, hw1, hinv1⟩ := WG.writeSlot WG (32 * p) (by omega) e hl d hinv (by omega)
    obtain ⟨hsl, hfr⟩ := srcSlots_put hg hw1 (IO.wf d hinv) (by omega) hl hlt
    obtain ⟨d2, h2, hs2, _, hk2, hinv2, hsl2, hfr2⟩ := ih (p + 1) d1 hinv1
      (fun e' he' => hes e' (List.mem_cons_of_mem _ he')) (by omega)
    have hne : e.serialize ≠ [] := by
      intro h0; rw [h0] at hl; cases hl
    refine ⟨d2, ?_, (VolStep.of_devStep hw1.step).trans hs2, fun _ => hk2 (hw1.dirty hne),
      fun hk => hk2 (hw1.keep hk), hinv2, ?_, hfr.trans hfr2⟩
    · unfold writeSlotsKeep
      have ha : run (Prog.attempt (FatVerif.writeSlot (G (32 * p)) e)) d = (.ok (.ok (G (32 * p + 32))), d1) := by
        rw [run_attempt, h1]
      rw [run_bind_ok ha]
      simp only
      rw [show 32 * p + 32 = 32 * (p + 1) by omega, h2, List.length_cons,
        show p + 1 + rest.length = p + (rest.length + 1) by omega]
    · rw [hsl2, hsl]
      simp only [List.map_cons, putK]

/-- **`writeSlotsKeep`, generic**, when all records fit: the first record leaves `F` -/
theorem WFam.writeSlotsKeep (IO : InvOK Inv) (hg : SlotGeo N src) (W : WFam Inv F G N src room)
    (WG : WFam Inv G G N src room) (es : List DirEntryData) (hes0 : es ≠ []) (p : Nat) (d : Dev) (hinv : Inv d)
    (hes : ∀ e ∈ es, e.serialize.length = 32 ∧ ∀ b ∈ e.serialize, b < 256) (hle : p + es.length ≤ N) :
    ∃ d', run (FatVerif.writeSlotsKeep es (F (32 * p))) d = (.ok (none, G (32 * (p + es.length))), d') ∧
      VolStep d d' ∧ d'.fs.curDirty = true ∧ Inv d' ∧
      srcSlots d'.img src N = putK (srcSlots d.img src N) p (es.map DirEntryData.serialize) ∧ FrameOutG N src d d' := by
  cases es with
  | nil => exact absurd rfl hes0
  | cons e rest =>
    simp only [List.length_cons] at hle
    obtain ⟨hl, hlt⟩ := hes e (List.mem_cons_self ..)
    obtain ⟨d1, h1, hw1, hinv1⟩ := W.writeSlot WG (32 * p) (by omega) e hl d hinv (by omega)
    obtain ⟨hsl, hfr⟩ := srcSlots_put hg hw1 (IO.wf d hinv) (by omega) hl hlt
    obtain ⟨d2, h2, hs2, _, hk2, hinv2, hsl2, hfr2⟩ := WG.writeSlotsKeep_closed IO hg rest (p + 1) d1 hinv1
      (fun e' he' => hes e' (List.mem_cons_of_mem _ he')) (by omega)
    have hne : e.serialize ≠ [] := by
      intro h0; rw [h0] at hl; cases hl
    refine ⟨d2, ?_, (VolStep.of_devStep hw1.step).trans hs2, hk2 (hw1.dirty hne), hinv2, ?_, hfr.trans hfr2⟩
    · unfold FatVerif.writeSlotsKeep
      have ha : run (Prog.attempt (FatVerif.writeSlot (F (32 * p)) e)) d = (.ok (.ok (G (32 * p + 32))), d1) := by
        rw [run_attempt, h1]
      rw [run_bind_ok ha]
      simp only
      rw [show 32 * p + 32 = 32 * (p + 1) by omega, h2, List.length_cons,
        show p + 1 + rest.length = p + (rest.length + 1) by omega]
    · rw [hsl2, hsl]
      simp only [List.map_cons, putK]

end generic

end FatVerif.DirSim
