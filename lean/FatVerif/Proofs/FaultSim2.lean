import FatVerif.Proofs.FaultSim1
/-! Faults and forward evaluation, part 2: `write_entry` on a writable directory (`WFam`/`WOps`) when the scheduled
    fault may fire: the slot writes up to the fault are those of the fault-free run; the roll-back
    `free_written_entries`, run after the fault on a device on which the directory is still writable, SUCCEEDS. -/
namespace FatVerif.DirSim
open FatVerif.FileSim DirEntryData

/-- a slot write hit by the fault leaves a device satisfying `Q` (`P`: the streams this is claimed for) -/
def FaultKeepsQ (Inv Q : Dev → Prop) (P : DirStream → Prop) : Prop :=
  ∀ (d1 d2 : Dev) (st : DirStream) (e : DirEntryData) (r : Except Err DirStream), P st → e.serialize.length = 32 →
    d1.fault = none → Inv d1.disarm → run (writeSlot st e) d1 = (r, d2) → d2.fault ≠ none →
    (∀ f, d2.fault = some f → f.inDrop = false) → Q d2

/-- a slot write hit by the fault leaves the directory writable -/
def FaultKeeps (Inv : Dev → Prop) (P : DirStream → Prop) : Prop := FaultKeepsQ Inv Inv P

theorem faultKeepsQ_true (Inv : Dev → Prop) (P : DirStream → Prop) : FaultKeepsQ Inv (fun _ => True) P :=
  fun _ _ _ _ _ _ _ _ _ _ _ _ => trivial

section generic
variable {Inv : Dev → Prop} {G : Nat → DirStream} {N : Nat} {src room : Nat → Nat}

/-- what `writeSlotsKeep es (X (32 q))` does on a device whose fault may still fire: all slots written as on the
    disarmed device, or the fault fired — inside a destructor, or at slot `j`: then the I/O error is carried, the stream
    is the one before slot `j`, and the directory is still writable -/
theorem writeSlotsKeep_armed (IO : InvOK Inv) (WG : WFam Inv G G N src room) {P : DirStream → Prop} {Q : Dev → Prop}
    (hFK : FaultKeepsQ Inv Q P) (hPG : ∀ q, q + 1 ≤ N → P (G (32 * q))) :
    ∀ (es : List DirEntryData) (X : Nat → DirStream), WFam Inv X G N src room → (∀ q, q + 1 ≤ N → P (X (32 * q))) →
    ∀ (q : Nat) (dq : Dev), dq.fault = none → Inv dq.disarm →
    (∀ e ∈ es, e.serialize.length = 32 ∧ ∀ b ∈ e.serialize, b < 256) → q + es.length ≤ N →
    ∀ r d', run (writeSlotsKeep es (X (32 * q))) dq = (r, d') →
    (d'.fault = none ∧ r = .ok (none, if es = [] then X (32 * q) else G (32 * (q + es.length))) ∧ Inv d'.disarm) ∨
    (∃ f, d'.fault = some f ∧ d'.failAt = none ∧ (f.inDrop = true ∨
      ∃ j, j < es.length ∧ r = .ok (some (.io f.k), if j = 0 then X (32 * q) else G (32 * (q + j))) ∧ Q d')) := by
  intro es
  induction es with
  | nil =>
    intro X _ _ q dq hf hinv _ _ r d' hr
    left
    have : run (Prog.pure ((none : Option Err), X (32 * q))) dq = (r, d') := hr
    simp only [run] at this
    cases this
    exact ⟨hf, rfl, hinv⟩
  | cons e rest ih =>
    intro X WX hPX q dq hf hinv hes hle r d' hr
    simp only [List.length_cons] at hle
    obtain ⟨hl, hlt⟩ := hes e (List.mem_cons_self ..)
    unfold writeSlotsKeep at hr
    rcases run_bind_cases hr with ⟨ra, d1, ha, hk⟩ | ⟨ea, ha, hre⟩
    · -- `attempt` returned a value
      rw [run_attempt] at ha
      rcases hw : run (writeSlot (X (32 * q)) e) dq with ⟨rw, d1'⟩
      rw [hw] at ha
      have hd1 : d1' = d1 := by
        cases rw with
        | ok a => simp only at ha; cases ha; rfl
        | error e' => simp only at ha; split at ha <;> cases ha <;> rfl
      subst hd1
      by_cases hf1 : d1'.fault = none
      · -- no fault so far: the slot write is the one of the disarmed device
        have hdis := run_disarm _ dq hw hf hf1
        obtain ⟨d1g, h1g, _, hinv1g⟩ := WX.writeSlot WG (32 * q) (by omega) e hl dq.disarm hinv (by omega)
        rw [hdis] at h1g
        cases h1g
        simp only at ha
        cases ha
        simp only at hk
        rcases ih G WG hPG (q + 1) d1' hf1 hinv1g (fun e' he' => hes e' (List.mem_cons_of_mem _ he')) (by omega)
          r d' (by rw [show 32 * (q + 1) = 32 * q + 32 by omega]; exact hk) with ⟨h1, h2, h3⟩ | ⟨f, h1, h2, h3⟩
        · left
          refine ⟨h1, ?_, h3⟩
          rw [h2]
          simp only [List.cons_ne_nil, if_false, List.length_cons]
          split
          · rename_i hnil; rw [hnil]; simp only [List.length_nil]
          · rw [show q + 1 + rest.length = q + (rest.length + 1) by omega]
        · right
          refine ⟨f, h1, h2, ?_⟩
          rcases h3 with h3 | ⟨j, hj, hr', hi'⟩
          · exact Or.inl h3
          · refine Or.inr ⟨j + 1, by simp only [List.length_cons]; omega, ?_, hi'⟩
            rw [hr']
            simp only [Nat.add_one_ne_zero, if_false]
            split
            · rename_i hj0; rw [hj0]
            · rw [show q + 1 + j = q + (j + 1) by omega]
      · -- the fault fired inside this slot write
        obtain ⟨f, hff⟩ := Option.ne_none_iff_exists'.mp hf1
        have hfa1 : d1'.failAt = none := by
          rcases run_any _ dq hf hw with h | ⟨h, _⟩
          · exact absurd h hf1
          · exact h
        have hkept := fault_kept _ d1' hk hfa1
        right
        refine ⟨f, by rw [hkept.1, hff], hkept.2, ?_⟩
        by_cases hdrop : f.inDrop = true
        · exact Or.inl hdrop
        · have hdrop' : f.inDrop = false := by simpa using hdrop
          right
          rcases ioSafe_propagates (writeSlot_ioSafe (X (32 * q)) e) dq hf _ _ hw with h0 | ⟨_, f', hf', him⟩
          · exact absurd h0 hf1
          · rw [hff] at hf'
            cases hf'
            have herr := him hdrop'
            cases rw with
            | ok a => simp [resErr] at herr
            | error e' =>
              simp only [resErr, Option.some.injEq] at herr
              subst herr
              simp only [Err.isFatal, Bool.false_eq_true, if_false] at ha
              cases ha
              simp only at hk
              have hk' : run (Prog.pure (some (Err.io f.k), X (32 * q))) d1' = (r, d') := hk
              simp only [run] at hk'
              cases hk'
              refine ⟨0, by simp, by simp, ?_⟩
              exact hFK dq _ _ e _ (hPX q (by omega)) hl hf hinv hw hf1
                (fun f' h' => by rw [hff] at h'; cases h'; exact hdrop')
    · -- `attempt` re-raised a fatal error: only possible when the fault fired inside a destructor
      subst hre
      rw [run_attempt] at ha
      rcases hw : run (writeSlot (X (32 * q)) e) dq with ⟨rw, d1'⟩
      rw [hw] at ha
      cases rw with
      | ok a => simp only at ha; cases ha
      | error e' =>
        simp only at ha
        split at ha
        · rename_i hfat
          cases ha
          by_cases hf1 : d'.fault = none
          · exfalso
            have hdis := run_disarm _ dq hw hf hf1
            obtain ⟨d1g, h1g, _, _⟩ := WX.writeSlot WG (32 * q) (by omega) e hl dq.disarm hinv (by omega)
            rw [hdis] at h1g
            cases h1g
          · obtain ⟨f, hff⟩ := Option.ne_none_iff_exists'.mp hf1
            right
            rcases ioSafe_propagates (writeSlot_ioSafe (X (32 * q)) e) dq hf _ _ hw with h0 | ⟨hfa, f', hf', him⟩
            · exact absurd h0 hf1
            · rw [hff] at hf'
              cases hf'
              refine ⟨f, hff, hfa, Or.inl ?_⟩
              by_cases hdrop : f.inDrop = true
              · exact hdrop
              · have herr := him (by simpa using hdrop)
                simp only [resErr, Option.some.injEq] at herr
                subst herr
                simp [Err.isFatal] at hfat
        · cases ha

/-- `seek(Start(t))` stays inside the family `G` -/
def SeekG (Inv : Dev → Prop) (G : Nat → DirStream) (N : Nat) : Prop :=
  ∀ d, Inv d → ∀ o t, o ≤ 32 * N → t ≤ 32 * N → ∃ d1, run ((G o).seek (.start t)) d = (.ok (t, G t), d1) ∧ SameVol d d1

theorem freeWrittenLoop_none (fuel : Nat) (st : DirStream) (pos : Nat) (d : Dev) :
    run (freeWrittenLoop fuel st pos pos) d = (.ok st, d) := by
  cases fuel with
  | zero => rfl
  | succ k =>
    unfold freeWrittenLoop
    rw [if_neg (Nat.lt_irrefl _)]
    rfl

/-- **the loop of `free_written_entries` on a writable directory**: `n` slots from `pos` on get the deleted mark -/
theorem freeWrittenLoop_ok (IO : InvOK Inv) (WG : WFam Inv G G N src room) (hS : SeekG Inv G N) :
    ∀ (n fuel o pos : Nat) (d : Dev), Inv d → n ≤ fuel → pos % 32 = 0 → pos + 32 * n ≤ 32 * N → o ≤ 32 * N →
    ∃ d' st', run (freeWrittenLoop fuel (G o) pos (pos + 32 * n)) d = (.ok st', d') ∧ Inv d' ∧ VolStep d d' ∧
      (∀ q, 0x42 ≤ q → (∀ i, i < n → q ≠ src (pos + 32 * i)) → d'.img.getByte q = d.img.getByte q) := by
  intro n
  induction n with
  | zero =>
    intro fuel o pos d hi _ _ _ _
    exact ⟨d, G o, by rw [Nat.mul_zero, Nat.add_zero]; exact freeWrittenLoop_none _ _ _ _, hi,
      VolStep.of_sameVol (SameVol.refl d), fun _ _ _ => rfl⟩
  | succ n ih =>
    intro fuel o pos d hi hfu hpos hend ho
    obtain ⟨k, rfl⟩ : ∃ k, fuel = k + 1 := ⟨fuel - 1, by omega⟩
    obtain ⟨d1, h1, hs1⟩ := hS d hi o pos ho (by omega)
    have hi1 := IO.vol d d1 hi hs1 (run_clock _ _ _ _ h1)
    have hr32 := (WG.rd d1 hi1).room_slot pos hpos (by omega)
    obtain ⟨d2, h2, hw2, hi2⟩ := WG.writeAll d1 hi1 pos [0xE5] (by simp) (by simp only [List.length_singleton]; omega)
      (by simp only [List.length_singleton]; omega)
    simp only [List.length_singleton] at h2
    obtain ⟨d3, st3, h3, hi3, hs3, hfr3⟩ := ih k (pos + 1) (pos + 32) d2 hi2 (by omega) (by omega) (by omega) (by omega)
    refine ⟨d3, st3, ?_, hi3, ((VolStep.of_sameVol hs1).trans (VolStep.of_devStep hw2.step)).trans hs3, ?_⟩
    · unfold freeWrittenLoop
      rw [if_pos (by omega), run_bind_ok h1]
      simp only
      rw [run_bind_ok h2]
      rw [show pos + 32 * (n + 1) = pos + 32 + 32 * n by omega]
      exact h3
    · intro q hq hne
      rw [hfr3 q hq (fun i hi' => by
        have := hne (i + 1) (by omega)
        rwa [show pos + 32 * (i + 1) = pos + 32 + 32 * i by omega] at this)]
      rw [hw2.bytes (IO.wf d1 hi1) q hq]
      unfold putBytes
      rw [if_neg (by
        simp only [List.length_singleton]
        have := hne 0 (by omega)
        rw [Nat.mul_zero, Nat.add_zero] at this
        omega), hs1.img]

/-- nothing was written: the roll-back only asks for the position -/
theorem freeWrittenEntries_zero (Y : DirStream) (pos : Nat) (d d1 : Dev)
    (h : run (Y.seek (.cur 0)) d = (.ok (pos, Y), d1)) : run (freeWrittenEntries Y pos) d = (.ok (), d1) := by
  unfold freeWrittenEntries
  rw [run_bind_ok h]
  simp only [Nat.sub_self]
  rw [run_bind_ok (freeWrittenLoop_none _ _ _ _)]
  rfl

/-- **`free_written_entries` succeeds** on a device on which the directory is writable, from the stream the failed
    `writeSlotsKeep` returned: `Y` positioned at slot `q + j`, the entry having started at slot `q` -/
theorem freeWrittenEntries_ok (IO : InvOK Inv) (WG : WFam Inv G G N src room) (hS : SeekG Inv G N)
    (Y : DirStream) (q j : Nat) (hY : j ≠ 0 → Y = G (32 * (q + j))) (hle : q + j ≤ N) (d : Dev) (hi : Inv d)
    (hcur : ∃ d1, run (Y.seek (.cur 0)) d = (.ok (32 * (q + j), Y), d1) ∧ SameVol d d1) :
    ∃ d', run (freeWrittenEntries Y (32 * q)) d = (.ok (), d') ∧ Inv d' ∧ VolStep d d' ∧
      (∀ p, 0x42 ≤ p → (∀ i, i < j → p ≠ src (32 * q + 32 * i)) → d'.img.getByte p = d.img.getByte p) := by
  obtain ⟨d1, h1, hs1⟩ := hcur
  have hi1 := IO.vol d d1 hi hs1 (run_clock _ _ _ _ h1)
  by_cases hj : j = 0
  · subst hj
    refine ⟨d1, ?_, hi1, VolStep.of_sameVol hs1, fun p _ _ => by rw [hs1.img]⟩
    unfold freeWrittenEntries
    rw [run_bind_ok h1]
    simp only [Nat.add_zero]
    rw [run_bind_ok (freeWrittenLoop_none _ _ _ _)]
    rfl
  · have hYG := hY hj
    obtain ⟨d2, st2, h2, hi2, hs2, hfr2⟩ := freeWrittenLoop_ok IO WG hS j ((32 * (q + j) - 32 * q) / 32 + 2) (32 * (q + j))
      (32 * q) d1 hi1 (by omega) (by omega) (by omega) (by omega)
    refine ⟨d2, ?_, hi2, (VolStep.of_sameVol hs1).trans hs2, fun p hp hne => by rw [hfr2 p hp hne, hs1.img]⟩
    unfold freeWrittenEntries
    rw [run_bind_ok h1]
    simp only
    rw [hYG, show 32 * (q + j) = 32 * q + 32 * j by omega] at *
    rw [run_bind_ok h2]
    rfl

end generic

end FatVerif.DirSim
