import FatVerif.Proofs.FatImgWrite
/-! `alloc_cluster`, `ClusterIterator::free`, `ClusterIterator::truncate` over the FAT slice of a device = the pure
    byte-level functions of `Model/FatAlgo.lean` on the window's bytes. -/
namespace FatVerif
open FatVerif.Fat

theorem run_tryCatch_ok {α} {p : Prog α} {h : Err → Prog α} {d : Dev} {a : α} {d' : Dev}
    (hr : run (Prog.tryCatch p h) d = (.ok a, d')) :
    run p d = (.ok a, d') ∨ ∃ e d1, run p d = (.error e, d1) ∧ run (h e) d1 = (.ok a, d') := by
  simp only [run] at hr
  rcases hq : run p d with ⟨rp, d1⟩
  rw [hq] at hr
  cases rp with
  | ok b => simp only at hr; cases hr; exact Or.inl rfl
  | error e =>
    simp only at hr
    split at hr
    · cases hr
    · exact Or.inr ⟨e, d1, rfl, hr⟩

/-- `Table.allocCluster` with the start of the first scan named as in `FatAlgo` -/
theorem allocCluster_unfold {σ} (S : Strm σ) (ft : FatType) (s : σ) (prev hint : Option Nat) (total : Nat) :
    Table.allocCluster S ft s prev hint total =
      Prog.bind (Prog.tryCatch (Table.findFree S ft s (allocStart hint (total + 2)) (total + 2)) (fun e =>
        match e with
        | .noSpace => if allocStart hint (total + 2) > 2 then Table.findFree S ft s 2 (allocStart hint (total + 2))
            else .fail .noSpace
        | e => .fail e)) (fun r =>
      Prog.bind (Table.set S ft r.2 r.1 .eoc) (fun s1 =>
      Prog.bind (match prev with
        | some n => Table.set S ft s1 n (.data r.1)
        | none => Prog.pure s1) (fun s2 => Prog.pure (r.1, s2)))) := by
  cases hint <;> rfl

section window
variable {s0 : DiskSlice}
local notation "F[" d "]" => fatBytes s0.beginOff s0.size (Dev.img d)

/-- the standing assumptions about the device: a well-formed page table, all FAT copies inside the device, the status
    byte before the FAT, a FAT copy shorter than 4 GiB -/
structure FatDev (s0 : DiskSlice) (d : Dev) : Prop where
  wf : d.img.WF
  mir : 0 < s0.mirrors
  dev : s0.beginOff + s0.mirrors * s0.size ≤ d.img.size
  stat : statusOff d.fs + 1 ≤ s0.beginOff
  small : s0.size < u32Lim

theorem FatDev.dev1 {d : Dev} (h : FatDev s0 d) : s0.beginOff + s0.size ≤ d.img.size := by
  have : s0.size ≤ s0.mirrors * s0.size := Nat.le_mul_of_pos_left _ h.mir
  have := h.dev
  omega

theorem FatDev.of_frame {d d' : Dev} (h : FatDev s0 d) (hf : FatFrame s0 d d') : FatDev s0 d' :=
  ⟨hf.wf, h.mir, by rw [hf.size]; exact h.dev, by rw [statusOff_geom hf.geom]; exact h.stat, h.small⟩

theorem FatDev.of_sameBytes {d d' : Dev} (h : FatDev s0 d) (hf : SameBytes d d') : FatDev s0 d' :=
  h.of_frame (FatFrame.of_sameBytes hf)

/-- **`alloc_cluster` at image level** -/
theorem allocCluster_img (ft : FatType) {s : DiskSlice} (hs : SliceInv s0 s) (prev hint : Option Nat) (total : Nat)
    (d : Dev) (hd : FatDev s0 d) (htot : total + 2 < u32Lim) {c : Nat} {s' : DiskSlice} {d' : Dev}
    (hr : run (Table.allocCluster DiskSlice.strm ft s prev hint total) d = (.ok (c, s'), d')) :
    Fat.allocCluster F[d] ft prev hint total = ⟨.ok c, F[d']⟩ ∧ SliceInv s0 s' ∧ FatFrame s0 d d' := by
  rw [allocCluster_unfold] at hr
  rcases run_bind_cases hr with ⟨⟨newC, s1⟩, d1, h1, h2⟩ | ⟨e, _, he⟩
  rotate_left
  · cases he
  have hfind : allocFind ft F[d] (allocStart hint (total + 2)) (total + 2) = .ok newC ∧ SliceInv s0 s1 ∧
      SameBytes d d1 := by
    unfold allocFind
    rcases run_tryCatch_ok h1 with h | ⟨e, dm, h3, h4⟩
    · obtain ⟨a, _, c'⟩ := findFree_img ft hs _ _ d hd.wf hd.dev1 hd.small h
      obtain ⟨a1, a2⟩ := a _ _ rfl
      rw [a1]; exact ⟨rfl, a2, c'⟩
    · obtain ⟨_, b, c'⟩ := findFree_img ft hs _ _ d hd.wf hd.dev1 hd.small h3
      cases e with
      | noSpace =>
        dsimp only at h4
        rw [b rfl]
        dsimp only
        by_cases hgt : allocStart hint (total + 2) > 2
        · rw [if_pos hgt] at h4
          rw [if_pos ⟨rfl, hgt⟩]
          have hdm := hd.of_sameBytes c'
          obtain ⟨a, _, c''⟩ := findFree_img ft hs _ _ dm hdm.wf hdm.dev1 hdm.small h4
          obtain ⟨a1, a2⟩ := a _ _ rfl
          rw [c'.bytes] at a1
          exact ⟨a1, a2, c'.trans c''⟩
        · rw [if_neg hgt] at h4; simp only [run] at h4; cases h4
      | _ => dsimp only at h4; simp only [run] at h4; cases h4
  obtain ⟨hf1, hi1, hb1⟩ := hfind
  have hd1 := hd.of_sameBytes hb1
  dsimp only at h2
  rcases run_bind_cases h2 with ⟨s2, d2, h3, h4⟩ | ⟨e, _, he⟩
  rotate_left
  · cases he
  obtain ⟨hset1, hi2, hfr1⟩ := set_img ft hi1 hd.mir newC .eoc d1 hd1.wf hd1.dev hd1.stat hd.small h3
  rw [hb1.bytes] at hset1
  have hd2 := hd1.of_frame hfr1
  rcases run_bind_cases h4 with ⟨s3, d3, h5, h6⟩ | ⟨e, _, he⟩
  rotate_left
  · cases he
  have h6' : run (Prog.pure (newC, s3)) d3 = (.ok (c, s'), d') := h6
  simp only [run] at h6'; cases h6'
  unfold Fat.allocCluster
  rw [if_neg (by omega), hf1]
  simp only [allocLink, hset1]
  cases prev with
  | none =>
    have h5' : run (Prog.pure s2) d2 = (.ok s', d') := h5
    simp only [run] at h5'; cases h5'
    exact ⟨rfl, hi2, (FatFrame.of_sameBytes hb1).trans hfr1⟩
  | some p =>
    dsimp only at h5
    obtain ⟨hset2, hi3, hfr2⟩ := set_img ft hi2 hd.mir p (.data c) d2 hd2.wf hd2.dev hd2.stat hd.small h5
    simp only [allocLinkPrev, hset2]
    exact ⟨trivial, hi3, ((FatFrame.of_sameBytes hb1).trans hfr1).trans hfr2⟩

end window

/-- the link stored in a decoded entry -/
def nextOf : FatValue → Option Nat
  | .data n => some n
  | _ => none

theorem iter_of_get {ft : FatType} {f : Array Nat} {c : Nat} {v : FatValue} (h : Fat.get ft f c = .ok v) :
    iterItem ft f ⟨some c, false⟩ = (nextOf v).map Except.ok ∧ iterAdvance ft f ⟨some c, false⟩ = ⟨nextOf v, false⟩ := by
  simp only [iterItem, iterAdvance, chainNext, h]
  cases v <;> exact ⟨rfl, rfl⟩

section window
variable {s0 : DiskSlice}
local notation "F[" d "]" => fatBytes s0.beginOff s0.size (Dev.img d)

/-- successful `ClusterIterator::next` on a live iterator: the decoded entry's link; nothing changes -/
theorem iterNext_img (ft : FatType) (it : Table.CIter DiskSlice) (cur : Nat) (hc : it.cluster = some cur)
    (he : it.err = false) (hs : SliceInv s0 it.fat) (d : Dev) (hd : FatDev s0 d)
    {r : Option (Except Err Nat)} {it' : Table.CIter DiskSlice} {d' : Dev}
    (hr : run (Table.CIter.next DiskSlice.strm ft it) d = (.ok (r, it'), d')) :
    ∃ v, Fat.get ft F[d] cur = .ok v ∧ r = (nextOf v).map Except.ok ∧ it'.cluster = nextOf v ∧ it'.err = false ∧
      SliceInv s0 it'.fat ∧ SameBytes d d' := by
  unfold Table.CIter.next at hr
  rw [he, hc] at hr
  simp only [Bool.false_eq_true, if_false] at hr
  rcases run_bind_cases hr with ⟨⟨v, fat⟩, d1, h1, h2⟩ | ⟨e, _, hee⟩
  · obtain ⟨hg, _, hi, hb⟩ := get_img ft hs cur d hd.wf hd.dev1 hd.small h1
    dsimp only at h2
    cases v with
    | data m =>
      have h2' : run (Prog.pure (_, _)) d1 = (.ok (r, it'), d') := h2
      simp only [run] at h2'; cases h2'
      exact ⟨_, hg, rfl, rfl, rfl, hi, hb⟩
    | free =>
      have h2' : run (Prog.pure (_, _)) d1 = (.ok (r, it'), d') := h2
      simp only [run] at h2'; cases h2'
      exact ⟨_, hg, rfl, rfl, rfl, hi, hb⟩
    | bad =>
      have h2' : run (Prog.pure (_, _)) d1 = (.ok (r, it'), d') := h2
      simp only [run] at h2'; cases h2'
      exact ⟨_, hg, rfl, rfl, rfl, hi, hb⟩
    | eoc =>
      have h2' : run (Prog.pure (_, _)) d1 = (.ok (r, it'), d') := h2
      simp only [run] at h2'; cases h2'
      exact ⟨_, hg, rfl, rfl, rfl, hi, hb⟩
  · cases hee

theorem freeLoop_img (ft : FatType) : ∀ (fuel : Nat) (it : Table.CIter DiskSlice) (num : Nat) (d : Dev) (n : Nat)
    (it' : Table.CIter DiskSlice) (d' : Dev), it.err = false → SliceInv s0 it.fat → FatDev s0 d →
    run (Table.CIter.freeLoop DiskSlice.strm ft fuel it num) d = (.ok (n, it'), d') →
    Fat.freeLoop ft fuel F[d] ⟨it.cluster, false⟩ num = ⟨.ok n, F[d']⟩ ∧ FatFrame s0 d d' := by
  intro fuel
  induction fuel with
  | zero =>
    intro it num d n it' d' _ _ _ hr
    unfold Table.CIter.freeLoop at hr; simp only [run] at hr; cases hr
  | succ k ih =>
    intro it num d n it' d' he hs hd hr
    unfold Table.CIter.freeLoop at hr
    cases hc : it.cluster with
    | none =>
      rw [hc] at hr
      have hr' : run (Prog.pure (num, it)) d = (.ok (n, it'), d') := hr
      simp only [run] at hr'; cases hr'
      exact ⟨by cases k <;> rfl, FatFrame.of_sameBytes (SameBytes.refl hd.wf)⟩
    | some cl =>
      rw [hc] at hr
      dsimp only at hr
      rcases run_bind_cases hr with ⟨⟨r, it1⟩, d1, h1, h2⟩ | ⟨e, _, hee⟩
      rotate_left
      · cases hee
      obtain ⟨v, hg, hrv, hc1, he1, hs1, hb1⟩ := iterNext_img ft it cl hc he hs d hd h1
      obtain ⟨hitem, hadv⟩ := iter_of_get hg
      have hd1 := hd.of_sameBytes hb1
      dsimp only at h2
      have h2' : run (do
          let fat ← Table.set DiskSlice.strm ft it1.fat cl .free
          Table.CIter.freeLoop DiskSlice.strm ft k { it1 with fat := fat } (num + 1)) d1 = (.ok (n, it'), d') := by
        rw [hrv] at h2
        cases hv : nextOf v with
        | none => rw [hv] at h2; exact h2
        | some m => rw [hv] at h2; exact h2
      rcases run_bind_cases h2' with ⟨fat2, d2, h3, h4⟩ | ⟨e, _, hee⟩
      rotate_left
      · cases hee
      obtain ⟨hset, hs2, hfr⟩ := set_img ft hs1 hd.mir cl .free d1 hd1.wf hd1.dev hd1.stat hd.small h3
      rw [hb1.bytes] at hset
      have hd2 := hd1.of_frame hfr
      obtain ⟨hrec, hfr2⟩ := ih { it1 with fat := fat2 } (num + 1) d2 n it' d' he1 hs2 hd2 h4
      refine ⟨?_, ((FatFrame.of_sameBytes hb1).trans hfr).trans hfr2⟩
      have hrec' : Fat.freeLoop ft k F[d2] ⟨nextOf v, false⟩ (num + 1) = ⟨.ok n, F[d']⟩ := by
        rw [← hc1]; exact hrec
      cases hv : nextOf v with
      | none => rw [hv] at hitem hadv hrec'; simp only [Fat.freeLoop, hitem, hadv, hset, Option.map]; exact hrec'
      | some m => rw [hv] at hitem hadv hrec'; simp only [Fat.freeLoop, hitem, hadv, hset, Option.map]; exact hrec'

/-- **`ClusterIterator::free` at image level** -/
theorem free_img (ft : FatType) (fuel : Nat) (s : DiskSlice) (c : Nat) (hs : SliceInv s0 s) (d : Dev)
    (hd : FatDev s0 d) {n : Nat} {it' : Table.CIter DiskSlice} {d' : Dev}
    (hr : run (Table.CIter.free DiskSlice.strm ft fuel ⟨s, some c, false⟩) d = (.ok (n, it'), d')) :
    Fat.freeChain ft F[d] c fuel = ⟨.ok n, F[d']⟩ ∧ FatFrame s0 d d' := by
  unfold Table.CIter.free at hr
  exact freeLoop_img ft fuel ⟨s, some c, false⟩ 0 d n it' d' rfl hs hd hr

/-- **`ClusterIterator::truncate` at image level** -/
theorem truncate_img (ft : FatType) (fuel : Nat) (s : DiskSlice) (c : Nat) (hs : SliceInv s0 s) (d : Dev)
    (hd : FatDev s0 d) {n : Nat} {it' : Table.CIter DiskSlice} {d' : Dev}
    (hr : run (Table.CIter.truncate DiskSlice.strm ft fuel ⟨s, some c, false⟩) d = (.ok (n, it'), d')) :
    Fat.truncateChain ft F[d] c fuel = ⟨.ok n, F[d']⟩ ∧ FatFrame s0 d d' := by
  unfold Table.CIter.truncate at hr
  dsimp only at hr
  rcases run_bind_cases hr with ⟨⟨r, it1⟩, d1, h1, h2⟩ | ⟨e, _, hee⟩
  rotate_left
  · cases hee
  obtain ⟨v, hg, hrv, hc1, he1, hs1, hb1⟩ := iterNext_img ft ⟨s, some c, false⟩ c rfl rfl hs d hd h1
  obtain ⟨hitem, hadv⟩ := iter_of_get hg
  have hd1 := hd.of_sameBytes hb1
  dsimp only at h2
  have h2' : run (do
      let fat ← Table.set DiskSlice.strm ft it1.fat c .eoc
      Table.CIter.free DiskSlice.strm ft fuel { it1 with fat := fat }) d1 = (.ok (n, it'), d') := by
    rw [hrv] at h2
    cases hv : nextOf v with
    | none => rw [hv] at h2; exact h2
    | some m => rw [hv] at h2; exact h2
  rcases run_bind_cases h2' with ⟨fat2, d2, h3, h4⟩ | ⟨e, _, hee⟩
  rotate_left
  · cases hee
  obtain ⟨hset, hs2, hfr⟩ := set_img ft hs1 hd.mir c .eoc d1 hd1.wf hd1.dev hd1.stat hd.small h3
  rw [hb1.bytes] at hset
  have hd2 := hd1.of_frame hfr
  unfold Table.CIter.free at h4
  obtain ⟨hrec, hfr2⟩ := freeLoop_img ft fuel { it1 with fat := fat2 } 0 d2 n it' d' he1 hs2 hd2 h4
  refine ⟨?_, ((FatFrame.of_sameBytes hb1).trans hfr).trans hfr2⟩
  have hrec' : Fat.freeLoop ft fuel F[d2] ⟨nextOf v, false⟩ 0 = ⟨.ok n, F[d']⟩ := by
    rw [← hc1]; exact hrec
  cases hv : nextOf v with
  | none =>
    rw [hv] at hitem hadv hrec'
    simp only [Fat.truncateChain, iterNew, hitem, hadv, hset, Option.map]; exact hrec'
  | some m =>
    rw [hv] at hitem hadv hrec'
    simp only [Fat.truncateChain, iterNew, hitem, hadv, hset, Option.map]; exact hrec'

end window
end FatVerif
