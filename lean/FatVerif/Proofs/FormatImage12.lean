import FatVerif.Proofs.FormatMount2
import FatVerif.Proofs.FormatImage11
/-! C06 image part, 12: FAT12. `Fat12::set` is a read-modify-write; with the log-to-image theorem
    (`run_img_eq_replay`) what it reads is known, so the bytes of a FAT12 table after `format_fat` can be computed —
    at the level of the IMAGE. -/
namespace FatVerif
open Format

/-! ### the image after a step whose write records are known -/

theorem img_after_seg {α} {p : Prog α} {d d' : Dev} {r : Except Err α} (hr : run p d = (r, d')) (hwf : d.img.WF)
    {L : List LogItem} (hs : Seg d d' L) :
    d'.img.WF ∧ ∀ q, d'.img.getByte q = replay d.img.getByte L q % 256 := by
  obtain ⟨h1, items, hl, hv⟩ := run_img_eq_replay p d r d' hr hwf
  refine ⟨h1, fun q => ?_⟩
  rw [hv q, replay_norm _ (Img.getByte_lt _) items q]
  have hf : items.filter LogItem.isWrite = L := by
    unfold Seg Dev.writesOf at hs
    rw [hl, List.filter_append] at hs
    exact List.append_cancel_right hs
  rw [← hf, replay_filter]

/-- a step without write records leaves the bytes alone -/
theorem img_after_quiet {α} {p : Prog α} {d d' : Dev} {r : Except Err α} (hr : run p d = (r, d')) (hwf : d.img.WF)
    (hs : d'.writesOf = d.writesOf) : d'.img.WF ∧ ∀ q, d'.img.getByte q = d.img.getByte q := by
  have := img_after_seg hr hwf (L := []) (by unfold Seg; simpa using hs)
  refine ⟨this.1, fun q => ?_⟩
  rw [this.2 q]; simp only [replay]; exact Nat.mod_eq_of_lt (Img.getByte_lt _ _)

/-! ### reading through a raw-device slice -/

theorem run_read_val (n : Nat) (d : Dev) {bs : List Nat} {d' : Dev} (hr : run (Prog.read n) d = (.ok bs, d')) :
    bs = d.img.read d.pos (min n (d.img.size - d.pos)) := by
  have hc : (d.count .r).pos = d.pos ∧ (d.count .r).img = d.img := by unfold Dev.count; simp
  simp only [Prog.read, run, stepOp, devCall, devCallCore] at hr
  split at hr
  · cases hr
  · cases hr
    rw [hc.1, hc.2]

theorem run_devStrm_seek_ok {n t : Nat} {u : Unit} {d d1 : Dev}
    (h : run (devStrm.seek () (.start n)) d = (.ok (t, u), d1)) : run (Prog.seekStart n) d = (.ok t, d1) := by
  have h' : run (Prog.bind (Prog.seekStart n) (fun m => Prog.pure (m, ()))) d = (.ok (t, u), d1) := h
  rcases run_bind_cases h' with ⟨m, d2, h1, h2⟩ | ⟨e, _, he⟩
  · simp only [run] at h2
    simp only [Prod.mk.injEq, Except.ok.injEq] at h2
    obtain ⟨⟨rfl, _⟩, rfl⟩ := h2
    exact h1
  · cases he

theorem run_devStrm_read_ok {n : Nat} {bs : List Nat} {u : Unit} {d d1 : Dev}
    (h : run (devStrm.read () n) d = (.ok (bs, u), d1)) : run (Prog.read n) d = (.ok bs, d1) := by
  have h' : run (Prog.bind (Prog.read n) (fun b => Prog.pure (b, ()))) d = (.ok (bs, u), d1) := h
  rcases run_bind_cases h' with ⟨m, d2, h1, h2⟩ | ⟨e, _, he⟩
  · simp only [run] at h2
    simp only [Prod.mk.injEq, Except.ok.injEq] at h2
    obtain ⟨⟨rfl, _⟩, rfl⟩ := h2
    exact h1
  · cases he

/-- a successful `DiskSlice::read` on the raw device returns the image bytes at the slice position -/
theorem slice_read_val (s : DiskSlice) (hv : s.viaFs = false) (n : Nat) (d : Dev) {bs : List Nat} {s' : DiskSlice}
    {d' : Dev} (hr : run (s.read n) d = (.ok (bs, s'), d')) :
    bs = d.img.read (s.beginOff + s.offset) (min (min n (s.size - s.offset)) (d.img.size - (s.beginOff + s.offset))) ∧
    s' = { s with offset := s.offset + bs.length } := by
  have hi : s.inner = devStrm := by unfold DiskSlice.inner; rw [hv]; rfl
  unfold DiskSlice.read at hr
  rw [hi] at hr
  rcases run_bind_cases hr with ⟨⟨t, u⟩, d1, h1, h2⟩ | ⟨e, _, he⟩
  · have h1' := run_devStrm_seek_ok h1
    have hp := (run_seekStart_spec _ d h1').2.2 _ rfl
    have himg := run_seekStart_img _ d h1'
    rcases run_bind_cases h2 with ⟨⟨b2, u2⟩, d2, h5, h6⟩ | ⟨e, _, he⟩
    · have h5' := run_devStrm_read_ok h5
      have h6' : run (Prog.pure (b2, ({ s with offset := s.offset + b2.length } : DiskSlice))) d2 = (.ok (bs, s'), d') := h6
      simp only [run, Prod.mk.injEq, Except.ok.injEq] at h6'
      obtain ⟨⟨rfl, rfl⟩, _⟩ := h6'
      have := run_read_val _ _ h5'
      rw [hp, himg] at this
      exact ⟨this, rfl⟩
    · cases he
  · cases he

/-- `read_u16_le` through a raw-device slice, two bytes available: the little-endian word of the image -/
theorem readU16_slice_val (s : DiskSlice) (hv : s.viaFs = false) (d : Dev) (hfit : s.offset + 2 ≤ s.size)
    (hdev : s.beginOff + s.offset + 2 ≤ d.img.size) {v : Nat} {s' : DiskSlice} {d' : Dev}
    (hr : run (readU16 DiskSlice.strm s) d = (.ok (v, s'), d')) :
    v = le16 (d.img.getByte (s.beginOff + s.offset)) (d.img.getByte (s.beginOff + s.offset + 1)) := by
  unfold readU16 readExact at hr
  rcases run_bind_cases hr with ⟨⟨bs, s1⟩, d1, h1, h2⟩ | ⟨e, _, he⟩
  · have h2' : run (Prog.pure (le16 (bs.getD 0 0) (bs.getD 1 0), s1)) d1 = (.ok (v, s'), d') := h2
    simp only [run, Prod.mk.injEq, Except.ok.injEq] at h2'
    obtain ⟨⟨rfl, _⟩, _⟩ := h2'
    -- the loop: one read of two bytes
    unfold readExactLoop at h1
    simp only [show ¬ (2 = 0) by omega, if_false] at h1
    rcases run_bind_cases h1 with ⟨⟨got, s2⟩, d2, h3, h4⟩ | ⟨e, _, he⟩
    · have h3' : run (s.read 2) d = (.ok (got, s2), d2) := h3
      obtain ⟨hgot, _⟩ := slice_read_val s hv 2 d h3'
      have hm : min (min 2 (s.size - s.offset)) (d.img.size - (s.beginOff + s.offset)) = 2 := by omega
      rw [hm] at hgot
      have hlen : got.length = 2 := by rw [hgot]; simp [Img.read]
      dsimp only at h4
      rw [if_neg (by omega), hlen] at h4
      unfold readExactLoop at h4
      simp only [Nat.sub_self, if_true] at h4
      have h4' : run (Prog.pure ([] ++ got, s2)) d2 = (.ok (bs, s1), d1) := h4
      simp only [run, Prod.mk.injEq, Except.ok.injEq, List.nil_append] at h4'
      obtain ⟨⟨rfl, _⟩, _⟩ := h4'
      rw [hgot, Img.read_getD _ _ _ 0 (by omega), Img.read_getD _ _ _ 1 (by omega), Nat.add_zero]
    · cases he
  · cases he

/-- the 16-bit word `Fat12::set` writes back -/
def packed12 (c old raw : Nat) : Nat :=
  if c % 2 = 0 then (old / 4096 * 4096) ||| (raw % 65536) else (old % 16) ||| ((raw % 65536) * 16 % 65536)

section fat12
variable {s0 : DiskSlice} (hv : s0.viaFs = false) (hmir : 0 < s0.mirrors)
include hv hmir

/-- a successful `Fat12::set`: two bytes at `c + c/2`, computed from the word the IMAGE holds there (copy 0) -/
theorem set12_exact {s : DiskSlice} (hs : SliceInv s0 s) (c : Nat) (v : FatValue) (d : Dev)
    (hdev : s0.beginOff + s0.mirrors * s0.size ≤ d.img.size) {s' : DiskSlice} {d' : Dev}
    (hr : run (Table.set DiskSlice.strm .fat12 s c v) d = (.ok s', d')) :
    c + c / 2 + 2 ≤ s0.size ∧ SliceInv s0 s' ∧
    Seg d d' (mwItems s0 (c + c / 2) (bytesLe16 (packed12 c
      (le16 (d.img.getByte (s0.beginOff + (c + c / 2))) (d.img.getByte (s0.beginOff + (c + c / 2) + 1)))
      (Table.rawOfValue .fat12 v)))) := by
  have hS := slice_strm_gs s0 d.fs d.img.size hdev
  have hq := DiskSlice.strm_quiet
  unfold Table.set at hr
  dsimp only at hr
  rcases run_bind_cases hr with ⟨⟨t, s1⟩, d1, h1, h2⟩ | ⟨e, _, he⟩
  · have h1' : run (s.seek (.start (c + c / 2))) d = (.ok (t, s1), d1) := h1
    obtain ⟨hd1, hsk⟩ := run_slice_seek s _ d h1'
    obtain ⟨hs1eq, _⟩ := hsk _ _ rfl
    have htrel : t = c + c / 2 := by
      rw [hd1] at h1'
      unfold DiskSlice.seek at h1'
      dsimp only at h1'
      split at h1'
      · simp only [run] at h1'; cases h1'
      · have h1'' : run (Prog.pure (c + c / 2, ({ s with offset := c + c / 2 } : DiskSlice))) d = (.ok (t, s1), d) := h1'
        simp only [run, Prod.mk.injEq, Except.ok.injEq] at h1''
        exact h1''.1.1.symm
    have hs1 : SliceInv s0 s1 := ((DiskSlice.seek_gs (fs0 := d.fs) (sz := d.img.size) (C := fun _ _ => True) hs _).out
      d _ _ (SameGeom.refl _) rfl h1').2.2 _ rfl
    rw [hd1] at h2
    dsimp only at h2
    rcases run_bind_cases h2 with ⟨⟨old, s2⟩, d2, h3, h4⟩ | ⟨e, _, he⟩
    · have hqr := readU16_quiet DiskSlice.strm hq s1
      have hsw := noWriteOps_sound hqr.noWriteOps d h3
      have hs2 : SliceInv s0 s2 := ((readU16_gs hS s1 hs1).out d _ _ (SameGeom.refl _) rfl h3).2.2 _ rfl
      dsimp only at h4
      have hd2 : d2.img.size = d.img.size := run_img_size _ _ _ _ h3
      obtain ⟨hfit, hs', hseg⟩ := slice_seek_writeAll_exact hs2 hv hmir (c + c / 2) (bytesLe16 _) (by simp [bytesLe16]) d2
        (by rw [hd2]; exact hdev) _ (fun _ _ => rfl) h4
      have hfit' : c + c / 2 + 2 ≤ s0.size := by simpa [bytesLe16] using hfit
      -- what was read
      have hoff1 : s1.offset = c + c / 2 := by rw [hs1eq, htrel]
      have hmirr : (0 + 1) * s0.size ≤ s0.mirrors * s0.size := Nat.mul_le_mul_right _ hmir
      have hold := readU16_slice_val s1 (by rw [hs1.viaFs]; exact hv) d
        (by rw [hoff1, hs1.size]; exact hfit') (by rw [hoff1, hs1.beginOff]; omega) h3
      rw [hoff1, hs1.beginOff] at hold
      refine ⟨hfit', hs', ?_⟩
      unfold Seg at hseg ⊢
      rw [hseg, hsw.2, hold]
      rfl
    · cases he
  · cases he

end fat12

end FatVerif
