import FatVerif.Proofs.FormatNoPanic
/-! Forward direction: from a layout to the result of `format_boot_sector` + `validate`. -/
namespace FatVerif.Format

theorem isPow2_bps : ∀ b ∈ [512, 1024, 2048, 4096], isPow2 b = true := by decide +kernel
theorem isPow2_spc : ∀ s ∈ [1, 2, 4, 8, 16, 32, 64, 128], isPow2 s = true := by decide +kernel

section
variable (o : FormatOpts) (t spf spc : Nat) (ft : FatType)

theorem bpbOf_isFat32 (hspf1 : 1 ≤ spf) : (bpbOf o t ft spf spc).isFat32 = decide (ft = .fat32) := by
  cases ft <;> simp [bpbOf, mkBpb, FBpb.isFat32] <;> omega

theorem v_bps (hbps : o.bps ∈ [512, 1024, 2048, 4096]) : validateBytesPerSector (bpbOf o t ft spf spc) = .ok () := by
  have e : (bpbOf o t ft spf spc).bps = o.bps := rfl
  unfold validateBytesPerSector
  rw [e, isPow2_bps _ hbps]
  simp only [List.mem_cons, List.mem_nil_iff, or_false] at hbps
  simp only [Bool.not_true, Bool.false_eq_true, if_false]
  rw [if_neg (by omega)]

theorem v_spc (hspc : spc ∈ [1, 2, 4, 8, 16, 32, 64, 128]) :
    validateSectorsPerCluster (bpbOf o t ft spf spc) = .ok () := by
  have e : (bpbOf o t ft spf spc).spc = spc := rfl
  unfold validateSectorsPerCluster
  rw [e, isPow2_spc _ hspc]; rfl

theorem v_reserved (hspf1 : 1 ≤ spf) : validateReservedSectors (bpbOf o t ft spf spc) = .ok () := by
  unfold validateReservedSectors
  rw [bpbOf_isFat32 o t spf spc ft hspf1]
  cases ft <;> simp [bpbOf, mkBpb, reservedFor]

theorem v_fats (hfats : o.fats = 1 ∨ o.fats = 2) : validateFats (bpbOf o t ft spf spc) = .ok () := by
  have e : (bpbOf o t ft spf spc).fats = o.fats := rfl
  unfold validateFats
  rw [e, if_neg (by omega)]

theorem v_root (hspf1 : 1 ≤ spf) (hroot : ft ≠ .fat32 → o.rootEntries ≠ 0) :
    validateRootEntries (bpbOf o t ft spf spc) = .ok () := by
  unfold validateRootEntries
  rw [bpbOf_isFat32 o t spf spc ft hspf1]
  cases ft <;> simp [bpbOf, mkBpb] <;> exact hroot (by simp)

theorem v_spf (hspf1 : 1 ≤ spf) : validateSectorsPerFat (bpbOf o t ft spf spc) = .ok () := by
  unfold validateSectorsPerFat
  rw [bpbOf_isFat32 o t spf spc ft hspf1]
  cases ft <;> simp [bpbOf, mkBpb] <;> omega

theorem v_total (hspf1 : 1 ≤ spf) (hb : 0 < o.bps) (hf32 : o.fats * spf < 4294967296)
    (hfit : reservedFor ft + o.fats * spf + determineRootDirSectors o.rootEntries o.bps ft < t)
    (ht : t < 4294967296) : validateTotalSectors (bpbOf o t ft spf spc) = .ok () := by
  have e16 : (bpbOf o t ft spf spc).totalSectors16 = if ft = .fat32 then 0 else if t ≤ 65535 then t else 0 := rfl
  have e32 : (bpbOf o t ft spf spc).totalSectors32 =
      if (if ft = .fat32 then 0 else if t ≤ 65535 then t else 0) = 0 then t else 0 := rfl
  have ht0 : t ≠ 0 := by omega
  have A : ¬ ((bpbOf o t ft spf spc).isFat32 = true ∧ (bpbOf o t ft spf spc).totalSectors16 ≠ 0) := by
    rw [bpbOf_isFat32 o t spf spc ft hspf1, e16]
    rintro ⟨h1, h2⟩
    simp only [decide_eq_true_eq] at h1
    rw [if_pos h1] at h2; exact h2 rfl
  have B : ¬ ((bpbOf o t ft spf spc).totalSectors16 = 0 ∧ (bpbOf o t ft spf spc).totalSectors32 = 0) := by
    rw [e16, e32]
    rintro ⟨h1, h2⟩
    rw [if_pos h1] at h2; exact ht0 h2
  have C : ¬ ((bpbOf o t ft spf spc).totalSectors16 ≠ 0 ∧ (bpbOf o t ft spf spc).totalSectors32 ≠ 0 ∧
      (bpbOf o t ft spf spc).totalSectors16 ≠ (bpbOf o t ft spf spc).totalSectors32) := by
    rw [e16, e32]
    rintro ⟨h1, h2, _⟩
    rw [if_neg h1] at h2; exact h2 rfl
  have e1 : (bpbOf o t ft spf spc).fats = o.fats := rfl
  have e2 : (bpbOf o t ft spf spc).reserved = reservedFor ft := rfl
  unfold validateTotalSectors
  rw [if_neg A, if_neg B, if_neg C, bpbOf_sectorsPerFat, bpbOf_rootDirSectors _ _ _ _ _ hb, e1, e2,
    if_neg (by omega), bpbOf_firstDataSector o t ft spf spc hb hf32 (by omega), ok_bind,
    bpbOf_totalSectors, if_neg (by omega)]

theorem v_clusters (hspf1 : 1 ≤ spf) (hb : 0 < o.bps) (hf32 : o.fats * spf < 4294967296)
    (hfit : reservedFor ft + o.fats * spf + determineRootDirSectors o.rootEntries o.bps ft < t)
    (ht : t < 4294967296) (hs : spc ≠ 0)
    (hfrom : ft = FatType.fromClusters
      ((t - (reservedFor ft + o.fats * spf + determineRootDirSectors o.rootEntries o.bps ft)) / spc))
    (hmax : (t - (reservedFor ft + o.fats * spf + determineRootDirSectors o.rootEntries o.bps ft)) / spc ≤ maxClusters ft) :
    validateTotalClusters (bpbOf o t ft spf spc) = .ok () := by
  unfold validateTotalClusters
  rw [bpbOf_totalClusters o t ft spf spc hb hf32 hfit ht hs, ok_bind, bpbOf_isFat32 o t spf spc ft hspf1, ← hfrom]
  rw [if_neg (by cases ft <;> simp)]
  have e2 : ¬ (ft = .fat32 ∧ 268435444 <
      (t - (reservedFor ft + o.fats * spf + determineRootDirSectors o.rootEntries o.bps ft)) / spc) := by
    rintro ⟨rfl, h⟩
    simp only [maxClusters] at hmax
    omega
  rw [if_neg e2]
  have e3 : ¬ (decide (ft = .fat32) = true ∧ ((bpbOf o t ft spf spc).rootCluster < 2 ∨
      (t - (reservedFor ft + o.fats * spf + determineRootDirSectors o.rootEntries o.bps ft)) / spc ≤
        (bpbOf o t ft spf spc).rootCluster - 2)) := by
    rintro ⟨h32, h⟩
    simp only [decide_eq_true_eq] at h32
    subst h32
    have er : (bpbOf o t .fat32 spf spc).rootCluster = 2 := rfl
    rw [er] at h
    have : 65525 ≤ (t - (reservedFor .fat32 + o.fats * spf + determineRootDirSectors o.rootEntries o.bps .fat32)) / spc := by
      generalize (t - (reservedFor .fat32 + o.fats * spf + determineRootDirSectors o.rootEntries o.bps .fat32)) / spc = cl at hfrom
      unfold FatType.fromClusters at hfrom
      repeat' split at hfrom
      all_goals first | omega | cases hfrom
    omega
  rw [if_neg e3]

/-- `validate` on the assembled BPB: everything passes except, possibly, the overflowing FAT-capacity product -/
theorem validateBpb_bpbOf
    (hbps : o.bps ∈ [512, 1024, 2048, 4096]) (hspc : spc ∈ [1, 2, 4, 8, 16, 32, 64, 128])
    (hfats : o.fats = 1 ∨ o.fats = 2) (hroot : ft ≠ .fat32 → o.rootEntries ≠ 0)
    (hspf1 : 1 ≤ spf) (hf32 : o.fats * spf < 4294967296)
    (hfit : reservedFor ft + o.fats * spf + determineRootDirSectors o.rootEntries o.bps ft < t)
    (ht : t < 4294967296)
    (hfrom : ft = FatType.fromClusters
      ((t - (reservedFor ft + o.fats * spf + determineRootDirSectors o.rootEntries o.bps ft)) / spc))
    (hmax : (t - (reservedFor ft + o.fats * spf + determineRootDirSectors o.rootEntries o.bps ft)) / spc ≤ maxClusters ft) :
    validateBpb (bpbOf o t ft spf spc) = .ok () := by
  have hb512 : 512 ≤ o.bps := by
    simp only [List.mem_cons, List.mem_nil_iff, or_false] at hbps; omega
  have hs0 : spc ≠ 0 := by
    simp only [List.mem_cons, List.mem_nil_iff, or_false] at hspc; omega
  unfold validateBpb
  have e : (bpbOf o t ft spf spc).fsVersion = 0 := rfl
  rw [if_neg (by rw [e]; simp), v_bps o t spf spc ft hbps, ok_bind, v_spc o t spf spc ft hspc, ok_bind,
    v_reserved o t spf spc ft hspf1, ok_bind, v_fats o t spf spc ft hfats, ok_bind,
    v_root o t spf spc ft hspf1 hroot, ok_bind, v_total o t spf spc ft hspf1 (by omega) hf32 hfit ht, ok_bind,
    v_spf o t spf spc ft hspf1, ok_bind,
    v_clusters o t spf spc ft hspf1 (by omega) hf32 hfit ht hs0 hfrom hmax]

end

theorem bootOf_bpb (o : FormatOpts) (t : Nat) (ft : FatType) (spf spc : Nat) :
    (bootOf o t ft spf spc).bpb = bpbOf o t ft spf spc := rfl

/-- from the layout to the final answer: with a sector size `validate` accepts, a non-empty root request for
    FAT12/16 and a FAT that fits `u16` for FAT12/16, the result is the assembled boot sector -/
theorem formatChecked_of_layout {o : FormatOpts} {t : Nat} {L : FsLayout}
    (hacc : Accepted o) (ht : t < 4294967296) (hbps : o.bps ∈ [512, 1024, 2048, 4096])
    (hL : determineFsLayout o t = .ok L) (hroot : L.fatType ≠ .fat32 → o.rootEntries ≠ 0)
    (h16 : L.fatType ≠ .fat32 → L.spf ≤ 65535) :
    formatChecked o t = .ok (bootOf o t L.fatType L.spf L.spc, L.fatType) := by
  obtain ⟨c, _, hspc, _, hLeq, hns, hfacts, hfrom, hmax⟩ := determineFsLayout_ok_facts hacc ht hL
  have hspfeq : L.spf = spfOf t o.bps (c / o.bps) L.fatType.bits (reservedFor L.fatType)
      (determineRootDirSectors o.rootEntries o.bps L.fatType) o.fats := by rw [hLeq]
  have hspceq : L.spc = c / o.bps := by rw [hLeq]
  unfold LayoutFacts at hfacts
  rw [← hspfeq, ← hspceq] at hfacts
  rw [← hspceq] at hfrom hmax hspc
  obtain ⟨hspf1, _, hfit, hf32, hcleq⟩ := hfacts
  rw [hcleq] at hfrom hmax
  have hb0 : 0 < o.bps := by
    simp only [List.mem_cons, List.mem_nil_iff, or_false] at hbps; omega
  have hs0 : L.spc ≠ 0 := by
    simp only [List.mem_cons, List.mem_nil_iff, or_false] at hspc; omega
  have hs16 : spf16Of L = .ok (if L.fatType = .fat32 then 0 else L.spf) := by
    unfold spf16Of
    split
    · rfl
    · rename_i hne; rw [if_pos (h16 hne)]
  obtain ⟨hbeq, _⟩ := layout_bpb_totalClusters hacc ht hL hs16
  have hfb : formatBootSector o t = .ok (bootOf o t L.fatType L.spf L.spc, L.fatType) := by
    unfold formatBootSector formatBpb
    rw [hL, ok_bind, hs16, ok_bind]
    unfold checkBpbType
    rw [hbeq, bpbOf_totalClusters o t L.fatType L.spf L.spc hb0 hf32 hfit ht hs0, ok_bind, ← hfrom,
      if_neg (by simp), ok_bind]
    rfl
  unfold formatChecked
  rw [hfb, ok_bind]
  simp only
  unfold validateBoot
  have esig : (bootOf o t L.fatType L.spf L.spc).bootSig = [0x55, 0xAA] := rfl
  rw [if_neg (by rw [esig]; simp), bootOf_bpb,
    validateBpb_bpbOf o t L.spf L.spc L.fatType hbps hspc hacc.fats hroot hspf1 hf32 hfit ht hfrom hmax]

end FatVerif.Format
