import FatVerif.Proofs.SlotTreeCreate
/-!
# Slot trees: auxiliary facts for `rename`

* path comparison (`prefixS`/`samePathS` = the specification's `isPrefixOf`/same directory), navigation depends on
  names only through their case folding;
* two updates at the same path compose; the specification's erase and insert at different paths commute (`spec_comm`);
* the short slot of the renamed entry (`renamedSfn`): file class, same kind, raw name = the new alias;
* the frame lemma: writing an entry in the destination directory does not disturb the resolution of the source handle.
-/
namespace FatVerif
namespace SlotTree
open Lfn DirSlots DirAlias

variable (u : Char → List Char)

/-! ## path comparison -/

theorem isPrefixOf_eq : ∀ (a b : List String), Spec.isPrefixOf (cfgOf u) a b = prefixS (upOf u) a b
  | [], _ => by simp [Spec.isPrefixOf, prefixS]
  | _ :: _, [] => by simp [Spec.isPrefixOf, prefixS]
  | a :: as, b :: bs => by simp only [Spec.isPrefixOf, prefixS, same_eq, isPrefixOf_eq as bs]

theorem prefixS_length {up : Char → List Char} : ∀ (a b : List String), prefixS up a b = true → a.length ≤ b.length
  | [], _, _ => by simp
  | _ :: _, [], h => by simp [prefixS] at h
  | a :: as, b :: bs, h => by
    simp only [prefixS, Bool.and_eq_true] at h
    have := prefixS_length as bs h.2
    simp only [List.length_cons]; omega

theorem samePathS_cons {up : Char → List Char} (a b : String) (as bs : List String) :
    samePathS up (a :: as) (b :: bs) = (sameName up a b && samePathS up as bs) := by
  unfold samePathS
  simp only [List.length_cons, prefixS]
  have : (as.length + 1 == bs.length + 1) = (as.length == bs.length) := by simp
  rw [this, Bool.and_left_comm]

theorem samePathS_nil_cons {up : Char → List Char} (b : String) (bs : List String) :
    samePathS up [] (b :: bs) = false := by simp [samePathS]

theorem samePathS_cons_nil {up : Char → List Char} (a : String) (as : List String) :
    samePathS up (a :: as) [] = false := by simp [samePathS]

theorem lookupS_congr {up : Char → List Char} (s : List (List Nat)) (ch : List (LfnEntry × Node)) {q q' : String}
    (h : sameName up q q' = true) : lookupS up s ch q = lookupS up s ch q' := by
  unfold lookupS
  rw [findEntry_congr up s ((sameName_iff up q q').1 h)]

theorem getAtS_congr {up : Char → List Char} : ∀ (a b : List String), samePathS up a b = true →
    ∀ t, getAtS up t a = getAtS up t b
  | [], [], _, _ => rfl
  | [], _ :: _, h, _ => by rw [samePathS_nil_cons] at h; cases h
  | _ :: _, [], h, _ => by rw [samePathS_cons_nil] at h; cases h
  | a :: as, b :: bs, h, t => by
    rw [samePathS_cons, Bool.and_eq_true] at h
    cases t with
    | file c => rfl
    | dir s ch =>
      simp only [getAtS]
      rw [lookupS_congr s ch h.1]
      cases lookupS up s ch b with
      | none => rfl
      | some x => exact getAtS_congr as bs h.2 x.2

theorem updS_congr {up : Char → List Char} (f : Node → Node) : ∀ (a b : List String), samePathS up a b = true →
    ∀ t, updS up f a t = updS up f b t
  | [], [], _, _ => rfl
  | [], _ :: _, h, _ => by rw [samePathS_nil_cons] at h; cases h
  | _ :: _, [], h, _ => by rw [samePathS_cons_nil] at h; cases h
  | a :: as, b :: bs, h, t => by
    rw [samePathS_cons, Bool.and_eq_true] at h
    cases t with
    | file c => rfl
    | dir s ch =>
      simp only [updS]
      rw [findEntry_congr up s ((sameName_iff up a b).1 h.1)]
      cases findEntry up s b.toList with
      | none => rfl
      | some e =>
        simp only
        congr 1
        apply List.map_congr_left
        intro x _
        rw [updS_congr f as bs h.2 x.2]

theorem updS_comp {up : Char → List Char} (f g : Node → Node) : ∀ (p : List String) (t : Node),
    updS up g p (updS up f p t) = updS up (g ∘ f) p t
  | [], _ => rfl
  | q :: r, .file c => rfl
  | q :: r, .dir s ch => by
    simp only [updS]
    cases hf : findEntry up s q.toList with
    | none => simp only [updS, hf]
    | some e =>
      simp only [updS, hf, List.map_map]
      congr 1
      apply List.map_congr_left
      intro x _
      simp only [Function.comp]
      by_cases hk : x.1 = e
      · simp only [hk, beq_self_eq_true, if_true]
        rw [updS_comp f g r x.2]
      · have hk' : (x.1 == e) = false := by simpa using hk
        simp only [hk', Bool.false_eq_true, if_false]

/-! ## the specification's `updateAt` -/

theorem same_trans_right (a b c : String) (h : (cfgOf u).same b c = true) :
    (cfgOf u).same a b = (cfgOf u).same a c := by
  rw [same_eq, same_eq] at *
  rw [Bool.eq_iff_iff, sameName_iff, sameName_iff, (sameName_iff _ b c).1 h]

theorem updateAt_congr (F : Spec.TNode → Spec.TNode) : ∀ (a b : List String), samePathS (upOf u) a b = true →
    ∀ s, Spec.updateAt (cfgOf u) F a s = Spec.updateAt (cfgOf u) F b s
  | [], [], _, _ => rfl
  | [], _ :: _, h, _ => by rw [samePathS_nil_cons] at h; cases h
  | _ :: _, [], h, _ => by rw [samePathS_cons_nil] at h; cases h
  | a :: as, b :: bs, h, s => by
    rw [samePathS_cons, Bool.and_eq_true] at h
    cases s with
    | file c => rfl
    | dir ch =>
      simp only [Spec.updateAt]
      apply congrArg Spec.TNode.dir
      apply List.map_congr_left
      intro x _
      obtain ⟨nm, c⟩ := x
      simp only
      rw [same_trans_right u nm a b (by rw [same_eq]; exact h.1), updateAt_congr F as bs h.2 c]

theorem updateAt_comp (F G : Spec.TNode → Spec.TNode) : ∀ (p : List String) (s : Spec.TNode),
    Spec.updateAt (cfgOf u) G p (Spec.updateAt (cfgOf u) F p s) = Spec.updateAt (cfgOf u) (G ∘ F) p s
  | [], _ => rfl
  | q :: r, .file c => rfl
  | q :: r, .dir ch => by
    simp only [Spec.updateAt, List.map_map]
    apply congrArg Spec.TNode.dir
    apply List.map_congr_left
    intro x _
    obtain ⟨nm, c⟩ := x
    simp only [Function.comp]
    cases hk : (cfgOf u).same nm q with
    | true =>
      simp only [if_true, hk]
      rw [updateAt_comp F G r c]
    | false => simp only [Bool.false_eq_true, if_false, hk]

theorem erase_insert_comm (given snm : String) (c s : Spec.TNode) (h : (cfgOf u).same given snm = false) :
    Spec.eraseChild (cfgOf u) snm (Spec.insertChild given c s) =
      Spec.insertChild given c (Spec.eraseChild (cfgOf u) snm s) := by
  cases s with
  | file b => rfl
  | dir ch =>
    simp only [Spec.insertChild, Spec.eraseChild, List.filter_append, List.filter_cons, List.filter_nil, h,
      Bool.not_false, if_true]

/-- when erasing at `sp` and inserting at `dp` commute, by the shape of the two paths alone -/
def CommCond (given snm : String) : List String → List String → Prop
  | [], [] => (cfgOf u).same given snm = false
  | [], _ :: _ => True
  | q :: _, [] => (cfgOf u).same given q = false
  | q1 :: r1, q2 :: r2 => (cfgOf u).same q1 q2 = true → CommCond given snm r1 r2

theorem spec_comm (given snm : String) (c : Spec.TNode) : ∀ (sp dp : List String), CommCond u given snm sp dp →
    ∀ s, Spec.updateAt (cfgOf u) (Spec.eraseChild (cfgOf u) snm) sp
        (Spec.updateAt (cfgOf u) (Spec.insertChild given c) dp s) =
      Spec.updateAt (cfgOf u) (Spec.insertChild given c) dp
        (Spec.updateAt (cfgOf u) (Spec.eraseChild (cfgOf u) snm) sp s)
  | [], [], h, s => erase_insert_comm u given snm c s h
  | [], q :: r, _, s => by
    cases s with
    | file b => rfl
    | dir ch =>
      simp only [Spec.updateAt, Spec.eraseChild, List.filter_map]
      apply congrArg Spec.TNode.dir
      apply congrArg
      apply List.filter_congr
      intro x _
      obtain ⟨nm, c'⟩ := x
      simp only [Function.comp]
      split <;> rfl
  | q :: r, [], h, s => by
    cases s with
    | file b => rfl
    | dir ch =>
      simp only [CommCond] at h
      simp only [Spec.updateAt, Spec.insertChild, List.map_append, List.map_cons, List.map_nil, h,
        Bool.false_eq_true, if_false]
  | q1 :: r1, q2 :: r2, h, s => by
    cases s with
    | file b => rfl
    | dir ch =>
      simp only [Spec.updateAt, List.map_map]
      apply congrArg Spec.TNode.dir
      apply List.map_congr_left
      intro x _
      obtain ⟨nm, c'⟩ := x
      simp only [Function.comp]
      cases h1 : (cfgOf u).same nm q1 with
      | true =>
        cases h2 : (cfgOf u).same nm q2 with
        | true =>
          simp only [h1, h2, if_true]
          have h12 : (cfgOf u).same q1 q2 = true := by
            rw [same_eq, sameName_iff] at *
            rw [← h1, h2]
          rw [spec_comm given snm c r1 r2 (h h12) c']
        | false => simp only [h1, h2, if_true, Bool.false_eq_true, if_false]
      | false =>
        cases h2 : (cfgOf u).same nm q2 with
        | true => simp only [h1, h2, if_true, Bool.false_eq_true, if_false]
        | false => simp only [h1, h2, Bool.false_eq_true, if_false]

/-! ## the short slot of the renamed entry -/

theorem listed_class {slots : List (List Nat)} (hs : Shape slots) {e : LfnEntry} (he : e ∈ listing slots) :
    slotClass e.sfn = .file := by
  obtain ⟨items, tail, rfl, hok, ht⟩ := hs
  unfold listing at he
  rw [listing_shape true items tail hok ht] at he
  obtain ⟨I1, R, sfn, I2, e1, e2⟩ := mem_listOf items 0 e he
  have := hok (.entry R sfn) (by rw [e1]; simp)
  rw [e2]
  exact this.2.2

theorem renamedSfn_eq (sfn a : List Nat) (ha : a.length = 11) : renamedSfn sfn a = a ++ sfn.drop 11 := by
  unfold renamedSfn
  rw [List.take_of_length_le (by omega)]

theorem byte_renamed_11 (sfn a : List Nat) (ha : a.length = 11) : Lfn.byte (renamedSfn sfn a) 11 = Lfn.byte sfn 11 := by
  rw [renamedSfn_eq sfn a ha]
  unfold Lfn.byte
  rw [List.getD_eq_getElem?_getD, List.getD_eq_getElem?_getD, List.getElem?_append_right (by omega), ha]
  simp

theorem byte_renamed_0 (sfn a : List Nat) (ha : a.length = 11) : Lfn.byte (renamedSfn sfn a) 0 = a.headD 0 := by
  rw [renamedSfn_eq sfn a ha]
  cases a with
  | nil => simp at ha
  | cons x xs => simp [Lfn.byte]

theorem sfnName_renamed (sfn a : List Nat) (ha : a.length = 11) : sfnName (renamedSfn sfn a) = a := by
  rw [renamedSfn_eq sfn a ha]
  exact sfnName_sfnWith a _ ha

theorem isDir_renamed (sfn a : List Nat) (ha : a.length = 11) : Lfn.isDir (renamedSfn sfn a) = Lfn.isDir sfn := by
  unfold Lfn.isDir Lfn.attrs
  rw [byte_renamed_11 sfn a ha]

theorem slotClass_renamed (sfn a : List Nat) (ha : Names.LegalAlias a) (hc : slotClass sfn = .file) :
    slotClass (renamedSfn sfn a) = .file := by
  obtain ⟨hl, _, _, h0, _, hE5, _⟩ := ha
  have hb0 := byte_renamed_0 sfn a hl
  have hb11 := byte_renamed_11 sfn a hl
  cases a with
  | nil => simp at hl
  | cons x xs =>
    have hx0 : x ≠ 0 := by simpa using h0
    have hxE : x ≠ 0xE5 := by simpa using hE5
    simp only [List.headD_cons] at hb0
    unfold slotClass at hc ⊢
    unfold Lfn.isEnd Lfn.isDeleted Lfn.isLfn Lfn.isVolume Lfn.attrs at hc ⊢
    rw [hb0, hb11]
    rw [if_neg (by simpa using hx0), if_neg (by simpa using hxE)]
    split at hc
    · cases hc
    · split at hc
      · cases hc
      · split at hc
        · cases hc
        · split at hc
          · cases hc
          · rename_i h3 h4
            rw [if_neg h3, if_neg h4]

/-- writing the renamed entry under the alias `check_for_existence` chose keeps the destination directory
    well-formed -/
theorem rename_write_wf {up : Char → List Char} (slots : List (List Nat)) (hwf : DirWf up slots) (name : String)
    (fuel : Nat) (a : List Nat) (sfn : List Nat) (hc : slotClass sfn = .file)
    (hv : Names.validateLongName name = .ok ())
    (h : checkForExistenceL up slots name none fuel = .ok (.alias a)) :
    DirWf up (writeEntry slots (Names.encodeUtf16 name.toList) (renamedSfn sfn a)) ∧
    slotClass (renamedSfn sfn a) = .file := by
  obtain ⟨v0, _, v1, v2, v3, v4⟩ := valid_units (cs := name.toList) hv
  have hleg := C16dir.dir_alias_legal up slots name none fuel a hv h
  have hcls := slotClass_renamed sfn a hleg hc
  refine ⟨?_, hcls⟩
  apply writeEntry_dirWf up slots name.toList _ hwf v0 v1 v2 v3 v4 hcls (check_alias up slots name none fuel a h).1
  · rw [sfnName_renamed sfn a hleg.1]
    exact C16dir.dir_alias_fresh up slots name none fuel a h
  · rw [sfnName_renamed sfn a hleg.1]
    exact C16dir.dir_alias_display_free up slots name none fuel a h

end SlotTree
end FatVerif
