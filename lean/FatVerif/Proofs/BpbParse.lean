import FatVerif.Proofs.BpbValidate
/-! `deserialize`: field projections, ranges, and the bridge between the model's fields and the independent
parse of `Spec/Geometry.lean`. -/
namespace FatVerif
namespace Bpb

/-! ### projections of `deserialize` -/

theorem des_isFat32 (b : List Nat) : (deserialize b).isFat32 = (u16At b 22 == 0) := by
  unfold deserialize
  by_cases h : (readCommon b).isFat32 = true <;> simp [h] <;> rfl

macro "des_common" b:term : tactic =>
  `(tactic| (unfold deserialize; by_cases h : (readCommon $b).isFat32 = true <;> simp [h] <;> rfl))

theorem des_bps (b : List Nat) : (deserialize b).bytesPerSector = u16At b 11 := by des_common b
theorem des_spc (b : List Nat) : (deserialize b).sectorsPerCluster = u8At b 13 := by des_common b
theorem des_rsvd (b : List Nat) : (deserialize b).reservedSectors = u16At b 14 := by des_common b
theorem des_fats (b : List Nat) : (deserialize b).fats = u8At b 16 := by des_common b
theorem des_root (b : List Nat) : (deserialize b).rootEntries = u16At b 17 := by des_common b
theorem des_ts16 (b : List Nat) : (deserialize b).totalSectors16 = u16At b 19 := by des_common b
theorem des_spf16 (b : List Nat) : (deserialize b).sectorsPerFat16 = u16At b 22 := by des_common b
theorem des_ts32 (b : List Nat) : (deserialize b).totalSectors32 = u32At b 32 := by des_common b

macro "des_ext" b:term : tactic =>
  `(tactic| (unfold deserialize
             by_cases h : (readCommon $b).isFat32 = true <;> simp [h] <;> simp [isFat32, readCommon] at h <;>
               simp [h] <;> rfl))

theorem des_spf32 (b : List Nat) :
    (deserialize b).sectorsPerFat32 = if u16At b 22 = 0 then u32At b 36 else 0 := by des_ext b
theorem des_extFlags (b : List Nat) :
    (deserialize b).extendedFlags = if u16At b 22 = 0 then u16At b 40 else 0 := by des_ext b
theorem des_fsVersion (b : List Nat) :
    (deserialize b).fsVersion = if u16At b 22 = 0 then u16At b 42 else 0 := by des_ext b
theorem des_rootCluster (b : List Nat) :
    (deserialize b).rootDirFirstCluster = if u16At b 22 = 0 then u32At b 44 else 0 := by des_ext b
theorem des_fsInfo (b : List Nat) :
    (deserialize b).fsInfoSector = if u16At b 22 = 0 then u16At b 48 else 0 := by des_ext b
theorem des_backup (b : List Nat) :
    (deserialize b).backupBootSector = if u16At b 22 = 0 then u16At b 50 else 0 := by des_ext b
theorem des_reserved1 (b : List Nat) :
    (deserialize b).reserved1 = if u16At b 22 = 0 then u8At b 65 else u8At b 37 := by des_ext b

theorem deserialize_inRange {b : List Nat} (hb : IsSector b) : (deserialize b).InRange := by
  constructor
  · rw [des_bps]; exact u16At_lt hb _
  · rw [des_spc]; exact u8At_lt hb _
  · rw [des_rsvd]; exact u16At_lt hb _
  · rw [des_fats]; exact u8At_lt hb _
  · rw [des_root]; exact u16At_lt hb _
  · rw [des_ts16]; exact u16At_lt hb _
  · rw [des_spf16]; exact u16At_lt hb _
  · rw [des_ts32]; exact u32At_lt hb _
  · rw [des_spf32]; have := u32At_lt hb 36; split <;> omega
  · rw [des_rootCluster]; have := u32At_lt hb 44; split <;> omega
  · rw [des_fsInfo]; have := u16At_lt hb 48; split <;> omega
  · rw [des_backup]; have := u16At_lt hb 50; split <;> omega
  · rw [des_extFlags]; have := u16At_lt hb 40; split <;> omega
  · rw [des_reserved1]; have := u8At_lt hb 65; have := u8At_lt hb 37; split <;> omega

end Bpb

/-! ### bridge to the independent parse -/
namespace GeoSpec
open Bpb

theorem field1 (b : List Nat) (i : Nat) : field b i 1 = u8At b i := by
  simp [field, u8At]
theorem field2 (b : List Nat) (i : Nat) : field b i 2 = u16At b i := by
  simp [field, u16At, le16]
theorem field4 (b : List Nat) (i : Nat) : field b i 4 = u32At b i := by
  have e2 : i + 1 + 1 = i + 2 := rfl
  have e3 : i + 2 + 1 = i + 3 := rfl
  simp only [field, u32At, le32, e2, e3]; omega

theorem bytsPerSec_eq (b : List Nat) : bytsPerSec b = (deserialize b).bytesPerSector := by
  rw [des_bps, bytsPerSec, field2]
theorem secPerClus_eq (b : List Nat) : secPerClus b = (deserialize b).sectorsPerCluster := by
  rw [des_spc, secPerClus, field1]
theorem rsvdSecCnt_eq (b : List Nat) : rsvdSecCnt b = (deserialize b).reservedSectors := by
  rw [des_rsvd, rsvdSecCnt, field2]
theorem numFATs_eq (b : List Nat) : numFATs b = (deserialize b).fats := by
  rw [des_fats, numFATs, field1]
theorem rootEntCnt_eq (b : List Nat) : rootEntCnt b = (deserialize b).rootEntries := by
  rw [des_root, rootEntCnt, field2]
theorem layout32_eq (b : List Nat) : layout32 b = (deserialize b).isFat32 := by
  rw [des_isFat32, layout32, fatSz16, field2]

theorem fatSz_eq (b : List Nat) : fatSz b = (deserialize b).sectorsPerFat := by
  unfold fatSz Bpb.sectorsPerFat
  rw [des_isFat32, des_spf32, des_spf16, fatSz16, fatSz32, field2, field4]
  by_cases h : u16At b 22 = 0 <;> simp [h]

theorem totSec_eq (b : List Nat) : totSec b = (deserialize b).totalSectors := by
  unfold totSec Bpb.totalSectors
  rw [des_ts16, des_ts32, totSec16, totSec32, field2, field4]
  by_cases h : u16At b 19 = 0 <;> simp [h]

theorem rootDirSectors_eq (b : List Nat) : rootDirSectors b = (deserialize b).rdsNat := by
  unfold rootDirSectors Bpb.rdsNat
  rw [rootEntCnt_eq, bytsPerSec_eq]
  by_cases h : (deserialize b).bytesPerSector = 0
  · simp [h]
  · congr 1; omega

theorem metaSectors_eq (b : List Nat) : metaSectors b = (deserialize b).fdsNat := by
  unfold metaSectors Bpb.fdsNat
  rw [rsvdSecCnt_eq, numFATs_eq, fatSz_eq, rootDirSectors_eq]

theorem countOfClusters_eq (b : List Nat) : countOfClusters b = (deserialize b).tcNat := by
  unfold countOfClusters dataSec Bpb.tcNat
  rw [totSec_eq, metaSectors_eq, secPerClus_eq]

theorem fatTypeOfCount_eq (n : Nat) : fatTypeOfCount n = FatType.fromClusters n := rfl

theorem rootClus_eq (b : List Nat) (h : (deserialize b).isFat32 = true) :
    rootClus b = (deserialize b).rootDirFirstCluster := by
  rw [des_isFat32] at h
  rw [des_rootCluster, rootClus, field4]; simp_all
theorem fsInfo_eq (b : List Nat) (h : (deserialize b).isFat32 = true) :
    fsInfo b = (deserialize b).fsInfoSector := by
  rw [des_isFat32] at h
  rw [des_fsInfo, fsInfo, field2]; simp_all
theorem bkBootSec_eq (b : List Nat) (h : (deserialize b).isFat32 = true) :
    bkBootSec b = (deserialize b).backupBootSector := by
  rw [des_isFat32] at h
  rw [des_backup, bkBootSec, field2]; simp_all

end GeoSpec
end FatVerif
