import FatVerif.Proofs.SlotTreeRename2
/-!
# Slot trees: with the fuel of `C16dir.dir_alias_terminates` no call ends in the model's `hang` outcome
-/
namespace FatVerif
namespace SlotTree
open Lfn DirSlots DirAlias

variable {up : Char → List Char}

/-- the fuel suffices for the alias loop in this directory (`C16dir.dir_alias_terminates`) -/
def Sized (fuel : Nat) (slots : List (List Nat)) (_ : List (LfnEntry × Node)) : Prop :=
  (listing slots).length < 3 * 65536 ∧ 15 * ((listing slots).length / 3) + 15 ≤ fuel

theorem walkDirsS_err (t : Node) : ∀ (comps cur : List String) (e : Err),
    walkDirsS up t cur comps = .error e → e = .notFound ∨ e = .invalidInput := by
  intro comps
  induction comps with
  | nil =>
    intro cur e h
    unfold walkDirsS at h
    repeat' split at h
    all_goals first | (cases h; done) | (simp only [Except.error.injEq] at h; exact Or.inl h.symm)
  | cons c rest ih =>
    intro cur e h
    unfold walkDirsS at h
    split at h
    · rename_i e' hs
      simp only [Except.error.injEq] at h
      rw [← h]
      exact Or.inl (stepCompS_err hs)
    · exact ih _ e h
    · simp only [Except.error.injEq] at h
      exact Or.inr h.symm

theorem validate_err (name : String) (e : Err) (h : Names.validateLongName name = .error e) : e ≠ .hang := by
  unfold Names.validateLongName Names.validateLongNameL at h
  repeat' split at h
  all_goals first | (cases h; done) | (simp only [Except.error.injEq] at h; rw [← h]; simp)

theorem check_no_hang (hup : UpperFixes up) (fuel : Nat) (slots : List (List Nat)) (ch : List (LfnEntry × Node))
    (hs : Sized fuel slots ch) (name : String) (isDir : Option Bool) :
    checkForExistenceL up slots name isDir fuel ≠ .error .hang :=
  (C16dir.dir_alias_terminates up hup slots name isDir fuel hs.1 hs.2).1

theorem fail_out (t : Node) (e : Err) : (fail t e).out = .error e := rfl
theorem done_out (t : Node) : (done t).out = .ok [] := rfl

theorem createFinal_no_hang (hup : UpperFixes up) (fuel : Nat) (t : Node) (p : List String)
    (slots : List (List Nat)) (ch : List (LfnEntry × Node)) (hs : Sized fuel slots ch) (name : String)
    (wantDir : Bool) (stamp : List Nat) : (createFinal up fuel t p slots name wantDir stamp).out ≠ .error .hang := by
  have hc := check_no_hang hup fuel slots ch hs name (some wantDir)
  unfold createFinal
  split
  · rename_i e he
    rw [fail_out]
    intro h
    simp only [Except.error.injEq] at h
    rw [h] at he
    exact hc he
  · simp [done_out]
  · split
    · simp [fail_out]
    · split
      · rename_i e he
        rw [fail_out]
        intro h
        simp only [Except.error.injEq] at h
        exact validate_err _ _ he h
      · simp [done_out]

theorem renameFinal_no_hang (hup : UpperFixes up) (fuel : Nat) (t : Node) (sp : List String) (e : LfnEntry)
    (c : Node) (dp : List String) (slots : List (List Nat)) (ch : List (LfnEntry × Node)) (hs : Sized fuel slots ch)
    (name : String) : (renameFinal up fuel t sp e c dp slots name).out ≠ .error .hang := by
  have hc := check_no_hang hup fuel slots ch hs name none
  unfold renameFinal
  split
  · simp [fail_out]
  · split
    · rename_i e he
      rw [fail_out]
      intro h
      simp only [Except.error.injEq] at h
      rw [h] at he
      exact hc he
    · split <;> simp [fail_out, done_out]
    · simp [done_out]

theorem sized_at {fuel : Nat} {t : Node} (hsz : t.All (Sized fuel)) {p : List String} {s : List (List Nat)}
    {ch : List (LfnEntry × Node)} (hg : getAtS up t p = some (.dir s ch)) : Sized fuel s ch :=
  ((all_dir _ s ch).1 (all_getAtS _ p t _ hsz hg)).1

theorem err_ne_hang_of_walk {t : Node} {cur comps : List String} {e : Err}
    (h : walkDirsS up t cur comps = .error e) : e ≠ .hang := by
  rcases walkDirsS_err t comps cur e h with h | h <;> rw [h] <;> simp

/-- **no `hang`**: if the case folding leaves the characters of short names alone and every directory of the tree
    lists fewer than `3·65536` entries with `15·(n/3) + 15 ≤ fuel`, no call ends in the fuel-exhaustion outcome -/
theorem no_hang_of_fuel (hup : UpperFixes up) (fuel : Nat) (t : Node) (hsz : t.All (Sized fuel)) (op : Spec.Op)
    (stamp : List Nat) : (stepSlot up fuel t op stamp).out ≠ .error .hang := by
  have hopen : ∀ cwd p w, (openS up t cwd p w).out ≠ .error .hang := by
    intro cwd p w
    unfold openS
    split
    · rename_i e he
      rw [fail_out]; intro h; simp only [Except.error.injEq] at h; exact err_ne_hang_of_walk he h
    · split
      · rename_i e he
        rw [fail_out, stepCompS_err he]; simp
      · split <;> simp [fail_out, done_out]
  have hcreate : ∀ cwd p w, (createS up fuel t cwd p w stamp).out ≠ .error .hang := by
    intro cwd p w
    unfold createS
    split
    · rename_i e he
      rw [fail_out]; intro h; simp only [Except.error.injEq] at h; exact err_ne_hang_of_walk he h
    · split
      · rename_i slots ch hg
        split
        · simp [fail_out]
        · split
          · simp [done_out]
          · exact createFinal_no_hang hup fuel t _ slots ch (sized_at hsz hg) _ w stamp
      · simp [fail_out]
  cases op with
  | createFile cwd p => exact hcreate cwd p false
  | createDir cwd p => exact hcreate cwd p true
  | openFile cwd p => exact hopen cwd p false
  | openDir cwd p => exact hopen cwd p true
  | list cwd =>
    simp only [stepSlot]
    unfold listS
    split <;> simp [fail_out]
  | remove cwd p =>
    simp only [stepSlot]
    unfold removeS
    split
    · rename_i e he
      rw [fail_out]; intro h; simp only [Except.error.injEq] at h; exact err_ne_hang_of_walk he h
    · split
      · split
        · simp [fail_out]
        · split
          · simp [fail_out]
          · split <;> simp [fail_out, done_out]
      · simp [fail_out]
  | rename cwd s d p =>
    simp only [stepSlot]
    unfold renameS
    split
    · rename_i e he
      rw [fail_out]; intro h; simp only [Except.error.injEq] at h; exact err_ne_hang_of_walk he h
    · split
      · rename_i e he
        rw [fail_out]; intro h; simp only [Except.error.injEq] at h; exact err_ne_hang_of_walk he h
      · unfold renameInternalS
        split
        · simp [fail_out]
        · split
          · rename_i ss sch ds dch hgs hgd
            split
            · simp [fail_out]
            · split
              · rename_i e he
                rw [fail_out]; intro h; simp only [Except.error.injEq] at h; exact validate_err _ _ he h
              · exact renameFinal_no_hang hup fuel t _ _ _ _ ds dch (sized_at hsz hgd) _
          · simp [fail_out]

end SlotTree
end FatVerif
