import FatVerif.Proofs.BpbProbe
/-! Offset arithmetic on an accepted geometry (C11.1 / C20.1–2): cluster → byte offset, FAT entry offsets, FAT and
fixed-root slices. Nonlinear products are handled by splitting on the legal sector sizes and sectors per cluster. -/
namespace FatVerif
open Bpb

/-- pure arithmetic core of `offset_arith` -/
theorem offset_bounds {spc bps ts fds c : Nat}
    (hspc : spc = 1 ∨ spc = 2 ∨ spc = 4 ∨ spc = 8 ∨ spc = 16 ∨ spc = 32 ∨ spc = 64 ∨ spc = 128)
    (hbps : bps = 512 ∨ bps = 1024 ∨ bps = 2048 ∨ bps = 4096)
    (hts : ts < 4294967296) (hc2 : 2 ≤ c) (hc : c < (ts - fds) / spc + 2) :
    (c - 2) * spc + spc ≤ ts - fds ∧
    fds * bps ≤ (fds + (c - 2) * spc) * bps ∧
    (fds + (c - 2) * spc) * bps + spc * bps ≤ ts * bps ∧
    ts * bps < 17592186044416 := by
  rcases hspc with rfl | rfl | rfl | rfl | rfl | rfl | rfl | rfl <;>
    rcases hbps with rfl | rfl | rfl | rfl <;> omega

/-- `offset_from_cluster` on a validated boot sector: exact, no wrap, inside the data area -/
theorem offsetFromCluster_ok {p : Bpb} (hr : p.InRange) (hv : p.Valid) {c : Nat} (hc2 : 2 ≤ c)
    (hc : c < p.tcNat + 2) :
    offsetFromCluster p p.fdsNat c = .ok ((p.fdsNat + (c - 2) * p.sectorsPerCluster) * p.bytesPerSector) ∧
    p.fdsNat * p.bytesPerSector ≤ (p.fdsNat + (c - 2) * p.sectorsPerCluster) * p.bytesPerSector ∧
    (p.fdsNat + (c - 2) * p.sectorsPerCluster) * p.bytesPerSector + p.sectorsPerCluster * p.bytesPerSector
      ≤ p.totalSectors * p.bytesPerSector ∧
    p.totalSectors * p.bytesPerSector < 17592186044416 := by
  have hts := totalSectors_lt hr
  have hfds := hv.fds
  obtain ⟨h1, h2, h3, h4⟩ := offset_bounds hv.spc hv.bps hts hc2 hc
  refine ⟨?_, h2, h3, h4⟩
  unfold offsetFromCluster sectorFromCluster sectorsFromClusters bytesFromSectors
  rw [u32Sub_of_le hc2, ebind_ok, u32Mul_of_lt (by omega), ebind_ok, u32Add_of_lt (by omega), ebind_ok,
    u64Mul_of_lt (by omega)]

/-- `sector_from_cluster` on a validated boot sector: exact, no `u32` wrap, below the declared sector count -/
theorem sectorFromCluster_ok {p : Bpb} (hr : p.InRange) (hv : p.Valid) {c : Nat} (hc2 : 2 ≤ c)
    (hc : c < p.tcNat + 2) :
    sectorFromCluster p p.fdsNat c = .ok (p.fdsNat + (c - 2) * p.sectorsPerCluster) ∧
    p.fdsNat + (c - 2) * p.sectorsPerCluster + p.sectorsPerCluster ≤ p.totalSectors := by
  have hts := totalSectors_lt hr
  have hfds := hv.fds
  obtain ⟨h1, _, _, _⟩ := offset_bounds hv.spc hv.bps hts hc2 hc
  refine ⟨?_, by omega⟩
  unfold sectorFromCluster sectorsFromClusters
  rw [u32Sub_of_le hc2, ebind_ok, u32Mul_of_lt (by omega), ebind_ok, u32Add_of_lt (by omega)]

/-! ### every getter is total on a validated boot sector -/

theorem sectorsPerAllFats_valid {p : Bpb} (hv : p.Valid) :
    p.sectorsPerAllFats = .ok (p.fats * p.sectorsPerFat) := by
  unfold sectorsPerAllFats; rw [u32Mul_of_lt hv.fatsXspf]

theorem firstDataSector_valid {p : Bpb} (hr : p.InRange) (hv : p.Valid) : p.firstDataSector = .ok p.fdsNat := by
  have := hv.bps; have := hv.fds; have := totalSectors_lt hr
  exact (firstDataSector_ok hr (by omega)).2 ⟨hv.fatsXspf, by omega, rfl⟩

theorem totalClusters_valid {p : Bpb} (hr : p.InRange) (hv : p.Valid) : p.totalClusters = .ok p.tcNat := by
  have := hv.bps; have := hv.fds; have := totalSectors_lt hr; have := hv.spc
  exact (totalClusters_ok hr (by omega)).2 ⟨hv.fatsXspf, by omega, by omega, by omega, rfl⟩

/-- `bytes_from_sectors` is total on every `u32` argument -/
theorem bytesFromSectors_total {p : Bpb} (hr : p.InRange) {s : Nat} (hs : s < 4294967296) :
    p.bytesFromSectors s = .ok (s * p.bytesPerSector) := by
  have : s * p.bytesPerSector < 4294967296 * 65536 := Nat.mul_lt_mul'' hs hr.bps
  unfold bytesFromSectors; rw [u64Mul_of_lt (by omega)]

/-- `sectors_from_clusters` / `bytes_from_clusters` are total up to the cluster count -/
theorem sectorsFromClusters_valid {p : Bpb} (hr : p.InRange) (hv : p.Valid) {k : Nat} (hk : k ≤ p.tcNat) :
    p.sectorsFromClusters k = .ok (k * p.sectorsPerCluster) ∧ k * p.sectorsPerCluster ≤ p.totalSectors - p.fdsNat := by
  have hts := totalSectors_lt hr
  have hle : k * p.sectorsPerCluster ≤ p.totalSectors - p.fdsNat := by
    unfold tcNat at hk
    rcases hv.spc with h | h | h | h | h | h | h | h <;> rw [h] at hk ⊢ <;> omega
  refine ⟨?_, hle⟩
  unfold sectorsFromClusters; rw [u32Mul_of_lt (by omega)]

theorem bytesFromClusters_valid {p : Bpb} (hr : p.InRange) (hv : p.Valid) {k : Nat} (hk : k ≤ p.tcNat) :
    bytesFromClusters p k = .ok (k * p.sectorsPerCluster * p.bytesPerSector) := by
  obtain ⟨h1, h2⟩ := sectorsFromClusters_valid hr hv hk
  have hts := totalSectors_lt hr
  unfold bytesFromClusters
  rw [h1, ebind_ok, bytesFromSectors_total hr (by omega)]

/-- `clusters_from_bytes` is total for every byte count below 2^63 -/
theorem clustersFromBytes_valid {p : Bpb} (hr : p.InRange) (hv : p.Valid) {n : Nat} (hn : n < 9223372036854775808) :
    p.clustersFromBytes n =
      .ok ((n + p.sectorsPerCluster * p.bytesPerSector - 1) / (p.sectorsPerCluster * p.bytesPerSector) % 4294967296) := by
  have h1 := hr.bps; have h2 := hr.spc
  have hm : p.sectorsPerCluster * p.bytesPerSector < 256 * 65536 := Nat.mul_lt_mul'' h2 h1
  have hpos : 0 < p.sectorsPerCluster * p.bytesPerSector := by
    have := hv.bps; have := hv.spc
    exact Nat.mul_pos (by omega) (by omega)
  unfold clustersFromBytes
  rw [clusterSize_eq hr, ebind_ok, u64Add_of_lt (by omega), ebind_ok]
  unfold u64Sub u64Div
  rw [if_pos (by omega), ebind_ok, if_neg (by omega), ebind_ok]
  rfl

/-- FAT entry offsets stay inside one FAT copy of `fatBytes` bytes when the FAT has an entry for every cluster -/
theorem fatEntry_inside {bits fatBytes total c : Nat} (hbits : bits = 12 ∨ bits = 16 ∨ bits = 32)
    (hfat : total + 2 ≤ fatBytes * 8 / bits) (hc : c < total + 2) :
    (bits = 32 → c * 4 + 4 ≤ fatBytes) ∧ (bits = 16 → c * 2 + 2 ≤ fatBytes) ∧
    (bits = 12 → c + c / 2 + 2 ≤ fatBytes) := by
  rcases hbits with rfl | rfl | rfl <;> refine ⟨?_, ?_, ?_⟩ <;> intro h <;> omega

/-- the `u32` products `cluster * 4`, `cluster * 2`, `cluster + cluster / 2` of `table.rs` do not wrap -/
theorem fatEntry_nowrap {p : Bpb} (hv : p.Valid) {c : Nat} (hc : c < p.tcNat + 2) :
    c * 4 < 4294967296 ∧ c * 2 < 4294967296 ∧ c + c / 2 < 4294967296 := by
  have := hv.limit
  omega

/-- first sector, length and replication of the FAT slice (`fat_slice`), in sectors -/
theorem fatSlice_ok {p : Bpb} (hr : p.InRange) (hv : p.Valid)
    (hact : p.mirroringEnabled = false → p.activeFat < p.fats) :
    ∃ first, fatSliceFirstSector p = .ok first ∧
      fatSlice p = .ok { sBegin := first * p.bytesPerSector, size := p.sectorsPerFat * p.bytesPerSector,
                         mirrors := fatSliceMirrors p } ∧
      p.reservedSectors ≤ first ∧
      first + fatSliceMirrors p * p.sectorsPerFat ≤ p.reservedSectors + p.fats * p.sectorsPerFat := by
  have hrs := hr.rsvd
  have hspf := sectorsPerFat_lt hr
  have hbps := hr.bps
  have hfx := hv.fatsXspf
  have hfds := hv.fds
  have hts := totalSectors_lt hr
  have hsz : p.sectorsPerFat * p.bytesPerSector < 18446744073709551616 := by
    have : p.sectorsPerFat * p.bytesPerSector < 4294967296 * 65536 := Nat.mul_lt_mul'' hspf hbps
    omega
  cases hm : p.mirroringEnabled with
  | true =>
    refine ⟨p.reservedSectors, by simp [fatSliceFirstSector, hm], ?_, Nat.le_refl _, ?_⟩
    · have : p.reservedSectors * p.bytesPerSector < 65536 * 65536 := Nat.mul_lt_mul'' hrs hbps
      simp only [fatSlice, fatSliceFirstSector, hm, sliceFromSectors, bytesFromSectors, ite_true, epure_eq, ebind_ok]
      rw [u64Mul_of_lt (by omega), ebind_ok, u64Mul_of_lt hsz, ebind_ok]
    · simp [fatSliceMirrors, hm]
  | false =>
    have ha := hact hm
    have hle : (p.activeFat + 1) * p.sectorsPerFat ≤ p.fats * p.sectorsPerFat :=
      Nat.mul_le_mul_right _ ha
    rw [Nat.add_mul, Nat.one_mul] at hle
    have hfirst : fatSliceFirstSector p = .ok (p.reservedSectors + p.activeFat * p.sectorsPerFat) := by
      simp only [fatSliceFirstSector, hm, Bool.false_eq_true, ite_false]
      rw [u32Mul_of_lt (by omega), ebind_ok, u32Add_of_lt]
      unfold fdsNat at hfds; omega
    refine ⟨_, hfirst, ?_, by omega, ?_⟩
    · have h32 : p.reservedSectors + p.activeFat * p.sectorsPerFat < 4294967296 := by
        unfold fdsNat at hfds; omega
      have : (p.reservedSectors + p.activeFat * p.sectorsPerFat) * p.bytesPerSector < 4294967296 * 65536 :=
        Nat.mul_lt_mul'' h32 hbps
      simp only [fatSlice, hfirst, sliceFromSectors, bytesFromSectors, ebind_ok]
      rw [u64Mul_of_lt (by omega), ebind_ok, u64Mul_of_lt hsz, ebind_ok]
      rfl
    · simp only [fatSliceMirrors, hm, Bool.false_eq_true, ite_false]; omega

/-- the fixed root directory slice of FAT12/16 (`root_dir()`), in sectors: it starts right after the FATs and ends at
    the first data sector -/
theorem rootDirSlice_ok {p : Bpb} (hr : p.InRange) (hv : p.Valid) :
    rootDirSlice p p.fdsNat p.rdsNat =
      .ok { sBegin := (p.reservedSectors + p.fats * p.sectorsPerFat) * p.bytesPerSector,
            size := p.rdsNat * p.bytesPerSector, mirrors := 1 } := by
  have hbps := hr.bps
  have hfds := hv.fds
  have hts := totalSectors_lt hr
  have hb : 512 ≤ p.bytesPerSector := by have := hv.bps; omega
  have hrd := rdsNat_le hr hb
  have e : p.fdsNat - p.rdsNat = p.reservedSectors + p.fats * p.sectorsPerFat := by unfold fdsNat; omega
  have h32 : p.reservedSectors + p.fats * p.sectorsPerFat < 4294967296 := by unfold fdsNat at hfds; omega
  have h1 : (p.reservedSectors + p.fats * p.sectorsPerFat) * p.bytesPerSector < 4294967296 * 65536 :=
    Nat.mul_lt_mul'' h32 hbps
  have h2 : p.rdsNat * p.bytesPerSector < 4097 * 65536 := Nat.mul_lt_mul'' (by omega) hbps
  unfold rootDirSlice sliceFromSectors bytesFromSectors
  rw [u32Sub_of_le (by unfold fdsNat; omega), ebind_ok, e, u64Mul_of_lt (by omega), ebind_ok,
    u64Mul_of_lt (by omega), ebind_ok]
  rfl

end FatVerif
